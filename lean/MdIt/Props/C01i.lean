import MdIt.Props.C01g
import MdIt.InlineLink
/-!
# C01 (continued) — towards totality of the inline sub-parser with the `link` rule

The link rule re-enters the engine in silent mode (`skipToken`) and in normal mode (`tokenize` on the label), so the contract of a
rule has to speak about both modes, and about the state the re-entries rely on: the position memo (`CacheOK`: every memo entry
points forward — otherwise `parseLinkLabel` would spin) and the stack of delimiter scopes (`scopes`, `openAt`: a closing push pops
what the opening push pushed).
-/
namespace MdIt.C01

/-- the rule leaves the position memo and the scope stack alone -/
def IKeep3 (r : IRule) : Prop :=
  ∀ s silent m s', ICtx s → r s silent = .ok (m, s') → s'.cache = s.cache ∧ s'.scopes = s.scopes ∧ s'.openAt = s.openAt

@[simp] theorem push_cache (s : IState) (ty tag : String) (n : Int) (c m i : String) : (s.push ty tag n c m i).cache = s.cache := by
  unfold IState.push IState.pushPending; simp only; split <;> rfl
@[simp] theorem push_scopes (s : IState) (ty tag : String) (n : Int) (c m i : String) : (s.push ty tag n c m i).scopes = s.scopes := by
  unfold IState.push IState.pushPending; simp only; split <;> rfl
@[simp] theorem push_openAt (s : IState) (ty tag : String) (n : Int) (c m i : String) : (s.push ty tag n c m i).openAt = s.openAt := by
  unfold IState.push IState.pushPending; simp only; split <;> rfl
@[simp] theorem pushA_cache (s : IState) (ty tag : String) (n : Int) (a) (c m i : String) : (s.pushA ty tag n a c m i).cache = s.cache := by
  unfold IState.pushA; simp
@[simp] theorem pushA_scopes (s : IState) (ty tag : String) (n : Int) (a) (c m i : String) : (s.pushA ty tag n a c m i).scopes = s.scopes := by
  unfold IState.pushA; simp
@[simp] theorem pushA_openAt (s : IState) (ty tag : String) (n : Int) (a) (c m i : String) : (s.pushA ty tag n a c m i).openAt = s.openAt := by
  unfold IState.pushA; simp

theorem keep3_text : IKeep3 ruleText := by
  intro s silent m s' _ hr
  unfold ruleText at hr
  split at hr <;> (simp only [Except.ok.injEq, Prod.mk.injEq] at hr; obtain ⟨_, rfl⟩ := hr; exact ⟨rfl, rfl, rfl⟩)

theorem keep3_newline : IKeep3 ruleNewline := by
  intro s silent m s' hc hr
  have hin : s.pos < s.src.length := by have := hc.1; have := hc.2; omega
  unfold ruleNewline at hr
  rw [List.getElem?_eq_getElem hin] at hr
  simp only at hr
  split at hr
  all_goals (simp only [Except.ok.injEq, Prod.mk.injEq] at hr; obtain ⟨_, rfl⟩ := hr)
  · exact ⟨rfl, rfl, rfl⟩
  · cases silent
    · simp only [Bool.false_eq_true, if_false]; repeat' split
      all_goals simp
    · exact ⟨rfl, rfl, rfl⟩


theorem keep3_escape : IKeep3 ruleEscape := by
  intro s silent m s' hc hr
  have hin : s.pos < s.src.length := by have := hc.1; have := hc.2; omega
  unfold ruleEscape at hr
  rw [List.getElem?_eq_getElem hin] at hr
  simp only at hr
  split at hr
  · simp only [Except.ok.injEq, Prod.mk.injEq] at hr; obtain ⟨_, rfl⟩ := hr; exact ⟨rfl, rfl, rfl⟩
  · split at hr
    · simp only [Except.ok.injEq, Prod.mk.injEq] at hr; obtain ⟨_, rfl⟩ := hr; exact ⟨rfl, rfl, rfl⟩
    · split at hr
      · cases hr
      · split at hr
        all_goals (simp only [Except.ok.injEq, Prod.mk.injEq] at hr; obtain ⟨_, rfl⟩ := hr; cases silent <;> simp)

theorem keep3_backticks : IKeep3 ruleBackticks := by
  intro s silent m s' hc hr
  have hin : s.pos < s.src.length := by have := hc.1; have := hc.2; omega
  unfold ruleBackticks at hr
  rw [List.getElem?_eq_getElem hin] at hr
  simp only at hr
  split at hr
  · simp only [Except.ok.injEq, Prod.mk.injEq] at hr; obtain ⟨_, rfl⟩ := hr; exact ⟨rfl, rfl, rfl⟩
  · split at hr
    · simp only [Except.ok.injEq, Prod.mk.injEq] at hr; obtain ⟨_, rfl⟩ := hr; exact ⟨rfl, rfl, rfl⟩
    · split at hr
      all_goals (simp only [Except.ok.injEq, Prod.mk.injEq] at hr; obtain ⟨_, rfl⟩ := hr; cases silent <;> simp)

theorem emphPush_keep3 (marker : Char) (count : Nat) (o c : Bool) : ∀ (k : Nat) (s : IState),
    (emphPush marker count o c k s).cache = s.cache ∧ (emphPush marker count o c k s).scopes = s.scopes
      ∧ (emphPush marker count o c k s).openAt = s.openAt := by
  intro k
  induction k with
  | zero => intro s; exact ⟨rfl, rfl, rfl⟩
  | succ n ih =>
    intro s
    simp only [emphPush]
    obtain ⟨a, b, c'⟩ := ih { (s.push "text" "" 0 (String.singleton marker) "" "") with delimiters := (s.push "text" "" 0 (String.singleton marker) "" "").delimiters ++
        [{ marker := marker.toNat, length := count, token := ((s.push "text" "" 0 (String.singleton marker) "" "").tokens.length : Int) - 1, end_ := -1, open_ := o, close := c }] }
    exact ⟨a.trans (push_cache s "text" "" 0 (String.singleton marker) "" ""), b.trans (push_scopes s "text" "" 0 (String.singleton marker) "" ""),
      c'.trans (push_openAt s "text" "" 0 (String.singleton marker) "" "")⟩

theorem strikePush_keep3 (o c : Bool) : ∀ (k : Nat) (s : IState),
    (strikePush o c k s).cache = s.cache ∧ (strikePush o c k s).scopes = s.scopes ∧ (strikePush o c k s).openAt = s.openAt := by
  intro k
  induction k with
  | zero => intro s; exact ⟨rfl, rfl, rfl⟩
  | succ n ih =>
    intro s
    simp only [strikePush]
    obtain ⟨a, b, c'⟩ := ih { (s.push "text" "" 0 "~~" "" "") with delimiters := (s.push "text" "" 0 "~~" "" "").delimiters ++
        [{ marker := 0x7E, length := 0, token := ((s.push "text" "" 0 "~~" "" "").tokens.length : Int) - 1, end_ := -1, open_ := o, close := c }] }
    exact ⟨a.trans (push_cache s "text" "" 0 "~~" "" ""), b.trans (push_scopes s "text" "" 0 "~~" "" ""), c'.trans (push_openAt s "text" "" 0 "~~" "" "")⟩

theorem keep3_emphasis (cls : QCls) : IKeep3 (ruleEmphasis cls) := by
  intro s silent m s' hc hr
  have hin : s.pos < s.src.length := by have := hc.1; have := hc.2; omega
  unfold ruleEmphasis at hr
  rw [List.getElem?_eq_getElem hin] at hr
  simp only at hr
  split at hr
  · simp only [Except.ok.injEq, Prod.mk.injEq] at hr; obtain ⟨_, rfl⟩ := hr; exact ⟨rfl, rfl, rfl⟩
  · split at hr
    · simp only [Except.ok.injEq, Prod.mk.injEq] at hr; obtain ⟨_, rfl⟩ := hr; exact ⟨rfl, rfl, rfl⟩
    · simp only [Except.ok.injEq, Prod.mk.injEq] at hr
      obtain ⟨_, rfl⟩ := hr
      exact emphPush_keep3 _ _ _ _ _ s

theorem keep3_strike (cls : QCls) : IKeep3 (ruleStrike cls) := by
  intro s silent m s' hc hr
  have hin : s.pos < s.src.length := by have := hc.1; have := hc.2; omega
  unfold ruleStrike at hr
  rw [List.getElem?_eq_getElem hin] at hr
  simp only at hr
  split at hr
  · simp only [Except.ok.injEq, Prod.mk.injEq] at hr; obtain ⟨_, rfl⟩ := hr; exact ⟨rfl, rfl, rfl⟩
  · split at hr
    · simp only [Except.ok.injEq, Prod.mk.injEq] at hr; obtain ⟨_, rfl⟩ := hr; exact ⟨rfl, rfl, rfl⟩
    · split at hr
      · simp only [Except.ok.injEq, Prod.mk.injEq] at hr; obtain ⟨_, rfl⟩ := hr; exact ⟨rfl, rfl, rfl⟩
      · simp only [Except.ok.injEq, Prod.mk.injEq] at hr
        obtain ⟨_, rfl⟩ := hr
        obtain ⟨a, b, c'⟩ := strikePush_keep3 (scanDelims cls s s.pos true).1 (scanDelims cls s s.pos true).2.1 ((scanDelims cls s s.pos true).2.2 / 2)
          (if (scanDelims cls s s.pos true).2.2 % 2 = 1 then s.push "text" "" 0 "~" "" "" else s)
        refine ⟨a.trans ?_, b.trans ?_, c'.trans ?_⟩ <;> split <;> simp

theorem keep3_entity (ext : IExt) : IKeep3 (ruleEntity ext) := by
  intro s silent m s' hc hr
  have hin : s.pos < s.src.length := by have := hc.1; have := hc.2; omega
  unfold ruleEntity at hr
  rw [List.getElem?_eq_getElem hin] at hr
  simp only at hr
  repeat' split at hr
  all_goals first
    | (simp only [Except.ok.injEq, Prod.mk.injEq] at hr; obtain ⟨_, rfl⟩ := hr; first | exact ⟨rfl, rfl, rfl⟩ | simp | (cases silent <;> simp))
    | (cases hr; done)

theorem autolinkPush_keep3 (ext : IExt) (s : IState) (href url : List Char) :
    (autolinkPush ext s href url).cache = s.cache ∧ (autolinkPush ext s href url).scopes = s.scopes
      ∧ (autolinkPush ext s href url).openAt = s.openAt := by
  unfold autolinkPush; simp

theorem keep3_autolink (ext : IExt) : IKeep3 (ruleAutolink ext) := by
  intro s silent m s' hc hr
  have hin : s.pos < s.src.length := by have := hc.1; have := hc.2; omega
  unfold ruleAutolink at hr
  rw [List.getElem?_eq_getElem hin] at hr
  simp only at hr
  repeat' split at hr
  all_goals first
    | (simp only [Except.ok.injEq, Prod.mk.injEq] at hr; obtain ⟨_, rfl⟩ := hr
       first | exact ⟨rfl, rfl, rfl⟩ | (cases silent <;> simp [autolinkPush_keep3]))
    | (cases hr; done)

theorem keep3_htmlInline (ext : IExt) : IKeep3 (ruleHtmlInline ext) := by
  intro s silent m s' hc hr
  have hin : s.pos < s.src.length := by have := hc.1; have := hc.2; omega
  unfold ruleHtmlInline at hr
  split at hr
  · simp only [Except.ok.injEq, Prod.mk.injEq] at hr; obtain ⟨_, rfl⟩ := hr; exact ⟨rfl, rfl, rfl⟩
  · rw [List.getElem?_eq_getElem hin] at hr
    simp only at hr
    repeat' split at hr
    all_goals first
      | (simp only [Except.ok.injEq, Prod.mk.injEq] at hr; obtain ⟨_, rfl⟩ := hr
         first | exact ⟨rfl, rfl, rfl⟩ | (cases silent <;> simp))
      | (cases hr; done)


/-! ### the contract for both modes -/

/-- every memo entry points forward -/
def CacheOK (s : IState) : Prop := ∀ p ∈ s.cache, p.1 < p.2

/-- what a call (silent or not) from a state inside the loop's context returns -/
def Ret4 (s : IState) (m : Bool) (s' : IState) : Prop :=
  s'.src = s.src ∧ s'.level = s.level ∧ s'.posMax = s.posMax ∧ s'.scopes = s.scopes ∧ s'.openAt = s.openAt ∧ CacheOK s'
    ∧ (m = true → s.pos < s'.pos) ∧ (m = false → s'.pos = s.pos)

def IOK4 (r : IRule) : Prop :=
  ∀ s silent, ICtx s → CacheOK s → ∃ m s', r s silent = .ok (m, s') ∧ Ret4 s m s'

/-- what a silent call returns, for the rules that do not re-enter the engine -/
def SilentShape (r : IRule) : Prop :=
  ∀ s, ICtx s → ∃ m s', r s true = .ok (m, s') ∧ s'.src = s.src ∧ s'.level = s.level ∧ s'.posMax = s.posMax
    ∧ (m = true → s.pos < s'.pos) ∧ (m = false → s'.pos = s.pos)

theorem iok4_of (r : IRule) (h2 : IRuleOK2 r) (hk : IKeep3 r) (hs : SilentShape r) : IOK4 r := by
  intro s silent hc hcache
  cases silent with
  | true =>
    obtain ⟨m, s', hr, a, b, c, d, e⟩ := hs s hc
    obtain ⟨k1, k2, k3⟩ := hk s true m s' hc hr
    exact ⟨m, s', hr, a, b, c, k2, k3, by unfold CacheOK; rw [k1]; exact hcache, d, e⟩
  | false =>
    obtain ⟨m, s', hr⟩ := h2.total s false hc
    obtain ⟨a, b, c⟩ := h2.frame s m s' hc hr
    obtain ⟨k1, k2, k3⟩ := hk s false m s' hc hr
    refine ⟨m, s', hr, a, b, c, k2, k3, by unfold CacheOK; rw [k1]; exact hcache, ?_, ?_⟩
    · intro hm; subst hm; exact h2.progress s s' hc hr
    · intro hm; subst hm; exact h2.miss s s' hc hr

theorem silent_of_shape (r : IRule) (h : LeafShape r) : SilentShape r := by
  intro s hc
  rcases h s true hc with h' | ⟨s', h', hp, a, b, c⟩
  · exact ⟨false, s, h', rfl, rfl, rfl, by simp, fun _ => rfl⟩
  · exact ⟨true, s', h', a, b, c, fun _ => hp, by simp⟩

theorem silent_text : SilentShape ruleText := by
  intro s hc
  unfold ruleText
  split
  · exact ⟨false, s, rfl, rfl, rfl, rfl, by simp, fun _ => rfl⟩
  · rename_i hne
    refine ⟨true, _, rfl, rfl, rfl, rfl, fun _ => ?_, by simp⟩
    show s.pos < textEnd s
    have hne' : textEnd s ≠ s.pos := by simpa using hne
    unfold textEnd at hne' ⊢
    cases hf : (s.src.drop s.pos).findIdx? isTerminator with
    | some j => rw [hf] at hne'; simp only at hne' ⊢; omega
    | none => exact hc.1

theorem silent_newline : SilentShape ruleNewline := by
  intro s hc
  have hin : s.pos < s.src.length := by have := hc.1; have := hc.2; omega
  unfold ruleNewline
  rw [List.getElem?_eq_getElem hin]
  simp only
  split
  · exact ⟨false, s, rfl, rfl, rfl, rfl, by simp, fun _ => rfl⟩
  · refine ⟨true, _, rfl, rfl, rfl, rfl, fun _ => ?_, by simp⟩
    show s.pos < skipBlanks s.src (s.pos + 1) s.posMax (s.posMax - s.pos)
    have := skipBlanks_ge s.src s.posMax (s.posMax - s.pos) (s.pos + 1); omega

theorem silent_escape : SilentShape ruleEscape := by
  intro s hc
  have hin : s.pos < s.src.length := by have := hc.1; have := hc.2; omega
  unfold ruleEscape
  rw [List.getElem?_eq_getElem hin]
  simp only
  split
  · exact ⟨false, s, rfl, rfl, rfl, rfl, by simp, fun _ => rfl⟩
  · split
    · exact ⟨false, s, rfl, rfl, rfl, rfl, by simp, fun _ => rfl⟩
    · have hin1 : s.pos + 1 < s.src.length := by have := hc.2; omega
      rw [List.getElem?_eq_getElem hin1]
      simp only
      split
      · refine ⟨true, _, rfl, rfl, rfl, rfl, fun _ => ?_, by simp⟩
        show s.pos < skipBlanks s.src (s.pos + 1 + 1) s.posMax (s.posMax - (s.pos + 1))
        have := skipBlanks_ge s.src s.posMax (s.posMax - (s.pos + 1)) (s.pos + 1 + 1); omega
      · refine ⟨true, _, rfl, rfl, rfl, rfl, fun _ => ?_, by simp⟩
        show s.pos < s.pos + 1 + 1; omega

theorem silent_backticks : SilentShape ruleBackticks := by
  intro s hc
  have hin : s.pos < s.src.length := by have := hc.1; have := hc.2; omega
  unfold ruleBackticks
  rw [List.getElem?_eq_getElem hin]
  simp only
  split
  · exact ⟨false, s, rfl, rfl, rfl, rfl, by simp, fun _ => rfl⟩
  · have hrun := btRun_ge s.src s.posMax (s.posMax - s.pos) (s.pos + 1)
    split
    · refine ⟨true, _, rfl, rfl, rfl, rfl, fun _ => ?_, by simp⟩
      show s.pos < s.pos + (btRun s.src s.posMax (s.posMax - s.pos) (s.pos + 1) - s.pos)
      omega
    · cases hsc : btScan s.src s.posMax (btRun s.src s.posMax (s.posMax - s.pos) (s.pos + 1) - s.pos)
          (s.src.length - btRun s.src s.posMax (s.posMax - s.pos) (s.pos + 1) + 1) (btRun s.src s.posMax (s.posMax - s.pos) (s.pos + 1)) s.backticks with
      | mk res bt =>
        cases res with
        | none =>
          simp only
          refine ⟨true, _, rfl, rfl, rfl, rfl, fun _ => ?_, by simp⟩
          show s.pos < s.pos + (btRun s.src s.posMax (s.posMax - s.pos) (s.pos + 1) - s.pos)
          omega
        | some p =>
          obtain ⟨ms, me⟩ := p
          simp only
          have hme := btScan_some _ _ _ _ _ _ _ _ _ hsc
          refine ⟨true, _, rfl, rfl, rfl, rfl, fun _ => ?_, by simp⟩
          show s.pos < me; omega

theorem silent_emphasis (cls : QCls) : SilentShape (ruleEmphasis cls) := by
  intro s hc
  have hin : s.pos < s.src.length := by have := hc.1; have := hc.2; omega
  unfold ruleEmphasis
  rw [List.getElem?_eq_getElem hin]
  exact ⟨false, s, by simp, rfl, rfl, rfl, by simp, fun _ => rfl⟩

theorem silent_strike (cls : QCls) : SilentShape (ruleStrike cls) := by
  intro s hc
  have hin : s.pos < s.src.length := by have := hc.1; have := hc.2; omega
  unfold ruleStrike
  rw [List.getElem?_eq_getElem hin]
  exact ⟨false, s, by simp, rfl, rfl, rfl, by simp, fun _ => rfl⟩

theorem iok4_text : IOK4 ruleText := iok4_of _ iok_text keep3_text silent_text
theorem iok4_newline : IOK4 ruleNewline := iok4_of _ iok_newline keep3_newline silent_newline
theorem iok4_escape : IOK4 ruleEscape := iok4_of _ iok_escape keep3_escape silent_escape
theorem iok4_backticks : IOK4 ruleBackticks := iok4_of _ iok_backticks keep3_backticks silent_backticks
theorem iok4_emphasis (cls : QCls) : IOK4 (ruleEmphasis cls) := iok4_of _ (iok_emphasis cls) (keep3_emphasis cls) (silent_emphasis cls)
theorem iok4_strike (cls : QCls) : IOK4 (ruleStrike cls) := iok4_of _ (iok_strike cls) (keep3_strike cls) (silent_strike cls)
theorem iok4_entity (ext : IExt) : IOK4 (ruleEntity ext) := iok4_of _ (iok_entity ext) (keep3_entity ext) (silent_of_shape _ (shape_entity ext))
theorem iok4_autolink (ext : IExt) : IOK4 (ruleAutolink ext) := iok4_of _ (iok_autolink ext) (keep3_autolink ext) (silent_of_shape _ (shape_autolink ext))
theorem iok4_htmlInline (ext : IExt) : IOK4 (ruleHtmlInline ext) :=
  iok4_of _ (iok_htmlInline ext) (keep3_htmlInline ext) (silent_of_shape _ (shape_htmlInline ext))


/-! ### the engine under the two-mode contract -/

theorem Ret4.refl_false (s : IState) (h : CacheOK s) : Ret4 s false s := ⟨rfl, rfl, rfl, rfl, rfl, h, by simp, fun _ => rfl⟩

theorem ictx_of_ret {s s' : IState} (hc : ICtx s) (h : Ret4 s false s') : ICtx s' := by
  obtain ⟨a, _, c, _, _, _, _, e⟩ := h
  unfold ICtx at *; rw [e rfl, c, a]; exact hc

theorem runChain4 (rules : List IRule) (hok : ∀ r ∈ rules, IOK4 r) : ∀ (s : IState), ICtx s → CacheOK s →
    ∃ m s', runChain rules s = .ok (m, s') ∧ Ret4 s m s' := by
  induction rules with
  | nil => intro s _ hk; exact ⟨false, s, rfl, Ret4.refl_false s hk⟩
  | cons r rest ih =>
    intro s hc hk
    obtain ⟨m, s1, hr, h1⟩ := hok r (by simp) s false hc hk
    simp only [runChain, hr]
    cases m with
    | true => exact ⟨true, s1, rfl, h1⟩
    | false =>
      obtain ⟨m2, s2, hr2, h2⟩ := ih (fun q hq => hok q (by simp [hq])) s1 (ictx_of_ret hc h1) h1.2.2.2.2.2.1
      refine ⟨m2, s2, hr2, ?_⟩
      obtain ⟨a1, b1, c1, d1, e1, _, _, g1⟩ := h1
      obtain ⟨a2, b2, c2, d2, e2, f2, p2, g2⟩ := h2
      exact ⟨a2.trans a1, b2.trans b1, c2.trans c1, d2.trans d1, e2.trans e1, f2, fun hm => by have := p2 hm; have := g1 rfl; omega,
        fun hm => by rw [g2 hm]; exact g1 rfl⟩

/-- the frame the tokenize loop keeps -/
def Fr4 (s s' : IState) : Prop :=
  s'.src = s.src ∧ s'.level = s.level ∧ s'.posMax = s.posMax ∧ s'.scopes = s.scopes ∧ s'.openAt = s.openAt ∧ CacheOK s'

theorem loop4 (rules : List IRule) (hok : ∀ r ∈ rules, IOK4 r) (mn : Int) :
    ∀ (fuel : Nat) (ok : Bool) (s : IState), s.posMax ≤ s.src.length → s.posMax - s.pos < fuel → CacheOK s →
      (s.level ≥ mn → ok = false) →
      ∃ s', tokenizeLoop rules mn s.posMax fuel ok s = .ok s' ∧ Fr4 s s' := by
  intro fuel
  induction fuel with
  | zero => intro _ s _ hf; omega
  | succ n ih =>
    intro ok s hend hf hk hstale
    simp only [tokenizeLoop]
    split
    · rename_i hlt
      by_cases hlv : s.level < mn
      · simp only [hlv, if_true]
        obtain ⟨m, s1, hc1, a, b, c, d, e, f, p, g⟩ := runChain4 rules hok s ⟨hlt, hend⟩ hk
        rw [hc1]
        simp only
        cases m with
        | true =>
          simp only [if_true]
          split
          · exact ⟨s1, rfl, a, b, c, d, e, f⟩
          · have hpp := p rfl
            have : ¬ (s1.pos ≤ s.pos) := by omega
            simp only [this, if_false]
            rw [← c]
            obtain ⟨s2, h2, a2, b2, c2, d2, e2, f2⟩ := ih true s1 (by rw [a, c]; exact hend) (by rw [c]; omega) f (by intro h; rw [b] at h; omega)
            exact ⟨s2, h2, a2.trans a, b2.trans b, c2.trans c, d2.trans d, e2.trans e, f2⟩
        | false =>
          simp only [Bool.false_eq_true, if_false]
          have hpos := g rfl
          have hin : s1.pos < s1.src.length := by rw [a, hpos]; omega
          rw [List.getElem?_eq_getElem hin]
          simp only
          rw [← c]
          obtain ⟨s2, h2, a2, b2, c2, d2, e2, f2⟩ := ih false { s1 with pending := s1.pending ++ [s1.src[s1.pos]], pos := s1.pos + 1 }
            (by show s1.posMax ≤ s1.src.length; rw [a, c]; exact hend) (by show s1.posMax - (s1.pos + 1) < n; rw [c, hpos]; omega) f (by intro _; rfl)
          exact ⟨s2, h2, a2.trans a, b2.trans b, c2.trans c, d2.trans d, e2.trans e, f2⟩
      · simp only [hlv, if_false]
        have hok' : ok = false := hstale (by omega)
        subst hok'
        simp only [Bool.false_eq_true, if_false]
        have hin : s.pos < s.src.length := by omega
        rw [List.getElem?_eq_getElem hin]
        simp only
        obtain ⟨s2, h2, a2, b2, c2, d2, e2, f2⟩ := ih false { s with pending := s.pending ++ [s.src[s.pos]], pos := s.pos + 1 }
          (by simpa using hend) (by simp; omega) hk (by intro _; rfl)
        exact ⟨s2, h2, a2, b2, c2, d2, e2, f2⟩
    · exact ⟨s, rfl, rfl, rfl, rfl, rfl, rfl, hk⟩

theorem runSilent4 (rules : List IRule) (hok : ∀ r ∈ rules, IOK4 r) : ∀ (s : IState), ICtx s → CacheOK s →
    ∃ m s', runSilent rules s = .ok (m, s') ∧ Ret4 s m s' := by
  induction rules with
  | nil => intro s _ hk; exact ⟨false, s, rfl, Ret4.refl_false s hk⟩
  | cons r rest ih =>
    intro s hc hk
    obtain ⟨m, s1, hr, a, b, c, d, e, f, p, g⟩ := hok r (by simp) { s with level := s.level + 1 } true hc hk
    simp only [runSilent, hr]
    have hlev : ({ s1 with level := s1.level - 1 } : IState).level = s.level := by show s1.level - 1 = s.level; rw [b]; show s.level + 1 - 1 = s.level; omega
    cases m with
    | true =>
      simp only [if_true]
      exact ⟨true, _, rfl, a, hlev, c, d, e, f, fun _ => p rfl, by simp⟩
    | false =>
      simp only [Bool.false_eq_true, if_false]
      have hc1 : ICtx { s1 with level := s1.level - 1 } := by
        unfold ICtx; show s1.pos < s1.posMax ∧ s1.posMax ≤ s1.src.length
        rw [g rfl, c, a]; exact hc
      obtain ⟨m2, s2, hr2, a2, b2, c2, d2, e2, f2, p2, g2⟩ := ih (fun q hq => hok q (by simp [hq])) { s1 with level := s1.level - 1 } hc1 f
      refine ⟨m2, s2, hr2, a2.trans a, b2.trans hlev, c2.trans c, d2.trans d, e2.trans e, f2, ?_, ?_⟩
      · intro hm; have := p2 hm; have : s1.pos = s.pos := g rfl; show s.pos < s2.pos; simp only at *; omega
      · intro hm; rw [g2 hm]; exact g rfl

/-- `skipToken` always moves forward, keeps the frame and the memo invariant -/
theorem skipToken4 (chain : List IRule) (hok : ∀ r ∈ chain, IOK4 r) (mn : Int) (s : IState) (hc : ICtx s) (hk : CacheOK s) :
    ∃ s', skipToken chain mn s = .ok s' ∧ Fr4 s s' ∧ s.pos < s'.pos := by
  unfold skipToken
  cases hg : cacheGet s.cache s.pos with
  | some p =>
    simp only
    refine ⟨_, rfl, ⟨rfl, rfl, rfl, rfl, rfl, hk⟩, ?_⟩
    unfold cacheGet at hg
    cases hf : s.cache.find? (·.1 == s.pos) with
    | none => rw [hf] at hg; cases hg
    | some q =>
      rw [hf] at hg
      simp only [Option.map_some, Option.some.injEq] at hg
      have hq := List.mem_of_find?_eq_some hf
      have hq1 := List.find?_some hf
      simp only [beq_iff_eq] at hq1
      have := hk q hq
      show s.pos < p
      omega
  | none =>
    simp only
    by_cases hlv : s.level < mn
    · simp only [hlv, if_true]
      obtain ⟨m, s1, hr, a, b, c, d, e, f, p, g⟩ := runSilent4 chain hok s hc hk
      rw [hr]
      simp only
      cases m with
      | true =>
        simp only [if_true]
        refine ⟨_, rfl, ⟨a, b, c, d, e, ?_⟩, p rfl⟩
        intro q hq
        simp only [List.mem_cons] at hq
        rcases hq with rfl | hq
        · exact p rfl
        · exact f q hq
      | false =>
        simp only [Bool.false_eq_true, if_false]
        have hp := g rfl
        refine ⟨_, rfl, ⟨a, b, c, d, e, ?_⟩, by show s.pos < s1.pos + 1; omega⟩
        intro q hq
        simp only [List.mem_cons] at hq
        rcases hq with rfl | hq
        · show s.pos < s1.pos + 1; omega
        · exact f q hq
    · simp only [hlv, if_false, Bool.false_eq_true]
      have := hc.1
      refine ⟨_, rfl, ⟨rfl, rfl, rfl, rfl, rfl, ?_⟩, by show s.pos < s.posMax + 1; omega⟩
      intro q hq
      simp only [List.mem_cons] at hq
      rcases hq with rfl | hq
      · show s.pos < s.posMax + 1; omega
      · exact hk q hq


theorem Fr4.trans {a b c : IState} (h1 : Fr4 a b) (h2 : Fr4 b c) : Fr4 a c :=
  ⟨h2.1.trans h1.1, h2.2.1.trans h1.2.1, h2.2.2.1.trans h1.2.2.1, h2.2.2.2.1.trans h1.2.2.2.1, h2.2.2.2.2.1.trans h1.2.2.2.2.1, h2.2.2.2.2.2⟩

theorem labelLoop4 (chain : List IRule) (hok : ∀ r ∈ chain, IOK4 r) (mn : Int) (dn : Bool) :
    ∀ (fuel level : Nat) (s : IState), s.posMax ≤ s.src.length → s.posMax - s.pos < fuel → CacheOK s →
      ∃ r s', labelLoop chain mn dn fuel level s = .ok (r, s') ∧ Fr4 s s' ∧ (0 ≤ r → s.pos ≤ r.toNat ∧ r.toNat < s.posMax) := by
  intro fuel
  induction fuel with
  | zero => intro _ s _ hf; omega
  | succ n ih =>
    intro level s hend hf hk
    simp only [labelLoop]
    split
    · rename_i hlt
      have hin : s.pos < s.src.length := by omega
      rw [List.getElem?_eq_getElem hin]
      simp only
      split
      · exact ⟨_, s, rfl, ⟨rfl, rfl, rfl, rfl, rfl, hk⟩, fun _ => by simp; omega⟩
      · obtain ⟨s1, hs1, hfr, hp⟩ := skipToken4 chain hok mn s ⟨hlt, hend⟩ hk
        rw [hs1]
        simp only
        have hnle : ¬ (s1.pos ≤ s.pos) := by omega
        simp only [hnle, if_false]
        have hrec : ∀ lv, ∃ r s', labelLoop chain mn dn n lv s1 = .ok (r, s') ∧ Fr4 s s' ∧ (0 ≤ r → s.pos ≤ r.toNat ∧ r.toNat < s.posMax) := by
          intro lv
          obtain ⟨r, s2, h2, hfr2, hr2⟩ := ih lv s1 (by rw [hfr.1, hfr.2.2.1]; exact hend) (by rw [hfr.2.2.1]; omega) hfr.2.2.2.2.2
          exact ⟨r, s2, h2, hfr.trans hfr2, fun h0 => by have := hr2 h0; rw [hfr.2.2.1] at this; omega⟩
        split
        · split
          · exact hrec _
          · split
            · exact ⟨-1, s1, rfl, hfr, fun h => by omega⟩
            · exact hrec _
        · exact hrec _
    · exact ⟨-1, s, rfl, ⟨rfl, rfl, rfl, rfl, rfl, hk⟩, fun h => by omega⟩

theorem parseLinkLabel4 (chain : List IRule) (hok : ∀ r ∈ chain, IOK4 r) (mn : Int) (s : IState) (start : Nat) (dn : Bool)
    (hend : s.posMax ≤ s.src.length) (hk : CacheOK s) :
    ∃ r s', parseLinkLabel chain mn s start dn = .ok (r, s') ∧ Fr4 s s' ∧ s'.pos = s.pos ∧ (0 ≤ r → start + 1 ≤ r.toNat ∧ r.toNat < s.posMax) := by
  unfold parseLinkLabel
  obtain ⟨r, s1, h1, hfr, hr⟩ := labelLoop4 chain hok mn dn (s.posMax - start + 1) 1 { s with pos := start + 1 } hend
    (by show s.posMax - (start + 1) < s.posMax - start + 1; omega) hk
  rw [h1]
  exact ⟨r, _, rfl, hfr, rfl, hr⟩

theorem skipBlanksNl_ge (src : List Char) (max : Nat) : ∀ (fuel pos : Nat), pos ≤ skipBlanksNl src max fuel pos := by
  intro fuel
  induction fuel with
  | zero => intro pos; exact Nat.le_refl _
  | succ n ih =>
    intro pos
    simp only [skipBlanksNl]
    split
    · split
      · split
        · have := ih (pos + 1); omega
        · exact Nat.le_refl _
      · exact Nat.le_refl _
    · exact Nat.le_refl _

theorem destAngle_ge (src : List Char) (max : Nat) : ∀ (fuel pos e : Nat), destAngle src max fuel pos = some e → pos ≤ e := by
  intro fuel
  induction fuel with
  | zero => intro pos e h; simp [destAngle] at h
  | succ n ih =>
    intro pos e h
    simp only [destAngle] at h
    split at h
    · split at h
      · have := ih _ _ h; omega
      · split at h
        · cases h
        · split at h
          · cases h
          · split at h
            · simp only [Option.some.injEq] at h; omega
            · split at h
              · have := ih _ _ h; omega
              · have := ih _ _ h; omega
    · cases h

theorem destBare_ge (src : List Char) (max : Nat) : ∀ (fuel pos level e l : Nat), destBare src max fuel pos level = some (e, l) → pos ≤ e := by
  intro fuel
  induction fuel with
  | zero => intro pos level e l h; simp only [destBare, Option.some.injEq, Prod.mk.injEq] at h; omega
  | succ n ih =>
    intro pos level e l h
    simp only [destBare] at h
    repeat' split at h
    all_goals first
      | (simp only [Option.some.injEq, Prod.mk.injEq] at h; omega)
      | (have := ih _ _ _ _ h; omega)
      | (cases h; done)

theorem titleScan_ge (src : List Char) (max : Nat) (marker : Char) : ∀ (fuel pos e : Nat), titleScan src max marker fuel pos = some e → pos ≤ e := by
  intro fuel
  induction fuel with
  | zero => intro pos e h; simp [titleScan] at h
  | succ n ih =>
    intro pos e h
    simp only [titleScan] at h
    repeat' split at h
    all_goals first
      | (simp only [Option.some.injEq] at h; omega)
      | (have := ih _ _ h; omega)
      | (cases h; done)

theorem parseLinkDestination_ge (ext : IExt) (src : List Char) (pos max dpos : Nat) (str : List Char)
    (h : parseLinkDestination ext src pos max = some (dpos, str)) : pos ≤ dpos := by
  unfold parseLinkDestination at h
  split at h
  · split at h
    · rename_i e he
      simp only [Option.some.injEq, Prod.mk.injEq] at h
      have := destAngle_ge _ _ _ _ _ he; omega
    · cases h
  · split at h
    · cases h
    · rename_i e level he
      split at h
      · cases h
      · split at h
        · cases h
        · simp only [Option.some.injEq, Prod.mk.injEq] at h
          have := destBare_ge _ _ _ _ _ _ _ he; omega

theorem parseLinkTitle_ge (ext : IExt) (src : List Char) (pos max tpos : Nat) (str : List Char)
    (h : parseLinkTitle ext src pos max = some (tpos, str)) : pos ≤ tpos := by
  unfold parseLinkTitle at h
  split at h
  · cases h
  · split at h
    · cases h
    · split at h
      · cases h
      · simp only at h
        cases he : titleScan src max (if (_ == '(') = true then ')' else _) (max - pos + 1) (pos + 1) with
        | none => rw [he] at h; cases h
        | some e =>
          rw [he] at h
          simp only [Option.some.injEq, Prod.mk.injEq] at h
          have := titleScan_ge _ _ _ _ _ _ he; omega


/-! ### the pieces of the link rule -/

theorem linkDestTitle_ge (ext : IExt) (s : IState) (maximum p1 : Nat) : p1 ≤ (linkDestTitle ext s maximum p1).1 := by
  unfold linkDestTitle
  cases hd : parseLinkDestination ext s.src p1 s.posMax with
  | none => exact Nat.le_refl _
  | some q =>
    obtain ⟨dpos, dstr⟩ := q
    simp only
    have hdge := parseLinkDestination_ge _ _ _ _ _ _ hd
    have hp2 : p1 ≤ (if validateLink (ext.normLink dstr) = true then dpos else p1) := by split <;> omega
    generalize (if validateLink (ext.normLink dstr) = true then dpos else p1) = p2 at hp2
    have h3 := skipBlanksNl_ge s.src maximum (maximum - p2) p2
    cases ht : parseLinkTitle ext s.src (skipBlanksNl s.src maximum (maximum - p2) p2) s.posMax with
    | none => simp only; omega
    | some q2 =>
      obtain ⟨tpos, tstr⟩ := q2
      simp only
      have htge := parseLinkTitle_ge _ _ _ _ _ _ ht
      have h4 := skipBlanksNl_ge s.src maximum (maximum - tpos) tpos
      split <;> (simp only; omega)

theorem linkInline_ge (ext : IExt) (s : IState) (labelEnd maximum pos1 : Nat) (h t : List Char) (pr : Bool)
    (hi : linkInline ext s labelEnd maximum = some (pos1, h, t, pr)) : labelEnd + 1 ≤ pos1 := by
  unfold linkInline at hi
  simp only at hi
  split at hi
  · have hp1 := skipBlanksNl_ge s.src maximum (maximum - (labelEnd + 1)) (labelEnd + 1 + 1)
    split at hi
    · cases hi
    · simp only [Option.some.injEq, Prod.mk.injEq] at hi
      have := linkDestTitle_ge ext s maximum (skipBlanksNl s.src maximum (maximum - (labelEnd + 1)) (labelEnd + 1 + 1))
      omega
  · simp only [Option.some.injEq, Prod.mk.injEq] at hi
    omega

theorem linkSecondLabel4 (mn : Int) (inner : List IRule) (hok : ∀ r ∈ inner, IOK4 r) (s : IState) (labelEnd maximum pos1 : Nat)
    (hend : s.posMax ≤ s.src.length) (hk : CacheOK s) (hp1 : labelEnd + 1 ≤ pos1) :
    ∃ pos2 label s2, linkSecondLabel mn inner s labelEnd maximum pos1 = .ok (pos2, label, s2) ∧ Fr4 s s2 ∧ s2.pos = s.pos ∧ labelEnd + 1 ≤ pos2 := by
  unfold linkSecondLabel
  split
  · obtain ⟨r, s2, h2, hfr, hpos, hr⟩ := parseLinkLabel4 inner hok mn s pos1 false hend hk
    rw [h2]
    simp only
    split
    · rename_i hge
      have := hr hge
      exact ⟨_, _, s2, rfl, hfr, hpos, by omega⟩
    · exact ⟨_, _, s2, rfl, hfr, hpos, Nat.le_refl _⟩
  · exact ⟨_, _, s, rfl, ⟨rfl, rfl, rfl, rfl, rfl, hk⟩, rfl, Nat.le_refl _⟩

theorem linkRef4 (lx : LExt) (mn : Int) (inner : List IRule) (hok : ∀ r ∈ inner, IOK4 r) (s : IState) (labelStart labelEnd maximum pos1 : Nat)
    (hend : s.posMax ≤ s.src.length) (hk : CacheOK s) (hp1 : labelEnd + 1 ≤ pos1) :
    ∃ s2 o, linkRef lx mn inner s labelStart labelEnd maximum pos1 = .ok (s2, o) ∧ Fr4 s s2 ∧ s2.pos = s.pos
      ∧ (∀ pos h t l, o = some (pos, h, t, l) → labelEnd + 1 ≤ pos) := by
  unfold linkRef
  split
  · exact ⟨s, none, rfl, ⟨rfl, rfl, rfl, rfl, rfl, hk⟩, rfl, fun _ _ _ _ h => by cases h⟩
  · obtain ⟨pos2, label, s2, hl, hfr, hpos, hge⟩ := linkSecondLabel4 mn inner hok s labelEnd maximum pos1 hend hk hp1
    rw [hl]
    simp only
    split
    · exact ⟨s2, none, rfl, hfr, hpos, fun _ _ _ _ h => by cases h⟩
    · refine ⟨s2, _, rfl, hfr, hpos, ?_⟩
      intro pos h t l he
      simp only [Option.some.injEq, Prod.mk.injEq] at he
      omega

theorem pushPending_fr (s : IState) (hk : CacheOK s) : Fr4 s s.pushPending := ⟨rfl, rfl, rfl, rfl, rfl, hk⟩

theorem pushOpen_fields (s : IState) (ty tag : String) (a : List (String × AttrVal)) (md : List (String × String)) :
    (s.pushOpen ty tag a md).src = s.src ∧ (s.pushOpen ty tag a md).posMax = s.posMax ∧ (s.pushOpen ty tag a md).pos = s.pos
      ∧ (s.pushOpen ty tag a md).level = s.level + 1 ∧ (s.pushOpen ty tag a md).cache = s.cache
      ∧ (∃ d i, (s.pushOpen ty tag a md).scopes = d :: s.scopes ∧ (s.pushOpen ty tag a md).openAt = i :: s.openAt) := by
  unfold IState.pushOpen
  simp only
  obtain ⟨a1, a2, a3, a4⟩ := pushA_frame s ty tag 1 a "" "" ""
  refine ⟨a1, a2, a3, ?_, pushA_cache _ _ _ _ _ _ _ _, ?_⟩
  · rw [a4]; simp
  · exact ⟨(s.pushA ty tag 1 a "" "" "").delimiters, (s.pushA ty tag 1 a "" "" "").tokens.length - 1,
      by rw [pushA_scopes], by rw [pushA_openAt]⟩

theorem linkEmit4 (lx : LExt) (mn : Int) (inner : List IRule) (hok : ∀ r ∈ inner, IOK4 r) (s : IState) (labelStart labelEnd : Nat)
    (href title label : List Char) (hle : labelEnd ≤ s.src.length) (hk : CacheOK s) :
    ∃ s3, linkEmit lx mn inner s labelStart labelEnd href title label = .ok s3 ∧ s3.src = s.src ∧ s3.level = s.level
      ∧ s3.scopes = s.scopes ∧ s3.openAt = s.openAt ∧ CacheOK s3 := by
  unfold linkEmit
  simp only
  generalize hat : ([("href", AttrVal.s (String.ofList href))] ++ if title.isEmpty = true then [] else [("title", AttrVal.s (String.ofList title))]) = attrs
  generalize hmd : (if (!label.isEmpty && lx.storeLabels) = true then [("label", String.ofList label)] else ([] : List (String × String))) = metaD
  obtain ⟨o1, o2, o3, o4, o5, d, i, o6, o7⟩ := pushOpen_fields { s with pos := labelStart, posMax := labelEnd } "link_open" "a" attrs metaD
  generalize ({ s with pos := labelStart, posMax := labelEnd } : IState).pushOpen "link_open" "a" attrs metaD = s1 at o1 o2 o3 o4 o5 o6 o7
  -- the nested run
  have hk1 : CacheOK { s1 with linkLevel := s1.linkLevel + 1 } := by unfold CacheOK; show ∀ p ∈ s1.cache, _; rw [o5]; exact hk
  unfold innerTokenize
  obtain ⟨s2, h2, f1, f2, f3, f4, f5, f6⟩ := loop4 inner hok mn (({ s1 with linkLevel := s1.linkLevel + 1 } : IState).posMax - ({ s1 with linkLevel := s1.linkLevel + 1 } : IState).pos + 1)
    false { s1 with linkLevel := s1.linkLevel + 1 } (by show s1.posMax ≤ s1.src.length; rw [o1, o2]; exact hle) (by omega) hk1 (fun _ => rfl)
  rw [h2]
  simp only
  -- flush, then the closing push
  have hfl : ∃ s2', (if s2.pending.isEmpty = true then s2 else s2.pushPending) = s2' ∧ s2'.src = s2.src ∧ s2'.level = s2.level
      ∧ s2'.scopes = s2.scopes ∧ s2'.openAt = s2.openAt ∧ s2'.cache = s2.cache := by
    split
    · exact ⟨s2, rfl, rfl, rfl, rfl, rfl, rfl⟩
    · exact ⟨_, rfl, rfl, rfl, rfl, rfl, rfl⟩
  obtain ⟨s2', e2, g1, g2, g3, g4, g5⟩ := hfl
  rw [e2]
  unfold IState.pushClose
  simp only
  have hsc : ({ s2' with linkLevel := s2'.linkLevel - 1 } : IState).scopes = d :: s.scopes := by show s2'.scopes = _; rw [g3, f4]; exact o6
  have hop : ({ s2' with linkLevel := s2'.linkLevel - 1 } : IState).openAt = i :: s.openAt := by show s2'.openAt = _; rw [g4, f5]; exact o7
  have hflush : ∀ x : IState, (if x.pending.isEmpty = true then x else x.pushPending).scopes = x.scopes
      ∧ (if x.pending.isEmpty = true then x else x.pushPending).openAt = x.openAt
      ∧ (if x.pending.isEmpty = true then x else x.pushPending).src = x.src
      ∧ (if x.pending.isEmpty = true then x else x.pushPending).level = x.level
      ∧ (if x.pending.isEmpty = true then x else x.pushPending).cache = x.cache := by
    intro x; split <;> exact ⟨rfl, rfl, rfl, rfl, rfl⟩
  obtain ⟨q1, q2, q3, q4, q5⟩ := hflush { s2' with linkLevel := s2'.linkLevel - 1 }
  generalize (if ({ s2' with linkLevel := s2'.linkLevel - 1 } : IState).pending.isEmpty = true then ({ s2' with linkLevel := s2'.linkLevel - 1 } : IState)
    else ({ s2' with linkLevel := s2'.linkLevel - 1 } : IState).pushPending) = s0 at q1 q2 q3 q4 q5
  rw [hsc] at q1
  rw [hop] at q2
  rw [q1, q2]
  simp only
  obtain ⟨p1, p2, p3, p4⟩ := push_frame { s0 with metas := (i, s0.delimiters) :: s0.metas, delimiters := d, scopes := s.scopes, openAt := s.openAt }
    "link_close" "a" (-1) "" "" ""
  refine ⟨_, rfl, ?_, ?_, ?_, ?_, ?_⟩
  · rw [p1]; show s0.src = s.src; rw [q3]; show s2'.src = _; rw [g1, f1]; show s1.src = _; rw [o1]
  · rw [p4]; simp only [show ((-1 : Int) < 0) from by decide, if_true]
    show s0.level - 1 = s.level
    rw [q4]; show s2'.level - 1 = _; rw [g2, f2]; show s1.level - 1 = _; rw [o4]; show s.level + 1 - 1 = s.level; omega
  · rw [push_scopes]
  · rw [push_openAt]
  · unfold CacheOK; rw [push_cache]; show ∀ p ∈ s0.cache, _; rw [q5]; show ∀ p ∈ s2'.cache, _; rw [g5]; exact f6


/-- **the link rule keeps the two-mode contract** when its inner chain does -/
theorem iok4_link (ext : IExt) (lx : LExt) (mn : Int) (inner : List IRule) (hok : ∀ r ∈ inner, IOK4 r) : IOK4 (ruleLink ext lx mn inner) := by
  intro s silent hc hk
  have hin : s.pos < s.src.length := by have := hc.1; have := hc.2; omega
  unfold ruleLink
  rw [List.getElem?_eq_getElem hin]
  simp only
  split
  · exact ⟨false, s, rfl, Ret4.refl_false s hk⟩
  · obtain ⟨r, s1, h1, hfr1, hpos1, hr1⟩ := parseLinkLabel4 inner hok mn s s.pos true hc.2 hk
    rw [h1]
    simp only
    have ret_false : ∀ x : IState, Fr4 s x → x.pos = s.pos → Ret4 s false x :=
      fun x hfr hp => ⟨hfr.1, hfr.2.1, hfr.2.2.1, hfr.2.2.2.1, hfr.2.2.2.2.1, hfr.2.2.2.2.2, by simp, fun _ => hp⟩
    split
    · exact ⟨false, s1, rfl, ret_false s1 hfr1 hpos1⟩
    · rename_i hneg
      have hr0 : 0 ≤ r := by omega
      obtain ⟨hlo, hhi⟩ := hr1 hr0
      have hend1 : s1.posMax ≤ s1.src.length := by rw [hfr1.1, hfr1.2.2.1]; exact hc.2
      cases hi : linkInline ext s1 r.toNat s.posMax with
      | none => exact ⟨false, s1, rfl, ret_false s1 hfr1 hpos1⟩
      | some q =>
        obtain ⟨pos1, href1, title1, pr⟩ := q
        simp only
        have hp1 := linkInline_ge _ _ _ _ _ _ _ _ hi
        -- the reference form, or not
        have href : ∃ s2 o, (if (!pr) = true then (Except.ok (s1, some (pos1, href1, title1, [])) : Except PyErr (IState × Option (Nat × List Char × List Char × List Char)))
              else linkRef lx mn inner s1 (s.pos + 1) r.toNat s.posMax pos1) = .ok (s2, o) ∧ Fr4 s s2 ∧ s2.pos = s.pos
            ∧ (∀ pos h t l, o = some (pos, h, t, l) → r.toNat + 1 ≤ pos) := by
          split
          · exact ⟨s1, _, rfl, hfr1, hpos1, fun pos h t l he => by simp only [Option.some.injEq, Prod.mk.injEq] at he; omega⟩
          · obtain ⟨s2, o, h2, hfr2, hpos2, hge⟩ := linkRef4 lx mn inner hok s1 (s.pos + 1) r.toNat s.posMax pos1 hend1 hfr1.2.2.2.2.2 hp1
            exact ⟨s2, o, h2, hfr1.trans hfr2, hpos2.trans hpos1, hge⟩
        obtain ⟨s2, o, h2, hfr2, hpos2, hge⟩ := href
        rw [h2]
        cases o with
        | none =>
          simp only
          exact ⟨false, _, rfl, hfr2.1, hfr2.2.1, hfr2.2.2.1, hfr2.2.2.2.1, hfr2.2.2.2.2.1, hfr2.2.2.2.2.2, by simp, fun _ => rfl⟩
        | some q2 =>
          obtain ⟨pos, href, title, label⟩ := q2
          simp only
          have hposge := hge pos href title label rfl
          cases silent with
          | true =>
            simp only [if_true]
            exact ⟨true, _, rfl, hfr2.1, hfr2.2.1, rfl, hfr2.2.2.2.1, hfr2.2.2.2.2.1, hfr2.2.2.2.2.2, fun _ => by show s.pos < pos; omega, by simp⟩
          | false =>
            simp only [Bool.false_eq_true, if_false]
            obtain ⟨s3, h3, e1, e2, e3, e4, e5⟩ := linkEmit4 lx mn inner hok s2 (s.pos + 1) r.toNat href title label
              (by rw [hfr2.1]; have := hc.2; omega) hfr2.2.2.2.2.2
            rw [h3]
            simp only
            exact ⟨true, _, rfl, e1.trans hfr2.1, e2.trans hfr2.2.1, rfl, e3.trans hfr2.2.2.2.1, e4.trans hfr2.2.2.2.2.1, e5,
              fun _ => by show s.pos < pos; omega, by simp⟩

/-- every rule of every chain with the link rule keeps the two-mode contract, whatever the budget -/
theorem linkChain_ok4 (cls : QCls) (ext : IExt) (lx : LExt) (newline escape backticks strike emphasis link autolink htmlInline entity : Bool) (mn : Int) :
    ∀ d : Nat, ∀ r ∈ linkChain cls ext lx newline escape backticks strike emphasis link autolink htmlInline entity mn d, IOK4 r := by
  intro d
  induction d with
  | zero => intro r hr; simp [linkChain] at hr
  | succ d ih =>
    intro r hr
    simp only [linkChain, List.mem_append, List.mem_singleton] at hr
    rcases hr with ((((((((hr | hr) | hr) | hr) | hr) | hr) | hr) | hr) | hr) | hr
    · subst hr; exact iok4_text
    · split at hr
      · simp at hr; subst hr; exact iok4_newline
      · cases hr
    · split at hr
      · simp at hr; subst hr; exact iok4_escape
      · cases hr
    · split at hr
      · simp at hr; subst hr; exact iok4_backticks
      · cases hr
    · split at hr
      · simp at hr; subst hr; exact iok4_strike cls
      · cases hr
    · split at hr
      · simp at hr; subst hr; exact iok4_emphasis cls
      · cases hr
    · split at hr
      · simp at hr; subst hr; exact iok4_link ext lx mn _ ih
      · cases hr
    · split at hr
      · simp at hr; subst hr; exact iok4_autolink ext
      · cases hr
    · split at hr
      · simp at hr; subst hr; exact iok4_htmlInline ext
      · cases hr
    · split at hr
      · simp at hr; subst hr; exact iok4_entity ext
      · cases hr

/-- **C01.link_total** — the inline sub-parser with the `link` rule (ten of the twelve inline rules: `skipToken` with its position memo,
label / destination / title parsing, references, nested tokenization of the label, delimiter scopes), any rule subset, any budget:
for every source, `maxNesting`, classification, external functions and reference table the parse — tokenize loop and the second
chain over all scopes — returns a token list.  No exception, and the two loops without a progress test in the code (`tokenize`,
`parseLinkLabel`) always move forward: every memo entry points forward (`CacheOK`) and every silent call that reports a match
advances the position. -/
theorem link_total (cls : QCls) (ext : IExt) (lx : LExt) (newline escape backticks strike emphasis link autolink htmlInline entity fragJoin : Bool)
    (mn : Int) (d : Nat) (src : List Char) :
    ∃ ts, inlineParse (linkChain cls ext lx newline escape backticks strike emphasis link autolink htmlInline entity mn d)
      (linkPost strike emphasis) fragJoin mn src = .ok ts := by
  unfold inlineParse tokenize
  obtain ⟨s', h, _⟩ := loop4 _ (linkChain_ok4 cls ext lx newline escape backticks strike emphasis link autolink htmlInline entity mn d) mn
    ((IState.init src).posMax - (IState.init src).pos + 1) false (IState.init src) (Nat.le_refl _) (by omega)
    (by intro p hp; simp [IState.init] at hp) (fun _ => rfl)
  rw [h]
  exact ⟨_, rfl⟩

/-! non-vacuity: inline links with titles, a rejected destination, a reference link, emphasis across and inside a link, nested brackets -/
def lx0 : LExt := { hasRefs := true, normRef := fun l => l.map Char.toUpper, storeLabels := false,
                    refs := fun l => if l = "R".toList then some ("/ref".toList, "T".toList) else none }

example : itypesOf (inlineParse (linkChain ⟨fun c => (33 ≤ c && c ≤ 47) || (58 ≤ c && c ≤ 64) || (91 ≤ c && c ≤ 96) || (123 ≤ c && c ≤ 126),
        fun c => c == 32 || c == 9 || c == 10⟩ { entity := fun _ => none, reformat := id, normText := id, html := false } lx0
        true true true false true true true false false 20 22) (linkPost false true) true 20
      "*a [b *c*](/u \"t\") [x](javascript:y) [z][r] [[n]](m)* [q".toList)
    = some ["em_open", "text", "link_open", "text", "em_open", "text", "em_close", "link_close", "text", "link_open", "text", "link_close",
            "text", "link_open", "text", "link_close", "em_close", "text"] := by decide +kernel

end MdIt.C01
