import MdIt.Props.C01g
import MdIt.InlineLink
/-!
# C01 (continued) — towards totality of the inline sub-parser with the `link` rule

The link rule re-enters the engine in silent mode (`skipToken`) and in normal mode (`tokenize` on the label), so the contract of a
rule has to speak about both modes, and about the state the re-entries rely on: the position memo (`CacheOK`: every memo entry
points forward — otherwise `parseLinkLabel` would spin) and the stack of delimiter scopes (`scopes`, `openAt`: a closing push pops
what the opening push pushed).
-/
namespace MdIt.C01

/-- the rule leaves the position memo and the scope stack alone -/
def IKeep3 (r : IRule) : Prop :=
  ∀ s silent m s', ICtx s → r s silent = .ok (m, s') → s'.cache = s.cache ∧ s'.scopes = s.scopes ∧ s'.openAt = s.openAt

@[simp] theorem push_cache (s : IState) (ty tag : String) (n : Int) (c m i : String) : (s.push ty tag n c m i).cache = s.cache := by
  unfold IState.push IState.pushPending; simp only; split <;> rfl
@[simp] theorem push_scopes (s : IState) (ty tag : String) (n : Int) (c m i : String) : (s.push ty tag n c m i).scopes = s.scopes := by
  unfold IState.push IState.pushPending; simp only; split <;> rfl
@[simp] theorem push_openAt (s : IState) (ty tag : String) (n : Int) (c m i : String) : (s.push ty tag n c m i).openAt = s.openAt := by
  unfold IState.push IState.pushPending; simp only; split <;> rfl
@[simp] theorem pushA_cache (s : IState) (ty tag : String) (n : Int) (a) (c m i : String) : (s.pushA ty tag n a c m i).cache = s.cache := by
  unfold IState.pushA; simp
@[simp] theorem pushA_scopes (s : IState) (ty tag : String) (n : Int) (a) (c m i : String) : (s.pushA ty tag n a c m i).scopes = s.scopes := by
  unfold IState.pushA; simp
@[simp] theorem pushA_openAt (s : IState) (ty tag : String) (n : Int) (a) (c m i : String) : (s.pushA ty tag n a c m i).openAt = s.openAt := by
  unfold IState.pushA; simp

theorem keep3_text : IKeep3 ruleText := by
  intro s silent m s' _ hr
  unfold ruleText at hr
  split at hr <;> (simp only [Except.ok.injEq, Prod.mk.injEq] at hr; obtain ⟨_, rfl⟩ := hr; exact ⟨rfl, rfl, rfl⟩)

theorem keep3_newline : IKeep3 ruleNewline := by
  intro s silent m s' hc hr
  have hin : s.pos < s.src.length := by have := hc.1; have := hc.2; omega
  unfold ruleNewline at hr
  rw [List.getElem?_eq_getElem hin] at hr
  simp only at hr
  split at hr
  all_goals (simp only [Except.ok.injEq, Prod.mk.injEq] at hr; obtain ⟨_, rfl⟩ := hr)
  · exact ⟨rfl, rfl, rfl⟩
  · cases silent
    · simp only [Bool.false_eq_true, if_false]; repeat' split
      all_goals simp
    · exact ⟨rfl, rfl, rfl⟩


theorem keep3_escape : IKeep3 ruleEscape := by
  intro s silent m s' hc hr
  have hin : s.pos < s.src.length := by have := hc.1; have := hc.2; omega
  unfold ruleEscape at hr
  rw [List.getElem?_eq_getElem hin] at hr
  simp only at hr
  split at hr
  · simp only [Except.ok.injEq, Prod.mk.injEq] at hr; obtain ⟨_, rfl⟩ := hr; exact ⟨rfl, rfl, rfl⟩
  · split at hr
    · simp only [Except.ok.injEq, Prod.mk.injEq] at hr; obtain ⟨_, rfl⟩ := hr; exact ⟨rfl, rfl, rfl⟩
    · split at hr
      · cases hr
      · split at hr
        all_goals (simp only [Except.ok.injEq, Prod.mk.injEq] at hr; obtain ⟨_, rfl⟩ := hr; cases silent <;> simp)

theorem keep3_backticks : IKeep3 ruleBackticks := by
  intro s silent m s' hc hr
  have hin : s.pos < s.src.length := by have := hc.1; have := hc.2; omega
  unfold ruleBackticks at hr
  rw [List.getElem?_eq_getElem hin] at hr
  simp only at hr
  split at hr
  · simp only [Except.ok.injEq, Prod.mk.injEq] at hr; obtain ⟨_, rfl⟩ := hr; exact ⟨rfl, rfl, rfl⟩
  · split at hr
    · simp only [Except.ok.injEq, Prod.mk.injEq] at hr; obtain ⟨_, rfl⟩ := hr; exact ⟨rfl, rfl, rfl⟩
    · split at hr
      all_goals (simp only [Except.ok.injEq, Prod.mk.injEq] at hr; obtain ⟨_, rfl⟩ := hr; cases silent <;> simp)

theorem emphPush_keep3 (marker : Char) (count : Nat) (o c : Bool) : ∀ (k : Nat) (s : IState),
    (emphPush marker count o c k s).cache = s.cache ∧ (emphPush marker count o c k s).scopes = s.scopes
      ∧ (emphPush marker count o c k s).openAt = s.openAt := by
  intro k
  induction k with
  | zero => intro s; exact ⟨rfl, rfl, rfl⟩
  | succ n ih =>
    intro s
    simp only [emphPush]
    obtain ⟨a, b, c'⟩ := ih { (s.push "text" "" 0 (String.singleton marker) "" "") with delimiters := (s.push "text" "" 0 (String.singleton marker) "" "").delimiters ++
        [{ marker := marker.toNat, length := count, token := ((s.push "text" "" 0 (String.singleton marker) "" "").tokens.length : Int) - 1, end_ := -1, open_ := o, close := c }] }
    exact ⟨a.trans (push_cache s "text" "" 0 (String.singleton marker) "" ""), b.trans (push_scopes s "text" "" 0 (String.singleton marker) "" ""),
      c'.trans (push_openAt s "text" "" 0 (String.singleton marker) "" "")⟩

theorem strikePush_keep3 (o c : Bool) : ∀ (k : Nat) (s : IState),
    (strikePush o c k s).cache = s.cache ∧ (strikePush o c k s).scopes = s.scopes ∧ (strikePush o c k s).openAt = s.openAt := by
  intro k
  induction k with
  | zero => intro s; exact ⟨rfl, rfl, rfl⟩
  | succ n ih =>
    intro s
    simp only [strikePush]
    obtain ⟨a, b, c'⟩ := ih { (s.push "text" "" 0 "~~" "" "") with delimiters := (s.push "text" "" 0 "~~" "" "").delimiters ++
        [{ marker := 0x7E, length := 0, token := ((s.push "text" "" 0 "~~" "" "").tokens.length : Int) - 1, end_ := -1, open_ := o, close := c }] }
    exact ⟨a.trans (push_cache s "text" "" 0 "~~" "" ""), b.trans (push_scopes s "text" "" 0 "~~" "" ""), c'.trans (push_openAt s "text" "" 0 "~~" "" "")⟩

theorem keep3_emphasis (cls : QCls) : IKeep3 (ruleEmphasis cls) := by
  intro s silent m s' hc hr
  have hin : s.pos < s.src.length := by have := hc.1; have := hc.2; omega
  unfold ruleEmphasis at hr
  rw [List.getElem?_eq_getElem hin] at hr
  simp only at hr
  split at hr
  · simp only [Except.ok.injEq, Prod.mk.injEq] at hr; obtain ⟨_, rfl⟩ := hr; exact ⟨rfl, rfl, rfl⟩
  · split at hr
    · simp only [Except.ok.injEq, Prod.mk.injEq] at hr; obtain ⟨_, rfl⟩ := hr; exact ⟨rfl, rfl, rfl⟩
    · simp only [Except.ok.injEq, Prod.mk.injEq] at hr
      obtain ⟨_, rfl⟩ := hr
      exact emphPush_keep3 _ _ _ _ _ s

theorem keep3_strike (cls : QCls) : IKeep3 (ruleStrike cls) := by
  intro s silent m s' hc hr
  have hin : s.pos < s.src.length := by have := hc.1; have := hc.2; omega
  unfold ruleStrike at hr
  rw [List.getElem?_eq_getElem hin] at hr
  simp only at hr
  split at hr
  · simp only [Except.ok.injEq, Prod.mk.injEq] at hr; obtain ⟨_, rfl⟩ := hr; exact ⟨rfl, rfl, rfl⟩
  · split at hr
    · simp only [Except.ok.injEq, Prod.mk.injEq] at hr; obtain ⟨_, rfl⟩ := hr; exact ⟨rfl, rfl, rfl⟩
    · split at hr
      · simp only [Except.ok.injEq, Prod.mk.injEq] at hr; obtain ⟨_, rfl⟩ := hr; exact ⟨rfl, rfl, rfl⟩
      · simp only [Except.ok.injEq, Prod.mk.injEq] at hr
        obtain ⟨_, rfl⟩ := hr
        obtain ⟨a, b, c'⟩ := strikePush_keep3 (scanDelims cls s s.pos true).1 (scanDelims cls s s.pos true).2.1 ((scanDelims cls s s.pos true).2.2 / 2)
          (if (scanDelims cls s s.pos true).2.2 % 2 = 1 then s.push "text" "" 0 "~" "" "" else s)
        refine ⟨a.trans ?_, b.trans ?_, c'.trans ?_⟩ <;> split <;> simp

theorem keep3_entity (ext : IExt) : IKeep3 (ruleEntity ext) := by
  intro s silent m s' hc hr
  have hin : s.pos < s.src.length := by have := hc.1; have := hc.2; omega
  unfold ruleEntity at hr
  rw [List.getElem?_eq_getElem hin] at hr
  simp only at hr
  repeat' split at hr
  all_goals first
    | (simp only [Except.ok.injEq, Prod.mk.injEq] at hr; obtain ⟨_, rfl⟩ := hr; first | exact ⟨rfl, rfl, rfl⟩ | simp | (cases silent <;> simp))
    | (cases hr; done)

theorem autolinkPush_keep3 (ext : IExt) (s : IState) (href url : List Char) :
    (autolinkPush ext s href url).cache = s.cache ∧ (autolinkPush ext s href url).scopes = s.scopes
      ∧ (autolinkPush ext s href url).openAt = s.openAt := by
  unfold autolinkPush; simp

theorem keep3_autolink (ext : IExt) : IKeep3 (ruleAutolink ext) := by
  intro s silent m s' hc hr
  have hin : s.pos < s.src.length := by have := hc.1; have := hc.2; omega
  unfold ruleAutolink at hr
  rw [List.getElem?_eq_getElem hin] at hr
  simp only at hr
  repeat' split at hr
  all_goals first
    | (simp only [Except.ok.injEq, Prod.mk.injEq] at hr; obtain ⟨_, rfl⟩ := hr
       first | exact ⟨rfl, rfl, rfl⟩ | (cases silent <;> simp [autolinkPush_keep3]))
    | (cases hr; done)

theorem keep3_htmlInline (ext : IExt) : IKeep3 (ruleHtmlInline ext) := by
  intro s silent m s' hc hr
  have hin : s.pos < s.src.length := by have := hc.1; have := hc.2; omega
  unfold ruleHtmlInline at hr
  split at hr
  · simp only [Except.ok.injEq, Prod.mk.injEq] at hr; obtain ⟨_, rfl⟩ := hr; exact ⟨rfl, rfl, rfl⟩
  · rw [List.getElem?_eq_getElem hin] at hr
    simp only at hr
    repeat' split at hr
    all_goals first
      | (simp only [Except.ok.injEq, Prod.mk.injEq] at hr; obtain ⟨_, rfl⟩ := hr
         first | exact ⟨rfl, rfl, rfl⟩ | (cases silent <;> simp))
      | (cases hr; done)


/-! ### the contract for both modes -/

/-- every memo entry points forward -/
def CacheOK (s : IState) : Prop := ∀ p ∈ s.cache, p.1 < p.2

/-- what a call (silent or not) from a state inside the loop's context returns -/
def Ret4 (s : IState) (m : Bool) (s' : IState) : Prop :=
  s'.src = s.src ∧ s'.level = s.level ∧ s'.posMax = s.posMax ∧ s'.scopes = s.scopes ∧ s'.openAt = s.openAt ∧ CacheOK s'
    ∧ (m = true → s.pos < s'.pos) ∧ (m = false → s'.pos = s.pos)

def IOK4 (r : IRule) : Prop :=
  ∀ s silent, ICtx s → CacheOK s → ∃ m s', r s silent = .ok (m, s') ∧ Ret4 s m s'

/-- what a silent call returns, for the rules that do not re-enter the engine -/
def SilentShape (r : IRule) : Prop :=
  ∀ s, ICtx s → ∃ m s', r s true = .ok (m, s') ∧ s'.src = s.src ∧ s'.level = s.level ∧ s'.posMax = s.posMax
    ∧ (m = true → s.pos < s'.pos) ∧ (m = false → s'.pos = s.pos)

theorem iok4_of (r : IRule) (h2 : IRuleOK2 r) (hk : IKeep3 r) (hs : SilentShape r) : IOK4 r := by
  intro s silent hc hcache
  cases silent with
  | true =>
    obtain ⟨m, s', hr, a, b, c, d, e⟩ := hs s hc
    obtain ⟨k1, k2, k3⟩ := hk s true m s' hc hr
    exact ⟨m, s', hr, a, b, c, k2, k3, by unfold CacheOK; rw [k1]; exact hcache, d, e⟩
  | false =>
    obtain ⟨m, s', hr⟩ := h2.total s false hc
    obtain ⟨a, b, c⟩ := h2.frame s m s' hc hr
    obtain ⟨k1, k2, k3⟩ := hk s false m s' hc hr
    refine ⟨m, s', hr, a, b, c, k2, k3, by unfold CacheOK; rw [k1]; exact hcache, ?_, ?_⟩
    · intro hm; subst hm; exact h2.progress s s' hc hr
    · intro hm; subst hm; exact h2.miss s s' hc hr

theorem silent_of_shape (r : IRule) (h : LeafShape r) : SilentShape r := by
  intro s hc
  rcases h s true hc with h' | ⟨s', h', hp, a, b, c⟩
  · exact ⟨false, s, h', rfl, rfl, rfl, by simp, fun _ => rfl⟩
  · exact ⟨true, s', h', a, b, c, fun _ => hp, by simp⟩

theorem silent_text : SilentShape ruleText := by
  intro s hc
  unfold ruleText
  split
  · exact ⟨false, s, rfl, rfl, rfl, rfl, by simp, fun _ => rfl⟩
  · rename_i hne
    refine ⟨true, _, rfl, rfl, rfl, rfl, fun _ => ?_, by simp⟩
    show s.pos < textEnd s
    have hne' : textEnd s ≠ s.pos := by simpa using hne
    unfold textEnd at hne' ⊢
    cases hf : (s.src.drop s.pos).findIdx? isTerminator with
    | some j => rw [hf] at hne'; simp only at hne' ⊢; omega
    | none => exact hc.1

theorem silent_newline : SilentShape ruleNewline := by
  intro s hc
  have hin : s.pos < s.src.length := by have := hc.1; have := hc.2; omega
  unfold ruleNewline
  rw [List.getElem?_eq_getElem hin]
  simp only
  split
  · exact ⟨false, s, rfl, rfl, rfl, rfl, by simp, fun _ => rfl⟩
  · refine ⟨true, _, rfl, rfl, rfl, rfl, fun _ => ?_, by simp⟩
    show s.pos < skipBlanks s.src (s.pos + 1) s.posMax (s.posMax - s.pos)
    have := skipBlanks_ge s.src s.posMax (s.posMax - s.pos) (s.pos + 1); omega

theorem silent_escape : SilentShape ruleEscape := by
  intro s hc
  have hin : s.pos < s.src.length := by have := hc.1; have := hc.2; omega
  unfold ruleEscape
  rw [List.getElem?_eq_getElem hin]
  simp only
  split
  · exact ⟨false, s, rfl, rfl, rfl, rfl, by simp, fun _ => rfl⟩
  · split
    · exact ⟨false, s, rfl, rfl, rfl, rfl, by simp, fun _ => rfl⟩
    · have hin1 : s.pos + 1 < s.src.length := by have := hc.2; omega
      rw [List.getElem?_eq_getElem hin1]
      simp only
      split
      · refine ⟨true, _, rfl, rfl, rfl, rfl, fun _ => ?_, by simp⟩
        show s.pos < skipBlanks s.src (s.pos + 1 + 1) s.posMax (s.posMax - (s.pos + 1))
        have := skipBlanks_ge s.src s.posMax (s.posMax - (s.pos + 1)) (s.pos + 1 + 1); omega
      · refine ⟨true, _, rfl, rfl, rfl, rfl, fun _ => ?_, by simp⟩
        show s.pos < s.pos + 1 + 1; omega

theorem silent_backticks : SilentShape ruleBackticks := by
  intro s hc
  have hin : s.pos < s.src.length := by have := hc.1; have := hc.2; omega
  unfold ruleBackticks
  rw [List.getElem?_eq_getElem hin]
  simp only
  split
  · exact ⟨false, s, rfl, rfl, rfl, rfl, by simp, fun _ => rfl⟩
  · have hrun := btRun_ge s.src s.posMax (s.posMax - s.pos) (s.pos + 1)
    split
    · refine ⟨true, _, rfl, rfl, rfl, rfl, fun _ => ?_, by simp⟩
      show s.pos < s.pos + (btRun s.src s.posMax (s.posMax - s.pos) (s.pos + 1) - s.pos)
      omega
    · cases hsc : btScan s.src s.posMax (btRun s.src s.posMax (s.posMax - s.pos) (s.pos + 1) - s.pos)
          (s.src.length - btRun s.src s.posMax (s.posMax - s.pos) (s.pos + 1) + 1) (btRun s.src s.posMax (s.posMax - s.pos) (s.pos + 1)) s.backticks with
      | mk res bt =>
        cases res with
        | none =>
          simp only
          refine ⟨true, _, rfl, rfl, rfl, rfl, fun _ => ?_, by simp⟩
          show s.pos < s.pos + (btRun s.src s.posMax (s.posMax - s.pos) (s.pos + 1) - s.pos)
          omega
        | some p =>
          obtain ⟨ms, me⟩ := p
          simp only
          have hme := btScan_some _ _ _ _ _ _ _ _ _ hsc
          refine ⟨true, _, rfl, rfl, rfl, rfl, fun _ => ?_, by simp⟩
          show s.pos < me; omega

theorem silent_emphasis (cls : QCls) : SilentShape (ruleEmphasis cls) := by
  intro s hc
  have hin : s.pos < s.src.length := by have := hc.1; have := hc.2; omega
  unfold ruleEmphasis
  rw [List.getElem?_eq_getElem hin]
  exact ⟨false, s, by simp, rfl, rfl, rfl, by simp, fun _ => rfl⟩

theorem silent_strike (cls : QCls) : SilentShape (ruleStrike cls) := by
  intro s hc
  have hin : s.pos < s.src.length := by have := hc.1; have := hc.2; omega
  unfold ruleStrike
  rw [List.getElem?_eq_getElem hin]
  exact ⟨false, s, by simp, rfl, rfl, rfl, by simp, fun _ => rfl⟩

theorem iok4_text : IOK4 ruleText := iok4_of _ iok_text keep3_text silent_text
theorem iok4_newline : IOK4 ruleNewline := iok4_of _ iok_newline keep3_newline silent_newline
theorem iok4_escape : IOK4 ruleEscape := iok4_of _ iok_escape keep3_escape silent_escape
theorem iok4_backticks : IOK4 ruleBackticks := iok4_of _ iok_backticks keep3_backticks silent_backticks
theorem iok4_emphasis (cls : QCls) : IOK4 (ruleEmphasis cls) := iok4_of _ (iok_emphasis cls) (keep3_emphasis cls) (silent_emphasis cls)
theorem iok4_strike (cls : QCls) : IOK4 (ruleStrike cls) := iok4_of _ (iok_strike cls) (keep3_strike cls) (silent_strike cls)
theorem iok4_entity (ext : IExt) : IOK4 (ruleEntity ext) := iok4_of _ (iok_entity ext) (keep3_entity ext) (silent_of_shape _ (shape_entity ext))
theorem iok4_autolink (ext : IExt) : IOK4 (ruleAutolink ext) := iok4_of _ (iok_autolink ext) (keep3_autolink ext) (silent_of_shape _ (shape_autolink ext))
theorem iok4_htmlInline (ext : IExt) : IOK4 (ruleHtmlInline ext) :=
  iok4_of _ (iok_htmlInline ext) (keep3_htmlInline ext) (silent_of_shape _ (shape_htmlInline ext))

end MdIt.C01
