import MdIt.Pipeline
import MdIt.Props.C03e
/-!
# C03 (continued) — the source maps of `MarkdownIt.parse` end to end are those of the block parse

The `inline` and `text_join` core rules leave every block token's `map` alone, so the staging of the top-level blocks inside the
document (`m_staged`: in range, non-empty, increasing, disjoint; a container's map encloses its content) holds for the stream the
public entry point returns.
-/
namespace MdIt.C03

theorem mapsIn_of_maps (a b : Nat) (seg seg' : List Tok) (h : seg'.map Tok.map = seg.map Tok.map) (hm : MapsIn a b seg) : MapsIn a b seg' := by
  intro t ht x y hxy
  have : t.map ∈ seg'.map Tok.map := List.mem_map.2 ⟨t, ht, rfl⟩
  rw [h, List.mem_map] at this
  obtain ⟨u, hu, hue⟩ := this
  exact hm u hu x y (by rw [hue]; exact hxy)

theorem staged_of_maps {lo hi : Nat} {ts : List Tok} (h : Staged lo hi ts) : ∀ ts' : List Tok, ts'.map Tok.map = ts.map Tok.map → Staged lo hi ts' := by
  induction h with
  | nil =>
    intro ts' he
    have hnil : ts' = [] := by simpa using he
    rw [hnil]; exact .nil _ _
  | stage a b seg rest h1 h2 h3 h4 _ ih =>
    intro ts' he
    rw [List.map_append] at he
    have hlen : ts'.length = seg.length + rest.length := by
      have := congrArg List.length he; simpa using this
    have hsl : (seg.map Tok.map).length = seg.length := by simp
    have e1 : (ts'.take seg.length).map Tok.map = seg.map Tok.map := by
      rw [List.map_take, he, ← hsl, List.take_left']
      rfl
    have e2 : (ts'.drop seg.length).map Tok.map = rest.map Tok.map := by
      rw [List.map_drop, he, ← hsl, List.drop_left']
      rfl
    rw [← List.take_append_drop seg.length ts']
    exact .stage a b _ _ h1 h2 h3 (mapsIn_of_maps a b seg _ e1 h4) (ih _ e2)

theorem setChildren_map (t : Tok) (c : Option (List Tok)) : (t.setChildren c).map = t.map := by cases t; rfl

theorem coreInline_maps (parse : List Char → Except PyErr (List Tok)) : ∀ (bts ts : List Tok), coreInline parse bts = .ok ts →
    ts.map Tok.map = bts.map Tok.map := by
  intro bts
  induction bts with
  | nil => intro ts h; simp only [coreInline, Except.ok.injEq] at h; subst h; rfl
  | cons b rest ih =>
    intro ts h
    unfold coreInline at h
    split at h
    · cases hp : parse b.content.toList with
      | error e => rw [hp] at h; cases h
      | ok cs =>
        rw [hp] at h
        simp only at h
        cases hr : coreInline parse rest with
        | error e => rw [hr] at h; cases h
        | ok r =>
          rw [hr] at h
          simp only [Except.ok.injEq] at h
          subst h
          simp only [List.map_cons, setChildren_map, ih r hr]
    · cases hr : coreInline parse rest with
      | error e => rw [hr] at h; cases h
      | ok r =>
        rw [hr] at h
        simp only [Except.ok.injEq] at h
        subst h
        simp only [List.map_cons, ih r hr]

theorem textJoin_maps (ts : List Tok) : (textJoin ts).map Tok.map = ts.map Tok.map := by
  unfold textJoin
  rw [List.map_map]
  apply List.map_congr_left
  intro t _
  show (if t.type == "inline" then _ else t).map = t.map
  split
  · exact setChildren_map t _
  · rfl

/-- **C03.full_staged** — the stream `MarkdownIt.parse` returns (modelled sub-language): the top-level blocks are staged inside the
document — maps in range, non-empty, increasing and disjoint -/
theorem full_staged (cls : QCls) (ext : IExt) (lx : LExt) (bc : MCfg) (ic : ICfg) (ws : List Nat) (mn : Int) (d : Nat) (src : List Char)
    (ts : List Tok) (h : fullParse cls ext lx bc ic ws mn d src = .ok ts) : Staged 0 (initBState (normalize src)).lineMax ts := by
  unfold fullParse at h
  cases hb : mParse bc ws mn src with
  | error e => rw [hb] at h; cases h
  | ok bts =>
    rw [hb] at h
    simp only at h
    have hst := m_staged bc ws mn src bts hb
    refine staged_of_maps hst ts ?_
    cases hc : (if ic.inlineOn = true then coreInline (inlineOf cls ext lx ic mn d) bts else Except.ok bts) with
    | error e => rw [hc] at h; cases h
    | ok its =>
      rw [hc] at h
      simp only [Except.ok.injEq] at h
      have h1 : its.map Tok.map = bts.map Tok.map := by
        split at hc
        · exact coreInline_maps _ bts its hc
        · simp only [Except.ok.injEq] at hc; subst hc; rfl
      subst h
      split
      · rw [textJoin_maps, h1]
      · exact h1

end MdIt.C03
