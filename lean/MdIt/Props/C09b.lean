import MdIt.Proofs.LiteralLoop
/-!
# C09 (continued) — the loop-level theorem

`inline_literal`: for every text `t` without line feed, every chain `text :: mid ++ escape :: post`
whose rules between `text` and `escape` decline at a backslash (true of `newline`, and of `linkify`
with the option off), every rules2 chain that does nothing in the absence of delimiters, and every
`maxNesting ≥ 1`: the inline parse of the backslash-escaped spelling of `t`, after `fragments_join`
and `text_join`, is exactly one `text` token holding `t`.
-/
namespace MdIt.C09

theorem newline_declines : DeclinesAtBackslash ruleNewline :=
  fun s h0 => newline_declines_at_backslash s h0

theorem init_litState (t : List Char) : LitState t [] (IState.init (escapeAll t)) :=
  ⟨rfl, rfl, rfl, rfl, rfl, rfl, (by intro x hx; cases hx), rfl⟩

/-- **C09.inline_literal** -/
theorem inline_literal (mid post : List IRule) (hmid : ∀ m ∈ mid, DeclinesAtBackslash m)
    (posts : List (IState → IState)) (hposts : ∀ f ∈ posts, ∀ s : IState, s.delims = 0 → s.delimiters = [] → s.metas = [] → f s = s)
    (mn : Int) (hmn : 1 ≤ mn) (t : List Char) (hlf : '\n' ∉ t) (hne : t ≠ []) :
    ∃ ts tk, inlineParse (ruleText :: (mid ++ ruleEscape :: post)) posts true mn (escapeAll t) = .ok ts
      ∧ joinToks [] ts = [tk] ∧ tk.type = "text" ∧ tk.content.toList = t ∧ IsLit tk := by
  have hinit := init_litState t
  obtain ⟨s', hloop, hs', hdl', hmt'⟩ := loop_literal mid post hmid mn hmn t hlf t.length t [] (IState.init (escapeAll t))
    ((IState.init (escapeAll t)).posMax - (IState.init (escapeAll t)).pos + 1) false (Nat.le_refl _) (by simp) hinit (by omega)
  have hdl : s'.delimiters = [] := hdl'
  have hmt : s'.metas = [] := hmt'
  -- flush of the pending text
  have hflush : ∃ s2, tokenize (ruleText :: (mid ++ ruleEscape :: post)) mn (IState.init (escapeAll t)) = .ok s2
      ∧ (∀ x ∈ s2.tokens, IsLit x) ∧ litContents s2.tokens = t ∧ s2.delims = 0 ∧ s2.delimiters = [] ∧ s2.metas = [] := by
    unfold tokenize
    rw [hloop]
    by_cases hp : s'.pending.isEmpty = true
    · have hpe : s'.pending = [] := by simpa using hp
      refine ⟨s', by simp [hp], hs'.lit, ?_, hs'.delims, hdl, hmt⟩
      have := hs'.contents; rw [hpe, List.append_nil] at this; exact this
    · have hp' : s'.pending.isEmpty = false := by simpa using hp
      refine ⟨s'.pushPending, by simp [hp'], ?_, ?_, hs'.delims, hdl, hmt⟩
      · intro x hx
        simp only [IState.pushPending, List.mem_append, List.mem_singleton] at hx
        rcases hx with hx | rfl
        · exact hs'.lit x hx
        · rw [hs'.pendingLevel]; exact isLit_mk_text _
      · have := hs'.contents
        simp [IState.pushPending, litContents, List.flatMap_append, mkInlineTok, Tok.content] at this ⊢
        exact this
  obtain ⟨s2, htok, hlit, hcont, hdel, hdl2, hmt2⟩ := hflush
  -- the rules2 chain before fragments_join has nothing to do
  have hfold : ∀ (l : List (IState → IState)), (∀ f ∈ l, ∀ s : IState, s.delims = 0 → s.delimiters = [] → s.metas = [] → f s = s) →
      l.foldl (fun acc f => f acc) s2 = s2 := by
    intro l
    induction l with
    | nil => intro _; rfl
    | cons f fs ih =>
      intro h
      simp only [List.foldl_cons]
      rw [h f (by simp) s2 hdel hdl2 hmt2]
      exact ih (fun g hg => h g (by simp [hg]))
  have hfj := fragmentsJoin_lit s2.tokens hlit
  have hne2 : fragmentsJoin 0 s2.tokens ≠ [] := by
    intro e
    have := hfj.2
    rw [e, hcont] at this
    simp [litContents] at this
    exact hne this
  obtain ⟨tk, h1, h2, h3, h4⟩ := joinToks_lit_nil (fragmentsJoin 0 s2.tokens) hfj.1 hne2
  refine ⟨fragmentsJoin 0 s2.tokens, tk, ?_, h1, h3, ?_, h2⟩
  · simp only [inlineParse, htok, hfold posts hposts, if_true]
  · rw [h4, hfj.2, hcont]

/-- instance: the chain `text, newline, escape` (what the `zero` preset gives with `newline` and
    `escape` enabled), no rules2 besides fragments_join -/
theorem inline_literal_basic (mn : Int) (hmn : 1 ≤ mn) (t : List Char) (hlf : '\n' ∉ t) (hne : t ≠ []) :
    ∃ ts tk, inlineParse [ruleText, ruleNewline, ruleEscape] [] true mn (escapeAll t) = .ok ts
      ∧ joinToks [] ts = [tk] ∧ tk.type = "text" ∧ tk.content.toList = t :=
  let ⟨ts, tk, h1, h2, h3, h4, _⟩ := inline_literal [ruleNewline] [] (by
      intro m hm; simp at hm; subst hm; exact newline_declines) [] (by intro f hf; cases hf) mn hmn t hlf hne
  ⟨ts, tk, h1, h2, h3, h4⟩

end MdIt.C09
