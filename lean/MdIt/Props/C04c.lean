import MdIt.Props.C10g
import MdIt.Props.C04
/-!
# C04 (continued) — with raw HTML off, no raw-HTML token anywhere in the output of a whole parse

`C10.m_no_html` (block side) and the deep token engine (inline side, `C10.full_types` with "is not a raw-HTML type") through the core
chain: **`full_no_html`** — with the `html` option off, whatever rules are enabled, the output of `MarkdownIt.parse` on the modelled
sub-language holds no `html_block` token and, below its `inline` tokens at every depth of nested image descriptions, no `html_inline`
token.  Every other token is rendered through `escapeHtml` (`C04.no_raw`), so nothing of the source reaches the output as markup.
-/
namespace MdIt.C04
open MdIt.C01 MdIt.C05 MdIt.C10

theorem full_no_html (cls : QCls) (ext : IExt) (lx : LExt) (bc : MCfg) (ic : ICfg) (hon : ic.inlineOn = true)
    (hoff : ext.html = false) (hoffb : bc.html = false)
    (ws : List Nat) (mn : Int) (d : Nat) (src : List Char) (ts : List Tok) (h : fullParse cls ext lx bc ic ws mn d src = .ok ts) :
    ∀ t ∈ ts, t.type ≠ "html_block" ∧ t.type ≠ "html_inline"
      ∧ (t.type = "inline" → ∀ x ∈ descOpt t.children, x.type ≠ "html_inline" ∧ x.type ≠ "html_block") := by
  have hT := full_types cls ext lx bc ic hon (Q := fun ty => ty ≠ "html_inline" ∧ ty ≠ "html_block") (by decide) (fun _ => by decide)
    (fun _ => by decide)
    (by intro ty hty
        simp only [emphTypes, emTypes, sTypes, List.mem_append] at hty
        rcases hty with hty | hty <;> split at hty <;> simp at hty <;> rcases hty with rfl | rfl | rfl | rfl <;> decide)
    ⟨fun _ => by decide, fun _ => by decide, fun _ => by decide, fun _ => by decide, fun _ => by decide,
     fun _ hx => by rw [hoff] at hx; cases hx⟩ ws mn d src ts h
  -- the block side
  have hB : ∀ t ∈ ts, t.type ∈ mAllowed bc := fun t ht => (hT t ht).1
  intro t ht
  have hmem := hB t ht
  have hnb : t.type ≠ "html_block" ∧ t.type ≠ "html_inline" := by
    obtain ⟨⟨code, fence, hr, heading⟩, htmlBlock, lheading, html⟩ := bc
    simp only at hoffb
    subst hoffb
    clear h hT hB
    constructor <;> intro he <;> rw [he] at hmem <;> revert hmem <;>
      cases code <;> cases fence <;> cases hr <;> cases heading <;> cases htmlBlock <;> cases lheading <;> decide
  exact ⟨hnb.1, hnb.2, (hT t ht).2⟩

end MdIt.C04

namespace MdIt.C04
open MdIt.C01 MdIt.C05 MdIt.C10

theorem mem_descList_self (x : Tok) (cs : List Tok) (h : x ∈ cs) : x ∈ descList cs :=
  (mem_descList x cs).2 ⟨x, h, .inl rfl⟩

/-- **C04.full_render_no_raw** — `MarkdownIt.render` end to end on the modelled sub-language with the `html` option off: whatever
rules are enabled, no piece of the rendered output is raw pass-through — every character of the HTML is either the renderer's own
markup (tag and attribute names from the fixed vocabulary, `C04.vocab`) or input text that went through `escapeHtml`
(`escapeHtml_no_meta`).  `full_no_html` through `no_raw`. -/
theorem full_render_no_raw (cls : QCls) (ext : IExt) (lx : LExt) (bc : MCfg) (ic : ICfg) (hon : ic.inlineOn = true)
    (hoff : ext.html = false) (hoffb : bc.html = false) (ws : List Nat) (mn : Int) (d : Nat) (src : List Char) (ts : List Tok)
    (h : fullParse cls ext lx bc ic ws mn d src = .ok ts) (x : Ext) (o : ROpts) (ps : List Piece) (hr : renderP x o none ts = .ok ps) :
    ∀ p ∈ ps, isRaw p = false := by
  have hT := full_no_html cls ext lx bc ic hon hoff hoffb ws mn d src ts h
  refine no_raw x o ts ps ?_ hr
  have key : ∀ (l : List Tok), (∀ t ∈ l, t ∈ ts) → ∀ t ∈ visible l, (t.type == "html_block" || t.type == "html_inline") = false := by
    intro l
    induction l with
    | nil => intro _ t ht; cases ht
    | cons u rest ih =>
      intro hsub t ht
      simp only [visible, List.mem_append] at ht
      rcases ht with ht | ht
      · have hu := hT u (hsub u List.mem_cons_self)
        split at ht
        · rename_i hinl
          have hty : u.type = "inline" := by simpa using hinl
          cases hc : u.children with
          | none => rw [hc] at ht; simp at ht
          | some cs =>
            rw [hc] at ht
            simp only [Option.getD_some] at ht
            have := hu.2.2 hty t (by rw [hc]; simpa only [descOpt] using mem_descList_self t cs ht)
            simp [this.1, this.2]
        · simp only [List.mem_singleton] at ht
          subst ht
          simp [hu.1, hu.2.1]
      · exact ih (fun v hv => hsub v (List.mem_cons_of_mem _ hv)) t ht
  exact key ts (fun t ht => ht)

end MdIt.C04
