import MdIt.Props.C10g
/-!
# C04 (continued) — with raw HTML off, no raw-HTML token anywhere in the output of a whole parse

`C10.m_no_html` (block side) and the deep token engine (inline side, `C10.full_types` with "is not a raw-HTML type") through the core
chain: **`full_no_html`** — with the `html` option off, whatever rules are enabled, the output of `MarkdownIt.parse` on the modelled
sub-language holds no `html_block` token and, below its `inline` tokens at every depth of nested image descriptions, no `html_inline`
token.  Every other token is rendered through `escapeHtml` (`C04.no_raw`), so nothing of the source reaches the output as markup.
-/
namespace MdIt.C04
open MdIt.C01 MdIt.C05 MdIt.C10

theorem full_no_html (cls : QCls) (ext : IExt) (lx : LExt) (bc : MCfg) (ic : ICfg) (hon : ic.inlineOn = true)
    (hoff : ext.html = false) (hoffb : bc.html = false)
    (ws : List Nat) (mn : Int) (d : Nat) (src : List Char) (ts : List Tok) (h : fullParse cls ext lx bc ic ws mn d src = .ok ts) :
    ∀ t ∈ ts, t.type ≠ "html_block" ∧ t.type ≠ "html_inline"
      ∧ (t.type = "inline" → ∀ x ∈ descOpt t.children, x.type ≠ "html_inline" ∧ x.type ≠ "html_block") := by
  have hT := full_types cls ext lx bc ic hon (Q := fun ty => ty ≠ "html_inline" ∧ ty ≠ "html_block") (by decide) (fun _ => by decide)
    (fun _ => by decide)
    (by intro ty hty
        simp only [emphTypes, emTypes, sTypes, List.mem_append] at hty
        rcases hty with hty | hty <;> split at hty <;> simp at hty <;> rcases hty with rfl | rfl | rfl | rfl <;> decide)
    ⟨fun _ => by decide, fun _ => by decide, fun _ => by decide, fun _ => by decide, fun _ => by decide,
     fun _ hx => by rw [hoff] at hx; cases hx⟩ ws mn d src ts h
  -- the block side
  have hB : ∀ t ∈ ts, t.type ∈ mAllowed bc := fun t ht => (hT t ht).1
  intro t ht
  have hmem := hB t ht
  have hnb : t.type ≠ "html_block" ∧ t.type ≠ "html_inline" := by
    obtain ⟨⟨code, fence, hr, heading⟩, htmlBlock, lheading, html⟩ := bc
    simp only at hoffb
    subst hoffb
    clear h hT hB
    constructor <;> intro he <;> rw [he] at hmem <;> revert hmem <;>
      cases code <;> cases fence <;> cases hr <;> cases heading <;> cases htmlBlock <;> cases lheading <;> decide
  exact ⟨hnb.1, hnb.2, (hT t ht).2⟩

end MdIt.C04
