import MdIt.Props.C01b
import MdIt.BlockQuote
/-!
# C01 (continued) — the block quote rule satisfies its contract; the sub-parser with block quotes is total

The container rule re-enters the engine; its contract is proved by induction on the depth budget of the
chains (`qChain … d`), with the call context `Lv d` recording that the budget suffices for the levels that
can still be opened below `maxNesting`.  Ingredients: the loop does nothing at `level ≥ maxNesting`
(`block_cut`), the end-of-quote scan only rewrites the lines it saves (`quoteScan_ok`), the restore loop
puts exactly those back (`restore_lines`), and the nested run leaves the frame and ends on a later line
(`block_total_lines`).  `q_total`: for every source, every subset of `code`, `fence`, `hr`, `heading` (block
quotes on) and every `maxNesting`, the modelled parse returns normally.
-/
namespace MdIt.C01

/-! ### the loop at or beyond `maxNesting` dispatches nothing -/

theorem block_cut (rules : List BRule) (maxNesting : Int) (endLine : Nat) (fuel line : Nat) (hasEmpty : Bool) (s : BState)
    (hlen : s.lineMax + 1 ≤ s.lines.length) (hend : endLine ≤ s.lineMax) (hcut : maxNesting ≤ s.level) (hf : 0 < fuel) :
    ∃ s', blockLoop rules maxNesting endLine fuel line hasEmpty s = .ok s' ∧ s.FrameEq s' ∧ LinePost endLine line s s' := by
  cases fuel with
  | zero => omega
  | succ n =>
    simp only [blockLoop]
    split
    · rename_i hlt
      have hsk := skipEmptyLines_spec s (s.lineMax + 1) line hlen (by omega)
      have hskle := skipEmptyLines_le s (s.lineMax + 1) line
      generalize hl1 : skipEmptyLines s (s.lineMax + 1) line = line1 at hsk hskle
      have hl1max : line1 ≤ s.lineMax := by omega
      split
      · exact ⟨_, rfl, ⟨⟨rfl, rfl⟩, rfl, rfl, rfl⟩, ⟨fun _ => ⟨hsk.1, hl1max, fun _ => by show line < line1; omega⟩, fun h => absurd hlt h⟩⟩
      · have hlt1 : line1 < s.lineMax := by omega
        obtain ⟨l, hl, hne⟩ := hsk.2 hlt1
        simp only [hl]
        split
        · rename_i hout
          refine ⟨_, rfl, ⟨⟨rfl, rfl⟩, rfl, rfl, rfl⟩, ⟨fun _ => ⟨hsk.1, hl1max, fun hstart => ?_⟩, fun h => absurd hlt h⟩⟩
          show line < line1
          by_cases heq : line1 = line
          · subst heq
            have := hstart l hl hne
            have hout' : l.sCount < s.blkIndent := hout
            omega
          · have := hsk.1; omega
        · exact ⟨_, rfl, ⟨⟨rfl, rfl⟩, rfl, rfl, rfl⟩, ⟨fun _ => ⟨by show line ≤ endLine; omega, hend, fun _ => hlt⟩, fun h => absurd hlt h⟩⟩
    · rename_i hnlt
      exact ⟨s, rfl, frameEq_refl s, ⟨fun h => absurd h hnlt, fun _ => rfl⟩⟩

/-! ### the blank scan never lowers the offset -/

theorem qLoop_ge (bs : Nat) (adj : Int) : ∀ (text : List Char) (offset : Int) (n : Nat),
    offset ≤ (qLoop bs adj offset text n).1 := by
  intro text
  induction text with
  | nil => intro offset n; simp [qLoop]
  | cons c rest ih =>
    intro offset n
    simp only [qLoop]
    split
    · have := ih (offset + (4 - (offset + bs + adj) % 4)) (n + 1)
      have hm : (offset + (bs : Int) + adj) % 4 < 4 := Int.emod_lt_of_pos _ (by decide)
      omega
    · split
      · have := ih (offset + 1) (n + 1); omega
      · exact Int.le_refl _

theorem quoteStrip_sCount (l : BLine) : 0 ≤ (quoteStrip l).1.sCount := by
  simp only [quoteStrip]
  have := qLoop_ge l.bs (quoteHead l.bs l.sCount (List.drop 1 l.body)).2.2.1
    (List.drop (quoteHead l.bs l.sCount (List.drop 1 l.body)).1 (List.drop 1 l.body))
    (quoteHead l.bs l.sCount (List.drop 1 l.body)).2.1 0
  omega

/-! ### the restore loop -/

@[simp] theorem setLine_lineMax (s : BState) (i : Nat) (l : BLine) : (s.setLine i l).lineMax = s.lineMax := rfl
@[simp] theorem setLine_blkIndent (s : BState) (i : Nat) (l : BLine) : (s.setLine i l).blkIndent = s.blkIndent := rfl
@[simp] theorem setLine_level (s : BState) (i : Nat) (l : BLine) : (s.setLine i l).level = s.level := rfl
@[simp] theorem setLine_tokens (s : BState) (i : Nat) (l : BLine) : (s.setLine i l).tokens = s.tokens := rfl
@[simp] theorem setLine_line (s : BState) (i : Nat) (l : BLine) : (s.setLine i l).line = s.line := rfl
@[simp] theorem setLine_parentType (s : BState) (i : Nat) (l : BLine) : (s.setLine i l).parentType = s.parentType := rfl
@[simp] theorem setLine_lines (s : BState) (i : Nat) (l : BLine) : (s.setLine i l).lines = s.lines.set i l := rfl

theorem restoreLines_fields (saved : List BLine) : ∀ (s : BState) (start : Nat),
    (restoreLines s start saved).lineMax = s.lineMax ∧ (restoreLines s start saved).blkIndent = s.blkIndent
    ∧ (restoreLines s start saved).level = s.level ∧ (restoreLines s start saved).tokens = s.tokens
    ∧ (restoreLines s start saved).line = s.line ∧ (restoreLines s start saved).parentType = s.parentType := by
  induction saved with
  | nil => intro s start; exact ⟨rfl, rfl, rfl, rfl, rfl, rfl⟩
  | cons l rest ih =>
    intro s start
    simp only [restoreLines]
    have := ih (s.setLine start l) (start + 1)
    simpa using this

theorem restoreLines_listIndent (saved : List BLine) : ∀ (s : BState) (start : Nat),
    (restoreLines s start saved).listIndent = s.listIndent := by
  induction saved with
  | nil => intro s start; rfl
  | cons l rest ih => intro s start; simp only [restoreLines]; rw [ih]; rfl

theorem restoreLines_get (saved : List BLine) : ∀ (s : BState) (start i : Nat),
    (restoreLines s start saved).lines[i]? =
      if start ≤ i ∧ i < start + saved.length ∧ i < s.lines.length then saved[i - start]? else s.lines[i]? := by
  induction saved with
  | nil => intro s start i; simp [restoreLines]; intros; omega
  | cons l rest ih =>
    intro s start i
    simp only [restoreLines]
    rw [ih]
    simp only [setLine_lines, List.length_set, List.length_cons]
    by_cases h1 : start + 1 ≤ i ∧ i < start + 1 + rest.length ∧ i < s.lines.length
    · have h2 : start ≤ i ∧ i < start + (rest.length + 1) ∧ i < s.lines.length := by omega
      simp only [h1, h2, and_self, if_true]
      have : i - start = (i - (start + 1)) + 1 := by omega
      rw [this, List.getElem?_cons_succ]
    · simp only [h1, if_false]
      by_cases h3 : i = start
      · subst h3
        by_cases h4 : i < s.lines.length
        · have h2 : i ≤ i ∧ i < i + (rest.length + 1) ∧ i < s.lines.length := by omega
          simp only [h2, and_self, if_true, Nat.sub_self, List.getElem?_cons_zero]
          rw [List.getElem?_set_self h4]
        · have h2 : ¬ (i ≤ i ∧ i < i + (rest.length + 1) ∧ i < s.lines.length) := by omega
          simp only [h2, if_false]
          rw [List.getElem?_eq_none_iff.mpr (by simp; omega), List.getElem?_eq_none_iff.mpr (by omega)]
      · have h2 : ¬ (start ≤ i ∧ i < start + (rest.length + 1) ∧ i < s.lines.length) := by omega
        simp only [h2, if_false]
        rw [List.getElem?_set_ne (by omega)]

/-- what the scan keeps true: it only rewrote the lines it saved, and saved their original entries -/
structure ScanInv (orig : List BLine) (start : Nat) (cur : BState) (saved : List BLine) : Prop where
  len : cur.lines.length = orig.length
  saved_orig : ∀ j, j < saved.length → orig[start + j]? = saved[j]?
  rest : ∀ i, (i < start ∨ start + saved.length ≤ i) → cur.lines[i]? = orig[i]?

theorem restore_lines (orig : List BLine) (start : Nat) (cur : BState) (saved : List BLine) (h : ScanInv orig start cur saved)
    (cur' : BState) (hl : cur'.lines = cur.lines) : (restoreLines cur' start saved).lines = orig := by
  apply List.ext_getElem?
  intro i
  rw [restoreLines_get, hl]
  split
  · rename_i hc
    have := h.saved_orig (i - start) (by omega)
    rw [← this]; congr 1; omega
  · rename_i hc
    by_cases hi : i < cur.lines.length
    · exact h.rest i (by omega)
    · rw [List.getElem?_eq_none_iff.mpr (by omega), List.getElem?_eq_none_iff.mpr (by rw [← h.len]; omega)]

theorem scanInv_step {orig : List BLine} {start : Nat} {cur : BState} {saved : List BLine} (h : ScanInv orig start cur saved)
    (next : Nat) (hn : next = start + saved.length) (l l' : BLine) (hl : cur.lines[next]? = some l) (cur' : BState)
    (hc : cur'.lines = cur.lines.set next l') : ScanInv orig start cur' (saved ++ [l]) := by
  refine ⟨by rw [hc, List.length_set]; exact h.len, ?_, ?_⟩
  · intro j hj
    simp only [List.length_append, List.length_singleton] at hj
    by_cases hjl : j < saved.length
    · rw [List.getElem?_append_left hjl]; exact h.saved_orig j hjl
    · have : j = saved.length := by omega
      subst this
      rw [List.getElem?_append_right (Nat.le_refl _)]
      simp only [Nat.sub_self, List.getElem?_cons_zero]
      rw [← h.rest (start + saved.length) (Or.inr (Nat.le_refl _)), ← hn]; exact hl
  · intro i hi
    simp only [List.length_append, List.length_singleton] at hi
    rw [hc, List.getElem?_set_ne (by omega)]
    exact h.rest i (by omega)

/-! ### the lines a container presents to its nested run are the source lines minus a prefix -/

/-- every entry of `b` holds a suffix of the text of the corresponding entry of `a` (same line-feed flag) -/
def SufLines (a b : List BLine) : Prop :=
  b.length = a.length ∧ ∀ (i : Nat) (lb : BLine), b[i]? = some lb → ∃ la : BLine, a[i]? = some la ∧ lb.text <:+ la.text ∧ lb.hasLF = la.hasLF

theorem SufLines.refl (a : List BLine) : SufLines a a := ⟨rfl, fun _ lb h => ⟨lb, h, List.suffix_refl _, rfl⟩⟩

theorem SufLines.trans {a b c : List BLine} (h1 : SufLines a b) (h2 : SufLines b c) : SufLines a c := by
  refine ⟨by rw [h2.1, h1.1], ?_⟩
  intro i lc hc
  obtain ⟨lb, hb, s1, f1⟩ := h2.2 i lc hc
  obtain ⟨la, ha, s2, f2⟩ := h1.2 i lb hb
  exact ⟨la, ha, List.IsSuffix.trans s1 s2, by rw [f1, f2]⟩

theorem SufLines.set {a b : List BLine} (h : SufLines a b) (i : Nat) (lb l' : BLine) (hb : b[i]? = some lb) (hs : l'.text <:+ lb.text)
    (hf : l'.hasLF = lb.hasLF) : SufLines a (b.set i l') := by
  refine ⟨by rw [List.length_set]; exact h.1, ?_⟩
  intro j lj hj
  by_cases hij : i = j
  · subst hij
    have hi : i < b.length := by
      rcases Nat.lt_or_ge i b.length with h' | h'
      · exact h'
      · rw [List.getElem?_eq_none_iff.mpr h'] at hb; cases hb
    rw [List.getElem?_set_self hi] at hj
    cases hj
    obtain ⟨la, ha, s1, f1⟩ := h.2 i lb hb
    exact ⟨la, ha, List.IsSuffix.trans hs s1, by rw [hf, f1]⟩
  · rw [List.getElem?_set_ne hij] at hj
    exact h.2 j lj hj

theorem quoteStrip_suf (l : BLine) : (quoteStrip l).1.text <:+ l.text ∧ (quoteStrip l).1.hasLF = l.hasLF := by
  refine ⟨?_, rfl⟩
  show List.drop _ (List.drop 1 l.body) <:+ l.text
  exact List.IsSuffix.trans (List.drop_suffix _ _) (List.IsSuffix.trans (List.drop_suffix _ _) (List.drop_suffix _ _))

/-- the end-of-quote scan only ever replaces an entry by one holding a suffix of its text -/
theorem quoteScan_suf (terms : List BRule) (hin : ∀ t ∈ terms, SilentInert t) (endLine : Nat) :
    ∀ (fuel next : Nat) (le : Bool) (cur : BState) (saved : List BLine) (nx : Nat) (s2 : BState) (sv : List BLine),
      endLine < cur.lines.length →
      quoteScan terms endLine fuel next le cur saved = .ok (nx, s2, sv) → SufLines cur.lines s2.lines := by
  intro fuel
  induction fuel with
  | zero => intro next le cur saved nx s2 sv _ h; simp [quoteScan] at h
  | succ n ih =>
    intro next le cur saved nx s2 sv hlen h
    simp only [quoteScan] at h
    have stop : ∀ (x : BState) (y : List BLine), x.lines = cur.lines →
        (Except.ok (next, x, y) : Except PyErr (Nat × BState × List BLine)) = .ok (nx, s2, sv) → SufLines cur.lines s2.lines := by
      intro x y hx he
      simp only [Except.ok.injEq, Prod.mk.injEq] at he
      obtain ⟨_, e2, _⟩ := he; subst e2; rw [hx]; exact SufLines.refl _
    split at h
    · rename_i hlt
      obtain ⟨l, hg, hl⟩ := getL_ok cur next (by omega)
      simp only [hg] at h
      split at h
      · exact stop _ _ rfl h
      · split at h
        · have h1 := ih _ _ _ _ _ _ _ (by simp only [setLine_lines, List.length_set]; exact hlen) h
          have h0 : SufLines cur.lines (cur.setLine next (quoteStrip l).1).lines :=
            (SufLines.refl cur.lines).set next l _ hl (quoteStrip_suf l).1 (quoteStrip_suf l).2
          exact h0.trans h1
        · split at h
          · exact stop _ _ rfl h
          · obtain ⟨b, hb⟩ := runTerminators_inert terms hin cur next endLine (by omega)
            simp only [hb] at h
            cases b with
            | true =>
              simp only at h
              split at h
              · simp only [hg, Except.ok.injEq, Prod.mk.injEq] at h
                obtain ⟨_, e2, _⟩ := h; subst e2
                exact (SufLines.refl cur.lines).set next l _ hl (List.suffix_refl _) rfl
              · exact stop { cur with lineMax := next } _ rfl h
            | false =>
              simp only [hg] at h
              have h1 := ih _ _ _ _ _ _ _ (by simp only [setLine_lines, List.length_set]; exact hlen) h
              have h0 : SufLines cur.lines (cur.setLine next { l with sCount := -1 }).lines :=
                (SufLines.refl cur.lines).set next l _ hl (List.suffix_refl _) rfl
              exact h0.trans h1
    · exact stop _ _ rfl h

/-- the quote rule in silent mode only looks at the line -/
theorem quote_inert (codeOn : Bool) (terms inner : List BRule) (mn : Int) : SilentInert (ruleBlockquote codeOn terms inner mn) := by
  intro s line endLine hl
  obtain ⟨l, hg, _⟩ := getL_ok s line hl
  simp only [ruleBlockquote, hg]
  repeat' split
  all_goals first | exact ⟨_, rfl⟩ | simp_all

theorem qTerminators_inert (c : MiniCfg) (ws : List Nat) (mn : Int) : ∀ t ∈ qTerminators c ws mn, SilentInert t := by
  intro t ht
  simp only [qTerminators, List.mem_append, List.mem_singleton] at ht
  rcases ht with ((ht | ht) | ht) | ht
  · split at ht
    · simp at ht; subst ht; exact fence_inert _
    · cases ht
  · subst ht; exact quote_inert _ _ _ _
  · split at ht
    · simp at ht; subst ht; exact hr_inert _
    · cases ht
  · split at ht
    · simp at ht; subst ht; exact heading_inert _ _
    · cases ht

/-- the end-of-quote scan: total, bounded, and it only rewrites what it saves -/
theorem quoteScan_ok (terms : List BRule) (hin : ∀ t ∈ terms, SilentInert t) (orig : List BLine) (start endLine : Nat) :
    ∀ (fuel next : Nat) (le : Bool) (cur : BState) (saved : List BLine),
      endLine - next < fuel → next ≤ endLine → endLine < cur.lines.length → endLine ≤ cur.lineMax →
      ScanInv orig start cur saved → next = start + saved.length →
      ∃ next' s2 saved', quoteScan terms endLine fuel next le cur saved = .ok (next', s2, saved') ∧
        next ≤ next' ∧ next' ≤ endLine ∧ ScanInv orig start s2 saved' ∧
        s2.blkIndent = cur.blkIndent ∧ s2.level = cur.level ∧ s2.tokens = cur.tokens ∧ s2.line = cur.line ∧
        (s2.lineMax = cur.lineMax ∨ s2.lineMax = next') ∧ (∀ i, i < next → s2.lines[i]? = cur.lines[i]?) ∧ s2.listIndent = cur.listIndent := by
  intro fuel
  induction fuel with
  | zero => intro next _ _ _ h; omega
  | succ n ih =>
    intro next le cur saved hf hne hlen hmax hinv hnext
    simp only [quoteScan]
    split
    · rename_i hlt
      obtain ⟨l, hg, hl⟩ := getL_ok cur next (by omega)
      simp only [hg]
      have stop : ∃ next' s2 saved', (Except.ok (next, cur, saved) : Except PyErr (Nat × BState × List BLine)) = .ok (next', s2, saved') ∧
          next ≤ next' ∧ next' ≤ endLine ∧ ScanInv orig start s2 saved' ∧
          s2.blkIndent = cur.blkIndent ∧ s2.level = cur.level ∧ s2.tokens = cur.tokens ∧ s2.line = cur.line ∧
          (s2.lineMax = cur.lineMax ∨ s2.lineMax = next') ∧ (∀ i, i < next → s2.lines[i]? = cur.lines[i]?) ∧ s2.listIndent = cur.listIndent :=
        ⟨next, cur, saved, rfl, Nat.le_refl _, hne, hinv, rfl, rfl, rfl, rfl, Or.inl rfl, fun _ _ => rfl, rfl⟩
      -- a recursive step on a state whose lines are `cur.lines.set next l'`
      have step : ∀ (le' : Bool) (cur' : BState) (l' : BLine), cur'.lines = cur.lines.set next l' → cur'.lineMax = cur.lineMax →
          cur'.blkIndent = cur.blkIndent → cur'.level = cur.level → cur'.tokens = cur.tokens → cur'.line = cur.line → cur'.listIndent = cur.listIndent →
          ∃ next' s2 saved', quoteScan terms endLine n (next + 1) le' cur' (saved ++ [l]) = .ok (next', s2, saved') ∧
            next ≤ next' ∧ next' ≤ endLine ∧ ScanInv orig start s2 saved' ∧
            s2.blkIndent = cur.blkIndent ∧ s2.level = cur.level ∧ s2.tokens = cur.tokens ∧ s2.line = cur.line ∧
            (s2.lineMax = cur.lineMax ∨ s2.lineMax = next') ∧ (∀ i, i < next → s2.lines[i]? = cur.lines[i]?) ∧ s2.listIndent = cur.listIndent := by
        intro le' cur' l' hc hm hb hv ht hli hlI
        have hinv' := scanInv_step hinv next hnext l l' hl cur' hc
        obtain ⟨nx, s2, sv, h1, h2, h3, h4, h5, h6, h7, h8, h9, h10, h11⟩ := ih (next + 1) le' cur' (saved ++ [l]) (by omega) (by omega)
          (by rw [hc, List.length_set]; exact hlen) (by rw [hm]; exact hmax) hinv' (by simp; omega)
        refine ⟨nx, s2, sv, h1, by omega, h3, h4, by rw [h5, hb], by rw [h6, hv], by rw [h7, ht], by rw [h8, hli], ?_, ?_, by rw [h11, hlI]⟩
        · rcases h9 with h9 | h9
          · exact Or.inl (by rw [h9, hm])
          · exact Or.inr h9
        · intro i hi
          rw [h10 i (by omega), hc, List.getElem?_set_ne (by omega)]
      split
      · exact stop
      · split
        · exact step _ _ _ rfl rfl rfl rfl rfl rfl rfl
        · split
          · exact stop
          · obtain ⟨b, hb⟩ := runTerminators_inert terms hin cur next endLine (by omega)
            simp only [hb]
            cases b with
            | true =>
              simp only
              split
              · simp only [hg]
                refine ⟨next, _, _, rfl, Nat.le_refl _, hne, ?_, rfl, rfl, rfl, rfl, Or.inr rfl, ?_, rfl⟩
                · exact scanInv_step hinv next hnext l _ hl _ rfl
                · intro i hi
                  simp only [setLine_lines]
                  rw [List.getElem?_set_ne (by omega)]
              · exact ⟨next, _, saved, rfl, Nat.le_refl _, hne, ⟨hinv.len, hinv.saved_orig, hinv.rest⟩, rfl, rfl, rfl, rfl, Or.inr rfl, fun _ _ => rfl, rfl⟩
            | false =>
              simp only [hg]
              exact step _ _ _ rfl rfl rfl rfl rfl rfl rfl
    · exact ⟨next, cur, saved, rfl, Nat.le_refl _, hne, hinv, rfl, rfl, rfl, rfl, Or.inl rfl, fun _ _ => rfl, rfl⟩

/-! ### the contract of the quote rule, by induction on the depth budget -/

/-- the call context of a chain with budget `d`: the levels that can still be opened fit into the budget -/
def Lv (mn : Int) (d : Nat) : BState → Nat → Prop := fun s _ => mn + 1 ≤ s.level + (d : Int)

theorem lv_closed (mn : Int) (d : Nat) : FrameClosed (Lv mn d) := fun _ _ _ hf h => by
  unfold Lv at *; rw [hf.2.2.2]; exact h

/-- what the quote rule needs of its nested run -/
def InnerOK (mn : Int) (d : Nat) (inner : List BRule) : Prop :=
  ∀ (s : BState) (startLine endLine : Nat), s.lineMax + 1 ≤ s.lines.length → endLine ≤ s.lineMax → Lv mn d s endLine →
    ∃ s', blockTokenize inner mn s startLine endLine = .ok s' ∧ s.FrameEq s' ∧ LinePost endLine startLine s s'

/-- the nested run inside a matched quote, and how the result's tokens come from it -/
def QuoteRun (mn : Int) (d : Nat) (inner : List BRule) (s : BState) (line : Nat) (s' : BState) : Prop :=
  ∃ (next : Nat) (s2 s4 : BState), s2.tokens = s.tokens ∧ s2.level = s.level ∧
    (({ s2 with blkIndent := 0 }).pushFull "blockquote_open" "blockquote" 1 (some (line, 0)) none "" ">" "").lineMax + 1
      ≤ (({ s2 with blkIndent := 0 }).pushFull "blockquote_open" "blockquote" 1 (some (line, 0)) none "" ">" "").lines.length ∧
    next ≤ (({ s2 with blkIndent := 0 }).pushFull "blockquote_open" "blockquote" 1 (some (line, 0)) none "" ">" "").lineMax ∧
    Lv mn d (({ s2 with blkIndent := 0 }).pushFull "blockquote_open" "blockquote" 1 (some (line, 0)) none "" ">" "") next ∧
    blockTokenize inner mn (({ s2 with blkIndent := 0 }).pushFull "blockquote_open" "blockquote" 1 (some (line, 0)) none "" ">" "") line next = .ok s4 ∧
    s'.tokens = ((s4.pushFull "blockquote_close" "blockquote" (-1) none none "" ">" "").tokens).modify s.tokens.length
      (fun t => t.setMap (some (line, s4.line))) ∧ s'.line = s4.line ∧ SufLines s.lines s2.lines

theorem quote_shape (mn : Int) (d : Nat) (codeOn : Bool) (terms : List BRule) (hin : ∀ t ∈ terms, SilentInert t)
    (inner : List BRule) (hinner : InnerOK mn d inner) (s : BState) (line endLine : Nat)
    (hc : CallCtx (Lv mn (d + 1)) s line endLine) :
    ruleBlockquote codeOn terms inner mn s line endLine false = .ok (false, s) ∨
    ∃ s', ruleBlockquote codeOn terms inner mn s line endLine false = .ok (true, s') ∧ s.FrameEq s' ∧ line < s'.line ∧ s'.line ≤ s.lineMax
      ∧ QuoteRun mn d inner s line s' := by
  obtain ⟨l0, hl0, _, _⟩ := hc.here
  have hg := getL_of_here hl0
  simp only [ruleBlockquote, hg, Bool.false_eq_true, if_false]
  split
  · exact .inl rfl
  · split
    · exact .inl rfl
    · right
      -- the scan
      have hlenE : endLine < s.lines.length := by have := hc.len; have := hc.le; omega
      have hinv0 : ScanInv s.lines line s [] := ⟨rfl, fun j hj => by simp at hj, fun _ _ => rfl⟩
      have hinv1 : ScanInv s.lines line ({ (s.setLine line (quoteStrip l0).1) with parentType := "blockquote" }) ([] ++ [l0]) :=
        scanInv_step hinv0 line (by simp) l0 _ hl0 _ rfl
      obtain ⟨next, s2, saved, hscan, hn1, hn2, hinv2, hb2, hv2, ht2, hli2, hlm2, hpre2, hlI2⟩ :=
        quoteScan_ok terms hin s.lines line endLine (endLine - line + 1) (line + 1) (quoteStrip l0).2
          ({ (s.setLine line (quoteStrip l0).1) with parentType := "blockquote" }) [l0]
          (by omega) (by have := hc.lt; omega) (by simp; exact hlenE) hc.le (by simpa using hinv1) (by simp)
      simp only [hscan]
      -- the nested run
      have hlen3 : s2.lines.length = s.lines.length := hinv2.len
      have hlm3 : s2.lineMax + 1 ≤ s2.lines.length ∧ next ≤ s2.lineMax ∧ s2.lineMax ≤ s.lineMax := by
        have := hc.len; have := hc.le
        rcases hlm2 with h | h
        · have : s2.lineMax = s.lineMax := h
          omega
        · omega
      obtain ⟨s4, hrun, hfr4, hpost4⟩ := hinner
        (({ s2 with blkIndent := 0 }).pushFull "blockquote_open" "blockquote" 1 (some (line, 0)) none "" ">" "")
        line next (by simpa using hlm3.1) (by simpa using hlm3.2.1)
        (by
          have hL := hc.extra
          unfold Lv at *
          rw [pushFull_level_open]
          have : s2.level = s.level := hv2
          simp only []
          omega)
      simp only [hrun]
      have hLv3 : Lv mn d (({ s2 with blkIndent := 0 }).pushFull "blockquote_open" "blockquote" 1 (some (line, 0)) none "" ">" "") next := by
        have hL := hc.extra
        unfold Lv at *
        rw [pushFull_level_open]
        have : s2.level = s.level := hv2
        simp only []
        omega
      refine ⟨_, rfl, ?_, ?_, ?_, ⟨next, s2, s4, ht2, hv2, by simpa using hlm3.1, by simpa using hlm3.2.1, hLv3, hrun, ?_, ?_, ?_⟩⟩
      · -- frame
        refine ⟨⟨?_, ?_⟩, ?_, ?_, ?_⟩
        · show (restoreLines _ line saved).lines = s.lines
          exact restore_lines s.lines line s2 saved hinv2 _ (by simp; rw [hfr4.1.1]; rfl)
        · show (restoreLines _ line saved).listIndent = s.listIndent
          rw [restoreLines_listIndent]
          show s4.listIndent = s.listIndent
          rw [hfr4.1.2]
          exact hlI2
        · show (restoreLines _ line saved).lineMax = s.lineMax
          rw [(restoreLines_fields saved _ line).1]
        · show s2.blkIndent = s.blkIndent
          exact hb2
        · show (restoreLines _ line saved).level = s.level
          rw [(restoreLines_fields saved _ line).2.2.1]
          have h4 := hfr4.2.2.2
          rw [pushFull_level_open] at h4
          have : s2.level = s.level := hv2
          simp only [pushFull_level_close, h4]
          omega
      · -- progress: later line
        show line < (restoreLines _ line saved).line
        rw [(restoreLines_fields saved _ line).2.2.2.2.1]
        show line < s4.line
        have hlt : line < next := by omega
        have hstart : ∀ l, (({ s2 with blkIndent := 0 }).pushFull "blockquote_open" "blockquote" 1 (some (line, 0)) none "" ">" "").lines[line]? = some l →
            l.empty = false → (({ s2 with blkIndent := 0 }).pushFull "blockquote_open" "blockquote" 1 (some (line, 0)) none "" ">" "").blkIndent ≤ l.sCount := by
          intro l hl _
          have h1 : s2.lines[line]? = some (quoteStrip l0).1 := by
            rw [hpre2 line (by omega)]
            simp only [setLine_lines]
            rw [List.getElem?_set_self (by have := hc.len; have := hc.lt; have := hc.le; omega)]
          have : l = (quoteStrip l0).1 := by
            have hl' : s2.lines[line]? = some l := hl
            rw [h1] at hl'; exact (Option.some.inj hl').symm
          subst this
          exact quoteStrip_sCount l0
        exact (hpost4.1 hlt).2.2 hstart
      · show (restoreLines _ line saved).line ≤ s.lineMax
        rw [(restoreLines_fields saved _ line).2.2.2.2.1]
        show s4.line ≤ s.lineMax
        have hlt : line < next := by omega
        have := (hpost4.1 hlt).2.1
        have h3 : (({ s2 with blkIndent := 0 }).pushFull "blockquote_open" "blockquote" 1 (some (line, 0)) none "" ">" "").lineMax = s2.lineMax := rfl
        rw [h3] at this
        omega
      · show (restoreLines _ line saved).tokens = _
        rw [(restoreLines_fields saved _ line).2.2.2.1]
        have : s2.tokens.length = s.tokens.length := by rw [ht2]; rfl
        show List.modify _ s2.tokens.length _ = _
        rw [this]
        rfl
      · show (restoreLines _ line saved).line = s4.line
        rw [(restoreLines_fields saved _ line).2.2.2.2.1]
        rfl
      · have h1 := quoteScan_suf terms hin endLine _ _ _ _ _ _ _ _ (by simp; exact hlenE) hscan
        have h0 : SufLines s.lines ({ (s.setLine line (quoteStrip l0).1) with parentType := "blockquote" } : BState).lines :=
          (SufLines.refl s.lines).set line l0 _ hl0 (quoteStrip_suf l0).1 (quoteStrip_suf l0).2
        exact h0.trans h1

theorem ruleOK_blockquote (mn : Int) (d : Nat) (codeOn : Bool) (terms : List BRule) (hin : ∀ t ∈ terms, SilentInert t)
    (inner : List BRule) (hinner : InnerOK mn d inner) : RuleOK (Lv mn (d + 1)) (ruleBlockquote codeOn terms inner mn) := by
  have key := quote_shape mn d codeOn terms hin inner hinner
  refine ⟨?_, ?_, ?_, ?_⟩
  · intro s line endLine hc
    rcases key s line endLine hc with h | ⟨s', h, _⟩ <;> exact ⟨_, _, h⟩
  · intro s line endLine s' hc h
    rcases key s line endLine hc with h' | ⟨s'', h', _, h2, h3, _⟩
    · rw [h'] at h; cases h
    · rw [h'] at h; cases h; exact ⟨h2, h3⟩
  · intro s line endLine s' hc h
    rcases key s line endLine hc with h' | ⟨s'', h', _⟩
    · rw [h'] at h; cases h; rfl
    · rw [h'] at h; cases h
  · intro s line endLine m s' hc h
    rcases key s line endLine hc with h' | ⟨s'', h', hf, _⟩
    · rw [h'] at h; cases h; exact ⟨⟨rfl, rfl⟩, rfl, rfl, rfl⟩
    · rw [h'] at h; cases h; exact hf

/-- the chains: every rule satisfies its contract at its depth, and the nested runs are total with frame and line bounds -/
theorem qChain_ok (c : MiniCfg) (ws : List Nat) (mn : Int) : ∀ d : Nat,
    (∀ r ∈ qChain c ws mn d, RuleOK (Lv mn d) r) ∧ InnerOK mn d (qChain c ws mn d) := by
  intro d
  induction d with
  | zero =>
    refine ⟨fun r hr => by simp [qChain] at hr, ?_⟩
    intro s startLine endLine hlen hend hlv
    unfold Lv at hlv
    exact block_cut [] mn endLine _ startLine false s hlen hend (by simp at hlv; omega) (by omega)
  | succ d ih =>
    have hterm := qTerminators_inert c ws mn
    have hrules : ∀ r ∈ qChain c ws mn (d + 1), RuleOK (Lv mn (d + 1)) r := by
      intro r hr
      simp only [qChain, List.mem_append, List.mem_singleton] at hr
      rcases hr with ((((hr | hr) | hr) | hr) | hr) | hr
      · split at hr
        · simp at hr; subst hr; exact ruleOK_code _ _
        · cases hr
      · split at hr
        · simp at hr; subst hr; exact ruleOK_fence _ _
        · cases hr
      · subst hr; exact ruleOK_blockquote mn d c.code _ hterm _ ih.2
      · split at hr
        · simp at hr; subst hr; exact ruleOK_hr _ _
        · cases hr
      · split at hr
        · simp at hr; subst hr; exact ruleOK_heading _ _ _
        · cases hr
      · subst hr; exact ruleOK_paragraph _ _ hterm ws
    refine ⟨hrules, ?_⟩
    intro s startLine endLine hlen hend hlv
    have hlast : ∃ r ∈ qChain c ws mn (d + 1), AlwaysMatches (Lv mn (d + 1)) r :=
      ⟨ruleParagraph (qTerminators c ws mn) ws, by simp [qChain], paragraph_always _ _ hterm ws⟩
    exact block_total_lines (Lv mn (d + 1)) (lv_closed mn (d + 1)) _ hrules hlast mn endLine _ startLine false s hlen hend hlv (by omega)

/-- **C01.q_total** — with block quotes in the chain: for every source, every subset of `code`, `fence`, `hr`, `heading`,
every white-space table and every `maxNesting`, the modelled parse (normalize, line scan, block loop, nested runs of the
quote rule to any depth) returns a token list -/
theorem q_total (c : MiniCfg) (ws : List Nat) (maxNesting : Int) (src : List Char) :
    ∃ ts, qParse c ws maxNesting src = .ok ts := by
  unfold qParse
  simp only
  split
  · exact ⟨[], rfl⟩
  · obtain ⟨s', h, _⟩ := (qChain_ok c ws maxNesting (maxNesting.toNat + 1)).2 (initBState (normalize src)) 0
      (initBState (normalize src)).lineMax (initBState_len _) (Nat.le_refl _)
      (by unfold Lv; show maxNesting + 1 ≤ (0 : Int) + ((maxNesting.toNat + 1 : Nat) : Int); omega)
    rw [h]; exact ⟨_, rfl⟩

/-! non-vacuity: nested quotes, a lazy line, a terminator -/
example : typesOf (qParse ⟨true, true, true, true⟩ [32, 9, 10] 100 "> > a\nlazy\n> # h\n***\n".toList)
    = some ["blockquote_open", "blockquote_open", "paragraph_open", "inline", "paragraph_close", "blockquote_close",
            "heading_open", "inline", "heading_close", "blockquote_close", "hr"] := by decide +kernel

end MdIt.C01
