import MdIt.Props.C05b
import MdIt.Props.C01i
/-!
# C05 (continued) — every `href` the inline sub-parser *with the link rule* stores is normalised and validated

`C05.xmini_hrefs` covered autolinks.  Here the `link` rule is in the chain: an inline link `[text](dest "title")` stores
`normalizeLink(dest)` only after `validateLink` accepted it (otherwise the construct falls back to the reference form or stays
text), a reference link stores what `env["references"]` holds — validated when the definition was recorded (hypothesis `RefsOK` on
the reference table: the `reference` block rule is not in the modelled sub-parser), or the link has an empty destination.
**`link_hrefs`**: for every source, rule subset, `maxNesting`, budget, classification, external functions and every reference table
whose entries are acceptable, every `link_open` of the inline parse carries an `href` that is empty, or URL-safe ASCII that a browser
does not read as one of the dangerous schemes (unless a whitelisted `data:image/…;`).

The engine is `C10.IAdds` restated for both modes under the two-mode contract of `C01i` (`IAdds4`: a call appends tokens satisfying
`N`, and none at all in silent mode), through `skipToken`, the label walks, the nested run and the scope-opening / -closing pushes.
-/
namespace MdIt.C05
open MdIt.C01 MdIt.C10

/-- a call appends tokens satisfying `N`; a silent call appends none -/
def IAdds4 (N : Tok → Prop) (r : IRule) : Prop :=
  ∀ s silent m s', ICtx s → CacheOK s → r s silent = .ok (m, s') →
    ∃ new, s'.tokens = s.tokens ++ new ∧ (∀ t ∈ new, N t) ∧ (silent = true → new = [])

/-- a silent call of the rule leaves the token list alone -/
def ISilentTok (r : IRule) : Prop := ∀ s m s', ICtx s → r s true = .ok (m, s') → s'.tokens = s.tokens

theorem iadds4_of (N : Tok → Prop) (r : IRule) (ha : IAdds N r) (hs : ISilentTok r) : IAdds4 N r := by
  intro s silent m s' hc _ hr
  cases silent with
  | true => exact ⟨[], by rw [hs s m s' hc hr]; simp, by simp, fun _ => rfl⟩
  | false =>
    obtain ⟨new, h1, h2⟩ := ha s false m s' hc hr
    exact ⟨new, h1, h2, by simp⟩

theorem silentTok_text : ISilentTok ruleText := by
  intro s m s' _ hr
  unfold ruleText at hr
  split at hr <;> (simp only [Except.ok.injEq, Prod.mk.injEq] at hr; obtain ⟨_, rfl⟩ := hr; rfl)

theorem silentTok_newline : ISilentTok ruleNewline := by
  intro s m s' hc hr
  have hin : s.pos < s.src.length := by have := hc.1; have := hc.2; omega
  unfold ruleNewline at hr
  rw [List.getElem?_eq_getElem hin] at hr
  simp only [if_true] at hr
  split at hr <;> (simp only [Except.ok.injEq, Prod.mk.injEq] at hr; obtain ⟨_, rfl⟩ := hr; rfl)

theorem silentTok_escape : ISilentTok ruleEscape := by
  intro s m s' hc hr
  have hin : s.pos < s.src.length := by have := hc.1; have := hc.2; omega
  unfold ruleEscape at hr
  rw [List.getElem?_eq_getElem hin] at hr
  simp only [if_true] at hr
  repeat' split at hr
  all_goals first
    | (simp only [Except.ok.injEq, Prod.mk.injEq] at hr; obtain ⟨_, rfl⟩ := hr; rfl)
    | (cases hr; done)

theorem silentTok_backticks : ISilentTok ruleBackticks := by
  intro s m s' hc hr
  have hin : s.pos < s.src.length := by have := hc.1; have := hc.2; omega
  unfold ruleBackticks at hr
  rw [List.getElem?_eq_getElem hin] at hr
  simp only [if_true] at hr
  repeat' split at hr
  all_goals first
    | (simp only [Except.ok.injEq, Prod.mk.injEq] at hr; obtain ⟨_, rfl⟩ := hr; rfl)
    | (cases hr; done)

theorem silentTok_emphasis (cls : QCls) : ISilentTok (ruleEmphasis cls) := by
  intro s m s' hc hr
  have hin : s.pos < s.src.length := by have := hc.1; have := hc.2; omega
  unfold ruleEmphasis at hr
  rw [List.getElem?_eq_getElem hin] at hr
  simp only [if_true, Except.ok.injEq, Prod.mk.injEq] at hr
  obtain ⟨_, rfl⟩ := hr; rfl

theorem silentTok_strike (cls : QCls) : ISilentTok (ruleStrike cls) := by
  intro s m s' hc hr
  have hin : s.pos < s.src.length := by have := hc.1; have := hc.2; omega
  unfold ruleStrike at hr
  rw [List.getElem?_eq_getElem hin] at hr
  simp only [if_true, Except.ok.injEq, Prod.mk.injEq] at hr
  obtain ⟨_, rfl⟩ := hr; rfl

theorem silentTok_entity (ext : IExt) : ISilentTok (ruleEntity ext) := by
  intro s m s' hc hr
  have hin : s.pos < s.src.length := by have := hc.1; have := hc.2; omega
  unfold ruleEntity at hr
  rw [List.getElem?_eq_getElem hin] at hr
  simp only [if_true] at hr
  repeat' split at hr
  all_goals first
    | (simp only [Except.ok.injEq, Prod.mk.injEq] at hr; obtain ⟨_, rfl⟩ := hr; rfl)
    | (cases hr; done)

theorem silentTok_autolink (ext : IExt) : ISilentTok (ruleAutolink ext) := by
  intro s m s' hc hr
  have hin : s.pos < s.src.length := by have := hc.1; have := hc.2; omega
  unfold ruleAutolink at hr
  rw [List.getElem?_eq_getElem hin] at hr
  simp only [if_true] at hr
  repeat' split at hr
  all_goals first
    | (simp only [Except.ok.injEq, Prod.mk.injEq] at hr; obtain ⟨_, rfl⟩ := hr; rfl)
    | (cases hr; done)

theorem silentTok_htmlInline (ext : IExt) : ISilentTok (ruleHtmlInline ext) := by
  intro s m s' hc hr
  have hin : s.pos < s.src.length := by have := hc.1; have := hc.2; omega
  unfold ruleHtmlInline at hr
  split at hr
  · simp only [Except.ok.injEq, Prod.mk.injEq] at hr; obtain ⟨_, rfl⟩ := hr; rfl
  · rw [List.getElem?_eq_getElem hin] at hr
    simp only [if_true] at hr
    repeat' split at hr
    all_goals first
      | (simp only [Except.ok.injEq, Prod.mk.injEq] at hr; obtain ⟨_, rfl⟩ := hr; rfl)
      | (cases hr; done)


/-! ### the silent walks leave the token list alone -/

theorem iok4_ret {r : IRule} (h : IOK4 r) {s : IState} {silent m : Bool} {s' : IState} (hc : ICtx s) (hk : CacheOK s)
    (hr : r s silent = .ok (m, s')) : Ret4 s m s' := by
  obtain ⟨m1, s1, h1, hret⟩ := h s silent hc hk
  rw [h1] at hr
  simp only [Except.ok.injEq, Prod.mk.injEq] at hr
  obtain ⟨rfl, rfl⟩ := hr
  exact hret

theorem runSilent_tok (N : Tok → Prop) (rules : List IRule) (hok : ∀ r ∈ rules, IOK4 r) (had : ∀ r ∈ rules, IAdds4 N r) :
    ∀ (s : IState) (m : Bool) (s' : IState), ICtx s → CacheOK s → runSilent rules s = .ok (m, s') → s'.tokens = s.tokens := by
  induction rules with
  | nil => intro s m s' _ _ h; simp only [runSilent, Except.ok.injEq, Prod.mk.injEq] at h; obtain ⟨_, rfl⟩ := h; rfl
  | cons r rest ih =>
    intro s m s' hc hk h
    simp only [runSilent] at h
    cases hr : r { s with level := s.level + 1 } true with
    | error e => rw [hr] at h; cases h
    | ok v =>
      obtain ⟨m1, s1⟩ := v
      rw [hr] at h
      simp only at h
      have hc0 : ICtx { s with level := s.level + 1 } := hc
      have hk0 : CacheOK { s with level := s.level + 1 } := hk
      obtain ⟨new, ht, _, hnil⟩ := had r (by simp) _ true m1 s1 hc0 hk0 hr
      have ht1 : s1.tokens = s.tokens := by rw [ht, hnil rfl]; simp
      have hret := iok4_ret (hok r (by simp)) hc0 hk0 hr
      cases m1 with
      | true =>
        simp only [if_true, Except.ok.injEq, Prod.mk.injEq] at h
        obtain ⟨_, rfl⟩ := h; exact ht1
      | false =>
        simp only [Bool.false_eq_true, if_false] at h
        have hc1 : ICtx { s1 with level := s1.level - 1 } := by
          unfold ICtx; show s1.pos < s1.posMax ∧ s1.posMax ≤ s1.src.length
          rw [hret.2.2.2.2.2.2.2 rfl, hret.2.2.1, hret.1]; exact hc
        have := ih (fun q hq => hok q (by simp [hq])) (fun q hq => had q (by simp [hq])) { s1 with level := s1.level - 1 } m s' hc1
          hret.2.2.2.2.2.1 h
        exact this.trans ht1

theorem skipToken_tok (N : Tok → Prop) (chain : List IRule) (hok : ∀ r ∈ chain, IOK4 r) (had : ∀ r ∈ chain, IAdds4 N r) (mn : Int)
    (s s' : IState) (hc : ICtx s) (hk : CacheOK s) (h : skipToken chain mn s = .ok s') : s'.tokens = s.tokens := by
  unfold skipToken at h
  cases hg : cacheGet s.cache s.pos with
  | some p => rw [hg] at h; simp only [Except.ok.injEq] at h; subst h; rfl
  | none =>
    rw [hg] at h
    simp only at h
    by_cases hlv : s.level < mn
    · simp only [hlv, if_true] at h
      cases hr : runSilent chain s with
      | error e => rw [hr] at h; cases h
      | ok v =>
        obtain ⟨m, s1⟩ := v
        rw [hr] at h
        simp only [Except.ok.injEq] at h
        subst h
        have := runSilent_tok N chain hok had s m s1 hc hk hr
        show (if m = true then s1 else { s1 with pos := s1.pos + 1 }).tokens = s.tokens
        split <;> exact this
    · simp only [hlv, if_false, Bool.false_eq_true, Except.ok.injEq] at h
      subst h; rfl

theorem labelLoop_tok (N : Tok → Prop) (chain : List IRule) (hok : ∀ r ∈ chain, IOK4 r) (had : ∀ r ∈ chain, IAdds4 N r) (mn : Int) (dn : Bool) :
    ∀ (fuel level : Nat) (s : IState) (r : Int) (s' : IState), s.posMax ≤ s.src.length → CacheOK s →
      labelLoop chain mn dn fuel level s = .ok (r, s') → s'.tokens = s.tokens := by
  intro fuel
  induction fuel with
  | zero => intro level s r s' _ _ h; simp [labelLoop] at h
  | succ n ih =>
    intro level s r s' hend hk h
    simp only [labelLoop] at h
    split at h
    · rename_i hlt
      have hin : s.pos < s.src.length := by omega
      rw [List.getElem?_eq_getElem hin] at h
      simp only at h
      split at h
      · simp only [Except.ok.injEq, Prod.mk.injEq] at h; obtain ⟨_, rfl⟩ := h; rfl
      · cases hs : skipToken chain mn s with
        | error e => rw [hs] at h; cases h
        | ok s1 =>
          rw [hs] at h
          simp only at h
          have ht1 := skipToken_tok N chain hok had mn s s1 ⟨hlt, hend⟩ hk hs
          obtain ⟨s1', hs1', hfr, _⟩ := skipToken4 chain hok mn s ⟨hlt, hend⟩ hk
          rw [hs] at hs1'; cases hs1'
          have hend1 : s1.posMax ≤ s1.src.length := by rw [hfr.1, hfr.2.2.1]; exact hend
          split at h
          · cases h
          · repeat' split at h
            all_goals first
              | (simp only [Except.ok.injEq, Prod.mk.injEq] at h; obtain ⟨_, rfl⟩ := h; exact ht1)
              | exact (ih _ _ _ _ hend1 hfr.2.2.2.2.2 h).trans ht1
    · simp only [Except.ok.injEq, Prod.mk.injEq] at h; obtain ⟨_, rfl⟩ := h; rfl

theorem parseLinkLabel_tok (N : Tok → Prop) (chain : List IRule) (hok : ∀ r ∈ chain, IOK4 r) (had : ∀ r ∈ chain, IAdds4 N r) (mn : Int)
    (s : IState) (start : Nat) (dn : Bool) (r : Int) (s' : IState) (hend : s.posMax ≤ s.src.length) (hk : CacheOK s)
    (h : parseLinkLabel chain mn s start dn = .ok (r, s')) : s'.tokens = s.tokens := by
  unfold parseLinkLabel at h
  cases hl : labelLoop chain mn dn (s.posMax - start + 1) 1 { s with pos := start + 1 } with
  | error e => rw [hl] at h; cases h
  | ok v =>
    obtain ⟨r1, s1⟩ := v
    rw [hl] at h
    simp only [Except.ok.injEq, Prod.mk.injEq] at h
    obtain ⟨_, rfl⟩ := h
    exact labelLoop_tok N chain hok had mn dn _ _ { s with pos := start + 1 } r1 s1 hend hk hl

theorem linkRef_tok (N : Tok → Prop) (lx : LExt) (mn : Int) (inner : List IRule) (hok : ∀ r ∈ inner, IOK4 r) (had : ∀ r ∈ inner, IAdds4 N r)
    (s : IState) (labelStart labelEnd maximum pos1 : Nat) (s2 : IState) (o) (hend : s.posMax ≤ s.src.length) (hk : CacheOK s)
    (h : linkRef lx mn inner s labelStart labelEnd maximum pos1 = .ok (s2, o)) : s2.tokens = s.tokens := by
  unfold linkRef at h
  split at h
  · simp only [Except.ok.injEq, Prod.mk.injEq] at h; obtain ⟨rfl, _⟩ := h; rfl
  · cases hl : linkSecondLabel mn inner s labelEnd maximum pos1 with
    | error e => rw [hl] at h; cases h
    | ok v =>
      obtain ⟨pos2, label, s3⟩ := v
      rw [hl] at h
      simp only at h
      have ht3 : s3.tokens = s.tokens := by
        unfold linkSecondLabel at hl
        split at hl
        · cases hp : parseLinkLabel inner mn s pos1 false with
          | error e => rw [hp] at hl; cases hl
          | ok w =>
            obtain ⟨e2, s4⟩ := w
            rw [hp] at hl
            simp only at hl
            have := parseLinkLabel_tok N inner hok had mn s pos1 false e2 s4 hend hk hp
            split at hl <;> (simp only [Except.ok.injEq, Prod.mk.injEq] at hl; obtain ⟨_, _, rfl⟩ := hl; exact this)
        · simp only [Except.ok.injEq, Prod.mk.injEq] at hl; obtain ⟨_, _, rfl⟩ := hl; rfl
      split at h <;> (simp only [Except.ok.injEq, Prod.mk.injEq] at h; obtain ⟨rfl, _⟩ := h; exact ht3)


/-! ### the normal-mode loop appends tokens satisfying `N` -/

theorem runChain_toks4 (N : Tok → Prop) (rules : List IRule) (hok : ∀ r ∈ rules, IOK4 r) (had : ∀ r ∈ rules, IAdds4 N r) :
    ∀ (s : IState) (m : Bool) (s' : IState), ICtx s → CacheOK s → runChain rules s = .ok (m, s') →
      ∃ new, s'.tokens = s.tokens ++ new ∧ ∀ t ∈ new, N t := by
  induction rules with
  | nil => intro s m s' _ _ h; simp only [runChain, Except.ok.injEq, Prod.mk.injEq] at h; obtain ⟨_, rfl⟩ := h; exact adds_nil rfl
  | cons r rest ih =>
    intro s m s' hc hk h
    simp only [runChain] at h
    cases hr : r s false with
    | error e => rw [hr] at h; cases h
    | ok v =>
      obtain ⟨m1, s1⟩ := v
      rw [hr] at h
      obtain ⟨new, ht, hn, _⟩ := had r (by simp) s false m1 s1 hc hk hr
      have hret := iok4_ret (hok r (by simp)) hc hk hr
      cases m1 with
      | true => simp only [Except.ok.injEq, Prod.mk.injEq] at h; obtain ⟨_, rfl⟩ := h; exact ⟨new, ht, hn⟩
      | false =>
        simp only at h
        have := ih (fun q hq => hok q (by simp [hq])) (fun q hq => had q (by simp [hq])) s1 m s' (ictx_of_ret hc hret) hret.2.2.2.2.2.1 h
        exact adds_trans ⟨new, ht, hn⟩ this

theorem loop_toks4 (N : Tok → Prop) (rules : List IRule) (hok : ∀ r ∈ rules, IOK4 r) (had : ∀ r ∈ rules, IAdds4 N r) (mn : Int) :
    ∀ (fuel : Nat) (ok : Bool) (s s' : IState), s.posMax ≤ s.src.length → CacheOK s →
      tokenizeLoop rules mn s.posMax fuel ok s = .ok s' → ∃ new, s'.tokens = s.tokens ++ new ∧ ∀ t ∈ new, N t := by
  intro fuel
  induction fuel with
  | zero =>
    intro ok s s' _ _ h
    simp only [tokenizeLoop] at h
    split at h
    · cases h
    · simp only [Except.ok.injEq] at h; subst h; exact adds_nil rfl
  | succ n ih =>
    intro ok s s' hend hk h
    simp only [tokenizeLoop] at h
    split at h
    · rename_i hlt
      have hc : ICtx s := ⟨hlt, hend⟩
      by_cases hlv : s.level < mn
      · simp only [hlv, if_true] at h
        obtain ⟨m, s1, hch, hret⟩ := runChain4 rules hok s hc hk
        rw [hch] at h
        have h1 := runChain_toks4 N rules hok had s m s1 hc hk hch
        obtain ⟨a, _, c, _, _, f, _, g⟩ := hret
        simp only at h
        cases m with
        | true =>
          simp only [if_true] at h
          split at h
          · simp only [Except.ok.injEq] at h; subst h; exact h1
          · split at h
            · cases h
            · rw [← c] at h
              exact adds_trans h1 (ih true s1 s' (by rw [a, c]; exact hend) f h)
        | false =>
          simp only [Bool.false_eq_true, if_false] at h
          have hpos := g rfl
          have hin : s1.pos < s1.src.length := by rw [a, hpos]; omega
          rw [List.getElem?_eq_getElem hin] at h
          simp only at h
          rw [← c] at h
          exact adds_trans h1 (ih false { s1 with pending := s1.pending ++ [s1.src[s1.pos]], pos := s1.pos + 1 } s'
            (by show s1.posMax ≤ s1.src.length; rw [a, c]; exact hend) f h)
      · simp only [hlv, if_false] at h
        cases ok with
        | true =>
          simp only [if_true] at h
          split at h
          · simp only [Except.ok.injEq] at h; subst h; exact adds_nil rfl
          · simp only [Nat.le_refl, if_true] at h; cases h
        | false =>
          simp only [Bool.false_eq_true, if_false] at h
          have hin : s.pos < s.src.length := by omega
          rw [List.getElem?_eq_getElem hin] at h
          simp only at h
          exact ih false { s with pending := s.pending ++ [s.src[s.pos]], pos := s.pos + 1 } s' hend hk h
    · simp only [Except.ok.injEq] at h; subst h; exact adds_nil rfl

/-! ### the link rule -/

/-- what the link rule's opening token must satisfy, given how its `href` arose -/
def LinkSrc (ext : IExt) (lx : LExt) (href : List Char) : Prop :=
  href = [] ∨ (∃ u, href = ext.normLink u ∧ validateLink (ext.normLink u) = true) ∨ (∃ l t, lx.refs l = some (href, t))

theorem linkDestTitle_src (ext : IExt) (lx : LExt) (s : IState) (maximum p1 : Nat) : LinkSrc ext lx (linkDestTitle ext s maximum p1).2.1 := by
  unfold linkDestTitle
  cases hd : parseLinkDestination ext s.src p1 s.posMax with
  | none => exact .inl rfl
  | some q =>
    obtain ⟨dpos, dstr⟩ := q
    simp only
    have key : LinkSrc ext lx (if validateLink (ext.normLink dstr) = true then ext.normLink dstr else []) := by
      split
      · rename_i hv; exact .inr (.inl ⟨dstr, rfl, hv⟩)
      · exact .inl rfl
    generalize (if validateLink (ext.normLink dstr) = true then ext.normLink dstr else []) = href at key
    repeat' split
    all_goals exact key

theorem linkInline_src (ext : IExt) (lx : LExt) (s : IState) (labelEnd maximum pos1 : Nat) (h t : List Char) (pr : Bool)
    (hi : linkInline ext s labelEnd maximum = some (pos1, h, t, pr)) : LinkSrc ext lx h := by
  unfold linkInline at hi
  simp only at hi
  split at hi
  · split at hi
    · cases hi
    · simp only [Option.some.injEq, Prod.mk.injEq] at hi
      obtain ⟨_, rfl, _⟩ := hi
      exact linkDestTitle_src ext lx s maximum _
  · simp only [Option.some.injEq, Prod.mk.injEq] at hi
    obtain ⟨_, rfl, _⟩ := hi
    exact .inl rfl

theorem linkRef_src (ext : IExt) (lx : LExt) (mn : Int) (inner : List IRule) (s : IState) (labelStart labelEnd maximum pos1 : Nat) (s2 : IState)
    (pos : Nat) (h t l : List Char) (hr : linkRef lx mn inner s labelStart labelEnd maximum pos1 = .ok (s2, some (pos, h, t, l))) :
    LinkSrc ext lx h := by
  unfold linkRef at hr
  split at hr
  · simp at hr
  · cases hl : linkSecondLabel mn inner s labelEnd maximum pos1 with
    | error e => rw [hl] at hr; cases hr
    | ok v =>
      obtain ⟨pos2, label, s3⟩ := v
      rw [hl] at hr
      simp only at hr
      split at hr
      · simp at hr
      · rename_i h' t' href
        simp only [Except.ok.injEq, Prod.mk.injEq, Option.some.injEq] at hr
        obtain ⟨_, _, rfl, rfl, _⟩ := hr
        exact .inr (.inr ⟨_, _, href⟩)


/-- the token predicate: a `link_open` carries, as its first attribute, an `href` that arose in one of the three legitimate ways -/
def LTok (ext : IExt) (lx : LExt) (t : Tok) : Prop :=
  t.type = "link_open" → ∃ href, t.attrs.head? = some ("href", .s (String.ofList href)) ∧ LinkSrc ext lx href

theorem ltok_other (ext : IExt) (lx : LExt) (t : Tok) (h : t.type ≠ "link_open") : LTok ext lx t := fun ht => absurd ht h

theorem ltok_text (ext : IExt) (lx : LExt) : ∀ lvl c, LTok ext lx (mkInlineTok "text" "" 0 lvl c "" "") :=
  fun _ _ => ltok_other _ _ _ (by simp [mkInlineTok, Tok.type])

/-- what the link rule needs of a token predicate: childless `text` and `link_close` tokens satisfy it, and so does a childless
    `link_open` whose first attribute is an `href` that arose legitimately -/
structure LinkN (ext : IExt) (lx : LExt) (N : Tok → Prop) : Prop where
  flat : ∀ t, t.children = none → t.type = "text" ∨ t.type = "link_close" → N t
  linkOpen : ∀ t href (label : List Char), t.children = none → t.type = "link_open" → t.attrs.head? = some ("href", .s (String.ofList href)) →
    t.metaD = (if !label.isEmpty && lx.storeLabels then [("label", String.ofList label)] else []) → LinkSrc ext lx href → N t

theorem LinkN.text {ext : IExt} {lx : LExt} {N : Tok → Prop} (h : LinkN ext lx N) : ∀ lvl c, N (mkInlineTok "text" "" 0 lvl c "" "") :=
  fun _ _ => h.flat _ rfl (.inl rfl)

theorem ltok_linkN (ext : IExt) (lx : LExt) : LinkN ext lx (LTok ext lx) :=
  ⟨fun t _ h => ltok_other ext lx t (by rcases h with h | h <;> rw [h] <;> decide), fun _ href _ _ _ ha _ hs _ => ⟨href, ha, hs⟩⟩

theorem pushOpen_tokens (s : IState) (ty tag : String) (a : List (String × AttrVal)) (md : List (String × String)) :
    ∃ (flush : List Tok) (t : Tok), (s.pushOpen ty tag a md).tokens = s.tokens ++ flush ++ [t] ∧ t.type = ty ∧ t.attrs = a
      ∧ t.children = none ∧ t.metaD = md ∧ (∀ x ∈ flush, x.type = "text" ∧ x.children = none) := by
  unfold IState.pushOpen IState.pushA
  simp only
  obtain ⟨lvl, lvl', p, h⟩ := push_adds s ty tag 1 "" "" ""
  rw [h]
  rw [modify_last, List.length_append, List.length_singleton, Nat.add_sub_cancel]
  have : ((s.tokens ++ if s.pending.isEmpty = true then [] else [mkInlineTok "text" "" 0 lvl' p "" ""]) ++
      [(mkInlineTok ty tag 1 lvl "" "" "").setAttrs' a]).length - 1
      = (s.tokens ++ if s.pending.isEmpty = true then [] else [mkInlineTok "text" "" 0 lvl' p "" ""]).length := by simp
  refine ⟨if s.pending.isEmpty = true then [] else [mkInlineTok "text" "" 0 lvl' p "" ""],
    (match (mkInlineTok ty tag 1 lvl "" "" "").setAttrs' a with
      | .mk ty tg n a m l c co mu i _ b h => Tok.mk ty tg n a m l c co mu i md b h), ?_, ?_, ?_, ?_, ?_, ?_⟩
  · show List.modify _ _ _ = _
    have hm := modify_last (fun t => match t with
      | .mk ty tg n a m l c co mu i _ b h => Tok.mk ty tg n a m l c co mu i md b h) ((mkInlineTok ty tag 1 lvl "" "" "").setAttrs' a)
      (s.tokens ++ if s.pending.isEmpty = true then [] else [mkInlineTok "text" "" 0 lvl' p "" ""])
    simp only [List.length_append, List.length_singleton, Nat.add_sub_cancel] at hm
    simp only [List.length_append]
    exact hm
  · rfl
  · rfl
  · rfl
  · rfl
  · intro x hx
    split at hx
    · cases hx
    · simp only [List.mem_singleton] at hx; subst hx; exact ⟨rfl, rfl⟩


theorem linkEmit_adds (ext : IExt) (lx : LExt) {N : Tok → Prop} (hN : LinkN ext lx N) (mn : Int) (inner : List IRule) (hok : ∀ r ∈ inner, IOK4 r)
    (had : ∀ r ∈ inner, IAdds4 N r)
    (s : IState) (labelStart labelEnd : Nat) (href title label : List Char) (hle : labelEnd ≤ s.src.length) (hk : CacheOK s)
    (hsrc : LinkSrc ext lx href) (s3 : IState) (h : linkEmit lx mn inner s labelStart labelEnd href title label = .ok s3) :
    ∃ new, s3.tokens = s.tokens ++ new ∧ ∀ t ∈ new, N t := by
  unfold linkEmit at h
  simp only at h
  generalize hat : ([("href", AttrVal.s (String.ofList href))] ++ if title.isEmpty = true then [] else [("title", AttrVal.s (String.ofList title))]) = attrs at h
  generalize hmd : (if (!label.isEmpty && lx.storeLabels) = true then [("label", String.ofList label)] else ([] : List (String × String))) = metaD at h
  obtain ⟨flush, ot, ho, hoty, hoat, hoch, homd, hfl⟩ := pushOpen_tokens { s with pos := labelStart, posMax := labelEnd } "link_open" "a" attrs metaD
  obtain ⟨o1, o2, o3, o4, o5, d, i, o6, o7⟩ := pushOpen_fields { s with pos := labelStart, posMax := labelEnd } "link_open" "a" attrs metaD
  generalize ({ s with pos := labelStart, posMax := labelEnd } : IState).pushOpen "link_open" "a" attrs metaD = s1 at h ho o1 o2 o3 o4 o5 o6 o7
  have hopen : ∃ new, s1.tokens = s.tokens ++ new ∧ ∀ t ∈ new, N t := by
    refine ⟨flush ++ [ot], by rw [ho]; simp, ?_⟩
    intro t ht
    rw [List.mem_append] at ht
    rcases ht with ht | ht
    · exact hN.flat _ (hfl t ht).2 (.inl (hfl t ht).1)
    · simp only [List.mem_singleton] at ht; subst ht
      exact hN.linkOpen _ href label hoch hoty (by rw [hoat, ← hat]; rfl) (by rw [homd, ← hmd]) hsrc
  have hk1 : CacheOK { s1 with linkLevel := s1.linkLevel + 1 } := by unfold CacheOK; show ∀ p ∈ s1.cache, _; rw [o5]; exact hk
  unfold innerTokenize at h
  cases hl : tokenizeLoop inner mn ({ s1 with linkLevel := s1.linkLevel + 1 } : IState).posMax
      (({ s1 with linkLevel := s1.linkLevel + 1 } : IState).posMax - ({ s1 with linkLevel := s1.linkLevel + 1 } : IState).pos + 1) false
      { s1 with linkLevel := s1.linkLevel + 1 } with
  | error e => rw [hl] at h; cases h
  | ok s2 =>
    rw [hl] at h
    simp only at h
    have hinner := loop_toks4 N inner hok had mn _ false { s1 with linkLevel := s1.linkLevel + 1 } s2
      (by show s1.posMax ≤ s1.src.length; rw [o1, o2]; exact hle) hk1 hl
    have hflush : ∀ x : IState, ∃ new, (if x.pending.isEmpty = true then x else x.pushPending).tokens = x.tokens ++ new ∧ ∀ t ∈ new, N t := by
      intro x
      split
      · exact adds_nil rfl
      · exact ⟨[_], rfl, fun t ht => by simp only [List.mem_singleton] at ht; subst ht; exact hN.text _ _⟩
    have h2' := hflush s2
    generalize (if s2.pending.isEmpty = true then s2 else s2.pushPending) = s2' at h h2'
    unfold IState.pushClose at h
    simp only at h
    have h3' := hflush { s2' with linkLevel := s2'.linkLevel - 1 }
    generalize (if ({ s2' with linkLevel := s2'.linkLevel - 1 } : IState).pending.isEmpty = true then ({ s2' with linkLevel := s2'.linkLevel - 1 } : IState)
      else ({ s2' with linkLevel := s2'.linkLevel - 1 } : IState).pushPending) = s0 at h h3'
    split at h
    · rename_i outer rest i0 is _ _
      simp only [Except.ok.injEq] at h
      subst h
      have hclose := push_addsN N hN.text { s0 with metas := (i0, s0.delimiters) :: s0.metas, delimiters := outer, scopes := rest, openAt := is }
        "link_close" "a" (-1) "" "" "" (fun lvl => hN.flat _ rfl (.inr rfl))
      exact adds_trans (adds_trans (adds_trans (adds_trans hopen hinner) h2') h3') hclose
    · cases h

theorem iadds4_link (ext : IExt) (lx : LExt) {N : Tok → Prop} (hN : LinkN ext lx N) (mn : Int) (inner : List IRule) (hok : ∀ r ∈ inner, IOK4 r)
    (had : ∀ r ∈ inner, IAdds4 N r) : IAdds4 N (ruleLink ext lx mn inner) := by
  intro s silent m s' hc hk hr
  have hin : s.pos < s.src.length := by have := hc.1; have := hc.2; omega
  have nil : ∀ x : IState, x.tokens = s.tokens → ∃ new, x.tokens = s.tokens ++ new ∧ (∀ t ∈ new, N t) ∧ (silent = true → new = []) :=
    fun x hx => ⟨[], by simp [hx], by simp, fun _ => rfl⟩
  unfold ruleLink at hr
  rw [List.getElem?_eq_getElem hin] at hr
  simp only at hr
  split at hr
  · simp only [Except.ok.injEq, Prod.mk.injEq] at hr; obtain ⟨_, rfl⟩ := hr; exact nil _ rfl
  · cases hp : parseLinkLabel inner mn s s.pos true with
    | error e => rw [hp] at hr; cases hr
    | ok v =>
      obtain ⟨r, s1⟩ := v
      rw [hp] at hr
      simp only at hr
      have ht1 := parseLinkLabel_tok N inner hok had mn s s.pos true r s1 hc.2 hk hp
      obtain ⟨r', s1', hp', hfr1, hpos1, hr1⟩ := parseLinkLabel4 inner hok mn s s.pos true hc.2 hk
      rw [hp] at hp'; simp only [Except.ok.injEq, Prod.mk.injEq] at hp'; obtain ⟨rfl, rfl⟩ := hp'
      split at hr
      · simp only [Except.ok.injEq, Prod.mk.injEq] at hr; obtain ⟨_, rfl⟩ := hr; exact nil _ ht1
      · rename_i hneg
        have hr0 : 0 ≤ r := by omega
        obtain ⟨hlo, hhi⟩ := hr1 hr0
        have hend1 : s1.posMax ≤ s1.src.length := by rw [hfr1.1, hfr1.2.2.1]; exact hc.2
        cases hi : linkInline ext s1 r.toNat s.posMax with
        | none => rw [hi] at hr; simp only [Except.ok.injEq, Prod.mk.injEq] at hr; obtain ⟨_, rfl⟩ := hr; exact nil _ ht1
        | some q =>
          obtain ⟨pos1, href1, title1, pr⟩ := q
          rw [hi] at hr
          simp only at hr
          have hp1 := linkInline_ge _ _ _ _ _ _ _ _ hi
          have hsrc1 := linkInline_src ext lx _ _ _ _ _ _ _ hi
          -- the reference form, or not: tokens unchanged, and the source of the href
          cases href : (if (!pr) = true then (Except.ok (s1, some (pos1, href1, title1, [])) : Except PyErr (IState × Option (Nat × List Char × List Char × List Char)))
                else linkRef lx mn inner s1 (s.pos + 1) r.toNat s.posMax pos1) with
          | error e => rw [href] at hr; cases hr
          | ok w =>
            obtain ⟨s2, o⟩ := w
            rw [href] at hr
            have hs2 : s2.tokens = s.tokens ∧ CacheOK s2 ∧ s2.src = s.src ∧ (∀ pos h t l, o = some (pos, h, t, l) → LinkSrc ext lx h) := by
              split at href
              · simp only [Except.ok.injEq, Prod.mk.injEq] at href
                obtain ⟨rfl, rfl⟩ := href
                exact ⟨ht1, hfr1.2.2.2.2.2, hfr1.1, fun pos h t l he => by simp only [Option.some.injEq, Prod.mk.injEq] at he; obtain ⟨_, rfl, _⟩ := he; exact hsrc1⟩
              · have ht2 := linkRef_tok N lx mn inner hok had s1 (s.pos + 1) r.toNat s.posMax pos1 s2 o hend1 hfr1.2.2.2.2.2 href
                obtain ⟨s2', o', h2', hfr2, _, _⟩ := linkRef4 lx mn inner hok s1 (s.pos + 1) r.toNat s.posMax pos1 hend1 hfr1.2.2.2.2.2 hp1
                rw [href] at h2'; simp only [Except.ok.injEq, Prod.mk.injEq] at h2'; obtain ⟨rfl, rfl⟩ := h2'
                refine ⟨ht2.trans ht1, hfr2.2.2.2.2.2, hfr2.1.trans hfr1.1, ?_⟩
                intro pos h t l he
                subst he
                exact linkRef_src ext lx mn inner s1 _ _ _ _ s2 pos h t l href
            obtain ⟨ht2, hk2, hsrc2, hlsrc⟩ := hs2
            cases o with
            | none => simp only [Except.ok.injEq, Prod.mk.injEq] at hr; obtain ⟨_, rfl⟩ := hr; exact nil _ ht2
            | some q2 =>
              obtain ⟨pos, hrf, title, label⟩ := q2
              simp only at hr
              cases silent with
              | true => simp only [if_true, Except.ok.injEq, Prod.mk.injEq] at hr; obtain ⟨_, rfl⟩ := hr; exact nil _ ht2
              | false =>
                simp only [Bool.false_eq_true, if_false] at hr
                cases he : linkEmit lx mn inner s2 (s.pos + 1) r.toNat hrf title label with
                | error e => rw [he] at hr; cases hr
                | ok s3 =>
                  rw [he] at hr
                  simp only [Except.ok.injEq, Prod.mk.injEq] at hr
                  obtain ⟨_, rfl⟩ := hr
                  obtain ⟨new, hn1, hn2⟩ := linkEmit_adds ext lx hN mn inner hok had s2 (s.pos + 1) r.toNat hrf title label
                    (by rw [hsrc2]; have := hc.2; omega) hk2 (hlsrc pos hrf title label rfl) s3 he
                  exact ⟨new, by show s3.tokens = _; rw [hn1, ht2], hn2, by simp⟩


/-! ### the chains, the second chain over all scopes, the theorem -/

theorem linkChain_adds4 (cls : QCls) (ext : IExt) (lx : LExt) (newline escape backticks strike emphasis link autolink htmlInline entity : Bool) (mn : Int) :
    ∀ d : Nat, ∀ r ∈ linkChain cls ext lx newline escape backticks strike emphasis link autolink htmlInline entity mn d, IAdds4 (LTok ext lx) r := by
  have hT := ltok_text ext lx
  have o : ∀ (ty tag : String) (n lvl : Int) (c m i : String), ty ≠ "link_open" → LTok ext lx (mkInlineTok ty tag n lvl c m i) :=
    fun ty tag n lvl c m i h => ltok_other _ _ _ (by simpa [mkInlineTok, Tok.type] using h)
  intro d
  induction d with
  | zero => intro r hr; simp [linkChain] at hr
  | succ d ih =>
    intro r hr
    simp only [linkChain, List.mem_append, List.mem_singleton] at hr
    rcases hr with ((((((((hr | hr) | hr) | hr) | hr) | hr) | hr) | hr) | hr) | hr
    · subst hr; exact iadds4_of _ _ adds_text silentTok_text
    · split at hr
      · simp at hr; subst hr
        exact iadds4_of _ _ (adds_newline hT (fun _ => o _ _ _ _ _ _ _ (by decide)) (fun _ => o _ _ _ _ _ _ _ (by decide))) silentTok_newline
      · cases hr
    · split at hr
      · simp at hr; subst hr
        exact iadds4_of _ _ (adds_escape hT (fun _ => o _ _ _ _ _ _ _ (by decide)) (fun _ _ _ => o _ _ _ _ _ _ _ (by decide))) silentTok_escape
      · cases hr
    · split at hr
      · simp at hr; subst hr
        exact iadds4_of _ _ (adds_backticks hT (fun _ _ _ => o _ _ _ _ _ _ _ (by decide))) silentTok_backticks
      · cases hr
    · split at hr
      · simp at hr; subst hr; exact iadds4_of _ _ (adds_strike hT cls) (silentTok_strike cls)
      · cases hr
    · split at hr
      · simp at hr; subst hr; exact iadds4_of _ _ (adds_emphasis hT cls) (silentTok_emphasis cls)
      · cases hr
    · split at hr
      · simp at hr; subst hr
        exact iadds4_link ext lx (ltok_linkN ext lx) mn _ (linkChain_ok4 cls ext lx newline escape backticks strike emphasis link autolink htmlInline entity mn d) ih
      · cases hr
    · split at hr
      · simp at hr; subst hr
        refine iadds4_of _ _ (adds_autolink hT ext ?_ (fun _ => o _ _ _ _ _ _ _ (by decide))) (silentTok_autolink ext)
        intro lvl u hv _
        exact ⟨ext.normLink u, rfl, .inr (.inl ⟨u, rfl, hv⟩)⟩
      · cases hr
    · split at hr
      · simp at hr; subst hr
        exact iadds4_of _ _ (adds_htmlInline hT ext (fun _ _ _ => o _ _ _ _ _ _ _ (by decide))) (silentTok_htmlInline ext)
      · cases hr
    · split at hr
      · simp at hr; subst hr
        exact iadds4_of _ _ (adds_entity hT ext (fun _ _ _ => o _ _ _ _ _ _ _ (by decide))) (silentTok_entity ext)
      · cases hr

theorem ltok_closed (ext : IExt) (lx : LExt) (strike emphasis : Bool) : TokClosed (LTok ext lx) (emphTypes strike emphasis) := by
  refine ⟨ltok_text ext lx, ?_, ?_, ?_⟩
  · intro t l h; unfold LTok at *; simpa using h
  · intro t c h; unfold LTok at *; simpa using h
  · intro t ty tag n mk _ hty
    apply ltok_other
    simp only [setEmph_type]
    intro he; subst he
    simp only [emphTypes, emTypes, sTypes, List.mem_append] at hty
    rcases hty with hty | hty <;> split at hty <;> simp at hty

theorem linkPost_toks {N : Tok → Prop} (strike emphasis : Bool) (hN : TokClosed N (emphTypes strike emphasis)) (s : IState) (h : AllTok N s) :
    AllTok N ((linkPost strike emphasis).foldl (fun acc f => f acc) s) := by
  have hb : ∀ s, AllTok N s → AllTok N (balancePairsL s) := fun s h => h
  have foldE : ∀ (l : List (Nat × List Delim)) (ts : List Tok), emphasis = true → (∀ t ∈ ts, N t) →
      ∀ t ∈ l.foldl (fun ts p => emphPostGo p.2 p.2.length ((p.2.length : Int) - 1) ts) ts, N t := by
    intro l
    induction l with
    | nil => intro ts _ h; exact h
    | cons p rest ih =>
      intro ts hem h
      simp only [List.foldl_cons]
      exact ih _ hem (emphPostGo_toks hN (by intro ty hty; simp [emphTypes, hem, hty]) _ _ _ _ h)
  have foldS : ∀ (l : List (Nat × List Delim)) (ts : List Tok), strike = true → (∀ t ∈ ts, N t) →
      ∀ t ∈ l.foldl (fun ts p => strikeSwap (strikeMark p.2 p.2.length 0 ts []).2.reverse (strikeMark p.2 p.2.length 0 ts []).1) ts, N t := by
    intro l
    induction l with
    | nil => intro ts _ h; exact h
    | cons p rest ih =>
      intro ts hst h
      simp only [List.foldl_cons]
      exact ih _ hst (strikeSwap_toks _ _ (strikeMark_toks hN (by intro ty hty; simp [emphTypes, hst, hty]) _ _ _ _ _ h))
  have hs : strike = true → ∀ s, AllTok N s → AllTok N (strikePostL s) := by
    intro hst s h
    unfold strikePostL AllTok
    simp only
    exact foldS _ _ hst (strikeSwap_toks _ _ (strikeMark_toks hN (by intro ty hty; simp [emphTypes, hst, hty]) _ _ _ _ _ h))
  have he : emphasis = true → ∀ s, AllTok N s → AllTok N (emphasisPostL s) := by
    intro hem s h
    unfold emphasisPostL AllTok
    simp only
    exact foldE _ _ hem (emphPostGo_toks hN (by intro ty hty; simp [emphTypes, hem, hty]) _ _ _ _ h)
  unfold linkPost
  cases strike <;> cases emphasis <;> simp only [Bool.or_self, Bool.or_false, Bool.or_true, Bool.false_eq_true, if_false, if_true,
    List.append_nil, List.nil_append, List.foldl_nil, List.foldl_cons, List.cons_append]
  · exact h
  · exact he rfl _ (hb _ h)
  · exact hs rfl _ (hb _ h)
  · exact he rfl _ (hs rfl _ (hb _ h))

/-- every `link_open` of the inline parse with the link rule carries an `href` that arose legitimately -/
theorem link_sources (cls : QCls) (ext : IExt) (lx : LExt) (newline escape backticks strike emphasis link autolink htmlInline entity fragJoin : Bool)
    (mn : Int) (d : Nat) (src : List Char) (ts : List Tok)
    (h : inlineParse (linkChain cls ext lx newline escape backticks strike emphasis link autolink htmlInline entity mn d)
      (linkPost strike emphasis) fragJoin mn src = .ok ts) : ∀ t ∈ ts, LTok ext lx t := by
  unfold inlineParse tokenize at h
  cases hl : tokenizeLoop (linkChain cls ext lx newline escape backticks strike emphasis link autolink htmlInline entity mn d) mn (IState.init src).posMax
      ((IState.init src).posMax - (IState.init src).pos + 1) false (IState.init src) with
  | error e => rw [hl] at h; cases h
  | ok s1 =>
    rw [hl] at h
    simp only [Except.ok.injEq] at h
    have hk0 : CacheOK (IState.init src) := by intro p hp; simp [IState.init] at hp
    obtain ⟨new, hn1, hn2⟩ := loop_toks4 (LTok ext lx) _ (linkChain_ok4 cls ext lx newline escape backticks strike emphasis link autolink htmlInline entity mn d)
      (linkChain_adds4 cls ext lx newline escape backticks strike emphasis link autolink htmlInline entity mn d) mn _ false (IState.init src) s1
      (Nat.le_refl _) hk0 hl
    have h1 : AllTok (LTok ext lx) s1 := by
      intro t ht
      rw [hn1] at ht
      simp only [IState.init, List.nil_append] at ht
      exact hn2 t ht
    have h2 : AllTok (LTok ext lx) (if s1.pending.isEmpty then s1 else s1.pushPending) := by
      split
      · exact h1
      · intro t ht
        simp only [IState.pushPending, List.mem_append, List.mem_singleton] at ht
        rcases ht with ht | rfl
        · exact h1 t ht
        · exact ltok_text ext lx _ _
    have h3 := linkPost_toks strike emphasis (ltok_closed ext lx strike emphasis) _ h2
    subst h
    split
    · exact fragmentsJoin_toks (ltok_closed ext lx strike emphasis) _ 0 _ (Nat.le_refl _) h3
    · exact h3

/-- the reference table holds only acceptable destinations (what the `reference` block rule — not in the modelled sub-parser —
    is to guarantee: it stores `normalizeLink(dest)` after `validateLink`) -/
def RefsOK (lx : LExt) : Prop :=
  ∀ l h t, lx.refs l = some (h, t) → (∀ c ∈ h, SafeAscii c)
    ∧ ((∀ d ∈ Gen.badProtos, browserScheme h ≠ some d.toList) ∨ matchesGoodData (lowerAscii h) = true)

/-- **C05.link_hrefs** — inline links, reference links and autolinks in the modelled inline sub-parser: every `link_open` carries an
`href` (its first attribute) that is empty or URL-safe ASCII with no dangerous scheme as a browser reads it -/
theorem link_hrefs (cls : QCls) (ext : IExt) (lx : LExt) (hrefs : RefsOK lx)
    (newline escape backticks strike emphasis link autolink htmlInline entity fragJoin : Bool) (mn : Int) (d : Nat) (src : List Char) (ts : List Tok)
    (h : inlineParse (linkChain cls ext lx newline escape backticks strike emphasis link autolink htmlInline entity mn d)
      (linkPost strike emphasis) fragJoin mn src = .ok ts) (t : Tok) (ht : t ∈ ts) (hty : t.type = "link_open") :
    ∃ href : List Char, t.attrs.head? = some ("href", .s (String.ofList href)) ∧
      (href = [] ∨ ((∀ ch ∈ href, SafeAscii ch)
        ∧ ((∀ d ∈ Gen.badProtos, browserScheme href ≠ some d.toList) ∨ matchesGoodData (lowerAscii href) = true))) := by
  obtain ⟨href, ha, hsrc⟩ := link_sources cls ext lx newline escape backticks strike emphasis link autolink htmlInline entity fragJoin mn d src ts h t ht hty
  refine ⟨href, ha, ?_⟩
  rcases hsrc with h0 | ⟨u, hu, hv⟩ | ⟨l, t', hr⟩
  · exact .inl h0
  · right; rw [hu]; exact ⟨encode_range _, api ext.reformat u hv⟩
  · right; exact hrefs l href t' hr

/-! non-vacuity: an accepted inline link, a rejected one (stays text), a reference link -/
example : C01.itypesOf (inlineParse (linkChain C02f.asciiCls ext0 C01.lx0 true true true false true true true false false 20 22) (linkPost false true) true 20
      "[a](http://x.y \"t\") [b](javascript:z) [c][r]".toList)
    = some ["link_open", "text", "link_close", "text", "link_open", "text", "link_close"] := by decide +kernel

end MdIt.C05
