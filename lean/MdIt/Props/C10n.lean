import MdIt.Props.C10m
import MdIt.Props.C10f
/-!
# C10 (continued) — provenance for the block parse with the `table` rule: no table tokens without the table rule

`table_appends` (a match of the table rule *appends* a segment of table-vocabulary tokens: the two map fix-ups touch tokens of the segment
only), `tChain_seg` / `tParse_segs` (the segment engine of `C02h` for the chains with ten rules, `reference` off), and
**`t_provenance`**: every token type in the block stream of `tParse` comes from an enabled rule, at any nesting depth — in particular
**`t_no_table`**: with the table rule off, no `table_open`, `thead_open`, `tbody_open`, `tr_open`, `th_open`, `td_open` (or their closing
tokens) occurs anywhere in the stream, inside quotes and lists included.
-/
namespace MdIt.C10
open MdIt.C01 MdIt.C02

/-! ### the table rule appends a segment of its own vocabulary -/

def AppT (s s' : BState) : Prop := ∃ seg, s'.tokens = s.tokens ++ seg ∧ ∀ t ∈ seg, t.type ∈ tableTypes

theorem appT_refl (s : BState) : AppT s s := ⟨[], by simp, by simp⟩

theorem appT_trans {a b c : BState} (h1 : AppT a b) (h2 : AppT b c) : AppT a c := by
  obtain ⟨g1, e1, t1⟩ := h1
  obtain ⟨g2, e2, t2⟩ := h2
  refine ⟨g1 ++ g2, by rw [e2, e1, List.append_assoc], ?_⟩
  intro t ht
  rcases List.mem_append.mp ht with h | h
  · exact t1 t h
  · exact t2 t h

theorem appT_pushT (s : BState) (ty tag : String) (n : Int) (at_ m c d) (hty : ty ∈ tableTypes) : AppT s (s.pushT ty tag n at_ m c d) :=
  ⟨[_], rfl, by intro t ht; simp only [List.mem_singleton] at ht; subst ht; exact hty⟩

theorem appT_cells (ws : List Nat) (o c tg : String) (ho : o ∈ tableTypes) (hcl : c ∈ tableTypes) (line : Nat) (cols : List (List Char)) :
    ∀ (as : List String) (i : Nat) (s : BState), AppT s (pushCells ws o c tg line cols as i s) := by
  intro as
  induction as with
  | nil => intro i s; exact appT_refl s
  | cons a rest ih =>
    intro i s
    simp only [pushCells]
    exact appT_trans (appT_trans (appT_trans (appT_pushT _ _ _ _ _ _ _ _ ho) (appT_pushT _ _ _ _ _ _ _ _ (by decide)))
      (appT_pushT _ _ _ _ _ _ _ _ hcl)) (ih _ _)

theorem appT_body (codeOn : Bool) (terms : List BRule) (hin : ∀ t ∈ terms, SilentInert t) (ws : List Nat)
    (aligns : List String) (startLine endLine : Nat) :
    ∀ (fuel next : Nat) (s : BState) (r : Nat) (s' : BState), endLine < s.lines.length →
      tableBody codeOn terms ws aligns startLine endLine fuel next s = .ok (r, s') → AppT s s' := by
  intro fuel
  induction fuel with
  | zero => intro next s r s' _ h; simp [tableBody] at h
  | succ n ih =>
    intro next s r s' hlen h
    simp only [tableBody] at h
    split at h
    · rename_i hlt
      obtain ⟨l, hg, _⟩ := getL_ok s next (by omega)
      simp only [hg] at h
      split at h
      · cases h; exact appT_refl _
      · obtain ⟨b, hb⟩ := runTerminators_inert terms hin s next endLine (by omega)
        simp only [hb] at h
        cases b with
        | true => cases h; exact appT_refl _
        | false =>
          simp only [hg] at h
          split at h
          · cases h; exact appT_refl _
          · split at h
            · cases h; exact appT_refl _
            · refine appT_trans ?_ (ih _ _ _ _ ?_ h)
              · refine appT_trans (appT_trans (appT_trans ?_ (appT_pushT _ _ _ _ _ _ _ _ (by decide)))
                  (appT_cells ws _ _ _ (by decide) (by decide) _ _ _ _ _)) (appT_pushT _ _ _ _ _ _ _ _ (by decide))
                split
                · exact appT_pushT _ _ _ _ _ _ _ _ (by decide)
                · exact appT_refl _
              · rw [C01.pushT_lines, (C01.pushCells_same _ _ _ _ _ _ _ _ _).1.1, C01.pushT_lines]
                split <;> simpa using hlen
    · cases h; exact appT_refl _

theorem modify_append_right' {α} (a b : List α) (j : Nat) (f : α → α) : (a ++ b).modify (a.length + j) f = a ++ b.modify j f := by
  induction a with
  | nil => simp
  | cons x xs ih =>
    simp only [List.cons_append, List.length_cons]
    have : xs.length + 1 + j = (xs.length + j) + 1 := by omega
    rw [this, List.modify_succ_cons, ih]

theorem types_modify_seg (a seg : List Tok) (j : Nat) (m : Option (Nat × Nat)) (h : ∀ t ∈ seg, t.type ∈ tableTypes) :
    ∃ seg', (a ++ seg).modify (a.length + j) (fun t => t.setMap m) = a ++ seg' ∧ seg'.length = seg.length ∧ ∀ t ∈ seg', t.type ∈ tableTypes := by
  refine ⟨seg.modify j (fun t => t.setMap m), modify_append_right' a seg j _, by simp, ?_⟩
  intro t ht
  rcases mem_modify _ seg j t ht with h1 | ⟨u, hu, rfl⟩
  · exact h t h1
  · rw [C02.setMap_type]; exact h u hu

theorem fixups (a seg : List Tok) (n2 i2 : Nat) (hn : n2 = a.length + i2) (m1 m2 : Option (Nat × Nat)) (b : Bool)
    (h : ∀ t ∈ seg, t.type ∈ tableTypes) :
    ∃ seg', (if b = true then ((a ++ seg).modify a.length (fun t => t.setMap m1)).modify n2 (fun t => t.setMap m2)
        else (a ++ seg).modify a.length (fun t => t.setMap m1)) = a ++ seg' ∧ ∀ t ∈ seg', t.type ∈ tableTypes := by
  obtain ⟨g1, e1, _, t1⟩ := types_modify_seg a seg 0 m1 h
  rw [Nat.add_zero] at e1
  cases b with
  | false => exact ⟨g1, by simp [e1], t1⟩
  | true =>
    obtain ⟨g2, e2, _, t2⟩ := types_modify_seg a g1 i2 m2 t1
    exact ⟨g2, by simp only [if_true]; rw [e1, hn, e2], t2⟩

/-- a match of the table rule appends table-vocabulary tokens and nothing else; a miss appends nothing -/
theorem table_appends (codeOn : Bool) (terms : List BRule) (hin : ∀ t ∈ terms, SilentInert t) (ws : List Nat) (s : BState) (line endLine : Nat)
    (hlen : endLine < s.lines.length) (silent m : Bool) (s' : BState) (h : ruleTable codeOn terms ws s line endLine silent = .ok (m, s')) :
    AppT s s' := by
  unfold ruleTable at h
  split at h
  · cases h
  · cases h; exact appT_refl _
  · rename_i aligns cols _
    split at h
    · cases h; exact appT_refl _
    · simp only at h
      split at h
      · cases h
      · rename_i next s7 hb
        cases h
        have h6 := appT_trans (appT_trans (appT_trans (appT_trans (appT_trans
            (appT_pushT { s with parentType := "table" } "table_open" "table" 1 [] (some (line, 0)) none "" (by decide))
            (appT_pushT _ "thead_open" "thead" 1 [] (some (line, line + 1)) none "" (by decide)))
            (appT_pushT _ "tr_open" "tr" 1 [] (some (line, line + 1)) none "" (by decide)))
            (appT_cells ws "th_open" "th_close" "th" (by decide) (by decide) line cols aligns 0 _))
            (appT_pushT _ "tr_close" "tr" (-1) [] none none "" (by decide)))
            (appT_pushT _ "thead_close" "thead" (-1) [] none none "" (by decide))
        have h7 := appT_body codeOn terms hin ws _ _ _ _ _ _ _ _
          (by rw [C01.pushT_lines, C01.pushT_lines, (C01.pushCells_same _ _ _ _ _ _ _ _ _).1.1]; exact hlen) hb
        obtain ⟨g6, e6, t6⟩ := h6
        obtain ⟨g7, e7, t7⟩ := h7
        have h9 : AppT s ((if decide (next > line + 2) = true then s7.pushT "tbody_close" "tbody" (-1) [] none none "" else s7).pushT
            "table_close" "table" (-1) [] none none "") := by
          refine appT_trans (appT_trans ⟨g6 ++ g7, by rw [e7, e6, List.append_assoc], ?_⟩ ?_) (appT_pushT _ _ _ _ _ _ _ _ (by decide))
          · intro t ht
            rcases List.mem_append.mp ht with h | h
            · exact t6 t h
            · exact t7 t h
          · split
            · exact appT_pushT _ _ _ _ _ _ _ _ (by decide)
            · exact appT_refl _
        obtain ⟨g9, e9, t9⟩ := h9
        obtain ⟨seg', he, hty⟩ := fixups s.tokens g9 (s.tokens.length + g6.length) g6.length rfl (some (line, next)) (some (line + 2, next))
          (decide (next > line + 2)) t9
        refine ⟨seg', ?_, hty⟩
        rw [← he, ← e9]
        simp only [e6, List.length_append]

/-! ### the segment engine for the chains with ten rules -/

/-- the leaf rules of `tChain` (with `reference` off) -/
def tLeaves (c : TCfg) (ws : List Nat) (mn : Int) : List BRule :=
  (if c.table then [ruleTable c.code (mTerminators c.toMCfg ws mn) ws] else [])
    ++ (if c.code then [ruleCode c.code] else []) ++ (if c.fence then [ruleFence c.code] else [])
    ++ (if c.hr then [ruleHr c.code] else []) ++ (if c.htmlBlock then [ruleHtmlBlock c.code c.html] else [])
    ++ (if c.heading then [ruleHeading c.code ws] else [])
    ++ (if c.lheading then [ruleLheading c.code (tParaTerms c ws mn) ws] else [])
    ++ [ruleParagraph (tParaTerms c ws mn) ws]

theorem mem_tChain (ext : IExt) (lx : LExt) (c : TCfg) (hnr : c.reference = false) (ws : List Nat) (mn : Int) (d : Nat) (r : BRule)
    (h : r ∈ tChain ext lx c ws mn (d + 1)) :
    r ∈ tLeaves c ws mn ∨ r = ruleBlockquote c.code (mTerminators c.toMCfg ws mn) (tChain ext lx c ws mn d) mn
      ∨ r = ruleList c.code (mListTerms c.toMCfg mn) (tChain ext lx c ws mn d) mn := by
  simp only [tChain, hnr, Bool.false_eq_true, if_false, List.append_nil, List.mem_append, List.mem_singleton] at h
  simp only [tLeaves, List.mem_append, List.mem_singleton]
  rcases h with ((((((((h | h) | h) | h) | h) | h) | h) | h) | h) | h
  · exact .inl (.inl (.inl (.inl (.inl (.inl (.inl (.inl h)))))))
  · exact .inl (.inl (.inl (.inl (.inl (.inl (.inl (.inr h)))))))
  · exact .inl (.inl (.inl (.inl (.inl (.inl (.inr h))))))
  · exact .inr (.inl h)
  · exact .inl (.inl (.inl (.inl (.inl (.inr h)))))
  · exact .inr (.inr h)
  · exact .inl (.inl (.inl (.inl (.inr h))))
  · exact .inl (.inl (.inl (.inr h)))
  · exact .inl (.inl (.inr h))
  · exact .inl (.inr h)

def InnerSegT (S : BState → List Tok → Prop) (ext : IExt) (lx : LExt) (c : TCfg) (hnr : c.reference = false) (ws : List Nat) (mn : Int) (d : Nat) : Prop :=
  ∀ (s : BState) (startLine endLine : Nat) (s' : BState), s.lineMax + 1 ≤ s.lines.length → endLine ≤ s.lineMax → Lv mn d s endLine →
    blockTokenize (tChain ext lx c ws mn d) mn s startLine endLine = .ok s' →
    ∃ segs : List (List Tok), s'.tokens = s.tokens ++ segs.flatten ∧ ∀ g ∈ segs, S s g

theorem tChain_seg (S : BState → List Tok → Prop) (hw : QuoteWrap S) (hlw : ListWrap S) (ext : IExt) (lx : LExt) (c : TCfg) (hnr : c.reference = false) (ws : List Nat) (mn : Int)
    (hleaf : ∀ (P : BState → Nat → Prop), ∀ r ∈ tLeaves c ws mn, SegOK P S r) : ∀ d : Nat,
    (∀ r ∈ tChain ext lx c ws mn d, SegOK (Lv mn d) S r) ∧ InnerSegT S ext lx c hnr ws mn d := by
  intro d
  induction d with
  | zero =>
    have h0 : ∀ r ∈ tChain ext lx c ws mn 0, SegOK (Lv mn 0) S r := fun r hr => by simp [tChain] at hr
    refine ⟨h0, ?_⟩
    intro s startLine endLine s' hlen hend hlv hrun
    exact loop_segs (Lv mn 0) (lv_closed mn 0) S hw.closed _ (tChain_ok ext lx c hnr ws mn 0).1 h0 mn endLine _ startLine false s s' hlen hend hlv hrun
  | succ d ih =>
    have hq : SegOK (Lv mn (d + 1)) S (ruleBlockquote c.code (mTerminators c.toMCfg ws mn) (tChain ext lx c ws mn d) mn) := by
      have key := quote_shape mn d c.code (mTerminators c.toMCfg ws mn) (mTerminators_inert c.toMCfg ws mn) (tChain ext lx c ws mn d) (tChain_ok ext lx c hnr ws mn d).2
      refine ⟨?_, ?_⟩
      · intro s line endLine s' hc h
        rcases key s line endLine hc with h' | ⟨s'', h', _, _, _, hrunq⟩
        · rw [h'] at h; cases h
        · rw [h'] at h; cases h
          obtain ⟨s3, s4, next, openT, closeT, hl3, hlen3, hend3, hLv3, hrun, htok3, htok, ho1, ho2, ho3, hc1, hc2, hc3, _, _, _, hsuf⟩ :=
            quote_tokens mn d _ s line s' hrunq
          obtain ⟨segs, hs4, hS⟩ := ih.2 s3 line next s4 hlen3 hend3 hLv3 hrun
          obtain ⟨s4', hrun', hfr4, _⟩ := (tChain_ok ext lx c hnr ws mn d).2 s3 line next hlen3 hend3 hLv3
          rw [hrun] at hrun'; cases hrun'
          exact ⟨_, htok _ hs4, hw.wrap s s3 s4 line openT closeT segs hl3 hfr4 ho1 ho2 ho3 hc1 hc2 hc3 hsuf hS⟩
      · intro s line endLine s' hc h
        rcases key s line endLine hc with h' | ⟨s'', h', _⟩
        · rw [h'] at h; cases h; rfl
        · rw [h'] at h; cases h
    have hl : SegOK (Lv mn (d + 1)) S (ruleList c.code (mListTerms c.toMCfg mn) (tChain ext lx c ws mn d) mn) := by
      have key := list_shape mn d c.code (mListTerms c.toMCfg mn) (mListTerms_inert c.toMCfg mn) (tChain ext lx c ws mn d) (tChain_ok ext lx c hnr ws mn d).2
      refine ⟨?_, ?_⟩
      · intro s line endLine s' hc h
        obtain ⟨ordered, mc, mlen, mv, hrun⟩ := ruleList_hit _ _ _ _ _ _ _ _ h
        have hitem : ∀ (s : BState) (startLine markerLen : Nat) (s6 : BState) (nt pe : Bool), s.lineMax + 1 ≤ s.lines.length → endLine ≤ s.lineMax →
            startLine < endLine → s.line = startLine → mn + 1 ≤ s.level + 1 + (d : Int) →
            listItem ordered mc (tChain ext lx c ws mn d) mn endLine s startLine markerLen = .ok (s6, nt, pe) →
            ∃ seg, s6.tokens = s.tokens ++ seg ∧ S s seg := by
          intro s startLine markerLen s6 nt pe hlen hend hlt hline hlv hit
          obtain ⟨s2, s3, openT, closeT, h2t, h2l, h2m, h2len, hnest, htok, ho1, ho2, ho3, hc1, hc2, hc3, _, _, hsuf2⟩ :=
            listItem_tokens _ _ _ _ _ _ _ _ _ _ _ hit
          rcases hnest with ⟨h3t, h3l⟩ | hrun3
          · refine ⟨_, htok [] (by rw [h3t]; simp), ?_⟩
            have := hlw.wrap s s2 openT closeT (some (startLine, s3.line)) [] h2l hsuf2 ho1 ho2 hc1 (by rw [hc2, h3l, h2l]; omega)
              (by rw [ho3, hc3]; simp) (by simp)
            simpa using this
          · have hlen2 : s2.lineMax + 1 ≤ s2.lines.length := by rw [h2m, h2len]; exact hlen
            have hend2 : endLine ≤ s2.lineMax := by rw [h2m]; exact hend
            have hlv2 : Lv mn d s2 endLine := by unfold Lv; rw [h2l]; omega
            obtain ⟨segs, hs3, hS⟩ := ih.2 s2 startLine endLine s3 hlen2 hend2 hlv2 hrun3
            obtain ⟨s3', hrun', hfr3, _⟩ := (tChain_ok ext lx c hnr ws mn d).2 s2 startLine endLine hlen2 hend2 hlv2
            rw [hrun3] at hrun'; cases hrun'
            exact ⟨_, htok _ hs3, hlw.wrap s s2 openT closeT (some (startLine, s3.line)) segs h2l hsuf2 ho1 ho2 hc1
              (by rw [hc2, hfr3.2.2.2, h2l]; omega) (by rw [ho3, hc3]; simp) hS⟩
        obtain ⟨s2, openT, closeT, toks, seg', hf2, hchain, _, htok, hhid, ho1, ho2, ho3, hc1, hc2, hc3, _⟩ :=
          listRun_tokens (fun s _ _ seg => S s seg) (fun s s' _ _ seg hf h => hw.closed s s' seg hf h) mn d c.code ordered mc mlen mv
            (mListTerms c.toMCfg mn) (mListTerms_inert c.toMCfg mn) (tChain ext lx c ws mn d) (tChain_ok ext lx c hnr ws mn d).2 s line endLine hitem hc s' hrun
        obtain ⟨segs, hsegs, hS⟩ := hchain.segs
        refine ⟨seg', htok, hlw.hid _ _ _ hhid ?_⟩
        rw [hsegs]
        exact hlw.wrap s s2 openT closeT (some (line, s'.line)) segs hf2.2.2.2.2.1 (by rw [hf2.1]; exact SufLines.refl _) ho1 ho2 hc1 hc2
          (by rw [ho3, hc3]; cases ordered <;> simp) hS
      · intro s line endLine s' hc h
        rcases key s line endLine hc with h' | ⟨s'', h', _⟩
        · rw [h'] at h; cases h; rfl
        · rw [h'] at h; cases h
    have hall : ∀ r ∈ tChain ext lx c ws mn (d + 1), SegOK (Lv mn (d + 1)) S r := by
      intro r hr
      rcases mem_tChain ext lx c hnr ws mn d r hr with h | h | h
      · exact hleaf _ r h
      · subst h; exact hq
      · subst h; exact hl
    refine ⟨hall, ?_⟩
    intro s startLine endLine s' hlen hend hlv hrun
    exact loop_segs (Lv mn (d + 1)) (lv_closed mn (d + 1)) S hw.closed _ (tChain_ok ext lx c hnr ws mn (d + 1)).1 hall mn endLine _ startLine false s s' hlen hend hlv hrun

/-- the stream of the sub-parser with quotes and lists is a concatenation of segments satisfying `S` at the top state -/
theorem tParse_segs (S : BState → List Tok → Prop) (hw : QuoteWrap S) (hlw : ListWrap S) (ext : IExt) (lx : LExt) (c : TCfg) (hnr : c.reference = false) (ws : List Nat) (mn : Int)
    (hleaf : ∀ (P : BState → Nat → Prop), ∀ r ∈ tLeaves c ws mn, SegOK P S r) (src : List Char) (st : BState)
    (h : tParse ext lx c ws mn src = .ok st) :
    ∃ segs : List (List Tok), st.tokens = segs.flatten ∧ ∀ g ∈ segs, S (initBState (normalize src)) g := by
  unfold tParse at h
  simp only at h
  split at h
  · cases h; exact ⟨[], rfl, by simp⟩
  · have hs' := h
    obtain ⟨segs, hn, hS⟩ := (tChain_seg S hw hlw ext lx c hnr ws mn hleaf (mn.toNat + 1)).2 (initBState (normalize src)) 0
        (initBState (normalize src)).lineMax st (initBState_len _) (Nat.le_refl _)
        (by unfold Lv; show mn + 1 ≤ (0 : Int) + ((mn.toNat + 1 : Nat) : Int); omega) hs'
    have : (initBState (normalize src)).tokens = [] := rfl
    rw [this, List.nil_append] at hn
    exact ⟨segs, hn, hS⟩



/-! ### provenance -/

def tAllowed (c : TCfg) : List String := mAllowed c.toMCfg ++ (if c.table then tableTypes else [])

def TTypesIn (c : TCfg) : BState → List Tok → Prop := fun _ seg => ∀ t ∈ seg, t.type ∈ tAllowed c

theorem mTypes_to_t (c : TCfg) (P) (r : BRule) (h : SegOK P (MTypesIn c.toMCfg) r) : SegOK P (TTypesIn c) r :=
  ⟨fun s line endLine s' hc hr => by
      obtain ⟨seg, h1, h2⟩ := h.hit s line endLine s' hc hr
      exact ⟨seg, h1, fun t ht => by simp only [tAllowed, List.mem_append]; exact .inl (h2 t ht)⟩,
   h.miss⟩

theorem tTypes_wrap (c : TCfg) : QuoteWrap (TTypesIn c) := by
  refine ⟨fun _ _ _ _ h => h, ?_⟩
  intro s s3 s4 line openT closeT segs _ _ _ _ ho3 _ _ hc3 _ hS t ht
  simp only [List.mem_append, List.mem_singleton, List.mem_flatten] at ht
  rcases ht with (rfl | ⟨g, hg, htg⟩) | rfl
  · simp [tAllowed, mAllowed, lAllowed, qAllowed, ho3]
  · exact hS g hg t htg
  · simp [tAllowed, mAllowed, lAllowed, qAllowed, hc3]

theorem tTypes_listWrap (c : TCfg) : ListWrap (TTypesIn c) := by
  refine ⟨?_, ?_⟩
  · intro s seg seg' hh hS t ht
    unfold HidEq at hh
    have hm : t.setHidden false ∈ seg'.map (·.setHidden false) := List.mem_map.2 ⟨t, ht, rfl⟩
    rw [hh, List.mem_map] at hm
    obtain ⟨u, hu, he⟩ := hm
    have := (hidden_eq_fields he).2.2.1
    rw [← this]; exact hS u hu
  · intro s s2 openT closeT m segs _ _ _ _ _ _ hty hS t ht
    simp only [List.mem_append, List.mem_singleton, List.mem_flatten] at ht
    simp only [List.mem_cons, Prod.mk.injEq, List.not_mem_nil, or_false] at hty
    rcases ht with (rfl | ⟨g, hg, htg⟩) | rfl
    · rcases hty with ⟨h, _⟩ | ⟨h, _⟩ | ⟨h, _⟩ <;> simp [tAllowed, mAllowed, lAllowed, h]
    · exact hS g hg t htg
    · rcases hty with ⟨_, h⟩ | ⟨_, h⟩ | ⟨_, h⟩ <;> simp [tAllowed, mAllowed, lAllowed, h]

theorem typesOK_table (P : BState → Nat → Prop) (c : TCfg) (hon : c.table = true) (terms : List BRule) (hin : ∀ t ∈ terms, SilentInert t)
    (ws : List Nat) : SegOK P (TTypesIn c) (ruleTable c.code terms ws) := by
  refine ⟨?_, ?_⟩
  · intro s line endLine s' hc h
    obtain ⟨seg, h1, h2⟩ := table_appends c.code terms hin ws s line endLine (by have := hc.len; have := hc.le; omega) false true s' h
    exact ⟨seg, h1, fun t ht => by simp only [tAllowed, hon, if_true, List.mem_append]; exact .inr (h2 t ht)⟩
  · intro s line endLine s' hc h
    rw [table_miss_pure _ _ _ _ _ _ _ _ h]

theorem typesOK_paragraphE (P : BState → Nat → Prop) (c : MiniCfg) (terms : List BRule) (hin : ∀ t ∈ terms, SilentInertE t) (ws : List Nat) :
    SegOK P (TypesIn c) (ruleParagraph terms ws) := by
  refine ⟨?_, ?_⟩
  · intro s line endLine s' hc hr
    obtain ⟨n, cc, h1, h2, h'⟩ := paragraph_shapeE P terms hin ws s line endLine hc
    rw [h'] at hr; cases hr
    refine ⟨?seg, ?heq, ?hty⟩
    case heq =>
      show (BState.pushFull _ _ _ _ _ _ _ _ _).tokens = _
      rw [pushFull_tokens, pushFull_tokens, pushFull_tokens, List.append_assoc, List.append_assoc]
    case hty =>
      intro t ht
      simp only [List.mem_append, List.mem_singleton] at ht
      rcases ht with rfl | rfl | rfl <;> simp [allowedTypes]
  · intro s line endLine s' hc hr
    obtain ⟨n, cc, h1, h2, h'⟩ := paragraph_shapeE P terms hin ws s line endLine hc
    rw [h'] at hr; cases hr

theorem typesOK_lheadingE (P : BState → Nat → Prop) (c : MCfg) (hon : c.lheading = true) (terms : List BRule) (hin : ∀ t ∈ terms, SilentInertE t)
    (ws : List Nat) : SegOK P (MTypesIn c) (ruleLheading c.code terms ws) := by
  refine ⟨?_, ?_⟩
  · intro s line endLine s' hc h
    rcases lheading_shapeE P c.code terms hin ws s line endLine hc with h' | h' | ⟨next, tag, mk, co, h1, h2, h'⟩
    · rw [h'] at h; cases h
    · rw [h'] at h; cases h
    · rw [h'] at h; cases h
      refine ⟨?seg, ?heq, ?hty⟩
      case heq =>
        show (BState.pushFull _ _ _ _ _ _ _ _ _).tokens = _
        rw [pushFull_tokens, pushFull_tokens, pushFull_tokens, List.append_assoc, List.append_assoc]
      case hty =>
        intro t ht
        simp only [List.mem_append, List.mem_singleton] at ht
        rcases ht with rfl | rfl | rfl
        · simp [mAllowed, hon]
        · simp [mAllowed, lAllowed, qAllowed, allowedTypes]
        · simp [mAllowed, hon]
  · intro s line endLine s' hc h
    rcases lheading_shapeE P c.code terms hin ws s line endLine hc with h' | h' | ⟨next, tag, mk, co, h1, h2, h'⟩
    · rw [h'] at h; cases h; rfl
    · rw [h'] at h; cases h; rfl
    · rw [h'] at h; cases h

theorem tTypes_leaves (c : TCfg) (ws : List Nat) (mn : Int) (P : BState → Nat → Prop) :
    ∀ r ∈ tLeaves c ws mn, SegOK P (TTypesIn c) r := by
  intro r hr
  have hpara := tParaTerms_inertE c ws mn
  simp only [tLeaves, List.mem_append, List.mem_singleton] at hr
  rcases hr with ((((((hr | hr) | hr) | hr) | hr) | hr) | hr) | hr
  · split at hr
    · rename_i hc; simp at hr; subst hr; exact typesOK_table _ c hc _ (mTerminators_inert c.toMCfg ws mn) ws
    · cases hr
  · split at hr
    · rename_i hc; simp at hr; subst hr
      exact mTypes_to_t c _ _ (lTypes_to_m c.toMCfg _ _ (typesIn_to_l _ _ _ (typesOK_code _ c.toMiniCfg hc)))
    · cases hr
  · split at hr
    · rename_i hc; simp at hr; subst hr
      exact mTypes_to_t c _ _ (lTypes_to_m c.toMCfg _ _ (typesIn_to_l _ _ _ (typesOK_fence _ c.toMiniCfg hc)))
    · cases hr
  · split at hr
    · rename_i hc; simp at hr; subst hr
      exact mTypes_to_t c _ _ (lTypes_to_m c.toMCfg _ _ (typesIn_to_l _ _ _ (typesOK_hr _ c.toMiniCfg hc)))
    · cases hr
  · split at hr
    · rename_i hc; simp at hr; subst hr; exact mTypes_to_t c _ _ (typesOK_htmlBlock _ c.toMCfg hc)
    · cases hr
  · split at hr
    · rename_i hc; simp at hr; subst hr
      exact mTypes_to_t c _ _ (lTypes_to_m c.toMCfg _ _ (typesIn_to_l _ _ _ (typesOK_heading _ c.toMiniCfg ws hc)))
    · cases hr
  · split at hr
    · rename_i hc; simp at hr; subst hr; exact mTypes_to_t c _ _ (typesOK_lheadingE _ c.toMCfg hc _ hpara ws)
    · cases hr
  · subst hr
    exact mTypes_to_t c _ _ (lTypes_to_m c.toMCfg _ _ (typesIn_to_l _ _ _ (typesOK_paragraphE _ c.toMiniCfg _ hpara ws)))

/-- **C10.t_provenance** — the block parse with ten of the eleven rules, `table` included: every token type of the stream belongs to
    an enabled rule's vocabulary, at any depth inside quotes and lists -/
theorem t_provenance (ext : IExt) (lx : LExt) (c : TCfg) (hnr : c.reference = false) (ws : List Nat) (maxNesting : Int) (src : List Char)
    (st : BState) (h : tParse ext lx c ws maxNesting src = .ok st) : ∀ t ∈ st.tokens, t.type ∈ tAllowed c := by
  obtain ⟨segs, hts, hS⟩ := tParse_segs (TTypesIn c) (tTypes_wrap c) (tTypes_listWrap c) ext lx c hnr ws maxNesting
    (fun P => tTypes_leaves c ws maxNesting P) src st h
  intro t ht
  rw [hts, List.mem_flatten] at ht
  obtain ⟨g, hg, htg⟩ := ht
  exact hS g hg t htg

/-- **C10.t_no_table** — "no table tokens without the table rule": with the rule off none of the table's token types occurs anywhere
    in the block stream -/
theorem t_no_table (ext : IExt) (lx : LExt) (c : TCfg) (hnr : c.reference = false) (hoff : c.table = false) (ws : List Nat) (mn : Int)
    (src : List Char) (st : BState) (h : tParse ext lx c ws mn src = .ok st) :
    ∀ t ∈ st.tokens, t.type ∉ ["table_open", "table_close", "thead_open", "thead_close", "tbody_open", "tbody_close", "tr_open", "tr_close",
      "th_open", "th_close", "td_open", "td_close"] := by
  intro t ht hmem
  have := t_provenance ext lx c hnr ws mn src st h t ht
  simp only [tAllowed, hoff, Bool.false_eq_true, if_false, List.append_nil] at this
  simp only [List.mem_cons, List.not_mem_nil, or_false] at hmem
  rcases hmem with e | e | e | e | e | e | e | e | e | e | e | e <;>
    (rw [e] at this; revert this; simp [mAllowed, lAllowed, qAllowed, allowedTypes]; repeat' split <;> simp)

/-! non-vacuity: the same table-shaped lines with the rule off stay a paragraph (inside a quote: the rule would have matched there) -/
example : C01.stateTypes (tParse { entity := fun _ => none, reformat := id, normText := id, html := false }
      { hasRefs := false, normRef := id, storeLabels := false, refs := fun _ => none }
      { code := true, fence := true, hr := true, heading := true, htmlBlock := false, lheading := true, html := false, reference := false,
        inlineDefs := false, table := false } [32, 9, 10, 11, 12, 13] 20
      "> |a|b|\n> |-|-|\n> |c|d|\n".toList)
    = some (["blockquote_open", "paragraph_open", "inline", "paragraph_close", "blockquote_close"], 3) := by
  decide +kernel

end MdIt.C10
