import MdIt.Props.C10n
/-!
# C10 (continued) — no `|` in the source, no table: the table rule never fires on a pipe-free document

The segment predicate `NPS s seg` = "if no line of `s` holds a `|`, `seg` holds no token of the table vocabulary" is carried through the
chains with the table rule **on**: the rule itself cannot match on a pipe-free state (`C10.table_inert_without_pipe`), the other rules
emit no table token, and the two containers hand pipe-freeness to their nested runs because the inner line tables hold suffixes of the
outer ones (`SufLines`, supplied by the `QuoteWrap` / `ListWrap` structures).  With `scanGo_chars` / `normalize_pipe` (the line tables of
a pipe-free source are pipe-free): **`t_pipe_free_no_table`** — for every source without `|`, with the table rule enabled, every subset of
the other optional rules (`reference` off), every `maxNesting`: no `table_open`, `thead_*`, `tbody_*`, `tr_*`, `th_*`, `td_*` token occurs in
the block stream, at any depth.  This is the trigger-character clause of the property for tables as far as *what the extension adds*
goes; that the rest of the stream is identical with the rule off is decided by the oracle (near-table family) and the `fullparset` tie.
-/
namespace MdIt.C10
open MdIt.C01 MdIt.C02

def tblOnly : List String :=
  ["table_open", "table_close", "thead_open", "thead_close", "tbody_open", "tbody_close", "tr_open", "tr_close", "th_open", "th_close",
   "td_open", "td_close"]

def NoPipeL (lines : List BLine) : Prop := ∀ l ∈ lines, '|' ∉ l.text

def NPS : BState → List Tok → Prop := fun s seg => NoPipeL s.lines → ∀ t ∈ seg, t.type ∉ tblOnly

theorem noPipe_suf {a b : List BLine} (h : SufLines a b) (ha : NoPipeL a) : NoPipeL b := by
  intro lb hlb hp
  obtain ⟨i, hi⟩ := List.getElem?_of_mem hlb
  obtain ⟨la, hla, hsuf, _⟩ := h.2 i lb hi
  exact ha la (List.mem_of_getElem? hla) (hsuf.subset hp)

theorem nps_closed : FrameClosedS NPS := fun s s' seg hf h hn => h (by rw [← hf.1.1]; exact hn)

theorem nps_wrap : QuoteWrap NPS := by
  refine ⟨nps_closed, ?_⟩
  intro s s3 s4 line openT closeT segs _ _ _ _ ho3 _ _ hc3 hsuf hS hn t ht
  simp only [List.mem_append, List.mem_singleton, List.mem_flatten] at ht
  rcases ht with (rfl | ⟨g, hg, htg⟩) | rfl
  · rw [C02.setMap_type, ho3]; decide
  · exact hS g hg (noPipe_suf hsuf hn) t htg
  · rw [hc3]; decide

theorem nps_listWrap : ListWrap NPS := by
  refine ⟨?_, ?_⟩
  · intro s seg seg' hh hS hn t ht
    unfold HidEq at hh
    have hm : t.setHidden false ∈ seg'.map (·.setHidden false) := List.mem_map.2 ⟨t, ht, rfl⟩
    rw [hh, List.mem_map] at hm
    obtain ⟨u, hu, he⟩ := hm
    have := (hidden_eq_fields he).2.2.1
    rw [← this]; exact hS hn u hu
  · intro s s2 openT closeT m segs _ hsuf _ _ _ _ hty hS hn t ht
    simp only [List.mem_append, List.mem_singleton, List.mem_flatten] at ht
    simp only [List.mem_cons, Prod.mk.injEq, List.not_mem_nil, or_false] at hty
    rcases ht with (rfl | ⟨g, hg, htg⟩) | rfl
    · rw [C02.setMap_type]; rcases hty with ⟨h, _⟩ | ⟨h, _⟩ | ⟨h, _⟩ <;> (rw [h]; decide)
    · exact hS g hg (noPipe_suf hsuf hn) t htg
    · rcases hty with ⟨_, h⟩ | ⟨_, h⟩ | ⟨_, h⟩ <;> (rw [h]; decide)

/-- no table-only type is in the vocabulary of the rules other than `table` -/
theorem mAllowed_not_tbl (c : MCfg) : ∀ ty ∈ mAllowed c, ty ∉ tblOnly := by
  obtain ⟨⟨code, fence, hr, heading⟩, htmlBlock, lheading, html⟩ := c
  cases code <;> cases fence <;> cases hr <;> cases heading <;> cases htmlBlock <;> cases lheading <;> cases html <;> decide

theorem mTypes_to_nps (c : MCfg) (P) (r : BRule) (h : SegOK P (MTypesIn c) r) : SegOK P NPS r :=
  ⟨fun s line endLine s' hc hr => by
      obtain ⟨seg, h1, h2⟩ := h.hit s line endLine s' hc hr
      exact ⟨seg, h1, fun _ t ht => mAllowed_not_tbl c _ (h2 t ht)⟩,
   h.miss⟩

theorem nps_table (P : BState → Nat → Prop) (codeOn : Bool) (terms : List BRule) (hin : ∀ t ∈ terms, SilentInert t) (ws : List Nat) :
    SegOK P NPS (ruleTable codeOn terms ws) := by
  refine ⟨?_, ?_⟩
  · intro s line endLine s' hc h
    obtain ⟨seg, h1, _⟩ := table_appends codeOn terms hin ws s line endLine (by have := hc.len; have := hc.le; omega) false true s' h
    refine ⟨seg, h1, fun hnp t _ => ?_⟩
    exfalso
    obtain ⟨l, hl, _, _⟩ := hc.here
    rcases table_inert_without_pipe codeOn terms ws s line endLine false l hl (hnp l (List.mem_of_getElem? hl)) with h' | ⟨e, h'⟩
    · rw [h'] at h; cases h
    · rw [h'] at h; cases h
  · intro s line endLine s' hc h
    rw [table_miss_pure _ _ _ _ _ _ _ _ h]

theorem nps_tLeaves (c : TCfg) (ws : List Nat) (mn : Int) (P : BState → Nat → Prop) :
    ∀ r ∈ tLeaves c ws mn, SegOK P NPS r := by
  intro r hr
  have hpara := tParaTerms_inertE c ws mn
  simp only [tLeaves, List.mem_append, List.mem_singleton] at hr
  rcases hr with ((((((hr | hr) | hr) | hr) | hr) | hr) | hr) | hr
  · split at hr
    · simp at hr; subst hr; exact nps_table _ _ _ (mTerminators_inert c.toMCfg ws mn) ws
    · cases hr
  · split at hr
    · rename_i hc; simp at hr; subst hr
      exact mTypes_to_nps c.toMCfg _ _ (lTypes_to_m c.toMCfg _ _ (typesIn_to_l _ _ _ (typesOK_code _ c.toMiniCfg hc)))
    · cases hr
  · split at hr
    · rename_i hc; simp at hr; subst hr
      exact mTypes_to_nps c.toMCfg _ _ (lTypes_to_m c.toMCfg _ _ (typesIn_to_l _ _ _ (typesOK_fence _ c.toMiniCfg hc)))
    · cases hr
  · split at hr
    · rename_i hc; simp at hr; subst hr
      exact mTypes_to_nps c.toMCfg _ _ (lTypes_to_m c.toMCfg _ _ (typesIn_to_l _ _ _ (typesOK_hr _ c.toMiniCfg hc)))
    · cases hr
  · split at hr
    · rename_i hc; simp at hr; subst hr; exact mTypes_to_nps c.toMCfg _ _ (typesOK_htmlBlock _ c.toMCfg hc)
    · cases hr
  · split at hr
    · rename_i hc; simp at hr; subst hr
      exact mTypes_to_nps c.toMCfg _ _ (lTypes_to_m c.toMCfg _ _ (typesIn_to_l _ _ _ (typesOK_heading _ c.toMiniCfg ws hc)))
    · cases hr
  · split at hr
    · rename_i hc; simp at hr; subst hr; exact mTypes_to_nps c.toMCfg _ _ (typesOK_lheadingE _ c.toMCfg hc _ hpara ws)
    · cases hr
  · subst hr
    exact mTypes_to_nps c.toMCfg _ _ (lTypes_to_m c.toMCfg _ _ (typesIn_to_l _ _ _ (typesOK_paragraphE _ c.toMiniCfg _ hpara ws)))

/-! ### the line tables of a pipe-free source are pipe-free -/

theorem normNewlines_mem {c : Char} (hc : c ≠ '\n') : ∀ s : List Char, c ∈ normNewlines s → c ∈ s := by
  intro s
  fun_induction normNewlines s with
  | case1 => intro h; cases h
  | case2 rest ih =>
    intro h
    simp only [List.mem_cons] at h
    rcases h with h | h
    · exact absurd h hc
    · simp [ih h]
  | case3 rest _ ih =>
    intro h
    simp only [List.mem_cons] at h
    rcases h with h | h
    · exact absurd h hc
    · simp [ih h]
  | case4 c' rest _ _ ih =>
    intro h
    simp only [List.mem_cons] at h
    rcases h with h | h
    · simp [h]
    · simp [ih h]

theorem normalize_pipe (src : List Char) (h : '|' ∉ src) : '|' ∉ normalize src := by
  intro hp
  unfold normalize normNul at hp
  rw [List.mem_map] at hp
  obtain ⟨a, ha, he⟩ := hp
  split at he
  · exact absurd he (by decide)
  · subst he; exact h (normNewlines_mem (by decide) src ha)

theorem scanGo_chars : ∀ (src cur : List Char) (found : Bool) (i o : Nat) (l : BLine), l ∈ scanGo src cur found i o →
    ∀ ch ∈ l.text, ch ∈ cur ∨ ch ∈ src := by
  intro src
  induction src with
  | nil => intro cur found i o l hl; simp [scanGo] at hl
  | cons c rest ih =>
    intro cur found i o l hl ch hch
    simp only [scanGo] at hl
    split at hl
    · rcases ih _ _ _ _ l hl ch hch with h | h
      · simp only [List.mem_append, List.mem_singleton] at h
        rcases h with h | h
        · exact .inl h
        · exact .inr (by simp [h])
      · exact .inr (by simp [h])
    · split at hl
      · simp only [List.mem_cons] at hl
        rcases hl with rfl | hl
        · exact .inl (by simpa [mkLine] using hch)
        · rcases ih _ _ _ _ l hl ch hch with h | h
          · cases h
          · exact .inr (by simp [h])
      · split at hl
        · simp only [List.mem_singleton] at hl
          subst hl
          simp only [mkLine, List.mem_append, List.mem_singleton] at hch
          rcases hch with h | h
          · exact .inl h
          · exact .inr (by simp [h])
        · rcases ih _ _ _ _ l hl ch hch with h | h
          · simp only [List.mem_append, List.mem_singleton] at h
            rcases h with h | h
            · exact .inl h
            · exact .inr (by simp [h])
          · exact .inr (by simp [h])

theorem init_noPipe (src : List Char) (h : '|' ∉ src) : NoPipeL (initBState (normalize src)).lines := by
  intro l hl hp
  simp only [initBState, List.mem_append, List.mem_singleton] at hl
  rcases hl with hl | rfl
  · rcases scanGo_chars _ _ _ _ _ l hl '|' hp with h' | h'
    · cases h'
    · exact normalize_pipe src h h'
  · simp [sentinelLine] at hp

/-- **C10.t_pipe_free_no_table** -/
theorem t_pipe_free_no_table (ext : IExt) (lx : LExt) (c : TCfg) (hnr : c.reference = false) (ws : List Nat) (maxNesting : Int) (src : List Char)
    (hnp : '|' ∉ src) (st : BState) (h : tParse ext lx c ws maxNesting src = .ok st) : ∀ t ∈ st.tokens, t.type ∉ tblOnly := by
  obtain ⟨segs, hts, hS⟩ := tParse_segs NPS nps_wrap nps_listWrap ext lx c hnr ws maxNesting
    (fun P => nps_tLeaves c ws maxNesting P) src st h
  intro t ht
  rw [hts, List.mem_flatten] at ht
  obtain ⟨g, hg, htg⟩ := ht
  exact hS g hg (init_noPipe src hnp) t htg

/-! non-vacuity: the document of seeded change C10l — a delimiter-row-shaped line below text, then a list marker that may not interrupt a
paragraph — with the table rule on: one paragraph of four lines, no table token -/
example : C01.stateTypes (tParse { entity := fun _ => none, reformat := id, normText := id, html := false }
      { hasRefs := false, normRef := id, storeLabels := false, refs := fun _ => none }
      { code := true, fence := true, hr := true, heading := true, htmlBlock := true, lheading := false, html := false, reference := false,
        inlineDefs := false, table := true } [32, 9, 10, 11, 12, 13] 20
      "abc\ndef\n:-:\n2. item\n".toList)
    = some (["paragraph_open", "inline", "paragraph_close"], 4) := by
  decide +kernel

end MdIt.C10
