import MdIt.Instance
import MdIt.Proofs.Reset
/-!
# C14 — an exception escaping from user code leaves the instance intact

Model: `MdIt/Instance.lean` (`runEvents` for parse/render with a fault plan; `resetRules`).
-/
namespace MdIt.C14

theorem get_set_same (m : Rulers) (w : Which) (r : Ruler) : (m.set w r).get w = r := by
  cases w <;> rfl

theorem get_set_other (m : Rulers) (w v : Which) (r : Ruler) (h : v ≠ w) : (m.set w r).get v = m.get v := by
  cases w <;> cases v <;> first | rfl | exact absurd rfl h

/-- **C14.parse_intact** — whatever sequence of chain requests and user-callback invocations a
parse/render performs, and whichever invocation raises (any fault plan): afterwards every ruler has
the same rules (hence the same active rules), the options and render-rule table are untouched, and
every ruler is coherent (what will be applied next is what is reported). -/
theorem parse_intact (plan : Plan) (i : Inst) (evs : List Ev) (seen : List (Nat × Nat))
    (h : ∀ w, (i.rulers.get w).Coherent) :
    (∀ w, ((runEvents plan i evs seen).1.rulers.get w).rules = (i.rulers.get w).rules)
    ∧ (runEvents plan i evs seen).1.options = i.options
    ∧ (runEvents plan i evs seen).1.renderRules = i.renderRules
    ∧ (∀ w, ((runEvents plan i evs seen).1.rulers.get w).Coherent) := by
  induction evs generalizing i seen with
  | nil => exact ⟨fun _ => rfl, rfl, rfl, h⟩
  | cons ev rest ih =>
    cases ev with
    | getRules w c =>
      simp only [runEvents]
      have hs := getRules_spec (i.rulers.get w) (h w) c
      have h' : ∀ v, (({ i with rulers := i.rulers.set w ((i.rulers.get w).getRules c).1 } : Inst).rulers.get v).Coherent := by
        intro v
        by_cases hv : v = w
        · subst hv; simp only [get_set_same]; exact hs.2.1
        · simp only [get_set_other _ _ _ _ hv]; exact h v
      have := ih _ seen h'
      refine ⟨?_, this.2.1, this.2.2.1, this.2.2.2⟩
      intro v
      rw [this.1 v]
      by_cases hv : v = w
      · subst hv; simp only [get_set_same]; exact hs.2.2
      · simp only [get_set_other _ _ _ _ hv]
    | call slot =>
      simp only [runEvents]
      cases plan slot (runEvents.dictGetN seen slot) with
      | some e => exact ⟨fun _ => rfl, rfl, rfl, h⟩
      | none => exact ih i _ h

/-- the exception propagates: the outcome is either normal, or exactly a user exception that the
plan contains; with an empty plan the call returns normally -/
theorem parse_outcome (plan : Plan) (i : Inst) (evs : List Ev) (seen : List (Nat × Nat)) :
    (runEvents plan i evs seen).2 = .ok () ∨
    ∃ e slot k, plan slot k = some e ∧ (runEvents plan i evs seen).2 = .error (.userRaised e) := by
  induction evs generalizing i seen with
  | nil => exact Or.inl rfl
  | cons ev rest ih =>
    cases ev with
    | getRules w c => simp only [runEvents]; exact ih _ _
    | call slot =>
      simp only [runEvents]
      cases hp : plan slot (runEvents.dictGetN seen slot) with
      | some e => exact Or.inr ⟨e, slot, _, hp, rfl⟩
      | none => exact ih _ _

theorem parse_no_fault (i : Inst) (evs : List Ev) (seen : List (Nat × Nat)) :
    (runEvents (fun _ _ => none) i evs seen).2 = .ok () := by
  induction evs generalizing i seen with
  | nil => rfl
  | cons ev rest ih => cases ev <;> simp only [runEvents] <;> exact ih _ _

/-! ### reset_rules -/

/-- rule names only grow (rules are inserted, never removed or renamed) -/
def NamesGrow (m m' : Rulers) : Prop := ∀ w, (m.get w).allRules.Sublist (m'.get w).allRules

def BodyOK (f : Body) : Prop := ∀ m, NamesGrow m (f m).1

theorem namesGrow_refl (m : Rulers) : NamesGrow m m := fun _ => List.Sublist.refl _
theorem namesGrow_trans {a b c : Rulers} (h1 : NamesGrow a b) (h2 : NamesGrow b c) : NamesGrow a c :=
  fun w => (h1 w).trans (h2 w)

theorem restore_spec (m1 : Rulers) (snap : Active)
    (hn : ∀ w, ((m1.get w).rules.map (·.name)).Nodup)
    (hc : snap.core.Sublist m1.core.allRules) (hb : snap.block.Sublist m1.block.allRules)
    (hi : snap.inline.Sublist m1.inline.allRules) (hi2 : snap.inline2.Sublist m1.inline2.allRules) :
    (m1.restore snap).2 = .ok () ∧ (m1.restore snap).1.active = snap
    ∧ ∀ w, ((m1.restore snap).1.get w).allRules = (m1.get w).allRules := by
  have ec := enableOnly_restores m1.core snap.core (hn .core) hc
  have eb := enableOnly_restores m1.block snap.block (hn .block) hb
  have ei := enableOnly_restores m1.inline snap.inline (hn .inline) hi
  have ei2 := enableOnly_restores m1.inline2 snap.inline2 (hn .inline2) hi2
  simp only [Rulers.restore, ec.2.1, eb.2.1, ei.2.1, ei2.2.1]
  refine ⟨trivial, ?_, ?_⟩
  · simp only [Rulers.active, ec.1, eb.1, ei.1, ei2.1]
  · intro w; cases w <;> simp only [Rulers.get] <;> first | exact ec.2.2 | exact eb.2.2 | exact ei.2.2 | exact ei2.2.2

/-- **C14.reset_rules** — for every body (any operations, raising or not) that keeps rule names
distinct, on every exit path: the active rules afterwards are the active rules on entry (rules
added inside are left disabled), the rule lists are those the body left, and the body's outcome —
in particular its exception — is what the caller sees. -/
theorem reset_restores (m : Rulers) (body : Body) (hb : BodyOK body)
    (hn : ∀ w, (((body m).1.get w).rules.map (·.name)).Nodup) :
    (resetRules m body).1.active = m.active
    ∧ (resetRules m body).2 = (body m).2
    ∧ ∀ w, ((resetRules m body).1.get w).allRules = ((body m).1.get w).allRules := by
  have hg := hb m
  have hs := restore_spec (body m).1 m.active hn
    ((active_sublist_all m.core).trans (hg .core)) ((active_sublist_all m.block).trans (hg .block))
    ((active_sublist_all m.inline).trans (hg .inline)) ((active_sublist_all m.inline2).trans (hg .inline2))
  simp only [resetRules]
  generalize hr : (body m).1.restore m.active = res at hs
  obtain ⟨m2, r2⟩ := res
  simp only at hs
  obtain ⟨h1, h2, h3⟩ := hs
  subst h1
  exact ⟨h2, rfl, h3⟩

/-! closure: the bodies the property quantifies over are `BodyOK` -/

theorem bodyOK_raise (e : Nat) : BodyOK (Body.raise e) := fun m => namesGrow_refl m

theorem bodyOK_rop (w : Which) (op : ROp) : BodyOK (Body.rop w op) := by
  intro m v
  simp only [Body.rop]
  by_cases hv : v = w
  · subst hv; rw [get_set_same]; exact step_names_sublist _ _
  · rw [get_set_other _ _ _ _ hv]; exact List.Sublist.refl _

theorem bodyOK_setMany (b : Bool) (names : List String) (ign : Bool) : BodyOK (Body.setMany b names ign) := by
  intro m v
  have := (C11.facade m b names ign).1
  simp only [Body.setMany]
  rw [this]
  cases b <;> cases v <;> simp only [Rulers.get, if_true, Bool.false_eq_true, if_false]
    <;> first
      | (rw [C11.enable_keeps_names]; exact List.Sublist.refl _)
      | (rw [C11.disable_keeps_names]; exact List.Sublist.refl _)

theorem bodyOK_seq (f g : Body) (hf : BodyOK f) (hg : BodyOK g) : BodyOK (Body.seq f g) := by
  intro m
  simp only [Body.seq]
  have h1 := hf m
  cases hfm : f m with
  | mk m1 r =>
    rw [hfm] at h1
    cases r with
    | ok _ => exact namesGrow_trans h1 (hg m1)
    | error e => exact h1

/-- nested blocks: a `reset_rules` block is itself a body that only grows names (when the inner
    body keeps names distinct) -/
theorem bodyOK_reset (inner : Body) (hi : BodyOK inner)
    (hn : ∀ m w, (((inner m).1.get w).rules.map (·.name)).Nodup) : BodyOK (Body.reset inner) := by
  intro m w
  simp only [Body.reset]
  rw [(reset_restores m inner hi (hn m)).2.2 w]
  exact hi m w

/-! ### non-vacuity -/

def isUser (e : Nat) : Except PyErr Unit → Bool
  | .error (.userRaised k) => k == e
  | _ => false

def demoBody : Body :=
  Body.seq (Body.setMany false ["emphasis"] false)
    (Body.seq (Body.rop .inline (.push "myrule" 999 [])) (Body.raise 7))

/-- a body that disables a rule, adds one, and raises: entry state is restored, exception propagates -/
example : (resetRules Rulers.fresh demoBody).1.active = Rulers.fresh.active := by decide
example : isUser 7 (resetRules Rulers.fresh demoBody).2 = true := by decide
example : ((resetRules Rulers.fresh demoBody).1.inline.allRules).contains "myrule" = true := by decide
/-- … and `demoBody` meets the hypotheses of `reset_restores` -/
example : BodyOK demoBody :=
  bodyOK_seq _ _ (bodyOK_setMany _ _ _) (bodyOK_seq _ _ (bodyOK_rop _ _) (bodyOK_raise _))
example : ∀ w, (((demoBody Rulers.fresh).1.get w).rules.map (·.name)).Nodup := by
  intro w; cases w <;> decide

/-- the pre-fix `reset_rules` (no `try/finally`): the raise skips the restore -/
def resetRulesOld (m : Rulers) (body : Body) : Rulers × Except PyErr Unit :=
  let snap := m.active
  match body m with
  | (m1, .error e) => (m1, .error e)
  | (m1, .ok _) => let (m2, r2) := m1.restore snap; (m2, r2)

example : (resetRulesOld Rulers.fresh
    (Body.seq (Body.setMany false ["emphasis"] false) (Body.raise 7))).1.active ≠ Rulers.fresh.active := by
  decide

/-- why the distinct-names hypothesis is there: a rule inserted *before* an existing rule under the
same name captures the snapshot entry (the code has the same behaviour; adding duplicate names is
outside what the property quantifies over) -/
example :
    (resetRules Rulers.fresh (Body.rop .inline (.before "emphasis" "emphasis" 999 []))).1.inline.rules.filterMap
      (fun r => if r.enabled && r.name == "emphasis" then some r.fn else none) = [999] := by decide

end MdIt.C14
