import MdIt.Props.C06e
/-!
# C06 (continued) — the list rule under the column-shift simulation, and the chains
-/
namespace MdIt.C06e
open MdIt.C01 MdIt.C06 MdIt.C07

/-! ### one list item -/

theorem lLoop_shift (bs bs' : Nat) (W : Nat) : ∀ (text : List Char) (off : Int) (m : Nat), '\t' ∉ text →
    lLoop bs' (off + W) text m = ((lLoop bs off text m).1 + W, (lLoop bs off text m).2) := by
  intro text
  induction text with
  | nil => intro off m _; rfl
  | cons c cs ih =>
    intro off m hnt
    have hc : c ≠ '\t' := fun e => hnt (by simp [e])
    have hcs : '\t' ∉ cs := fun e => hnt (by simp [e])
    simp only [lLoop, hc, if_false]
    split
    · have e : off + (W : Int) + 1 = off + 1 + W := by omega
      rw [e]; exact ih _ _ hcs
    · rfl

theorem lLoop_ge (bs : Nat) : ∀ (text : List Char) (off : Int) (m : Nat), off ≤ (lLoop bs off text m).1 := by
  intro text
  induction text with
  | nil => intro off m; exact Int.le_refl _
  | cons c cs ih =>
    intro off m
    simp only [lLoop]
    split
    · exact Int.le_trans (by omega) (ih _ _)
    · split
      · exact Int.le_trans (by omega) (ih _ _)
      · exact Int.le_refl _

theorem isEmpty_shI {tt pp k n W lm li blk spre pre s s'} (h : TR tt pp k n W lm li blk spre pre s s') (i : Nat) (j j' : Int) (hj : j = (i : Int)) (hj' : j' = ((i + n : Nat) : Int)) :
    s'.isEmpty j' = s.isEmpty j := by
  subst hj; subst hj'; exact isEmpty_sh h i

theorem listNested_sh {k n W} {inner inner' : List BRule} (hin : ShSims k n W inner inner' ∨ inner = []) (mn : Int) (endLine : Nat) {pp lm li blk spre pre s2 s2'}
    (startLine : Nat) (ce : Bool) (s3 : BState) (hsr : TR true pp k n W lm li blk spre pre s2 s2') (hle : endLine ≤ lm)
    (h : listNested inner mn endLine s2 startLine ce = .ok s3) :
    ∃ s3', listNested inner' (mn + k) (endLine + n) s2' (startLine + n) ce = .ok s3' ∧ TR true pp k n W lm li blk spre pre s3 s3' := by
  unfold listNested at h ⊢
  have e1 : (if ce = true then s2'.isEmpty (((startLine + n : Nat) : Int) + 1) else Except.ok false)
      = (if ce = true then s2.isEmpty ((startLine : Int) + 1) else Except.ok false) := by
    split
    · exact isEmpty_shI hsr (startLine + 1) _ _ (by omega) (by omega)
    · rfl
  rw [e1]
  cases hq : (if ce = true then s2.isEmpty ((startLine : Int) + 1) else Except.ok false) with
  | error e => rw [hq] at h; cases h
  | ok b =>
    rw [hq] at h
    cases b with
    | true =>
      simp only [Except.ok.injEq] at h ⊢
      subst h
      refine ⟨_, rfl, ?_⟩
      exact hsr.setLineNo _ _ (by rw [hsr.line]; omega)
    | false =>
      simp only at h ⊢
      exact blockTokenize_sh hin mn startLine endLine s3 hsr hle h

theorem IL.retab {W : Nat} {l l' : BLine} (hz : IL W l l') (a a' : Nat) (b b' : Int) (ha : a' = a + W) (hb : b' = b + W) :
    IL W (l.retab a b) (l'.retab a' b') :=
  ⟨hb, ha, hz.txt, hz.lf⟩

theorem closeState_sh {tt pp k n W lm li blk spre pre} (mc : Char) (s s' s1 s1' : BState) (l l' : BLine) (startLine : Nat) (s3 s3' : BState) (lcur lcur' : BLine)
    (o o' : Tok) (ts0 : List Tok) (ind : Int)
    (h3 : TR true pp k n W lm blk ind s1.tokens s1'.tokens s3 s3') (hz : IL W l l') (hzc : IL W lcur lcur')
    (hgc : '\t' ∉ lcur.text ∧ '>' ∉ lcur.text) (hnn : 0 ≤ l.sCount) (hblk : 0 ≤ blk)
    (h1li : s1.listIndent = li) (h1li' : (0 ≤ li ∧ s1'.listIndent = li + W) ∨ (li < 0 ∧ blk = 0 ∧ s1'.listIndent = 0))
    (h1t : tt = true → s1'.tight = s1.tight)
    (a0 : s.tokens = spre ++ ts0) (b0 : s'.tokens = pre ++ ts0.map (Tok.shift2 k n))
    (a1 : s1.tokens = s.tokens ++ [o]) (b1 : s1'.tokens = s'.tokens ++ [o'])
    (ho : o'.setMap (some (startLine + n, s3'.line)) = (o.setMap (some (startLine, s3.line))).shift2 k n) :
    TR tt pp k n W lm li blk spre pre (closeState mc s1 l s.tokens.length startLine s3 lcur) (closeState mc s1' l' s'.tokens.length (startLine + n) s3' lcur') := by
  have a := h3.setLine startLine (startLine + n) rfl (hzc.retab l.tShift l'.tShift l.sCount l'.sCount hz.tsh hz.sc) ⟨hgc.1, hgc.2, hnn⟩
  obtain ⟨ts3, a3, b3⟩ := h3.tokens
  have hli3 : s3'.listIndent = blk + W := by
    rcases h3.listIndent with ⟨_, h⟩ | ⟨h, _, _⟩
    · exact h
    · omega
  refine ⟨a.lines, a.len, a.good, h3.line, h3.lm_eq, h3.lineMax, h3.li_eq, hblk, hli3, ?_, h1li, h1li', h1t, h3.parent, ?_⟩
  · show (BState.pushFull _ "list_item_close" "li" (-1) none none "" (String.singleton mc) "").level
        = (BState.pushFull _ "list_item_close" "li" (-1) none none "" (String.singleton mc) "").level + k
    rw [pushFull_level_close, pushFull_level_close]
    show s3'.level - 1 = s3.level - 1 + k
    rw [h3.level]; omega
  · refine ⟨ts0 ++ [o.setMap (some (startLine, s3.line))] ++ ts3 ++ [itemCloseTok mc s3.level], ?_, ?_⟩
    · rw [closeState_tokens, a3, a1]
      simp only [List.append_assoc, List.cons_append, List.nil_append]
      rw [C02.modify_append_len, a0]
      simp
    · rw [closeState_tokens, b3, b1]
      simp only [List.append_assoc, List.cons_append, List.nil_append]
      rw [C02.modify_append_len, ho, b0]
      have hc : itemCloseTok mc s3'.level = (itemCloseTok mc s3.level).shift2 k n := by
        simp only [itemCloseTok, Tok.shift2, shiftM, h3.level]; congr 1; omega
      rw [hc]
      simp

theorem listIndentOf_ge (l : BLine) (ml : Nat) (q : Int × Nat) (hq : l.sCount + (ml : Int) ≤ q.1) (hnn : 0 ≤ l.sCount) : 0 ≤ listIndentOf l ml q := by
  simp only [listIndentOf]
  by_cases hce : (List.drop ml l.body).length ≤ q.2
  · simp only [hce, decide_true, ↓reduceIte]
    have : ¬ ((1 : Int) > 4) := by omega
    simp only [this, ↓reduceIte]; omega
  · simp only [hce, decide_false, Bool.false_eq_true, ↓reduceIte]
    split <;> omega

theorem listItem_sh {k n W} {inner inner' : List BRule} (hin : ShSims k n W inner inner' ∨ inner = []) (ordered : Bool) (markerChar : Char) (mn : Int)
    (endLine : Nat) {tt pp lm li blk spre pre s s'} (startLine markerLen : Nat) (s6 : BState) (nt pe : Bool) (hsr : TR tt pp k n W lm li blk spre pre s s')
    (hlt : startLine < endLine) (hle : endLine ≤ lm)
    (h : listItem ordered markerChar inner mn endLine s startLine markerLen = .ok (s6, nt, pe)) :
    ∃ s6', listItem ordered markerChar inner' (mn + k) (endLine + n) s' (startLine + n) markerLen = .ok (s6', nt, pe)
      ∧ TR tt pp k n W lm li blk spre pre s6 s6' := by
  unfold listItem at h
  obtain ⟨l, hg, h⟩ := getL_cases h
  obtain ⟨l', hg', hz, hnt, hgt, hnn⟩ := getL_sh hsr startLine (startLine + n) rfl (by omega) l hg
  have hbody : l'.body = l.body := hz.body
  have hnb : '\t' ∉ List.drop markerLen l.body := fun hm => hnt (mem_drop_of (mem_drop_of hm))
  simp only [listItem, hg', hbody, hz.sc]
  have eoff : (l.sCount + (W : Int) + (markerLen : Int)) = (l.sCount + (markerLen : Int)) + W := by omega
  rw [eoff, lLoop_shift l.bs l'.bs W _ _ 0 hnb]
  simp only at h
  have hqge := lLoop_ge l.bs (List.drop markerLen l.body) ((l.sCount : Int) + (markerLen : Int)) 0
  generalize hq : lLoop l.bs ((l.sCount : Int) + (markerLen : Int)) (List.drop markerLen l.body) 0 = q at h hqge ⊢
  have hind : listIndentOf l' markerLen (q.1 + W, q.2) = listIndentOf l markerLen q + W := by
    simp only [listIndentOf, hz.sc, hbody]
    by_cases hce : (List.drop markerLen l.body).length ≤ q.2
    · simp only [hce, decide_true, ↓reduceIte]
      have : ¬ ((1 : Int) > 4) := by omega
      simp only [this, ↓reduceIte]; omega
    · simp only [hce, decide_false, Bool.false_eq_true, ↓reduceIte]
      have e1 : q.1 + (W : Int) - (l.sCount + W + markerLen) = q.1 - (l.sCount + markerLen) := by omega
      rw [e1]
      split <;> omega
  rw [hind]
  have hindnn : 0 ≤ listIndentOf l markerLen q := listIndentOf_ge l markerLen q hqge hnn
  -- the opening token and the nested entry state
  have hsr1 := hsr.pushRebase "list_item_open" "li" 1 (some (startLine, 0)) (some (startLine + n, 0)) none ""
    (String.singleton markerChar) (if ordered = true then String.ofList (List.take (markerLen - 1) l.body) else "")
  have ht1 := pushFull_tokens s "list_item_open" "li" 1 (some (startLine, 0)) none "" (String.singleton markerChar)
      (if ordered = true then String.ofList (List.take (markerLen - 1) l.body) else "")
  have ht1' := pushFull_tokens s' "list_item_open" "li" 1 (some (startLine + n, 0)) none "" (String.singleton markerChar)
      (if ordered = true then String.ofList (List.take (markerLen - 1) l.body) else "")
  have hli1 : (s.pushFull "list_item_open" "li" 1 (some (startLine, 0)) none "" (String.singleton markerChar)
      (if ordered = true then String.ofList (List.take (markerLen - 1) l.body) else "")).listIndent = li := hsr.li_eq
  have hli1' : (0 ≤ li ∧ (s'.pushFull "list_item_open" "li" 1 (some (startLine + n, 0)) none "" (String.singleton markerChar)
      (if ordered = true then String.ofList (List.take (markerLen - 1) l.body) else "")).listIndent = li + W) ∨ (li < 0 ∧ blk = 0 ∧
      (s'.pushFull "list_item_open" "li" 1 (some (startLine + n, 0)) none "" (String.singleton markerChar)
      (if ordered = true then String.ofList (List.take (markerLen - 1) l.body) else "")).listIndent = 0) := hsr.listIndent
  have hti1 : tt = true → (s'.pushFull "list_item_open" "li" 1 (some (startLine + n, 0)) none "" (String.singleton markerChar)
      (if ordered = true then String.ofList (List.take (markerLen - 1) l.body) else "")).tight
      = (s.pushFull "list_item_open" "li" 1 (some (startLine, 0)) none "" (String.singleton markerChar)
      (if ordered = true then String.ofList (List.take (markerLen - 1) l.body) else "")).tight := hsr.tight
  generalize hs1 : s.pushFull "list_item_open" "li" 1 (some (startLine, 0)) none "" (String.singleton markerChar)
      (if ordered = true then String.ofList (List.take (markerLen - 1) l.body) else "") = s1 at h hsr1 ht1 hli1 hti1
  generalize hs1' : s'.pushFull "list_item_open" "li" 1 (some (startLine + n, 0)) none "" (String.singleton markerChar)
      (if ordered = true then String.ofList (List.take (markerLen - 1) l.body) else "") = s1' at hsr1 ht1' hli1' hti1 ⊢
  have hsr2 : TR true pp k n W lm blk (listIndentOf l markerLen q) s1.tokens s1'.tokens (listEnter s1 l startLine markerLen q (listIndentOf l markerLen q))
      (listEnter s1' l' (startLine + n) markerLen (q.1 + W, q.2) (listIndentOf l markerLen q + W)) := by
    have a := hsr1.setLine startLine (startLine + n) rfl
      (hz.retab (l.tShift + markerLen + q.2) (l'.tShift + markerLen + q.2) q.1 (q.1 + W) (by rw [hz.tsh]; omega) rfl)
      ⟨hnt, hgt, (by show (0 : Int) ≤ q.1; omega)⟩
    unfold listEnter
    exact ⟨a.lines, a.len, a.good, a.line, a.lm_eq, a.lineMax, rfl, hindnn, rfl, a.level, hsr1.blk_eq, Or.inl ⟨hsr.blk_nn, hsr1.blkIndent⟩, (fun _ => rfl), a.parent, a.tokens⟩
  cases hn : listNested inner mn endLine (listEnter s1 l startLine markerLen q (listIndentOf l markerLen q)) startLine
      (decide ((List.drop markerLen l.body).length ≤ q.2)) with
  | error e => rw [hn] at h; cases h
  | ok s3 =>
    rw [hn] at h
    obtain ⟨s3', hn', hsr3⟩ := listNested_sh hin mn endLine startLine _ s3 hsr2 hle hn
    rw [hn']
    simp only at h ⊢
    rw [listClose_eq] at h ⊢
    have c1 : (s3'.line - (startLine + n) > 1) = (s3.line - startLine > 1) := by
      rw [hsr3.line]; exact propext ⟨fun h => by omega, fun h => by omega⟩
    have epe : (if s3'.line - (startLine + n) > 1 then s3'.isEmpty ((s3'.line : Int) - 1) else Except.ok false)
        = (if s3.line - startLine > 1 then s3.isEmpty ((s3.line : Int) - 1) else Except.ok false) := by
      simp only [c1]
      split
      · rename_i hgt
        exact isEmpty_shI hsr3 (s3.line - 1) _ _ (by omega) (by rw [hsr3.line]; omega)
      · rfl
    rw [epe]
    cases hpe : (if s3.line - startLine > 1 then s3.isEmpty ((s3.line : Int) - 1) else Except.ok false) with
    | error e => rw [hpe] at h; cases h
    | ok pe0 =>
      rw [hpe] at h
      simp only at h ⊢
      obtain ⟨lcur, hgc, h⟩ := getL_cases h
      obtain ⟨lcur', hgc', hzc, hntc, hgtc, _⟩ := getL_sh hsr3 startLine (startLine + n) rfl (by omega) lcur hgc
      rw [hgc']
      simp only [Except.ok.injEq, Prod.mk.injEq] at h ⊢
      obtain ⟨h6, hnt', hpe'⟩ := h
      subst h6; subst hnt'; subst hpe'
      refine ⟨_, ⟨rfl, (hsr3.tight rfl), rfl⟩, ?_⟩
      obtain ⟨ts0, a0, b0⟩ := hsr.tokens
      refine closeState_sh markerChar s s' s1 s1' l l' startLine s3 s3' lcur lcur' _ _ ts0 _ hsr3 hz hzc ⟨hntc, hgtc⟩ hnn hsr.blk_nn hli1 hli1' hti1 a0 b0 ht1 ht1' ?_
      exact setMap_pushed_shift k n s s' hsr.level "list_item_open" "li" 1 (some (startLine, 0)) (some (startLine + n, 0))
        (some (startLine, s3.line)) (some (startLine + n, s3'.line)) none "" (String.singleton markerChar)
        (if ordered = true then String.ofList (List.take (markerLen - 1) l.body) else "") (shiftM_some rfl hsr3.line)

/-! ### the item loop and the list -/

theorem skipBullet_il {W} {l l' : BLine} (hz : IL W l l') : skipBullet l' = skipBullet l := by
  unfold skipBullet; rw [hz.body]

theorem skipOrdered_il {W} {l l' : BLine} (hz : IL W l l') : skipOrdered l' = skipOrdered l := by
  unfold skipOrdered; rw [hz.body]

theorem listItems_sh {k n W} {terms terms' inner inner' : List BRule} (hts : ShSims k n W terms terms') (hin : ShSims k n W inner inner' ∨ inner = [])
    (codeOn ordered : Bool) (mc : Char) (mn : Int) (endLine : Nat) :
    ∀ (fuel : Nat) {tt lm li blk spre pre} (s s' : BState) (sl ml : Nat) (tg pe : Bool) (r : ListSt), TR tt true k n W lm li blk spre pre s s' → endLine ≤ lm →
      listItems codeOn ordered mc terms inner mn endLine fuel { s := s, startLine := sl, markerLen := ml, tight := tg, prevEmptyEnd := pe } = .ok r →
      ∃ rs', listItems codeOn ordered mc terms' inner' (mn + k) (endLine + n) fuel
          { s := s', startLine := sl + n, markerLen := ml, tight := tg, prevEmptyEnd := pe }
            = .ok { s := rs', startLine := r.startLine + n, markerLen := r.markerLen, tight := r.tight, prevEmptyEnd := r.prevEmptyEnd }
        ∧ TR tt true k n W lm li blk spre pre r.s rs' := by
  intro fuel
  induction fuel with
  | zero => intro tt lm li blk spre pre s s' sl ml tg pe r _ _ h; simp [listItems] at h
  | succ f ih =>
    intro tt lm li blk spre pre s s' sl ml tg pe r hsr hle h
    simp only [listItems] at h ⊢
    have c0 : (sl + n < endLine + n) = (sl < endLine) := propext ⟨fun h => by omega, fun h => by omega⟩
    simp only [c0]
    split at h
    · rename_i hlt
      simp only [hlt, not_false_eq_true, ↓reduceIte]
      simp only [Except.ok.injEq] at h; subst h
      exact ⟨s', rfl, hsr⟩
    · rename_i hlt
      simp only [hlt, ↓reduceIte]
      have hsl : sl < endLine := by
        by_cases hh : sl < endLine
        · exact hh
        · exact absurd hh hlt
      cases hit : listItem ordered mc inner mn endLine s sl ml with
      | error e => rw [hit] at h; cases h
      | ok v =>
        obtain ⟨s6, nt, pe6⟩ := v
        rw [hit] at h
        obtain ⟨s6', hit', hsr6⟩ := listItem_sh hin ordered mc mn endLine sl ml s6 nt pe6 hsr hsl hle hit
        rw [hit']
        simp only at h ⊢
        rcases s6' with ⟨lines6, ln6, lm6, bi6, lv6, tg6, pt6, tk6, li6⟩
        have hln : ln6 = s6.line + n := hsr6.line
        subst hln
        have c1 : (s6.line + n ≥ endLine + n) = (s6.line ≥ endLine) := propext ⟨fun h => by omega, fun h => by omega⟩
        simp only [c1]
        have stop : ∀ (x : BState) (x' : BState), TR tt true k n W lm li blk spre pre x x' →
            (Except.ok { s := x, startLine := s6.line, markerLen := ml, tight := (if (!nt || pe) = true then false else tg), prevEmptyEnd := pe6 } : Except PyErr ListSt) = .ok r →
            ∃ rs', (Except.ok { s := x', startLine := s6.line + n, markerLen := ml, tight := (if (!nt || pe) = true then false else tg), prevEmptyEnd := pe6 } : Except PyErr ListSt)
                = .ok { s := rs', startLine := r.startLine + n, markerLen := r.markerLen, tight := r.tight, prevEmptyEnd := r.prevEmptyEnd }
              ∧ TR tt true k n W lm li blk spre pre r.s rs' := by
          intro x x' hx he
          simp only [Except.ok.injEq] at he; subst he
          exact ⟨x', rfl, hx⟩
        split at h
        · rename_i h1; simp only [h1, ↓reduceIte]; exact stop _ _ hsr6 h
        · rename_i h1
          simp only [h1, ↓reduceIte]
          obtain ⟨ln, hgl, h⟩ := getL_cases h
          obtain ⟨ln', hgl', hzl, _⟩ := getL_sh hsr6 s6.line (s6.line + n) rfl (by omega) ln hgl
          have c2 : (ln'.sCount < bi6) = (ln.sCount < s6.blkIndent) := lt_blk_sh hsr6 hzl
          simp only [hgl', c2, isCode_sh hsr6 codeOn hzl]
          split at h
          · rename_i h2; simp only [h2, ↓reduceIte]; exact stop _ _ hsr6 h
          · rename_i h2
            simp only [h2, ↓reduceIte]
            split at h
            · rename_i h3; simp only [h3, ↓reduceIte]; exact stop _ _ hsr6 h
            · rename_i h3
              simp only [h3, Bool.false_eq_true, ↓reduceIte]
              cases hq : runTerminators terms s6 s6.line endLine with
              | error e => rw [hq] at h; cases h
              | ok v =>
                obtain ⟨b, s7⟩ := v
                rw [hq] at h
                obtain ⟨s7', hq', hsr7⟩ := runTerminators_sh hts s6.line endLine b s7 hsr6 (by omega) hle hq
                rw [hq']
                cases b with
                | true => simp only at h ⊢; exact stop _ _ hsr7 h
                | false =>
                  simp only at h ⊢
                  rw [skipOrdered_il hzl, skipBullet_il hzl, hzl.body]
                  split at h
                  · rename_i hm; exact stop _ _ hsr7 h
                  · rename_i mlen hm
                    split at h
                    · rename_i h4; simp only [h4, ↓reduceIte]; exact stop _ _ hsr7 h
                    · rename_i h4
                      simp only [h4, ↓reduceIte]
                      exact ih s7 s7' s6.line mlen _ pe6 r hsr7 hle h

theorem listOpenState_sh {tt pp k n W lm li blk spre pre s s'} (h : TR tt pp k n W lm li blk spre pre s s') (ordered : Bool) (mc : Char) (mv startLine : Nat) :
    TR tt true k n W lm li blk (listOpenState s ordered mc mv startLine).tokens (listOpenState s' ordered mc mv (startLine + n)).tokens
      (listOpenState s ordered mc mv startLine) (listOpenState s' ordered mc mv (startLine + n)) := by
  have h0 := h.pushRebase (if ordered then "ordered_list_open" else "bullet_list_open") (if ordered then "ol" else "ul") 1
    (some (startLine, 0)) (some (startLine + n, 0)) none "" (String.singleton mc) ""
  unfold listOpenState
  simp only
  split <;> exact ⟨h0.lines, h0.len, h0.good, h0.line, h0.lm_eq, h0.lineMax, h0.blk_eq, h0.blk_nn, h0.blkIndent, h0.level, h0.li_eq, h0.listIndent, h0.tight, (fun _ => rfl), ⟨[], by simp, by simp⟩⟩

theorem listFinish_sh {tt pp k n W lm li blk spre pre s s'} (h : TR tt pp k n W lm li blk spre pre s s') (ordered : Bool) (mc : Char) (mv startLine : Nat)
    (st : ListSt) (rs' : BState)
    (hst : TR tt true k n W lm li blk (listOpenState s ordered mc mv startLine).tokens (listOpenState s' ordered mc mv (startLine + n)).tokens st.s rs') :
    TR tt pp k n W lm li blk spre pre (listFinish s ordered mc startLine st)
      (listFinish s' ordered mc (startLine + n)
        { s := rs', startLine := st.startLine + n, markerLen := st.markerLen, tight := st.tight, prevEmptyEnd := st.prevEmptyEnd }) := by
  obtain ⟨ts0, a0, b0⟩ := h.tokens
  obtain ⟨its, ai, bi⟩ := hst.tokens
  rw [listOpenState_tokens] at ai bi
  have hlv : rs'.level = st.s.level + k := hst.level
  have tokS : (st.s.pushFull (if ordered then "ordered_list_close" else "bullet_list_close") (if ordered then "ol" else "ul") (-1)
        none none "" (String.singleton mc) "").tokens.modify s.tokens.length (fun t => t.setMap (some (startLine, st.startLine)))
      = s.tokens ++ ([(listOpenTok s ordered mc mv startLine).setMap (some (startLine, st.startLine))] ++ its ++ [listCloseTok ordered mc st.s.level]) := by
    rw [pushFull_tokens, ai]
    simp only [List.append_assoc, List.cons_append, List.nil_append]
    rw [C02.modify_append_len]
    rfl
  have tokS' : (rs'.pushFull (if ordered then "ordered_list_close" else "bullet_list_close") (if ordered then "ol" else "ul") (-1)
        none none "" (String.singleton mc) "").tokens.modify s'.tokens.length (fun t => t.setMap (some (startLine + n, st.startLine + n)))
      = s'.tokens ++ ([(listOpenTok s ordered mc mv startLine).setMap (some (startLine, st.startLine))] ++ its ++ [listCloseTok ordered mc st.s.level]).map (Tok.shift2 k n) := by
    rw [pushFull_tokens, bi]
    simp only [List.append_assoc, List.cons_append, List.nil_append]
    rw [C02.modify_append_len, listOpenTok_shift k n s s' h.level ordered mc mv startLine (some (startLine, st.startLine))
      (some (startLine + n, st.startLine + n)) (shiftM_some rfl rfl)]
    have hc : pushedTok rs' (if ordered then "ordered_list_close" else "bullet_list_close") (if ordered then "ol" else "ul") (-1)
        none none "" (String.singleton mc) "" = (listCloseTok ordered mc st.s.level).shift2 k n := by
      simp only [pushedTok, listCloseTok, Tok.shift2, shiftM, hlv]; congr 1; omega
    rw [hc]
    simp
  generalize ([(listOpenTok s ordered mc mv startLine).setMap (some (startLine, st.startLine))] ++ its ++ [listCloseTok ordered mc st.s.level]) = seg at tokS tokS'
  unfold listFinish
  simp only
  split
  · refine ⟨hst.lines, hst.len, hst.good, rfl, hst.lm_eq, hst.lineMax, hst.blk_eq, hst.blk_nn, hst.blkIndent, ?_, hst.li_eq, hst.listIndent, hst.tight, h.parent, ?_⟩
    · exact level_close_sh k st.s rs' (if ordered then "ordered_list_close" else "bullet_list_close") (if ordered then "ol" else "ul") (String.singleton mc) hlv
    · refine ⟨ts0 ++ markTightGo (st.s.level - 1 + 2) seg.length 2 seg, ?_, ?_⟩
      · show markTight _ s.tokens.length (List.modify _ _ _) = _
        rw [tokS, pushFull_level_close, (markTight_rel k n (st.s.level - 1) s.tokens s'.tokens _).2, a0]
        simp
      · show markTight _ s'.tokens.length (List.modify _ _ _) = _
        rw [tokS', pushFull_level_close, hlv]
        have e : st.s.level + k - 1 = st.s.level - 1 + k := by omega
        rw [e, (markTight_rel k n (st.s.level - 1) s.tokens s'.tokens _).1, b0]
        simp
  · refine ⟨hst.lines, hst.len, hst.good, rfl, hst.lm_eq, hst.lineMax, hst.blk_eq, hst.blk_nn, hst.blkIndent, ?_, hst.li_eq, hst.listIndent, hst.tight, h.parent, ?_⟩
    · exact level_close_sh k st.s rs' (if ordered then "ordered_list_close" else "bullet_list_close") (if ordered then "ol" else "ul") (String.singleton mc) hlv
    · refine ⟨ts0 ++ seg, ?_, ?_⟩
      · show List.modify _ _ _ = _
        rw [tokS, a0]; simp
      · show List.modify _ _ _ = _
        rw [tokS', b0]; simp

/-! ### the list rule and the chains -/

theorem ge_blk_sh {tt pp k n W lm li blk spre pre s s'} (h : TR tt pp k n W lm li blk spre pre s s') {l l' : BLine} (hz : IL W l l') :
    decide (l'.sCount ≥ s'.blkIndent) = decide (l.sCount ≥ s.blkIndent) := by
  rw [hz.sc, h.blkI]; apply decide_eq_decide.2; omega

theorem listTail_sh {k n W} (codeOn : Bool) {terms terms' inner inner' : List BRule} (hts : ShSims k n W terms terms')
    (hin : ShSims k n W inner inner' ∨ inner = []) (mn : Int) {tt pp lm li blk spre pre s s'} (line endLine : Nat) (silent : Bool) (l l' : BLine) (ordered : Bool)
    (mlen : Nat) (m : Bool) (t : BState) (hsr : TR tt pp k n W lm li blk spre pre s s') (hsil : silent = true → pp = true) (hz : IL W l l')
    (hlt : line < endLine) (hle : endLine ≤ lm)
    (h : listTail codeOn terms inner mn s line endLine silent l ordered mlen = .ok (m, t)) :
    ∃ t', listTail codeOn terms' inner' (mn + k) s' (line + n) (endLine + n) silent l' ordered mlen = .ok (m, t') ∧ TR tt pp k n W lm li blk spre pre t t' := by
  have hpt : silent = true → s'.parentType = s.parentType := fun hs => hsr.parent (hsil hs)
  have hterm : (silent && s'.parentType == "paragraph" && decide (l.sCount ≥ s.blkIndent))
      = (silent && s.parentType == "paragraph" && decide (l.sCount ≥ s.blkIndent)) := by
    cases silent with
    | false => rfl
    | true => rw [hpt rfl]
  unfold listTail at h ⊢
  simp only [hz.body, ge_blk_sh hsr hz, hterm] at h ⊢
  by_cases c1 : (ordered && (silent && s.parentType == "paragraph" && decide (l.sCount ≥ s.blkIndent)) && digitsVal (List.take (mlen - 1) l.body) != 1) = true
  · simp only [c1, ↓reduceIte] at h ⊢; sh_same h hsr
  · simp only [c1, Bool.false_eq_true, ↓reduceIte] at h ⊢
    by_cases c2 : (silent && s.parentType == "paragraph" && decide (l.sCount ≥ s.blkIndent) && (List.dropWhile isSpaceTab (List.drop mlen l.body)).isEmpty) = true
    · simp only [c2, ↓reduceIte] at h ⊢; sh_same h hsr
    · simp only [c2, Bool.false_eq_true, ↓reduceIte] at h ⊢
      cases hmc : l.body[mlen - 1]? with
      | none => simp only [hmc] at h; cases h
      | some mc =>
        simp only [hmc] at h ⊢
        cases silent with
        | true => simp only [↓reduceIte] at h ⊢; sh_same h hsr
        | false =>
          simp only [Bool.false_eq_true, ↓reduceIte] at h ⊢
          rw [listRun_eq] at h ⊢
          cases hit : listItems codeOn ordered mc terms inner mn endLine (endLine - line + 1)
              { s := listOpenState s ordered mc (digitsVal (List.take (mlen - 1) l.body)) line, startLine := line, markerLen := mlen, tight := true, prevEmptyEnd := false } with
          | error e => rw [hit] at h; cases h
          | ok st =>
            rw [hit] at h
            obtain ⟨rs', hit', hst⟩ := listItems_sh hts hin codeOn ordered mc mn endLine _ _ _ line mlen true false st
              (listOpenState_sh hsr ordered mc (digitsVal (List.take (mlen - 1) l.body)) line) hle hit
            have e1 : endLine + n - (line + n) + 1 = endLine - line + 1 := by omega
            rw [e1, hit']
            simp only [Except.ok.injEq, Prod.mk.injEq] at h ⊢
            obtain ⟨h1, h2⟩ := h; subst h1; subst h2
            exact ⟨_, ⟨rfl, rfl⟩, listFinish_sh hsr ordered mc _ line st rs' hst⟩

theorem sh_list (k : Int) (n W : Nat) (codeOn : Bool) {terms terms' inner inner' : List BRule} (hts : ShSims k n W terms terms')
    (hin : ShSims k n W inner inner' ∨ inner = []) (mn : Int) :
    ShSim k n W (ruleList codeOn terms inner mn) (ruleList codeOn terms' inner' (mn + k)) := by
  intro tt pp lm li blk spre pre s s' line endLine silent m t hsr hsil hlt hle h
  rw [ruleList_eq] at h ⊢
  obtain ⟨l, hg, h⟩ := getL_cases h
  obtain ⟨l', hg', hz, _, _, hnn⟩ := getL_sh hsr line (line + n) rfl (by omega) l hg
  have cli : (decide (s'.listIndent ≥ 0) && decide (l'.sCount - s'.listIndent ≥ 4) && decide (l'.sCount < s'.blkIndent))
      = (decide (s.listIndent ≥ 0) && decide (l.sCount - s.listIndent ≥ 4) && decide (l.sCount < s.blkIndent)) := by
    rw [hz.sc, hsr.blkI, hsr.li_eq]
    have hb := hsr.blk_nn
    have hbe := hsr.blk_eq
    rcases hsr.listIndent with ⟨h1, h2⟩ | ⟨h1, h2, h3⟩
    · rw [h2]
      have a1 : decide (li + (W : Int) ≥ 0) = decide (li ≥ 0) := by apply decide_eq_decide.2; omega
      have a2 : decide (l.sCount + (W : Int) - (li + W) ≥ 4) = decide (l.sCount - li ≥ 4) := by apply decide_eq_decide.2; omega
      have a3 : decide (l.sCount + (W : Int) < s.blkIndent + W) = decide (l.sCount < s.blkIndent) := by apply decide_eq_decide.2; omega
      rw [a1, a2, a3]
    · rw [h3]
      have a1 : decide (li ≥ 0) = false := by simp; omega
      have a3 : decide (l.sCount + (W : Int) < s.blkIndent + W) = false := by simp; omega
      rw [a1, a3]; simp
  simp only [hg', isCode_sh hsr codeOn hz, cli, skipOrdered_il hz, skipBullet_il hz]
  cases hc : isCodeLine codeOn s l <;> simp only [hc, ↓reduceIte, Bool.false_eq_true] at h ⊢
  · by_cases c1 : (decide (s.listIndent ≥ 0) && decide (l.sCount - s.listIndent ≥ 4) && decide (l.sCount < s.blkIndent)) = true
    · simp only [c1, ↓reduceIte] at h ⊢; sh_same h hsr
    · simp only [c1, Bool.false_eq_true, ↓reduceIte] at h ⊢
      cases ho : skipOrdered l with
      | some mlen =>
        simp only [ho] at h ⊢
        exact listTail_sh codeOn hts hin mn line endLine silent l l' true mlen m t hsr hsil hz hlt hle h
      | none =>
        simp only [ho] at h ⊢
        cases hb : skipBullet l with
        | some mlen =>
          simp only [hb] at h ⊢
          exact listTail_sh codeOn hts hin mn line endLine silent l l' false mlen m t hsr hsil hz hlt hle h
        | none =>
          simp only [hb] at h ⊢
          sh_same h hsr
  · sh_same h hsr

theorem lListTerms_shs (k : Int) (n W : Nat) (c : MiniCfg) (mn : Int) : ShSims k n W (lListTerms c mn) (lListTerms c (mn + k)) := by
  unfold lListTerms
  exact ((ShSims.opt c.fence (sh_fence k n W c.code)).append (.cons (sh_quote k n W c.code _ _ _ _ mn _) .nil)).append
    (ShSims.opt c.hr (sh_hr k n W c.code))

theorem lTerminators_shs (k : Int) (n W : Nat) (c : MiniCfg) (ws : List Nat) (mn : Int) :
    ShSims k n W (lTerminators c ws mn) (lTerminators c ws (mn + k)) := by
  unfold lTerminators
  exact ((((ShSims.opt c.fence (sh_fence k n W c.code)).append (.cons (sh_quote k n W c.code _ _ _ _ mn _) .nil)).append
    (ShSims.opt c.hr (sh_hr k n W c.code))).append (.cons (sh_list k n W c.code .nil (Or.inl .nil) mn) .nil)).append
    (ShSims.opt c.heading (sh_heading k n W c.code ws))

theorem lChain_shs (k : Int) (n W : Nat) (c : MiniCfg) (ws : List Nat) (mn : Int) : ∀ d : Nat,
    ShSims k n W (lChain c ws mn d) (lChain c ws (mn + k) (d + 1)) ∨ lChain c ws mn d = [] := by
  intro d
  induction d with
  | zero => exact Or.inr rfl
  | succ d ih =>
    refine Or.inl ?_
    unfold lChain
    exact ((((((ShSims.opt c.code (sh_code k n W c.code)).append (ShSims.opt c.fence (sh_fence k n W c.code))).append
      (.cons (sh_quote k n W c.code _ _ _ _ mn _) .nil)).append (ShSims.opt c.hr (sh_hr k n W c.code))).append
      (.cons (sh_list k n W c.code (lListTerms_shs k n W c mn) ih mn) .nil)).append
      (ShSims.opt c.heading (sh_heading k n W c.code ws))).append (.cons (sh_paragraph k n W (lTerminators_shs k n W c ws mn) ws) .nil)

end MdIt.C06e
