import MdIt.Pipeline
import MdIt.Props.C02h
/-!
# C02 (continued) — the block-level stream of `MarkdownIt.parse` end to end is levelled, balanced and tree-constructible

The `inline` and `text_join` core rules change nothing of a block token but its `children`; levels and nesting — all that
`levelsOK`, `balancedFrom` and `buildTree`'s success depend on — are those of the block parse (`m_wellformed`).
-/
namespace MdIt.C02

/-- same nesting and level, position by position -/
def SameNL : List Tok → List Tok → Prop
  | [], [] => True
  | a :: as, b :: bs => a.nesting = b.nesting ∧ a.level = b.level ∧ SameNL as bs
  | _, _ => False

theorem SameNL.refl : ∀ l : List Tok, SameNL l l
  | [] => trivial
  | _ :: l => ⟨rfl, rfl, SameNL.refl l⟩

theorem SameNL.trans : ∀ {a b c : List Tok}, SameNL a b → SameNL b c → SameNL a c
  | [], [], [], _, _ => trivial
  | _ :: _, _ :: _, _ :: _, h1, h2 => ⟨h1.1.trans h2.1, h1.2.1.trans h2.2.1, SameNL.trans h1.2.2 h2.2.2⟩
  | [], [], _ :: _, _, h2 => by cases h2
  | [], _ :: _, _, h1, _ => by cases h1
  | _ :: _, [], _, h1, _ => by cases h1
  | _ :: _, _ :: _, [], _, h2 => by cases h2

theorem levelsOK_congr : ∀ (a b : List Tok) (d : Int), SameNL a b → (levelsOK d a ↔ levelsOK d b)
  | [], [], _, _ => Iff.rfl
  | x :: xs, y :: ys, d, h => by
    simp only [levelsOK]
    rw [h.1, h.2.1]
    exact and_congr Iff.rfl (levelsOK_congr xs ys _ h.2.2)
  | [], _ :: _, _, h => by cases h
  | _ :: _, [], _, h => by cases h

theorem depthAfter_congr : ∀ (a b : List Tok) (d : Int), SameNL a b → depthAfter d a = depthAfter d b
  | [], [], _, _ => rfl
  | x :: xs, y :: ys, d, h => by
    simp only [depthAfter]
    rw [h.1]
    exact depthAfter_congr xs ys _ h.2.2
  | [], _ :: _, _, h => by cases h
  | _ :: _, [], _, h => by cases h

theorem balancedFrom_congr : ∀ (a b : List Tok) (d : Int), SameNL a b → balancedFrom d a = balancedFrom d b
  | [], [], _, _ => rfl
  | x :: xs, y :: ys, d, h => by
    simp only [balancedFrom]
    rw [h.1, balancedFrom_congr xs ys _ h.2.2]
  | [], _ :: _, _, h => by cases h
  | _ :: _, [], _, h => by cases h

theorem setChildren_nl (t : Tok) (c : Option (List Tok)) : (t.setChildren c).nesting = t.nesting ∧ (t.setChildren c).level = t.level := by
  cases t; exact ⟨rfl, rfl⟩

theorem coreInline_sameNL (parse : List Char → Except PyErr (List Tok)) : ∀ (bts ts : List Tok), coreInline parse bts = .ok ts → SameNL ts bts := by
  intro bts
  induction bts with
  | nil => intro ts h; simp only [coreInline, Except.ok.injEq] at h; subst h; trivial
  | cons b rest ih =>
    intro ts h
    unfold coreInline at h
    split at h
    · cases hp : parse b.content.toList with
      | error e => rw [hp] at h; cases h
      | ok cs =>
        rw [hp] at h
        simp only at h
        cases hr : coreInline parse rest with
        | error e => rw [hr] at h; cases h
        | ok r =>
          rw [hr] at h
          simp only [Except.ok.injEq] at h
          subst h
          exact ⟨(setChildren_nl b _).1, (setChildren_nl b _).2, ih r hr⟩
    · cases hr : coreInline parse rest with
      | error e => rw [hr] at h; cases h
      | ok r =>
        rw [hr] at h
        simp only [Except.ok.injEq] at h
        subst h
        exact ⟨rfl, rfl, ih r hr⟩

theorem textJoin_sameNL : ∀ ts : List Tok, SameNL (textJoin ts) ts := by
  intro ts
  unfold textJoin
  induction ts with
  | nil => trivial
  | cons t rest ih =>
    simp only [List.map_cons]
    refine ⟨?_, ?_, ih⟩
    · split
      · exact (setChildren_nl t _).1
      · rfl
    · split
      · exact (setChildren_nl t _).2
      · rfl

/-- **C02.full_top_wellformed** — the top-level stream `MarkdownIt.parse` returns (modelled sub-language: nine of eleven block rules,
the `inline` and `text_join` core rules on or off, any inline configuration): levels start at 0 and follow the nestings, the stream
is balanced, ends at depth 0, and `SyntaxTreeNode` builds — for every source, rule subsets, `html`, `maxNesting`. -/
theorem full_top_wellformed (cls : QCls) (ext : IExt) (lx : LExt) (bc : MCfg) (ic : ICfg) (ws : List Nat) (mn : Int) (d : Nat) (src : List Char)
    (ts : List Tok) (h : fullParse cls ext lx bc ic ws mn d src = .ok ts) :
    levelsOK 0 ts ∧ depthAfter 0 ts = 0 ∧ balancedFrom 0 ts = true ∧ ∃ f, buildTree ts = .ok f := by
  unfold fullParse at h
  cases hb : mParse bc ws mn src with
  | error e => rw [hb] at h; cases h
  | ok bts =>
    rw [hb] at h
    simp only at h
    obtain ⟨w1, w2, w3, _⟩ := m_wellformed bc ws mn src bts hb
    have hsame : SameNL ts bts := by
      cases hc : (if ic.inlineOn = true then coreInline (inlineOf cls ext lx ic mn d) bts else Except.ok bts) with
      | error e => rw [hc] at h; cases h
      | ok its =>
        rw [hc] at h
        simp only [Except.ok.injEq] at h
        have h1 : SameNL its bts := by
          split at hc
          · exact coreInline_sameNL _ bts its hc
          · simp only [Except.ok.injEq] at hc; subst hc; exact SameNL.refl _
        subst h
        split
        · exact (textJoin_sameNL its).trans h1
        · exact h1
    have hbal : balancedFrom 0 ts = true := by rw [balancedFrom_congr ts bts 0 hsame]; exact w3
    exact ⟨(levelsOK_congr ts bts 0 hsame).2 w1, by rw [depthAfter_congr ts bts 0 hsame]; exact w2, hbal, tree_of_balanced ts hbal⟩

end MdIt.C02
