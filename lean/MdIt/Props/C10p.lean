import MdIt.Pipeline
/-!
# C10 (continued) — the model with the `table` rule switched off *is* the ten-rule model

`tChain_off`: with `table = false` the eleven-rule chain is, rule for rule and at every depth budget, the chain `rChain` of
`MdIt/BlockRef.lean` (the table rule is absent from the main chain and from the terminator chains of `paragraph`, `reference`,
`lheading`); hence `tParse_off` / `fullParseT_off`: the parse is the ten-rule parse.  Every theorem about `rParse` / `fullParseR`
(`C16.reference_contract`, `C05.fullR_hrefs`, `C17.fullR_line_endings` …) therefore is a theorem about the full model with the switch
off — the switch has exactly its documented effect on the model, nothing else depends on it.
-/
namespace MdIt.C10

theorem tParaTerms_off (c : TCfg) (h : c.table = false) (ws : List Nat) (mn : Int) : tParaTerms c ws mn = mTerminators c.toMCfg ws mn := by
  simp [tParaTerms, h]

theorem tChain_off (ext : IExt) (lx : LExt) (c : TCfg) (h : c.table = false) (ws : List Nat) (mn : Int) :
    ∀ d : Nat, tChain ext lx c ws mn d = rChain ext lx c.toRCfg ws mn d := by
  intro d
  induction d with
  | zero => rfl
  | succ d ih =>
    simp only [tChain, rChain, h, Bool.false_eq_true, if_false, List.nil_append, tParaTerms_off c h, ih]

theorem tParse_off (ext : IExt) (lx : LExt) (c : TCfg) (h : c.table = false) (ws : List Nat) (mn : Int) (src : List Char) :
    tParse ext lx c ws mn src = rParse ext lx c.toRCfg ws mn src := by
  unfold tParse rParse
  rw [tChain_off ext lx c h]

/-- **C10.fullParseT_off** — `MarkdownIt.parse` on the model with all eleven block rules, the table rule switched off, is the ten-rule
    pipeline: same tokens, same children, same recorded env entries -/
theorem fullParseT_off (cls : QCls) (ext : IExt) (lx : LExt) (tc : TCfg) (h : tc.table = false) (ic : ICfg) (ws : List Nat) (mn : Int) (d : Nat)
    (src : List Char) : fullParseT cls ext lx tc ic ws mn d src = fullParseR cls ext lx tc.toRCfg ic ws mn d src := by
  unfold fullParseT fullParseR
  rw [tParse_off ext lx tc h]

/-! ### further down: `reference` off gives the nine-rule chain, `html_block` and `lheading` off the seven-rule chain of the laws -/

theorem rChain_off (ext : IExt) (lx : LExt) (c : RCfg) (h : c.reference = false) (ws : List Nat) (mn : Int) :
    ∀ d : Nat, rChain ext lx c ws mn d = mChain c.toMCfg ws mn d := by
  intro d
  induction d with
  | zero => rfl
  | succ d ih => simp only [rChain, mChain, h, Bool.false_eq_true, if_false, List.append_nil, ih]

theorem mTerminators_off (c : MCfg) (h1 : c.htmlBlock = false) (ws : List Nat) (mn : Int) :
    mTerminators c ws mn = lTerminators c.toMiniCfg ws mn := by
  simp [mTerminators, lTerminators, h1]

theorem mChain_off (c : MCfg) (h1 : c.htmlBlock = false) (h2 : c.lheading = false) (ws : List Nat) (mn : Int) :
    ∀ d : Nat, mChain c ws mn d = lChain c.toMiniCfg ws mn d := by
  intro d
  induction d with
  | zero => rfl
  | succ d ih =>
    simp only [mChain, lChain, h1, h2, Bool.false_eq_true, if_false, List.append_nil, mTerminators_off c h1, mListTerms, ih]

/-- the token list of a block parse -/
def tokensOf (r : Except PyErr BState) : Except PyErr (List Tok) :=
  match r with
  | .ok s => .ok s.tokens
  | .error e => .error e

/-- **C10.tParse_restricts** — the block parse of the full model with `table`, `reference`, `html_block` and `lheading` switched off is
    the parse of the seven-rule sub-parser `lParse`: the container laws (`C06.l_quote_law`, `C06.list_law`), the concatenation law
    (`C07.l_concat_law`) and every other theorem stated for a sub-parser are theorems about the one model with the corresponding
    switches off -/
theorem tParse_restricts (ext : IExt) (lx : LExt) (c : TCfg) (h0 : c.table = false) (h1 : c.reference = false) (h2 : c.htmlBlock = false)
    (h3 : c.lheading = false) (ws : List Nat) (mn : Int) (src : List Char) :
    tokensOf (tParse ext lx c ws mn src) = lParse c.toMiniCfg ws mn src := by
  rw [tParse_off ext lx c h0]
  unfold tokensOf rParse lParse
  rw [rChain_off ext lx c.toRCfg h1, mChain_off c.toMCfg h2 h3]
  simp only
  by_cases he : src.isEmpty = true
  · simp [he, initBState]
  · simp only [he, if_false]
    cases blockTokenize (lChain c.toMiniCfg ws mn (mn.toNat + 1)) mn (initBState (normalize src)) 0 (initBState (normalize src)).lineMax <;> rfl

end MdIt.C10
