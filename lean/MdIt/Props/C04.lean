import MdIt.Render
import MdIt.Generated.Tables
/-!
# C04 — with raw HTML off, output is well-formed and contains only renderer-made markup

Model: `MdIt/Render.lean`.  What is proved here, for *every* token stream (not only parser output):

* `escapeHtml_eq`, `escapeHtml_units`, `escapeHtml_no_meta`: the four sequential `str.replace` passes
  equal one per-character pass; the result is a sequence of units, each a non-metacharacter or one of
  `&amp; &lt; &gt; &quot;` — no `<`, `>`, `"` survives and every `&` starts one of those four entities.
* `render_pieces`: the output is the flattening of pieces — tags (`<`/`</` name, attributes
  ` k="v"` with k, v escaped, optional ` /`, `>`), escaped text, the renderer's own newlines, and raw
  pass-through only for `html_block`/`html_inline` tokens.
* `no_raw`: a stream without those two token kinds renders without any raw piece: every character that
  originates from token data (content, attribute keys and values, info) goes through `escapeHtml`.
* `vocab`: every tag name is a token's `tag` or one of `pre code br`; every attribute name is a
  token's attribute key or `alt`/`class`.
-/
namespace MdIt.C04

theorem replaceChar_flatMap (c : Char) (b : List Char) (f : Char → List Char) (s : List Char) :
    replaceChar c b (s.flatMap f) = s.flatMap (fun x => replaceChar c b (f x)) := by
  simp [replaceChar, List.flatMap_assoc]

/-- the four sequential passes equal one per-character pass -/
theorem escapeHtml_eq (s : List Char) : escapeHtml s = s.flatMap escChar := by
  unfold escapeHtml
  rw [show replaceChar '&' "&amp;".toList s = s.flatMap (fun x => if x = '&' then "&amp;".toList else [x]) from rfl]
  rw [replaceChar_flatMap, replaceChar_flatMap, replaceChar_flatMap]
  congr 1
  funext x
  unfold escChar replaceChar
  by_cases h1 : x = '&'
  · subst h1; decide
  · by_cases h2 : x = '<'
    · subst h2; decide
    · by_cases h3 : x = '>'
      · subst h3; decide
      · by_cases h4 : x = '"'
        · subst h4; decide
        · simp [h1, h2, h3, h4]

/-- lexical units of escaped text -/
inductive EUnit where
  | plain (c : Char) (h : c ≠ '&' ∧ c ≠ '<' ∧ c ≠ '>' ∧ c ≠ '"')
  | amp | lt | gt | quot

def EUnit.str : EUnit → List Char
  | .plain c _ => [c]
  | .amp => "&amp;".toList
  | .lt => "&lt;".toList
  | .gt => "&gt;".toList
  | .quot => "&quot;".toList

def unitOf (x : Char) : EUnit :=
  if h1 : x = '&' then .amp else if h2 : x = '<' then .lt else if h3 : x = '>' then .gt
  else if h4 : x = '"' then .quot else .plain x ⟨h1, h2, h3, h4⟩

/-- **escapeHtml_units** — escaped text is, character for character of the input, a plain
non-metacharacter or one of the four entities: an input character can neither open a tag, close an
attribute value, nor start an entity of its own. -/
theorem escapeHtml_units (s : List Char) : escapeHtml s = (s.map unitOf).flatMap EUnit.str := by
  rw [escapeHtml_eq, List.flatMap_map]
  congr 1
  funext x
  unfold escChar unitOf
  by_cases h1 : x = '&'
  · simp [h1, EUnit.str]
  · by_cases h2 : x = '<'
    · simp [h2, EUnit.str]
    · by_cases h3 : x = '>'
      · simp [h3, EUnit.str]
      · by_cases h4 : x = '"'
        · simp [h4, EUnit.str]
        · simp [h1, h2, h3, h4, EUnit.str]

theorem escapeHtml_no_meta (s : List Char) : ∀ c ∈ escapeHtml s, c ≠ '<' ∧ c ≠ '>' ∧ c ≠ '"' := by
  rw [escapeHtml_units]
  intro c hc
  simp only [List.mem_flatMap, List.mem_map] at hc
  obtain ⟨u, ⟨x, _, rfl⟩, hx⟩ := hc
  unfold unitOf at hx
  split at hx
  · revert c; decide
  · split at hx
    · revert c; decide
    · split at hx
      · revert c; decide
      · split at hx
        · revert c; decide
        · rename_i h1 h2 h3 h4
          simp [EUnit.str] at hx; subst hx; exact ⟨h2, h3, h4⟩

/-! ### pieces -/

/-- **render_pieces** — by definition of the model (and checked against the real renderer by T2):
the rendered string is the flattening of the piece list. -/
theorem render_pieces (x : Ext) (o : ROpts) (ts : List Tok) (s : List Char) (h : render x o ts = .ok s) :
    ∃ ps, renderP x o none ts = .ok ps ∧ s = ps.flatMap Piece.str := by
  unfold render at h
  cases hp : renderP x o none ts with
  | error e => rw [hp] at h; cases h
  | ok ps => rw [hp] at h; exact ⟨ps, rfl, by cases h; rfl⟩

/-- generic lifting: a property of the pieces of single tokens holds for rendered lists -/
theorem renderInlineP_forall (x : Ext) (o : ROpts) (P : Piece → Prop) (Q : Tok → Prop)
    (hQ : ∀ prev t next ps, Q t → renderOne x o prev t next = .ok ps → ∀ p ∈ ps, P p) :
    ∀ (ts : List Tok) (prev : Option Tok) (ps : List Piece), (∀ t ∈ ts, Q t) →
      renderInlineP x o prev ts = .ok ps → ∀ p ∈ ps, P p := by
  intro ts
  induction ts with
  | nil => intro prev ps _ h; simp [renderInlineP] at h; subst h; simp
  | cons t rest ih =>
    intro prev ps hq h
    simp only [renderInlineP, seqE] at h
    cases h1 : renderOne x o prev t rest.head? with
    | error e => rw [h1] at h; cases h
    | ok p1 =>
      rw [h1] at h
      cases h2 : renderInlineP x o (some t) rest with
      | error e => rw [h2] at h; cases h
      | ok p2 =>
        rw [h2] at h
        simp only [Except.ok.injEq] at h; subst h
        intro p hp
        rcases List.mem_append.1 hp with hp | hp
        · exact hQ prev t _ p1 (hq t (by simp)) h1 p hp
        · exact ih (some t) p2 (fun u hu => hq u (by simp [hu])) h2 p hp

/-- all tokens the renderer looks at: the stream and the children of its `inline` tokens -/
def visible : List Tok → List Tok
  | [] => []
  | t :: ts => (if t.type == "inline" then (t.children.getD []) else [t]) ++ visible ts

theorem renderP_forall (x : Ext) (o : ROpts) (P : Piece → Prop) (Q : Tok → Prop)
    (hQ : ∀ prev t next ps, Q t → renderOne x o prev t next = .ok ps → ∀ p ∈ ps, P p) :
    ∀ (ts : List Tok) (prev : Option Tok) (ps : List Piece), (∀ t ∈ visible ts, Q t) →
      renderP x o prev ts = .ok ps → ∀ p ∈ ps, P p := by
  intro ts
  induction ts with
  | nil => intro prev ps _ h; simp [renderP] at h; subst h; simp
  | cons t rest ih =>
    intro prev ps hq h
    simp only [renderP, seqE] at h
    have hrest : ∀ u ∈ visible rest, Q u := fun u hu => hq u (by simp [visible, hu])
    by_cases hin : (t.type == "inline") = true
    · simp only [hin, if_true] at h
      have hkids : ∀ u ∈ t.children.getD [], Q u := fun u hu => hq u (by simp [visible, hin, hu])
      cases hc : t.children with
      | none =>
        rw [hc] at h
        cases h2 : renderP x o (some t) rest with
        | error e => rw [h2] at h; cases h
        | ok p2 =>
          rw [h2] at h; simp only [List.nil_append, Except.ok.injEq] at h; subst h
          exact ih (some t) p2 hrest h2
      | some cs =>
        rw [hc] at h hkids
        cases cs with
        | nil =>
          cases h2 : renderP x o (some t) rest with
          | error e => rw [h2] at h; cases h
          | ok p2 =>
            rw [h2] at h; simp only [List.nil_append, Except.ok.injEq] at h; subst h
            exact ih (some t) p2 hrest h2
        | cons c cs' =>
          simp only at h
          cases h1 : renderInlineP x o none (c :: cs') with
          | error e => rw [h1] at h; cases h
          | ok p1 =>
            rw [h1] at h
            cases h2 : renderP x o (some t) rest with
            | error e => rw [h2] at h; cases h
            | ok p2 =>
              rw [h2] at h; simp only [Except.ok.injEq] at h; subst h
              intro p hp
              rcases List.mem_append.1 hp with hp | hp
              · exact renderInlineP_forall x o P Q hQ _ none p1 (by simpa using hkids) h1 p hp
              · exact ih (some t) p2 hrest h2 p hp
    · simp only [hin, Bool.false_eq_true, if_false] at h
      have hqt : Q t := hq t (by simp [visible, hin])
      cases h1 : renderOne x o prev t rest.head? with
      | error e => rw [h1] at h; cases h
      | ok p1 =>
        rw [h1] at h
        cases h2 : renderP x o (some t) rest with
        | error e => rw [h2] at h; cases h
        | ok p2 =>
          rw [h2] at h; simp only [Except.ok.injEq] at h; subst h
          intro p hp
          rcases List.mem_append.1 hp with hp | hp
          · exact hQ prev t _ p1 hqt h1 p hp
          · exact ih (some t) p2 hrest h2 p hp

def isRaw : Piece → Bool
  | .raw _ => true
  | _ => false

theorem renderTokenP_no_raw (o : ROpts) (prev : Option Tok) (t : Tok) (next : Option Tok) :
    ∀ p ∈ renderTokenP o prev t next, isRaw p = false := by
  intro p hp
  unfold renderTokenP at hp
  split at hp
  · simp at hp
  · simp only [List.mem_append, List.mem_singleton] at hp
    rcases hp with (hp | hp) | hp
    · cases prev with
      | none => simp at hp
      | some q => simp only at hp; split at hp <;> simp at hp; subst hp; rfl
    · subst hp; rfl
    · split at hp <;> simp at hp
      rw [hp.2]; rfl

theorem renderOne_no_raw (x : Ext) (o : ROpts) (prev : Option Tok) (t : Tok) (next : Option Tok)
    (ps : List Piece) (hq : (t.type == "html_block" || t.type == "html_inline") = false)
    (h : renderOne x o prev t next = .ok ps) : ∀ p ∈ ps, isRaw p = false := by
  unfold renderOne at h
  split at h
  · simp only [Except.ok.injEq] at h; subst h; intro p hp; simp at hp; rcases hp with rfl | rfl | rfl <;> rfl
  · split at h
    · simp only [Except.ok.injEq] at h; subst h; intro p hp; simp at hp
      rcases hp with rfl | rfl | rfl | rfl | rfl | rfl <;> rfl
    · split at h
      · split at h
        · split at h
          · cases h
          · simp only [Except.ok.injEq] at h; subst h; intro p hp; simp at hp
            rcases hp with rfl | rfl | rfl | rfl | rfl | rfl <;> rfl
        · simp only [Except.ok.injEq] at h; subst h; intro p hp; simp at hp
          rcases hp with rfl | rfl | rfl | rfl | rfl | rfl <;> rfl
      · split at h
        · simp only [Except.ok.injEq] at h; subst h; exact renderTokenP_no_raw o prev _ next
        · split at h
          · simp only [Except.ok.injEq] at h; subst h; intro p hp; simp [br] at hp; rcases hp with rfl | rfl <;> rfl
          · split at h
            · simp only [Except.ok.injEq] at h; subst h; intro p hp
              split at hp
              · simp [br] at hp; rcases hp with rfl | rfl <;> rfl
              · simp at hp; subst hp; rfl
            · split at h
              · simp only [Except.ok.injEq] at h; subst h; intro p hp; simp at hp; subst hp; rfl
              · split at h
                · rename_i hh; rw [hq] at hh; cases hh
                · split at h
                  · simp only [Except.ok.injEq] at h; subst h; intro p hp; simp at hp
                  · simp only [Except.ok.injEq] at h; subst h; exact renderTokenP_no_raw o prev t next

/-- **C04.no_raw** — if neither the stream nor the children of its inline tokens contain an
`html_block` / `html_inline` token, no piece of the output is raw pass-through: all input-derived
characters appear escaped (in text) or escaped inside a quoted attribute value. -/
theorem no_raw (x : Ext) (o : ROpts) (ts : List Tok) (ps : List Piece)
    (hq : ∀ t ∈ visible ts, (t.type == "html_block" || t.type == "html_inline") = false)
    (h : renderP x o none ts = .ok ps) : ∀ p ∈ ps, isRaw p = false :=
  renderP_forall x o (fun p => isRaw p = false)
    (fun t => (t.type == "html_block" || t.type == "html_inline") = false)
    (fun prev t next ps hq h => renderOne_no_raw x o prev t next ps hq h) ts none ps hq h


/-! ### vocabulary -/

theorem dictSet_keys {β} (d : List (String × β)) (k : String) (v : β) :
    ∀ kv ∈ dictSet d k v, kv.1 = k ∨ kv ∈ d := by
  intro kv h
  unfold dictSet at h
  split at h
  · simp only [List.mem_map] at h
    obtain ⟨p, hp, rfl⟩ := h
    by_cases hk : (p.1 == k) = true
    · simp [hk]
    · simp only [hk, Bool.false_eq_true, if_false]; exact Or.inr hp
  · simp only [List.mem_append, List.mem_singleton] at h
    rcases h with h | h
    · exact Or.inr h
    · subst h; exact Or.inl rfl

/-- a piece uses only tag names satisfying `N` and attribute names satisfying `K` -/
def PieceVocab (N K : List Char → Prop) : Piece → Prop
  | .tag _ name attrs _ => N name ∧ ∀ kv ∈ attrs, K kv.1
  | _ => True

def TokVocab (N K : List Char → Prop) (t : Tok) : Prop :=
  N t.tag.toList ∧ ∀ kv ∈ t.attrs, K kv.1.toList

theorem attrsP_keys (K : List Char → Prop) (attrs : List (String × AttrVal))
    (h : ∀ kv ∈ attrs, K kv.1.toList) : ∀ kv ∈ attrsP attrs, K kv.1 := by
  intro kv hkv
  simp only [attrsP, List.mem_map] at hkv
  obtain ⟨a, ha, rfl⟩ := hkv
  exact h a ha

theorem renderTokenP_vocab (N K : List Char → Prop) (o : ROpts) (prev : Option Tok) (t : Tok)
    (next : Option Tok) (ht : TokVocab N K t) : ∀ p ∈ renderTokenP o prev t next, PieceVocab N K p := by
  intro p hp
  unfold renderTokenP at hp
  split at hp
  · simp at hp
  · simp only [List.mem_append, List.mem_singleton] at hp
    rcases hp with (hp | hp) | hp
    · cases prev with
      | none => simp at hp
      | some q => simp only at hp; split at hp <;> simp at hp; subst hp; trivial
    · subst hp; exact ⟨ht.1, attrsP_keys K _ ht.2⟩
    · split at hp <;> simp at hp
      rw [hp.2]; trivial

theorem setAlt_vocab (N K : List Char → Prop) (t : Tok) (ht : TokVocab N K t) (halt : K "alt".toList) :
    TokVocab N K (setAlt t) := by
  cases t with
  | mk type tag nesting attrs map level children content markup info metaD block hidden =>
    simp only [setAlt, TokVocab, Tok.tag, Tok.attrs] at ht ⊢
    refine ⟨ht.1, ?_⟩
    intro kv hkv
    rcases dictSet_keys _ _ _ kv hkv with h | h
    · rw [h]; exact halt
    · exact ht.2 kv h

theorem renderOne_vocab (N K : List Char → Prop) (x : Ext) (o : ROpts) (prev : Option Tok) (t : Tok)
    (next : Option Tok) (ps : List Piece) (ht : TokVocab N K t)
    (hpre : N "pre".toList) (hcode : N "code".toList) (hbr : N "br".toList)
    (halt : K "alt".toList) (hclass : K "class".toList)
    (h : renderOne x o prev t next = .ok ps) : ∀ p ∈ ps, PieceVocab N K p := by
  have hk := attrsP_keys K _ ht.2
  have nil_ok : ∀ kv ∈ ([] : List (List Char × List Char)), K kv.1 := by intro kv h; cases h
  unfold renderOne at h
  split at h
  · simp only [Except.ok.injEq] at h; subst h; intro p hp; simp at hp
    rcases hp with rfl | rfl | rfl
    · exact ⟨hcode, hk⟩
    · trivial
    · exact ⟨hcode, nil_ok⟩
  · split at h
    · simp only [Except.ok.injEq] at h; subst h; intro p hp; simp at hp
      rcases hp with rfl | rfl | rfl | rfl | rfl | rfl
      · exact ⟨hpre, hk⟩
      · exact ⟨hcode, nil_ok⟩
      · trivial
      · exact ⟨hcode, nil_ok⟩
      · exact ⟨hpre, nil_ok⟩
      · trivial
    · split at h
      · split at h
        · rename_i lang _
          split at h
          · cases h
          · rename_i a ha
            simp only [Except.ok.injEq] at h; subst h
            have hka : ∀ kv ∈ attrsP a, K kv.1 := by
              apply attrsP_keys
              intro kv hkv
              unfold attrJoinClass at ha
              split at ha
              · simp only [Except.ok.injEq] at ha; subst ha
                rcases dictSet_keys _ _ _ kv hkv with h | h
                · rw [h]; exact hclass
                · exact ht.2 kv h
              · cases ha
              · simp only [Except.ok.injEq] at ha; subst ha
                rcases dictSet_keys _ _ _ kv hkv with h | h
                · rw [h]; exact hclass
                · exact ht.2 kv h
            intro p hp; simp at hp
            rcases hp with rfl | rfl | rfl | rfl | rfl | rfl
            · exact ⟨hpre, nil_ok⟩
            · exact ⟨hcode, hka⟩
            · trivial
            · exact ⟨hcode, nil_ok⟩
            · exact ⟨hpre, nil_ok⟩
            · trivial
        · simp only [Except.ok.injEq] at h; subst h; intro p hp; simp at hp
          rcases hp with rfl | rfl | rfl | rfl | rfl | rfl
          · exact ⟨hpre, nil_ok⟩
          · exact ⟨hcode, hk⟩
          · trivial
          · exact ⟨hcode, nil_ok⟩
          · exact ⟨hpre, nil_ok⟩
          · trivial
      · split at h
        · simp only [Except.ok.injEq] at h; subst h
          exact renderTokenP_vocab N K o prev _ next (setAlt_vocab N K t ht halt)
        · split at h
          · simp only [Except.ok.injEq] at h; subst h; intro p hp; simp [br] at hp
            rcases hp with rfl | rfl
            · exact ⟨hbr, nil_ok⟩
            · trivial
          · split at h
            · simp only [Except.ok.injEq] at h; subst h; intro p hp
              split at hp
              · simp [br] at hp
                rcases hp with rfl | rfl
                · exact ⟨hbr, nil_ok⟩
                · trivial
              · simp at hp; subst hp; trivial
            · split at h
              · simp only [Except.ok.injEq] at h; subst h; intro p hp; simp at hp; subst hp; trivial
              · split at h
                · simp only [Except.ok.injEq] at h; subst h; intro p hp; simp at hp; subst hp; trivial
                · split at h
                  · simp only [Except.ok.injEq] at h; subst h; intro p hp; simp at hp
                  · simp only [Except.ok.injEq] at h; subst h; exact renderTokenP_vocab N K o prev t next ht

/-- **C04.vocab** — every tag name in the output is the `tag` of a token of the stream (or one of the
renderer's fixed `pre`, `code`, `br`), and every attribute name is an attribute key of a token (or
`alt`, `class`): no element or attribute name can come from anywhere else — in particular not from
token *content*.  With T1's table of the `(type, tag)` vocabulary of every `push(..)` site this gives
the fixed element/attribute vocabulary of the property. -/
theorem vocab (N K : List Char → Prop) (x : Ext) (o : ROpts) (ts : List Tok) (ps : List Piece)
    (hq : ∀ t ∈ visible ts, TokVocab N K t)
    (hpre : N "pre".toList) (hcode : N "code".toList) (hbr : N "br".toList)
    (halt : K "alt".toList) (hclass : K "class".toList)
    (h : renderP x o none ts = .ok ps) : ∀ p ∈ ps, PieceVocab N K p :=
  renderP_forall x o (PieceVocab N K) (TokVocab N K)
    (fun prev t next ps ht h => renderOne_vocab N K x o prev t next ps ht hpre hcode hbr halt hclass h)
    ts none ps hq h

/-- the property's fixed vocabulary -/
def Elements : List String :=
  ["p", "h1", "h2", "h3", "h4", "h5", "h6", "blockquote", "ul", "ol", "li", "pre", "code", "em", "strong", "s",
   "a", "img", "br", "hr", "table", "thead", "tbody", "tr", "th", "td"]
def Attrs : List String := ["href", "title", "src", "alt", "start", "style", "class"]

/-- **T1 obligation** — every tag literal at a token-producing site of the *current* source is an
element of the fixed vocabulary (or empty: text/inline/html/definition tokens, which never reach
`renderToken`), every attribute key literal is in the fixed attribute set.  Re-checked whenever the
source changes (the table is regenerated before every build). -/
theorem table_tags : ∀ t ∈ Gen.pushTags, t = "" ∨ t ∈ Elements := by decide
theorem table_keys : ∀ k ∈ Gen.attrKeys, k ∈ Attrs := by decide

/-- `vocab` instantiated with the fixed vocabulary: if every visible token's tag is an element name
and its attribute keys are attribute names, so is every tag and attribute of the output. -/
theorem vocab_fixed (x : Ext) (o : ROpts) (ts : List Tok) (ps : List Piece)
    (hq : ∀ t ∈ visible ts, t.tag ∈ Elements ∧ ∀ kv ∈ t.attrs, kv.1 ∈ Attrs)
    (h : renderP x o none ts = .ok ps) :
    ∀ p ∈ ps, PieceVocab (fun n => String.ofList n ∈ Elements) (fun k => String.ofList k ∈ Attrs) p :=
  vocab _ _ x o ts ps (fun t ht => ⟨by simpa using (hq t ht).1, fun kv hkv => by simpa using (hq t ht).2 kv hkv⟩)
    (by decide) (by decide) (by decide) (by decide) (by decide) h

/-! non-vacuity: a concrete stream (a paragraph holding text with all four metacharacters and an image) -/
def demoToks : List Tok :=
  [.mk "paragraph_open" "p" 1 [] (some (0, 1)) 0 none "" "" "" [] true false,
   .mk "inline" "" 0 [] (some (0, 1)) 1 (some [
      .mk "text" "" 0 [] none 0 none "a<b>&\"" "" "" [] false false,
      .mk "image" "img" 0 [("src", .s "u"), ("alt", .s "")] none 0 (some [.mk "text" "" 0 [] none 0 none "x\"y" "" "" [] false false]) "" "" "" [] false false])
      "" "" "" [] true false,
   .mk "paragraph_close" "p" (-1) [] none 0 none "" "" "" [] true false]

def okStr : Except PyErr (List Char) → String
  | .ok s => String.ofList s
  | .error _ => "error"

example : okStr (render ⟨fun _ => none⟩ ⟨false, false, "language-".toList⟩ demoToks)
    = "<p>a&lt;b&gt;&amp;&quot;<img src=\"u\" alt=\"x&quot;y\"></p>\n" := by decide

end MdIt.C04
