import MdIt.Props.C10g
import MdIt.Props.C10n
/-!
# C10 (continued) — provenance of every token of `MarkdownIt.parse` with the `table` rule, end to end

`t_provenance` (block side) and the deep token engine of `C10g` (inline side, every depth) through the core chain: **`fullT_types`** /
**`fullT_provenance`** — every top-level token has a type of the enabled block rules' vocabulary (table tokens only with the table rule),
every token below an `inline` token (table cells included) a type of the enabled inline rules' vocabulary.
-/
namespace MdIt.C10
open MdIt.C01 MdIt.C05

theorem fullT_types (cls : QCls) (ext : IExt) (lx : LExt) (tc : TCfg) (hnr : tc.reference = false) (ic : ICfg) (hon : ic.inlineOn = true)
    {Q : String → Prop}
    (hT : Q "text") (hLk : ic.link = true → Q "link_open" ∧ Q "link_close") (hIm : ic.image = true → Q "image")
    (hE : ∀ ty ∈ emphTypes ic.strike ic.emphasis, Q ty)
    (hF : TyLeaf Q ext.html ic.newline ic.escape ic.backticks ic.autolink ic.htmlInline ic.entity)
    (ws : List Nat) (mn : Int) (d : Nat) (src : List Char) (ts : List Tok) (refs dups)
    (h : fullParseT cls ext lx tc ic ws mn d src = .ok (ts, refs, dups)) :
    ∀ t ∈ ts, t.type ∈ tAllowed tc ∧ (t.type = "inline" → ∀ x ∈ descOpt t.children, Q x.type) := by
  unfold fullParseT at h
  cases hb : tParse ext lx tc ws mn src with
  | error e => rw [hb] at h; cases h
  | ok st =>
    rw [hb] at h
    simp only [hon, if_true] at h
    cases hc : coreInline (inlineOf cls ext (envAfter lx st) ic mn d) st.tokens with
    | error e => rw [hc] at h; cases h
    | ok its =>
      rw [hc] at h
      simp only [Except.ok.injEq, Prod.mk.injEq] at h
      obtain ⟨h, _, _⟩ := h
      have hprov := t_provenance ext lx tc hnr ws mn src st hb
      have hparse : ∀ c cs, inlineOf cls ext (envAfter lx st) ic mn d c = .ok cs → ∀ x ∈ descList cs, Q x.type := by
        intro c cs hp
        unfold inlineOf at hp
        exact deep_list cs (imgParse_toksD cls ext (envAfter lx st) ic.text ic.newline ic.escape ic.backticks ic.strike ic.emphasis ic.link ic.image
          ic.autolink ic.htmlInline ic.entity ic.fragJoin mn (fun _ _ => tyDeep_flat _ rfl hT)
          (fun hl => ty_linkN ext (envAfter lx st) hT (hLk hl).1 (hLk hl).2) (fun hi => ty_imageN ext (envAfter lx st) hT (hIm hi))
          (ty_leafN ext ic.newline ic.escape ic.backticks ic.autolink ic.htmlInline ic.entity hF)
          (deep_closed (ty_closed _ hT hE)) d c cs hp)
      have h1 := coreInline_deep (N := fun t => Q t.type) (tAllowed tc) _ hparse st.tokens its hprov hc
      subst h
      split
      · exact textJoin_deep (ty_joinClosed hT) _ _ h1
      · exact h1

/-- **C10.fullT_provenance** -/
theorem fullT_provenance (cls : QCls) (ext : IExt) (lx : LExt) (tc : TCfg) (hnr : tc.reference = false) (ic : ICfg) (hon : ic.inlineOn = true)
    (ws : List Nat) (mn : Int) (d : Nat) (src : List Char) (ts : List Tok) (refs dups)
    (h : fullParseT cls ext lx tc ic ws mn d src = .ok (ts, refs, dups)) :
    ∀ t ∈ ts, t.type ∈ tAllowed tc ∧ (t.type = "inline" → ∀ x ∈ descOpt t.children, x.type ∈ inlineAllowed ext.html ic) := by
  refine fullT_types cls ext lx tc hnr ic hon (Q := fun ty => ty ∈ inlineAllowed ext.html ic) ?_ ?_ ?_ ?_ ?_ ws mn d src ts refs dups h
  · simp [inlineAllowed]
  · intro hl; simp [inlineAllowed, hl]
  · intro hi; simp [inlineAllowed, hi]
  · intro ty hty; simp only [inlineAllowed, List.mem_append]; exact .inr hty
  · refine ⟨?_, ?_, ?_, ?_, ?_, ?_⟩
    · intro hh; simp only [inlineAllowed, hh, if_true]; simp
    · intro hh; simp [inlineAllowed, hh]
    · intro hh; simp only [inlineAllowed, hh, if_true]; simp
    · intro hh; simp [inlineAllowed, hh]
    · intro hh; simp [inlineAllowed, hh]
    · intro hh hx; simp [inlineAllowed, hh, hx]

end MdIt.C10
