import MdIt.Props.C02
import MdIt.Props.C01b
/-!
# C02 (continued) — block streams are well nested and levelled: engine theorem under the segment
contract (K5), the contract proved for the modelled rules, and the unconditional corollary

* `SegOK P S r` — a match of rule `r` appends a segment satisfying `S entryLevel`; a miss appends nothing;
* `loop_segs` — whatever the chain (contracts assumed), the tokens a block loop adds are a
  concatenation of such segments (all at the loop's own level: the frame keeps `level`);
* `WellSeg` — balanced, levelled at the entry level, depth back at the entry level;
* `segOK_*` — the five modelled rules push `WellSeg` segments;
* `mini_wellformed` — for every source, rule subset and `maxNesting`: the stream of the modelled parse
  is levelled from 0, balanced, and `SyntaxTreeNode(tokens)` builds (`C02.tree_of_balanced`).
-/
namespace MdIt.C02
open MdIt.C01

/-- `S` reads only the frame fields of the state -/
def FrameClosedS (S : BState → List Tok → Prop) : Prop :=
  ∀ s s' seg, s.FrameEq s' → S s seg → S s' seg

theorem frameEq_symm {a b : BState} (h : a.FrameEq b) : b.FrameEq a := ⟨⟨h.1.1.symm, h.1.2.symm⟩, h.2.1.symm, h.2.2.1.symm, h.2.2.2.symm⟩

structure SegOK (P : BState → Nat → Prop) (S : BState → List Tok → Prop) (r : BRule) : Prop where
  hit : ∀ s line endLine s', CallCtx P s line endLine → r s line endLine false = .ok (true, s') →
    ∃ seg, s'.tokens = s.tokens ++ seg ∧ S s seg
  miss : ∀ s line endLine s', CallCtx P s line endLine → r s line endLine false = .ok (false, s') → s'.tokens = s.tokens

theorem chain_seg (P : BState → Nat → Prop) (hP : FrameClosed P) (S : BState → List Tok → Prop) (hS : FrameClosedS S) (rules : List BRule)
    (hok : ∀ r ∈ rules, RuleOK P r) (hseg : ∀ r ∈ rules, SegOK P S r)
    (s : BState) (line endLine : Nat) (m : Bool) (s' : BState) (hc : CallCtx P s line endLine)
    (h : runBlockChain rules s line endLine = .ok (m, s')) :
    ∃ seg, s'.tokens = s.tokens ++ seg ∧ (m = true → S s seg) ∧ (m = false → seg = []) := by
  induction rules generalizing s with
  | nil => simp [runBlockChain] at h; obtain ⟨rfl, rfl⟩ := h; exact ⟨[], by simp, by simp, by simp⟩
  | cons r rest ih =>
    have hr := hok r (by simp)
    have hm := hseg r (by simp)
    obtain ⟨m1, s1, hrs⟩ := hr.total s line endLine hc
    simp only [runBlockChain, hrs] at h
    cases m1 with
    | true =>
      simp only [Except.ok.injEq, Prod.mk.injEq] at h
      obtain ⟨rfl, rfl⟩ := h
      obtain ⟨seg, h1, h2⟩ := hm.hit _ _ _ _ hc hrs
      exact ⟨seg, h1, fun _ => h2, by simp⟩
    | false =>
      simp only at h
      have hfr := hr.frame _ _ _ _ _ hc hrs
      obtain ⟨seg, h1, h2, h3⟩ := ih (fun q hq => hok q (by simp [hq])) (fun q hq => hseg q (by simp [hq])) s1
        (hc.transfer hP hfr (hr.miss _ _ _ _ hc hrs)) h
      refine ⟨seg, by rw [h1, hm.miss _ _ _ _ hc hrs], ?_, h3⟩
      intro hmt; exact hS _ _ _ (frameEq_symm hfr) (h2 hmt)

/-- **C02.loop_segs** — the tokens a block loop adds are a concatenation of rule segments, each satisfying
the segment contract at the loop's level -/
theorem loop_segs (P : BState → Nat → Prop) (hP : FrameClosed P) (S : BState → List Tok → Prop) (hS : FrameClosedS S) (rules : List BRule)
    (hok : ∀ r ∈ rules, RuleOK P r) (hseg : ∀ r ∈ rules, SegOK P S r) (maxNesting : Int) (endLine : Nat) :
    ∀ (fuel line : Nat) (hasEmpty : Bool) (s s' : BState), s.lineMax + 1 ≤ s.lines.length → endLine ≤ s.lineMax →
      P s endLine → blockLoop rules maxNesting endLine fuel line hasEmpty s = .ok s' →
      ∃ segs : List (List Tok), s'.tokens = s.tokens ++ segs.flatten ∧ ∀ g ∈ segs, S s g := by
  intro fuel
  induction fuel with
  | zero =>
    intro line _ s s' _ _ _ h
    simp only [blockLoop] at h
    split at h
    · cases h
    · simp only [Except.ok.injEq] at h; subst h; exact ⟨[], by simp, by simp⟩
  | succ n ih =>
    intro line hasEmpty s s' hlen hend hPs h
    simp only [blockLoop] at h
    split at h
    · rename_i hlt
      have hsk := C01.skipEmptyLines_spec s (s.lineMax + 1) line hlen (by omega)
      generalize hl1 : skipEmptyLines s (s.lineMax + 1) line = line1 at hsk h
      split at h
      · simp only [Except.ok.injEq] at h; subst h; exact ⟨[], by simp, by simp⟩
      · split at h
        · cases h
        · split at h
          · simp only [Except.ok.injEq] at h; subst h; exact ⟨[], by simp, by simp⟩
          · split at h
            · simp only [Except.ok.injEq] at h; subst h; exact ⟨[], by simp, by simp⟩
            · split at h
              · cases h
              · rename_i mm s2 hc
                have hctx : CallCtx P { s with line := line1 } line1 endLine := by
                  rename_i hnge optl l hl hnout hlev hx
                  have hlt1 : line1 < s.lineMax := by omega
                  obtain ⟨l', hl', hne'⟩ := hsk.2 hlt1
                  have hll : l' = l := by
                    have : s.lines[line1]? = some l := hl
                    rw [this] at hl'; exact (Option.some.inj hl').symm
                  subst hll
                  exact ⟨hlen, by omega, hend, ⟨l', hl, hne', by simpa using hnout⟩, rfl, hP s _ _ ⟨⟨rfl, rfl⟩, rfl, rfl, rfl⟩ hPs⟩
                obtain ⟨m', s2', hc', hfr2, hprog, hmiss⟩ := C01.chain_ok P hP rules hok { s with line := line1 } line1 endLine hctx
                rw [hc] at hc'
                simp only [Except.ok.injEq, Prod.mk.injEq] at hc'
                obtain ⟨rfl, rfl⟩ := hc'
                obtain ⟨seg, hsegEq, hsegS, _⟩ := chain_seg P hP S hS rules hok hseg _ _ _ _ _ hctx hc
                split at h
                · cases h
                · rename_i hnle
                  have hm : mm = true := by
                    cases mm with
                    | true => rfl
                    | false => have := hmiss rfl; simp at this; omega
                  have hlen2 : s2.lineMax + 1 ≤ s2.lines.length := by rw [hfr2.1.1, hfr2.2.1]; exact hlen
                  have hend2 : endLine ≤ s2.lineMax := by rw [hfr2.2.1]; exact hend
                  have hSs : S s seg := hS _ _ _ (frameEq_symm (⟨⟨rfl, rfl⟩, rfl, rfl, rfl⟩ : s.FrameEq { s with line := line1 })) (hsegS hm)
                  have fin : ∀ (l' : Nat) (he : Bool) (st : BState), st.tokens = s2.tokens → st.lineMax + 1 ≤ st.lines.length →
                      endLine ≤ st.lineMax → s2.FrameEq st →
                      blockLoop rules maxNesting endLine n l' he st = .ok s' →
                      ∃ segs : List (List Tok), s'.tokens = s.tokens ++ segs.flatten ∧ ∀ g ∈ segs, S s g := by
                    intro l' he st htok hl hE hfe hrec
                    have hPst : P st endLine := hP _ _ _ hfe (hP _ _ _ hfr2 (hP s _ _ ⟨⟨rfl, rfl⟩, rfl, rfl, rfl⟩ hPs))
                    obtain ⟨segs', hn1, hn2⟩ := ih l' he st s' hl hE hPst hrec
                    have hst : st.FrameEq s := frameEq_symm (C01.frameEq_trans (C01.frameEq_trans ⟨⟨rfl, rfl⟩, rfl, rfl, rfl⟩ hfr2) hfe)
                    refine ⟨seg :: segs', ?_, ?_⟩
                    · rw [hn1, htok, hsegEq]; simp
                    · intro g hg
                      simp only [List.mem_cons] at hg
                      rcases hg with rfl | hg
                      · exact hSs
                      · exact hS _ _ _ hst (hn2 g hg)
                  split at h
                  · cases h
                  · split at h
                    · split at h
                      · cases h
                      · split at h
                        · exact fin (s2.line + 1) _ { s2 with tight := !hasEmpty, line := s2.line + 1 } rfl hlen2 hend2 ⟨⟨rfl, rfl⟩, rfl, rfl, rfl⟩ h
                        · exact fin s2.line _ { s2 with tight := !hasEmpty } rfl hlen2 hend2 ⟨⟨rfl, rfl⟩, rfl, rfl, rfl⟩ h
                    · exact fin s2.line _ { s2 with tight := !hasEmpty } rfl hlen2 hend2 ⟨⟨rfl, rfl⟩, rfl, rfl, rfl⟩ h
    · simp only [Except.ok.injEq] at h; subst h; exact ⟨[], by simp, by simp⟩

/-! ### well-formed segments compose -/

/-- balanced on its own, levelled from the entry level, and back at the entry level afterwards -/
def WellSeg (lvl : Int) (seg : List Tok) : Prop :=
  levelsOK lvl seg ∧ depthAfter lvl seg = lvl ∧ balancedFrom 0 seg = true

theorem balancedFrom_prefix (a b : List Tok) : ∀ (d e : Int), balancedFrom e a = true → 0 ≤ d →
    balancedFrom (d + e) (a ++ b) = balancedFrom d b := by
  induction a with
  | nil =>
    intro d e h _
    simp only [balancedFrom, beq_iff_eq] at h
    subst h; simp
  | cons t ts ih =>
    intro d e h hd
    simp only [balancedFrom, Bool.and_eq_true, decide_eq_true_eq] at h
    obtain ⟨⟨h1, h2⟩, h3⟩ := h
    simp only [List.cons_append, balancedFrom]
    have := ih d (e + t.nesting) h3 hd
    have e1 : d + e + t.nesting = d + (e + t.nesting) := by omega
    rw [e1, this, h1]
    have : decide (0 ≤ d + (e + t.nesting)) = true := by simp; omega
    rw [this]; simp

/-- `WellSeg` at the state's level, as a segment predicate on states -/
def WellSegS : BState → List Tok → Prop := fun s seg => WellSeg s.level seg

theorem wellSegS_closed : FrameClosedS WellSegS := fun s s' seg hf h => by
  unfold WellSegS at *; rw [hf.2.2.2]; exact h

theorem wellSegs_flatten (lvl : Int) (segs : List (List Tok)) (h : ∀ g ∈ segs, WellSeg lvl g) :
    WellSeg lvl segs.flatten := by
  induction segs with
  | nil => exact ⟨trivial, rfl, rfl⟩
  | cons g gs ih =>
    have hg := h g (by simp)
    have hr := ih (fun x hx => h x (by simp [hx]))
    simp only [List.flatten_cons]
    refine ⟨?_, ?_, ?_⟩
    · rw [levelsOK_append, hg.2.1]; exact ⟨hg.1, hr.1⟩
    · rw [depthAfter_append, hg.2.1]; exact hr.2.1
    · have := balancedFrom_prefix g gs.flatten 0 0 hg.2.2 (Int.le_refl 0)
      simp only [Int.add_zero] at this
      rw [this]; exact hr.2.2

/-! ### the modelled rules push well-formed segments -/

private theorem wellSeg_leaf (s : BState) (a b : String) (m c d e f) :
    WellSeg s.level [pushedTok s a b 0 m c d e f] := by
  refine ⟨?_, ?_, ?_⟩
  · simp [levelsOK, pushedTok, Tok.level, Tok.nesting]
  · simp [depthAfter, pushedTok, Tok.nesting]
  · simp [balancedFrom, pushedTok, Tok.nesting]

private theorem wellSeg_three (s0 : BState) (a1 b1 : String) (m1 c1 d1 e1 f1) (a2 b2 : String) (m2 c2 d2 e2 f2)
    (a3 b3 : String) (m3 c3 d3 e3 f3) :
    WellSeg s0.level [pushedTok s0 a1 b1 1 m1 c1 d1 e1 f1,
      pushedTok (s0.pushFull a1 b1 1 m1 c1 d1 e1 f1) a2 b2 0 m2 c2 d2 e2 f2,
      pushedTok ((s0.pushFull a1 b1 1 m1 c1 d1 e1 f1).pushFull a2 b2 0 m2 c2 d2 e2 f2) a3 b3 (-1) m3 c3 d3 e3 f3] := by
  refine ⟨?_, ?_, ?_⟩
  · simp [levelsOK, pushedTok, Tok.level, Tok.nesting, BState.pushFull]
  · simp [depthAfter, pushedTok, Tok.nesting]
  · simp [balancedFrom, pushedTok, Tok.nesting]

private theorem three_push {s0 : BState} {a1 b1 : String} {m1 c1 d1 e1 f1} {a2 b2 : String} {m2 c2 d2 e2 f2}
    {a3 b3 : String} {m3 c3 d3 e3 f3} :
    ∃ seg, (((s0.pushFull a1 b1 1 m1 c1 d1 e1 f1).pushFull a2 b2 0 m2 c2 d2 e2 f2).pushFull a3 b3 (-1) m3 c3 d3 e3 f3).tokens
        = s0.tokens ++ seg ∧ WellSeg s0.level seg :=
  ⟨_, by rw [pushFull_tokens, pushFull_tokens, pushFull_tokens, List.append_assoc, List.append_assoc]; rfl,
   wellSeg_three s0 a1 b1 m1 c1 d1 e1 f1 a2 b2 m2 c2 d2 e2 f2 a3 b3 m3 c3 d3 e3 f3⟩

theorem segOK_hr (P) (codeOn : Bool) : SegOK P WellSegS (ruleHr codeOn) := by
  refine ⟨?_, ?_⟩
  · intro s line endLine s' hc h
    rcases hr_shape P codeOn s line endLine hc with h' | ⟨mk, h'⟩
    · rw [h'] at h; cases h
    · rw [h'] at h; cases h
      exact ⟨[_], pushFull_tokens _ _ _ _ _ _ _ _ _, wellSeg_leaf { s with line := line + 1 } _ _ _ _ _ _ _⟩
  · intro s line endLine s' hc h
    rcases hr_shape P codeOn s line endLine hc with h' | ⟨mk, h'⟩
    · rw [h'] at h; cases h; rfl
    · rw [h'] at h; cases h

theorem segOK_code (P) (codeOn : Bool) : SegOK P WellSegS (ruleCode codeOn) := by
  refine ⟨?_, ?_⟩
  · intro s line endLine s' hc h
    rcases code_shape P codeOn s line endLine hc with h' | ⟨last, c, h1, h2, h'⟩
    · rw [h'] at h; cases h
    · rw [h'] at h; cases h
      exact ⟨[_], pushFull_tokens _ _ _ _ _ _ _ _ _, wellSeg_leaf { s with line := last } _ _ _ _ _ _ _⟩
  · intro s line endLine s' hc h
    rcases code_shape P codeOn s line endLine hc with h' | ⟨last, c, h1, h2, h'⟩
    · rw [h'] at h; cases h; rfl
    · rw [h'] at h; cases h

theorem segOK_fence (P) (codeOn : Bool) : SegOK P WellSegS (ruleFence codeOn) := by
  refine ⟨?_, ?_⟩
  · intro s line endLine s' hc h
    rcases fence_shape P codeOn s line endLine hc with h' | ⟨l', c, mk, info, h1, h2, h'⟩
    · rw [h'] at h; cases h
    · rw [h'] at h; cases h
      exact ⟨[_], pushFull_tokens _ _ _ _ _ _ _ _ _, wellSeg_leaf { s with line := l' } _ _ _ _ _ _ _⟩
  · intro s line endLine s' hc h
    rcases fence_shape P codeOn s line endLine hc with h' | ⟨l', c, mk, info, h1, h2, h'⟩
    · rw [h'] at h; cases h; rfl
    · rw [h'] at h; cases h

theorem segOK_heading (P) (codeOn : Bool) (ws : List Nat) : SegOK P WellSegS (ruleHeading codeOn ws) := by
  refine ⟨?_, ?_⟩
  · intro s line endLine s' hc h
    rcases heading_shape P codeOn ws s line endLine hc with h' | ⟨tag, mk, c, h'⟩
    · rw [h'] at h; cases h
    · rw [h'] at h; cases h
      exact three_push (s0 := { s with line := line + 1 })
  · intro s line endLine s' hc h
    rcases heading_shape P codeOn ws s line endLine hc with h' | ⟨tag, mk, c, h'⟩
    · rw [h'] at h; cases h; rfl
    · rw [h'] at h; cases h

theorem segOK_paragraph (P : BState → Nat → Prop) (terms : List BRule) (hin : ∀ t ∈ terms, SilentInert t) (ws : List Nat) :
    SegOK P WellSegS (ruleParagraph terms ws) := by
  refine ⟨?_, ?_⟩
  · intro s line endLine s' hc h
    obtain ⟨n, c, h1, h2, h'⟩ := paragraph_shape P terms hin ws s line endLine hc
    rw [h'] at h; cases h
    exact three_push (s0 := { s with parentType := "paragraph", line := n })
  · intro s line endLine s' hc h
    obtain ⟨n, c, h1, h2, h'⟩ := paragraph_shape P terms hin ws s line endLine hc
    rw [h'] at h; cases h

theorem miniChain_segOK (c : MiniCfg) (ws : List Nat) : ∀ r ∈ miniChain c ws, SegOK TopCtx WellSegS r := by
  intro r hr
  simp only [miniChain, List.mem_append, List.mem_singleton] at hr
  rcases hr with (((hr | hr) | hr) | hr) | hr
  · split at hr
    · simp at hr; subst hr; exact segOK_code _ _
    · cases hr
  · split at hr
    · simp at hr; subst hr; exact segOK_fence _ _
    · cases hr
  · split at hr
    · simp at hr; subst hr; exact segOK_hr _ _
    · cases hr
  · split at hr
    · simp at hr; subst hr; exact segOK_heading _ _ _
    · cases hr
  · subst hr; exact segOK_paragraph _ _ (miniTerminators_inert c ws) ws

/-- **C02.mini_wellformed** — for every source, every subset of the optional rules and every `maxNesting`, the
block stream of the modelled parse is levelled from 0, ends at depth 0, is balanced, and builds a syntax tree -/
theorem mini_wellformed (c : MiniCfg) (ws : List Nat) (maxNesting : Int) (src : List Char) (ts : List Tok)
    (h : miniParse c ws maxNesting src = .ok ts) :
    levelsOK 0 ts ∧ depthAfter 0 ts = 0 ∧ balancedFrom 0 ts = true ∧ ∃ f, buildTree ts = .ok f := by
  have key : WellSeg 0 ts := by
    unfold miniParse at h
    simp only at h
    split at h
    · cases h; exact ⟨trivial, rfl, rfl⟩
    · split at h
      · rename_i s' hs'
        cases h
        obtain ⟨segs, hn, hS⟩ := loop_segs TopCtx topCtx_closed WellSegS wellSegS_closed (miniChain c ws) (miniChain_ok c ws) (miniChain_segOK c ws)
          maxNesting (initBState (normalize src)).lineMax _ 0 false (initBState (normalize src)) s' (initBState_len _) (Nat.le_refl _) rfl hs'
        have : (initBState (normalize src)).tokens = [] := rfl
        rw [this, List.nil_append] at hn
        rw [hn]
        exact wellSegs_flatten 0 segs hS
      · cases h
  exact ⟨key.1, key.2.1, key.2.2, tree_of_balanced ts key.2.2⟩

end MdIt.C02
