import MdIt.Props.C05f
import MdIt.Props.C01l
/-!
# C05 (continued) — all eleven block rules: every destination the parse emits or records is validated

`keeps_table`: the table rule hands the env tables on (it only pushes tokens and runs its terminator chain), so `tChain_keeps` /
`tParse_refsValid` extend `C05f` to the full chain — `reference` *and* `table` in it; no contract of the engine is used, the statements
are about results.  **`fullT_hrefs`**: for `MarkdownIt.parse` on the modelled language with every block rule, from an acceptable env:
every recorded definition and every `link_open` / `image` below every `inline` token — table cells included — carries an empty or
URL-safe destination with no dangerous scheme.
-/
namespace MdIt.C05
open MdIt.C01 MdIt.C16

variable {J : BState → Prop}

theorem pushT_RD (s : BState) (a b : String) (n : Int) (at_ m c d) : RD (s.pushT a b n at_ m c d) = RD s := rfl

theorem pushCells_RD (ws : List Nat) (o c t : String) (line : Nat) (cols : List (List Char)) (as : List String) (i : Nat) (s : BState) :
    RD (pushCells ws o c t line cols as i s) = RD s := by
  have h := (pushCells_same ws o c t line cols as i s).1
  unfold RD
  rw [h.2.2.2.2.2.2.1, h.2.2.2.2.2.2.2]

theorem tableBody_keeps (hJ : OnTables J) (codeOn : Bool) (hts : ∀ t ∈ terms, Keeps J t) (ws : List Nat) (aligns : List String)
    (startLine endLine : Nat) : ∀ (fuel next : Nat) (s : BState), J s →
    OKW (·.2) J (tableBody codeOn terms ws aligns startLine endLine fuel next s) := by
  intro fuel
  induction fuel with
  | zero => intro next s _; simp only [tableBody]; exact okw_error _ _ _
  | succ n ih =>
    intro next s hj
    simp only [tableBody]
    split
    · split
      · exact okw_error _ _ _
      · split
        · exact okw_ok _ _ _ hj
        · split
          · exact okw_error _ _ _
          · rename_i s1 heq; exact okw_ok _ _ _ (runTerminators_keeps hts s _ _ hj _ heq)
          · rename_i s1 heq
            have h1 : J s1 := runTerminators_keeps hts s _ _ hj _ heq
            split
            · exact okw_error _ _ _
            · split
              · exact okw_ok _ _ _ h1
              · split
                · exact okw_ok _ _ _ h1
                · refine ih _ _ (hJ s1 _ ?_ h1)
                  rw [pushT_RD, pushCells_RD, pushT_RD]
                  split <;> rfl
    · exact okw_ok _ _ _ hj

theorem keeps_table (hJ : OnTables J) (codeOn : Bool) (hts : ∀ t ∈ terms, Keeps J t) (ws : List Nat) : Keeps J (ruleTable codeOn terms ws) := by
  intro s line endLine silent m s' hj hr
  refine (?_ : OKW (·.2) J (ruleTable codeOn terms ws s line endLine silent)) (m, s') hr
  simp only [ruleTable]
  split
  · exact okw_error _ _ _
  · exact okw_ok _ _ _ hj
  · split
    · exact okw_ok _ _ _ hj
    · split
      · exact okw_error _ _ _
      · rename_i next s7 heq
        have h7 : J s7 := by
          refine tableBody_keeps hJ codeOn hts ws _ _ _ _ _ _ (hJ s _ ?_ hj) (next, s7) heq
          rw [pushT_RD, pushT_RD, pushCells_RD, pushT_RD, pushT_RD, pushT_RD]; rfl
        refine okw_ok _ _ _ (hJ s7 _ ?_ h7)
        unfold RD
        dsimp only [C01.pushT_refs, C01.pushT_dups]
        split <;> rfl

theorem tParaTerms_keeps (ext : IExt) (c : TCfg) (ws : List Nat) (mn : Int) : ∀ t ∈ tParaTerms c ws mn, Keeps (RefsValid ext) t := by
  intro t ht
  simp only [tParaTerms, List.mem_append] at ht
  rcases ht with ht | ht
  · split at ht
    · simp at ht; subst ht; exact keeps_table (refsValid_onTables ext) _ (fun r hr => by cases hr) ws
    · cases ht
  · exact mTerminators_keeps ext c.toMCfg ws mn t ht

/-- every rule of every eleven-rule chain keeps "every recorded destination is validated" -/
theorem tChain_keeps (ext : IExt) (lx : LExt) (c : TCfg) (ws : List Nat) (mn : Int) :
    ∀ d : Nat, ∀ r ∈ tChain ext lx c ws mn d, Keeps (RefsValid ext) r := by
  have hJ := refsValid_onTables ext
  have hT := mTerminators_keeps ext c.toMCfg ws mn
  have hP := tParaTerms_keeps ext c ws mn
  have hLT := mListTerms_keeps ext c.toMCfg mn
  intro d
  induction d with
  | zero => intro r hr; simp [tChain] at hr
  | succ d ih =>
    intro r hr
    simp only [tChain, List.mem_append, List.mem_singleton] at hr
    rcases hr with (((((((((hr | hr) | hr) | hr) | hr) | hr) | hr) | hr) | hr) | hr) | hr
    · split at hr
      · simp at hr; subst hr; exact keeps_table hJ _ hT ws
      · cases hr
    · split at hr
      · simp at hr; subst hr; exact keeps_of_untouched hJ (untouched_code _)
      · cases hr
    · split at hr
      · simp at hr; subst hr; exact keeps_of_untouched hJ (untouched_fence _)
      · cases hr
    · subst hr; exact keeps_blockquote hJ _ hT ih mn
    · split at hr
      · simp at hr; subst hr; exact keeps_of_untouched hJ (untouched_hr _)
      · cases hr
    · subst hr; exact keeps_list hJ _ hLT ih mn
    · split at hr
      · simp at hr; subst hr; exact keeps_reference ext lx _ _ hP ws
      · cases hr
    · split at hr
      · simp at hr; subst hr; exact keeps_of_untouched hJ (untouched_htmlBlock _ _)
      · cases hr
    · split at hr
      · simp at hr; subst hr; exact keeps_of_untouched hJ (untouched_heading _ _)
      · cases hr
    · split at hr
      · simp at hr; subst hr; exact keeps_lheading hJ _ hP ws
      · cases hr
    · subst hr; exact keeps_paragraph hJ hP ws

/-- **every entry the block parse records in `env["references"]` / `env["duplicate_refs"]` is a validated destination** -/
theorem tParse_refsValid (ext : IExt) (lx : LExt) (c : TCfg) (ws : List Nat) (mn : Int) (src : List Char) (s : BState)
    (h : tParse ext lx c ws mn src = .ok s) : RefsValid ext s := by
  have h0 : RefsValid ext (initBState (normalize src)) := by
    constructor
    · intro e he; exact absurd he (by simp [initBState])
    · intro e he; exact absurd he (by simp [initBState])
  unfold tParse at h
  simp only at h
  split at h
  · cases h; exact h0
  · exact blockTokenize_keeps (refsValid_onTables ext) (tChain_keeps ext lx c ws mn _) mn _ _ _ h0 s h

/-- **C05.fullT_hrefs** — all eleven block rules (`reference` and `table` included): whatever the parse returns, every destination it
    recorded and every `href` / `src` below every inline token (paragraphs, headings, **table cells**) is empty or validated -/
theorem fullT_hrefs (cls : QCls) (ext : IExt) (lx : LExt) (hrefs : RefsOK lx) (rc : TCfg) (ic : ICfg) (hon : ic.inlineOn = true) (ws : List Nat)
    (mn : Int) (d : Nat) (src : List Char) (ts : List Tok) (refs dups : List (List Char × List Char × List Char))
    (h : fullParseT cls ext lx rc ic ws mn d src = .ok (ts, refs, dups)) :
    (∀ e ∈ refs ++ dups, DestOK e.2.1)
    ∧ ∀ t ∈ ts, t.type = "inline" → ∀ x ∈ descOpt t.children,
      (x.type = "link_open" → ∃ href : List Char, x.attrs.head? = some ("href", .s (String.ofList href)) ∧ DestOK href)
      ∧ (x.type = "image" → ∃ s : List Char, x.attrs.head? = some ("src", .s (String.ofList s)) ∧ DestOK s) := by
  unfold fullParseT at h
  cases hb : tParse ext lx rc ws mn src with
  | error e => rw [hb] at h; cases h
  | ok s =>
    rw [hb] at h
    simp only [hon, if_true] at h
    have hv := tParse_refsValid ext lx rc ws mn src s hb
    have henv := envAfter_refsOK ext lx s hrefs hv
    cases hc : coreInline (inlineOf cls ext (envAfter lx s) ic mn d) s.tokens with
    | error e => rw [hc] at h; cases h
    | ok its =>
      rw [hc] at h
      simp only [Except.ok.injEq, Prod.mk.injEq] at h
      obtain ⟨hts, hr, hd⟩ := h
      constructor
      · intro e he
        rw [← hr, ← hd] at he
        have hval : ValidHref ext e.2.1 := by
          rcases List.mem_append.1 he with he | he
          · exact hv.1 e he
          · exact hv.2 e he
        obtain ⟨u, hu, hval⟩ := hval
        right
        rw [hu]
        rw [hu] at hval
        exact ⟨encode_range _, api ext.reformat u hval⟩
      · have hparse : ∀ c cs, inlineOf cls ext (envAfter lx s) ic mn d c = .ok cs → ∀ x ∈ descList cs, UTok ext (envAfter lx s) x := by
          intro c cs hp
          exact image_sources cls ext (envAfter lx s) ic.text ic.newline ic.escape ic.backticks ic.strike ic.emphasis ic.link ic.image ic.autolink
            ic.htmlInline ic.entity ic.fragJoin mn d c cs hp
        have h1 := coreInline_deep (N := UTok ext (envAfter lx s)) (s.tokens.map Tok.type) _ hparse s.tokens its
          (fun b hb => List.mem_map.2 ⟨b, hb, rfl⟩) hc
        have h2 : ∀ t ∈ ts, t.type ∈ s.tokens.map Tok.type ∧ InlineDeep (UTok ext (envAfter lx s)) t := by
          subst hts
          split
          · exact textJoin_deep (utok_joinClosed ext (envAfter lx s)) _ _ h1
          · exact h1
        intro t ht hty x hx
        obtain ⟨hl, hi⟩ := (h2 t ht).2 hty x hx
        constructor
        · intro hxt
          obtain ⟨href, ha, hsrc⟩ := hl hxt
          exact ⟨href, ha, destOK_of_src ext (envAfter lx s) henv href hsrc⟩
        · intro hxt
          obtain ⟨s', ha, hsrc⟩ := hi hxt
          exact ⟨s', ha, destOK_of_src ext (envAfter lx s) henv s' hsrc⟩


/-! non-vacuity: a reference defined below a table and used in a cell, next to a rejected `javascript:` destination in another cell -/
example : fullRDests (fullParseT C02f.asciiCls ext0 { C01.lx0 with hasRefs := false, refs := fun _ => none }
      { code := true, fence := true, hr := true, heading := true, htmlBlock := false, lheading := true, html := false, reference := true,
        inlineDefs := false, table := true }
      { text := true, newline := true, escape := true, backticks := false, strike := false, emphasis := true, link := true, image := true,
        autolink := false, htmlInline := false, entity := false, fragJoin := true, inlineOn := true, textJoinOn := true }
      [32, 9, 10, 11, 12, 13] 20 40
      "|[a]|[x](javascript:q)|\n|-|-|\n|![i](<y z>)|[b]|\n\n[a]: /x\n[b]: <u v>\n".toList)
    = some ([("link_open", some ("href", .s "/x")), ("image", some ("src", .s "y%20z")), ("link_open", some ("href", .s "u%20v"))], ["A", "B"]) := by
  decide +kernel

end MdIt.C05
