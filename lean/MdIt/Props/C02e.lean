import MdIt.Delims
/-!
# C02 (continued) — the delimiter pairs `processDelimiters` forms never cross

`processDelims` is the model of `rules_inline/balance_pairs.py: processDelimiters` (tied to the real function call by call).  For
every delimiter array whose `end` fields are unset and whose `token` fields are non-negative — whatever the markers, lengths and
open/close flags — the pairs `(i, end[i])` it forms satisfy `i < end[i]`, and no two of them cross (`pairs_laminar`): emphasis,
strong and strikethrough spans are nested or disjoint, never interleaved.  The proof carries the meaning of the `jumps` array: a jump
taken from an index that is not strictly inside a pair never lands strictly inside one.
-/
namespace MdIt.C02e
open MdIt

/-- `t` is not strictly inside a formed pair -/
def NotInside (ds : List Delim) (t : Int) : Prop :=
  ∀ (o : Nat) (d : Delim), ds[o]? = some d → 0 ≤ d.end_ → ¬ ((o : Int) < t ∧ t < d.end_)

/-- no two formed pairs cross -/
def Laminar (ds : List Delim) : Prop :=
  ∀ (o1 o2 : Nat) (d1 d2 : Delim), ds[o1]? = some d1 → ds[o2]? = some d2 → 0 ≤ d1.end_ → 0 ≤ d2.end_ →
    ¬ (o1 < o2 ∧ (o2 : Int) < d1.end_ ∧ d1.end_ < d2.end_)

structure Inv (st : PDState) (c : Nat) : Prop where
  len : st.jumps.length = c
  cle : c ≤ st.ds.length
  pairs : ∀ (o : Nat) (d : Delim), st.ds[o]? = some d → 0 ≤ d.end_ → (o : Int) < d.end_ ∧ d.end_ < (c : Int)
  lam : Laminar st.ds
  jump : ∀ k, k < c → NotInside st.ds (k : Int) → NotInside st.ds ((k : Int) - ((st.jumps.getD k 0 : Nat) : Int) - 1)
  jle : ∀ k, k < c → st.jumps.getD k 0 ≤ k
  hdr : st.lastTokenIdx = -2 ∨ ∀ (o : Nat) (d : Delim), st.ds[o]? = some d → 0 ≤ d.end_ → d.end_ < (st.headerIdx : Int)
  hle : st.headerIdx ≤ c
  tok : ∀ d ∈ st.ds, 0 ≤ d.token
  bot : ∀ p ∈ st.bottoms, ∀ x ∈ p.2, (-1 : Int) ≤ x
  clo : ∀ (o : Nat) (d de : Delim), st.ds[o]? = some d → 0 ≤ d.end_ → st.ds[d.end_.toNat]? = some de → de.open_ = false
  opn : ∀ (o : Nat) (d : Delim), st.ds[o]? = some d → 0 ≤ d.end_ → d.open_ = true
  inj : ∀ (o1 o2 : Nat) (d1 d2 : Delim), st.ds[o1]? = some d1 → st.ds[o2]? = some d2 → 0 ≤ d1.end_ → d1.end_ = d2.end_ → o1 = o2

/-! ### the bookkeeping of `openersBottom` stays above −1 -/

theorem bottomGet_ge_of (b : Bottoms) (h : ∀ p ∈ b, ∀ x ∈ p.2, (-1 : Int) ≤ x) (m k : Nat) : -1 ≤ bottomGet b m k := by
  unfold bottomGet
  cases hf : b.find? (·.1 == m) with
  | none => simp
  | some p =>
    simp only
    have hp := List.mem_of_find?_eq_some hf
    cases hk : p.2[k]? with
    | none => simp [List.getD, hk]
    | some x =>
      have : p.2.getD k (-1) = x := by simp [List.getD, hk]
      rw [this]
      exact h p hp x (List.mem_of_getElem? hk)

/-! ### reading the arrays after a match -/

theorem modify_get {α} (l : List α) (i j : Nat) (f : α → α) : (l.modify i f)[j]? = if i = j then l[j]?.map f else l[j]? := by
  rw [List.getElem?_modify]
  cases l[j]? with
  | none => split <;> rfl
  | some a => simp only [Functor.map, Option.map_some]; split <;> rfl

/-- the delimiter array after the match `(v, c)` -/
def matched (ds : List Delim) (c v : Nat) : List Delim :=
  (ds.modify c (fun d => { d with open_ := false })).modify v (fun d => { d with end_ := (c : Int), close := false })

theorem matched_get_other (ds : List Delim) (c v i : Nat) (h1 : i ≠ c) (h2 : i ≠ v) : (matched ds c v)[i]? = ds[i]? := by
  unfold matched
  rw [modify_get, modify_get]
  have a : ¬ v = i := fun e => h2 e.symm
  have b : ¬ c = i := fun e => h1 e.symm
  simp only [a, b, if_false]

theorem matched_get_v (ds : List Delim) (c v : Nat) (hne : v ≠ c) (dv : Delim) (hv : ds[v]? = some dv) :
    (matched ds c v)[v]? = some { dv with end_ := (c : Int), close := false } := by
  unfold matched
  rw [modify_get, modify_get]
  have b : ¬ c = v := fun e => hne e.symm
  simp only [if_true, b, if_false, hv, Option.map_some]

theorem matched_get_c (ds : List Delim) (c v : Nat) (hne : v ≠ c) (dc : Delim) (hc : ds[c]? = some dc) :
    (matched ds c v)[c]? = some { dc with open_ := false } := by
  unfold matched
  rw [modify_get, modify_get]
  simp only [hne, if_false, if_true, hc, Option.map_some]

theorem matched_length (ds : List Delim) (c v : Nat) : (matched ds c v).length = ds.length := by
  unfold matched; simp

/-- the ends recorded after the match: the old ones, and `c` at `v` -/
theorem matched_end (ds : List Delim) (c v : Nat) (hne : v ≠ c) (o : Nat) (d : Delim) (h : (matched ds c v)[o]? = some d) (he : 0 ≤ d.end_) :
    (o = v ∧ d.end_ = (c : Int)) ∨ (o ≠ v ∧ ∃ d0, ds[o]? = some d0 ∧ d0.end_ = d.end_) := by
  by_cases hov : o = v
  · subst hov
    cases hv : ds[o]? with
    | none =>
      have : (matched ds c o)[o]? = none := by
        unfold matched; rw [modify_get, modify_get]; simp [hv]
      rw [this] at h; cases h
    | some dv =>
      rw [matched_get_v ds c o hne dv hv] at h
      cases h; exact .inl ⟨rfl, rfl⟩
  · right
    refine ⟨hov, ?_⟩
    by_cases hoc : o = c
    · subst hoc
      cases hc : ds[o]? with
      | none =>
        have : (matched ds o v)[o]? = none := by
          unfold matched; rw [modify_get, modify_get]; simp [hc]
        rw [this] at h; cases h
      | some dc =>
        rw [matched_get_c ds o v hne dc hc] at h
        cases h; exact ⟨dc, rfl, rfl⟩
    · rw [matched_get_other ds c v o hoc hov] at h
      exact ⟨d, h, rfl⟩

/-! ### the opener search only visits indices that are not strictly inside a pair -/

theorem find_spec (ds : List Delim) (jumps : List Nat) (closer : Delim) (min : Int) (hmin : -1 ≤ min) (n : Nat)
    (hJ : ∀ k, k < n → NotInside ds (k : Int) → NotInside ds ((k : Int) - ((jumps.getD k 0 : Nat) : Int) - 1)) :
    ∀ (fuel : Nat) (k : Int) (v : Nat), k < (n : Int) → NotInside ds k → findDelimOpener ds jumps closer min fuel k = some v →
      (v : Int) ≤ k ∧ NotInside ds (v : Int) ∧ ∃ dv, ds[v]? = some dv ∧ dv.end_ < 0 ∧ dv.open_ = true := by
  intro fuel
  induction fuel with
  | zero => intro k v _ _ h; simp [findDelimOpener] at h
  | succ f ih =>
    intro k v hk hni h
    simp only [findDelimOpener] at h
    split at h
    · rename_i hgt
      have hk0 : 0 ≤ k := by omega
      have hkn : k.toNat < n := by omega
      have hkc : ((k.toNat : Nat) : Int) = k := by omega
      cases hq : ds[k.toNat]? with
      | none => rw [hq] at h; cases h
      | some opener =>
        rw [hq] at h
        simp only at h
        have hnext : NotInside ds (k - ((jumps.getD k.toNat 0 : Nat) : Int) - 1) := by
          have := hJ k.toNat hkn (by rw [hkc]; exact hni)
          rw [hkc] at this; exact this
        have recur : ∀ v, findDelimOpener ds jumps closer min f (k - ((jumps.getD k.toNat 0 : Nat) : Int) - 1) = some v →
            (v : Int) ≤ k ∧ NotInside ds (v : Int) ∧ ∃ dv, ds[v]? = some dv ∧ dv.end_ < 0 ∧ dv.open_ = true := by
          intro v hv
          obtain ⟨a1, a2, a3⟩ := ih _ v (by omega) hnext hv
          exact ⟨by omega, a2, a3⟩
        split at h
        · exact recur v h
        · split at h
          · rename_i hcond
            simp only [Option.some.injEq] at h
            subst h
            simp only [Bool.and_eq_true, decide_eq_true_eq, Bool.not_eq_true'] at hcond
            exact ⟨by omega, by rw [hkc]; exact hni, opener, hq, hcond.1.2, hcond.1.1⟩
          · exact recur v h
    · cases h

theorem bottomSet_ge (b : Bottoms) (h : ∀ p ∈ b, ∀ x ∈ p.2, (-1 : Int) ≤ x) (m k : Nat) (v : Int) (hv : -1 ≤ v) :
    ∀ p ∈ bottomSet b m k v, ∀ x ∈ p.2, (-1 : Int) ≤ x := by
  unfold bottomSet
  cases hf : b.find? (·.1 == m) with
  | none =>
    intro p hp x hx
    simp only [List.mem_cons] at hp
    rcases hp with rfl | hp
    · rcases List.mem_or_eq_of_mem_set hx with h1 | h1
      · simp only [List.mem_cons, List.not_mem_nil, or_false] at h1
        rcases h1 with h1 | h1 | h1 | h1 | h1 | h1 <;> (rw [h1]; decide)
      · subst h1; exact hv
    · exact h p hp x hx
  | some q =>
    intro p hp x hx
    simp only [List.mem_cons] at hp
    rcases hp with rfl | hp
    · rcases List.mem_or_eq_of_mem_set hx with h1 | h1
      · exact h q (List.mem_of_find?_eq_some hf) x h1
      · subst h1; exact hv
    · exact h p (List.mem_filter.1 hp).1 x hx

theorem getD_append_zero (l : List Nat) (k : Nat) : (l ++ [0]).getD k 0 = l.getD k 0 := by
  by_cases h : k < l.length
  · simp [List.getD, List.getElem?_append_left h]
  · have h1 : l[k]? = none := List.getElem?_eq_none_iff.mpr (by omega)
    by_cases h2 : k = l.length
    · subst h2; simp [List.getD, h1]
    · have : (l ++ [0])[k]? = none := List.getElem?_eq_none_iff.mpr (by simp; omega)
      simp [List.getD, h1, this]

theorem getD_set (l : List Nat) (i k v : Nat) (hi : i < l.length) : (l.set i v).getD k 0 = if i = k then v else l.getD k 0 := by
  unfold List.getD
  by_cases h : i = k
  · subst h; simp [List.getElem?_set_self hi]
  · simp [List.getElem?_set_ne h, h]

/-- the jump appended for the closer under inspection lands on the index before it, which no earlier pair contains -/
theorem jump_last (st : PDState) (c : Nat) (hI : Inv st c) : NotInside st.ds ((c : Int) - ((0 : Nat) : Int) - 1) := by
  intro o d ho he hin
  have := hI.pairs o d ho he
  omega

/-! ### one iteration of the outer loop keeps the invariant -/

/-- the header of the closer's run, as the loop computes it -/
def header' (st : PDState) (c : Nat) (closer : Delim) : Nat :=
  if (st.ds.getD st.headerIdx closer).marker != closer.marker || st.lastTokenIdx != closer.token - 1 then c else st.headerIdx

theorem header_le (st : PDState) (c : Nat) (closer : Delim) (hI : Inv st c) : header' st c closer ≤ c := by
  unfold header'; split
  · exact Nat.le_refl _
  · exact hI.hle

theorem header_past (st : PDState) (c : Nat) (closer : Delim) (hI : Inv st c) (hcl : st.ds[c]? = some closer) :
    ∀ (o : Nat) (d : Delim), st.ds[o]? = some d → 0 ≤ d.end_ → d.end_ < (header' st c closer : Int) := by
  intro o d ho he
  unfold header'
  split
  · exact (hI.pairs o d ho he).2
  · rename_i hcond
    simp only [Bool.or_eq_true, bne_iff_ne, ne_eq, not_or, Decidable.not_not] at hcond
    have htok : 0 ≤ closer.token := hI.tok closer (List.mem_of_getElem? hcl)
    rcases hI.hdr with h2 | h2
    · omega
    · exact h2 o d ho he

/-- an iteration that forms no pair -/
theorem inv_keep (st : PDState) (c : Nat) (hI : Inv st c) (closer : Delim) (hcl : st.ds[c]? = some closer) (b' : Bottoms)
    (hb : ∀ p ∈ b', ∀ x ∈ p.2, (-1 : Int) ≤ x) :
    Inv { st with jumps := st.jumps ++ [0], headerIdx := header' st c closer, lastTokenIdx := closer.token, bottoms := b' } (c + 1) := by
  have hc : c < st.ds.length := by
    rcases Nat.lt_or_ge c st.ds.length with h | h
    · exact h
    · rw [List.getElem?_eq_none_iff.mpr h] at hcl; cases hcl
  refine ⟨by simp [hI.len], hc, ?_, hI.lam, ?_, ?_, .inr (header_past st c closer hI hcl), ?_, hI.tok, hb, hI.clo, hI.opn, hI.inj⟩
  · intro o d ho he
    have := hI.pairs o d ho he
    exact ⟨this.1, by omega⟩
  · intro k hk hni
    show NotInside st.ds ((k : Int) - (((st.jumps ++ [0]).getD k 0 : Nat) : Int) - 1)
    rw [getD_append_zero]
    by_cases hkc : k < c
    · exact hI.jump k hkc hni
    · have : k = c := by omega
      subst this
      have : st.jumps.getD k 0 = 0 := by
        unfold List.getD; rw [List.getElem?_eq_none_iff.mpr (by rw [hI.len]; exact Nat.le_refl _)]; rfl
      rw [this]; exact jump_last st k hI
  · intro k hk
    show (st.jumps ++ [0]).getD k 0 ≤ k
    rw [getD_append_zero]
    by_cases hkc : k < c
    · exact hI.jle k hkc
    · have : st.jumps.getD k 0 = 0 := by
        unfold List.getD; rw [List.getElem?_eq_none_iff.mpr (by rw [hI.len]; omega)]; rfl
      omega
  · show header' st c closer ≤ c + 1
    have := header_le st c closer hI; omega

/-- old pairs survive a match -/
theorem matched_old (ds : List Delim) (c v : Nat) (hne : v ≠ c) (dv : Delim) (hv : ds[v]? = some dv) (hve : dv.end_ < 0)
    (o : Nat) (d : Delim) (ho : ds[o]? = some d) (he : 0 ≤ d.end_) : ∃ d', (matched ds c v)[o]? = some d' ∧ d'.end_ = d.end_ := by
  have hov : o ≠ v := by
    intro e; subst e; rw [hv] at ho; cases ho; omega
  by_cases hoc : o = c
  · subst hoc
    exact ⟨_, matched_get_c ds o v hne d ho, rfl⟩
  · exact ⟨d, by rw [matched_get_other ds c v o hoc hov]; exact ho, rfl⟩

theorem notInside_old (ds : List Delim) (c v : Nat) (hne : v ≠ c) (dv : Delim) (hv : ds[v]? = some dv) (hve : dv.end_ < 0) (t : Int)
    (h : NotInside (matched ds c v) t) : NotInside ds t := by
  intro o d ho he hin
  obtain ⟨d', h1, h2⟩ := matched_old ds c v hne dv hv hve o d ho he
  exact h o d' h1 (by omega) (by omega)

/-- an iteration that forms the pair `(v, c)` -/
theorem inv_match (st : PDState) (c : Nat) (hI : Inv st c) (closer : Delim) (hcl : st.ds[c]? = some closer) (b' : Bottoms)
    (hb : ∀ p ∈ b', ∀ x ∈ p.2, (-1 : Int) ≤ x) (v : Nat) (dv : Delim) (hvc : v < c) (hni : NotInside st.ds (v : Int))
    (hdv : st.ds[v]? = some dv) (hve : dv.end_ < 0) (hvo : dv.open_ = true) (lastJump : Nat)
    (hlj : lastJump = 0 ∨ (0 < v ∧ lastJump = (st.jumps ++ [0]).getD (v - 1) 0 + 1)) :
    Inv { st with ds := matched st.ds c v, bottoms := b', jumps := ((st.jumps ++ [0]).set c (c - v + lastJump)).set v lastJump,
                  headerIdx := header' st c closer, lastTokenIdx := -2 } (c + 1) := by
  have hc : c < st.ds.length := by
    rcases Nat.lt_or_ge c st.ds.length with h | h
    · exact h
    · rw [List.getElem?_eq_none_iff.mpr h] at hcl; cases hcl
  have hne : v ≠ c := by omega
  have hJlen : (st.jumps ++ [0]).length = c + 1 := by simp [hI.len]
  -- the index before the opener is not strictly inside an old pair
  have hvm1 : 0 < v → NotInside st.ds ((v : Int) - 1) := by
    intro hv0 o d ho he hin
    have hp := hI.pairs o d ho he
    have hev : d.end_ ≠ (v : Int) := by
      intro e
      have : d.end_.toNat = v := by omega
      have := hI.clo o d dv ho he (by rw [this]; exact hdv)
      rw [hvo] at this; cases this
    exact hni o d ho he ⟨by omega, by omega⟩
  have hlj_le : lastJump ≤ v := by
    rcases hlj with h | ⟨h0, h⟩
    · omega
    · rw [h, getD_append_zero]
      have := hI.jle (v - 1) (by omega); omega
  -- where the two rewritten jumps land
  have hland : NotInside st.ds ((v : Int) - (lastJump : Int) - 1) := by
    rcases hlj with h | ⟨h0, h⟩
    · subst h
      by_cases hv0 : 0 < v
      · have := hvm1 hv0; simpa using this
      · intro o d ho he hin; have := hI.pairs o d ho he; omega
    · rw [h, getD_append_zero]
      have := hI.jump (v - 1) (by omega) (by have := hvm1 h0; have e : ((v - 1 : Nat) : Int) = (v : Int) - 1 := by omega
                                             rw [e]; exact this)
      have e : ((v - 1 : Nat) : Int) - ((st.jumps.getD (v - 1) 0 : Nat) : Int) - 1
          = (v : Int) - ((st.jumps.getD (v - 1) 0 + 1 : Nat) : Int) - 1 := by omega
      rw [e] at this; exact this
  have hland' : NotInside (matched st.ds c v) ((v : Int) - (lastJump : Int) - 1) := by
    intro o d ho he hin
    rcases matched_end st.ds c v hne o d ho he with ⟨rfl, _⟩ | ⟨_, d0, h0, h1⟩
    · omega
    · exact hland o d0 h0 (by omega) (by omega)
  refine ⟨by simp [hI.len], by rw [matched_length]; exact hc, ?_, ?_, ?_, ?_, .inl rfl, ?_, ?_, hb, ?_, ?_, ?_⟩
  · -- pairs
    intro o d ho he
    rcases matched_end st.ds c v hne o d ho he with ⟨rfl, h2⟩ | ⟨_, d0, h0, h1⟩
    · rw [h2]; omega
    · have := hI.pairs o d0 h0 (by omega); omega
  · -- laminar
    intro o1 o2 d1 d2 h1 h2 e1 e2 hx
    rcases matched_end st.ds c v hne o1 d1 h1 e1 with ⟨rfl, a2⟩ | ⟨_, p1, a1, a2⟩
    · rcases matched_end st.ds c o1 hne o2 d2 h2 e2 with ⟨rfl, b2⟩ | ⟨_, p2, b1, b2⟩
      · omega
      · have := hI.pairs o2 p2 b1 (by omega); omega
    · rcases matched_end st.ds c v hne o2 d2 h2 e2 with ⟨rfl, b2⟩ | ⟨_, p2, b1, b2⟩
      · exact hni o1 p1 a1 (by omega) ⟨by omega, by omega⟩
      · exact hI.lam o1 o2 p1 p2 a1 b1 (by omega) (by omega) ⟨hx.1, by omega, by omega⟩
  · -- jumps
    intro k hk hnk
    show NotInside (matched st.ds c v) ((k : Int) - (((((st.jumps ++ [0]).set c (c - v + lastJump)).set v lastJump).getD k 0 : Nat) : Int) - 1)
    rw [getD_set _ _ _ _ (by simp [hI.len]; omega), getD_set _ _ _ _ (by simp [hI.len])]
    by_cases hkv : v = k
    · subst hkv; simp only [if_true]; exact hland'
    · simp only [hkv, if_false]
      by_cases hkc : c = k
      · subst hkc
        simp only [if_true]
        have e : (c : Int) - ((c - v + lastJump : Nat) : Int) - 1 = (v : Int) - (lastJump : Int) - 1 := by omega
        rw [e]; exact hland'
      · simp only [hkc, if_false]
        have hk' : k < c := by omega
        -- `k` is not inside the new pair, so it lies before the opener
        have hkv' : k < v := by
          rcases Nat.lt_or_ge k v with h | h
          · exact h
          · exfalso
            exact hnk v _ (matched_get_v st.ds c v hne dv hdv) (by show (0 : Int) ≤ (c : Int); omega) ⟨by omega, by show (k : Int) < (c : Int); omega⟩
        have hold := hI.jump k hk' (notInside_old st.ds c v hne dv hdv hve _ hnk)
        rw [getD_append_zero]
        intro o d ho he hin
        rcases matched_end st.ds c v hne o d ho he with ⟨rfl, _⟩ | ⟨_, d0, h0, h1⟩
        · omega
        · exact hold o d0 h0 (by omega) (by omega)
  · -- jump lengths
    intro k hk
    show (((st.jumps ++ [0]).set c (c - v + lastJump)).set v lastJump).getD k 0 ≤ k
    rw [getD_set _ _ _ _ (by simp [hI.len]; omega), getD_set _ _ _ _ (by simp [hI.len])]
    by_cases hkv : v = k
    · subst hkv; simp only [if_true]; exact hlj_le
    · simp only [hkv, if_false]
      by_cases hkc : c = k
      · subst hkc; simp only [if_true]; omega
      · simp only [hkc, if_false]
        rw [getD_append_zero]
        exact hI.jle k (by omega)
  · show header' st c closer ≤ c + 1
    have := header_le st c closer hI; omega
  · -- tokens
    intro d hd
    obtain ⟨i, hi⟩ := List.getElem?_of_mem hd
    by_cases hiv : i = v
    · subst hiv; rw [matched_get_v st.ds c i hne dv hdv] at hi; cases hi
      exact hI.tok dv (List.mem_of_getElem? hdv)
    · by_cases hic : i = c
      · subst hic; rw [matched_get_c st.ds i v hne closer hcl] at hi; cases hi
        exact hI.tok closer (List.mem_of_getElem? hcl)
      · rw [matched_get_other st.ds c v i hic hiv] at hi
        exact hI.tok d (List.mem_of_getElem? hi)
  · -- matched closers cannot open
    intro o d de ho he hde
    rcases matched_end st.ds c v hne o d ho he with ⟨rfl, h2⟩ | ⟨hov, d0, h0, h1⟩
    · rw [h2] at hde
      have : ((c : Int)).toNat = c := by simp
      rw [this, matched_get_c st.ds c o hne closer hcl] at hde
      cases hde; rfl
    · have hp := hI.pairs o d0 h0 (by omega)
      have hec : d.end_.toNat ≠ c := by omega
      have hev : d.end_.toNat ≠ v := by
        intro e
        have := hI.clo o d0 dv h0 (by omega) (by rw [h1, e]; exact hdv)
        rw [hvo] at this; cases this
      rw [matched_get_other st.ds c v _ hec hev] at hde
      exact hI.clo o d0 de h0 (by omega) (by rw [h1]; exact hde)
  · -- matched openers can open
    intro o d ho he
    by_cases hov : o = v
    · subst hov; rw [matched_get_v st.ds c o hne dv hdv] at ho; cases ho; exact hvo
    · by_cases hoc : o = c
      · subst hoc
        rw [matched_get_c st.ds o v hne closer hcl] at ho; cases ho
        have := hI.pairs o closer hcl he; omega
      · rw [matched_get_other st.ds c v o hoc hov] at ho
        exact hI.opn o d ho he
  · -- one opener per closer
    intro o1 o2 d1 d2 h1 h2 e1 e12
    rcases matched_end st.ds c v hne o1 d1 h1 e1 with ⟨rfl, a2⟩ | ⟨_, p1, a1, a2⟩
    · rcases matched_end st.ds c o1 hne o2 d2 h2 (by omega) with ⟨rfl, _⟩ | ⟨_, p2, b1, b2⟩
      · rfl
      · have := hI.pairs o2 p2 b1 (by omega); omega
    · rcases matched_end st.ds c v hne o2 d2 h2 (by omega) with ⟨rfl, b2⟩ | ⟨_, p2, b1, b2⟩
      · have := hI.pairs o1 p1 a1 (by omega); omega
      · exact hI.inj o1 o2 p1 p2 a1 b1 (by omega) (by omega)

theorem pdStep_inv (st : PDState) (c : Nat) (hI : Inv st c) (hc : c < st.ds.length) : Inv (pdStep st c) (c + 1) := by
  have hcl : st.ds[c]? = some st.ds[c] := List.getElem?_eq_getElem hc
  generalize hcloser : st.ds[c] = closer at hcl
  unfold pdStep
  simp only [hcl]
  have hhdr : (if ((st.ds.getD st.headerIdx closer).marker != closer.marker || st.lastTokenIdx != closer.token - 1) = true then c else st.headerIdx)
      = header' st c closer := rfl
  simp only [hhdr]
  split
  · exact inv_keep st c hI closer hcl st.bottoms hI.bot
  · -- the bottoms with the closer's marker registered
    have hb1 : ∀ p ∈ (if (st.bottoms.find? (·.1 == closer.marker)).isSome then st.bottoms else (closer.marker, [-1, -1, -1, -1, -1, -1]) :: st.bottoms),
        ∀ x ∈ p.2, (-1 : Int) ≤ x := by
      split
      · exact hI.bot
      · intro p hp x hx
        simp only [List.mem_cons] at hp
        rcases hp with rfl | hp
        · simp only [List.mem_cons, List.not_mem_nil, or_false] at hx
          rcases hx with h | h | h | h | h | h <;> (rw [h]; decide)
        · exact hI.bot p hp x hx
    have hJ : ∀ k, k < c + 1 → NotInside st.ds (k : Int) → NotInside st.ds ((k : Int) - (((st.jumps ++ [0]).getD k 0 : Nat) : Int) - 1) := by
      intro k hk hni
      rw [getD_append_zero]
      by_cases hkc : k < c
      · exact hI.jump k hkc hni
      · have : k = c := by omega
        subst this
        have : st.jumps.getD k 0 = 0 := by
          unfold List.getD; rw [List.getElem?_eq_none_iff.mpr (by rw [hI.len]; exact Nat.le_refl _)]; rfl
        rw [this]; exact jump_last st k hI
    have hhle := header_le st c closer hI
    have hhni : NotInside st.ds ((header' st c closer : Nat) : Int) := by
      intro o d ho he hin
      have := header_past st c closer hI hcl o d ho he
      omega
    have hstart := hJ (header' st c closer) (by omega) hhni
    have hjle0 : (st.jumps ++ [0]).getD (header' st c closer) 0 ≤ header' st c closer := by
      rw [getD_append_zero]
      by_cases hk : header' st c closer < c
      · exact hI.jle _ hk
      · have : st.jumps.getD (header' st c closer) 0 = 0 := by
          unfold List.getD; rw [List.getElem?_eq_none_iff.mpr (by rw [hI.len]; omega)]; rfl
        omega
    cases hf : findDelimOpener st.ds (st.jumps ++ [0]) closer
        (bottomGet st.bottoms closer.marker ((if closer.open_ = true then 3 else 0) + closer.length % 3)) (c + 1)
        ((header' st c closer : Int) - (((st.jumps ++ [0]).getD (header' st c closer) 0 : Nat) : Int) - 1) with
    | none =>
      simp only
      exact inv_keep st c hI closer hcl _ (bottomSet_ge _ hb1 _ _ _ (by omega))
    | some v =>
      simp only
      obtain ⟨a1, a2, dv, a3, a4, a5⟩ := find_spec st.ds (st.jumps ++ [0]) closer _ (bottomGet_ge_of st.bottoms hI.bot _ _) (c + 1) hJ (c + 1) _ v
        (by omega) hstart hf
      have hvc : v < c := by omega
      refine inv_match st c hI closer hcl _ hb1 v dv hvc a2 a3 a4 a5 _ ?_
      by_cases hcond : (decide (v > 0) && !(st.ds.getD (v - 1) closer).open_) = true
      · simp only [hcond, if_true]
        simp only [Bool.and_eq_true, decide_eq_true_eq] at hcond
        exact .inr ⟨hcond.1, trivial⟩
      · simp only [hcond, Bool.false_eq_true, if_false]
        exact .inl trivial

/-- the invariant holds of the state the loop starts from -/
theorem inv_init (ds : List Delim) (hend : ∀ d ∈ ds, d.end_ < 0) (htok : ∀ d ∈ ds, 0 ≤ d.token) :
    Inv { ds := ds, bottoms := [], headerIdx := 0, lastTokenIdx := -2, jumps := [] } 0 := by
  refine ⟨rfl, Nat.zero_le _, ?_, ?_, ?_, ?_, .inl rfl, Nat.le_refl _, htok, ?_, ?_, ?_, ?_⟩
  · intro o d ho he; have := hend d (List.mem_of_getElem? ho); omega
  · intro o1 o2 d1 d2 h1 _ e1 _ _; have := hend d1 (List.mem_of_getElem? h1); omega
  · intro k hk; omega
  · intro k hk; omega
  · intro p hp; cases hp
  · intro o d de ho he _; have := hend d (List.mem_of_getElem? ho); omega
  · intro o d ho he; have := hend d (List.mem_of_getElem? ho); omega
  · intro o1 o2 d1 d2 h1 _ e1 _; have := hend d1 (List.mem_of_getElem? h1); omega

theorem foldl_inv (ds0 : List Delim) : ∀ (n : Nat) (st : PDState) (c : Nat), Inv st c → st.ds.length = ds0.length → c + n ≤ ds0.length →
    ∃ st', (List.range' c n).foldl pdStep st = st' ∧ Inv st' (c + n) ∧ st'.ds.length = ds0.length := by
  intro n
  induction n with
  | zero => intro st c hI hl _; exact ⟨st, rfl, hI, hl⟩
  | succ m ih =>
    intro st c hI hl hle
    simp only [List.range'_succ, List.foldl_cons]
    have h1 := pdStep_inv st c hI (by omega)
    have hl1 : (pdStep st c).ds.length = ds0.length := by
      have := h1.cle
      have h2 : (pdStep st c).ds.length = st.ds.length := by
        unfold pdStep
        split
        · rfl
        · simp only
          split
          · rfl
          · split
            · show (List.modify (List.modify _ _ _) _ _).length = _; simp
            · rfl
      rw [h2, hl]
    obtain ⟨st', e1, e2, e3⟩ := ih (pdStep st c) (c + 1) h1 hl1 (by omega)
    exact ⟨st', e1, by have : c + 1 + m = c + (m + 1) := by omega
                       rw [this] at e2; exact e2, e3⟩

/-- **C02.pairs_laminar** — for every delimiter array with unset `end` fields and non-negative token positions, whatever the
markers, run lengths and open/close flags: every pair `(i, end[i])` that `processDelimiters` forms has `i < end[i] < len`, and no two
pairs cross — the spans of emphasis, strong emphasis and strikethrough are nested or disjoint -/
theorem pairs_laminar (ds : List Delim) (hend : ∀ d ∈ ds, d.end_ < 0) (htok : ∀ d ∈ ds, 0 ≤ d.token) :
    (∀ (o : Nat) (d : Delim), (processDelims ds)[o]? = some d → 0 ≤ d.end_ → (o : Int) < d.end_ ∧ d.end_ < (ds.length : Int))
    ∧ Laminar (processDelims ds) ∧ (processDelims ds).length = ds.length := by
  unfold processDelims
  obtain ⟨st', e1, e2, e3⟩ := foldl_inv ds ds.length _ 0 (inv_init ds hend htok) rfl (by omega)
  rw [List.range_eq_range', e1]
  simp only [Nat.zero_add] at e2
  exact ⟨e2.pairs, e2.lam, e3⟩

/-! ### what else the pairs satisfy, and what the function leaves alone -/

/-- marker, token position and run length of every record are untouched; an `end` is either as before or the closer just processed -/
def SameShape (a b : List Delim) : Prop :=
  b.length = a.length ∧ ∀ (i : Nat) (d : Delim), b[i]? = some d →
    ∃ d0, a[i]? = some d0 ∧ d.marker = d0.marker ∧ d.token = d0.token ∧ d.length = d0.length ∧ (d.end_ = d0.end_ ∨ 0 ≤ d.end_)

theorem SameShape.refl (a : List Delim) : SameShape a a := ⟨rfl, fun _ d h => ⟨d, h, rfl, rfl, rfl, .inl rfl⟩⟩

theorem SameShape.trans {a b c : List Delim} (h1 : SameShape a b) (h2 : SameShape b c) : SameShape a c := by
  refine ⟨by rw [h2.1, h1.1], ?_⟩
  intro i d hd
  obtain ⟨d1, a1, a2, a3, a4, a5⟩ := h2.2 i d hd
  obtain ⟨d0, b1, b2, b3, b4, b5⟩ := h1.2 i d1 a1
  refine ⟨d0, b1, a2.trans b2, a3.trans b3, a4.trans b4, ?_⟩
  rcases a5 with h | h
  · rcases b5 with g | g
    · exact .inl (h.trans g)
    · exact .inr (by omega)
  · exact .inr h

theorem matched_shape (ds : List Delim) (c v : Nat) : SameShape ds (matched ds c v) := by
  refine ⟨matched_length ds c v, ?_⟩
  intro i d hd
  unfold matched at hd
  rw [modify_get, modify_get] at hd
  cases hq : ds[i]? with
  | none => rw [hq] at hd; split at hd <;> (split at hd <;> cases hd)
  | some d0 =>
    rw [hq] at hd
    refine ⟨d0, rfl, ?_⟩
    split at hd
    · split at hd
      · simp only [Option.map_some, Option.some.injEq] at hd; subst hd; exact ⟨rfl, rfl, rfl, .inr (by show (0 : Int) ≤ (c : Int); omega)⟩
      · simp only [Option.map_some, Option.some.injEq] at hd; subst hd; exact ⟨rfl, rfl, rfl, .inr (by show (0 : Int) ≤ (c : Int); omega)⟩
    · split at hd
      · simp only [Option.map_some, Option.some.injEq] at hd; subst hd; exact ⟨rfl, rfl, rfl, .inl rfl⟩
      · cases hd; exact ⟨rfl, rfl, rfl, .inl rfl⟩

theorem pdStep_shape (st : PDState) (c : Nat) : SameShape st.ds (pdStep st c).ds := by
  unfold pdStep
  split
  · exact SameShape.refl _
  · simp only
    split
    · exact SameShape.refl _
    · split
      · exact matched_shape _ _ _
      · exact SameShape.refl _

theorem foldl_shape : ∀ (l : List Nat) (st : PDState), SameShape st.ds (l.foldl pdStep st).ds := by
  intro l
  induction l with
  | nil => intro st; exact SameShape.refl _
  | cons c rest ih => intro st; simp only [List.foldl_cons]; exact (pdStep_shape st c).trans (ih _)

/-- **C02.pairs_facts** — every record keeps its marker, token position and run length; an `end` is −1 as before or a valid index; a
closer closes one opener; no delimiter is both the opener of one pair and the closer of another -/
theorem pairs_facts (ds : List Delim) (hend : ∀ d ∈ ds, d.end_ = -1) (htok : ∀ d ∈ ds, 0 ≤ d.token) :
    SameShape ds (processDelims ds)
    ∧ (∀ (i : Nat) (d : Delim), (processDelims ds)[i]? = some d → d.end_ = -1 ∨ ((i : Int) < d.end_ ∧ d.end_ < (ds.length : Int)))
    ∧ (∀ (o1 o2 : Nat) (d1 d2 : Delim), (processDelims ds)[o1]? = some d1 → (processDelims ds)[o2]? = some d2 → 0 ≤ d1.end_ →
        d1.end_ = d2.end_ → o1 = o2)
    ∧ (∀ (o o2 : Nat) (d d2 : Delim), (processDelims ds)[o]? = some d → (processDelims ds)[o2]? = some d2 → 0 ≤ d.end_ → 0 ≤ d2.end_ →
        d2.end_ ≠ (o : Int)) := by
  have hend' : ∀ d ∈ ds, d.end_ < 0 := fun d hd => by rw [hend d hd]; decide
  have hshape : SameShape ds (processDelims ds) := by unfold processDelims; exact foldl_shape _ _
  unfold processDelims at *
  obtain ⟨st', e1, e2, e3⟩ := foldl_inv ds ds.length _ 0 (inv_init ds hend' htok) rfl (by omega)
  rw [List.range_eq_range'] at *
  rw [e1] at hshape ⊢
  simp only [Nat.zero_add] at e2
  refine ⟨hshape, ?_, e2.inj, ?_⟩
  · intro i d hd
    obtain ⟨d0, a1, _, _, _, a5⟩ := hshape.2 i d hd
    rcases a5 with h | h
    · left; rw [h]; exact hend d0 (List.mem_of_getElem? a1)
    · right; exact e2.pairs i d hd h
  · intro o o2 d d2 ho ho2 he he2 heq
    have h1 := e2.opn o d ho he
    have h2 := e2.clo o2 d2 d ho2 he2 (by rw [heq]; simpa using ho)
    rw [h1] at h2; cases h2

/-! non-vacuity: `*a _b* c_` — the second pair would cross the first and is not formed; `**a *b* c**` — nested pairs -/
def dl (marker length : Nat) (token : Int) (o c : Bool) : Delim := { marker := marker, length := length, token := token, end_ := -1, open_ := o, close := c }

example : (processDelims [dl 42 1 0 true false, dl 95 1 2 true false, dl 42 1 4 false true, dl 95 1 6 false true]).map (·.end_) = [2, -1, -1, -1] := by
  decide

example : (processDelims [dl 42 2 0 true false, dl 42 2 1 true false, dl 42 1 3 true false, dl 42 1 5 false true, dl 42 2 7 false true, dl 42 2 8 false true]).map (·.end_)
    = [5, 4, 3, -1, -1, -1] := by decide

example : (∀ d ∈ [dl 42 1 0 true false, dl 95 1 2 true false, dl 42 1 4 false true, dl 95 1 6 false true], d.end_ < 0) ∧
    (∀ d ∈ [dl 42 1 0 true false, dl 95 1 2 true false, dl 42 1 4 false true, dl 95 1 6 false true], 0 ≤ d.token) := by decide

end MdIt.C02e
