import MdIt.Props.C04c
import MdIt.Props.C10o
/-!
# C04 (continued) — with `html` off nothing raw reaches the output, end to end with the `table` rule

`fullT_no_html` (from `C10.fullT_types`: with the `html` option off no `html_block` at block level and no `html_inline` below any inline
token — table cells included) and, through `C04.no_raw`, **`fullT_render_no_raw`**: `MarkdownIt.render` on documents with tables emits no
raw pass-through piece.  (The renderer model's vocabulary holds the table tags and the `style` attribute — T1 `table_tags` / `table_keys`;
the HTML of whole documents with tables is compared by the `fullparset`-based ties of C04 / C18.)
-/
namespace MdIt.C04
open MdIt.C01 MdIt.C05 MdIt.C10

theorem fullT_no_html (cls : QCls) (ext : IExt) (lx : LExt) (tc : TCfg) (hnr : tc.reference = false) (ic : ICfg) (hon : ic.inlineOn = true)
    (hoff : ext.html = false) (hoffb : tc.html = false)
    (ws : List Nat) (mn : Int) (d : Nat) (src : List Char) (ts : List Tok) (refs dups)
    (h : fullParseT cls ext lx tc ic ws mn d src = .ok (ts, refs, dups)) :
    ∀ t ∈ ts, t.type ≠ "html_block" ∧ t.type ≠ "html_inline"
      ∧ (t.type = "inline" → ∀ x ∈ descOpt t.children, x.type ≠ "html_inline" ∧ x.type ≠ "html_block") := by
  have hT := fullT_types cls ext lx tc hnr ic hon (Q := fun ty => ty ≠ "html_inline" ∧ ty ≠ "html_block") (by decide) (fun _ => by decide)
    (fun _ => by decide)
    (by intro ty hty
        simp only [emphTypes, emTypes, sTypes, List.mem_append] at hty
        rcases hty with hty | hty <;> split at hty <;> simp at hty <;> rcases hty with rfl | rfl | rfl | rfl <;> decide)
    ⟨fun _ => by decide, fun _ => by decide, fun _ => by decide, fun _ => by decide, fun _ => by decide,
     fun _ hx => by rw [hoff] at hx; cases hx⟩ ws mn d src ts refs dups h
  intro t ht
  have hmem := (hT t ht).1
  have hnb : t.type ≠ "html_block" ∧ t.type ≠ "html_inline" := by
    obtain ⟨⟨⟨⟨code, fence, hr, heading⟩, htmlBlock, lheading, html⟩, reference, inlineDefs⟩, table⟩ := tc
    simp only at hoffb hnr
    subst hoffb
    subst hnr
    clear h hT
    constructor <;> intro he <;> rw [he] at hmem <;> revert hmem <;>
      cases code <;> cases fence <;> cases hr <;> cases heading <;> cases htmlBlock <;> cases lheading <;> cases table <;> cases inlineDefs <;> decide
  exact ⟨hnb.1, hnb.2, (hT t ht).2⟩

/-- **C04.fullT_render_no_raw** -/
theorem fullT_render_no_raw (cls : QCls) (ext : IExt) (lx : LExt) (tc : TCfg) (hnr : tc.reference = false) (ic : ICfg) (hon : ic.inlineOn = true)
    (hoff : ext.html = false) (hoffb : tc.html = false) (ws : List Nat) (mn : Int) (d : Nat) (src : List Char) (ts : List Tok) (refs dups)
    (h : fullParseT cls ext lx tc ic ws mn d src = .ok (ts, refs, dups)) (x : Ext) (o : ROpts) (ps : List Piece) (hr : renderP x o none ts = .ok ps) :
    ∀ p ∈ ps, isRaw p = false := by
  have hT := fullT_no_html cls ext lx tc hnr ic hon hoff hoffb ws mn d src ts refs dups h
  refine no_raw x o ts ps ?_ hr
  have key : ∀ (l : List Tok), (∀ t ∈ l, t ∈ ts) → ∀ t ∈ visible l, (t.type == "html_block" || t.type == "html_inline") = false := by
    intro l
    induction l with
    | nil => intro _ t ht; cases ht
    | cons u rest ih =>
      intro hsub t ht
      simp only [visible, List.mem_append] at ht
      rcases ht with ht | ht
      · have hu := hT u (hsub u List.mem_cons_self)
        split at ht
        · rename_i hinl
          have hty : u.type = "inline" := by simpa using hinl
          cases hc : u.children with
          | none => rw [hc] at ht; simp at ht
          | some cs =>
            rw [hc] at ht
            simp only [Option.getD_some] at ht
            have := hu.2.2 hty t (by rw [hc]; simpa only [descOpt] using mem_descList_self t cs ht)
            simp [this.1, this.2]
        · simp only [List.mem_singleton] at ht
          subst ht
          simp [hu.1, hu.2.1]
      · exact ih (fun v hv => hsub v (List.mem_cons_of_mem _ hv)) t ht
  exact key ts (fun t ht => ht)

end MdIt.C04
