import MdIt.Block
import MdIt.Props.C01
/-!
# C03 — source maps are in range, non-empty, nested and ordered, and cover the input

Engine-level theorem: under the map contract of the rules (monitored on every real rule call), the
tokens a block loop adds come in *stages*: stage i holds the tokens pushed by the rule dispatched at
line aᵢ, all their maps lie in `[aᵢ, bᵢ)` with `aᵢ < bᵢ`, and `bᵢ ≤ aᵢ₊₁`: maps are in range,
non-empty, ordered and pairwise disjoint between sibling blocks, and inside the loop's own range —
which for a container is the range its rule patches into the container token's map.
-/
namespace MdIt.C03

/-- every map in the segment lies in `[a, b)` and is non-empty -/
def MapsIn (a b : Nat) (seg : List Tok) : Prop :=
  ∀ t ∈ seg, ∀ x y, t.map = some (x, y) → a ≤ x ∧ x < y ∧ y ≤ b

/-- the map contract of a rule: a match appends a segment whose maps lie in `[line, state.line)`; a
    miss appends nothing -/
structure MapOK (P : BState → Nat → Prop) (r : BRule) : Prop where
  hit : ∀ s line endLine s', CallCtx P s line endLine → r s line endLine false = .ok (true, s') →
    ∃ seg, s'.tokens = s.tokens ++ seg ∧ MapsIn line s'.line seg
  miss : ∀ s line endLine s', CallCtx P s line endLine → r s line endLine false = .ok (false, s') → s'.tokens = s.tokens

/-- tokens added in stages with increasing, disjoint line ranges inside `[lo, hi]` -/
inductive Staged : Nat → Nat → List Tok → Prop where
  | nil (lo hi : Nat) : Staged lo hi []
  | stage {lo hi : Nat} (a b : Nat) (seg rest : List Tok) :
      lo ≤ a → a < b → b ≤ hi → MapsIn a b seg → Staged b hi rest → Staged lo hi (seg ++ rest)

theorem Staged.weaken {lo lo' hi : Nat} {ts : List Tok} (h : Staged lo hi ts) (hl : lo' ≤ lo) : Staged lo' hi ts := by
  cases h with
  | nil => exact .nil _ _
  | stage a b seg rest h1 h2 h3 h4 h5 => exact .stage a b seg rest (Nat.le_trans hl h1) h2 h3 h4 h5

/-- every map of a staged list is inside `[lo, hi]` and non-empty -/
theorem Staged.mapsIn {lo hi : Nat} {ts : List Tok} (h : Staged lo hi ts) : MapsIn lo hi ts := by
  induction h with
  | nil => intro t ht; cases ht
  | stage a b seg rest h1 h2 h3 h4 _ ih =>
    intro t ht x y hm
    rcases List.mem_append.1 ht with ht | ht
    · have := h4 t ht x y hm; omega
    · have := ih t ht x y hm; omega

theorem chain_tokens (P : BState → Nat → Prop) (hP : FrameClosed P) (rules : List BRule) (hok : ∀ r ∈ rules, RuleOK P r)
    (hmap : ∀ r ∈ rules, MapOK P r)
    (s : BState) (line endLine : Nat) (m : Bool) (s' : BState) (hc : CallCtx P s line endLine)
    (h : runBlockChain rules s line endLine = .ok (m, s')) :
    ∃ seg, s'.tokens = s.tokens ++ seg ∧ (m = true → MapsIn line s'.line seg) ∧ (m = false → seg = []) := by
  induction rules generalizing s with
  | nil => simp [runBlockChain] at h; obtain ⟨rfl, rfl⟩ := h; exact ⟨[], by simp, by simp, by simp⟩
  | cons r rest ih =>
    have hr := hok r (by simp)
    have hm := hmap r (by simp)
    obtain ⟨m1, s1, hrs⟩ := hr.total s line endLine hc
    simp only [runBlockChain, hrs] at h
    cases m1 with
    | true =>
      simp only [Except.ok.injEq, Prod.mk.injEq] at h
      obtain ⟨rfl, rfl⟩ := h
      obtain ⟨seg, h1, h2⟩ := hm.hit _ _ _ _ hc hrs
      exact ⟨seg, h1, fun _ => h2, by simp⟩
    | false =>
      simp only at h
      obtain ⟨seg, h1, h2, h3⟩ := ih (fun q hq => hok q (by simp [hq])) (fun q hq => hmap q (by simp [hq])) s1
        (hc.transfer hP (hr.frame _ _ _ _ _ hc hrs) (hr.miss _ _ _ _ hc hrs)) h
      exact ⟨seg, by rw [h1, hm.miss _ _ _ _ hc hrs], h2, h3⟩

/-- **C03.loop_maps_staged** — whatever the rule chain (contracts assumed), whenever a block loop
over `[line, endLine)` returns, the tokens it added are staged inside `[line, lineMax]`: their maps
are in range, non-empty, and sibling blocks never overlap or go backwards.  (The bound is `lineMax`, not
`endLine`: the last block of a nested range may legitimately end beyond it — see `RuleOK.progress`; for a
top-level loop the two coincide.) -/
theorem loop_maps_staged (P : BState → Nat → Prop) (hP : FrameClosed P) (rules : List BRule) (hok : ∀ r ∈ rules, RuleOK P r)
    (hmap : ∀ r ∈ rules, MapOK P r) (maxNesting : Int) (endLine : Nat) :
    ∀ (fuel line : Nat) (hasEmpty : Bool) (s s' : BState), s.lineMax + 1 ≤ s.lines.length → endLine ≤ s.lineMax →
      P s endLine → blockLoop rules maxNesting endLine fuel line hasEmpty s = .ok s' →
      ∃ new, s'.tokens = s.tokens ++ new ∧ Staged line s.lineMax new := by
  intro fuel
  induction fuel with
  | zero =>
    intro line _ s s' _ _ _ h
    simp only [blockLoop] at h
    split at h
    · cases h
    · simp only [Except.ok.injEq] at h; subst h; exact ⟨[], by simp, .nil _ _⟩
  | succ n ih =>
    intro line hasEmpty s s' hlen hend hPs h
    simp only [blockLoop] at h
    split at h
    · rename_i hlt
      have hsk := C01.skipEmptyLines_spec s (s.lineMax + 1) line hlen (by omega)
      generalize hl1 : skipEmptyLines s (s.lineMax + 1) line = line1 at hsk h
      split at h
      · simp only [Except.ok.injEq] at h; subst h; exact ⟨[], by simp, .nil _ _⟩
      · split at h
        · cases h
        · split at h
          · simp only [Except.ok.injEq] at h; subst h; exact ⟨[], by simp, .nil _ _⟩
          · split at h
            · simp only [Except.ok.injEq] at h; subst h; exact ⟨[], by simp, .nil _ _⟩
            · split at h
              · cases h
              · rename_i mm s2 hc
                have hctx : CallCtx P { s with line := line1 } line1 endLine := by
                  rename_i hnge optl l hl hnout hlev hx
                  have hlt1 : line1 < s.lineMax := by omega
                  obtain ⟨l', hl', hne'⟩ := hsk.2 hlt1
                  have hll : l' = l := by
                    have : s.lines[line1]? = some l := hl
                    rw [this] at hl'; exact (Option.some.inj hl').symm
                  subst hll
                  exact ⟨hlen, by omega, hend, ⟨l', hl, hne', by simpa using hnout⟩, rfl, hP s _ _ ⟨⟨rfl, rfl⟩, rfl, rfl, rfl⟩ hPs⟩
                obtain ⟨m', s2', hc', hfr2, hprog, hmiss⟩ := C01.chain_ok P hP rules hok { s with line := line1 } line1 endLine hctx
                rw [hc] at hc'
                simp only [Except.ok.injEq, Prod.mk.injEq] at hc'
                obtain ⟨rfl, rfl⟩ := hc'
                obtain ⟨seg, hseg, hmaps, _⟩ := chain_tokens P hP rules hok hmap _ _ _ _ _ hctx hc
                split at h
                · cases h
                · rename_i hnle
                  have hgt : line1 < s2.line := by omega
                  -- the chain matched (a miss would have left line = line1)
                  have hm : mm = true := by
                    cases mm with
                    | true => rfl
                    | false => have := hmiss rfl; simp at this; omega
                  have hp := hprog hm
                  have hlen2 : s2.lineMax + 1 ≤ s2.lines.length := by rw [hfr2.1.1, hfr2.2.1]; exact hlen
                  have hend2 : endLine ≤ s2.lineMax := by rw [hfr2.2.1]; exact hend
                  have hstage := hmaps hm
                  -- all continuations recurse on a state with the same tokens as s2
                  have fin : ∀ (l' : Nat) (he : Bool) (st : BState), st.tokens = s2.tokens → st.lineMax + 1 ≤ st.lines.length →
                      endLine ≤ st.lineMax → s2.FrameEq st → s2.line ≤ l' →
                      blockLoop rules maxNesting endLine n l' he st = .ok s' →
                      ∃ new, s'.tokens = s.tokens ++ new ∧ Staged line s.lineMax new := by
                    intro l' he st htok hl hE hfe hle hrec
                    have hPst : P st endLine := hP _ _ _ hfe (hP _ _ _ hfr2 (hP s _ _ ⟨⟨rfl, rfl⟩, rfl, rfl, rfl⟩ hPs))
                    obtain ⟨new', hn1, hn2⟩ := ih l' he st s' hl hE hPst hrec
                    refine ⟨seg ++ new', ?_, ?_⟩
                    · rw [hn1, htok, hseg]; simp
                    · have hlm : st.lineMax = s.lineMax := by rw [hfe.2.1, hfr2.2.1]
                      rw [hlm] at hn2
                      exact .stage line1 s2.line seg new' hsk.1 hgt hp.2 hstage (hn2.weaken hle)
                  split at h
                  · cases h
                  · split at h
                    · split at h
                      · cases h
                      · split at h
                        · exact fin (s2.line + 1) _ { s2 with tight := !hasEmpty, line := s2.line + 1 } rfl hlen2 hend2 ⟨⟨rfl, rfl⟩, rfl, rfl, rfl⟩ (by omega) h
                        · exact fin s2.line _ { s2 with tight := !hasEmpty } rfl hlen2 hend2 ⟨⟨rfl, rfl⟩, rfl, rfl, rfl⟩ (Nat.le_refl _) h
                    · exact fin s2.line _ { s2 with tight := !hasEmpty } rfl hlen2 hend2 ⟨⟨rfl, rfl⟩, rfl, rfl, rfl⟩ (Nat.le_refl _) h
    · simp only [Except.ok.injEq] at h; subst h; exact ⟨[], by simp, .nil _ _⟩

/-- **C03.container_map** — a container rule (block quote, list item) runs a nested loop over
`[startLine, nextLine)` and afterwards patches the end line of its own map to `state.line`: every
map inside is then enclosed by the container's map `[startLine, state.line)`, provided the nested
loop ended on `state.line` (the patch) — maps nest. -/
theorem container_map (startLine stateLine : Nat) (inner : List Tok) (h : Staged startLine stateLine inner) :
    ∀ t ∈ inner, ∀ x y, t.map = some (x, y) → startLine ≤ x ∧ y ≤ stateLine := by
  intro t ht x y hm
  have := h.mapsIn t ht x y hm
  omega

end MdIt.C03
