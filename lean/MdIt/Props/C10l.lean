import MdIt.Props.C10g
/-!
# C10 (continued) — `store_labels` only adds label metadata

Token metadata in the whole parse (modelled sub-language): with `store_labels` off no token, at any depth, carries metadata; with it on,
whatever metadata a token carries is exactly one `label` entry with a non-empty label (written by `link` / `image` on a reference form).
The deep token engine with a predicate on `meta` that does not look at the type (so that it survives the retyping of the second chain).
-/
namespace MdIt.C10
open MdIt.C01 MdIt.C05

/-- empty metadata, or exactly one label entry — and that only with the option on -/
def MetaOK (lx : LExt) (t : Tok) : Prop :=
  t.metaD = [] ∨ (lx.storeLabels = true ∧ ∃ l : List Char, l ≠ [] ∧ t.metaD = [("label", String.ofList l)])

theorem metaOK_of_label (lx : LExt) (t : Tok) (label : List Char)
    (h : t.metaD = (if !label.isEmpty && lx.storeLabels then [("label", String.ofList label)] else [])) : MetaOK lx t := by
  by_cases hc : (!label.isEmpty && lx.storeLabels) = true
  · rw [if_pos hc] at h
    simp only [Bool.and_eq_true, Bool.not_eq_eq_eq_not, Bool.not_true] at hc
    exact .inr ⟨hc.2, label, by intro he; rw [he] at hc; simp at hc, h⟩
  · rw [if_neg hc] at h
    exact .inl h

/-- the predicate the engine carries: what `MetaOK` says, of the tokens of the two rules that can write metadata -/
def LMeta (lx : LExt) (t : Tok) : Prop := (t.type = "link_open" ∨ t.type = "image") → MetaOK lx t

theorem lmeta_other (lx : LExt) (t : Tok) (h1 : t.type ≠ "link_open") (h2 : t.type ≠ "image") : LMeta lx t :=
  fun h => by rcases h with h | h <;> contradiction

theorem lmeta_closed (lx : LExt) (strike emphasis : Bool) : TokClosed (LMeta lx) (emphTypes strike emphasis) := by
  refine ⟨fun _ _ => lmeta_other lx _ (by simp [mkInlineTok, Tok.type]) (by simp [mkInlineTok, Tok.type]), ?_, ?_, ?_⟩
  · intro t l h; cases t; exact h
  · intro t c h; cases t; exact h
  · intro t ty tag n mk _ hty
    apply lmeta_other
    · simp only [setEmph_type]; intro he; subst he
      simp only [emphTypes, emTypes, sTypes, List.mem_append] at hty
      rcases hty with hty | hty <;> split at hty <;> simp at hty
    · simp only [setEmph_type]; intro he; subst he
      simp only [emphTypes, emTypes, sTypes, List.mem_append] at hty
      rcases hty with hty | hty <;> split at hty <;> simp at hty

theorem lmeta_joinClosed (lx : LExt) : JoinClosed (LMeta lx) :=
  ⟨fun t _ h => by cases t; exact h, fun t _ h => by cases t; exact h,
   fun _ _ _ _ _ _ _ _ _ _ _ _ _ => lmeta_other lx _ (by simp [Tok.type]) (by simp [Tok.type])⟩

theorem lmeta_linkN (ext : IExt) (lx : LExt) : LinkN ext lx (Deep (LMeta lx)) :=
  ⟨fun t hc h => deep_flat t hc (lmeta_other lx t (by rcases h with h | h <;> rw [h] <;> decide) (by rcases h with h | h <;> rw [h] <;> decide)),
   fun t _ label hc _ _ hmd _ => deep_flat t hc (fun _ => metaOK_of_label lx t label hmd)⟩

theorem lmeta_imageN (ext : IExt) (lx : LExt) : ImageN ext lx (Deep (LMeta lx)) := by
  refine ⟨fun t hc hty => deep_flat t hc (lmeta_other lx t (by rw [hty]; decide) (by rw [hty]; decide)), ?_⟩
  intro t src cs label _ _ _ hmd hch hcs
  refine ⟨fun _ => metaOK_of_label lx t label hmd, ?_⟩
  intro c hc
  have hd : descendants t = descOpt t.children := by cases t; rfl
  rw [hd] at hc
  rcases hch with hch | hch
  · rw [hch] at hc; simp [descOpt] at hc
  · rw [hch] at hc; exact deep_list cs hcs c hc

theorem lmeta_leafN (ext : IExt) (lx : LExt) (newline escape backticks autolink htmlInline entity : Bool) :
    LeafN ext (Deep (LMeta lx)) newline escape backticks autolink htmlInline entity := by
  have o : ∀ (ty tag : String) (n lvl : Int) (c m i : String), ty ≠ "link_open" → ty ≠ "image" → Deep (LMeta lx) (mkInlineTok ty tag n lvl c m i) :=
    fun ty tag n lvl c m i h1 h2 => deep_flat _ rfl (lmeta_other lx _ (by simpa [mkInlineTok, Tok.type] using h1) (by simpa [mkInlineTok, Tok.type] using h2))
  refine ⟨fun _ _ => o _ _ _ _ _ _ _ (by decide) (by decide), fun _ _ => o _ _ _ _ _ _ _ (by decide) (by decide),
    fun _ _ _ _ => o _ _ _ _ _ _ _ (by decide) (by decide), fun _ _ _ _ => o _ _ _ _ _ _ _ (by decide) (by decide), ?_,
    fun _ _ => o _ _ _ _ _ _ _ (by decide) (by decide), fun _ _ _ _ => o _ _ _ _ _ _ _ (by decide) (by decide),
    fun _ _ _ _ => o _ _ _ _ _ _ _ (by decide) (by decide)⟩
  intro _ lvl u _
  exact deep_flat _ rfl (fun _ => .inl rfl)

/-- **C10.full_meta** — `store_labels` only adds label metadata: in the whole parse (modelled sub-language, `inline` on), below every
`inline` token and at every depth of nested image descriptions, a `link_open` / `image` token carries no metadata when the option is off,
and when it is on at most one entry, `label`, with a non-empty label -/
theorem full_meta (cls : QCls) (ext : IExt) (lx : LExt) (bc : MCfg) (ic : ICfg) (hon : ic.inlineOn = true) (ws : List Nat) (mn : Int) (d : Nat)
    (src : List Char) (ts : List Tok) (h : fullParse cls ext lx bc ic ws mn d src = .ok ts) :
    ∀ t ∈ ts, t.type = "inline" → ∀ x ∈ descOpt t.children, (x.type = "link_open" ∨ x.type = "image") → MetaOK lx x := by
  unfold fullParse at h
  cases hb : mParse bc ws mn src with
  | error e => rw [hb] at h; cases h
  | ok bts =>
    rw [hb] at h
    simp only [hon, if_true] at h
    cases hc : coreInline (inlineOf cls ext lx ic mn d) bts with
    | error e => rw [hc] at h; cases h
    | ok its =>
      rw [hc] at h
      simp only [Except.ok.injEq] at h
      have hparse : ∀ c cs, inlineOf cls ext lx ic mn d c = .ok cs → ∀ x ∈ descList cs, LMeta lx x := by
        intro c cs hp
        unfold inlineOf at hp
        exact deep_list cs (imgParse_toksD cls ext lx ic.text ic.newline ic.escape ic.backticks ic.strike ic.emphasis ic.link ic.image ic.autolink
          ic.htmlInline ic.entity ic.fragJoin mn (lmeta_linkN ext lx).text (fun _ => lmeta_linkN ext lx) (fun _ => lmeta_imageN ext lx)
          (lmeta_leafN ext lx ic.newline ic.escape ic.backticks ic.autolink ic.htmlInline ic.entity)
          (deep_closed (lmeta_closed lx ic.strike ic.emphasis)) d c cs hp)
      have h1 := coreInline_deep (N := LMeta lx) (bts.map Tok.type) _ hparse bts its (fun b hb => List.mem_map.2 ⟨b, hb, rfl⟩) hc
      have h2 : ∀ t ∈ ts, t.type ∈ bts.map Tok.type ∧ InlineDeep (LMeta lx) t := by
        subst h
        split
        · exact textJoin_deep (lmeta_joinClosed lx) _ _ h1
        · exact h1
      intro t ht hty x hx hlx
      exact (h2 t ht).2 hty x hx hlx

end MdIt.C10
