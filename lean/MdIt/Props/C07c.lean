import MdIt.Props.C07b
import MdIt.Props.C02d
/-!
# C06 / C07 (continued) — the list rule in the simulation: the laws for the chains with both containers

`sh_list`: the list rule preserves the relation `TR` of `Props/C07b.lean` (line tables equal up to `bsCount` from index `n` on, lines
shifted by `n`, levels by `k`, tokens shifted after unrelated prefixes).  With it `lChain_shs`, and the two laws for the
sub-parser `code, fence, blockquote, hr, list, heading, paragraph`: `l_suffix_shift` (C07) and `l_quote_law` (C06).
-/
namespace MdIt.C07
open MdIt.C01 MdIt.C06

/-! ### `markTightParagraphs` on related token lists -/

theorem markTightGo_fuel (level : Int) : ∀ (f f' i : Nat) (ts : List Tok), ts.length ≤ i + f → ts.length ≤ i + f' →
    markTightGo level f i ts = markTightGo level f' i ts := by
  intro f
  induction f with
  | zero =>
    intro f' i ts h1 _
    cases f' with
    | zero => rfl
    | succ m =>
      have : ¬ (i + 2 < ts.length) := by omega
      simp only [markTightGo, this, if_false]
  | succ m ih =>
    intro f' i ts h1 h2
    cases f' with
    | zero =>
      have : ¬ (i + 2 < ts.length) := by omega
      simp only [markTightGo, this, if_false]
    | succ m' =>
      simp only [markTightGo]
      split
      · split
        · split
          · exact ih m' (i + 3) _ (by simp only [List.length_modify]; omega) (by simp only [List.length_modify]; omega)
          · exact ih m' (i + 1) _ (by omega) (by omega)
        · rfl
      · rfl

theorem modify_append_right {α} (a b : List α) (j : Nat) (f : α → α) : (a ++ b).modify (a.length + j) f = a ++ b.modify j f := by
  induction a with
  | nil => simp
  | cons x xs ih =>
    simp only [List.cons_append, List.length_cons]
    have : xs.length + 1 + j = (xs.length + j) + 1 := by omega
    rw [this, List.modify_succ_cons, ih]

theorem markTightGo_prefix (level : Int) (a : List Tok) : ∀ (f i : Nat) (b : List Tok),
    markTightGo level f (a.length + i) (a ++ b) = a ++ markTightGo level f i b := by
  intro f
  induction f with
  | zero => intro i b; rfl
  | succ m ih =>
    intro i b
    simp only [markTightGo]
    have c0 : (a.length + i + 2 < (a ++ b).length) = (i + 2 < b.length) := by
      simp only [List.length_append]; exact propext ⟨fun h => by omega, fun h => by omega⟩
    have e0 : (a ++ b)[a.length + i]? = b[i]? := by
      rw [List.getElem?_append_right (by omega)]; congr 1; omega
    simp only [c0, e0]
    split
    · cases hb : b[i]? with
      | none => rfl
      | some t =>
        simp only
        split
        · have e1 : a.length + i + 2 = a.length + (i + 2) := by omega
          have e3 : a.length + i + 3 = a.length + (i + 3) := by omega
          rw [e1, modify_append_right, modify_append_right, e3]
          exact ih _ _
        · have e1 : a.length + i + 1 = a.length + (i + 1) := by omega
          rw [e1]; exact ih _ _
    · rfl

theorem shift2_setHidden (k : Int) (n : Nat) (t : Tok) (h : Bool) : (t.setHidden h).shift2 k n = (t.shift2 k n).setHidden h := by cases t; rfl
@[simp] theorem shift2_levelk (k : Int) (n : Nat) (t : Tok) : (t.shift2 k n).level = t.level + k := by cases t; rfl

theorem map_modify_hidden (k : Int) (n : Nat) (b : List Tok) (j : Nat) :
    (b.map (Tok.shift2 k n)).modify j (·.setHidden true) = (b.modify j (·.setHidden true)).map (Tok.shift2 k n) := by
  induction b generalizing j with
  | nil => simp
  | cons t rest ih =>
    cases j with
    | zero => simp [shift2_setHidden]
    | succ j => simp [ih]

theorem markTightGo_map (k : Int) (n : Nat) (level : Int) : ∀ (f i : Nat) (b : List Tok),
    markTightGo (level + k) f i (b.map (Tok.shift2 k n)) = (markTightGo level f i b).map (Tok.shift2 k n) := by
  intro f
  induction f with
  | zero => intro i b; rfl
  | succ m ih =>
    intro i b
    simp only [markTightGo, List.length_map, List.getElem?_map]
    split
    · cases hb : b[i]? with
      | none => rfl
      | some t =>
        simp only [Option.map_some, shift2_levelk, shift2_type]
        have c : (t.level + k == level + k) = (t.level == level) := by
          by_cases h : t.level = level
          · subst h; simp
          · have h2 : t.level + k ≠ level + k := by omega
            rw [beq_eq_false_iff_ne.2 h, beq_eq_false_iff_ne.2 h2]
        rw [c]
        split
        · rw [map_modify_hidden, map_modify_hidden]; exact ih _ _
        · exact ih _ _
    · rfl

/-- `markTightParagraphs` on the two sides of the relation: unrelated prefixes, then the same segment shifted -/
theorem markTight_rel (k : Int) (n : Nat) (level : Int) (a a' seg : List Tok) :
    markTight (level + k) a'.length (a' ++ seg.map (Tok.shift2 k n))
      = a' ++ (markTightGo (level + 2) seg.length 2 seg).map (Tok.shift2 k n)
    ∧ markTight level a.length (a ++ seg) = a ++ markTightGo (level + 2) seg.length 2 seg := by
  unfold markTight
  constructor
  · rw [markTightGo_prefix, markTightGo_fuel _ (a' ++ seg.map (Tok.shift2 k n)).length seg.length 2 _ (by simp; omega) (by simp)]
    have : level + k + 2 = level + 2 + k := by omega
    rw [this, markTightGo_map]
  · rw [markTightGo_prefix, markTightGo_fuel _ (a ++ seg).length seg.length 2 _ (by simp; omega) (by omega)]

/-! ### one list item -/

theorem lLoop_notab (bs bs' : Nat) : ∀ (text : List Char) (off : Int) (m : Nat), '\t' ∉ text →
    lLoop bs off text m = lLoop bs' off text m := by
  intro text
  induction text with
  | nil => intro off m _; rfl
  | cons c cs ih =>
    intro off m hnt
    have hc : c ≠ '\t' := fun e => hnt (by simp [e])
    have hcs : '\t' ∉ cs := fun e => hnt (by simp [e])
    simp only [lLoop, hc, if_false]
    split
    · exact ih _ _ hcs
    · rfl

theorem isEmpty_shI {tt pp k n spre pre s s'} (h : TR tt pp k n spre pre s s') (i : Nat) (j j' : Int) (hj : j = (i : Int)) (hj' : j' = ((i + n : Nat) : Int)) :
    s'.isEmpty j' = s.isEmpty j := by
  subst hj; subst hj'; exact isEmpty_sh h i

theorem TR.toTight {tt pp k n spre pre s s'} (h : TR tt pp k n spre pre s s') (ht : s'.tight = s.tight) : TR true pp k n spre pre s s' :=
  ⟨h.lines, h.len, h.notab, h.line, h.lineMax, h.blkIndent, h.level, h.listIndent, (fun _ => ht), h.parent, h.tokens⟩

theorem listNested_sh {k n} {inner inner' : List BRule} (hin : ShSims k n inner inner') (mn : Int) (endLine : Nat) {pp spre pre s2 s2'}
    (startLine : Nat) (ce : Bool) (s3 : BState) (hsr : TR true pp k n spre pre s2 s2')
    (h : listNested inner mn endLine s2 startLine ce = .ok s3) :
    ∃ s3', listNested inner' (mn + k) (endLine + n) s2' (startLine + n) ce = .ok s3' ∧ TR true pp k n spre pre s3 s3' := by
  unfold listNested at h ⊢
  have e1 : (if ce = true then s2'.isEmpty (((startLine + n : Nat) : Int) + 1) else Except.ok false)
      = (if ce = true then s2.isEmpty ((startLine : Int) + 1) else Except.ok false) := by
    split
    · exact isEmpty_shI hsr (startLine + 1) _ _ (by omega) (by omega)
    · rfl
  rw [e1]
  cases hq : (if ce = true then s2.isEmpty ((startLine : Int) + 1) else Except.ok false) with
  | error e => rw [hq] at h; cases h
  | ok b =>
    rw [hq] at h
    cases b with
    | true =>
      simp only [Except.ok.injEq] at h ⊢
      subst h
      refine ⟨_, rfl, ?_⟩
      exact hsr.setLineNo _ _ (by rw [hsr.line]; omega)
    | false =>
      simp only at h ⊢
      exact blockTokenize_sh hin mn startLine endLine s3 hsr h

theorem zb_retab {l l' : BLine} (hz : zb l' = zb l) (a : Nat) (b : Int) : zb (l'.retab a b) = zb (l.retab a b) := by
  obtain ⟨_, h2, _, h4⟩ := zb_eq hz
  simp [zb, BLine.retab, h2, h4]

/-- the state `listClose` returns, as a function of the line entry it reads -/
def closeState (markerChar : Char) (s1 : BState) (l : BLine) (ntokItem startLine : Nat) (s3 : BState) (lcur : BLine) : BState :=
  let s4 : BState := { (s3.setLine startLine (lcur.retab l.tShift l.sCount)) with blkIndent := s3.listIndent, listIndent := s1.listIndent, tight := s1.tight }
  let s5 := s4.pushFull "list_item_close" "li" (-1) none none "" (String.singleton markerChar) ""
  { s5 with tokens := s5.tokens.modify ntokItem (fun t => t.setMap (some (startLine, s5.line))) }

theorem listClose_eq (markerChar : Char) (s1 : BState) (l : BLine) (ntokItem startLine : Nat) (s3 : BState) :
    listClose markerChar s1 l ntokItem startLine s3 =
      (match (if s3.line - startLine > 1 then s3.isEmpty ((s3.line : Int) - 1) else .ok false) with
       | .error e => .error e
       | .ok pe =>
         match getL s3 startLine with
         | .error e => .error e
         | .ok lcur => .ok (closeState markerChar s1 l ntokItem startLine s3 lcur, s3.tight, pe)) := rfl

def itemCloseTok (markerChar : Char) (lvl : Int) : Tok :=
  .mk "list_item_close" "li" (-1) [] none (lvl - 1) none "" (String.singleton markerChar) "" [] true false

theorem closeState_tokens (mc : Char) (s1 : BState) (l : BLine) (ntok startLine : Nat) (s3 : BState) (lcur : BLine) :
    (closeState mc s1 l ntok startLine s3 lcur).tokens
      = (s3.tokens ++ [itemCloseTok mc s3.level]).modify ntok (fun t => t.setMap (some (startLine, s3.line))) := rfl

theorem closeState_sh {tt pp k n spre pre} (mc : Char) (s s' s1 s1' : BState) (l l' : BLine) (startLine : Nat) (s3 s3' : BState) (lcur lcur' : BLine)
    (o o' : Tok) (ts0 : List Tok)
    (h3 : TR true pp k n s1.tokens s1'.tokens s3 s3') (hz : zb l' = zb l) (hzc : zb lcur' = zb lcur) (hntc : '\t' ∉ lcur.text)
    (h1li : s1'.listIndent = s1.listIndent) (h1t : tt = true → s1'.tight = s1.tight)
    (a0 : s.tokens = spre ++ ts0) (b0 : s'.tokens = pre ++ ts0.map (Tok.shift2 k n))
    (a1 : s1.tokens = s.tokens ++ [o]) (b1 : s1'.tokens = s'.tokens ++ [o'])
    (ho : o'.setMap (some (startLine + n, s3'.line)) = (o.setMap (some (startLine, s3.line))).shift2 k n) :
    TR tt pp k n spre pre (closeState mc s1 l s.tokens.length startLine s3 lcur) (closeState mc s1' l' s'.tokens.length (startLine + n) s3' lcur') := by
  obtain ⟨hsc, _, hts, _⟩ := zb_eq hz
  have a := h3.setLine startLine (startLine + n) rfl (zb_retab hzc l.tShift l.sCount) (by exact hntc)
  obtain ⟨ts3, a3, b3⟩ := h3.tokens
  refine ⟨?_, ?_, a.notab, h3.line, h3.lineMax, h3.listIndent, ?_, h1li, h1t, h3.parent, ?_⟩
  · show LR (s3.lines.set startLine (lcur.retab l.tShift l.sCount)) ((s3'.lines.set (startLine + n) (lcur'.retab l'.tShift l'.sCount)).drop n)
    rw [hts, hsc]; exact a.lines
  · show (s3'.lines.set (startLine + n) (lcur'.retab l'.tShift l'.sCount)).length = (s3.lines.set startLine (lcur.retab l.tShift l.sCount)).length + n
    rw [hts, hsc]; exact a.len
  · show (BState.pushFull _ "list_item_close" "li" (-1) none none "" (String.singleton mc) "").level
        = (BState.pushFull _ "list_item_close" "li" (-1) none none "" (String.singleton mc) "").level + k
    rw [pushFull_level_close, pushFull_level_close]
    show s3'.level - 1 = s3.level - 1 + k
    rw [h3.level]; omega
  · refine ⟨ts0 ++ [o.setMap (some (startLine, s3.line))] ++ ts3 ++ [itemCloseTok mc s3.level], ?_, ?_⟩
    · rw [closeState_tokens, a3, a1]
      simp only [List.append_assoc, List.cons_append, List.nil_append]
      rw [C02.modify_append_len, a0]
      simp
    · rw [closeState_tokens, b3, b1]
      simp only [List.append_assoc, List.cons_append, List.nil_append]
      rw [C02.modify_append_len, ho, b0]
      have hc : itemCloseTok mc s3'.level = (itemCloseTok mc s3.level).shift2 k n := by
        simp only [itemCloseTok, Tok.shift2, shiftM, h3.level]; congr 1; omega
      rw [hc]
      simp

theorem listItem_sh {k n} {inner inner' : List BRule} (hin : ShSims k n inner inner') (ordered : Bool) (markerChar : Char) (mn : Int)
    (endLine : Nat) {tt pp spre pre s s'} (startLine markerLen : Nat) (s6 : BState) (nt pe : Bool) (hsr : TR tt pp k n spre pre s s')
    (h : listItem ordered markerChar inner mn endLine s startLine markerLen = .ok (s6, nt, pe)) :
    ∃ s6', listItem ordered markerChar inner' (mn + k) (endLine + n) s' (startLine + n) markerLen = .ok (s6', nt, pe)
      ∧ TR tt pp k n spre pre s6 s6' := by
  unfold listItem at h
  obtain ⟨l, hg, h⟩ := getL_cases h
  obtain ⟨l', hg', hz, hnt⟩ := getL_sh hsr startLine (startLine + n) rfl l hg
  obtain ⟨hsc, htx, hts, hlf⟩ := zb_eq hz
  have hbody : l'.body = l.body := zb_body hz
  have hnb : '\t' ∉ List.drop markerLen l.body := fun hm => hnt (mem_drop_of (mem_drop_of hm))
  simp only [listItem, hg', hbody, hsc]
  rw [lLoop_notab l'.bs l.bs _ _ 0 hnb]
  simp only at h
  generalize hq : lLoop l.bs ((l.sCount : Int) + (markerLen : Int)) (List.drop markerLen l.body) 0 = q at h ⊢
  have hind : listIndentOf l' markerLen q = listIndentOf l markerLen q := by simp [listIndentOf, hsc, hbody]
  rw [hind]
  -- the opening token and the nested entry state
  have hsr1 := hsr.pushRebase "list_item_open" "li" 1 (some (startLine, 0)) (some (startLine + n, 0)) none ""
    (String.singleton markerChar) (if ordered = true then String.ofList (List.take (markerLen - 1) l.body) else "")
  have ht1 := pushFull_tokens s "list_item_open" "li" 1 (some (startLine, 0)) none "" (String.singleton markerChar)
      (if ordered = true then String.ofList (List.take (markerLen - 1) l.body) else "")
  have ht1' := pushFull_tokens s' "list_item_open" "li" 1 (some (startLine + n, 0)) none "" (String.singleton markerChar)
      (if ordered = true then String.ofList (List.take (markerLen - 1) l.body) else "")
  have hli1 : (s'.pushFull "list_item_open" "li" 1 (some (startLine + n, 0)) none "" (String.singleton markerChar)
      (if ordered = true then String.ofList (List.take (markerLen - 1) l.body) else "")).listIndent
      = (s.pushFull "list_item_open" "li" 1 (some (startLine, 0)) none "" (String.singleton markerChar)
      (if ordered = true then String.ofList (List.take (markerLen - 1) l.body) else "")).listIndent := hsr.listIndent
  have hti1 : tt = true → (s'.pushFull "list_item_open" "li" 1 (some (startLine + n, 0)) none "" (String.singleton markerChar)
      (if ordered = true then String.ofList (List.take (markerLen - 1) l.body) else "")).tight
      = (s.pushFull "list_item_open" "li" 1 (some (startLine, 0)) none "" (String.singleton markerChar)
      (if ordered = true then String.ofList (List.take (markerLen - 1) l.body) else "")).tight := hsr.tight
  generalize hs1 : s.pushFull "list_item_open" "li" 1 (some (startLine, 0)) none "" (String.singleton markerChar)
      (if ordered = true then String.ofList (List.take (markerLen - 1) l.body) else "") = s1 at h hsr1 ht1 hli1 hti1
  generalize hs1' : s'.pushFull "list_item_open" "li" 1 (some (startLine + n, 0)) none "" (String.singleton markerChar)
      (if ordered = true then String.ofList (List.take (markerLen - 1) l.body) else "") = s1' at hsr1 ht1' hli1 hti1 ⊢
  have hsr2 : TR true pp k n s1.tokens s1'.tokens (listEnter s1 l startLine markerLen q (listIndentOf l markerLen q))
      (listEnter s1' l' (startLine + n) markerLen q (listIndentOf l markerLen q)) := by
    have a := hsr1.setLine startLine (startLine + n) rfl (zb_retab hz (l.tShift + markerLen + q.2) q.1) (by exact hnt)
    unfold listEnter
    rw [hts]
    exact ⟨a.lines, a.len, a.notab, a.line, a.lineMax, rfl, a.level, hsr1.blkIndent, (fun _ => rfl), a.parent, a.tokens⟩
  cases hn : listNested inner mn endLine (listEnter s1 l startLine markerLen q (listIndentOf l markerLen q)) startLine
      (decide ((List.drop markerLen l.body).length ≤ q.2)) with
  | error e => rw [hn] at h; cases h
  | ok s3 =>
    rw [hn] at h
    obtain ⟨s3', hn', hsr3⟩ := listNested_sh hin mn endLine startLine _ s3 hsr2 hn
    rw [hn']
    simp only at h ⊢
    rw [listClose_eq] at h ⊢
    have c1 : (s3'.line - (startLine + n) > 1) = (s3.line - startLine > 1) := by
      rw [hsr3.line]; exact propext ⟨fun h => by omega, fun h => by omega⟩
    have epe : (if s3'.line - (startLine + n) > 1 then s3'.isEmpty ((s3'.line : Int) - 1) else Except.ok false)
        = (if s3.line - startLine > 1 then s3.isEmpty ((s3.line : Int) - 1) else Except.ok false) := by
      simp only [c1]
      split
      · rename_i hgt
        exact isEmpty_shI hsr3 (s3.line - 1) _ _ (by omega) (by rw [hsr3.line]; omega)
      · rfl
    rw [epe]
    cases hpe : (if s3.line - startLine > 1 then s3.isEmpty ((s3.line : Int) - 1) else Except.ok false) with
    | error e => rw [hpe] at h; cases h
    | ok pe0 =>
      rw [hpe] at h
      simp only at h ⊢
      obtain ⟨lcur, hgc, h⟩ := getL_cases h
      obtain ⟨lcur', hgc', hzc, hntc⟩ := getL_sh hsr3 startLine (startLine + n) rfl lcur hgc
      rw [hgc']
      simp only [Except.ok.injEq, Prod.mk.injEq] at h ⊢
      obtain ⟨h6, hnt', hpe'⟩ := h
      subst h6; subst hnt'; subst hpe'
      refine ⟨_, ⟨rfl, (hsr3.tight rfl), rfl⟩, ?_⟩
      obtain ⟨ts0, a0, b0⟩ := hsr.tokens
      refine closeState_sh markerChar s s' s1 s1' l l' startLine s3 s3' lcur lcur' _ _ ts0 hsr3 hz hzc hntc hli1 hti1 a0 b0 ht1 ht1' ?_
      exact setMap_pushed_shift k n s s' hsr.level "list_item_open" "li" 1 (some (startLine, 0)) (some (startLine + n, 0))
        (some (startLine, s3.line)) (some (startLine + n, s3'.line)) none "" (String.singleton markerChar)
        (if ordered = true then String.ofList (List.take (markerLen - 1) l.body) else "") (shiftM_some rfl hsr3.line)

/-! ### the item loop and the list -/

theorem skipBullet_zb {l l' : BLine} (hz : zb l' = zb l) : skipBullet l' = skipBullet l := by
  unfold skipBullet; rw [zb_body hz]

theorem skipOrdered_zb {l l' : BLine} (hz : zb l' = zb l) : skipOrdered l' = skipOrdered l := by
  unfold skipOrdered; rw [zb_body hz]

theorem listItems_sh {k n} {terms terms' inner inner' : List BRule} (hts : ShSims k n terms terms') (hin : ShSims k n inner inner')
    (codeOn ordered : Bool) (mc : Char) (mn : Int) (endLine : Nat) :
    ∀ (fuel : Nat) {tt spre pre} (s s' : BState) (sl ml : Nat) (tg pe : Bool) (r : ListSt), TR tt true k n spre pre s s' →
      listItems codeOn ordered mc terms inner mn endLine fuel { s := s, startLine := sl, markerLen := ml, tight := tg, prevEmptyEnd := pe } = .ok r →
      ∃ rs', listItems codeOn ordered mc terms' inner' (mn + k) (endLine + n) fuel
          { s := s', startLine := sl + n, markerLen := ml, tight := tg, prevEmptyEnd := pe }
            = .ok { s := rs', startLine := r.startLine + n, markerLen := r.markerLen, tight := r.tight, prevEmptyEnd := r.prevEmptyEnd }
        ∧ TR tt true k n spre pre r.s rs' := by
  intro fuel
  induction fuel with
  | zero => intro tt spre pre s s' sl ml tg pe r _ h; simp [listItems] at h
  | succ f ih =>
    intro tt spre pre s s' sl ml tg pe r hsr h
    simp only [listItems] at h ⊢
    have c0 : (sl + n < endLine + n) = (sl < endLine) := propext ⟨fun h => by omega, fun h => by omega⟩
    simp only [c0]
    split at h
    · rename_i hlt
      simp only [hlt, not_false_eq_true, ↓reduceIte]
      simp only [Except.ok.injEq] at h; subst h
      exact ⟨s', rfl, hsr⟩
    · rename_i hlt
      simp only [hlt, ↓reduceIte]
      cases hit : listItem ordered mc inner mn endLine s sl ml with
      | error e => rw [hit] at h; cases h
      | ok v =>
        obtain ⟨s6, nt, pe6⟩ := v
        rw [hit] at h
        obtain ⟨s6', hit', hsr6⟩ := listItem_sh hin ordered mc mn endLine sl ml s6 nt pe6 hsr hit
        rw [hit']
        simp only at h ⊢
        rcases s6' with ⟨lines6, ln6, lm6, bi6, lv6, tg6, pt6, tk6, li6⟩
        have hln : ln6 = s6.line + n := hsr6.line
        subst hln
        have c1 : (s6.line + n ≥ endLine + n) = (s6.line ≥ endLine) := propext ⟨fun h => by omega, fun h => by omega⟩
        simp only [c1]
        have stop : ∀ (x : BState) (x' : BState), TR tt true k n spre pre x x' →
            (Except.ok { s := x, startLine := s6.line, markerLen := ml, tight := (if (!nt || pe) = true then false else tg), prevEmptyEnd := pe6 } : Except PyErr ListSt) = .ok r →
            ∃ rs', (Except.ok { s := x', startLine := s6.line + n, markerLen := ml, tight := (if (!nt || pe) = true then false else tg), prevEmptyEnd := pe6 } : Except PyErr ListSt)
                = .ok { s := rs', startLine := r.startLine + n, markerLen := r.markerLen, tight := r.tight, prevEmptyEnd := r.prevEmptyEnd }
              ∧ TR tt true k n spre pre r.s rs' := by
          intro x x' hx he
          simp only [Except.ok.injEq] at he; subst he
          exact ⟨x', rfl, hx⟩
        split at h
        · rename_i h1; simp only [h1, ↓reduceIte]; exact stop _ _ hsr6 h
        · rename_i h1
          simp only [h1, ↓reduceIte]
          obtain ⟨ln, hgl, h⟩ := getL_cases h
          obtain ⟨ln', hgl', hzl, _⟩ := getL_sh hsr6 s6.line (s6.line + n) rfl ln hgl
          have c2 : (ln'.sCount < bi6) = (ln.sCount < s6.blkIndent) := by
            rw [(zb_eq hzl).1]; have := hsr6.blkIndent; simp only at this; rw [this]
          simp only [hgl', c2, isCode_sh hsr6 codeOn hzl]
          split at h
          · rename_i h2; simp only [h2, ↓reduceIte]; exact stop _ _ hsr6 h
          · rename_i h2
            simp only [h2, ↓reduceIte]
            split at h
            · rename_i h3; simp only [h3, ↓reduceIte]; exact stop _ _ hsr6 h
            · rename_i h3
              simp only [h3, Bool.false_eq_true, ↓reduceIte]
              cases hq : runTerminators terms s6 s6.line endLine with
              | error e => rw [hq] at h; cases h
              | ok v =>
                obtain ⟨b, s7⟩ := v
                rw [hq] at h
                obtain ⟨s7', hq', hsr7⟩ := runTerminators_sh hts s6.line endLine b s7 hsr6 hq
                rw [hq']
                cases b with
                | true => simp only at h ⊢; exact stop _ _ hsr7 h
                | false =>
                  simp only at h ⊢
                  rw [skipOrdered_zb hzl, skipBullet_zb hzl, zb_body hzl]
                  split at h
                  · rename_i hm; exact stop _ _ hsr7 h
                  · rename_i mlen hm
                    split at h
                    · rename_i h4; simp only [h4, ↓reduceIte]; exact stop _ _ hsr7 h
                    · rename_i h4
                      simp only [h4, ↓reduceIte]
                      exact ih s7 s7' s6.line mlen _ pe6 r hsr7 h

/-- the state the item loop of a list starts from -/
def listOpenState (s : BState) (ordered : Bool) (mc : Char) (mv startLine : Nat) : BState :=
  let s0 := s.pushFull (if ordered then "ordered_list_open" else "bullet_list_open") (if ordered then "ol" else "ul") 1
              (some (startLine, 0)) none "" (String.singleton mc) ""
  let s1 := if ordered && mv != 1
            then { s0 with tokens := s0.tokens.modify s.tokens.length (fun t => t.setAttrs [("start", .i mv)]) } else s0
  { s1 with parentType := "list" }

/-- the state a list returns, from the entry state and the result of the item loop -/
def listFinish (s : BState) (ordered : Bool) (mc : Char) (startLine : Nat) (st : ListSt) : BState :=
  let s4 := st.s.pushFull (if ordered then "ordered_list_close" else "bullet_list_close") (if ordered then "ol" else "ul") (-1)
              none none "" (String.singleton mc) ""
  let toks := s4.tokens.modify s.tokens.length (fun t => t.setMap (some (startLine, st.startLine)))
  let s5 : BState := { s4 with line := st.startLine, parentType := s.parentType, tokens := toks }
  if st.tight then { s5 with tokens := markTight s5.level s.tokens.length s5.tokens } else s5

theorem listRun_eq (codeOn ordered : Bool) (mc : Char) (mlen mv : Nat) (terms inner : List BRule) (mn : Int) (s : BState) (startLine endLine : Nat) :
    listRun codeOn ordered mc mlen mv terms inner mn s startLine endLine =
      (match listItems codeOn ordered mc terms inner mn endLine (endLine - startLine + 1)
          { s := listOpenState s ordered mc mv startLine, startLine := startLine, markerLen := mlen, tight := true, prevEmptyEnd := false } with
       | .error e => .error e
       | .ok st => .ok (true, listFinish s ordered mc startLine st)) := rfl

def listOpenTok (s : BState) (ordered : Bool) (mc : Char) (mv startLine : Nat) : Tok :=
  let t := pushedTok s (if ordered then "ordered_list_open" else "bullet_list_open") (if ordered then "ol" else "ul") 1
              (some (startLine, 0)) none "" (String.singleton mc) ""
  if ordered && mv != 1 then t.setAttrs [("start", .i mv)] else t

theorem listOpenState_tokens (s : BState) (ordered : Bool) (mc : Char) (mv startLine : Nat) :
    (listOpenState s ordered mc mv startLine).tokens = s.tokens ++ [listOpenTok s ordered mc mv startLine] := by
  unfold listOpenState listOpenTok
  simp only
  split
  · show List.modify (s.tokens ++ [_]) s.tokens.length _ = _
    rw [C02.modify_append_len]
    rfl
  · rfl

theorem level_close_sh (k : Int) (x x' : BState) (a b c : String) (h : x'.level = x.level + k) :
    (x'.pushFull a b (-1) none none "" c "").level = (x.pushFull a b (-1) none none "" c "").level + k := by
  rw [pushFull_level_close, pushFull_level_close, h]; omega

theorem setAttrs_setMap (t : Tok) (a) (m) : (t.setAttrs a).setMap m = (t.setMap m).setAttrs a := by cases t; rfl
theorem shift2_setAttrs (k : Int) (n : Nat) (t : Tok) (a) : (t.setAttrs a).shift2 k n = (t.shift2 k n).setAttrs a := by cases t; rfl

theorem listOpenTok_shift (k : Int) (n : Nat) (s s' : BState) (hl : s'.level = s.level + k) (ordered : Bool) (mc : Char) (mv startLine : Nat)
    (m m' : Option (Nat × Nat)) (hm : m' = shiftM n m) :
    (listOpenTok s' ordered mc mv (startLine + n)).setMap m' = ((listOpenTok s ordered mc mv startLine).setMap m).shift2 k n := by
  unfold listOpenTok
  simp only
  split
  · rw [setAttrs_setMap, setAttrs_setMap, shift2_setAttrs, setMap_pushed_shift k n s s' hl _ _ 1 (some (startLine, 0)) (some (startLine + n, 0)) m m' none "" _ "" hm]
  · exact setMap_pushed_shift k n s s' hl _ _ 1 (some (startLine, 0)) (some (startLine + n, 0)) m m' none "" _ "" hm

theorem listOpenState_sh {tt pp k n spre pre s s'} (h : TR tt pp k n spre pre s s') (ordered : Bool) (mc : Char) (mv startLine : Nat) :
    TR tt true k n (listOpenState s ordered mc mv startLine).tokens (listOpenState s' ordered mc mv (startLine + n)).tokens
      (listOpenState s ordered mc mv startLine) (listOpenState s' ordered mc mv (startLine + n)) := by
  have h0 := h.pushRebase (if ordered then "ordered_list_open" else "bullet_list_open") (if ordered then "ol" else "ul") 1
    (some (startLine, 0)) (some (startLine + n, 0)) none "" (String.singleton mc) ""
  unfold listOpenState
  simp only
  split <;> exact ⟨h0.lines, h0.len, h0.notab, h0.line, h0.lineMax, h0.blkIndent, h0.level, h0.listIndent, h0.tight, (fun _ => rfl), ⟨[], by simp, by simp⟩⟩

def listCloseTok (ordered : Bool) (mc : Char) (lvl : Int) : Tok :=
  .mk (if ordered then "ordered_list_close" else "bullet_list_close") (if ordered then "ol" else "ul") (-1) [] none (lvl - 1) none ""
    (String.singleton mc) "" [] true false

theorem listFinish_sh {tt pp k n spre pre s s'} (h : TR tt pp k n spre pre s s') (ordered : Bool) (mc : Char) (mv startLine : Nat)
    (st : ListSt) (rs' : BState)
    (hst : TR tt true k n (listOpenState s ordered mc mv startLine).tokens (listOpenState s' ordered mc mv (startLine + n)).tokens st.s rs') :
    TR tt pp k n spre pre (listFinish s ordered mc startLine st)
      (listFinish s' ordered mc (startLine + n)
        { s := rs', startLine := st.startLine + n, markerLen := st.markerLen, tight := st.tight, prevEmptyEnd := st.prevEmptyEnd }) := by
  obtain ⟨ts0, a0, b0⟩ := h.tokens
  obtain ⟨its, ai, bi⟩ := hst.tokens
  rw [listOpenState_tokens] at ai bi
  -- the token lists before `markTightParagraphs`
  have hlv : rs'.level = st.s.level + k := hst.level
  have tokS : (st.s.pushFull (if ordered then "ordered_list_close" else "bullet_list_close") (if ordered then "ol" else "ul") (-1)
        none none "" (String.singleton mc) "").tokens.modify s.tokens.length (fun t => t.setMap (some (startLine, st.startLine)))
      = s.tokens ++ ([(listOpenTok s ordered mc mv startLine).setMap (some (startLine, st.startLine))] ++ its ++ [listCloseTok ordered mc st.s.level]) := by
    rw [pushFull_tokens, ai]
    simp only [List.append_assoc, List.cons_append, List.nil_append]
    rw [C02.modify_append_len]
    rfl
  have tokS' : (rs'.pushFull (if ordered then "ordered_list_close" else "bullet_list_close") (if ordered then "ol" else "ul") (-1)
        none none "" (String.singleton mc) "").tokens.modify s'.tokens.length (fun t => t.setMap (some (startLine + n, st.startLine + n)))
      = s'.tokens ++ ([(listOpenTok s ordered mc mv startLine).setMap (some (startLine, st.startLine))] ++ its ++ [listCloseTok ordered mc st.s.level]).map (Tok.shift2 k n) := by
    rw [pushFull_tokens, bi]
    simp only [List.append_assoc, List.cons_append, List.nil_append]
    rw [C02.modify_append_len, listOpenTok_shift k n s s' h.level ordered mc mv startLine (some (startLine, st.startLine))
      (some (startLine + n, st.startLine + n)) (shiftM_some rfl rfl)]
    have hc : pushedTok rs' (if ordered then "ordered_list_close" else "bullet_list_close") (if ordered then "ol" else "ul") (-1)
        none none "" (String.singleton mc) "" = (listCloseTok ordered mc st.s.level).shift2 k n := by
      simp only [pushedTok, listCloseTok, Tok.shift2, shiftM, hlv]; congr 1; omega
    rw [hc]
    simp
  generalize ([(listOpenTok s ordered mc mv startLine).setMap (some (startLine, st.startLine))] ++ its ++ [listCloseTok ordered mc st.s.level]) = seg at tokS tokS'
  unfold listFinish
  simp only
  split
  · -- tight: `markTightParagraphs` on both sides
    refine ⟨hst.lines, hst.len, hst.notab, rfl, hst.lineMax, hst.blkIndent, ?_, hst.listIndent, hst.tight, h.parent, ?_⟩
    · exact level_close_sh k st.s rs' (if ordered then "ordered_list_close" else "bullet_list_close") (if ordered then "ol" else "ul") (String.singleton mc) hlv
    · refine ⟨ts0 ++ markTightGo (st.s.level - 1 + 2) seg.length 2 seg, ?_, ?_⟩
      · show markTight _ s.tokens.length (List.modify _ _ _) = _
        rw [tokS, pushFull_level_close, (markTight_rel k n (st.s.level - 1) s.tokens s'.tokens _).2, a0]
        simp
      · show markTight _ s'.tokens.length (List.modify _ _ _) = _
        rw [tokS', pushFull_level_close, hlv]
        have e : st.s.level + k - 1 = st.s.level - 1 + k := by omega
        rw [e, (markTight_rel k n (st.s.level - 1) s.tokens s'.tokens _).1, b0]
        simp
  · refine ⟨hst.lines, hst.len, hst.notab, rfl, hst.lineMax, hst.blkIndent, ?_, hst.listIndent, hst.tight, h.parent, ?_⟩
    · exact level_close_sh k st.s rs' (if ordered then "ordered_list_close" else "bullet_list_close") (if ordered then "ol" else "ul") (String.singleton mc) hlv
    · refine ⟨ts0 ++ seg, ?_, ?_⟩
      · show List.modify _ _ _ = _
        rw [tokS, a0]; simp
      · show List.modify _ _ _ = _
        rw [tokS', b0]; simp

/-! ### the list rule and the chains -/

/-- the list rule once the marker is known -/
def listTail (codeOn : Bool) (terms inner : List BRule) (mn : Int) (s : BState) (line endLine : Nat) (silent : Bool) (l : BLine)
    (ordered : Bool) (mlen : Nat) : Except PyErr (Bool × BState) :=
  let isTerminatingParagraph := silent && s.parentType == "paragraph" && decide (l.sCount ≥ s.blkIndent)
  let markerValue := digitsVal (l.body.take (mlen - 1))
  if ordered && isTerminatingParagraph && markerValue != 1 then .ok (false, s) else
  if isTerminatingParagraph && ((l.body.drop mlen).dropWhile isSpaceTab).isEmpty then .ok (false, s) else
  match l.body[mlen - 1]? with
  | none => .error .indexError
  | some markerChar =>
    if silent then .ok (true, s) else
    listRun codeOn ordered markerChar mlen markerValue terms inner mn s line endLine

theorem ruleList_eq (codeOn : Bool) (terms inner : List BRule) (mn : Int) (s : BState) (line endLine : Nat) (silent : Bool) :
    ruleList codeOn terms inner mn s line endLine silent =
      (match getL s line with
       | .error e => .error e
       | .ok l =>
         if isCodeLine codeOn s l then .ok (false, s) else
         if s.listIndent ≥ 0 && decide (l.sCount - s.listIndent ≥ 4) && decide (l.sCount < s.blkIndent) then .ok (false, s) else
         match skipOrdered l with
         | some m => listTail codeOn terms inner mn s line endLine silent l true m
         | none =>
           match skipBullet l with
           | some m => listTail codeOn terms inner mn s line endLine silent l false m
           | none => .ok (false, s)) := by
  unfold ruleList listTail
  cases getL s line with
  | error e => rfl
  | ok l =>
    simp only
    split
    · rfl
    · split
      · rfl
      · cases skipOrdered l with
        | some m => rfl
        | none =>
          cases skipBullet l with
          | some m => rfl
          | none => rfl

theorem listTail_sh {k n} (codeOn : Bool) {terms terms' inner inner' : List BRule} (hts : ShSims k n terms terms')
    (hin : ShSims k n inner inner') (mn : Int) {tt pp spre pre s s'} (line endLine : Nat) (silent : Bool) (l l' : BLine) (ordered : Bool)
    (mlen : Nat) (m : Bool) (t : BState) (hsr : TR tt pp k n spre pre s s') (hsil : silent = true → pp = true) (hz : zb l' = zb l)
    (h : listTail codeOn terms inner mn s line endLine silent l ordered mlen = .ok (m, t)) :
    ∃ t', listTail codeOn terms' inner' (mn + k) s' (line + n) (endLine + n) silent l' ordered mlen = .ok (m, t') ∧ TR tt pp k n spre pre t t' := by
  have hpt : silent = true → s'.parentType = s.parentType := fun hs => hsr.parent (hsil hs)
  have hterm : (silent && s'.parentType == "paragraph" && decide (l.sCount ≥ s.blkIndent))
      = (silent && s.parentType == "paragraph" && decide (l.sCount ≥ s.blkIndent)) := by
    cases silent with
    | false => rfl
    | true => rw [hpt rfl]
  unfold listTail at h ⊢
  simp only [zb_body hz, (zb_eq hz).1, hsr.blkIndent, hterm] at h ⊢
  by_cases c1 : (ordered && (silent && s.parentType == "paragraph" && decide (l.sCount ≥ s.blkIndent)) && digitsVal (List.take (mlen - 1) l.body) != 1) = true
  · simp only [c1, ↓reduceIte] at h ⊢; sh_same h hsr
  · simp only [c1, Bool.false_eq_true, ↓reduceIte] at h ⊢
    by_cases c2 : (silent && s.parentType == "paragraph" && decide (l.sCount ≥ s.blkIndent) && (List.dropWhile isSpaceTab (List.drop mlen l.body)).isEmpty) = true
    · simp only [c2, ↓reduceIte] at h ⊢; sh_same h hsr
    · simp only [c2, Bool.false_eq_true, ↓reduceIte] at h ⊢
      cases hmc : l.body[mlen - 1]? with
      | none => simp only [hmc] at h; cases h
      | some mc =>
        simp only [hmc] at h ⊢
        cases silent with
        | true => simp only [↓reduceIte] at h ⊢; sh_same h hsr
        | false =>
          simp only [Bool.false_eq_true, ↓reduceIte] at h ⊢
          rw [listRun_eq] at h ⊢
          cases hit : listItems codeOn ordered mc terms inner mn endLine (endLine - line + 1)
              { s := listOpenState s ordered mc (digitsVal (List.take (mlen - 1) l.body)) line, startLine := line, markerLen := mlen, tight := true, prevEmptyEnd := false } with
          | error e => rw [hit] at h; cases h
          | ok st =>
            rw [hit] at h
            obtain ⟨rs', hit', hst⟩ := listItems_sh hts hin codeOn ordered mc mn endLine _ _ _ line mlen true false st
              (listOpenState_sh hsr ordered mc (digitsVal (List.take (mlen - 1) l.body)) line) hit
            have e1 : endLine + n - (line + n) + 1 = endLine - line + 1 := by omega
            rw [e1, hit']
            simp only [Except.ok.injEq, Prod.mk.injEq] at h ⊢
            obtain ⟨h1, h2⟩ := h; subst h1; subst h2
            exact ⟨_, ⟨rfl, rfl⟩, listFinish_sh hsr ordered mc _ line st rs' hst⟩

theorem sh_list (k : Int) (n : Nat) (codeOn : Bool) {terms terms' inner inner' : List BRule} (hts : ShSims k n terms terms')
    (hin : ShSims k n inner inner') (mn : Int) :
    ShSim k n (ruleList codeOn terms inner mn) (ruleList codeOn terms' inner' (mn + k)) := by
  intro tt pp spre pre s s' line endLine silent m t hsr hsil h
  rw [ruleList_eq] at h ⊢
  obtain ⟨l, hg, h⟩ := getL_cases h
  obtain ⟨l', hg', hz, _⟩ := getL_sh hsr line (line + n) rfl l hg
  simp only [hg', isCode_sh hsr codeOn hz, (zb_eq hz).1, hsr.listIndent, hsr.blkIndent, skipOrdered_zb hz, skipBullet_zb hz]
  cases hc : isCodeLine codeOn s l <;> simp only [hc, ↓reduceIte, Bool.false_eq_true] at h ⊢
  · by_cases c1 : (decide (s.listIndent ≥ 0) && decide (l.sCount - s.listIndent ≥ 4) && decide (l.sCount < s.blkIndent)) = true
    · simp only [c1, ↓reduceIte] at h ⊢; sh_same h hsr
    · simp only [c1, Bool.false_eq_true, ↓reduceIte] at h ⊢
      cases ho : skipOrdered l with
      | some mlen =>
        simp only [ho] at h ⊢
        exact listTail_sh codeOn hts hin mn line endLine silent l l' true mlen m t hsr hsil hz h
      | none =>
        simp only [ho] at h ⊢
        cases hb : skipBullet l with
        | some mlen =>
          simp only [hb] at h ⊢
          exact listTail_sh codeOn hts hin mn line endLine silent l l' false mlen m t hsr hsil hz h
        | none =>
          simp only [hb] at h ⊢
          sh_same h hsr
  · sh_same h hsr

theorem lListTerms_shs (k : Int) (n : Nat) (c : MiniCfg) (mn : Int) : ShSims k n (lListTerms c mn) (lListTerms c (mn + k)) := by
  unfold lListTerms
  exact ((ShSims.opt c.fence (sh_fence k n c.code)).append (.cons (sh_quote k n c.code .nil .nil mn) .nil)).append
    (ShSims.opt c.hr (sh_hr k n c.code))

theorem lTerminators_shs (k : Int) (n : Nat) (c : MiniCfg) (ws : List Nat) (mn : Int) :
    ShSims k n (lTerminators c ws mn) (lTerminators c ws (mn + k)) := by
  unfold lTerminators
  exact ((((ShSims.opt c.fence (sh_fence k n c.code)).append (.cons (sh_quote k n c.code .nil .nil mn) .nil)).append
    (ShSims.opt c.hr (sh_hr k n c.code))).append (.cons (sh_list k n c.code .nil .nil mn) .nil)).append
    (ShSims.opt c.heading (sh_heading k n c.code ws))

theorem lChain_shs (k : Int) (n : Nat) (c : MiniCfg) (ws : List Nat) (mn : Int) : ∀ d : Nat,
    ShSims k n (lChain c ws mn d) (lChain c ws (mn + k) d) := by
  intro d
  induction d with
  | zero => exact .nil
  | succ d ih =>
    unfold lChain
    exact ((((((ShSims.opt c.code (sh_code k n c.code)).append (ShSims.opt c.fence (sh_fence k n c.code))).append
      (.cons (sh_quote k n c.code (lTerminators_shs k n c ws mn) ih mn) .nil)).append (ShSims.opt c.hr (sh_hr k n c.code))).append
      (.cons (sh_list k n c.code (lListTerms_shs k n c mn) ih mn) .nil)).append
      (ShSims.opt c.heading (sh_heading k n c.code ws))).append (.cons (sh_paragraph k n (lTerminators_shs k n c ws mn) ws) .nil)

/-! ### the two laws for the chains with both containers -/

theorem shiftM_zero (m : Option (Nat × Nat)) : shiftM 0 m = m := by
  cases m with
  | none => rfl
  | some p => cases p; rfl

theorem shift2_zero (k : Int) : Tok.shift2 k 0 = Tok.shift k := by
  funext t; cases t; simp [Tok.shift2, Tok.shift, shiftM_zero]

/-- the quote rule on the quoted document: one quote over all lines, whose nested run is the run on `D` one level deeper -/
theorem l_quote_rule_law (codeOn : Bool) (ts' inner inner' : List BRule) (mn : Int) (ls : List (List Char)) (hcl : ∀ l ∈ ls, Clean l)
    (hne : ls ≠ []) (hin : ShSims 1 0 inner inner') (tD : BState) (hD : blockTokenize inner mn (stD ls) 0 ls.length = .ok tD)
    (hline : tD.line = ls.length) (hfr : (stD ls).FrameEq tD) :
    ∃ sF, ruleBlockquote codeOn ts' inner' (mn + 1) (stD (ls.map quoteLine)) 0 ls.length false = .ok (true, sF)
      ∧ sF.line = ls.length ∧ sF.lines.length = (stD (ls.map quoteLine)).lines.length
      ∧ sF.tokens = quoteOpen ls.length :: tD.tokens.map (Tok.shift 1) ++ [quoteClose] := by
  have hn : 0 < ls.length := List.length_pos_iff.mpr hne
  have hqlen : (ls.map quoteLine).length = ls.length := by simp
  have hq : ∀ i (hi : i < ls.length), (stD (ls.map quoteLine)).lines[i]? = some (lineRec (quoteLine ls[i])) := by
    intro i hi
    rw [stD_get _ i (by simpa using hi)]; simp
  have h0 := hq 0 hn
  obtain ⟨p1, p2, p3⟩ := quoteRec_props ls[0]
  have hcode : isCodeLine codeOn (stD (ls.map quoteLine)) (lineRec (quoteLine ls[0])) = false := by
    simp [isCodeLine, p3, stD]
  unfold ruleBlockquote
  simp only [getL_of_here h0, hcode, p2, beq_self_eq_true, Bool.not_true, Bool.false_eq_true, ↓reduceIte]
  obtain ⟨s2, sv2, hscan, h2len, h2out, h2in, h2line, h2max, h2blk, h2lev, h2tight, h2tok, h2li⟩ :=
    quoteScan_quoted ts' ls.length (ls.length - 0 + 1) (0 + 1) (quoteStrip (lineRec (quoteLine ls[0]))).2
      { ((stD (ls.map quoteLine)).setLine 0 (quoteStrip (lineRec (quoteLine ls[0]))).1) with parentType := "blockquote" } [lineRec (quoteLine ls[0])]
      (by omega) (by omega) (by show ls.length < (List.set _ _ _).length; simp [stD])
      (by
        intro i hi1 hi2
        refine ⟨lineRec (quoteLine ls[i]), ?_, (quoteRec_props ls[i]).1, (quoteRec_props ls[i]).2.1, ?_⟩
        · show (List.set _ _ _)[i]? = _
          rw [List.getElem?_set_ne (by omega)]; exact hq i hi2
        · rw [(quoteRec_props ls[i]).2.2]; show ¬ ((0 : Int) < 0); omega)
  simp only [hscan]
  -- the lines the nested run sees
  have hs2 : ∀ i (hi : i < ls.length), s2.lines[i]? = some (quoteStrip (lineRec (quoteLine ls[i]))).1 := by
    intro i hi
    by_cases h0i : i = 0
    · subst h0i
      rw [h2out 0 (by omega)]
      show (List.set _ _ _)[0]? = _
      rw [List.getElem?_set_self (by simp [stD])]
    · obtain ⟨l, a1, a2⟩ := h2in i (by omega) hi
      have a1' : (List.set (stD (ls.map quoteLine)).lines 0 _)[i]? = some l := a1
      rw [List.getElem?_set_ne (by omega), hq i hi] at a1'
      cases a1'; exact a2
  have hs2n : s2.lines[ls.length]? = some sentinelLine := by
    rw [h2out _ (by omega)]
    show (List.set _ _ _)[ls.length]? = _
    rw [List.getElem?_set_ne (by omega)]
    have := stD_sentinel (ls.map quoteLine); rw [hqlen] at this; exact this
  have hs2len : s2.lines.length = ls.length + 1 := by
    rw [h2len]; show (List.set _ _ _).length = _; simp [stD]
  have hLR : LR (stD ls).lines s2.lines := by
    apply List.ext_getElem?
    intro i
    simp only [List.getElem?_map]
    by_cases hi : i < ls.length
    · rw [stD_get ls i hi, hs2 i hi]
      simp only [Option.map_some]
      rw [strip_quoteLine _ (hcl _ (List.getElem_mem hi))]
    · by_cases hi2 : i = ls.length
      · subst hi2; rw [stD_sentinel, hs2n]
      · rw [List.getElem?_eq_none (by rw [stD_len]; omega), List.getElem?_eq_none (by rw [hs2len]; omega)]
  have hNT : NoTab (stD ls).lines := by
    intro l hl
    simp only [stD, List.mem_append, List.mem_map, List.mem_singleton] at hl
    rcases hl with ⟨x, hx, rfl⟩ | rfl
    · exact (hcl x hx).2.1
    · simp [sentinelLine]
  have hsr3 : TR false false 1 0 [] [quoteOpen 0] (stD ls)
      (({ s2 with blkIndent := 0 }).pushFull "blockquote_open" "blockquote" 1 (some (0, 0)) none "" ">" "") := by
    refine ⟨hLR, ?_, hNT, ?_, ?_, rfl, ?_, ?_, (fun h => by cases h), (fun h => by cases h), ⟨[], rfl, ?_⟩⟩
    · show s2.lines.length = (stD ls).lines.length + 0; rw [hs2len, stD_len]
    · show s2.line = 0; rw [h2line]; rfl
    · show s2.lineMax = ls.length; rw [h2max]; show (ls.map quoteLine).length = _; simp
    · rw [pushFull_level_open]; show s2.level + 1 = (0 : Int) + 1; rw [h2lev]; rfl
    · show s2.listIndent = -1; rw [h2li]; rfl
    · rw [pushFull_tokens]; show s2.tokens ++ _ = _; rw [h2tok]
      show [] ++ _ = _
      simp only [List.nil_append, List.map_nil, List.append_nil, pushedTok, quoteOpen]
      have : s2.level = 0 := by rw [h2lev]; rfl
      simp [this]
  obtain ⟨t', hr', hsr4⟩ := blockTokenize_sh hin mn 0 ls.length tD hsr3 hD
  have hr'' : blockTokenize inner' (mn + 1) (({ s2 with blkIndent := 0 }).pushFull "blockquote_open" "blockquote" 1 (some (0, 0)) none "" ">" "") 0 ls.length = .ok t' := hr'
  obtain ⟨ts4, a4, b4⟩ := hsr4.tokens
  rw [List.nil_append] at a4
  subst a4
  have hline4 : t'.line = tD.line := hsr4.line
  have hlen4 : t'.lines.length = tD.lines.length := hsr4.len
  simp only [hr'']
  refine ⟨_, rfl, ?_, ?_, ?_⟩
  · show (restoreLines _ 0 sv2).line = _
    rw [(restoreLines_fields sv2 _ 0).2.2.2.2.1]
    show t'.line = _
    rw [hline4, hline]
  · show (restoreLines _ 0 sv2).lines.length = _
    rw [restoreLines_length]
    show t'.lines.length = _
    rw [hlen4]
    rw [hfr.1.1, stD_len, stD_len]; simp
  · show (restoreLines _ 0 sv2).tokens = _
    rw [(restoreLines_fields sv2 _ 0).2.2.2.1]
    show List.modify (t'.pushFull "blockquote_close" "blockquote" (-1) none none "" ">" "").tokens s2.tokens.length _ = _
    rw [pushFull_tokens, b4, h2tok]
    show List.modify _ 0 _ = _
    have hl' : t'.level = 1 := by rw [hsr4.level, hfr.2.2.2]; rfl
    simp only [List.cons_append, List.modify_zero_cons, pushedTok, hl', quoteOpen, quoteClose, Tok.setMap]
    simp [shift2_zero]
    rw [hline4, hline]

/-- **C06.l_quote_law** (with lists inside the quoted document) — for every document `D` given by its lines (no tab, CR, NUL or line feed inside a line; at least one line),
every subset of `code`, `fence`, `hr`, `heading`, every white-space table and every `maxNesting ≥ 0`: prefixing every line of `D`
with `"> "` (`">"` for an empty line) parses, with one more level of nesting allowed, to exactly one block quote spanning all lines
whose content is the token stream of `D` one level deeper — same types, contents, maps, everything but `level`. -/
theorem l_quote_law (c : MiniCfg) (ws : List Nat) (mn : Int) (hmn : 0 ≤ mn) (ls : List (List Char)) (hne : ls ≠ [])
    (hcl : ∀ l ∈ ls, Clean l) (tsD : List Tok) (hD : lParse c ws mn (srcOf ls) = .ok tsD) :
    lParse c ws (mn + 1) (srcOf (ls.map quoteLine)) = .ok (quoteOpen ls.length :: tsD.map (Tok.shift 1) ++ [quoteClose]) := by
  have hn : 0 < ls.length := List.length_pos_iff.mpr hne
  obtain ⟨l0, rest, rfl⟩ := List.exists_cons_of_ne_nil hne
  have hsrcD : (srcOf (l0 :: rest)).isEmpty = false := by simp [srcOf]
  have hsrcQ : (srcOf ((l0 :: rest).map quoteLine)).isEmpty = false := by simp [srcOf]
  have hclQ : ∀ l ∈ (l0 :: rest).map quoteLine, '\n' ∉ l ∧ '\t' ∉ l := by
    intro l hl; rw [List.mem_map] at hl; obtain ⟨x, hx, rfl⟩ := hl; exact quoteLine_clean x (hcl x hx)
  have hclQ2 : ∀ l ∈ (l0 :: rest).map quoteLine, '\r' ∉ l ∧ '\x00' ∉ l := by
    intro l hl; rw [List.mem_map] at hl; obtain ⟨x, hx, rfl⟩ := hl; exact quoteLine_cr x (hcl x hx)
  -- the parse of `D`
  unfold lParse at hD
  simp only [hsrcD, Bool.false_eq_true, ↓reduceIte, normalize_srcOf _ (fun l hl => ⟨(hcl l hl).2.2.1, (hcl l hl).2.2.2⟩),
    init_srcOf _ (fun l hl => ⟨(hcl l hl).1, (hcl l hl).2.1⟩)] at hD
  have hmaxD : (stD (l0 :: rest)).lineMax = (l0 :: rest).length := rfl
  rw [hmaxD] at hD
  obtain ⟨hok, hinner⟩ := C01.lChain_ok c ws mn (mn.toNat + 1)
  have hlvD : C01.Lv mn (mn.toNat + 1) (stD (l0 :: rest)) (l0 :: rest).length := by
    unfold C01.Lv; show mn + 1 ≤ (0 : Int) + ((mn.toNat + 1 : Nat) : Int); omega
  have hlenD : (stD (l0 :: rest)).lineMax + 1 ≤ (stD (l0 :: rest)).lines.length := by rw [stD_len]; exact Nat.le_refl _
  obtain ⟨tD, hrun, hfr, hpost⟩ := hinner (stD (l0 :: rest)) 0 (l0 :: rest).length hlenD (Nat.le_refl _) hlvD
  rw [hrun] at hD
  simp only [Except.ok.injEq] at hD
  subst hD
  have hle : tD.line ≤ (l0 :: rest).length := (hpost.1 hn).2.1
  have hge : (l0 :: rest).length ≤ tD.line := by
    refine loop_reaches_end (C01.Lv mn (mn.toNat + 1)) (C01.lv_closed _ _) _ hok mn (l0 :: rest).length _ 0 false (stD (l0 :: rest)) tD hlenD
      (Nat.le_refl _) hlvD ?_ hrun hn
    intro i l hl
    show (0 : Int) ≤ l.sCount
    have hm := List.mem_of_getElem? hl
    simp only [stD, List.mem_append, List.mem_map, List.mem_singleton] at hm
    rcases hm with ⟨x, _, rfl⟩ | rfl
    · simp [lineRec, mkLine]
    · simp [sentinelLine]
  have hline : tD.line = (l0 :: rest).length := by omega
  -- the parse of the quoted document
  unfold lParse
  simp only [hsrcQ, Bool.false_eq_true, ↓reduceIte, normalize_srcOf _ hclQ2, init_srcOf _ hclQ]
  have hmaxQ : (stD ((l0 :: rest).map quoteLine)).lineMax = (l0 :: rest).length := by simp [stD]
  have hd : (mn + 1).toNat + 1 = (mn.toNat + 1) + 1 := by omega
  rw [hmaxQ, hd]
  obtain ⟨sF, hrule, hFline, hFlen, hFtok⟩ := l_quote_rule_law c.code (lTerminators c ws (mn + 1)) (lChain c ws mn (mn.toNat + 1))
    (lChain c ws (mn + 1) (mn.toNat + 1)) mn (l0 :: rest) hcl hne (lChain_shs 1 0 c ws mn (mn.toNat + 1)) tD hrun hline hfr
  have hq0 : (stD ((l0 :: rest).map quoteLine)).lines[0]? = some (lineRec (quoteLine l0)) := by
    simp [stD]
  obtain ⟨p1, p2, p3⟩ := quoteRec_props l0
  have hchain : runBlockChain (lChain c ws (mn + 1) (mn.toNat + 1 + 1)) { stD ((l0 :: rest).map quoteLine) with line := 0 } 0 (l0 :: rest).length
      = .ok (true, sF) := by
    have he : ({ stD ((l0 :: rest).map quoteLine) with line := 0 } : BState) = stD ((l0 :: rest).map quoteLine) := rfl
    rw [he]
    unfold lChain
    simp only [List.append_assoc]
    rw [runBlockChain_skip, runBlockChain_skip]
    · exact runBlockChain_hit _ _ _ _ _ _ hrule
    · intro r hr
      split at hr
      · simp only [List.mem_singleton] at hr; subst hr
        exact fence_declines _ _ _ _ _ hq0 p2
      · cases hr
    · intro r hr
      split at hr
      · simp only [List.mem_singleton] at hr; subst hr
        exact code_declines _ _ _ _ _ hq0 (by simp [isCodeLine, p3, stD])
      · cases hr
  have hloop := loop_one_block (lChain c ws (mn + 1) (mn.toNat + 1 + 1)) (mn + 1) (l0 :: rest).length ((l0 :: rest).length - 1)
    (stD ((l0 :: rest).map quoteLine)) sF (lineRec (quoteLine l0)) hmaxQ hn (by rw [stD_len]; simp) hq0 p1
    (by rw [p3]; show ¬ ((0 : Int) < 0); omega) (by show ¬ ((0 : Int) ≥ mn + 1); omega) hchain hFline hFlen
  unfold blockTokenize
  have hf : (l0 :: rest).length - 0 + 1 = (l0 :: rest).length - 1 + 2 := by omega
  rw [hf, hloop]
  simp only [Except.ok.injEq]
  exact hFtok


/-- **C07.l_suffix_shift** — with lists as well as block quotes in `B` (the full modelled sub-parser): for every document `B` given by its lines (no tab, CR, NUL, LF inside a line; at least one line), every
subset of `code`, `fence`, `hr`, `heading`, every `maxNesting`: once the top-level loop of a parse (chains of the sub-parser with
block quotes and lists) stands at the first line of `B`, `n` lines into the table — whatever those `n` lines contain, whatever tokens,
`tight`, `parentType` and `hasEmptyLines` the blocks before left behind, with any sufficient fuel — it returns, and what it appends
is exactly the token stream of `B` parsed on its own, every map shifted by `n`. -/
theorem l_suffix_shift (c : MiniCfg) (ws : List Nat) (mn : Int) (lsB : List (List Char)) (hne : lsB ≠ []) (hcl : ∀ l ∈ lsB, Clean l)
    (n : Nat) (s' : BState) (hs : AtSeam n lsB s') (tsB : List Tok) (hB : lParse c ws mn (srcOf lsB) = .ok tsB)
    (f : Nat) (hf : lsB.length + 1 ≤ f) (he : Bool) :
    ∃ t', blockLoop (lChain c ws mn (mn.toNat + 1)) mn (lsB.length + n) f n he s' = .ok t'
      ∧ t'.tokens = s'.tokens ++ tsB.map (Tok.shift2 0 n) := by
  obtain ⟨l0, rest, rfl⟩ := List.exists_cons_of_ne_nil hne
  have hsrc : (srcOf (l0 :: rest)).isEmpty = false := by simp [srcOf]
  unfold lParse at hB
  simp only [hsrc, Bool.false_eq_true, ↓reduceIte, normalize_srcOf _ (fun l hl => ⟨(hcl l hl).2.2.1, (hcl l hl).2.2.2⟩),
    init_srcOf _ (fun l hl => ⟨(hcl l hl).1, (hcl l hl).2.1⟩)] at hB
  have hmaxD : (stD (l0 :: rest)).lineMax = (l0 :: rest).length := rfl
  rw [hmaxD] at hB
  cases hrun : blockTokenize (lChain c ws mn (mn.toNat + 1)) mn (stD (l0 :: rest)) 0 (l0 :: rest).length with
  | error e => rw [hrun] at hB; cases hB
  | ok tD =>
    rw [hrun] at hB
    simp only [Except.ok.injEq] at hB
    subst hB
    have hNT : NoTab (stD (l0 :: rest)).lines := by
      intro l hl
      simp only [stD, List.mem_append, List.mem_map, List.mem_singleton] at hl
      rcases hl with ⟨x, hx, rfl⟩ | rfl
      · exact (hcl x hx).2.1
      · simp [sentinelLine]
    have htr : TR false false 0 n [] s'.tokens (stD (l0 :: rest)) s' := by
      refine ⟨?_, ?_, hNT, ?_, ?_, hs.blkIndent, ?_, hs.listIndent, (fun h => by cases h), (fun h => by cases h), ⟨[], rfl, by simp⟩⟩
      · rw [hs.lines]; rfl
      · rw [hs.len, stD_len]
      · rw [hs.line]; show n = 0 + n; omega
      · rw [hs.lineMax]; rfl
      · rw [hs.level]; rfl
    unfold blockTokenize at hrun
    obtain ⟨t', hrun', htr'⟩ := blockLoop_sh (lChain_shs 0 n c ws mn (mn.toNat + 1)) mn (l0 :: rest).length _ 0 false he tD htr (fun h => by cases h) hrun
    rw [Int.add_zero, Nat.zero_add] at hrun'
    refine ⟨t', blockLoop_fuel _ _ _ _ _ _ _ _ hrun' f (by omega), ?_⟩
    obtain ⟨ts, a1, a2⟩ := htr'.tokens
    rw [List.nil_append] at a1
    rw [a2, a1]

/-- the same for a whole document `A ++ B`: if the top-level loop of its parse comes to stand at the first line of `B` (an
iteration of the loop starts there — "A ends closed, B begins a new top-level block"), the stream of the document is what the
loop had produced by then followed by the stream of `B` alone, maps shifted by the number of lines of `A` -/
theorem l_concat_law (c : MiniCfg) (ws : List Nat) (mn : Int) (lsA lsB : List (List Char)) (hne : lsB ≠ [])
    (hclA : ∀ l ∈ lsA, Clean l) (hclB : ∀ l ∈ lsB, Clean l) (tsB : List Tok) (hB : lParse c ws mn (srcOf lsB) = .ok tsB)
    (f : Nat) (he : Bool) (sM : BState) (hf : lsB.length + 1 ≤ f) (hM : AtSeam lsA.length lsB sM)
    (hseam : blockLoop (lChain c ws mn (mn.toNat + 1)) mn (lsA ++ lsB).length ((lsA ++ lsB).length - 0 + 1) 0 false (stD (lsA ++ lsB))
      = blockLoop (lChain c ws mn (mn.toNat + 1)) mn (lsA ++ lsB).length f lsA.length he sM) :
    lParse c ws mn (srcOf (lsA ++ lsB)) = .ok (sM.tokens ++ tsB.map (Tok.shift2 0 lsA.length)) := by
  have hcl : ∀ l ∈ lsA ++ lsB, Clean l := by
    intro l hl; rcases List.mem_append.1 hl with h | h
    · exact hclA l h
    · exact hclB l h
  have hne' : lsA ++ lsB ≠ [] := by
    intro h; exact hne (List.append_eq_nil_iff.1 h).2
  obtain ⟨l0, rest, hD⟩ := List.exists_cons_of_ne_nil hne'
  have hsrc : (srcOf (lsA ++ lsB)).isEmpty = false := by rw [hD]; simp [srcOf]
  obtain ⟨t', hrun, htok⟩ := l_suffix_shift c ws mn lsB hne hclB lsA.length sM hM tsB hB f hf he
  unfold lParse
  simp only [hsrc, Bool.false_eq_true, ↓reduceIte, normalize_srcOf _ (fun l hl => ⟨(hcl l hl).2.2.1, (hcl l hl).2.2.2⟩),
    init_srcOf _ (fun l hl => ⟨(hcl l hl).1, (hcl l hl).2.1⟩)]
  have hmaxD : (stD (lsA ++ lsB)).lineMax = (lsA ++ lsB).length := rfl
  have hlen : (lsA ++ lsB).length = lsB.length + lsA.length := by simp; omega
  unfold blockTokenize
  rw [hmaxD, hseam, hlen, hrun]
  simp only [htok]


/-! non-vacuity and a worked instance of both laws with lists, nested quotes, a loose list and an ordered list -/
def demoL : List (List Char) := ["- a".toList, "  > q".toList, "".toList, "  b".toList, "- c".toList, "".toList, "3. x".toList, "lazy".toList]

example : demoL ≠ [] ∧ (∀ l ∈ demoL, Clean l) := by
  refine ⟨by decide, ?_⟩
  intro l hl
  simp only [demoL, List.mem_cons, List.not_mem_nil, or_false] at hl
  rcases hl with rfl | rfl | rfl | rfl | rfl | rfl | rfl | rfl <;> (unfold Clean; decide)

example : AtSeam 2 demoL { (stD (["# h".toList, "".toList] ++ demoL)) with line := 2, tight := true, parentType := "paragraph", tokens := [quoteClose] } := by
  refine ⟨by decide, by decide, rfl, by decide, rfl, rfl, rfl⟩

example : shape (lParse ⟨true, true, true, true⟩ [32, 9, 10] 20 (srcOf (["# h".toList, "".toList] ++ demoL)))
    = (do let a ← shape (lParse ⟨true, true, true, true⟩ [32, 9, 10] 20 (srcOf ["# h".toList, "".toList]))
          let b ← shape ((lParse ⟨true, true, true, true⟩ [32, 9, 10] 20 (srcOf demoL)).map (List.map (Tok.shift2 0 2)))
          pure (a ++ b)) := by decide +kernel

example : shape (lParse ⟨true, true, true, true⟩ [32, 9, 10] 21 (srcOf (demoL.map quoteLine)))
    = (do let b ← shape ((lParse ⟨true, true, true, true⟩ [32, 9, 10] 20 (srcOf demoL)).map (List.map (Tok.shift 1)))
          pure ([("blockquote_open", some (0, 8), (0 : Int))] ++ b ++ [("blockquote_close", none, 0)])) := by decide +kernel

end MdIt.C07
