import MdIt.Props.C01h
import MdIt.BlockTable
/-!
# C01 (continued) — the `table` rule keeps the block contract

`tableHead_ok` (everything the rule decides before touching the state is computed without an exception whenever the loop calls it:
the read of the *second* line is guarded by `startLine + 2 > endLine`), `tableBody_ok` (the row loop returns, ends inside the range and
leaves the line tables alone; it raises the level by one exactly when it opened a `tbody`), `table_shape` and **`ruleOK_table`**: for
every call the block loop can make — any state, any line tables, any terminator chain of silent-inert rules — the rule returns
(K1), a miss changes nothing (K2), a match ends with `startLine + 2 ≤ state.line ≤ endLine` (K3) and restores line tables, `lineMax`,
`blkIndent`, `listIndent` and `level` (K4).  `table_silent_ok`: as a terminator (silent mode) it answers without touching the state
whenever the range ends inside the line tables — which is *not* so for an arbitrary `endLine` (the rule reads line `startLine + 1`):
the first terminator with that dependency, see `SilentInertE`.
-/
namespace MdIt.C01

@[simp] theorem pushT_lines (s : BState) (a b : String) (n : Int) (at_ m c d) : (s.pushT a b n at_ m c d).lines = s.lines := rfl
@[simp] theorem pushT_lineMax (s : BState) (a b : String) (n : Int) (at_ m c d) : (s.pushT a b n at_ m c d).lineMax = s.lineMax := rfl
@[simp] theorem pushT_blkIndent (s : BState) (a b : String) (n : Int) (at_ m c d) : (s.pushT a b n at_ m c d).blkIndent = s.blkIndent := rfl
@[simp] theorem pushT_listIndent (s : BState) (a b : String) (n : Int) (at_ m c d) : (s.pushT a b n at_ m c d).listIndent = s.listIndent := rfl
@[simp] theorem pushT_line (s : BState) (a b : String) (n : Int) (at_ m c d) : (s.pushT a b n at_ m c d).line = s.line := rfl
@[simp] theorem pushT_parentType (s : BState) (a b : String) (n : Int) (at_ m c d) : (s.pushT a b n at_ m c d).parentType = s.parentType := rfl
@[simp] theorem pushT_refs (s : BState) (a b : String) (n : Int) (at_ m c d) : (s.pushT a b n at_ m c d).refs = s.refs := rfl
@[simp] theorem pushT_dups (s : BState) (a b : String) (n : Int) (at_ m c d) : (s.pushT a b n at_ m c d).dups = s.dups := rfl
@[simp] theorem pushT_level_open (s : BState) (a b : String) (at_ m c d) : (s.pushT a b 1 at_ m c d).level = s.level + 1 := by
  simp [BState.pushT]
@[simp] theorem pushT_level_zero (s : BState) (a b : String) (at_ m c d) : (s.pushT a b 0 at_ m c d).level = s.level := by
  simp [BState.pushT]
@[simp] theorem pushT_level_close (s : BState) (a b : String) (at_ m c d) : (s.pushT a b (-1) at_ m c d).level = s.level - 1 := by
  simp [BState.pushT]

/-- what the pushes of the table rule leave alone -/
def SameTables (s s' : BState) : Prop :=
  s'.lines = s.lines ∧ s'.listIndent = s.listIndent ∧ s'.lineMax = s.lineMax ∧ s'.blkIndent = s.blkIndent ∧ s'.line = s.line
    ∧ s'.parentType = s.parentType ∧ s'.refs = s.refs ∧ s'.dups = s.dups

theorem pushCells_same (ws : List Nat) (o c t : String) (line : Nat) (cols : List (List Char)) :
    ∀ (as : List String) (i : Nat) (s : BState),
      SameTables s (pushCells ws o c t line cols as i s) ∧ (pushCells ws o c t line cols as i s).level = s.level := by
  intro as
  induction as with
  | nil => intro i s; exact ⟨⟨rfl, rfl, rfl, rfl, rfl, rfl, rfl, rfl⟩, rfl⟩
  | cons a rest ih =>
    intro i s
    simp only [pushCells]
    refine ⟨⟨?_, ?_, ?_, ?_, ?_, ?_, ?_, ?_⟩, ?_⟩
    · rw [(ih (i + 1) _).1.1]; rfl
    · rw [(ih (i + 1) _).1.2.1]; rfl
    · rw [(ih (i + 1) _).1.2.2.1]; rfl
    · rw [(ih (i + 1) _).1.2.2.2.1]; rfl
    · rw [(ih (i + 1) _).1.2.2.2.2.1]; rfl
    · rw [(ih (i + 1) _).1.2.2.2.2.2.1]; rfl
    · rw [(ih (i + 1) _).1.2.2.2.2.2.2.1]; rfl
    · rw [(ih (i + 1) _).1.2.2.2.2.2.2.2]; rfl
    · rw [(ih (i + 1) _).2]; simp

theorem tableHead_ok (codeOn : Bool) (ws : List Nat) (s : BState) (line endLine : Nat) (hlen : endLine < s.lines.length) :
    ∃ r, tableHead codeOn ws s line endLine = .ok r := by
  unfold tableHead
  split
  · exact ⟨none, rfl⟩
  · rename_i h2
    obtain ⟨l1, hg1, _⟩ := getL_ok s (line + 1) (by omega)
    obtain ⟨l0, hg0, _⟩ := getL_ok s line (by omega)
    simp only [hg1, hg0]
    repeat' split
    all_goals exact ⟨_, rfl⟩

theorem tableBody_ok (codeOn : Bool) (terms : List BRule) (hin : ∀ t ∈ terms, SilentInert t) (ws : List Nat) (aligns : List String)
    (startLine endLine : Nat) :
    ∀ (fuel next : Nat) (s : BState), endLine - next < fuel → next ≤ endLine → startLine + 2 ≤ next → endLine < s.lines.length →
      ∃ r s', tableBody codeOn terms ws aligns startLine endLine fuel next s = .ok (r, s') ∧ next ≤ r ∧ r ≤ endLine ∧ SameTables s s' ∧
        s'.level = s.level + (if next = startLine + 2 ∧ next < r then 1 else 0) := by
  intro fuel
  induction fuel with
  | zero => intro next s h; omega
  | succ n ih =>
    intro next s hf hle hge hlen
    have stop : ∃ r s', (Except.ok (next, s) : Except PyErr (Nat × BState)) = .ok (r, s') ∧ next ≤ r ∧ r ≤ endLine ∧ SameTables s s' ∧
        s'.level = s.level + (if next = startLine + 2 ∧ next < r then 1 else 0) :=
      ⟨next, s, rfl, Nat.le_refl _, hle, ⟨rfl, rfl, rfl, rfl, rfl, rfl, rfl, rfl⟩, by simp⟩
    simp only [tableBody]
    split
    · rename_i hlt
      obtain ⟨l, hg, _⟩ := getL_ok s next (by omega)
      simp only [hg]
      split
      · exact stop
      · obtain ⟨b, hb⟩ := runTerminators_inert terms hin s next endLine (by omega)
        simp only [hb]
        cases b with
        | true => exact stop
        | false =>
          simp only [hg]
          split
          · exact stop
          · split
            · exact stop
            · let s2 := if next == startLine + 2 then s.pushT "tbody_open" "tbody" 1 [] (some (startLine + 2, 0)) none "" else s
              have hs2 : SameTables s s2 ∧ s2.level = s.level + (if next = startLine + 2 then 1 else 0) := by
                show SameTables s (if next == startLine + 2 then _ else s) ∧ (if next == startLine + 2 then _ else s).level = _
                split
                · rename_i hq; simp at hq; exact ⟨⟨rfl, rfl, rfl, rfl, rfl, rfl, rfl, rfl⟩, by simp [hq]⟩
                · rename_i hq; simp at hq; exact ⟨⟨rfl, rfl, rfl, rfl, rfl, rfl, rfl, rfl⟩, by simp [hq]⟩
              obtain ⟨⟨c1, c2, c3, c4, c5, c6, c7, c8⟩, c9⟩ := pushCells_same ws "td_open" "td_close" "td" next
                (popEnds (escSplitGo (pyStrip ws l.body) false [])) aligns 0 (s2.pushT "tr_open" "tr" 1 [] (some (next, next + 1)) none "")
              obtain ⟨⟨a1, a2, a3, a4, a5, a6, a7, a8⟩, a9⟩ := hs2
              obtain ⟨r, s', h1, h2, h3, ⟨b1, b2, b3, b4, b5, b6, b7, b8⟩, b9⟩ := ih (next + 1)
                ((pushCells ws "td_open" "td_close" "td" next (popEnds (escSplitGo (pyStrip ws l.body) false [])) aligns 0
                  (s2.pushT "tr_open" "tr" 1 [] (some (next, next + 1)) none "")).pushT "tr_close" "tr" (-1) [] none none "")
                (by omega) (by omega) (by omega) (by show (BState.pushT _ _ _ _ _ _ _ _).lines.length > _; rw [pushT_lines, c1, pushT_lines, a1]; exact hlen)
              refine ⟨r, s', h1, by omega, h3, ⟨?_, ?_, ?_, ?_, ?_, ?_, ?_, ?_⟩, ?_⟩
              · rw [b1, pushT_lines, c1, pushT_lines, a1]
              · rw [b2, pushT_listIndent, c2, pushT_listIndent, a2]
              · rw [b3, pushT_lineMax, c3, pushT_lineMax, a3]
              · rw [b4, pushT_blkIndent, c4, pushT_blkIndent, a4]
              · rw [b5, pushT_line, c5, pushT_line, a5]
              · rw [b6, pushT_parentType, c6, pushT_parentType, a6]
              · rw [b7, pushT_refs, c7, pushT_refs, a7]
              · rw [b8, pushT_dups, c8, pushT_dups, a8]
              · rw [b9, pushT_level_close, c9, pushT_level_open, a9]
                have : ¬ (next + 1 = startLine + 2 ∧ next + 1 < r) := by omega
                rw [if_neg this]
                by_cases hq : next = startLine + 2
                · rw [if_pos hq, if_pos ⟨hq, by omega⟩]; omega
                · rw [if_neg hq, if_neg (fun h => hq h.1)]; omega
    · exact stop

theorem tableHead_some {codeOn : Bool} {ws : List Nat} {s : BState} {line endLine : Nat} {p}
    (h : tableHead codeOn ws s line endLine = .ok (some p)) : line + 2 ≤ endLine := by
  unfold tableHead at h
  split at h
  · cases h
  · omega

/-- the rule's calls from the loop: a miss hands the state back; a match restores the frame, ends at least two lines on and inside
    the range, and leaves `parentType` and the env tables as they were -/
theorem table_shape (P : BState → Nat → Prop) (codeOn : Bool) (terms : List BRule) (hin : ∀ t ∈ terms, SilentInert t) (ws : List Nat)
    (s : BState) (line endLine : Nat) (hc : CallCtx P s line endLine) :
    ruleTable codeOn terms ws s line endLine false = .ok (false, s) ∨
    ∃ s', ruleTable codeOn terms ws s line endLine false = .ok (true, s') ∧ s.FrameEq s' ∧ line + 2 ≤ s'.line ∧ s'.line ≤ endLine ∧
      s'.parentType = s.parentType ∧ s'.refs = s.refs ∧ s'.dups = s.dups := by
  have hlenE : endLine < s.lines.length := by have := hc.len; have := hc.le; omega
  obtain ⟨r, hr⟩ := tableHead_ok codeOn ws s line endLine hlenE
  unfold ruleTable
  rw [hr]
  cases r with
  | none => exact .inl rfl
  | some p =>
    have hge2 := tableHead_some hr
    obtain ⟨aligns, cols⟩ := p
    right
    simp only [Bool.false_eq_true, if_false]
    obtain ⟨⟨c1, c2, c3, c4, c5, c6, c7, c8⟩, c9⟩ := pushCells_same ws "th_open" "th_close" "th" line cols aligns 0
      (((({ s with parentType := "table" }).pushT "table_open" "table" 1 [] (some (line, 0)) none "").pushT "thead_open" "thead" 1 []
        (some (line, line + 1)) none "").pushT "tr_open" "tr" 1 [] (some (line, line + 1)) none "")
    generalize hs4 : pushCells ws "th_open" "th_close" "th" line cols aligns 0 _ = s4 at c1 c2 c3 c4 c5 c6 c7 c8 c9 ⊢
    simp only [pushT_lines, pushT_listIndent, pushT_lineMax, pushT_blkIndent, pushT_line, pushT_parentType, pushT_refs, pushT_dups,
      pushT_level_open] at c1 c2 c3 c4 c5 c6 c7 c8 c9
    obtain ⟨r, s7, hb, h1, h2, ⟨b1, b2, b3, b4, b5, b6, b7, b8⟩, b9⟩ := tableBody_ok codeOn terms hin ws aligns line endLine
      (endLine - line + 1) (line + 2) ((s4.pushT "tr_close" "tr" (-1) [] none none "").pushT "thead_close" "thead" (-1) [] none none "")
      (by omega) (by omega) (by omega) (by simp only [pushT_lines]; rw [c1]; exact hlenE)
    simp only [pushT_lines, pushT_listIndent, pushT_lineMax, pushT_blkIndent, pushT_line, pushT_parentType, pushT_refs, pushT_dups,
      pushT_level_close] at b1 b2 b3 b4 b5 b6 b7 b8 b9
    rw [hb]
    simp only
    refine ⟨_, rfl, ⟨⟨?_, ?_⟩, ?_, ?_, ?_⟩, by show line + 2 ≤ r; omega, by show r ≤ endLine; exact h2, rfl, ?_, ?_⟩
    · dsimp only
      rw [pushT_lines]; split <;> simp [b1, c1]
    · dsimp only
      rw [pushT_listIndent]; split <;> simp [b2, c2]
    · dsimp only
      rw [pushT_lineMax]; split <;> simp [b3, c3]
    · dsimp only
      rw [pushT_blkIndent]; split <;> simp [b4, c4]
    · dsimp only
      rw [pushT_level_close]
      split
      · rename_i hq; simp at hq
        rw [pushT_level_close, b9, c9, if_pos ⟨trivial, by omega⟩]; omega
      · rename_i hq; simp at hq
        rw [b9, c9, if_neg (fun h => by omega)]; omega
    · dsimp only
      rw [pushT_refs]; split <;> simp [b7, c7]
    · dsimp only
      rw [pushT_dups]; split <;> simp [b8, c8]

theorem ruleOK_table (P : BState → Nat → Prop) (codeOn : Bool) (terms : List BRule) (hin : ∀ t ∈ terms, SilentInert t) (ws : List Nat) :
    RuleOK P (ruleTable codeOn terms ws) := by
  have key := table_shape P codeOn terms hin ws
  refine ⟨?_, ?_, ?_, ?_⟩
  · intro s line endLine hc
    rcases key s line endLine hc with h | ⟨s', h, _⟩ <;> exact ⟨_, _, h⟩
  · intro s line endLine s' hc h
    rcases key s line endLine hc with h' | ⟨s2, h', _, h1, h2, _⟩
    · rw [h'] at h; cases h
    · rw [h'] at h; cases h; have := hc.le; exact ⟨by omega, by omega⟩
  · intro s line endLine s' hc h
    rcases key s line endLine hc with h' | ⟨s2, h', _⟩
    · rw [h'] at h; cases h; rfl
    · rw [h'] at h; cases h
  · intro s line endLine m s' hc h
    rcases key s line endLine hc with h' | ⟨s2, h', hf, _⟩
    · rw [h'] at h; cases h; exact ⟨⟨rfl, rfl⟩, rfl, rfl, rfl⟩
    · rw [h'] at h; cases h; exact hf

/-! ### the table rule as a terminator

`SilentInert` ("answers in silent mode on any line of the tables, for any `endLine`") is what the terminators modelled so far satisfy:
they look at their start line only.  The table rule reads the *next* line; it is inert under the weaker `SilentInertE`: the range it
is given ends inside the line tables — which every caller guarantees.  The scan lemmas of `paragraph` and `lheading` are re-proved
under that weaker hypothesis (`…E`), so that their contracts hold with the table rule in their terminator chain. -/

def SilentInertE (t : BRule) : Prop :=
  ∀ s line endLine, line < endLine → endLine < s.lines.length → ∃ b, t s line endLine true = .ok (b, s)

theorem SilentInert.toE {t : BRule} (h : SilentInert t) : SilentInertE t :=
  fun s line endLine hl hlen => h s line endLine (by omega)

theorem table_silent_ok (codeOn : Bool) (terms : List BRule) (ws : List Nat) : SilentInertE (ruleTable codeOn terms ws) := by
  intro s line endLine _ hlen
  obtain ⟨r, hr⟩ := tableHead_ok codeOn ws s line endLine hlen
  unfold ruleTable
  rw [hr]
  cases r with
  | none => exact ⟨false, rfl⟩
  | some p => exact ⟨true, rfl⟩

theorem runTerminators_inertE (ts : List BRule) (h : ∀ t ∈ ts, SilentInertE t) (s : BState) (line endLine : Nat)
    (hl : line < endLine) (hlen : endLine < s.lines.length) : ∃ b, runTerminators ts s line endLine = .ok (b, s) := by
  induction ts with
  | nil => exact ⟨false, rfl⟩
  | cons t rest ih =>
    obtain ⟨b, hb⟩ := h t (by simp) s line endLine hl hlen
    simp only [runTerminators, hb]
    cases b with
    | true => exact ⟨true, rfl⟩
    | false => exact ih (fun q hq => h q (by simp [hq]))

theorem paraScan_okE (ts : List BRule) (h : ∀ t ∈ ts, SilentInertE t) (s : BState) (endLine : Nat) (hlen : endLine < s.lines.length) :
    ∀ (fuel next : Nat), endLine - next < fuel → next ≤ endLine →
      ∃ r, paraScan ts endLine fuel next s = .ok (r, s) ∧ next ≤ r ∧ r ≤ endLine := by
  intro fuel
  induction fuel with
  | zero => intro next h1; omega
  | succ n ih =>
    intro next hf hle
    simp only [paraScan]
    split
    · rename_i hlt
      obtain ⟨l, hg, _⟩ := getL_ok s next (by omega)
      simp only [hg]
      have hrec : ∃ r, paraScan ts endLine n (next + 1) s = .ok (r, s) ∧ next ≤ r ∧ r ≤ endLine := by
        obtain ⟨r, h1, h2, h3⟩ := ih (next + 1) (by omega) (by omega)
        exact ⟨r, h1, by omega, h3⟩
      split
      · exact ⟨next, rfl, Nat.le_refl _, hle⟩
      · split
        · exact hrec
        · split
          · exact hrec
          · obtain ⟨b, hb⟩ := runTerminators_inertE ts h s next endLine hlt hlen
            simp only [hb]
            cases b with
            | true => exact ⟨next, rfl, Nat.le_refl _, hle⟩
            | false => exact hrec
    · exact ⟨next, rfl, Nat.le_refl _, hle⟩

theorem paragraph_shapeE (P : BState → Nat → Prop) (terms : List BRule) (hin : ∀ t ∈ terms, SilentInertE t) (ws : List Nat)
    (s : BState) (line endLine : Nat) (hc : CallCtx P s line endLine) :
    ∃ next c, line + 1 ≤ next ∧ next ≤ s.lineMax ∧ ruleParagraph terms ws s line endLine false = .ok (true,
      { (((({ s with parentType := "paragraph", line := next }).pushFull "paragraph_open" "p" 1 (some (line, next)) none "" "" "").pushFull
          "inline" "" 0 (some (line, next)) (some []) c "" "").pushFull "paragraph_close" "p" (-1) none none "" "" "") with
        parentType := s.parentType }) := by
  have hlenE : s.lineMax < s.lines.length := by have := hc.len; omega
  obtain ⟨next, h1, h2, h3⟩ := paraScan_okE terms hin { s with parentType := "paragraph" } s.lineMax hlenE
    (s.lineMax - line + 1) (line + 1) (by omega) (by have := hc.lt; have := hc.le; omega)
  simp only [ruleParagraph, h1]
  obtain ⟨c, hcx⟩ := getLinesB_ok { s with parentType := "paragraph" } line next s.blkIndent false (by simp; omega)
  simp only [hcx]
  exact ⟨next, _, h2, h3, rfl⟩

theorem ruleOK_paragraphE (P : BState → Nat → Prop) (terms : List BRule) (hin : ∀ t ∈ terms, SilentInertE t) (ws : List Nat) :
    RuleOK P (ruleParagraph terms ws) := by
  refine ⟨?_, ?_, ?_, ?_⟩
  · intro s line endLine hc
    obtain ⟨n, c, _, _, h⟩ := paragraph_shapeE P terms hin ws s line endLine hc
    exact ⟨_, _, h⟩
  · intro s line endLine s' hc h
    obtain ⟨n, c, h1, h2, h'⟩ := paragraph_shapeE P terms hin ws s line endLine hc
    rw [h'] at h; cases h; simp; omega
  · intro s line endLine s' hc h
    obtain ⟨n, c, h1, h2, h'⟩ := paragraph_shapeE P terms hin ws s line endLine hc
    rw [h'] at h; cases h
  · intro s line endLine m s' hc h
    obtain ⟨n, c, h1, h2, h'⟩ := paragraph_shapeE P terms hin ws s line endLine hc
    rw [h'] at h; cases h
    refine ⟨⟨rfl, rfl⟩, rfl, rfl, ?_⟩
    simp [BState.pushFull]

theorem paragraph_alwaysE (P : BState → Nat → Prop) (terms : List BRule) (hin : ∀ t ∈ terms, SilentInertE t) (ws : List Nat) :
    AlwaysMatches P (ruleParagraph terms ws) := by
  intro s line endLine hc
  obtain ⟨n, c, _, _, h⟩ := paragraph_shapeE P terms hin ws s line endLine hc
  exact ⟨_, h⟩

theorem lheadScan_okE (ts : List BRule) (h : ∀ t ∈ ts, SilentInertE t) (s : BState) (endLine : Nat) (hlen : endLine < s.lines.length) :
    ∀ (fuel next : Nat), endLine - next < fuel → next ≤ endLine →
      ∃ r o, lheadScan ts endLine fuel next s = .ok (r, o, s) ∧ next ≤ r ∧ r ≤ endLine ∧ (o.isSome = true → r < endLine) := by
  intro fuel
  induction fuel with
  | zero => intro next h1; omega
  | succ n ih =>
    intro next hf hle
    simp only [lheadScan]
    split
    · rename_i hlt
      obtain ⟨l, hg, _⟩ := getL_ok s next (by omega)
      simp only [hg]
      have hrec : ∃ r o, lheadScan ts endLine n (next + 1) s = .ok (r, o, s) ∧ next ≤ r ∧ r ≤ endLine ∧ (o.isSome = true → r < endLine) := by
        obtain ⟨r, o, h1, h2, h3, h4⟩ := ih (next + 1) (by omega) (by omega)
        exact ⟨r, o, h1, by omega, h3, h4⟩
      split
      · exact ⟨next, none, rfl, Nat.le_refl _, hle, by simp⟩
      · split
        · exact hrec
        · split
          · rename_i r _
            exact ⟨next, some r, rfl, Nat.le_refl _, hle, fun _ => hlt⟩
          · split
            · exact hrec
            · obtain ⟨b, hb⟩ := runTerminators_inertE ts h s next endLine hlt hlen
              simp only [hb]
              cases b with
              | true => exact ⟨next, none, rfl, Nat.le_refl _, hle, by simp⟩
              | false => exact hrec
    · exact ⟨next, none, rfl, Nat.le_refl _, hle, by simp⟩

theorem lheading_shapeE (P : BState → Nat → Prop) (codeOn : Bool) (terms : List BRule) (hin : ∀ t ∈ terms, SilentInertE t) (ws : List Nat)
    (s : BState) (line endLine : Nat) (hc : CallCtx P s line endLine) :
    ruleLheading codeOn terms ws s line endLine false = .ok (false, s)
    ∨ ruleLheading codeOn terms ws s line endLine false = .ok (false, { s with parentType := "paragraph" })
    ∨ ∃ next tag mk c, line + 1 ≤ next ∧ next < endLine ∧ ruleLheading codeOn terms ws s line endLine false = .ok (true,
      { (((({ s with parentType := "paragraph", line := next + 1 }).pushFull "heading_open" tag 1 (some (line, next + 1)) none "" mk "").pushFull
          "inline" "" 0 (some (line, next)) (some []) c "" "").pushFull "heading_close" tag (-1) none none "" mk "") with
        parentType := s.parentType }) := by
  obtain ⟨l, hg⟩ := here_getL' hc
  have hlenE : endLine < s.lines.length := by have := hc.len; have := hc.le; omega
  simp only [ruleLheading, hg]
  split
  · exact .inl rfl
  · obtain ⟨r, o, h1, h2, h3, h4⟩ := lheadScan_okE terms hin { s with parentType := "paragraph" } endLine hlenE
      (endLine - line + 1) (line + 1) (by omega) (by have := hc.lt; omega)
    simp only [h1]
    cases o with
    | none => exact .inr (.inl rfl)
    | some ml =>
      obtain ⟨marker, level⟩ := ml
      simp only
      obtain ⟨c, hcx⟩ := getLinesB_ok { s with parentType := "paragraph" } line r s.blkIndent false (by simp; have := h4 rfl; omega)
      simp only [hcx]
      exact .inr (.inr ⟨r, _, _, _, h2, h4 rfl, rfl⟩)

theorem ruleOK_lheadingE (P : BState → Nat → Prop) (codeOn : Bool) (terms : List BRule) (hin : ∀ t ∈ terms, SilentInertE t) (ws : List Nat) :
    RuleOK P (ruleLheading codeOn terms ws) := by
  have key := lheading_shapeE P codeOn terms hin ws
  refine ⟨?_, ?_, ?_, ?_⟩
  · intro s line endLine hc
    rcases key s line endLine hc with h | h | ⟨a, b, c, d, _, _, h⟩ <;> exact ⟨_, _, h⟩
  · intro s line endLine s' hc h
    rcases key s line endLine hc with h' | h' | ⟨a, b, c, d, h1, h2, h'⟩
    · rw [h'] at h; cases h
    · rw [h'] at h; cases h
    · rw [h'] at h; cases h; simp; have := hc.le; omega
  · intro s line endLine s' hc h
    rcases key s line endLine hc with h' | h' | ⟨a, b, c, d, h1, h2, h'⟩
    · rw [h'] at h; cases h; rfl
    · rw [h'] at h; cases h; rfl
    · rw [h'] at h; cases h
  · intro s line endLine m s' hc h
    rcases key s line endLine hc with h' | h' | ⟨a, b, c, d, h1, h2, h'⟩
    · rw [h'] at h; cases h; exact ⟨⟨rfl, rfl⟩, rfl, rfl, rfl⟩
    · rw [h'] at h; cases h; exact ⟨⟨rfl, rfl⟩, rfl, rfl, rfl⟩
    · rw [h'] at h; cases h
      refine ⟨⟨rfl, rfl⟩, rfl, rfl, ?_⟩
      simp [BState.pushFull]

/-! ### the chain with ten rules: `tChain` without `reference` -/

theorem tParaTerms_inertE (c : TCfg) (ws : List Nat) (mn : Int) : ∀ t ∈ tParaTerms c ws mn, SilentInertE t := by
  intro t ht
  simp only [tParaTerms, List.mem_append] at ht
  rcases ht with ht | ht
  · split at ht
    · simp at ht; subst ht; exact table_silent_ok _ _ _
    · cases ht
  · exact SilentInert.toE (mTerminators_inert c.toMCfg ws mn t ht)

/-- every rule of the table chain satisfies its contract at its depth (the `reference` rule, whose K3 bound is not proved, switched
    off); nested runs are total, framed, bounded -/
theorem tChain_ok (ext : IExt) (lx : LExt) (c : TCfg) (hnr : c.reference = false) (ws : List Nat) (mn : Int) : ∀ d : Nat,
    (∀ r ∈ tChain ext lx c ws mn d, RuleOK (Lv mn d) r) ∧ InnerOK mn d (tChain ext lx c ws mn d) := by
  intro d
  induction d with
  | zero =>
    refine ⟨fun r hr => by simp [tChain] at hr, ?_⟩
    intro s startLine endLine hlen hend hlv
    unfold Lv at hlv
    exact block_cut [] mn endLine _ startLine false s hlen hend (by simp at hlv; omega) (by omega)
  | succ d ih =>
    have hterm := mTerminators_inert c.toMCfg ws mn
    have hlterm := mListTerms_inert c.toMCfg mn
    have hpara := tParaTerms_inertE c ws mn
    have hrules : ∀ r ∈ tChain ext lx c ws mn (d + 1), RuleOK (Lv mn (d + 1)) r := by
      intro r hr
      simp only [tChain, hnr, Bool.false_eq_true, if_false, List.append_nil, List.mem_append, List.mem_singleton] at hr
      rcases hr with ((((((((hr | hr) | hr) | hr) | hr) | hr) | hr) | hr) | hr) | hr
      · split at hr
        · simp at hr; subst hr; exact ruleOK_table _ _ _ hterm ws
        · cases hr
      · split at hr
        · simp at hr; subst hr; exact ruleOK_code _ _
        · cases hr
      · split at hr
        · simp at hr; subst hr; exact ruleOK_fence _ _
        · cases hr
      · subst hr; exact ruleOK_blockquote mn d c.code _ hterm _ ih.2
      · split at hr
        · simp at hr; subst hr; exact ruleOK_hr _ _
        · cases hr
      · subst hr; exact ruleOK_list mn d c.code _ hlterm _ ih.2
      · split at hr
        · simp at hr; subst hr; exact ruleOK_htmlBlock _ _ _
        · cases hr
      · split at hr
        · simp at hr; subst hr; exact ruleOK_heading _ _ _
        · cases hr
      · split at hr
        · simp at hr; subst hr; exact ruleOK_lheadingE _ _ _ hpara ws
        · cases hr
      · subst hr; exact ruleOK_paragraphE _ _ hpara ws
    refine ⟨hrules, ?_⟩
    intro s startLine endLine hlen hend hlv
    have hlast : ∃ r ∈ tChain ext lx c ws mn (d + 1), AlwaysMatches (Lv mn (d + 1)) r :=
      ⟨ruleParagraph (tParaTerms c ws mn) ws, by simp [tChain], paragraph_alwaysE _ _ hpara ws⟩
    exact block_total_lines (Lv mn (d + 1)) (lv_closed mn (d + 1)) _ hrules hlast mn endLine _ startLine false s hlen hend hlv (by omega)

/-- **C01.t_total** — ten of the eleven block rules, the `table` rule included (in the main chain and as a terminator of `paragraph` and
`lheading`), containers nested to any depth: for every source, rule subset, `html` option, white-space table and `maxNesting` the
modelled block parse returns -/
theorem t_total (ext : IExt) (lx : LExt) (c : TCfg) (hnr : c.reference = false) (ws : List Nat) (maxNesting : Int) (src : List Char) :
    ∃ s, tParse ext lx c ws maxNesting src = .ok s := by
  unfold tParse
  simp only
  split
  · exact ⟨_, rfl⟩
  · obtain ⟨s', h, _⟩ := (tChain_ok ext lx c hnr ws maxNesting (maxNesting.toNat + 1)).2 (initBState (normalize src)) 0
      (initBState (normalize src)).lineMax (initBState_len _) (Nat.le_refl _)
      (by unfold Lv; show maxNesting + 1 ≤ (0 : Int) + ((maxNesting.toNat + 1 : Nat) : Int); omega)
    exact ⟨s', h⟩

def stateTypes (r : Except PyErr BState) : Option (List String × Nat) :=
  match r with
  | .ok s => some (s.tokens.map Tok.type, s.line)
  | .error _ => none

/-! non-vacuity: a table that interrupts a paragraph (the rule as a terminator), a body row with a missing cell, the table ended by a
block quote (its terminator chain); a delimiter-looking line without `|` in the header stays a setext heading -/
example : stateTypes (tParse { entity := fun _ => none, reformat := id, normText := id, html := false }
      { hasRefs := false, normRef := id, storeLabels := false, refs := fun _ => none }
      { code := true, fence := true, hr := true, heading := true, htmlBlock := false, lheading := true, html := false, reference := false,
        inlineDefs := false, table := true } [32, 9, 10, 11, 12, 13] 20
      "para\n|a|b|\n|-|:-:|\n|c|\n> q\n\nh\n---\n".toList)
    = some (["paragraph_open", "inline", "paragraph_close", "table_open", "thead_open", "tr_open", "th_open", "inline", "th_close", "th_open",
             "inline", "th_close", "tr_close", "thead_close", "tbody_open", "tr_open", "td_open", "inline", "td_close", "td_open", "inline",
             "td_close", "tr_close", "tbody_close", "table_close", "blockquote_open", "paragraph_open", "inline", "paragraph_close",
             "blockquote_close", "heading_open", "inline", "heading_close"], 8) := by
  decide +kernel

end MdIt.C01
