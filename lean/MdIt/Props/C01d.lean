import MdIt.Props.C01c
import MdIt.BlockList
/-!
# C01 (continued) — the list rule satisfies its contract; the sub-parser with block quotes and lists is total

`listItem_ok`: one item (open, line-table rewrite, nested run or the empty-item workaround, restore, close) returns with
the frame of its entry state and `state.line` strictly later, inside the tables.  `listItems_ok`: the item loop.
`ruleOK_list`, `lChain_ok` (both containers, by induction on the nesting budget), `l_total`.
-/
namespace MdIt.C01

theorem skipBullet_some (l : BLine) (n : Nat) (h : skipBullet l = some n) : 1 ≤ n ∧ n ≤ l.body.length := by
  unfold skipBullet at h
  split at h
  · cases h
  · rename_i m rest hb
    split at h
    · cases h
    · split at h
      · cases h; simp [hb]
      · split at h
        · cases h; simp [hb]
        · cases h

theorem ordLoop_some : ∀ (cs : List Char) (k n : Nat), ordLoop cs k = some n → k < n ∧ n ≤ k + cs.length := by
  intro cs
  induction cs with
  | nil => intro k n h; simp [ordLoop] at h
  | cons c rest ih =>
    intro k n h
    simp only [ordLoop] at h
    split at h
    · split at h
      · cases h
      · have := ih (k + 1) n h; simp only [List.length_cons]; omega
    · split at h
      · split at h
        · cases h; simp
        · split at h
          · cases h; simp
          · cases h
      · cases h

theorem skipOrdered_some (l : BLine) (n : Nat) (h : skipOrdered l = some n) : 1 ≤ n ∧ n ≤ l.body.length := by
  unfold skipOrdered at h
  split at h
  · cases h
  · split at h
    · cases h
    · rename_i ch rest hb
      split at h
      · cases h
      · have := ordLoop_some rest 1 n h
        simp only [hb, List.length_cons]; omega

theorem marker_char (l : BLine) (n : Nat) (h : 1 ≤ n ∧ n ≤ l.body.length) : ∃ c, l.body[n - 1]? = some c := by
  cases hq : l.body[n - 1]? with
  | none => rw [List.getElem?_eq_none_iff] at hq; omega
  | some c => exact ⟨c, rfl⟩

theorem list_inert (codeOn : Bool) (terms inner : List BRule) (mn : Int) : SilentInert (ruleList codeOn terms inner mn) := by
  intro s line endLine hl
  obtain ⟨l, hg, _⟩ := getL_ok s line hl
  simp only [ruleList, hg]
  split
  · exact ⟨_, rfl⟩
  · split
    · exact ⟨_, rfl⟩
    · -- the marker
      cases ho : skipOrdered l with
      | some n =>
        simp only []
        obtain ⟨c, hc⟩ := marker_char l n (skipOrdered_some l n ho)
        split
        · exact ⟨_, rfl⟩
        · split
          · exact ⟨_, rfl⟩
          · simp only [hc, if_true]; exact ⟨_, rfl⟩
      | none =>
        cases hb : skipBullet l with
        | some n =>
          simp only []
          obtain ⟨c, hc⟩ := marker_char l n (skipBullet_some l n hb)
          split
          · exact ⟨_, rfl⟩
          · split
            · exact ⟨_, rfl⟩
            · simp only [hc, if_true]; exact ⟨_, rfl⟩
        | none => exact ⟨_, rfl⟩

theorem lListTerms_inert (c : MiniCfg) (mn : Int) : ∀ t ∈ lListTerms c mn, SilentInert t := by
  intro t ht
  simp only [lListTerms, List.mem_append, List.mem_singleton] at ht
  rcases ht with (ht | ht) | ht
  · split at ht
    · simp at ht; subst ht; exact fence_inert _
    · cases ht
  · subst ht; exact quote_inert _ _ _ _
  · split at ht
    · simp at ht; subst ht; exact hr_inert _
    · cases ht

theorem lTerminators_inert (c : MiniCfg) (ws : List Nat) (mn : Int) : ∀ t ∈ lTerminators c ws mn, SilentInert t := by
  intro t ht
  simp only [lTerminators, List.mem_append, List.mem_singleton] at ht
  rcases ht with (((ht | ht) | ht) | ht) | ht
  · split at ht
    · simp at ht; subst ht; exact fence_inert _
    · cases ht
  · subst ht; exact quote_inert _ _ _ _
  · split at ht
    · simp at ht; subst ht; exact hr_inert _
    · cases ht
  · subst ht; exact list_inert _ _ _ _
  · split at ht
    · simp at ht; subst ht; exact heading_inert _ _
    · cases ht

theorem retab_retab (l : BLine) (a : Nat) (b : Int) : (l.retab a b).retab l.tShift l.sCount = l := by
  cases l; rfl

theorem lLoop_ge (bs : Nat) : ∀ (text : List Char) (offset : Int) (n : Nat), offset ≤ (lLoop bs offset text n).1 := by
  intro text
  induction text with
  | nil => intro offset n; simp [lLoop]
  | cons c rest ih =>
    intro offset n
    simp only [lLoop]
    split
    · have := ih (offset + (4 - (offset + bs) % 4)) (n + 1)
      have hm : (offset + (bs : Int)) % 4 < 4 := Int.emod_lt_of_pos _ (by decide)
      omega
    · split
      · have := ih (offset + 1) (n + 1); omega
      · exact Int.le_refl _

theorem set_set_self {α} (l : List α) (i : Nat) (x y : α) (h : l[i]? = some y) : (l.set i x).set i y = l := by
  apply List.ext_getElem?
  intro j
  by_cases hj : j = i
  · subst hj
    have hlt : j < l.length := by
      rcases Nat.lt_or_ge j l.length with hc | hc
      · exact hc
      · rw [List.getElem?_eq_none_iff.mpr hc] at h; cases h
    rw [List.getElem?_set_self (by simpa using hlt)]; exact h.symm
  · rw [List.getElem?_set_ne (by omega), List.getElem?_set_ne (by omega)]

/-- the fields the list rule keeps while it opens the list: everything of the frame, the level one up, the line -/
def _root_.MdIt.BState.FrameEq' (s s2 : BState) : Prop :=
  s2.lines = s.lines ∧ s2.lineMax = s.lineMax ∧ s2.listIndent = s.listIndent ∧ s2.blkIndent = s.blkIndent ∧ s2.level = s.level + 1
    ∧ s2.line = s.line

theorem isEmpty_ok (s : BState) (i : Nat) (h : i < s.lines.length) : ∃ b, s.isEmpty (i : Int) = .ok b := by
  unfold BState.isEmpty idx
  have h0 : ¬ ((i : Int) < 0) := by omega
  simp only [h0, if_false]
  have : (i : Int).toNat = i := by simp
  rw [this]
  cases hq : s.lines[i]? with
  | none => rw [List.getElem?_eq_none_iff] at hq; omega
  | some b => exact ⟨b.empty, by simp⟩

/-- the nested run of an item: framed, and `line` strictly after the item's first line -/
theorem listNested_ok (mn : Int) (d : Nat) (inner : List BRule) (hinner : InnerOK mn d inner) (endLine : Nat) (s2 : BState)
    (startLine : Nat) (ce : Bool) (hlen : s2.lineMax + 1 ≤ s2.lines.length) (hend : endLine ≤ s2.lineMax) (hlt : startLine < endLine)
    (hline : s2.line = startLine) (hlv : Lv mn d s2 endLine)
    (hstart : ∀ l, s2.lines[startLine]? = some l → l.empty = false → s2.blkIndent ≤ l.sCount) :
    ∃ s3, listNested inner mn endLine s2 startLine ce = .ok s3 ∧ s2.FrameEq s3 ∧ startLine < s3.line ∧ s3.line ≤ s2.lineMax := by
  unfold listNested
  have hrun : ∃ s3, blockTokenize inner mn s2 startLine endLine = .ok s3 ∧ s2.FrameEq s3 ∧ startLine < s3.line ∧ s3.line ≤ s2.lineMax := by
    obtain ⟨s3, h3, hf3, hp3⟩ := hinner s2 startLine endLine hlen hend hlv
    exact ⟨s3, h3, hf3, (hp3.1 hlt).2.2 hstart, (hp3.1 hlt).2.1⟩
  have hscr : ∃ b, (if ce = true then s2.isEmpty ((startLine : Int) + 1) else Except.ok false) = .ok b := by
    split
    · have := isEmpty_ok s2 (startLine + 1) (by omega)
      simpa using this
    · exact ⟨false, rfl⟩
  obtain ⟨b, hb⟩ := hscr
  rw [hb]
  cases b with
  | true =>
    refine ⟨_, rfl, ⟨⟨rfl, rfl⟩, rfl, rfl, rfl⟩, ?_, ?_⟩
    · show startLine < min (s2.line + 2) endLine
      rw [hline]; omega
    · show min (s2.line + 2) endLine ≤ s2.lineMax
      omega
  | false => exact hrun

/-- closing an item restores the frame of the state the item was entered from -/
theorem listClose_ok (markerChar : Char) (s s1 : BState) (l : BLine) (ntok startLine : Nat) (s3 : BState) (a : Nat) (b : Int)
    (hl : s.lines[startLine]? = some l)
    (h3lines : s3.lines = s.lines.set startLine (l.retab a b)) (h3max : s3.lineMax = s.lineMax) (h3li : s3.listIndent = s.blkIndent)
    (h3lvl : s3.level = s.level + 1) (h1li : s1.listIndent = s.listIndent)
    (hlen : s.lineMax + 1 ≤ s.lines.length) (hgt : startLine < s3.line) (hle : s3.line ≤ s.lineMax) (hsl : startLine < s.lines.length) :
    ∃ s6 nt pe, listClose markerChar s1 l ntok startLine s3 = .ok (s6, nt, pe) ∧ s.FrameEq s6 ∧ s6.line = s3.line := by
  unfold listClose
  have hpe : ∃ pe, (if s3.line - startLine > 1 then s3.isEmpty ((s3.line : Int) - 1) else Except.ok false) = .ok pe := by
    split
    · have := isEmpty_ok s3 (s3.line - 1) (by rw [h3lines, List.length_set]; omega)
      have hc : ((s3.line - 1 : Nat) : Int) = (s3.line : Int) - 1 := by omega
      rw [hc] at this; exact this
    · exact ⟨false, rfl⟩
  obtain ⟨pe, hpe⟩ := hpe
  simp only [hpe]
  have hg3 : getL s3 startLine = .ok (l.retab a b) := by
    apply getL_of_here; rw [h3lines, List.getElem?_set_self hsl]
  simp only [hg3, retab_retab]
  refine ⟨_, _, _, rfl, ⟨⟨?_, ?_⟩, ?_, ?_, ?_⟩, rfl⟩
  · show (s3.lines.set startLine l) = s.lines
    rw [h3lines]; exact set_set_self _ _ _ _ hl
  · exact h1li
  · exact h3max
  · exact h3li
  · simp only [pushFull_level_close]
    show s3.level - 1 = s.level
    omega

/-- one item: frame kept, `line` strictly later -/
theorem listItem_ok (mn : Int) (d : Nat) (ordered : Bool) (markerChar : Char) (inner : List BRule) (hinner : InnerOK mn d inner)
    (endLine : Nat) (s : BState) (startLine markerLen : Nat)
    (hlen : s.lineMax + 1 ≤ s.lines.length) (hend : endLine ≤ s.lineMax) (hlt : startLine < endLine) (hline : s.line = startLine)
    (hlv : mn + 1 ≤ s.level + 1 + (d : Int)) :
    ∃ s6 nt pe, listItem ordered markerChar inner mn endLine s startLine markerLen = .ok (s6, nt, pe) ∧ s.FrameEq s6
      ∧ startLine < s6.line ∧ s6.line ≤ s.lineMax := by
  obtain ⟨l, hg, hl⟩ := getL_ok s startLine (by omega)
  simp only [listItem, hg]
  generalize hq : lLoop l.bs ((l.sCount : Int) + (markerLen : Int)) (List.drop markerLen l.body) 0 = q
  generalize hs1 : s.pushFull "list_item_open" "li" 1 (some (startLine, 0)) none "" (String.singleton markerChar)
      (if ordered = true then String.ofList (List.take (markerLen - 1) l.body) else "") = s1
  have hs1f : s1.lines = s.lines ∧ s1.lineMax = s.lineMax ∧ s1.blkIndent = s.blkIndent ∧ s1.level = s.level + 1
      ∧ s1.line = s.line ∧ s1.listIndent = s.listIndent := by
    subst hs1; exact ⟨rfl, rfl, rfl, pushFull_level_open _ _ _ _ _ _ _ _, rfl, rfl⟩
  -- the nested entry state
  have e2lines : (listEnter s1 l startLine markerLen q (listIndentOf l markerLen q)).lines
      = s.lines.set startLine (l.retab (l.tShift + markerLen + q.2) q.1) := by simp [listEnter, hs1f.1]
  have e2max : (listEnter s1 l startLine markerLen q (listIndentOf l markerLen q)).lineMax = s.lineMax := hs1f.2.1
  have e2lvl : (listEnter s1 l startLine markerLen q (listIndentOf l markerLen q)).level = s.level + 1 := hs1f.2.2.2.1
  have e2line : (listEnter s1 l startLine markerLen q (listIndentOf l markerLen q)).line = startLine := by
    show s1.line = startLine; rw [hs1f.2.2.2.2.1, hline]
  have e2li : (listEnter s1 l startLine markerLen q (listIndentOf l markerLen q)).listIndent = s.blkIndent := hs1f.2.2.1
  have hsl : startLine < s.lines.length := by omega
  obtain ⟨s3, h3, hf3, hgt3, hle3⟩ := listNested_ok mn d inner hinner endLine
    (listEnter s1 l startLine markerLen q (listIndentOf l markerLen q)) startLine
    (decide ((List.drop markerLen l.body).length ≤ q.2))
    (by rw [e2max, e2lines, List.length_set]; exact hlen) (by rw [e2max]; exact hend) hlt e2line
    (by unfold Lv; rw [e2lvl]; omega)
    (by
      intro l2 hl2 hne
      rw [e2lines, List.getElem?_set_self hsl] at hl2
      cases hl2
      show listIndentOf l markerLen q ≤ q.1
      have hge := lLoop_ge l.bs (List.drop markerLen l.body) ((l.sCount : Int) + (markerLen : Int)) 0
      rw [hq] at hge
      have hne' : ¬ ((List.drop markerLen l.body).length ≤ q.2) := by
        intro hc
        have : (l.retab (l.tShift + markerLen + q.2) q.1).empty = true := by
          show decide (l.text.length ≤ l.tShift + markerLen + q.2) = true
          have hb : l.body.length = l.text.length - l.tShift := by simp [BLine.body]
          simp only [List.length_drop] at hc
          simp only [decide_eq_true_eq]
          omega
        rw [this] at hne; cases hne
      simp only [listIndentOf, hne', decide_false, Bool.false_eq_true, if_false]
      split <;> omega)
  simp only [h3]
  obtain ⟨s6, nt, pe, hc, hf6, hl6⟩ := listClose_ok markerChar s s1 l s.tokens.length startLine s3 (l.tShift + markerLen + q.2) q.1 hl
    (by rw [hf3.1.1, e2lines]) (by rw [hf3.2.1, e2max]) (by rw [hf3.1.2, e2li]) (by rw [hf3.2.2.2, e2lvl]) hs1f.2.2.2.2.2
    hlen hgt3 (by rw [e2max] at hle3; exact hle3) hsl
  exact ⟨s6, nt, pe, hc, hf6, by rw [hl6]; exact hgt3, by rw [hl6]; rw [e2max] at hle3; exact hle3⟩

/-- the item loop: framed, and `startLine` (the line the list ends on) moves strictly forward when the loop is entered -/
theorem listItems_ok (mn : Int) (d : Nat) (codeOn ordered : Bool) (markerChar : Char) (terms : List BRule) (hin : ∀ t ∈ terms, SilentInert t)
    (inner : List BRule) (hinner : InnerOK mn d inner) (endLine : Nat) :
    ∀ (fuel : Nat) (st : ListSt), endLine - st.startLine < fuel → st.s.lineMax + 1 ≤ st.s.lines.length → endLine ≤ st.s.lineMax →
      st.s.line = st.startLine → mn + 1 ≤ st.s.level + 1 + (d : Int) → st.startLine ≤ st.s.lineMax →
      ∃ st', listItems codeOn ordered markerChar terms inner mn endLine fuel st = .ok st' ∧ st.s.FrameEq st'.s
        ∧ st.startLine ≤ st'.startLine ∧ (st.startLine < endLine → st.startLine < st'.startLine) ∧ st'.startLine ≤ st.s.lineMax
        := by
  intro fuel
  induction fuel with
  | zero => intro st h; omega
  | succ n ih =>
    intro st hf hlen hend hline hlv hsm
    simp only [listItems]
    split
    · rename_i hn
      exact ⟨st, rfl, frameEq_refl _, Nat.le_refl _, fun h => absurd h hn, by omega⟩
    · rename_i hlt
      have hlt' : st.startLine < endLine := by simpa using hlt
      obtain ⟨s6, nt, pe, hitem, hf6, hgt6, hle6⟩ := listItem_ok mn d ordered markerChar inner hinner endLine st.s st.startLine st.markerLen
        hlen hend hlt' hline hlv
      simp only [hitem]
      have stop : ∀ (x : ListSt), x.s = s6 → x.startLine = s6.line →
          ∃ st', (Except.ok x : Except PyErr ListSt) = .ok st' ∧ st.s.FrameEq st'.s
            ∧ st.startLine ≤ st'.startLine ∧ (st.startLine < endLine → st.startLine < st'.startLine) ∧ st'.startLine ≤ st.s.lineMax := by
        intro x hx1 hx2
        exact ⟨x, rfl, by rw [hx1]; exact hf6, by rw [hx2]; omega, fun _ => by rw [hx2]; exact hgt6, by rw [hx2]; exact hle6⟩
      split
      · exact stop _ rfl rfl
      · rename_i hnge
        have hlen6 : s6.lineMax + 1 ≤ s6.lines.length := by rw [hf6.1.1, hf6.2.1]; exact hlen
        obtain ⟨ln, hgl, _⟩ := getL_ok s6 s6.line (by rw [hf6.1.1]; omega)
        simp only [hgl]
        split
        · exact stop _ rfl rfl
        · split
          · exact stop _ rfl rfl
          · obtain ⟨b, hb⟩ := runTerminators_inert terms hin s6 s6.line endLine (by rw [hf6.1.1]; omega)
            simp only [hb]
            cases b with
            | true => exact stop _ rfl rfl
            | false =>
              simp only
              split
              · exact stop _ rfl rfl
              · split
                · exact stop _ rfl rfl
                · rename_i mlen _ _
                  obtain ⟨st', h1, h2, h3, h4, h5⟩ := ih
                    { s := s6, startLine := s6.line, markerLen := mlen, tight := (if (!nt || st.prevEmptyEnd) = true then false else st.tight), prevEmptyEnd := pe }
                    (by show endLine - s6.line < n; omega) hlen6 (by rw [hf6.2.1]; exact hend) rfl (by rw [hf6.2.2.2]; exact hlv) (by show s6.line ≤ s6.lineMax; rw [hf6.2.1]; exact hle6)
                  refine ⟨st', h1, frameEq_trans hf6 h2, ?_, ?_, ?_⟩
                  · have : s6.line ≤ st'.startLine := h3; omega
                  · intro _; have : s6.line ≤ st'.startLine := h3; omega
                  · have : st'.startLine ≤ s6.lineMax := h5; rw [hf6.2.1] at this; exact this

/-- the list proper: framed, `line` strictly later -/
theorem listRun_ok (mn : Int) (d : Nat) (codeOn ordered : Bool) (markerChar : Char) (mlen mv : Nat) (terms : List BRule)
    (hin : ∀ t ∈ terms, SilentInert t) (inner : List BRule) (hinner : InnerOK mn d inner) (s : BState) (line endLine : Nat)
    (hc : CallCtx (Lv mn (d + 1)) s line endLine) :
    ∃ s', listRun codeOn ordered markerChar mlen mv terms inner mn s line endLine = .ok (true, s') ∧ s.FrameEq s' ∧ line < s'.line
      ∧ s'.line ≤ s.lineMax := by
  unfold listRun
  simp only []
  generalize hs2 : ({ (if (ordered && mv != 1) = true then
      { (s.pushFull (if ordered = true then "ordered_list_open" else "bullet_list_open") (if ordered = true then "ol" else "ul") 1 (some (line, 0)) none "" (String.singleton markerChar) "") with
        tokens := (s.pushFull (if ordered = true then "ordered_list_open" else "bullet_list_open") (if ordered = true then "ol" else "ul") 1 (some (line, 0)) none "" (String.singleton markerChar) "").tokens.modify s.tokens.length
          (fun t => t.setAttrs [("start", AttrVal.i mv)]) }
    else s.pushFull (if ordered = true then "ordered_list_open" else "bullet_list_open") (if ordered = true then "ol" else "ul") 1 (some (line, 0)) none "" (String.singleton markerChar) "") with
    parentType := "list" } : BState) = s2
  have hs2f : s.FrameEq' s2 := by
    subst hs2
    split <;> exact ⟨rfl, rfl, rfl, rfl, by simp [pushFull_level_open], rfl⟩
  obtain ⟨st, hst, hfst, _, hgt, hle⟩ := listItems_ok mn d codeOn ordered markerChar terms hin inner hinner endLine (endLine - line + 1)
    { s := s2, startLine := line, markerLen := mlen, tight := true, prevEmptyEnd := false }
    (by show endLine - line < endLine - line + 1; omega)
    (by show s2.lineMax + 1 ≤ s2.lines.length; rw [hs2f.2.1, hs2f.1]; exact hc.len)
    (by show endLine ≤ s2.lineMax; rw [hs2f.2.1]; exact hc.le)
    (by show s2.line = line; rw [hs2f.2.2.2.2.2]; exact hc.cur)
    (by
      show mn + 1 ≤ s2.level + 1 + (d : Int)
      rw [hs2f.2.2.2.2.1]
      have := hc.extra; unfold Lv at this; omega)
    (by show line ≤ s2.lineMax; rw [hs2f.2.1]; have := hc.lt; have := hc.le; omega)
  simp only [hst]
  have hgt' : line < st.startLine := hgt hc.lt
  have hle' : st.startLine ≤ s.lineMax := by have : st.startLine ≤ s2.lineMax := hle; rw [hs2f.2.1] at this; exact this
  have hlines : st.s.lines = s.lines := by rw [hfst.1.1]; exact hs2f.1
  have hli : st.s.listIndent = s.listIndent := by rw [hfst.1.2]; exact hs2f.2.2.1
  have hmax : st.s.lineMax = s.lineMax := by rw [hfst.2.1]; exact hs2f.2.1
  have hblk : st.s.blkIndent = s.blkIndent := by rw [hfst.2.2.1]; exact hs2f.2.2.2.1
  have hlvl : st.s.level = s.level + 1 := by rw [hfst.2.2.2]; exact hs2f.2.2.2.2.1
  refine ⟨_, rfl, ?_, ?_, ?_⟩
  · split
    · exact ⟨⟨hlines, hli⟩, hmax, hblk, by simp only [pushFull_level_close]; omega⟩
    · exact ⟨⟨hlines, hli⟩, hmax, hblk, by simp only [pushFull_level_close]; omega⟩
  · split <;> exact hgt'
  · split <;> exact hle'

theorem list_shape (mn : Int) (d : Nat) (codeOn : Bool) (terms : List BRule) (hin : ∀ t ∈ terms, SilentInert t)
    (inner : List BRule) (hinner : InnerOK mn d inner) (s : BState) (line endLine : Nat)
    (hc : CallCtx (Lv mn (d + 1)) s line endLine) :
    ruleList codeOn terms inner mn s line endLine false = .ok (false, s) ∨
    ∃ s', ruleList codeOn terms inner mn s line endLine false = .ok (true, s') ∧ s.FrameEq s' ∧ line < s'.line ∧ s'.line ≤ s.lineMax := by
  obtain ⟨l, hl, _, _⟩ := hc.here
  have hg := getL_of_here hl
  have run := fun (ordered : Bool) (mc : Char) (mlen mv : Nat) =>
    listRun_ok mn d codeOn ordered mc mlen mv terms hin inner hinner s line endLine hc
  simp only [ruleList, hg, Bool.false_eq_true, if_false, Bool.false_and, Bool.and_false]
  split
  · exact .inl rfl
  · split
    · exact .inl rfl
    · cases ho : skipOrdered l with
      | some n =>
        obtain ⟨c, hcm⟩ := marker_char l n (skipOrdered_some l n ho)
        simp only [hcm]
        obtain ⟨s', h1, h2, h3, h4⟩ := run true c n (digitsVal (List.take (n - 1) l.body))
        exact .inr ⟨s', h1, h2, h3, h4⟩
      | none =>
        cases hb : skipBullet l with
        | some n =>
          obtain ⟨c, hcm⟩ := marker_char l n (skipBullet_some l n hb)
          simp only [hcm]
          obtain ⟨s', h1, h2, h3, h4⟩ := run false c n (digitsVal (List.take (n - 1) l.body))
          exact .inr ⟨s', h1, h2, h3, h4⟩
        | none => exact .inl rfl

theorem ruleOK_list (mn : Int) (d : Nat) (codeOn : Bool) (terms : List BRule) (hin : ∀ t ∈ terms, SilentInert t)
    (inner : List BRule) (hinner : InnerOK mn d inner) : RuleOK (Lv mn (d + 1)) (ruleList codeOn terms inner mn) := by
  have key := list_shape mn d codeOn terms hin inner hinner
  refine ⟨?_, ?_, ?_, ?_⟩
  · intro s line endLine hc
    rcases key s line endLine hc with h | ⟨s', h, _⟩ <;> exact ⟨_, _, h⟩
  · intro s line endLine s' hc h
    rcases key s line endLine hc with h' | ⟨s'', h', _, h2, h3⟩
    · rw [h'] at h; cases h
    · rw [h'] at h; cases h; exact ⟨h2, h3⟩
  · intro s line endLine s' hc h
    rcases key s line endLine hc with h' | ⟨s'', h', _⟩
    · rw [h'] at h; cases h; rfl
    · rw [h'] at h; cases h
  · intro s line endLine m s' hc h
    rcases key s line endLine hc with h' | ⟨s'', h', hf, _⟩
    · rw [h'] at h; cases h; exact frameEq_refl _
    · rw [h'] at h; cases h; exact hf

/-- the chains with both containers: every rule satisfies its contract at its depth; nested runs are total, framed, bounded -/
theorem lChain_ok (c : MiniCfg) (ws : List Nat) (mn : Int) : ∀ d : Nat,
    (∀ r ∈ lChain c ws mn d, RuleOK (Lv mn d) r) ∧ InnerOK mn d (lChain c ws mn d) := by
  intro d
  induction d with
  | zero =>
    refine ⟨fun r hr => by simp [lChain] at hr, ?_⟩
    intro s startLine endLine hlen hend hlv
    unfold Lv at hlv
    exact block_cut [] mn endLine _ startLine false s hlen hend (by simp at hlv; omega) (by omega)
  | succ d ih =>
    have hterm := lTerminators_inert c ws mn
    have hlterm := lListTerms_inert c mn
    have hrules : ∀ r ∈ lChain c ws mn (d + 1), RuleOK (Lv mn (d + 1)) r := by
      intro r hr
      simp only [lChain, List.mem_append, List.mem_singleton] at hr
      rcases hr with (((((hr | hr) | hr) | hr) | hr) | hr) | hr
      · split at hr
        · simp at hr; subst hr; exact ruleOK_code _ _
        · cases hr
      · split at hr
        · simp at hr; subst hr; exact ruleOK_fence _ _
        · cases hr
      · subst hr; exact ruleOK_blockquote mn d c.code _ hterm _ ih.2
      · split at hr
        · simp at hr; subst hr; exact ruleOK_hr _ _
        · cases hr
      · subst hr; exact ruleOK_list mn d c.code _ hlterm _ ih.2
      · split at hr
        · simp at hr; subst hr; exact ruleOK_heading _ _ _
        · cases hr
      · subst hr; exact ruleOK_paragraph _ _ hterm ws
    refine ⟨hrules, ?_⟩
    intro s startLine endLine hlen hend hlv
    have hlast : ∃ r ∈ lChain c ws mn (d + 1), AlwaysMatches (Lv mn (d + 1)) r :=
      ⟨ruleParagraph (lTerminators c ws mn) ws, by simp [lChain], paragraph_always _ _ hterm ws⟩
    exact block_total_lines (Lv mn (d + 1)) (lv_closed mn (d + 1)) _ hrules hlast mn endLine _ startLine false s hlen hend hlv (by omega)

/-- **C01.l_total** — block quotes and lists in the chain, nested in each other to any depth: for every source, every subset of
`code`, `fence`, `hr`, `heading`, every white-space table and every `maxNesting`, the modelled parse returns a token list -/
theorem l_total (c : MiniCfg) (ws : List Nat) (maxNesting : Int) (src : List Char) :
    ∃ ts, lParse c ws maxNesting src = .ok ts := by
  unfold lParse
  simp only
  split
  · exact ⟨[], rfl⟩
  · obtain ⟨s', h, _⟩ := (lChain_ok c ws maxNesting (maxNesting.toNat + 1)).2 (initBState (normalize src)) 0
      (initBState (normalize src)).lineMax (initBState_len _) (Nat.le_refl _)
      (by unfold Lv; show maxNesting + 1 ≤ (0 : Int) + ((maxNesting.toNat + 1 : Nat) : Int); omega)
    rw [h]; exact ⟨_, rfl⟩

/-! non-vacuity: nested lists and quotes, a loose list, an ordered list with a start number -/
example : typesOf (lParse ⟨true, true, true, true⟩ [32, 9, 10] 100 "- a\n  > q\n\n  b\n- c\n\n3. x\n".toList)
    = some ["bullet_list_open", "list_item_open", "paragraph_open", "inline", "paragraph_close", "blockquote_open", "paragraph_open",
            "inline", "paragraph_close", "blockquote_close", "paragraph_open", "inline", "paragraph_close", "list_item_close",
            "list_item_open", "paragraph_open", "inline", "paragraph_close", "list_item_close", "bullet_list_close",
            "ordered_list_open", "list_item_open", "paragraph_open", "inline", "paragraph_close", "list_item_close", "ordered_list_close"] := by
  decide +kernel

end MdIt.C01
