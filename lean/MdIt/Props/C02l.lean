import MdIt.Props.C02j
import MdIt.Props.C02k
/-!
# C02 (continued) — the top-level stream of `MarkdownIt.parse` with the `table` rule, end to end

`t_wellformed` lifted through the `inline` and `text_join` core rules (they change neither nesting nor level of a top-level token):
**`fullT_top_wellformed`**.
-/
namespace MdIt.C02

theorem fullT_top_wellformed (cls : QCls) (ext : IExt) (lx : LExt) (tc : TCfg) (hnr : tc.reference = false) (ic : ICfg) (ws : List Nat) (mn : Int)
    (d : Nat) (src : List Char) (ts : List Tok) (refs dups) (h : fullParseT cls ext lx tc ic ws mn d src = .ok (ts, refs, dups)) :
    levelsOK 0 ts ∧ depthAfter 0 ts = 0 ∧ balancedFrom 0 ts = true ∧ ∃ f, buildTree ts = .ok f := by
  unfold fullParseT at h
  cases hb : tParse ext lx tc ws mn src with
  | error e => rw [hb] at h; cases h
  | ok st =>
    rw [hb] at h
    simp only at h
    obtain ⟨w1, w2, w3, _⟩ := t_wellformed ext lx tc hnr ws mn src st hb
    have hsame : SameNL ts st.tokens := by
      cases hc : (if ic.inlineOn = true then coreInline (inlineOf cls ext (envAfter lx st) ic mn d) st.tokens else Except.ok st.tokens) with
      | error e => rw [hc] at h; cases h
      | ok its =>
        rw [hc] at h
        simp only [Except.ok.injEq, Prod.mk.injEq] at h
        obtain ⟨h, _, _⟩ := h
        have h1 : SameNL its st.tokens := by
          split at hc
          · exact coreInline_sameNL _ st.tokens its hc
          · simp only [Except.ok.injEq] at hc; subst hc; exact SameNL.refl _
        subst h
        split
        · exact (textJoin_sameNL its).trans h1
        · exact h1
    have hbal : balancedFrom 0 ts = true := by rw [balancedFrom_congr ts st.tokens 0 hsame]; exact w3
    exact ⟨(levelsOK_congr ts st.tokens 0 hsame).2 w1, by rw [depthAfter_congr ts st.tokens 0 hsame]; exact w2, hbal, tree_of_balanced ts hbal⟩

end MdIt.C02
