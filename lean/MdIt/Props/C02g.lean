import MdIt.Props.C02f
/-!
# C02 (continued) — opening and closing tokens of the inline stream pair up by tag, in stack order

`tagNest` runs the stack discipline an HTML consumer applies: an opening token pushes its tag, a closing token must find its own tag on
top.  `nest_of_desc`: a token list *described* by a family of bracket pairs (opening token at `a`, closing token with the same tag at
`b > a`, every other token nesting 0, endpoints distinct) passes it when the family is laminar.  `emini_tags_nested` derives the
description of the emphasis stream from `C02e.pairs_laminar` / `pairs_facts` through the post-processing loop and `fragments_join`.
-/
namespace MdIt.C02g
open MdIt MdIt.C02 MdIt.C02f

def tagNest : List String → List Tok → Option (List String)
  | st, [] => some st
  | st, t :: r =>
    if t.nesting = 1 then tagNest (t.tag :: st) r
    else if t.nesting = -1 then
      (match st with
       | top :: st' => if top = t.tag then tagNest st' r else none
       | [] => none)
    else tagNest st r

/-- a bracket pair: position of the opening token, of the closing token, the tag -/
abbrev Brk := Nat × Nat × String

structure Desc (ts : List Tok) (P : List Brk) : Prop where
  opn : ∀ b ∈ P, ∃ t, ts[b.1]? = some t ∧ t.nesting = 1 ∧ t.tag = b.2.2
  cls : ∀ b ∈ P, ∃ t, ts[b.2.1]? = some t ∧ t.nesting = -1 ∧ t.tag = b.2.2
  rest : ∀ (p : Nat) (t : Tok), ts[p]? = some t → (∀ b ∈ P, b.1 ≠ p ∧ b.2.1 ≠ p) → t.nesting = 0
  ord : ∀ b ∈ P, b.1 < b.2.1
  dist : ∀ b1 ∈ P, ∀ b2 ∈ P, b1 ≠ b2 → b1.1 ≠ b2.1 ∧ b1.1 ≠ b2.2.1 ∧ b1.2.1 ≠ b2.1 ∧ b1.2.1 ≠ b2.2.1
  lam : ∀ b1 ∈ P, ∀ b2 ∈ P, ¬ (b1.1 < b2.1 ∧ b2.1 < b1.2.1 ∧ b1.2.1 < b2.2.1)

/-- the pairs open just before position `p`, innermost first -/
structure OpenAt (P : List Brk) (p : Nat) (L : List Brk) : Prop where
  mem : ∀ b, b ∈ L ↔ b ∈ P ∧ b.1 < p ∧ p ≤ b.2.1
  sorted : L.Pairwise (fun x y => y.1 < x.1)

theorem nest_go (ts : List Tok) (P : List Brk) (hD : Desc ts P) : ∀ (k p : Nat) (L : List Brk), ts.length - p ≤ k → p ≤ ts.length →
    OpenAt P p L → tagNest (L.map (·.2.2)) (ts.drop p) = some [] := by
  intro k
  induction k with
  | zero =>
    intro p L hk hp hL
    have hpe : p = ts.length := by omega
    have hnil : L = [] := by
      cases L with
      | nil => rfl
      | cons b rest =>
        exfalso
        have hb := (hL.mem b).1 (by simp)
        obtain ⟨t, ht, _⟩ := hD.cls b hb.1
        have : b.2.1 < ts.length := by
          rcases Nat.lt_or_ge b.2.1 ts.length with h | h
          · exact h
          · rw [List.getElem?_eq_none_iff.mpr h] at ht; cases ht
        omega
    subst hnil
    rw [hpe, List.drop_length]; rfl
  | succ n ih =>
    intro p L hk hp hL
    by_cases hpe : p = ts.length
    · exact ih p L (by omega) hp hL
    · have hlt : p < ts.length := by omega
      rw [List.drop_eq_getElem_cons hlt]
      have hget : ts[p]? = some ts[p] := List.getElem?_eq_getElem hlt
      by_cases hop : ∃ b ∈ P, b.1 = p
      · -- an opening token
        obtain ⟨b, hbP, hb1⟩ := hop
        obtain ⟨t, ht, hn, htag⟩ := hD.opn b hbP
        rw [hb1, hget] at ht; cases ht
        simp only [tagNest, hn, if_true]
        have hord := hD.ord b hbP
        have := ih (p + 1) (b :: L) (by omega) (by omega) ⟨?_, ?_⟩
        · simpa [htag] using this
        · intro b'
          simp only [List.mem_cons, hL.mem]
          constructor
          · rintro (rfl | ⟨h1, h2, h3⟩)
            · exact ⟨hbP, by omega, by omega⟩
            · refine ⟨h1, by omega, ?_⟩
              have hne : b' ≠ b := by rintro rfl; omega
              have := (hD.dist b' h1 b hbP hne).2.2.1
              omega
          · rintro ⟨h1, h2, h3⟩
            by_cases he : b' = b
            · exact .inl he
            · right
              have := (hD.dist b' h1 b hbP he).1
              exact ⟨h1, by omega, by omega⟩
        · rw [List.pairwise_cons]
          refine ⟨?_, hL.sorted⟩
          intro b' hb'
          have := (hL.mem b').1 hb'
          omega
      · by_cases hcl : ∃ b ∈ P, b.2.1 = p
        · -- a closing token: its pair is the innermost open one
          obtain ⟨b, hbP, hb2⟩ := hcl
          obtain ⟨t, ht, hn, htag⟩ := hD.cls b hbP
          rw [hb2, hget] at ht; cases ht
          have hord := hD.ord b hbP
          have hbL : b ∈ L := (hL.mem b).2 ⟨hbP, by omega, by omega⟩
          cases L with
          | nil => cases hbL
          | cons h0 L0 =>
            have hh0 := (hL.mem h0).1 (by simp)
            have hhead : h0 = b := by
              by_cases hne : h0 = b
              · exact hne
              · exfalso
                have hbL0 : b ∈ L0 := by
                  simp only [List.mem_cons] at hbL
                  rcases hbL with h | h
                  · exact absurd h.symm hne
                  · exact h
                have hs := hL.sorted
                rw [List.pairwise_cons] at hs
                have h1 : b.1 < h0.1 := hs.1 b hbL0
                have hd := hD.dist h0 hh0.1 b hbP hne
                exact hD.lam b hbP h0 hh0.1 ⟨h1, by omega, by omega⟩
            subst hhead
            have hn1 : ¬ (ts[p].nesting = 1) := by omega
            simp only [tagNest, hn1, hn, if_false, if_true, List.map_cons, htag]
            refine ih (p + 1) L0 (by omega) (by omega) ⟨?_, ?_⟩
            · intro b'
              have hs := hL.sorted
              rw [List.pairwise_cons] at hs
              constructor
              · intro hb'
                have hmem := (hL.mem b').1 (by simp [hb'])
                have hne : b' ≠ h0 := by
                  rintro rfl
                  have := hs.1 b' hb'; omega
                have := (hD.dist b' hmem.1 h0 hbP hne).2.2.2
                exact ⟨hmem.1, by omega, by omega⟩
              · rintro ⟨h1, h2, h3⟩
                have hne : b' ≠ h0 := by rintro rfl; omega
                have hx : b'.1 ≠ p := by
                  intro e
                  exact hop ⟨b', h1, e⟩
                have := (hL.mem b').2 ⟨h1, by omega, by omega⟩
                simp only [List.mem_cons] at this
                rcases this with h | h
                · exact absurd h hne
                · exact h
            · have hs := hL.sorted
              rw [List.pairwise_cons] at hs
              exact hs.2
        · -- any other token
          have hn : ts[p].nesting = 0 := hD.rest p ts[p] hget (fun b hb => ⟨fun e => hop ⟨b, hb, e⟩, fun e => hcl ⟨b, hb, e⟩⟩)
          have h1 : ¬ (ts[p].nesting = 1) := by omega
          have h2 : ¬ (ts[p].nesting = -1) := by omega
          simp only [tagNest, h1, h2, if_false]
          refine ih (p + 1) L (by omega) (by omega) ⟨?_, hL.sorted⟩
          intro b'
          rw [hL.mem]
          constructor
          · rintro ⟨a1, a2, a3⟩
            refine ⟨a1, by omega, ?_⟩
            have : b'.2.1 ≠ p := fun e => hcl ⟨b', a1, e⟩
            omega
          · rintro ⟨a1, a2, a3⟩
            have : b'.1 ≠ p := fun e => hop ⟨b', a1, e⟩
            exact ⟨a1, by omega, by omega⟩

/-- **nest_of_desc** — a stream described by a laminar family of tagged bracket pairs passes the stack discipline -/
theorem nest_of_desc (ts : List Tok) (P : List Brk) (hD : Desc ts P) : tagNest [] ts = some [] := by
  have := nest_go ts P hD ts.length 0 [] (by omega) (by omega) ⟨fun b => by simp, List.Pairwise.nil⟩
  simpa using this

/-! ### the description of the emphasis stream -/

@[simp] theorem setEmph_tag (t : Tok) (a b : String) (n : Int) (m : String) : (t.setEmph a b n m).tag = b := by cases t; rfl
@[simp] theorem setContent_tag (t : Tok) (c : String) : (t.setContent c).tag = t.tag := by cases t; rfl
@[simp] theorem setLevel_tag (t : Tok) (l : Int) : (t.setLevel l).tag = t.tag := by cases t; rfl

theorem Desc.same {ts P} (h : Desc ts P) (p : Nat) (f : Tok → Tok) (hfn : ∀ t, (f t).nesting = t.nesting) (hft : ∀ t, (f t).tag = t.tag) :
    Desc (ts.modify p f) P := by
  have key : ∀ (q : Nat) (t : Tok), (ts.modify p f)[q]? = some t → ∃ t0 : Tok, ts[q]? = some t0 ∧ t.nesting = t0.nesting ∧ t.tag = t0.tag := by
    intro q t hq
    rw [List.getElem?_modify] at hq
    cases hts : ts[q]? with
    | none => rw [hts] at hq; cases hq
    | some t0 =>
      rw [hts] at hq
      simp only [Functor.map, Option.map_some, Option.some.injEq] at hq
      split at hq
      · subst hq; exact ⟨t0, rfl, hfn t0, hft t0⟩
      · subst hq; exact ⟨t0, rfl, rfl, rfl⟩
  have key2 : ∀ (q : Nat) (t0 : Tok), ts[q]? = some t0 → ∃ t : Tok, (ts.modify p f)[q]? = some t ∧ t.nesting = t0.nesting ∧ t.tag = t0.tag := by
    intro q t0 hq
    rw [List.getElem?_modify, hq]
    simp only [Functor.map, Option.map_some]
    split
    · exact ⟨f t0, rfl, hfn t0, hft t0⟩
    · exact ⟨t0, rfl, rfl, rfl⟩
  refine ⟨?_, ?_, ?_, h.ord, h.dist, h.lam⟩
  · intro b hb
    obtain ⟨t0, a1, a2, a3⟩ := h.opn b hb
    obtain ⟨t, b1, b2, b3⟩ := key2 _ t0 a1
    exact ⟨t, b1, by rw [b2]; exact a2, by rw [b3]; exact a3⟩
  · intro b hb
    obtain ⟨t0, a1, a2, a3⟩ := h.cls b hb
    obtain ⟨t, b1, b2, b3⟩ := key2 _ t0 a1
    exact ⟨t, b1, by rw [b2]; exact a2, by rw [b3]; exact a3⟩
  · intro q t hq hne
    obtain ⟨t0, a1, a2, _⟩ := key q t hq
    rw [a2]; exact h.rest q t0 a1 hne

/-- where the brackets described so far come from: delimiter pairs with an opener after `i` -/
def FromPairs (D : List Delim) (i : Int) (P : List Brk) : Prop :=
  ∀ b ∈ P, ∃ (o : Nat) (d de : Delim), i < (o : Int) ∧ D[o]? = some d ∧ 0 ≤ d.end_ ∧ D[d.end_.toNat]? = some de
    ∧ (b.1 : Int) = d.token ∧ (b.2.1 : Int) = de.token

/-- one delimiter pair becomes one described bracket pair -/
theorem desc_pair {D n i ts P} (hD : PostHyp D n) (hlam : C02e.Laminar D) (hinv : PostInv D n i ts) (hdesc : Desc ts P) (hsrc : FromPairs D i P)
    (hi0 : 0 ≤ i) (sd ed : Delim) (hsd : D[i.toNat]? = some sd) (he : 0 ≤ sd.end_) (hed : D[sd.end_.toNat]? = some ed)
    (f g : Tok → Tok) (X : String) (hf1 : ∀ t, (f t).nesting = 1) (hf2 : ∀ t, (f t).tag = X) (hg1 : ∀ t, (g t).nesting = -1)
    (hg2 : ∀ t, (g t).tag = X) :
    Desc ((ts.modify sd.token.toNat f).modify ed.token.toNat g) ((sd.token.toNat, ed.token.toNat, X) :: P)
      ∧ FromPairs D (i - 1) ((sd.token.toNat, ed.token.toNat, X) :: P) := by
  have hends := hD.ends i.toNat sd hsd
  have hie : (i.toNat : Int) < sd.end_ := by rcases hends with h1 | h1 <;> omega
  have hlt : i.toNat < sd.end_.toNat := by omega
  have hab : sd.token < ed.token := hD.tokInc i.toNat sd.end_.toNat sd ed hsd hed hlt
  have hba := hD.tokBound i.toNat sd hsd
  have hbb := hD.tokBound sd.end_.toNat ed hed
  obtain ⟨ta, hta1, _⟩ := hinv.u1 i.toNat sd (by omega) hsd
  obtain ⟨tb, htb1, _⟩ := hinv.u2 i.toNat sd ed (by omega) hsd he hed
  have hne_ab : sd.token.toNat ≠ ed.token.toNat := by omega
  -- reading the modified list
  have rd_a : ((ts.modify sd.token.toNat f).modify ed.token.toNat g)[sd.token.toNat]? = some (f ta) := by
    rw [List.getElem?_modify, List.getElem?_modify, hta1]
    have : ¬ ed.token.toNat = sd.token.toNat := fun e => hne_ab e.symm
    simp [this]
  have rd_b : ((ts.modify sd.token.toNat f).modify ed.token.toNat g)[ed.token.toNat]? = some (g tb) := by
    rw [List.getElem?_modify, List.getElem?_modify, htb1]
    simp [hne_ab]
  have rd_o : ∀ q, q ≠ sd.token.toNat → q ≠ ed.token.toNat → ((ts.modify sd.token.toNat f).modify ed.token.toNat g)[q]? = ts[q]? := by
    intro q h1 h2
    rw [List.getElem?_modify, List.getElem?_modify]
    have a : ¬ ed.token.toNat = q := fun e => h2 e.symm
    have b : ¬ sd.token.toNat = q := fun e => h1 e.symm
    cases ts[q]? <;> simp [a, b]
  -- an old bracket pair does not touch the two positions
  have old : ∀ b0 ∈ P, b0.1 ≠ sd.token.toNat ∧ b0.1 ≠ ed.token.toNat ∧ b0.2.1 ≠ sd.token.toNat ∧ b0.2.1 ≠ ed.token.toNat
      ∧ ∃ (o : Nat) (d de : Delim), i < (o : Int) ∧ D[o]? = some d ∧ 0 ≤ d.end_ ∧ D[d.end_.toNat]? = some de
        ∧ (b0.1 : Int) = d.token ∧ (b0.2.1 : Int) = de.token := by
    intro b0 hb0
    obtain ⟨o, d, de, ho, hd, hde0, hde, e1, e2⟩ := hsrc b0 hb0
    have hoi : o ≠ i.toNat := by omega
    have n1 := hD.tok_ne o i.toNat d sd hd hsd hoi
    have hoe : o ≠ sd.end_.toNat := by
      intro e
      have := hD.noBoth o i.toNat d sd hd hsd hde0 he
      omega
    have n2 := hD.tok_ne o sd.end_.toNat d ed hd hed hoe
    have hei : d.end_ ≠ ((i.toNat : Nat) : Int) := hD.noBoth i.toNat o sd d hsd hd he hde0
    have n3 := hD.tok_ne d.end_.toNat i.toNat de sd hde hsd (by omega)
    have hee : d.end_ ≠ sd.end_ := fun e => hoi (hD.inj o i.toNat d sd hd hsd hde0 e)
    have n4 := hD.tok_ne d.end_.toNat sd.end_.toNat de ed hde hed (by omega)
    have b1 := hD.tokBound o d hd
    have b2 := hD.tokBound d.end_.toNat de hde
    exact ⟨by omega, by omega, by omega, by omega, o, d, de, ho, hd, hde0, hde, e1, e2⟩
  refine ⟨⟨?_, ?_, ?_, ?_, ?_, ?_⟩, ?_⟩
  · intro b hb
    simp only [List.mem_cons] at hb
    rcases hb with rfl | hb
    · exact ⟨f ta, rd_a, hf1 ta, hf2 ta⟩
    · obtain ⟨o1, o2, _, _, _⟩ := old b hb
      obtain ⟨t, a1, a2, a3⟩ := hdesc.opn b hb
      exact ⟨t, by rw [rd_o _ o1 o2]; exact a1, a2, a3⟩
  · intro b hb
    simp only [List.mem_cons] at hb
    rcases hb with rfl | hb
    · exact ⟨g tb, rd_b, hg1 tb, hg2 tb⟩
    · obtain ⟨_, _, o3, o4, _⟩ := old b hb
      obtain ⟨t, a1, a2, a3⟩ := hdesc.cls b hb
      exact ⟨t, by rw [rd_o _ o3 o4]; exact a1, a2, a3⟩
  · intro q t hq hne
    have h1 := (hne (sd.token.toNat, ed.token.toNat, X) (by simp)).1
    have h2 := (hne (sd.token.toNat, ed.token.toNat, X) (by simp)).2
    rw [rd_o q (fun e => h1 e.symm) (fun e => h2 e.symm)] at hq
    exact hdesc.rest q t hq (fun b hb => hne b (by simp [hb]))
  · intro b hb
    simp only [List.mem_cons] at hb
    rcases hb with rfl | hb
    · show sd.token.toNat < ed.token.toNat; omega
    · exact hdesc.ord b hb
  · intro b1 hb1 b2 hb2 hne
    simp only [List.mem_cons] at hb1 hb2
    rcases hb1 with rfl | hb1
    · rcases hb2 with rfl | hb2
      · exact absurd rfl hne
      · obtain ⟨o1, o2, o3, o4, _⟩ := old b2 hb2
        exact ⟨fun e => o1 e.symm, fun e => o3 e.symm, fun e => o2 e.symm, fun e => o4 e.symm⟩
    · rcases hb2 with rfl | hb2
      · obtain ⟨o1, o2, o3, o4, _⟩ := old b1 hb1
        exact ⟨o1, o2, o3, o4⟩
      · exact hdesc.dist b1 hb1 b2 hb2 hne
  · intro b1 hb1 b2 hb2 hx
    simp only [List.mem_cons] at hb1 hb2
    rcases hb1 with rfl | hb1
    · rcases hb2 with rfl | hb2
      · omega
      · obtain ⟨_, _, _, _, o, d, de, ho, hd, hde0, hde, e1, e2⟩ := old b2 hb2
        -- (i, e) and (o, eo) with  tok i < tok o < tok e < tok eo
        have hb1' := hD.tokBound o d hd
        have hb2' := hD.tokBound d.end_.toNat de hde
        have l1 : i.toNat < o := hD.tok_lt i.toNat o sd d hsd hd (by have := hx.1; simp only at this; omega)
        have l2 : o < sd.end_.toNat := hD.tok_lt o sd.end_.toNat d ed hd hed (by have := hx.2.1; simp only at this; omega)
        have l3 : sd.end_.toNat < d.end_.toNat := hD.tok_lt sd.end_.toNat d.end_.toNat ed de hed hde (by have := hx.2.2; simp only at this; omega)
        exact hlam i.toNat o sd d hsd hd he hde0 ⟨l1, by omega, by omega⟩
    · rcases hb2 with rfl | hb2
      · obtain ⟨_, _, _, _, o, d, de, ho, hd, hde0, hde, e1, e2⟩ := old b1 hb1
        have hb1' := hD.tokBound o d hd
        have l1 : o < i.toNat := hD.tok_lt o i.toNat d sd hd hsd (by have := hx.1; simp only at this; omega)
        omega
      · exact hdesc.lam b1 hb1 b2 hb2 hx
  · intro b hb
    simp only [List.mem_cons] at hb
    rcases hb with rfl | hb
    · exact ⟨i.toNat, sd, ed, by omega, hsd, he, hed, by show ((sd.token.toNat : Nat) : Int) = sd.token; omega,
        by show ((ed.token.toNat : Nat) : Int) = ed.token; omega⟩
    · obtain ⟨_, _, _, _, o, d, de, ho, hd, hde0, hde, e1, e2⟩ := old b hb
      exact ⟨o, d, de, by omega, hd, hde0, hde, e1, e2⟩

theorem FromPairs.down {D i P} (h : FromPairs D i P) (i' : Int) (hi : i' ≤ i) : FromPairs D i' P := by
  intro b hb
  obtain ⟨o, d, de, a1, a2, a3, a4, a5, a6⟩ := h b hb
  exact ⟨o, d, de, by omega, a2, a3, a4, a5, a6⟩

/-- the loop of `_postProcess`: the result is described by some laminar family of tagged bracket pairs -/
theorem emphPost_desc (D : List Delim) (n : Nat) (hD : PostHyp D n) (hlam : C02e.Laminar D) : ∀ (fuel : Nat) (i : Int) (ts : List Tok) (P : List Brk),
    PostInv D n i ts → Desc ts P → FromPairs D i P → ∃ P', Desc (emphPostGo D fuel i ts) P' := by
  intro fuel
  induction fuel with
  | zero => intro i ts P _ hd _; exact ⟨P, hd⟩
  | succ k ih =>
    intro i ts P hinv hd hsrc
    simp only [emphPostGo]
    split
    · exact ⟨P, hd⟩
    · rename_i hneg
      have hi0 : 0 ≤ i := by omega
      cases hq : D[i.toNat]? with
      | none => exact ⟨P, hd⟩
      | some sd =>
        simp only
        split
        · exact ih _ _ P (hinv.down _ (by omega)) hd (hsrc.down _ (by omega))
        · split
          · exact ih _ _ P (hinv.down _ (by omega)) hd (hsrc.down _ (by omega))
          · rename_i hend
            have he : 0 ≤ sd.end_ := by
              rcases hD.ends i.toNat sd hq with h1 | h1
              · simp [h1] at hend
              · omega
            cases hed : D[sd.end_.toNat]? with
            | none => exact ⟨P, hd⟩
            | some ed =>
              simp only
              cases hst : isStrongAt D i sd ed with
              | true =>
                simp only [if_true]
                refine ih _ _ ((sd.token.toNat, ed.token.toNat, "strong") :: P) ?_ ?_ ?_
                · exact PostInv.down (i := i - 1) (((post_pair hD hinv hi0 sd ed hq he hed (fun t => t.setEmph "strong_open" "strong" 1 _) (fun t => t.setEmph "strong_close" "strong" (-1) _)
                    (fun t => setEmph_nesting t _ _ _ _) (fun t => by rw [setEmph_type]; decide)
                    (fun t => setEmph_nesting t _ _ _ _) (fun t => by rw [setEmph_type]; decide)).same _ _ (fun t => setContent_nesting t _)
                    (fun t => setContent_type' t _)).same _ _ (fun t => setContent_nesting t _) (fun t => setContent_type' t _)) (i - 2) (by omega)
                · exact (((desc_pair hD hlam hinv hd hsrc hi0 sd ed hq he hed (fun t => t.setEmph "strong_open" "strong" 1 _)
                    (fun t => t.setEmph "strong_close" "strong" (-1) _) "strong" (fun t => setEmph_nesting t _ _ _ _) (fun t => setEmph_tag t _ _ _ _)
                    (fun t => setEmph_nesting t _ _ _ _) (fun t => setEmph_tag t _ _ _ _)).1.same _ _ (fun t => setContent_nesting t _) (fun t => setContent_tag t _)).same _ _
                    (fun t => setContent_nesting t _) (fun t => setContent_tag t _))
                · exact (desc_pair hD hlam hinv hd hsrc hi0 sd ed hq he hed (fun t => t.setEmph "strong_open" "strong" 1 "")
                    (fun t => t.setEmph "strong_close" "strong" (-1) "") "strong" (fun t => setEmph_nesting t _ _ _ _) (fun t => setEmph_tag t _ _ _ _)
                    (fun t => setEmph_nesting t _ _ _ _) (fun t => setEmph_tag t _ _ _ _)).2.down _ (by omega)
              | false =>
                simp only [Bool.false_eq_true, if_false]
                refine ih _ _ ((sd.token.toNat, ed.token.toNat, "em") :: P) ?_ ?_ ?_
                · exact post_pair hD hinv hi0 sd ed hq he hed (fun t => t.setEmph "em_open" "em" 1 _) (fun t => t.setEmph "em_close" "em" (-1) _)
                    (fun t => setEmph_nesting t _ _ _ _) (fun t => by rw [setEmph_type]; decide)
                    (fun t => setEmph_nesting t _ _ _ _) (fun t => by rw [setEmph_type]; decide)
                · exact (desc_pair hD hlam hinv hd hsrc hi0 sd ed hq he hed (fun t => t.setEmph "em_open" "em" 1 _)
                    (fun t => t.setEmph "em_close" "em" (-1) _) "em" (fun t => setEmph_nesting t _ _ _ _) (fun t => setEmph_tag t _ _ _ _)
                    (fun t => setEmph_nesting t _ _ _ _) (fun t => setEmph_tag t _ _ _ _)).1
                · exact (desc_pair hD hlam hinv hd hsrc hi0 sd ed hq he hed (fun t => t.setEmph "em_open" "em" 1 "")
                    (fun t => t.setEmph "em_close" "em" (-1) "") "em" (fun t => setEmph_nesting t _ _ _ _) (fun t => setEmph_tag t _ _ _ _)
                    (fun t => setEmph_nesting t _ _ _ _) (fun t => setEmph_tag t _ _ _ _)).2

/-! ### `fragments_join` drops only tokens the stack discipline ignores -/

theorem fragmentsJoin_tagNest : ∀ (k : Nat) (level : Int) (ts : List Tok) (st : List String), ts.length ≤ k →
    (∀ t ∈ ts, t.type = "text" → t.nesting = 0) → tagNest st (fragmentsJoin level ts) = tagNest st ts := by
  intro k
  induction k with
  | zero =>
    intro level ts st hl _
    have : ts = [] := List.eq_nil_of_length_eq_zero (by omega)
    subst this; simp [fragmentsJoin]
  | succ n ih =>
    intro level ts st hl ht
    match ts, hl, ht with
    | [], _, _ => simp [fragmentsJoin]
    | [a], _, _ => simp only [fragmentsJoin, tagNest, setLevel_nesting', setLevel_tag]
    | a :: b :: rest, hl, ht =>
      simp only [fragmentsJoin]
      split
      · rename_i hty
        simp only [Bool.and_eq_true, beq_iff_eq] at hty
        have ha : a.nesting = 0 := ht a (by simp) hty.1
        have hb0 : b.nesting = 0 := ht b (by simp) hty.2
        rw [ih _ _ st (by simp at hl ⊢; omega) (by
          intro t htm hx
          simp only [List.mem_cons] at htm
          rcases htm with rfl | htm
          · simp only [setContent_nesting]; exact hb0
          · exact ht t (by simp [htm]) hx)]
        have h1 : ¬ (a.nesting = 1) := by omega
        have h2 : ¬ (a.nesting = -1) := by omega
        have h3 : ¬ (b.nesting = 1) := by omega
        have h4 : ¬ (b.nesting = -1) := by omega
        simp only [tagNest, setContent_nesting, h1, h2, h3, h4, if_false]
      · rw [tagNest.eq_def, tagNest.eq_def]
        simp only [setLevel_nesting', setLevel_tag]
        have hrec := fun st' => ih (if a.nesting > 0 then (if a.nesting < 0 then level - 1 else level) + 1 else if a.nesting < 0 then level - 1 else level)
          (b :: rest) st' (by simp at hl ⊢; omega) (fun t htm => ht t (by simp at htm ⊢; exact .inr htm))
        split
        · exact hrec _
        · split
          · cases st with
            | nil => rfl
            | cons top st' =>
              simp only
              split
              · exact hrec _
              · rfl
          · exact hrec _

/-- **C02.emini_tags_nested** — in the inline stream with emphasis (every source, every subset of `newline`, `escape`, `backticks`, every
`maxNesting`, every character classification), opening and closing tokens pair up by tag in stack order: every `em_close` closes the
innermost open `em_open`, every `strong_close` the innermost open `strong_open` — the HTML the default renderer writes for these tokens
is properly nested -/
theorem emini_tags_nested (cls : QCls) (c : C01.IMiniCfg) (maxNesting : Int) (src : List Char) (ts : List Tok)
    (h : inlineParse (C01.eminiChain cls c true) [balancePairs, emphasisPost] true maxNesting src = .ok ts) :
    tagNest [] ts = some [] := by
  unfold inlineParse tokenize at h
  cases hl : tokenizeLoop (C01.eminiChain cls c true) maxNesting (IState.init src).posMax ((IState.init src).posMax - (IState.init src).pos + 1) false (IState.init src) with
  | error e => rw [hl] at h; cases h
  | ok s1 =>
    rw [hl] at h
    simp only [List.foldl_cons, List.foldl_nil, Except.ok.injEq, if_true] at h
    have h0 : ZeroD (IState.init src) := by
      refine ⟨by intro t ht; simp [IState.init] at ht, by intro d hd; simp [IState.init] at hd, by simp [IState.init]⟩
    have h1 : ZeroD s1 := loop_keeps ZeroD (fun s ch hq => zeroD_eq s _ rfl rfl hq) _ (C01.eminiChain_ok cls c true) (eminiChain_keeps cls c) maxNesting _ false
      (IState.init src) s1 (Nat.le_refl _) h0 hl
    have h2 : ZeroD (if s1.pending.isEmpty then s1 else s1.pushPending) := by
      split
      · exact h1
      · exact zeroD_pushPending s1 h1
    generalize (if s1.pending.isEmpty then s1 else s1.pushPending) = s2 at h h2
    have hD := postHyp_of_zeroD s2 h2
    have hlam : C02e.Laminar (processDelims s2.delimiters) :=
      (C02e.pairs_laminar s2.delimiters (fun d hd => by rw [(h2.2.1 d hd).1]; decide) (fun d hd => (h2.2.1 d hd).2.1)).2.1
    have hinv := postInv_init s2 h2
    have hdesc0 : Desc s2.tokens [] := by
      refine ⟨?_, ?_, ?_, ?_, ?_, ?_⟩
      · intro b hb; cases hb
      · intro b hb; cases hb
      · intro p t hp _; exact h2.1 t (List.mem_of_getElem? hp)
      · intro b hb; cases hb
      · intro b hb; cases hb
      · intro b hb; cases hb
    obtain ⟨P', hdesc⟩ := emphPost_desc (processDelims s2.delimiters) s2.tokens.length hD hlam (processDelims s2.delimiters).length _ s2.tokens []
      hinv hdesc0 (by intro b hb; cases hb)
    obtain ⟨_, _, htext⟩ := emphPost_inv (processDelims s2.delimiters) s2.tokens.length hD (processDelims s2.delimiters).length _ s2.tokens hinv
    have hts : ts = fragmentsJoin 0 (emphPostGo (processDelims s2.delimiters) (processDelims s2.delimiters).length
        (((processDelims s2.delimiters).length : Int) - 1) s2.tokens) := by
      rw [← h]; rfl
    rw [hts, fragmentsJoin_tagNest _ 0 _ [] (Nat.le_refl _) htext]
    exact nest_of_desc _ P' hdesc

/-! non-vacuity: the stack discipline is not trivially satisfied — a crossing stream fails it, the parser's stream for the crossing
attempt `*a _b* c_` passes -/
example : tagNest [] [mkInlineTok "em_open" "em" 1 0 "" "*" "", mkInlineTok "strong_open" "strong" 1 1 "" "**" "",
    mkInlineTok "em_close" "em" (-1) 1 "" "*" "", mkInlineTok "strong_close" "strong" (-1) 0 "" "**" ""] = none := by decide

example : (match inlineParse (C01.eminiChain asciiCls ⟨true, true, true⟩ true) [balancePairs, emphasisPost] true 20 "*a _b* c_ **d *e* f**".toList with
    | .ok ts => tagNest [] ts
    | .error _ => none) = some [] := by decide +kernel

end MdIt.C02g
