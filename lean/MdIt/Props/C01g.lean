import MdIt.Props.C01f
import MdIt.InlineLeaf
/-!
# C01 (continued) — the inline sub-parser with `autolink`, `html_inline`, `entity` is total

The three rules run regular expressions translated from the live pattern objects (`MdIt/Generated/Regex.lean`, T1); what the
proofs need of them is that a match consumes at least one character (`Rx.matchLen_pos`, from `Rx.nullable … = false`, decided on the
generated terms: a change of a pattern that lets it match the empty string breaks this file).  `iok_entity`, `iok_autolink`,
`iok_htmlInline`: the inline contract for every value of the external functions (`IExt`: entity table, `mdurl` reformatting,
`normalizeLinkText`, the `html` option); `xmini_total`: for every source, every subset of the eight optional rules in registration
order, every `maxNesting`, classification and `IExt`, the inline parse returns a token list.
-/
namespace MdIt.C01

/-- T1 obligations: none of the three patterns can match the empty string -/
theorem digitalRe_consumes : Gen.digitalRe.nullable = false := by decide +kernel
theorem namedRe_consumes : Gen.namedRe.nullable = false := by decide +kernel
theorem htmlTagRe_consumes : Gen.htmlTagRe.nullable = false := by decide +kernel

/-- a push of any nesting keeps the source and the range; the level moves by the nesting's sign -/
theorem push_frame (s : IState) (a b : String) (n : Int) (c d e : String) :
    (s.push a b n c d e).src = s.src ∧ (s.push a b n c d e).posMax = s.posMax ∧ (s.push a b n c d e).pos = s.pos
      ∧ (s.push a b n c d e).level = (if n < 0 then s.level - 1 else if n > 0 then s.level + 1 else s.level) := by
  unfold IState.push IState.pushPending
  simp only
  split <;> (refine ⟨rfl, rfl, rfl, ?_⟩; by_cases h1 : n < 0 <;> by_cases h2 : n > 0 <;> simp [h1, h2] <;> omega)

theorem pushA_frame (s : IState) (a b : String) (n : Int) (at_ : List (String × AttrVal)) (c d e : String) :
    (s.pushA a b n at_ c d e).src = s.src ∧ (s.pushA a b n at_ c d e).posMax = s.posMax ∧ (s.pushA a b n at_ c d e).pos = s.pos
      ∧ (s.pushA a b n at_ c d e).level = (if n < 0 then s.level - 1 else if n > 0 then s.level + 1 else s.level) := by
  unfold IState.pushA
  exact push_frame s a b n c d e

theorem autolinkPush_frame (ext : IExt) (s : IState) (href url : List Char) :
    (autolinkPush ext s href url).src = s.src ∧ (autolinkPush ext s href url).posMax = s.posMax
      ∧ (autolinkPush ext s href url).level = s.level := by
  unfold autolinkPush
  simp only
  obtain ⟨a1, a2, _, a4⟩ := pushA_frame s "link_open" "a" 1 [("href", .s (String.ofList href))] "" "autolink" "auto"
  obtain ⟨b1, b2, _, b4⟩ := push_frame (s.pushA "link_open" "a" 1 [("href", .s (String.ofList href))] "" "autolink" "auto")
    "text" "" 0 (String.ofList (ext.normText url)) "" ""
  obtain ⟨c1, c2, _, c4⟩ := push_frame ((s.pushA "link_open" "a" 1 [("href", .s (String.ofList href))] "" "autolink" "auto").push
    "text" "" 0 (String.ofList (ext.normText url)) "" "") "link_close" "a" (-1) "" "autolink" "auto"
  refine ⟨c1.trans (b1.trans a1), c2.trans (b2.trans a2), ?_⟩
  rw [c4, b4, a4]
  simp

/-- the shape every one of the three rules has on a call from the loop: a clean miss, or a match that moves `pos` forward and keeps
    source, level and range -/
def LeafShape (r : IRule) : Prop :=
  ∀ (s : IState) (silent : Bool), ICtx s →
    r s silent = .ok (false, s) ∨ ∃ s', r s silent = .ok (true, s') ∧ s.pos < s'.pos ∧ s'.src = s.src
      ∧ s'.level = s.level ∧ s'.posMax = s.posMax

theorem iok_of_shape (r : IRule) (key : LeafShape r) : IRuleOK2 r := by
  refine ⟨?_, ?_, ?_, ?_⟩
  · intro s silent hc
    rcases key s silent hc with h | ⟨s', h, _⟩ <;> exact ⟨_, _, h⟩
  · intro s s' hc h
    rcases key s false hc with h' | ⟨s'', h', hp, _⟩
    · rw [h'] at h; cases h
    · rw [h'] at h; cases h; exact hp
  · intro s s' hc h
    rcases key s false hc with h' | ⟨s'', h', _⟩
    · rw [h'] at h; cases h; rfl
    · rw [h'] at h; cases h
  · intro s m s' hc h
    rcases key s false hc with h' | ⟨s'', h', _, h2, h3, h4⟩
    · rw [h'] at h; cases h; exact ⟨rfl, rfl, rfl⟩
    · rw [h'] at h; cases h; exact ⟨h2, h3, h4⟩

theorem parseIntBase_ok (base : Nat) : ∀ (l : List Char) (acc : Nat),
    (∀ c ∈ l, ∃ d, digitVal c = some d ∧ d < base) → ∃ n, parseIntBase base l acc = .ok n := by
  intro l
  induction l with
  | nil => intro acc _; exact ⟨acc, rfl⟩
  | cons c rest ih =>
    intro acc h
    obtain ⟨d, hd, hlt⟩ := h c (by simp)
    simp only [parseIntBase, hd, hlt, if_true]
    exact ih _ (fun c' hc' => h c' (by simp [hc']))


/-! ### `DIGITAL_RE` only matches what `int()` accepts

The shape `^ & # ( [xX] H{..} | D{..} ) ;` is fixed here (`Gen.digitalRe = digitalForm …` by `rfl`); the character sets and repeat
counts are whatever the live pattern has, checked to lie inside the hex digits / decimal digits. -/

def digitalForm (amp hash semi xs hs ds : List (Nat × Nat)) (h1 d1 : Nat) (h2 d2 : Option Nat) : Rx :=
  .seq .bol (.seq (.set amp) (.seq (.set hash) (.seq (.alt (.seq (.set xs) (.rep true h1 h2 (.set hs))) (.rep true d1 d2 (.set ds))) (.set semi))))

def hexRanges : List (Nat × Nat) := [(48, 57), (65, 70), (97, 102)]
def decRanges : List (Nat × Nat) := [(48, 57)]
def xRanges : List (Nat × Nat) := [(88, 88), (120, 120)]

theorem digitVal_hex {c : Char} (h : inRanges hexRanges c.toNat = true) : ∃ d, digitVal c = some d ∧ d < 16 := by
  simp only [inRanges, hexRanges, List.any_cons, List.any_nil, Bool.or_false, Bool.or_eq_true, Bool.and_eq_true, decide_eq_true_eq] at h
  unfold digitVal
  simp only
  rcases h with h | h | h
  · exact ⟨_, by rw [if_pos h], by omega⟩
  · refine ⟨c.toNat - 55, ?_, by omega⟩
    rw [if_neg (by omega), if_neg (by omega), if_pos h]
  · refine ⟨c.toNat - 87, ?_, by omega⟩
    rw [if_neg (by omega), if_pos h]

theorem digitVal_dec {c : Char} (h : inRanges decRanges c.toNat = true) : ∃ d, digitVal c = some d ∧ d < 10 := by
  simp only [inRanges, decRanges, List.any_cons, List.any_nil, Bool.or_false, Bool.and_eq_true, decide_eq_true_eq] at h
  unfold digitVal
  simp only
  exact ⟨_, by rw [if_pos h], by omega⟩

theorem digital_form_code (amp hash semi xs hs ds : List (Nat × Nat)) (h1 d1 : Nat) (h2 d2 : Option Nat)
    (hx : rangesSub xs xRanges = true) (hh : rangesSub hs hexRanges = true) (hd : rangesSub ds decRanges = true)
    (hd1 : 0 < d1) (rest : List Char) (n : Nat)
    (h : (digitalForm amp hash semi xs hs ds h1 d1 h2 d2).matchLen rest = some n) :
    ∃ code, entityCode ((rest.take (n - 1)).drop 2) = .ok code := by
  have hm : n ∈ (digitalForm amp hash semi xs hs ds h1 d1 h2 d2).ends rest 0 := List.mem_of_mem_head? h
  unfold digitalForm at hm
  rw [Rx.ends_seq] at hm
  obtain ⟨m0, hm0, hm⟩ := hm
  obtain ⟨_, rfl⟩ := Rx.ends_bol.mp hm0
  rw [Rx.ends_seq] at hm
  obtain ⟨m1, hm1, hm⟩ := hm
  obtain ⟨_, _, _, rfl⟩ := Rx.ends_set.mp hm1
  rw [Rx.ends_seq] at hm
  obtain ⟨m2, hm2, hm⟩ := hm
  obtain ⟨_, _, _, rfl⟩ := Rx.ends_set.mp hm2
  rw [Rx.ends_seq] at hm
  obtain ⟨m3, hm3, hm⟩ := hm
  obtain ⟨_, _, _, rfl⟩ := Rx.ends_set.mp hm
  simp only [Nat.add_sub_cancel]
  rw [Rx.ends_alt] at hm3
  rcases hm3 with hm3 | hm3
  · -- `x` / `X`, then hex digits
    rw [Rx.ends_seq] at hm3
    obtain ⟨m4, hm4, hm3⟩ := hm3
    obtain ⟨c, hc, hcx, rfl⟩ := Rx.ends_set.mp hm4
    obtain ⟨hge, hall⟩ := Rx.ends_rep_set hm3
    have hlen : 2 < rest.length := by
      rcases Nat.lt_or_ge 2 rest.length with h' | h'
      · exact h'
      · rw [List.getElem?_eq_none h'] at hc; cases hc
    have hdrop : (rest.take m3).drop 2 = c :: (rest.take m3).drop 3 := by
      have h2 : (rest.take m3)[2]? = some c := by rw [List.getElem?_take]; simp [show 2 < m3 by omega, hc]
      have hl : 2 < (rest.take m3).length := by
        rcases Nat.lt_or_ge 2 (rest.take m3).length with h' | h'
        · exact h'
        · rw [List.getElem?_eq_none h'] at h2; cases h2
      rw [List.drop_eq_getElem_cons hl]
      congr 1
      rw [List.getElem?_eq_getElem hl] at h2
      exact Option.some.inj h2
    rw [hdrop]
    have hcx' := inRanges_sub hx hcx
    have hxc : (c == 'x' || c == 'X') = true := by
      simp only [inRanges, xRanges, List.any_cons, List.any_nil, Bool.or_false, Bool.or_eq_true, Bool.and_eq_true, decide_eq_true_eq] at hcx'
      rcases hcx' with h' | h'
      · have : c = 'X' := Char.ext (by apply UInt32.toNat_inj.mp; show c.toNat = 88; omega)
        simp [this]
      · have : c = 'x' := Char.ext (by apply UInt32.toNat_inj.mp; show c.toNat = 120; omega)
        simp [this]
    simp only [entityCode, hxc, if_true]
    apply parseIntBase_ok
    intro c' hc'
    obtain ⟨i, hi1, hi2, hi3⟩ := mem_slice hc'
    obtain ⟨c'', hc'', hr⟩ := hall i hi1 hi2
    rw [hi3] at hc''
    cases hc''
    exact digitVal_hex (inRanges_sub hh hr)
  · -- decimal digits, at least one
    have hgt : 2 < m3 := by
      simp only [Rx.ends] at hm3
      exact repEnds_gt _ (fun q e h => by obtain ⟨_, _, _, rfl⟩ := Rx.ends_set.mp h; omega) true d1 d2 _ _ _ _ hd1 hm3
    obtain ⟨hge, hall⟩ := Rx.ends_rep_set hm3
    obtain ⟨c, hc, hr0⟩ := hall 2 (Nat.le_refl _) hgt
    have hdrop : (rest.take m3).drop 2 = c :: (rest.take m3).drop 3 := by
      have h2 : (rest.take m3)[2]? = some c := by rw [List.getElem?_take]; simp [hgt, hc]
      have hl : 2 < (rest.take m3).length := by
        rcases Nat.lt_or_ge 2 (rest.take m3).length with h' | h'
        · exact h'
        · rw [List.getElem?_eq_none h'] at h2; cases h2
      rw [List.drop_eq_getElem_cons hl]
      congr 1
      rw [List.getElem?_eq_getElem hl] at h2
      exact Option.some.inj h2
    have hall' : ∀ c' ∈ (rest.take m3).drop 2, ∃ d, digitVal c' = some d ∧ d < 10 := by
      intro c' hc'
      obtain ⟨i, hi1, hi2, hi3⟩ := mem_slice hc'
      obtain ⟨c'', hc'', hr⟩ := hall i hi1 hi2
      rw [hi3] at hc''
      cases hc''
      exact digitVal_dec (inRanges_sub hd hr)
    have hnx : (c == 'x' || c == 'X') = false := by
      have := inRanges_sub hd hr0
      simp only [inRanges, decRanges, List.any_cons, List.any_nil, Bool.or_false, Bool.and_eq_true, decide_eq_true_eq] at this
      have h1 : c ≠ 'x' := by intro h'; subst h'; simp at this
      have h2 : c ≠ 'X' := by intro h'; subst h'; simp at this
      simp [h1, h2]
    rw [hdrop] at hall' ⊢
    simp only [entityCode, hnx]
    exact parseIntBase_ok 10 _ 0 hall'

/-- T1 obligation: the live `DIGITAL_RE` has that shape, with sets inside the digits `int()` accepts -/
theorem digitalRe_code (rest : List Char) (n : Nat) (h : Gen.digitalRe.matchLen rest = some n) :
    ∃ code, entityCode ((rest.take (n - 1)).drop 2) = .ok code := by
  have hform : Gen.digitalRe = digitalForm [(38, 38)] [(35, 35)] [(59, 59)] [(88, 88), (120, 120)] [(48, 57), (65, 70), (97, 102)] [(48, 57)]
      1 1 (some 6) (some 7) := rfl
  rw [hform] at h
  exact digital_form_code _ _ _ _ _ _ _ _ _ _ (by decide) (by decide) (by decide) (by decide) rest n h


/-! ### the three rules keep the inline contract -/

theorem shape_entity (ext : IExt) : LeafShape (ruleEntity ext) := by
  intro s silent hc
  have hin : s.pos < s.src.length := by have := hc.1; have := hc.2; omega
  unfold ruleEntity
  rw [List.getElem?_eq_getElem hin]
  simp only
  split
  · exact .inl rfl
  · split
    · exact .inl rfl
    · rename_i hlt
      have hin1 : s.pos + 1 < s.src.length := by have := hc.2; omega
      rw [List.getElem?_eq_getElem hin1]
      simp only
      split
      · -- numeric reference
        cases hm : Gen.digitalRe.matchLen (s.src.drop s.pos) with
        | none => exact .inl rfl
        | some n =>
          have hpos := Rx.matchLen_pos _ digitalRe_consumes _ _ hm
          simp only
          cases silent with
          | true => exact .inr ⟨_, rfl, by show s.pos < s.pos + n; omega, rfl, rfl, rfl⟩
          | false =>
            simp only [Bool.false_eq_true, if_false]
            obtain ⟨code, hcode⟩ := digitalRe_code _ _ hm
            rw [hcode]
            simp only
            obtain ⟨p1, p2, p3, _⟩ := push0_frame s "text_special" ""
              (String.singleton (if isValidEntityCode code = true then Char.ofNat code else Char.ofNat 0xFFFD))
              (String.ofList (List.take n (List.drop s.pos s.src))) "entity"
            exact .inr ⟨_, rfl, by show s.pos < s.pos + n; omega, p1, p2, p3⟩
      · -- named reference
        cases hm : Gen.namedRe.matchLen (s.src.drop s.pos) with
        | none => exact .inl rfl
        | some n =>
          have hpos := Rx.matchLen_pos _ namedRe_consumes _ _ hm
          simp only
          split
          · exact .inl rfl
          · rename_i v _
            obtain ⟨p1, p2, p3⟩ := pushIf_frame silent s "text_special" "" (String.ofList v)
              (String.ofList (List.take n (List.drop s.pos s.src))) "entity"
            exact .inr ⟨_, rfl, by show s.pos < s.pos + n; omega, p1, p2, p3⟩

theorem autolinkScan_ok (src : List Char) (max : Nat) (hmax : max ≤ src.length) : ∀ (fuel pos : Nat),
    ∃ r, autolinkScan src max fuel pos = .ok r := by
  intro fuel
  induction fuel with
  | zero => intro pos; exact ⟨none, rfl⟩
  | succ n ih =>
    intro pos
    simp only [autolinkScan]
    split
    · exact ⟨none, rfl⟩
    · rename_i hlt
      have hin : pos + 1 < src.length := by omega
      rw [List.getElem?_eq_getElem hin]
      simp only
      split
      · exact ⟨none, rfl⟩
      · split
        · exact ⟨_, rfl⟩
        · exact ih _

theorem shape_autolink (ext : IExt) : LeafShape (ruleAutolink ext) := by
  intro s silent hc
  have hin : s.pos < s.src.length := by have := hc.1; have := hc.2; omega
  unfold ruleAutolink
  rw [List.getElem?_eq_getElem hin]
  simp only
  split
  · exact .inl rfl
  · obtain ⟨r, hr⟩ := autolinkScan_ok s.src s.posMax hc.2 (s.posMax - s.pos + 1) s.pos
    rw [hr]
    cases r with
    | none => exact .inl rfl
    | some close =>
      simp only
      have hfr : ∀ (full url : List Char),
          (if silent = true then s else autolinkPush ext s full url).src = s.src
            ∧ (if silent = true then s else autolinkPush ext s full url).level = s.level
            ∧ (if silent = true then s else autolinkPush ext s full url).posMax = s.posMax := by
        intro full url
        cases silent with
        | true => exact ⟨rfl, rfl, rfl⟩
        | false =>
          simp only [Bool.false_eq_true, if_false]
          obtain ⟨a, b, c⟩ := autolinkPush_frame ext s full url
          exact ⟨a, c, b⟩
      split
      · split
        · exact .inl rfl
        · obtain ⟨a, b, c⟩ := hfr (ext.normLink ((s.src.take close).drop (s.pos + 1))) ((s.src.take close).drop (s.pos + 1))
          exact .inr ⟨_, rfl, by show s.pos < s.pos + _ + 2; omega, a, b, c⟩
      · split
        · split
          · exact .inl rfl
          · obtain ⟨a, b, c⟩ := hfr (ext.normLink ("mailto:".toList ++ (s.src.take close).drop (s.pos + 1))) ((s.src.take close).drop (s.pos + 1))
            exact .inr ⟨_, rfl, by show s.pos < s.pos + _ + 2; omega, a, b, c⟩
        · exact .inl rfl

theorem shape_htmlInline (ext : IExt) : LeafShape (ruleHtmlInline ext) := by
  intro s silent hc
  have hin : s.pos < s.src.length := by have := hc.1; have := hc.2; omega
  unfold ruleHtmlInline
  split
  · exact .inl rfl
  · rw [List.getElem?_eq_getElem hin]
    simp only
    split
    · exact .inl rfl
    · rename_i hg
      have hin1 : s.pos + 1 < s.src.length := by
        simp only [Bool.or_eq_true, decide_eq_true_eq, not_or, Nat.not_le] at hg
        have := hc.2; omega
      rw [List.getElem?_eq_getElem hin1]
      simp only
      split
      · exact .inl rfl
      · cases hm : Gen.htmlTagRe.matchLen (s.src.drop s.pos) with
        | none => exact .inl rfl
        | some n =>
          have hpos := Rx.matchLen_pos _ htmlTagRe_consumes _ _ hm
          simp only
          cases silent with
          | true => exact .inr ⟨_, rfl, by show s.pos < s.pos + n; omega, rfl, rfl, rfl⟩
          | false =>
            simp only [Bool.false_eq_true, if_false]
            obtain ⟨p1, p2, p3, _⟩ := push0_frame s "html_inline" "" (String.ofList (List.take n (List.drop s.pos s.src))) "" ""
            exact .inr ⟨_, rfl, by show s.pos < s.pos + n; omega, p1, p2, p3⟩

theorem iok_entity (ext : IExt) : IRuleOK2 (ruleEntity ext) := iok_of_shape _ (shape_entity ext)
theorem iok_autolink (ext : IExt) : IRuleOK2 (ruleAutolink ext) := iok_of_shape _ (shape_autolink ext)
theorem iok_htmlInline (ext : IExt) : IRuleOK2 (ruleHtmlInline ext) := iok_of_shape _ (shape_htmlInline ext)

/-- the inline chain `text, newline?, escape?, backticks?, strikethrough?, emphasis?, autolink?, html_inline?, entity?`
    (registration order of `parser_inline._rules`, without `linkify`, `link`, `image`) -/
def xminiChain (cls : QCls) (ext : IExt) (c : IMiniCfg) (strike emphasis autolink htmlInline entity : Bool) : List IRule :=
  sminiChain cls c strike emphasis ++ (if autolink then [ruleAutolink ext] else [])
    ++ (if htmlInline then [ruleHtmlInline ext] else []) ++ (if entity then [ruleEntity ext] else [])

theorem xminiChain_ok (cls : QCls) (ext : IExt) (c : IMiniCfg) (strike emphasis autolink htmlInline entity : Bool) :
    ∀ r ∈ xminiChain cls ext c strike emphasis autolink htmlInline entity, IRuleOK2 r := by
  intro r hr
  simp only [xminiChain, List.mem_append] at hr
  rcases hr with ((hr | hr) | hr) | hr
  · exact sminiChain_ok cls c strike emphasis r hr
  · split at hr
    · simp at hr; subst hr; exact iok_autolink ext
    · cases hr
  · split at hr
    · simp at hr; subst hr; exact iok_htmlInline ext
    · cases hr
  · split at hr
    · simp at hr; subst hr; exact iok_entity ext
    · cases hr

/-- **C01.xmini_total** — the inline sub-parser with nine of the twelve inline rules: for every source, rule subset, `maxNesting`,
character classification and every value of the external functions (entity table, `mdurl` reformatting, `normalizeLinkText`, `html`
option) the parse returns a token list -/
theorem xmini_total (cls : QCls) (ext : IExt) (c : IMiniCfg) (strike emphasis autolink htmlInline entity fragJoin : Bool)
    (maxNesting : Int) (src : List Char) :
    ∃ ts, inlineParse (xminiChain cls ext c strike emphasis autolink htmlInline entity) (sminiPost strike emphasis) fragJoin
      maxNesting src = .ok ts := by
  unfold inlineParse tokenize
  obtain ⟨s', h⟩ := inline_total2 _ (xminiChain_ok cls ext c strike emphasis autolink htmlInline entity) maxNesting
    ((IState.init src).posMax - (IState.init src).pos + 1) false (IState.init src) (Nat.le_refl _) (by omega) (fun _ => rfl)
  rw [h]
  exact ⟨_, rfl⟩

end MdIt.C01
