import MdIt.Render
import MdIt.Props.C15
/-!
# C15 (continued) — rendering is repeatable

The only write the renderer makes to a token is `alt` on the image tokens it renders.  Rendering the stream *as the first render left it*
(`afterRender`) gives the same pieces: `setAlt` is idempotent (the description is recomputed from the same children and written over
itself), and a token's neighbours enter `renderToken` only through `type`, `tag`, `nesting` and `hidden`, which `setAlt` and the rewriting
of an inline token's children leave alone.  **`render_repeatable`**: `render (afterRender ts) = render ts`, for every stream, options and
fence-language function.
-/
namespace MdIt.C15

theorem dictSet_idem {β} (d : List (String × β)) (k : String) (v : β) : dictSet (dictSet d k v) k v = dictSet d k v := by
  unfold dictSet
  by_cases h : d.any (·.1 == k) = true
  · simp only [h, if_true]
    have h2 : (d.map (fun p => if p.1 == k then (k, v) else p)).any (·.1 == k) = true := by
      rw [List.any_eq_true] at h ⊢
      obtain ⟨p, hp, hk⟩ := h
      exact ⟨(k, v), List.mem_map.2 ⟨p, hp, by simp [hk]⟩, by simp⟩
    simp only [h2, if_true, List.map_map]
    apply List.map_congr_left
    intro p _
    simp only [Function.comp]
    by_cases hp : (p.1 == k) = true
    · simp [hp]
    · simp [hp]
  · have h' : d.any (·.1 == k) = false := by
      cases hq : d.any (·.1 == k) with
      | false => rfl
      | true => exact absurd hq h
    simp only [h', Bool.false_eq_true, if_false]
    have h2 : (d ++ [(k, v)]).any (·.1 == k) = true := by simp
    simp only [h2, if_true, List.map_append, List.map_cons, List.map_nil, beq_self_eq_true]
    congr 1
    rw [List.any_eq_false] at h'
    conv => rhs; rw [← List.map_id d]
    apply List.map_congr_left
    intro p hp
    have := h' p hp
    simp only [Bool.not_eq_true] at this
    simp [this]

theorem setAlt_idem (t : Tok) : setAlt (setAlt t) = setAlt t := by
  cases t
  simp only [setAlt, dictSet_idem]

/-- what a neighbour contributes to `renderToken` -/
def SameShape (a b : Option Tok) : Prop :=
  match a, b with
  | none, none => True
  | some x, some y => x.type = y.type ∧ x.tag = y.tag ∧ x.nesting = y.nesting ∧ x.hidden = y.hidden
  | _, _ => False

theorem renderTokenP_shape (o : ROpts) (p p' : Option Tok) (t : Tok) (n n' : Option Tok) (hp : SameShape p p') (hn : SameShape n n') :
    renderTokenP o p' t n' = renderTokenP o p t n := by
  unfold renderTokenP
  cases p <;> cases p' <;> cases n <;> cases n' <;> simp only [SameShape] at hp hn <;> first
    | rfl
    | (obtain ⟨a1, a2, a3, a4⟩ := hp; obtain ⟨b1, b2, b3, b4⟩ := hn; simp only [a4, b1, b2, b3, b4])
    | (obtain ⟨a1, a2, a3, a4⟩ := hp; simp only [a4])
    | (obtain ⟨b1, b2, b3, b4⟩ := hn; simp only [b1, b2, b3, b4])


theorem setAlt_shape (t : Tok) : SameShape (some t) (some (setAlt t)) := by
  cases t; exact ⟨rfl, rfl, rfl, rfl⟩

theorem sameShape_refl (a : Option Tok) : SameShape a a := by
  cases a with
  | none => trivial
  | some x => exact ⟨rfl, rfl, rfl, rfl⟩

/-- the token as one render leaves it inside an inline list -/
def altOf (t : Tok) : Tok := if t.type == "image" then setAlt t else t

theorem altOf_shape (t : Tok) : SameShape (some t) (some (altOf t)) := by
  unfold altOf; split
  · exact setAlt_shape t
  · exact sameShape_refl _

theorem setAlt_type (t : Tok) : (setAlt t).type = t.type := by cases t; rfl

/-- one token after a render, between neighbours after a render: the same pieces -/
theorem renderOne_altOf (x : Ext) (o : ROpts) (p p' : Option Tok) (t : Tok) (n n' : Option Tok) (hp : SameShape p p') (hn : SameShape n n')
    (hx : ∀ u, x.fenceLang (setAlt u) = x.fenceLang u) : renderOne x o p' (altOf t) n' = renderOne x o p t n := by
  unfold altOf
  by_cases hi : (t.type == "image") = true
  · have hty : t.type = "image" := by simpa using hi
    simp only [hi, if_true]
    unfold renderOne
    simp only [setAlt_type, hty]
    simp only [show ("image" == "code_inline") = false from by decide, show ("image" == "code_block") = false from by decide,
      show ("image" == "fence") = false from by decide, show ("image" == "image") = true from by decide, Bool.false_eq_true, if_false, if_true]
    rw [setAlt_idem]
    exact congrArg Except.ok (renderTokenP_shape o p p' (setAlt t) n n' hp hn)
  · simp only [hi, Bool.false_eq_true, if_false]
    unfold renderOne
    simp only [hi, Bool.false_eq_true, if_false]
    repeat' split
    all_goals first
      | rfl
      | exact congrArg Except.ok (renderTokenP_shape o p p' t n n' hp hn)

theorem head_altOf_shape (l : List Tok) : SameShape l.head? (l.map altOf).head? := by
  cases l with
  | nil => trivial
  | cons a as => exact altOf_shape a

theorem renderInlineP_after (x : Ext) (o : ROpts) (hx : ∀ u, x.fenceLang (setAlt u) = x.fenceLang u) :
    ∀ (l : List Tok) (p p' : Option Tok), SameShape p p' → renderInlineP x o p' (l.map altOf) = renderInlineP x o p l := by
  intro l
  induction l with
  | nil => intro p p' _; rfl
  | cons t rest ih =>
    intro p p' hp
    simp only [List.map_cons, renderInlineP]
    rw [renderOne_altOf x o p p' t rest.head? (rest.map altOf).head? hp (head_altOf_shape rest) hx, ih (some t) (some (altOf t)) (altOf_shape t)]

/-- the token as one render leaves it at the top level -/
def afterTok (t : Tok) : Tok :=
  if t.type == "inline" then
    match t with
    | .mk type tag nesting attrs map level (some (c :: cs)) content markup info metaD block hidden =>
      .mk type tag nesting attrs map level (some (afterRenderInline (c :: cs))) content markup info metaD block hidden
    | other => other
  else if t.type == "image" then setAlt t else t

theorem afterRender_eq (ts : List Tok) : afterRender ts = ts.map afterTok := rfl

theorem afterTok_shape (t : Tok) : SameShape (some t) (some (afterTok t)) := by
  unfold afterTok
  split
  · split
    · exact ⟨rfl, rfl, rfl, rfl⟩
    · exact sameShape_refl _
  · split
    · exact setAlt_shape t
    · exact sameShape_refl _

theorem head_afterTok_shape (l : List Tok) : SameShape l.head? (l.map afterTok).head? := by
  cases l with
  | nil => trivial
  | cons a as => exact afterTok_shape a

theorem renderP_after (x : Ext) (o : ROpts) (hx : ∀ u, x.fenceLang (setAlt u) = x.fenceLang u) :
    ∀ (l : List Tok) (p p' : Option Tok), SameShape p p' → renderP x o p' (l.map afterTok) = renderP x o p l := by
  intro l
  induction l with
  | nil => intro p p' _; rfl
  | cons t rest ih =>
    intro p p' hp
    simp only [List.map_cons, renderP]
    rw [ih (some t) (some (afterTok t)) (afterTok_shape t)]
    congr 1
    by_cases hi : (t.type == "inline") = true
    · -- an inline token: its children after the render
      obtain ⟨type, tag, nesting, attrs, map, level, children, content, markup, info, metaD, block, hidden⟩ := t
      have hty : (type == "inline") = true := hi
      cases children with
      | none => simp only [afterTok, Tok.type, hty, if_true, Tok.children]
      | some cs =>
        cases cs with
        | nil => simp only [afterTok, Tok.type, hty, if_true, Tok.children]
        | cons c cs' =>
          simp only [afterTok, Tok.type, hty, if_true, Tok.children, afterRenderInline, List.map_cons]
          have := renderInlineP_after x o hx (c :: cs') none none trivial
          simp only [List.map_cons, altOf] at this
          exact this
    · have hni : (t.type == "inline") = false := by
        cases hq : (t.type == "inline") with
        | false => rfl
        | true => exact absurd hq hi
      have hat : afterTok t = altOf t := by
        unfold afterTok altOf
        simp only [hni, Bool.false_eq_true, if_false]
      have hty' : ((afterTok t).type == "inline") = false := by
        rw [hat]; unfold altOf; split
        · rw [setAlt_type]; exact hni
        · exact hni
      simp only [hni, hty', Bool.false_eq_true, if_false]
      rw [hat]
      exact renderOne_altOf x o p p' t rest.head? (rest.map afterTok).head? hp (head_afterTok_shape rest) hx

/-- **C15.render_repeatable** — rendering a stream again, as the first render left it (image `alt` attributes written), gives the same
output, for every stream, render options and fence-language function that does not look at `alt` -/
theorem render_repeatable (x : Ext) (o : ROpts) (hx : ∀ u, x.fenceLang (setAlt u) = x.fenceLang u) (ts : List Tok) :
    render x o (afterRender ts) = render x o ts := by
  unfold render
  rw [afterRender_eq, renderP_after x o hx ts none none trivial]

/-- and the stream is then a fixed point of the renderer's writes -/
theorem afterRender_idem_tok (t : Tok) : altOf (altOf t) = altOf t := by
  unfold altOf
  by_cases hi : (t.type == "image") = true
  · simp only [hi, if_true, setAlt_type, setAlt_idem]
  · simp only [hi, Bool.false_eq_true, if_false]

end MdIt.C15
