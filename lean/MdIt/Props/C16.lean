import MdIt.Refs
/-!
# C16 — reference definitions act through env: seeding env equals prepending them
-/
namespace MdIt.C16

/-- **C16.first_wins (one step)** — recording a definition never changes what any label already
resolves to; a new label resolves to the new definition; a definition of a present label goes to the
duplicates with its own map. -/
theorem record_lookup (e : RefEnv) (d : RefDef) (l : String) :
    (e.record d).lookup l = (match e.lookup l with
      | some x => some x
      | none => if l = d.label then some d else none) := by
  unfold RefEnv.record RefEnv.lookup
  by_cases hany : e.references.any (·.1 == d.label) = true
  · simp only [hany, if_true]
    cases hf : e.references.find? (·.1 == l) with
    | some p => simp
    | none =>
      simp only [Option.map_none]
      by_cases hl : l = d.label
      · subst hl
        rw [List.find?_eq_none] at hf
        rw [List.any_eq_true] at hany
        obtain ⟨p, hp, hpk⟩ := hany
        exact absurd hpk (hf p hp)
      · simp [hl]
  · have hany' : e.references.any (·.1 == d.label) = false := Bool.eq_false_iff.2 hany
    simp only [hany', Bool.false_eq_true, if_false, List.find?_append]
    cases hf : e.references.find? (·.1 == l) with
    | some p => simp
    | none =>
      by_cases hl : l = d.label
      · subst hl; simp
      · have : (d.label == l) = false := by simpa using (fun e => hl e.symm)
        simp [this, hl]

/-- **C16.first_wins** — over any sequence of definitions, from any env (fresh or seeded by earlier
parses): `references` is only ever extended — whatever a label resolved to before, it resolves to
afterwards. -/
theorem first_wins (e : RefEnv) (ds : List RefDef) (l : String) (x : RefDef) (h : e.lookup l = some x) :
    (e.recordAll ds).lookup l = some x := by
  induction ds generalizing e with
  | nil => exact h
  | cons d rest ih =>
    apply ih
    rw [record_lookup, h]

/-- **C16.recorded_once** — every definition is recorded exactly once: either as the (first)
definition of its label or as a duplicate, never both, never dropped -/
theorem recorded_once (e : RefEnv) (ds : List RefDef) :
    ((e.recordAll ds).references.map (·.2)).length + (e.recordAll ds).duplicates.length
      = (e.references.map (·.2)).length + e.duplicates.length + ds.length
    ∧ ∀ d ∈ ds, d ∈ (e.recordAll ds).references.map (·.2) ∨ d ∈ (e.recordAll ds).duplicates := by
  induction ds generalizing e with
  | nil => exact ⟨by simp [RefEnv.recordAll], by intro d hd; cases hd⟩
  | cons d rest ih =>
    have step : ((e.record d).references.map (·.2)).length + (e.record d).duplicates.length
        = (e.references.map (·.2)).length + e.duplicates.length + 1
        ∧ (d ∈ (e.record d).references.map (·.2) ∨ d ∈ (e.record d).duplicates) := by
      unfold RefEnv.record
      split
      · simp; omega
      · simp; omega
    have mono : ∀ (e' : RefEnv) (l : List RefDef) (x : RefDef),
        (x ∈ e'.references.map (·.2) ∨ x ∈ e'.duplicates) →
        (x ∈ (e'.recordAll l).references.map (·.2) ∨ x ∈ (e'.recordAll l).duplicates) := by
      intro e' l
      induction l generalizing e' with
      | nil => intro x h; exact h
      | cons y ys ihy =>
        intro x h
        apply ihy
        unfold RefEnv.record
        split
        · rcases h with h | h
          · exact Or.inl h
          · exact Or.inr (by simp [h])
        · rcases h with h | h
          · exact Or.inl (by simp only [List.map_append, List.mem_append]; exact Or.inl h)
          · exact Or.inr h
    have := ih (e.record d)
    refine ⟨?_, ?_⟩
    · simp only [RefEnv.recordAll, List.foldl_cons] at this ⊢
      rw [this.1, step.1]; simp; omega
    · intro x hx
      simp only [List.mem_cons] at hx
      rcases hx with rfl | hx
      · exact mono (e.record x) rest x step.2
      · exact this.2 x hx

/-- seeding: processing `R` then `D` on a fresh env is processing `D` on the env left by `R` —
the statement "seeding env equals prepending" at the level of the env bookkeeping -/
theorem seed_eq_prepend (e : RefEnv) (r d : List RefDef) :
    e.recordAll (r ++ d) = (e.recordAll r).recordAll d := by
  simp [RefEnv.recordAll, List.foldl_append]

/-! ### normalizeReference: whitespace -/

theorem dropWhile_append_left (sp : Char → Bool) (pad s : List Char) (hp : ∀ c ∈ pad, sp c = true) :
    (pad ++ s).dropWhile sp = s.dropWhile sp := by
  induction pad with
  | nil => rfl
  | cons c cs ih =>
    simp only [List.cons_append, List.dropWhile_cons, hp c (by simp), if_true]
    exact ih (fun x hx => hp x (by simp [hx]))

/-- **C16.normref (trim)** — leading and trailing whitespace does not matter for label matching -/
theorem normRef_trim (sp : Char → Bool) (fold : List Char → List Char) (pad1 pad2 s : List Char)
    (h1 : ∀ c ∈ pad1, sp c = true) (h2 : ∀ c ∈ pad2, sp c = true) :
    normRef sp fold (pad1 ++ s ++ pad2) = normRef sp fold s := by
  unfold normRef stripBy
  congr 2
  rw [List.append_assoc, dropWhile_append_left sp pad1 _ h1]
  -- trailing part: work on the reversed list
  have key : ∀ t : List Char, ((t ++ pad2).dropWhile sp).reverse.dropWhile sp = (t.dropWhile sp).reverse.dropWhile sp := by
    intro t
    induction t with
    | nil =>
      simp only [List.nil_append, List.dropWhile_nil, List.reverse_nil]
      have : ∀ l : List Char, (∀ c ∈ l, sp c = true) → l.dropWhile sp = [] := by
        intro l hl
        induction l with
        | nil => rfl
        | cons x xs ihx =>
          simp only [List.dropWhile_cons, hl x (by simp), if_true]
          exact ihx (fun c hc => hl c (by simp [hc]))
      simp [this pad2 h2]
    | cons c cs ih =>
      simp only [List.cons_append, List.dropWhile_cons]
      split
      · exact ih
      · simp only [List.reverse_cons, List.reverse_append]
        rw [List.append_assoc, dropWhile_append_left sp pad2.reverse _ (by simpa using h2)]
  rw [key]

/-! non-vacuity -/
example :
    let d1 : RefDef := ⟨"FOO", "/a", "", (0, 1)⟩
    let d2 : RefDef := ⟨"FOO", "/b", "", (1, 2)⟩
    ((RefEnv.mk [] []).recordAll [d1, d2]).lookup "FOO" = some d1
      ∧ ((RefEnv.mk [] []).recordAll [d1, d2]).duplicates = [d2] := by decide

end MdIt.C16
