import MdIt.Props.C06g
/-!
# C06.list_law — the list-indent half of the container law, for the modelled sub-parser
-/
namespace MdIt.C06e
open MdIt.C01 MdIt.C02 MdIt.C06 MdIt.C07

theorem listify_clean (marker : List Char) (o : Bool) (d : Char) (hm : Marker marker o d) (k : Nat) (l0 : List Char) (rest : List (List Char))
    (hcl : ∀ l ∈ l0 :: rest, Clean l) : ∀ l ∈ listify marker k l0 rest, Clean l := by
  intro l hl
  simp only [listify, List.mem_cons, List.mem_map] at hl
  have sp : ∀ (c : Char) (j : Nat), c ∈ List.replicate j ' ' → c = ' ' := fun c j h => (List.mem_replicate.1 h).2
  rcases hl with rfl | ⟨x, hx, rfl⟩
  · have h0 := hcl l0 (by simp)
    refine ⟨?_, ?_, ?_, ?_⟩ <;> (intro hc; simp only [List.mem_append] at hc; rcases hc with (hc | hc) | hc)
    · exact (hm.chars _ hc).ne.1 rfl
    · exact absurd (sp _ _ hc) (by decide)
    · exact h0.1 hc
    · exact (hm.chars _ hc).ne.2.1 rfl
    · exact absurd (sp _ _ hc) (by decide)
    · exact h0.2.1 hc
    · exact (hm.chars _ hc).ne.2.2.1 rfl
    · exact absurd (sp _ _ hc) (by decide)
    · exact h0.2.2.1 hc
    · exact (hm.chars _ hc).ne.2.2.2.1 rfl
    · exact absurd (sp _ _ hc) (by decide)
    · exact h0.2.2.2 hc
  · have h0 := hcl x (by simp [hx])
    refine ⟨?_, ?_, ?_, ?_⟩ <;> (intro hc; simp only [indentLine, List.mem_append] at hc; rcases hc with hc | hc)
    · exact absurd (sp _ _ hc) (by decide)
    · exact h0.1 hc
    · exact absurd (sp _ _ hc) (by decide)
    · exact h0.2.1 hc
    · exact absurd (sp _ _ hc) (by decide)
    · exact h0.2.2.1 hc
    · exact absurd (sp _ _ hc) (by decide)
    · exact h0.2.2.2 hc

theorem fence_declines_head (codeOn : Bool) (s : BState) (line endLine : Nat) (l : BLine) (hl : s.lines[line]? = some l)
    (c : Char) (cs : List Char) (hb : l.body = c :: cs) (h1 : c ≠ '`') (h2 : c ≠ '~') : ruleFence codeOn s line endLine false = .ok (false, s) := by
  simp only [ruleFence, getL_of_here hl]
  split
  · rfl
  · split
    · rfl
    · rw [hb]; simp [h1, h2]

theorem quote_declines_head (codeOn : Bool) (ts inner : List BRule) (mn : Int) (s : BState) (line endLine : Nat) (l : BLine) (hl : s.lines[line]? = some l)
    (c : Char) (cs : List Char) (hb : l.body = c :: cs) (h1 : c ≠ '>') : ruleBlockquote codeOn ts inner mn s line endLine false = .ok (false, s) := by
  simp only [ruleBlockquote, getL_of_here hl]
  split
  · rfl
  · rw [hb]; simp [h1]

theorem hr_declines (codeOn : Bool) (s : BState) (line endLine : Nat) (l : BLine) (hl : s.lines[line]? = some l)
    (h : hrMarkup l.body = none) : ruleHr codeOn s line endLine false = .ok (false, s) := by
  simp only [ruleHr, getL_of_here hl]
  split
  · rfl
  · rw [h]

/-- **C06.list_law** (the list-indent half of the container law, for the modelled sub-parser `code, fence, blockquote, hr, list,
heading, paragraph`) — for every document `D` given by its lines (no tab, CR, NUL, line feed, and no `>` in any line; the first
line starts with a non-blank), every list marker (`* - +`, or 1–9 digits and `)` or `.`), every `k` from 1 to 4, every subset of
`code`, `fence`, `hr`, `heading` and every `maxNesting ≥ 0`: unless the combined first line is a thematic break, putting the
marker and `k` spaces before the first line and `|marker| + k` spaces before every other line parses — with two more levels of
nesting allowed — to one list with one item spanning all lines whose content is the token stream of `D` two levels deeper: same
types, tags, contents, markup, info, maps, everything but `level` and the `hidden` flag (a tight list hides the paragraphs that are
direct children of the item).  Documents with a `>` are excluded because a lazy continuation line inside a block quote keeps the
item's indentation in its text — the exception the property names. -/
theorem list_law (c : MiniCfg) (ws : List Nat) (mn : Int) (hmn : 0 ≤ mn) (l0 : List Char) (rest : List (List Char))
    (hcl : ∀ l ∈ l0 :: rest, Clean l ∧ '>' ∉ l) (c0 : Char) (cs0 : List Char) (hl0 : l0 = c0 :: cs0) (hc0 : c0 ≠ ' ')
    (marker : List Char) (ordered : Bool) (mc : Char) (hmk : Marker marker ordered mc) (k : Nat) (hk1 : 1 ≤ k) (hk4 : k ≤ 4)
    (hhr : c.hr = true → hrMarkup (marker ++ List.replicate k ' ' ++ l0) = none)
    (tsD : List Tok) (hD : lParse c ws mn (srcOf (l0 :: rest)) = .ok tsD) :
    ∃ ts', lParse c ws (mn + 2) (srcOf (listify marker k l0 rest)) = .ok ts' ∧
      HidEq ts' (listOpenTok0 ordered mc (digitsVal (List.take (marker.length - 1) (marker ++ List.replicate k ' ' ++ l0))) (rest.length + 1)
        :: itemOpenTok mc (if ordered = true then String.ofList (List.take (marker.length - 1) (marker ++ List.replicate k ' ' ++ l0)) else "") (rest.length + 1)
        :: tsD.map (Tok.shift 2) ++ [itemCloseTok mc 2, listCloseTok ordered mc 1]) := by
  have hn : 0 < (l0 :: rest).length := by simp
  have hcl1 : ∀ l ∈ l0 :: rest, Clean l := fun l hl => (hcl l hl).1
  have hsrcD : (srcOf (l0 :: rest)).isEmpty = false := by simp [srcOf]
  have hsrcQ : (srcOf (listify marker k l0 rest)).isEmpty = false := by simp [srcOf, listify]
  have hclQ := listify_clean marker ordered mc hmk k l0 rest hcl1
  -- the parse of `D`
  unfold lParse at hD
  simp only [hsrcD, Bool.false_eq_true, ↓reduceIte, normalize_srcOf _ (fun l hl => ⟨(hcl1 l hl).2.2.1, (hcl1 l hl).2.2.2⟩),
    init_srcOf _ (fun l hl => ⟨(hcl1 l hl).1, (hcl1 l hl).2.1⟩)] at hD
  have hmaxD : (stD (l0 :: rest)).lineMax = rest.length + 1 := rfl
  rw [hmaxD] at hD
  obtain ⟨hok, hinner⟩ := C01.lChain_ok c ws mn (mn.toNat + 1)
  have hlvD : C01.Lv mn (mn.toNat + 1) (stD (l0 :: rest)) (rest.length + 1) := by
    unfold C01.Lv; show mn + 1 ≤ (0 : Int) + ((mn.toNat + 1 : Nat) : Int); omega
  have hlenD : (stD (l0 :: rest)).lineMax + 1 ≤ (stD (l0 :: rest)).lines.length := by rw [stD_len]; exact Nat.le_refl _
  obtain ⟨tD, hrun, hfr, hpost⟩ := hinner (stD (l0 :: rest)) 0 (rest.length + 1) hlenD (Nat.le_refl _) hlvD
  rw [hrun] at hD
  simp only [Except.ok.injEq] at hD
  subst hD
  have hle : tD.line ≤ rest.length + 1 := (hpost.1 (by omega)).2.1
  have hge : rest.length + 1 ≤ tD.line := by
    refine loop_reaches_end (C01.Lv mn (mn.toNat + 1)) (C01.lv_closed _ _) _ hok mn (rest.length + 1) _ 0 false (stD (l0 :: rest)) tD hlenD
      (Nat.le_refl _) hlvD ?_ hrun (by omega)
    intro i l hl
    show (0 : Int) ≤ l.sCount
    have hm := List.mem_of_getElem? hl
    simp only [stD, List.mem_append, List.mem_map, List.mem_singleton] at hm
    rcases hm with ⟨x, _, rfl⟩ | rfl
    · simp [lineRec, mkLine]
    · simp [sentinelLine]
  have hline : tD.line = rest.length + 1 := by omega
  -- the parse of the indented document
  unfold lParse
  simp only [hsrcQ, Bool.false_eq_true, ↓reduceIte, normalize_srcOf _ (fun l hl => ⟨(hclQ l hl).2.2.1, (hclQ l hl).2.2.2⟩),
    init_srcOf _ (fun l hl => ⟨(hclQ l hl).1, (hclQ l hl).2.1⟩)]
  have hmaxQ : (stD (listify marker k l0 rest)).lineMax = rest.length + 1 := by simp [stD, listify]
  have hd : (mn + 2).toNat + 1 = (mn.toNat + 1 + 1) + 1 := by omega
  rw [hmaxQ, hd]
  obtain ⟨hlead, hso, hsb, hmc⟩ := hmk.facts k hk1 l0
  obtain ⟨sF, hrule, hFline, hFlen, hFtok⟩ := list_rule_law c.code (lListTerms c (mn + 2)) (lChain c ws mn (mn.toNat + 1))
    (lChain c ws (mn + 2) (mn.toNat + 1 + 1)) mn l0 rest hcl c0 cs0 hl0 hc0 marker k hk1 hk4
    (fun h => (hmk.chars _ h).ne.2.1 rfl) hmk.pos hlead ordered mc hso hsb hmc (lChain_shs 2 0 (marker.length + k) c ws mn (mn.toNat + 1)) tD hrun hline hfr
  have hq0 : (stD (listify marker k l0 rest)).lines[0]? = some (lineRec (marker ++ List.replicate k ' ' ++ l0)) := by
    simp [stD, listify]
  have hbody : (lineRec (marker ++ List.replicate k ' ' ++ l0)).body = marker ++ List.replicate k ' ' ++ l0 := by
    show List.drop (lead _) _ = _
    rw [hlead]; rfl
  have hsc : (lineRec (marker ++ List.replicate k ' ' ++ l0)).sCount = 0 := by
    show ((lead _ : Nat) : Int) = 0
    rw [hlead]; rfl
  obtain ⟨h0c, htl, hh0⟩ : ∃ h0c htl, marker = h0c :: htl := by
    cases marker with
    | nil => have := hmk.pos; simp at this
    | cons a b => exact ⟨a, b, rfl⟩
  have hhead : (lineRec (marker ++ List.replicate k ' ' ++ l0)).body = h0c :: (htl ++ List.replicate k ' ' ++ l0) := by
    rw [hbody, hh0]; simp
  have hmc0 : MarkerChar h0c := hmk.chars h0c (by rw [hh0]; simp)
  obtain ⟨_, _, _, _, _, ngt, nbt, ntl⟩ := hmc0.ne
  have hnotcode : isCodeLine c.code (stD (listify marker k l0 rest)) (lineRec (marker ++ List.replicate k ' ' ++ l0)) = false := by
    unfold isCodeLine; rw [hsc]; simp [stD]
  have hchain : runBlockChain (lChain c ws (mn + 2) (mn.toNat + 1 + 1 + 1)) { stD (listify marker k l0 rest) with line := 0 } 0 (rest.length + 1)
      = .ok (true, sF) := by
    have he : ({ stD (listify marker k l0 rest) with line := 0 } : BState) = stD (listify marker k l0 rest) := rfl
    rw [he]
    unfold lChain
    simp only [List.append_assoc]
    rw [runBlockChain_skip, runBlockChain_skip, runBlockChain_skip, runBlockChain_skip]
    · exact runBlockChain_hit _ _ _ _ _ _ hrule
    · intro r hr
      split at hr
      · rename_i hhrOn
        simp only [List.mem_singleton] at hr; subst hr
        exact hr_declines _ _ _ _ _ hq0 (by rw [hbody]; exact hhr hhrOn)
      · cases hr
    · intro r hr
      simp only [List.mem_singleton] at hr; subst hr
      exact quote_declines_head _ _ _ _ _ _ _ _ hq0 _ _ hhead ngt
    · intro r hr
      split at hr
      · simp only [List.mem_singleton] at hr; subst hr
        exact fence_declines_head _ _ _ _ _ hq0 _ _ hhead nbt ntl
      · cases hr
    · intro r hr
      split at hr
      · simp only [List.mem_singleton] at hr; subst hr
        exact code_declines _ _ _ _ _ hq0 hnotcode
      · cases hr
  have hne0 : (lineRec (marker ++ List.replicate k ' ' ++ l0)).empty = false := by
    have ht : (lineRec (marker ++ List.replicate k ' ' ++ l0)).tShift = 0 := hlead
    have hx : (lineRec (marker ++ List.replicate k ' ' ++ l0)).text = marker ++ List.replicate k ' ' ++ l0 := rfl
    unfold BLine.empty
    rw [ht, hx, hh0]
    simp
  have hloop := loop_one_block (lChain c ws (mn + 2) (mn.toNat + 1 + 1 + 1)) (mn + 2) (rest.length + 1) (rest.length + 1 - 1)
    (stD (listify marker k l0 rest)) sF (lineRec (marker ++ List.replicate k ' ' ++ l0)) hmaxQ (by omega) (by rw [stD_len]; simp [listify]) hq0 hne0
    (by rw [hsc]; show ¬ ((0 : Int) < 0); omega) (by show ¬ ((0 : Int) ≥ mn + 2); omega) hchain hFline (by rw [hFlen, stD_len]; simp [listify])
  unfold blockTokenize
  have hf : rest.length + 1 - 0 + 1 = rest.length + 1 - 1 + 2 := by omega
  rw [hf, hloop]
  exact ⟨_, rfl, hFtok⟩

/-! non-vacuity and a worked instance: a document with a heading, a nested loose list, a fence and an indented code block, behind
`12. ` + one more space (`k = 2`, `W = 5`) and behind `- ` -/
def demoI0 : List Char := "# h".toList
def demoIrest : List (List Char) := ["".toList, "- x".toList, "".toList, "  y".toList, "~~~".toList, " f".toList, "~~~".toList, "    code".toList, "para".toList, " more".toList]

example : (∀ l ∈ demoI0 :: demoIrest, Clean l ∧ '>' ∉ l) ∧ Marker "12.".toList true '.' ∧ Marker "-".toList false '-' := by
  refine ⟨?_, Marker.ordered '1' ['2'] '.' (by decide) (by decide) (by decide) (Or.inr rfl), Marker.bullet '-' (Or.inr (Or.inl rfl))⟩
  intro l hl
  simp only [demoI0, demoIrest, List.mem_cons, List.not_mem_nil, or_false] at hl
  rcases hl with rfl | rfl | rfl | rfl | rfl | rfl | rfl | rfl | rfl | rfl | rfl <;> (unfold Clean; decide)

example : hrMarkup ("12.".toList ++ List.replicate 2 ' ' ++ demoI0) = none ∧ hrMarkup ("-".toList ++ List.replicate 1 ' ' ++ demoI0) = none := by decide

/-- type, map, level, content, markup of every token -/
def shape5 (r : Except PyErr (List Tok)) : Option (List (String × Option (Nat × Nat) × Int × String)) :=
  match r with
  | .ok ts => some (ts.map (fun t => (t.type, t.map, t.level, t.content)))
  | .error _ => none

example : shape5 (lParse ⟨true, true, true, true⟩ [32, 9, 10] 22 (srcOf (listify "12.".toList 2 demoI0 demoIrest)))
    = (do let b ← shape5 ((lParse ⟨true, true, true, true⟩ [32, 9, 10] 20 (srcOf (demoI0 :: demoIrest))).map (List.map (Tok.shift 2)))
          pure ([("ordered_list_open", some (0, 11), (0 : Int), ""), ("list_item_open", some (0, 11), 1, "")] ++ b
            ++ [("list_item_close", none, 1, ""), ("ordered_list_close", none, 0, "")])) := by decide +kernel

example : shape5 (lParse ⟨true, true, true, true⟩ [32, 9, 10] 22 (srcOf (listify "-".toList 1 demoI0 demoIrest)))
    = (do let b ← shape5 ((lParse ⟨true, true, true, true⟩ [32, 9, 10] 20 (srcOf (demoI0 :: demoIrest))).map (List.map (Tok.shift 2)))
          pure ([("bullet_list_open", some (0, 11), (0 : Int), ""), ("list_item_open", some (0, 11), 1, "")] ++ b
            ++ [("list_item_close", none, 1, ""), ("bullet_list_close", none, 0, "")])) := by decide +kernel

/-- the excluded case is real: with a block quote in `D`, a lazy continuation line keeps the item's indentation in its text -/
example : shape5 (lParse ⟨true, true, true, true⟩ [32, 9, 10] 22 (srcOf (listify "-".toList 1 "> q".toList ["lazy".toList])))
    ≠ (do let b ← shape5 ((lParse ⟨true, true, true, true⟩ [32, 9, 10] 20 (srcOf ["> q".toList, "lazy".toList])).map (List.map (Tok.shift 2)))
          pure ([("bullet_list_open", some (0, 2), (0 : Int), ""), ("list_item_open", some (0, 2), 1, "")] ++ b
            ++ [("list_item_close", none, 1, ""), ("bullet_list_close", none, 0, "")])) := by decide +kernel

end MdIt.C06e
