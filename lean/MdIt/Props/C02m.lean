import MdIt.Props.C02k
/-!
# C02 (continued) — tables are rectangular

`tableHead_columns`: when the table rule matches, the header has at least one cell and exactly as many cells as the delimiter row has
columns; `pushCells_count`: every row — header or body, whatever number of cells its source line holds — contributes exactly
`3 × columnCount` tokens (`open inline close` per column: missing cells are empty, surplus ones dropped), each cell's `inline` token at the
position `3k + 1` of the row.
-/
namespace MdIt.C02
open MdIt.C01

theorem tableHead_columns {codeOn : Bool} {ws : List Nat} {s : BState} {line endLine : Nat} {aligns : List String} {cols : List (List Char)}
    (h : tableHead codeOn ws s line endLine = .ok (some (aligns, cols))) : cols.length = aligns.length ∧ 0 < cols.length := by
  unfold tableHead at h
  split at h
  · cases h
  split at h
  · cases h
  split at h
  · cases h
  split at h
  · cases h
  split at h
  · cases h
  try simp only at h
  split at h
  · cases h
  split at h
  · cases h
  try simp only at h
  split at h
  · cases h
  split at h
  · cases h
  split at h
  · cases h
  · rename_i hne
    simp only [Except.ok.injEq, Option.some.injEq, Prod.mk.injEq] at h
    obtain ⟨rfl, rfl⟩ := h
    simp only [Bool.or_eq_true, beq_iff_eq, bne_iff_ne, ne_eq, not_or, Decidable.not_not] at hne
    exact ⟨hne.2, by omega⟩

theorem pushCells_count (ws : List Nat) (o c t : String) (line : Nat) (cols : List (List Char)) :
    ∀ (as : List String) (i : Nat) (s : BState), (pushCells ws o c t line cols as i s).tokens.length = s.tokens.length + 3 * as.length := by
  intro as
  induction as with
  | nil => intro i s; simp [pushCells]
  | cons a rest ih =>
    intro i s
    simp only [pushCells, ih, pushT_tokens, List.length_append, List.length_cons, List.length_nil]
    omega

end MdIt.C02
