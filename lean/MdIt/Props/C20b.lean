import MdIt.BlockTable
/-!
# C20 (continued) — the table row splitter is linear

`escapedSplit` walks the row once (structural recursion on the characters: one step per character, no rescanning) and its output is
bounded by its input: `escSplit_cells` — at most one more cell than the row has pipes —, `escSplit_chars` — the cells together hold no
more characters than the row.  With `C02.pushCells_count` (every row contributes exactly `3 × columnCount` tokens, however many cells
it holds) a row of length `n` under a header of `k` columns costs `O(n + k)`; the quadratic shape "many short rows under a wide header"
is inherent in the *output* (`k` cells per row) — upstream caps it at 65 536 auto-completed cells, the pinned code does not (see the
at-scale documents of C02 / C03 and seeded changes C03i, C02m, C03m).
-/
namespace MdIt.C20

def pipes (s : List Char) : Nat := (s.filter (· == '|')).length

theorem escSplit_cells : ∀ (s : List Char) (esc : Bool) (cell : List Char), (escSplitGo s esc cell).length ≤ pipes s + 1 := by
  intro s
  induction s with
  | nil => intro esc cell; simp [escSplitGo, pipes]
  | cons c rest ih =>
    intro esc cell
    simp only [escSplitGo]
    by_cases hc : c = '|'
    · subst hc
      simp only [beq_self_eq_true, if_true]
      split
      · have := ih false []
        simp only [List.length_cons, pipes, List.filter_cons, beq_self_eq_true, if_true] at this ⊢
        omega
      · have := ih false (cell.dropLast ++ ['|'])
        simp only [pipes, List.filter_cons, beq_self_eq_true, if_true, List.length_cons] at this ⊢
        omega
    · have hne : (c == '|') = false := by simpa using hc
      simp only [hne, Bool.false_eq_true, if_false]
      have := ih (c == '\\') (cell ++ [c])
      simp only [pipes, List.filter_cons, hne, Bool.false_eq_true, if_false] at this ⊢
      exact this

theorem escSplit_chars : ∀ (s : List Char) (esc : Bool) (cell : List Char),
    (escSplitGo s esc cell).flatten.length ≤ cell.length + s.length := by
  intro s
  induction s with
  | nil => intro esc cell; simp [escSplitGo]
  | cons c rest ih =>
    intro esc cell
    simp only [escSplitGo]
    by_cases hc : c = '|'
    · subst hc
      simp only [beq_self_eq_true, if_true]
      split
      · have := ih false []
        simp only [List.flatten_cons, List.length_append, List.length_cons, List.length_nil] at this ⊢
        omega
      · have := ih false (cell.dropLast ++ ['|'])
        simp only [List.length_append, List.length_dropLast, List.length_cons, List.length_nil] at this ⊢
        omega
    · have hne : (c == '|') = false := by simpa using hc
      simp only [hne, Bool.false_eq_true, if_false]
      have := ih (c == '\\') (cell ++ [c])
      simp only [List.length_append, List.length_cons, List.length_nil] at this ⊢
      omega

end MdIt.C20
