import MdIt.Props.C02e
import MdIt.Props.C02
import MdIt.Props.C01f
/-!
# C02 (continued) — the inline stream with emphasis is balanced, levelled, and builds a tree

`emphPost_balanced`: the post-processing of emphasis turns the delimiter pairs `processDelimiters` formed into opening and closing
tokens; because every pair has its opener before its closer, a closer closes one opener, and no delimiter is in two pairs
(`C02e.pairs_facts`), every step of the loop changes two untouched tokens of a balanced stream into an opening token and a later
closing token, which keeps it balanced (`balanced_set_pair`).  With the invariants of the tokenize loop (`emini_zero`: all tokens
nesting 0; `DelimsOK`: delimiter records point at strictly increasing token positions), `emini_wellformed`: for every source, every
subset of the rules `newline, escape, backticks`, emphasis on, every `maxNesting` and every character classification, the inline
stream is levelled from 0, balanced, and `SyntaxTreeNode` builds.
-/
namespace MdIt.C02f
open MdIt MdIt.C02

/-! ### balanced streams under local changes -/

theorem balanced_modify_same (f : Tok → Tok) (hf : ∀ t, (f t).nesting = t.nesting) :
    ∀ (ts : List Tok) (p : Nat) (d : Int), balancedFrom d (ts.modify p f) = balancedFrom d ts := by
  intro ts
  induction ts with
  | nil => intro p d; simp
  | cons t rest ih =>
    intro p d
    cases p with
    | zero => simp only [List.modify_zero_cons, balancedFrom, hf]
    | succ k => simp only [List.modify_succ_cons, balancedFrom, ih]

/-- turning an untouched token of a stream balanced from depth `d ≥ 0` into a closing token makes it balanced from `d + 1` -/
theorem balanced_close (g : Tok → Tok) (hg : ∀ t, (g t).nesting = -1) :
    ∀ (ts : List Tok) (b : Nat) (d : Int) (t : Tok), ts[b]? = some t → t.nesting = 0 → 0 ≤ d → balancedFrom d ts = true →
      balancedFrom (d + 1) (ts.modify b g) = true := by
  intro ts
  induction ts with
  | nil => intro b d t h; simp at h
  | cons u rest ih =>
    intro b d t hb ht hd hbal
    simp only [balancedFrom, Bool.and_eq_true, decide_eq_true_eq] at hbal
    obtain ⟨⟨h1, h2⟩, h3⟩ := hbal
    cases b with
    | zero =>
      simp only [List.getElem?_cons_zero, Option.some.injEq] at hb
      subst hb
      simp only [List.modify_zero_cons, balancedFrom, hg]
      rw [ht] at h3
      have e : d + 1 + -1 = d + 0 := by omega
      rw [e, h3]
      simp; omega
    | succ k =>
      simp only [List.getElem?_cons_succ] at hb
      simp only [List.modify_succ_cons, balancedFrom]
      have := ih k (d + u.nesting) t hb ht h2 h3
      have e : d + 1 + u.nesting = d + u.nesting + 1 := by omega
      rw [e, this, h1]
      simp; omega

/-- turning two untouched tokens `a < b` of a balanced stream into an opening and a closing token keeps it balanced -/
theorem balanced_set_pair (f g : Tok → Tok) (hf : ∀ t, (f t).nesting = 1) (hg : ∀ t, (g t).nesting = -1) :
    ∀ (ts : List Tok) (a b : Nat) (d : Int) (ta tb : Tok), ts[a]? = some ta → ts[b]? = some tb → ta.nesting = 0 → tb.nesting = 0 → a < b →
      balancedFrom d ts = true → balancedFrom d ((ts.modify a f).modify b g) = true := by
  intro ts
  induction ts with
  | nil => intro a b d ta tb h; simp at h
  | cons u rest ih =>
    intro a b d ta tb ha hb hta htb hab hbal
    have hbal' := hbal
    simp only [balancedFrom, Bool.and_eq_true, decide_eq_true_eq] at hbal
    obtain ⟨⟨h1, h2⟩, h3⟩ := hbal
    cases b with
    | zero => omega
    | succ b' =>
      simp only [List.getElem?_cons_succ] at hb
      cases a with
      | zero =>
        simp only [List.getElem?_cons_zero, Option.some.injEq] at ha
        subst ha
        simp only [List.modify_zero_cons, List.modify_succ_cons, balancedFrom, hf]
        rw [hta] at h2 h3
        have := balanced_close g hg rest b' (d + 0) tb hb htb h2 h3
        have e : d + 1 = d + 0 + 1 := by omega
        rw [e, this]
        simp; omega
      | succ a' =>
        simp only [List.getElem?_cons_succ] at ha
        simp only [List.modify_succ_cons, balancedFrom]
        rw [ih a' b' (d + u.nesting) ta tb ha hb hta htb (by omega) h3, h1]
        simp; exact h2

theorem balanced_zeros : ∀ (ts : List Tok), (∀ t ∈ ts, t.nesting = 0) → balancedFrom 0 ts = true := by
  intro ts
  induction ts with
  | nil => intro _; rfl
  | cons t rest ih =>
    intro h
    have ht := h t (by simp)
    simp only [balancedFrom, ht]
    rw [show (0 : Int) + 0 = 0 by rfl, ih (fun u hu => h u (by simp [hu]))]
    rfl

/-! ### the post-processing of emphasis -/

/-- what `_postProcess` relies on: the delimiter records point at distinct, increasing token positions and their pairs are as
    `processDelimiters` leaves them -/
structure PostHyp (D : List Delim) (n : Nat) : Prop where
  tokBound : ∀ (j : Nat) (d : Delim), D[j]? = some d → 0 ≤ d.token ∧ d.token < (n : Int)
  tokInc : ∀ (j1 j2 : Nat) (d1 d2 : Delim), D[j1]? = some d1 → D[j2]? = some d2 → j1 < j2 → d1.token < d2.token
  ends : ∀ (j : Nat) (d : Delim), D[j]? = some d → d.end_ = -1 ∨ ((j : Int) < d.end_ ∧ d.end_ < (D.length : Int))
  inj : ∀ (o1 o2 : Nat) (d1 d2 : Delim), D[o1]? = some d1 → D[o2]? = some d2 → 0 ≤ d1.end_ → d1.end_ = d2.end_ → o1 = o2
  noBoth : ∀ (o o2 : Nat) (d d2 : Delim), D[o]? = some d → D[o2]? = some d2 → 0 ≤ d.end_ → 0 ≤ d2.end_ → d2.end_ ≠ (o : Int)

def Untouched (ts : List Tok) (p : Int) : Prop := ∃ t, ts[p.toNat]? = some t ∧ t.nesting = 0

structure PostInv (D : List Delim) (n : Nat) (i : Int) (ts : List Tok) : Prop where
  len : ts.length = n
  bal : balancedFrom 0 ts = true
  text : ∀ t ∈ ts, t.type = "text" → t.nesting = 0
  u1 : ∀ (j : Nat) (d : Delim), (j : Int) ≤ i → D[j]? = some d → Untouched ts d.token
  u2 : ∀ (j : Nat) (d de : Delim), (j : Int) ≤ i → D[j]? = some d → 0 ≤ d.end_ → D[d.end_.toNat]? = some de → Untouched ts de.token

theorem PostInv.down {D n i ts} (h : PostInv D n i ts) (i' : Int) (hi : i' ≤ i) : PostInv D n i' ts :=
  ⟨h.len, h.bal, h.text, fun j d hj hd => h.u1 j d (by omega) hd, fun j d de hj hd he hde => h.u2 j d de (by omega) hd he hde⟩

theorem mem_modify {α} (l : List α) (p : Nat) (f : α → α) (x : α) (h : x ∈ l.modify p f) : x ∈ l ∨ ∃ u ∈ l, x = f u := by
  obtain ⟨k, hk⟩ := List.getElem?_of_mem h
  rw [List.getElem?_modify] at hk
  cases hq : l[k]? with
  | none => rw [hq] at hk; cases hk
  | some u =>
    rw [hq] at hk
    simp only [Functor.map, Option.map_some, Option.some.injEq] at hk
    split at hk
    · exact .inr ⟨u, List.mem_of_getElem? hq, hk.symm⟩
    · subst hk; exact .inl (List.mem_of_getElem? hq)

theorem untouched_modify_other (ts : List Tok) (p q : Int) (f : Tok → Tok) (hp : 0 ≤ p) (hq : 0 ≤ q) (hne : p ≠ q) (h : Untouched ts q) :
    Untouched (ts.modify p.toNat f) q := by
  obtain ⟨t, h1, h2⟩ := h
  refine ⟨t, ?_, h2⟩
  rw [List.getElem?_modify]
  have : ¬ p.toNat = q.toNat := by omega
  simp [this, h1]

theorem untouched_modify_same (ts : List Tok) (p q : Int) (f : Tok → Tok) (hf : ∀ t, (f t).nesting = t.nesting) (h : Untouched ts q) :
    Untouched (ts.modify p.toNat f) q := by
  obtain ⟨t, h1, h2⟩ := h
  rw [Untouched, List.getElem?_modify, h1]
  simp only [Functor.map, Option.map_some]
  split
  · exact ⟨f t, rfl, by rw [hf]; exact h2⟩
  · exact ⟨t, rfl, h2⟩

@[simp] theorem setEmph_nesting (t : Tok) (a b : String) (n : Int) (m : String) : (t.setEmph a b n m).nesting = n := by cases t; rfl
@[simp] theorem setEmph_type (t : Tok) (a b : String) (n : Int) (m : String) : (t.setEmph a b n m).type = a := by cases t; rfl
@[simp] theorem setContent_nesting (t : Tok) (c : String) : (t.setContent c).nesting = t.nesting := by cases t; rfl
@[simp] theorem setContent_type' (t : Tok) (c : String) : (t.setContent c).type = t.type := by cases t; rfl

theorem PostHyp.tok_ne {D n} (hD : PostHyp D n) (j1 j2 : Nat) (d1 d2 : Delim) (h1 : D[j1]? = some d1) (h2 : D[j2]? = some d2) (hne : j1 ≠ j2) :
    d1.token ≠ d2.token := by
  rcases Nat.lt_or_ge j1 j2 with h | h
  · have := hD.tokInc j1 j2 d1 d2 h1 h2 h; omega
  · have := hD.tokInc j2 j1 d2 d1 h2 h1 (by omega); omega

theorem PostHyp.tok_lt {D n} (hD : PostHyp D n) (j1 j2 : Nat) (d1 d2 : Delim) (h1 : D[j1]? = some d1) (h2 : D[j2]? = some d2)
    (hlt : d1.token < d2.token) : j1 < j2 := by
  rcases Nat.lt_or_ge j1 j2 with h | h
  · exact h
  · exfalso
    rcases Nat.lt_or_ge j2 j1 with h' | h'
    · have := hD.tokInc j2 j1 d2 d1 h2 h1 h'; omega
    · have : j1 = j2 := by omega
      subst this; rw [h1] at h2; cases h2; omega

theorem PostInv.same {D n i ts} (h : PostInv D n i ts) (p : Nat) (f : Tok → Tok) (hfn : ∀ t, (f t).nesting = t.nesting)
    (hft : ∀ t, (f t).type = t.type) : PostInv D n i (ts.modify p f) := by
  refine ⟨by rw [List.length_modify]; exact h.len, by rw [balanced_modify_same f hfn]; exact h.bal, ?_, ?_, ?_⟩
  · intro t ht hty
    rcases mem_modify ts p f t ht with h1 | ⟨u, hu, rfl⟩
    · exact h.text t h1 hty
    · rw [hfn]; rw [hft] at hty; exact h.text u hu hty
  · intro j d hj hd
    obtain ⟨t, h1, h2⟩ := h.u1 j d hj hd
    rw [Untouched, List.getElem?_modify, h1]
    simp only [Functor.map, Option.map_some]
    split
    · exact ⟨f t, rfl, by rw [hfn]; exact h2⟩
    · exact ⟨t, rfl, h2⟩
  · intro j d de hj hd he hde
    obtain ⟨t, h1, h2⟩ := h.u2 j d de hj hd he hde
    rw [Untouched, List.getElem?_modify, h1]
    simp only [Functor.map, Option.map_some]
    split
    · exact ⟨f t, rfl, by rw [hfn]; exact h2⟩
    · exact ⟨t, rfl, h2⟩

/-- one pair turned into an opening and a closing token -/
theorem post_pair {D n i ts} (hD : PostHyp D n) (h : PostInv D n i ts) (hi0 : 0 ≤ i) (sd ed : Delim) (hsd : D[i.toNat]? = some sd)
    (he : 0 ≤ sd.end_) (hed : D[sd.end_.toNat]? = some ed) (f g : Tok → Tok) (hf1 : ∀ t, (f t).nesting = 1) (hf2 : ∀ t, (f t).type ≠ "text")
    (hg1 : ∀ t, (g t).nesting = -1) (hg2 : ∀ t, (g t).type ≠ "text") :
    PostInv D n (i - 1) ((ts.modify sd.token.toNat f).modify ed.token.toNat g) := by
  have hends := hD.ends i.toNat sd hsd
  have hie : (i.toNat : Int) < sd.end_ := by rcases hends with h1 | h1 <;> omega
  have hlt : i.toNat < sd.end_.toNat := by omega
  have hab : sd.token < ed.token := hD.tokInc i.toNat sd.end_.toNat sd ed hsd hed hlt
  have hba := hD.tokBound i.toNat sd hsd
  have hbb := hD.tokBound sd.end_.toNat ed hed
  obtain ⟨ta, hta1, hta2⟩ := h.u1 i.toNat sd (by omega) hsd
  obtain ⟨tb, htb1, htb2⟩ := h.u2 i.toNat sd ed (by omega) hsd he hed
  refine ⟨by rw [List.length_modify, List.length_modify]; exact h.len, ?_, ?_, ?_, ?_⟩
  · exact balanced_set_pair f g hf1 hg1 ts sd.token.toNat ed.token.toNat 0 ta tb hta1 htb1 hta2 htb2 (by omega) h.bal
  · intro t ht hty
    rcases mem_modify _ _ g t ht with h1 | ⟨u, _, rfl⟩
    · rcases mem_modify _ _ f t h1 with h2 | ⟨u, _, rfl⟩
      · exact h.text t h2 hty
      · exact absurd hty (hf2 u)
    · exact absurd hty (hg2 u)
  · intro j d hj hd
    have hji : j ≠ i.toNat := by omega
    have hje : j ≠ sd.end_.toNat := by omega
    have n1 := hD.tok_ne j i.toNat d sd hd hsd hji
    have n2 := hD.tok_ne j sd.end_.toNat d ed hd hed hje
    have b1 := hD.tokBound j d hd
    exact untouched_modify_other _ _ _ g (by omega) (by omega) (fun e => n2 e.symm)
      (untouched_modify_other _ _ _ f (by omega) (by omega) (fun e => n1 e.symm) (h.u1 j d (by omega) hd))
  · intro j d de hj hd hde0 hde
    have hji : j ≠ i.toNat := by omega
    have hne1 : d.end_ ≠ ((i.toNat : Nat) : Int) := hD.noBoth i.toNat j sd d hsd hd he hde0
    have hne2 : d.end_ ≠ sd.end_ := by
      intro e
      exact hji (hD.inj j i.toNat d sd hd hsd hde0 e)
    have n1 := hD.tok_ne d.end_.toNat i.toNat de sd hde hsd (by omega)
    have n2 := hD.tok_ne d.end_.toNat sd.end_.toNat de ed hde hed (by omega)
    have b1 := hD.tokBound d.end_.toNat de hde
    exact untouched_modify_other _ _ _ g (by omega) (by omega) (fun e => n2 e.symm)
      (untouched_modify_other _ _ _ f (by omega) (by omega) (fun e => n1 e.symm) (h.u2 j d de (by omega) hd hde0 hde))

/-- **the loop**: from a state satisfying the invariant at `i`, the result is balanced and its text tokens have nesting 0 -/
theorem emphPost_inv (D : List Delim) (n : Nat) (hD : PostHyp D n) : ∀ (fuel : Nat) (i : Int) (ts : List Tok), PostInv D n i ts →
    (emphPostGo D fuel i ts).length = n ∧ balancedFrom 0 (emphPostGo D fuel i ts) = true
      ∧ ∀ t ∈ emphPostGo D fuel i ts, t.type = "text" → t.nesting = 0 := by
  intro fuel
  induction fuel with
  | zero => intro i ts h; exact ⟨h.len, h.bal, h.text⟩
  | succ k ih =>
    intro i ts h
    simp only [emphPostGo]
    split
    · exact ⟨h.len, h.bal, h.text⟩
    · rename_i hneg
      have hi0 : 0 ≤ i := by omega
      cases hq : D[i.toNat]? with
      | none => exact ⟨h.len, h.bal, h.text⟩
      | some sd =>
        simp only
        split
        · exact ih _ _ (h.down _ (by omega))
        · split
          · exact ih _ _ (h.down _ (by omega))
          · rename_i hend
            have he : 0 ≤ sd.end_ := by
              rcases hD.ends i.toNat sd hq with h1 | h1
              · simp [h1] at hend
              · omega
            cases hed : D[sd.end_.toNat]? with
            | none => exact ⟨h.len, h.bal, h.text⟩
            | some ed =>
              simp only
              cases hst : isStrongAt D i sd ed with
              | true =>
                simp only [if_true]
                refine ih _ _ (PostInv.down (i := i - 1) ?_ (i - 2) (by omega))
                exact ((post_pair hD h hi0 sd ed hq he hed (fun t => t.setEmph "strong_open" "strong" 1 _) (fun t => t.setEmph "strong_close" "strong" (-1) _)
                  (fun t => setEmph_nesting t _ _ _ _) (fun t => by rw [setEmph_type]; decide)
                  (fun t => setEmph_nesting t _ _ _ _) (fun t => by rw [setEmph_type]; decide)).same _ _ (fun t => setContent_nesting t _)
                  (fun t => setContent_type' t _)).same _ _ (fun t => setContent_nesting t _) (fun t => setContent_type' t _)
              | false =>
                simp only [Bool.false_eq_true, if_false]
                exact ih _ _ (post_pair hD h hi0 sd ed hq he hed (fun t => t.setEmph "em_open" "em" 1 _) (fun t => t.setEmph "em_close" "em" (-1) _)
                  (fun t => setEmph_nesting t _ _ _ _) (fun t => by rw [setEmph_type]; decide)
                  (fun t => setEmph_nesting t _ _ _ _) (fun t => by rw [setEmph_type]; decide))

/-! ### what the tokenize loop keeps true of tokens and delimiter records -/

open MdIt.C01 in
/-- all tokens have nesting 0; the delimiter records are fresh, point into the token list, at strictly increasing positions -/
def ZeroD (s : IState) : Prop :=
  (∀ t ∈ s.tokens, t.nesting = 0)
  ∧ (∀ d ∈ s.delimiters, d.end_ = -1 ∧ 0 ≤ d.token ∧ d.token < (s.tokens.length : Int))
  ∧ s.delimiters.Pairwise (fun a b => a.token < b.token)

theorem zeroD_eq (s x : IState) (ht : x.tokens = s.tokens) (hd : x.delimiters = s.delimiters) (h : ZeroD s) : ZeroD x := by
  unfold ZeroD at *; rw [ht, hd]; exact h

theorem zeroD_pushPending (s : IState) (h : ZeroD s) : ZeroD s.pushPending := by
  obtain ⟨h1, h2, h3⟩ := h
  refine ⟨?_, ?_, h3⟩
  · intro t ht
    simp only [IState.pushPending, List.mem_append, List.mem_singleton] at ht
    rcases ht with ht | rfl
    · exact h1 t ht
    · rfl
  · intro d hd
    obtain ⟨a, b, c⟩ := h2 d hd
    refine ⟨a, b, ?_⟩
    simp only [IState.pushPending, List.length_append, List.length_singleton]
    omega

theorem push_tokens0 (s : IState) (ty tag c m i : String) :
    ∃ extra, (s.push ty tag 0 c m i).tokens = s.tokens ++ extra ∧ (∀ t ∈ extra, t.nesting = 0) ∧ extra ≠ []
      ∧ (s.push ty tag 0 c m i).delimiters = s.delimiters := by
  unfold IState.push IState.pushPending
  simp only
  split
  · exact ⟨[_], rfl, by intro t ht; simp at ht; subst ht; rfl, by simp, rfl⟩
  · refine ⟨[mkInlineTok "text" "" 0 s.pendingLevel (String.ofList s.pending) "" "", mkInlineTok ty tag 0 s.level c m i], by simp, ?_, by simp, rfl⟩
    intro t ht
    simp only [List.mem_cons, List.not_mem_nil, or_false] at ht
    rcases ht with rfl | rfl <;> rfl

theorem zeroD_push0 (s : IState) (ty tag c m i : String) (h : ZeroD s) : ZeroD (s.push ty tag 0 c m i) := by
  obtain ⟨extra, e1, e2, _, e4⟩ := push_tokens0 s ty tag c m i
  obtain ⟨h1, h2, h3⟩ := h
  refine ⟨?_, ?_, by rw [e4]; exact h3⟩
  · intro t ht
    rw [e1, List.mem_append] at ht
    rcases ht with ht | ht
    · exact h1 t ht
    · exact e2 t ht
  · intro d hd
    rw [e4] at hd
    obtain ⟨a, b, c'⟩ := h2 d hd
    refine ⟨a, b, ?_⟩
    rw [e1, List.length_append]; omega

open MdIt.C01

def RuleKeeps (Q : IState → Prop) (r : IRule) : Prop :=
  ∀ s silent m s', ICtx s → Q s → r s silent = .ok (m, s') → Q s'

theorem keeps_text : RuleKeeps ZeroD ruleText := by
  intro s silent m s' _ h hr
  unfold ruleText at hr
  split at hr
  · simp only [Except.ok.injEq, Prod.mk.injEq] at hr; obtain ⟨_, rfl⟩ := hr; exact h
  · simp only [Except.ok.injEq, Prod.mk.injEq] at hr; obtain ⟨_, rfl⟩ := hr; exact zeroD_eq s _ rfl rfl h

theorem keeps_newline : RuleKeeps ZeroD ruleNewline := by
  intro s silent m s' hc h hr
  have hin : s.pos < s.src.length := by have := hc.1; have := hc.2; omega
  unfold ruleNewline at hr
  rw [List.getElem?_eq_getElem hin] at hr
  simp only at hr
  split at hr
  · simp only [Except.ok.injEq, Prod.mk.injEq] at hr; obtain ⟨_, rfl⟩ := hr; exact h
  · simp only [Except.ok.injEq, Prod.mk.injEq] at hr
    obtain ⟨_, rfl⟩ := hr
    cases silent
    · simp only [Bool.false_eq_true, if_false]
      split
      · exact zeroD_eq _ _ rfl rfl (zeroD_push0 _ "hardbreak" "br" "" "" "" (zeroD_eq s { s with pending := s.pending.take (s.pending.length - trailingSpaces s.pending) } rfl rfl h))
      · split
        · exact zeroD_eq _ _ rfl rfl (zeroD_push0 _ "softbreak" "br" "" "" "" (zeroD_eq s { s with pending := s.pending.dropLast } rfl rfl h))
        · exact zeroD_eq _ _ rfl rfl (zeroD_push0 s "softbreak" "br" "" "" "" h)
    · exact zeroD_eq s _ rfl rfl h

theorem keeps_escape : RuleKeeps ZeroD ruleEscape := by
  intro s silent m s' hc h hr
  have hin : s.pos < s.src.length := by have := hc.1; have := hc.2; omega
  unfold ruleEscape at hr
  rw [List.getElem?_eq_getElem hin] at hr
  simp only at hr
  split at hr
  · simp only [Except.ok.injEq, Prod.mk.injEq] at hr; obtain ⟨_, rfl⟩ := hr; exact h
  · split at hr
    · simp only [Except.ok.injEq, Prod.mk.injEq] at hr; obtain ⟨_, rfl⟩ := hr; exact h
    · have hin1 : s.pos + 1 < s.src.length := by have := hc.2; omega
      rw [List.getElem?_eq_getElem hin1] at hr
      simp only at hr
      split at hr
      · simp only [Except.ok.injEq, Prod.mk.injEq] at hr
        obtain ⟨_, rfl⟩ := hr
        cases silent
        · simp only [Bool.false_eq_true, if_false]
          exact zeroD_eq _ _ rfl rfl (zeroD_push0 s "hardbreak" "br" "" "" "" h)
        · exact zeroD_eq s _ rfl rfl h
      · simp only [Except.ok.injEq, Prod.mk.injEq] at hr
        obtain ⟨_, rfl⟩ := hr
        cases silent
        · simp only [Bool.false_eq_true, if_false]
          exact zeroD_eq _ _ rfl rfl (zeroD_push0 s "text_special" "" _ _ "escape" h)
        · exact zeroD_eq s _ rfl rfl h

theorem keeps_backticks : RuleKeeps ZeroD ruleBackticks := by
  intro s silent m s' hc h hr
  have hin : s.pos < s.src.length := by have := hc.1; have := hc.2; omega
  unfold ruleBackticks at hr
  rw [List.getElem?_eq_getElem hin] at hr
  simp only at hr
  split at hr
  · simp only [Except.ok.injEq, Prod.mk.injEq] at hr; obtain ⟨_, rfl⟩ := hr; exact h
  · split at hr
    · simp only [Except.ok.injEq, Prod.mk.injEq] at hr; obtain ⟨_, rfl⟩ := hr; exact zeroD_eq s _ rfl rfl h
    · split at hr
      · simp only [Except.ok.injEq, Prod.mk.injEq] at hr
        obtain ⟨_, rfl⟩ := hr
        rename_i ms me bt hbt
        cases silent
        · simp only [Bool.false_eq_true, if_false]
          exact zeroD_eq _ _ rfl rfl (zeroD_push0 { s with backticks := _ } "code_inline" "code" _ _ "" (zeroD_eq s _ rfl rfl h))
        · exact zeroD_eq s _ rfl rfl h
      · simp only [Except.ok.injEq, Prod.mk.injEq] at hr; obtain ⟨_, rfl⟩ := hr; exact zeroD_eq s _ rfl rfl h

theorem zeroD_emphPush (marker : Char) (count : Nat) (o c : Bool) : ∀ (k : Nat) (s : IState), ZeroD s → ZeroD (emphPush marker count o c k s) := by
  intro k
  induction k with
  | zero => intro s h; exact h
  | succ n ih =>
    intro s h
    simp only [emphPush]
    apply ih
    have h1 := zeroD_push0 s "text" "" (String.singleton marker) "" "" h
    obtain ⟨extra, e1, _, e3, e4⟩ := push_tokens0 s "text" "" (String.singleton marker) "" ""
    generalize s.push "text" "" 0 (String.singleton marker) "" "" = s1 at h1 e1 e4
    obtain ⟨a1, a2, a3⟩ := h1
    have hlen : s.tokens.length < s1.tokens.length := by
      rw [e1, List.length_append]
      have : 0 < extra.length := List.length_pos_iff.mpr e3
      omega
    refine ⟨a1, ?_, ?_⟩
    · intro d hd
      show d.end_ = -1 ∧ 0 ≤ d.token ∧ d.token < (s1.tokens.length : Int)
      have hd' : d ∈ s1.delimiters ++ [{ marker := marker.toNat, length := count, token := (s1.tokens.length : Int) - 1, end_ := -1, open_ := o, close := c }] := hd
      rw [List.mem_append] at hd'
      rcases hd' with hd' | hd'
      · exact a2 d hd'
      · simp only [List.mem_singleton] at hd'; subst hd'
        exact ⟨rfl, by show (0 : Int) ≤ (s1.tokens.length : Int) - 1; omega, by show (s1.tokens.length : Int) - 1 < _; omega⟩
    · show List.Pairwise _ (s1.delimiters ++ [_])
      rw [List.pairwise_append]
      refine ⟨a3, by simp, ?_⟩
      intro a ha b hb
      simp only [List.mem_singleton] at hb; subst hb
      show a.token < (s1.tokens.length : Int) - 1
      rw [e4] at ha
      have := (h.2.1 a ha).2.2
      omega

theorem keeps_emphasis (cls : QCls) : RuleKeeps ZeroD (ruleEmphasis cls) := by
  intro s silent m s' hc h hr
  have hin : s.pos < s.src.length := by have := hc.1; have := hc.2; omega
  unfold ruleEmphasis at hr
  rw [List.getElem?_eq_getElem hin] at hr
  simp only at hr
  split at hr
  · simp only [Except.ok.injEq, Prod.mk.injEq] at hr; obtain ⟨_, rfl⟩ := hr; exact h
  · split at hr
    · simp only [Except.ok.injEq, Prod.mk.injEq] at hr; obtain ⟨_, rfl⟩ := hr; exact h
    · simp only [Except.ok.injEq, Prod.mk.injEq] at hr
      obtain ⟨_, rfl⟩ := hr
      exact zeroD_eq _ _ rfl rfl (zeroD_emphPush _ _ _ _ _ s h)

theorem runChain_keeps (Q : IState → Prop) (rules : List IRule) (hok : ∀ r ∈ rules, IRuleOK2 r) (hk : ∀ r ∈ rules, RuleKeeps Q r) :
    ∀ (s : IState) (m : Bool) (s' : IState), ICtx s → Q s → runChain rules s = .ok (m, s') → Q s' := by
  induction rules with
  | nil => intro s m s' _ h hr; simp only [runChain, Except.ok.injEq, Prod.mk.injEq] at hr; obtain ⟨_, rfl⟩ := hr; exact h
  | cons r rest ih =>
    intro s m s' hc h hr
    have hr0 := hok r (by simp)
    simp only [runChain] at hr
    cases hq : r s false with
    | error e => rw [hq] at hr; cases hr
    | ok v =>
      obtain ⟨m1, s1⟩ := v
      rw [hq] at hr
      have h1 := hk r (by simp) s false m1 s1 hc h hq
      cases m1 with
      | true => simp only [Except.ok.injEq, Prod.mk.injEq] at hr; obtain ⟨_, rfl⟩ := hr; exact h1
      | false =>
        simp only at hr
        have hf := hr0.frame _ _ _ hc hq
        have hpos := hr0.miss _ _ hc hq
        have hc' : ICtx s1 := by unfold ICtx at *; rw [hpos, hf.2.2, hf.1]; exact hc
        exact ih (fun q hq => hok q (by simp [hq])) (fun q hq => hk q (by simp [hq])) s1 m s' hc' h1 hr

theorem loop_keeps (Q : IState → Prop) (hstep : ∀ (s : IState) (c : Char), Q s → Q { s with pending := s.pending ++ [c], pos := s.pos + 1 })
    (rules : List IRule) (hok : ∀ r ∈ rules, IRuleOK2 r) (hk : ∀ r ∈ rules, RuleKeeps Q r) (mn : Int) :
    ∀ (fuel : Nat) (ok : Bool) (s s' : IState), s.posMax ≤ s.src.length → Q s →
      tokenizeLoop rules mn s.posMax fuel ok s = .ok s' → Q s' := by
  intro fuel
  induction fuel with
  | zero =>
    intro ok s s' _ h hr
    simp only [tokenizeLoop] at hr
    split at hr
    · cases hr
    · simp only [Except.ok.injEq] at hr; subst hr; exact h
  | succ n ih =>
    intro ok s s' hend h hr
    simp only [tokenizeLoop] at hr
    split at hr
    · rename_i hlt
      have hc : ICtx s := ⟨hlt, hend⟩
      by_cases hlv : s.level < mn
      · simp only [hlv, if_true] at hr
        obtain ⟨m, s1, hch, hsrc, _, hmax, _, hm⟩ := ichain_ok2 rules hok s hc
        rw [hch] at hr
        have h1 := runChain_keeps Q rules hok hk s m s1 hc h hch
        simp only at hr
        cases m with
        | true =>
          simp only [if_true] at hr
          split at hr
          · simp only [Except.ok.injEq] at hr; subst hr; exact h1
          · split at hr
            · cases hr
            · rw [← hmax] at hr
              exact ih true s1 s' (by rw [hsrc, hmax]; exact hend) h1 hr
        | false =>
          simp only [Bool.false_eq_true, if_false] at hr
          have hpos := hm rfl
          have hin : s1.pos < s1.src.length := by rw [hsrc, hpos]; omega
          rw [List.getElem?_eq_getElem hin] at hr
          simp only at hr
          rw [← hmax] at hr
          exact ih false { s1 with pending := s1.pending ++ [s1.src[s1.pos]], pos := s1.pos + 1 } s'
            (by show s1.posMax ≤ s1.src.length; rw [hsrc, hmax]; exact hend) (hstep s1 _ h1) hr
      · simp only [hlv, if_false] at hr
        cases ok with
        | true =>
          simp only [if_true] at hr
          split at hr
          · simp only [Except.ok.injEq] at hr; subst hr; exact h
          · simp only [Nat.le_refl, if_true] at hr; cases hr
        | false =>
          simp only [Bool.false_eq_true, if_false] at hr
          have hin : s.pos < s.src.length := by omega
          rw [List.getElem?_eq_getElem hin] at hr
          simp only at hr
          exact ih false { s with pending := s.pending ++ [s.src[s.pos]], pos := s.pos + 1 } s' hend (hstep s _ h) hr
    · simp only [Except.ok.injEq] at hr; subst hr; exact h

/-! ### `fragments_join` and the theorem -/

@[simp] theorem setLevel_nesting' (t : Tok) (l : Int) : (t.setLevel l).nesting = t.nesting := by cases t; rfl

theorem fragmentsJoin_balanced : ∀ (k : Nat) (level : Int) (ts : List Tok) (d : Int), ts.length ≤ k →
    (∀ t ∈ ts, t.type = "text" → t.nesting = 0) → balancedFrom d ts = true → balancedFrom d (fragmentsJoin level ts) = true := by
  intro k
  induction k with
  | zero =>
    intro level ts d hl _ hb
    have : ts = [] := List.eq_nil_of_length_eq_zero (by omega)
    subst this; simpa [fragmentsJoin] using hb
  | succ n ih =>
    intro level ts d hl ht hb
    match ts, hl, ht, hb with
    | [], _, _, hb => simpa [fragmentsJoin] using hb
    | [a], _, _, hb =>
      simp only [fragmentsJoin, balancedFrom, setLevel_nesting'] at hb ⊢; exact hb
    | a :: b :: rest, hl, ht, hb =>
      simp only [fragmentsJoin]
      split
      · rename_i hty
        simp only [Bool.and_eq_true, beq_iff_eq] at hty
        have ha : a.nesting = 0 := ht a (by simp) hty.1
        have hb0 : b.nesting = 0 := ht b (by simp) hty.2
        apply ih _ _ d (by simp at hl ⊢; omega)
        · intro t htm hx
          simp only [List.mem_cons] at htm
          rcases htm with rfl | htm
          · simp only [setContent_nesting]; exact hb0
          · exact ht t (by simp [htm]) hx
        · simp only [balancedFrom, ha, hb0, setContent_nesting, Bool.and_eq_true, decide_eq_true_eq] at hb ⊢
          obtain ⟨⟨_, h2⟩, ⟨_, _⟩, h5⟩ := hb
          refine ⟨⟨by decide, by omega⟩, ?_⟩
          have e : d + 0 + 0 = d + 0 := by omega
          rw [e] at h5; exact h5
      · rw [balancedFrom] at hb ⊢
        simp only [setLevel_nesting', Bool.and_eq_true, decide_eq_true_eq] at hb ⊢
        obtain ⟨⟨h1, h2⟩, h3⟩ := hb
        refine ⟨⟨h1, h2⟩, ?_⟩
        exact ih _ (b :: rest) _ (by simp at hl ⊢; omega) (fun t htm => ht t (by simp at htm ⊢; exact .inr htm)) h3

theorem pairwise_get {α} {R : α → α → Prop} {l : List α} (h : l.Pairwise R) (i j : Nat) (a b : α) (hi : l[i]? = some a) (hj : l[j]? = some b)
    (hij : i < j) : R a b := by
  rw [List.pairwise_iff_getElem] at h
  have h1 : i < l.length := by
    rcases Nat.lt_or_ge i l.length with h' | h'
    · exact h'
    · rw [List.getElem?_eq_none_iff.mpr h'] at hi; cases hi
  have h2 : j < l.length := by
    rcases Nat.lt_or_ge j l.length with h' | h'
    · exact h'
    · rw [List.getElem?_eq_none_iff.mpr h'] at hj; cases hj
  have := h i j h1 h2 hij
  rw [List.getElem?_eq_getElem h1] at hi; rw [List.getElem?_eq_getElem h2] at hj
  cases hi; cases hj; exact this

/-- the state after the tokenize loop satisfies what the post-processing relies on -/
theorem postHyp_of_zeroD (s : IState) (h : ZeroD s) : PostHyp (processDelims s.delimiters) s.tokens.length := by
  obtain ⟨_, h2, h3⟩ := h
  obtain ⟨hsh, hends, hinj, hnb⟩ := C02e.pairs_facts s.delimiters (fun d hd => (h2 d hd).1) (fun d hd => (h2 d hd).2.1)
  refine ⟨?_, ?_, ?_, hinj, hnb⟩
  · intro j d hd
    obtain ⟨d0, a1, _, a3, _, _⟩ := hsh.2 j d hd
    have := h2 d0 (List.mem_of_getElem? a1)
    rw [a3]; exact ⟨this.2.1, this.2.2⟩
  · intro j1 j2 d1 d2 hd1 hd2 hlt
    obtain ⟨p1, a1, _, a3, _, _⟩ := hsh.2 j1 d1 hd1
    obtain ⟨p2, b1, _, b3, _, _⟩ := hsh.2 j2 d2 hd2
    rw [a3, b3]
    exact pairwise_get h3 j1 j2 p1 p2 a1 b1 hlt
  · intro j d hd
    rcases hends j d hd with h' | h'
    · exact .inl h'
    · exact .inr ⟨h'.1, by rw [hsh.1]; exact h'.2⟩

theorem eminiChain_keeps (cls : QCls) (c : IMiniCfg) : ∀ r ∈ eminiChain cls c true, RuleKeeps ZeroD r := by
  intro r hr
  simp only [eminiChain, iminiChain, List.mem_append, List.mem_singleton, if_true] at hr
  rcases hr with (((hr | hr) | hr) | hr) | hr
  · subst hr; exact keeps_text
  · split at hr
    · simp at hr; subst hr; exact keeps_newline
    · cases hr
  · split at hr
    · simp at hr; subst hr; exact keeps_escape
    · cases hr
  · split at hr
    · simp at hr; subst hr; exact keeps_backticks
    · cases hr
  · subst hr; exact keeps_emphasis cls

/-- the post-processing starts from a state satisfying its invariant -/
theorem postInv_init (s2 : IState) (h2 : ZeroD s2) :
    PostInv (processDelims s2.delimiters) s2.tokens.length (((processDelims s2.delimiters).length : Int) - 1) s2.tokens := by
  have hD := postHyp_of_zeroD s2 h2
  refine ⟨rfl, balanced_zeros _ h2.1, fun t ht _ => h2.1 t ht, ?_, ?_⟩
  · intro j d _ hd
    have hb := hD.tokBound j d hd
    have hlt : d.token.toNat < s2.tokens.length := by omega
    exact ⟨s2.tokens[d.token.toNat], List.getElem?_eq_getElem hlt, h2.1 _ (List.getElem_mem hlt)⟩
  · intro j d de _ _ _ hde
    have hb := hD.tokBound _ de hde
    have hlt : de.token.toNat < s2.tokens.length := by omega
    exact ⟨s2.tokens[de.token.toNat], List.getElem?_eq_getElem hlt, h2.1 _ (List.getElem_mem hlt)⟩

/-- **C02.emini_wellformed** — for every source, every subset of the inline rules `newline`, `escape`, `backticks` with `emphasis`
enabled, every `maxNesting` and every classification of punctuation and white space: the inline stream — tokenize loop,
`balance_pairs`, emphasis post-processing, `fragments_join` — is levelled from 0, balanced, and `SyntaxTreeNode` builds -/
theorem emini_wellformed (cls : QCls) (c : IMiniCfg) (maxNesting : Int) (src : List Char) (ts : List Tok)
    (h : inlineParse (eminiChain cls c true) [balancePairs, emphasisPost] true maxNesting src = .ok ts) :
    levelsOK 0 ts ∧ balancedFrom 0 ts = true ∧ ∃ f, buildTree ts = .ok f := by
  unfold inlineParse tokenize at h
  cases hl : tokenizeLoop (eminiChain cls c true) maxNesting (IState.init src).posMax ((IState.init src).posMax - (IState.init src).pos + 1) false (IState.init src) with
  | error e => rw [hl] at h; cases h
  | ok s1 =>
    rw [hl] at h
    simp only [List.foldl_cons, List.foldl_nil, Except.ok.injEq, if_true] at h
    have h0 : ZeroD (IState.init src) := by
      refine ⟨by intro t ht; simp [IState.init] at ht, by intro d hd; simp [IState.init] at hd, by simp [IState.init]⟩
    have h1 : ZeroD s1 := loop_keeps ZeroD (fun s ch hq => zeroD_eq s _ rfl rfl hq) _ (eminiChain_ok cls c true) (eminiChain_keeps cls c) maxNesting _ false
      (IState.init src) s1 (Nat.le_refl _) h0 hl
    have h2 : ZeroD (if s1.pending.isEmpty then s1 else s1.pushPending) := by
      split
      · exact h1
      · exact zeroD_pushPending s1 h1
    generalize (if s1.pending.isEmpty then s1 else s1.pushPending) = s2 at h h2
    -- the post-processing
    have hD := postHyp_of_zeroD s2 h2
    have hinv := postInv_init s2 h2
    obtain ⟨_, hbal, htext⟩ := emphPost_inv (processDelims s2.delimiters) s2.tokens.length hD (processDelims s2.delimiters).length _ s2.tokens hinv
    have hts : ts = fragmentsJoin 0 (emphPostGo (processDelims s2.delimiters) (processDelims s2.delimiters).length
        (((processDelims s2.delimiters).length : Int) - 1) s2.tokens) := by
      rw [← h]; rfl
    have hb2 : balancedFrom 0 ts = true := by
      rw [hts]; exact fragmentsJoin_balanced _ 0 _ 0 (Nat.le_refl _) htext hbal
    exact ⟨by rw [hts]; exact fragmentsJoin_levels 0 _ htext, hb2, tree_of_balanced ts hb2⟩

/-! non-vacuity: nested and adjacent emphasis, a crossing attempt, strong, an unmatched run, a code span and an escape in between -/
def asciiCls : QCls :=
  { isPunct := fun c => (33 ≤ c && c ≤ 47) || (58 ≤ c && c ≤ 64) || (91 ≤ c && c ≤ 96) || (123 ≤ c && c ≤ 126)
    isWhite := fun c => c == 32 || c == 9 || c == 10 }

example : C01.itypesOf (inlineParse (C01.eminiChain asciiCls ⟨true, true, true⟩ true) [balancePairs, emphasisPost] true 20
      "*a **b** c* _d *e_ f* ***g*** `h*` \\* i**".toList)
    = some ["em_open", "text", "strong_open", "text", "strong_close", "text", "em_close", "text", "em_open", "text",
            "em_close", "text", "em_open", "text", "strong_open", "text", "strong_close", "text", "em_close", "text",
            "code_inline", "text", "text_special", "text"] := by
  decide +kernel

end MdIt.C02f
