import MdIt.Props.C01d
import MdIt.BlockMore
/-!
# C01 (continued) — the block sub-parser with `html_block` and `lheading` is total

`ruleOK_htmlBlock`, `ruleOK_lheading`: the two rules keep the block contract K1–K4 in the loop's call context (the `lheading` rule
leaves `parentType` changed on a miss — not a frame field, see O4 in DESIGN.md); `html_block` is inert as a terminator.  With the
container contracts of `C01c` / `C01d` (generic in their chains): **`m_total`** — for every source, every subset of `code`, `fence`,
`hr`, `heading`, `html_block`, `lheading`, either value of the `html` option and every `maxNesting`, the parse of the sub-parser
`code, fence, blockquote, hr, list, html_block, heading, lheading, paragraph` returns normally.
-/
namespace MdIt.C01

theorem here_getL' {P} {s : BState} {line endLine : Nat} (hc : CallCtx P s line endLine) : ∃ l, getL s line = .ok l := by
  obtain ⟨l, h1, _, _⟩ := hc.here
  exact ⟨l, getL_of_here h1⟩

theorem htmlScan_ok (endRe : Rx) (s : BState) (endLine : Nat) (hlen : endLine < s.lines.length) :
    ∀ (fuel next : Nat), endLine - next < fuel → next ≤ endLine →
      ∃ r, htmlScan endRe s endLine fuel next = .ok r ∧ next ≤ r ∧ r ≤ endLine := by
  intro fuel
  induction fuel with
  | zero => intro next h1; omega
  | succ n ih =>
    intro next hf hle
    simp only [htmlScan]
    split
    · rename_i hlt
      obtain ⟨l, hg, _⟩ := getL_ok s next (by omega)
      simp only [hg]
      split
      · exact ⟨next, rfl, Nat.le_refl _, hle⟩
      · split
        · split
          · exact ⟨next + 1, rfl, by omega, by omega⟩
          · exact ⟨next, rfl, Nat.le_refl _, hle⟩
        · obtain ⟨r, h1, h2, h3⟩ := ih (next + 1) (by omega) (by omega)
          exact ⟨r, h1, by omega, h3⟩
    · exact ⟨next, rfl, Nat.le_refl _, hle⟩

theorem html_shape (P) (codeOn htmlOn : Bool) : ∀ s line endLine, CallCtx P s line endLine →
    (ruleHtmlBlock codeOn htmlOn s line endLine false = .ok (false, s)) ∨
    (∃ next c, line + 1 ≤ next ∧ next ≤ endLine ∧ ruleHtmlBlock codeOn htmlOn s line endLine false = .ok (true,
      ({ s with line := next }).pushFull "html_block" "" 0 (some (line, next)) none c "" "")) := by
  intro s line endLine hc
  obtain ⟨l, hg⟩ := here_getL' hc
  have hlenE : endLine < s.lines.length := by have := hc.len; have := hc.le; omega
  simp only [ruleHtmlBlock, hg, Bool.false_eq_true, if_false]
  split
  · exact .inl rfl
  · split
    · exact .inl rfl
    · split
      · exact .inl rfl
      · split
        · exact .inl rfl
        · rename_i q _
          have hnext : ∃ next, (if q.2.1.search l.body = true then (Except.ok (line + 1) : Except PyErr Nat)
              else htmlScan q.2.1 s endLine (endLine - line + 1) (line + 1)) = .ok next ∧ line + 1 ≤ next ∧ next ≤ endLine := by
            split
            · exact ⟨line + 1, rfl, Nat.le_refl _, by have := hc.lt; omega⟩
            · exact htmlScan_ok _ s endLine hlenE _ _ (by omega) (by have := hc.lt; omega)
          obtain ⟨next, hn, h1, h2⟩ := hnext
          rw [hn]
          simp only
          obtain ⟨c, hcx⟩ := getLinesB_ok s line next s.blkIndent true (by omega)
          simp only [hcx]
          exact .inr ⟨next, _, h1, h2, rfl⟩

theorem ruleOK_htmlBlock (P) (codeOn htmlOn : Bool) : RuleOK P (ruleHtmlBlock codeOn htmlOn) := by
  have key := html_shape P codeOn htmlOn
  refine ⟨?_, ?_, ?_, ?_⟩
  · intro s line endLine hc
    rcases key s line endLine hc with h | ⟨a, b, _, _, h⟩ <;> exact ⟨_, _, h⟩
  · intro s line endLine s' hc h
    rcases key s line endLine hc with h' | ⟨a, b, h1, h2, h'⟩
    · rw [h'] at h; cases h
    · rw [h'] at h; cases h; simp; have := hc.le; omega
  · intro s line endLine s' hc h
    rcases key s line endLine hc with h' | ⟨a, b, h1, h2, h'⟩
    · rw [h'] at h; cases h; rfl
    · rw [h'] at h; cases h
  · intro s line endLine m s' hc h
    rcases key s line endLine hc with h' | ⟨a, b, h1, h2, h'⟩
    · rw [h'] at h; cases h; exact ⟨⟨rfl, rfl⟩, rfl, rfl, rfl⟩
    · rw [h'] at h; cases h; exact ⟨⟨rfl, rfl⟩, rfl, rfl, by rw [pushFull_level0]⟩

theorem htmlBlock_inert (codeOn htmlOn : Bool) : SilentInert (ruleHtmlBlock codeOn htmlOn) := by
  intro s line endLine hl
  obtain ⟨l, hg, _⟩ := getL_ok s line hl
  simp only [ruleHtmlBlock, hg, if_true]
  repeat' split
  all_goals first | exact ⟨_, rfl⟩ | simp_all

/-! ### `lheading` -/

theorem lheadScan_ok (ts : List BRule) (h : ∀ t ∈ ts, SilentInert t) (s : BState) (endLine : Nat) (hlen : endLine < s.lines.length) :
    ∀ (fuel next : Nat), endLine - next < fuel → next ≤ endLine →
      ∃ r o, lheadScan ts endLine fuel next s = .ok (r, o, s) ∧ next ≤ r ∧ r ≤ endLine ∧ (o.isSome = true → r < endLine) := by
  intro fuel
  induction fuel with
  | zero => intro next h1; omega
  | succ n ih =>
    intro next hf hle
    simp only [lheadScan]
    split
    · rename_i hlt
      obtain ⟨l, hg, _⟩ := getL_ok s next (by omega)
      simp only [hg]
      have hrec : ∃ r o, lheadScan ts endLine n (next + 1) s = .ok (r, o, s) ∧ next ≤ r ∧ r ≤ endLine ∧ (o.isSome = true → r < endLine) := by
        obtain ⟨r, o, h1, h2, h3, h4⟩ := ih (next + 1) (by omega) (by omega)
        exact ⟨r, o, h1, by omega, h3, h4⟩
      split
      · exact ⟨next, none, rfl, Nat.le_refl _, hle, by simp⟩
      · split
        · exact hrec
        · split
          · rename_i r _
            exact ⟨next, some r, rfl, Nat.le_refl _, hle, fun _ => hlt⟩
          · split
            · exact hrec
            · obtain ⟨b, hb⟩ := runTerminators_inert ts h s next endLine (by omega)
              simp only [hb]
              cases b with
              | true => exact ⟨next, none, rfl, Nat.le_refl _, hle, by simp⟩
              | false => exact hrec
    · exact ⟨next, none, rfl, Nat.le_refl _, hle, by simp⟩

theorem lheading_shape (P : BState → Nat → Prop) (codeOn : Bool) (terms : List BRule) (hin : ∀ t ∈ terms, SilentInert t) (ws : List Nat)
    (s : BState) (line endLine : Nat) (hc : CallCtx P s line endLine) :
    ruleLheading codeOn terms ws s line endLine false = .ok (false, s)
    ∨ ruleLheading codeOn terms ws s line endLine false = .ok (false, { s with parentType := "paragraph" })
    ∨ ∃ next tag mk c, line + 1 ≤ next ∧ next < endLine ∧ ruleLheading codeOn terms ws s line endLine false = .ok (true,
      { (((({ s with parentType := "paragraph", line := next + 1 }).pushFull "heading_open" tag 1 (some (line, next + 1)) none "" mk "").pushFull
          "inline" "" 0 (some (line, next)) (some []) c "" "").pushFull "heading_close" tag (-1) none none "" mk "") with
        parentType := s.parentType }) := by
  obtain ⟨l, hg⟩ := here_getL' hc
  have hlenE : endLine < s.lines.length := by have := hc.len; have := hc.le; omega
  simp only [ruleLheading, hg]
  split
  · exact .inl rfl
  · obtain ⟨r, o, h1, h2, h3, h4⟩ := lheadScan_ok terms hin { s with parentType := "paragraph" } endLine hlenE
      (endLine - line + 1) (line + 1) (by omega) (by have := hc.lt; omega)
    simp only [h1]
    cases o with
    | none => exact .inr (.inl rfl)
    | some ml =>
      obtain ⟨marker, level⟩ := ml
      simp only
      obtain ⟨c, hcx⟩ := getLinesB_ok { s with parentType := "paragraph" } line r s.blkIndent false (by simp; have := h4 rfl; omega)
      simp only [hcx]
      exact .inr (.inr ⟨r, _, _, _, h2, h4 rfl, rfl⟩)

theorem ruleOK_lheading (P : BState → Nat → Prop) (codeOn : Bool) (terms : List BRule) (hin : ∀ t ∈ terms, SilentInert t) (ws : List Nat) :
    RuleOK P (ruleLheading codeOn terms ws) := by
  have key := lheading_shape P codeOn terms hin ws
  refine ⟨?_, ?_, ?_, ?_⟩
  · intro s line endLine hc
    rcases key s line endLine hc with h | h | ⟨a, b, c, d, _, _, h⟩ <;> exact ⟨_, _, h⟩
  · intro s line endLine s' hc h
    rcases key s line endLine hc with h' | h' | ⟨a, b, c, d, h1, h2, h'⟩
    · rw [h'] at h; cases h
    · rw [h'] at h; cases h
    · rw [h'] at h; cases h; simp; have := hc.le; omega
  · intro s line endLine s' hc h
    rcases key s line endLine hc with h' | h' | ⟨a, b, c, d, h1, h2, h'⟩
    · rw [h'] at h; cases h; rfl
    · rw [h'] at h; cases h; rfl
    · rw [h'] at h; cases h
  · intro s line endLine m s' hc h
    rcases key s line endLine hc with h' | h' | ⟨a, b, c, d, h1, h2, h'⟩
    · rw [h'] at h; cases h; exact ⟨⟨rfl, rfl⟩, rfl, rfl, rfl⟩
    · rw [h'] at h; cases h; exact ⟨⟨rfl, rfl⟩, rfl, rfl, rfl⟩
    · rw [h'] at h; cases h
      refine ⟨⟨rfl, rfl⟩, rfl, rfl, ?_⟩
      simp [BState.pushFull]

/-! ### the chains -/

theorem mListTerms_inert (c : MCfg) (mn : Int) : ∀ t ∈ mListTerms c mn, SilentInert t := lListTerms_inert c.toMiniCfg mn

theorem mTerminators_inert (c : MCfg) (ws : List Nat) (mn : Int) : ∀ t ∈ mTerminators c ws mn, SilentInert t := by
  intro t ht
  simp only [mTerminators, List.mem_append, List.mem_singleton] at ht
  rcases ht with ((((ht | ht) | ht) | ht) | ht) | ht
  · split at ht
    · simp at ht; subst ht; exact fence_inert _
    · cases ht
  · subst ht; exact quote_inert _ _ _ _
  · split at ht
    · simp at ht; subst ht; exact hr_inert _
    · cases ht
  · subst ht; exact list_inert _ _ _ _
  · split at ht
    · simp at ht; subst ht; exact htmlBlock_inert _ _
    · cases ht
  · split at ht
    · simp at ht; subst ht; exact heading_inert _ _
    · cases ht

/-- the chains with nine rules: every rule satisfies its contract at its depth; nested runs are total, framed, bounded -/
theorem mChain_ok (c : MCfg) (ws : List Nat) (mn : Int) : ∀ d : Nat,
    (∀ r ∈ mChain c ws mn d, RuleOK (Lv mn d) r) ∧ InnerOK mn d (mChain c ws mn d) := by
  intro d
  induction d with
  | zero =>
    refine ⟨fun r hr => by simp [mChain] at hr, ?_⟩
    intro s startLine endLine hlen hend hlv
    unfold Lv at hlv
    exact block_cut [] mn endLine _ startLine false s hlen hend (by simp at hlv; omega) (by omega)
  | succ d ih =>
    have hterm := mTerminators_inert c ws mn
    have hlterm := mListTerms_inert c mn
    have hrules : ∀ r ∈ mChain c ws mn (d + 1), RuleOK (Lv mn (d + 1)) r := by
      intro r hr
      simp only [mChain, List.mem_append, List.mem_singleton] at hr
      rcases hr with (((((((hr | hr) | hr) | hr) | hr) | hr) | hr) | hr) | hr
      · split at hr
        · simp at hr; subst hr; exact ruleOK_code _ _
        · cases hr
      · split at hr
        · simp at hr; subst hr; exact ruleOK_fence _ _
        · cases hr
      · subst hr; exact ruleOK_blockquote mn d c.code _ hterm _ ih.2
      · split at hr
        · simp at hr; subst hr; exact ruleOK_hr _ _
        · cases hr
      · subst hr; exact ruleOK_list mn d c.code _ hlterm _ ih.2
      · split at hr
        · simp at hr; subst hr; exact ruleOK_htmlBlock _ _ _
        · cases hr
      · split at hr
        · simp at hr; subst hr; exact ruleOK_heading _ _ _
        · cases hr
      · split at hr
        · simp at hr; subst hr; exact ruleOK_lheading _ _ _ hterm ws
        · cases hr
      · subst hr; exact ruleOK_paragraph _ _ hterm ws
    refine ⟨hrules, ?_⟩
    intro s startLine endLine hlen hend hlv
    have hlast : ∃ r ∈ mChain c ws mn (d + 1), AlwaysMatches (Lv mn (d + 1)) r :=
      ⟨ruleParagraph (mTerminators c ws mn) ws, by simp [mChain], paragraph_always _ _ hterm ws⟩
    exact block_total_lines (Lv mn (d + 1)) (lv_closed mn (d + 1)) _ hrules hlast mn endLine _ startLine false s hlen hend hlv (by omega)

/-- **C01.m_total** — nine of the eleven block rules, containers nested in each other to any depth: for every source, rule subset,
`html` option, white-space table and `maxNesting`, the modelled parse returns a token list -/
theorem m_total (c : MCfg) (ws : List Nat) (maxNesting : Int) (src : List Char) :
    ∃ ts, mParse c ws maxNesting src = .ok ts := by
  unfold mParse
  simp only
  split
  · exact ⟨[], rfl⟩
  · obtain ⟨s', h, _⟩ := (mChain_ok c ws maxNesting (maxNesting.toNat + 1)).2 (initBState (normalize src)) 0
      (initBState (normalize src)).lineMax (initBState_len _) (Nat.le_refl _)
      (by unfold Lv; show maxNesting + 1 ≤ (0 : Int) + ((maxNesting.toNat + 1 : Nat) : Int); omega)
    rw [h]; exact ⟨_, rfl⟩

/-! non-vacuity: a setext heading, an HTML block ended by a blank line, one with an end condition, inside containers -/
example : typesOf (mParse ⟨⟨true, true, true, true⟩, true, true, true⟩ [32, 9, 10] 100
      "title\n===\n\n<div>\nx\n\n> <!-- c\n> -->\n- a\n  ---\n".toList)
    = some ["heading_open", "inline", "heading_close", "html_block", "blockquote_open", "html_block", "blockquote_close",
            "bullet_list_open", "list_item_open", "heading_open", "inline", "heading_close", "list_item_close", "bullet_list_close"] := by
  decide +kernel

end MdIt.C01
