import MdIt.Props.C08
import MdIt.Props.C02b
/-!
# C08 (continued) — the verbatim tokens of the modelled sub-parser *are* the `getLines` cuts of the
source lines their maps point to, and the recorded markup is what the marker scan read

`getLinesB_spec` turns `getLines` into the concatenation of per-line cuts (`cutOf`); `cutOf_spec`
(from `C08.cutLine_spec`) says each cut is the line's characters with only leading blanks removed and
at most three pad spaces after a partially consumed tab.  `mini_verbatim`: for every source, rule
subset and `maxNesting`, every `code_block`, `fence` and `hr` token of the modelled parse satisfies
`VerbTok` with respect to the line tables of the (normalised) source.
-/
namespace MdIt.C08
open MdIt.C01 MdIt.C02

/-- what `getLines(…, end, …, keepLastLF)` reads of line `i` -/
def lineChars (s : BState) (end_ : Nat) (keep : Bool) (i : Nat) : List Char :=
  match s.lines[i]? with
  | some l => l.text ++ (if (decide (i + 1 < end_) || keep) && l.hasLF then ['\n'] else [])
  | none => []

/-- the piece of `getLines`' result that comes from line `i` -/
def cutOf (s : BState) (end_ : Nat) (keep : Bool) (indent : Int) (i : Nat) : List Char :=
  match s.lines[i]? with
  | some l => cutLineI (lineChars s end_ keep i) l.tShift l.bs indent
  | none => []

theorem getLinesGo_spec (s : BState) (end_ : Nat) (indent : Int) (keep : Bool) :
    ∀ (n line : Nat) (acc : List Char), line + n ≤ s.lines.length →
      getLinesGo s end_ indent keep n line acc = .ok (acc ++ ((List.range' line n).map (cutOf s end_ keep indent)).flatten) := by
  intro n
  induction n with
  | zero => intro line acc _; simp [getLinesGo]
  | succ k ih =>
    intro line acc h
    obtain ⟨l, hl, hl'⟩ := getL_ok s line (by omega)
    simp only [getLinesGo, hl]
    rw [ih (line + 1) _ (by omega)]
    simp only [List.range'_succ, List.map_cons, List.flatten_cons, List.append_assoc]
    congr 2
    simp [cutOf, lineChars, hl']

theorem getLinesB_spec (s : BState) (b e : Nat) (indent : Int) (keep : Bool) (h : e ≤ s.lines.length) :
    getLinesB s b e indent keep = .ok ((List.range' b (e - b)).map (cutOf s e keep indent)).flatten := by
  unfold getLinesB
  by_cases hbe : b ≤ e
  · rw [getLinesGo_spec s e indent keep (e - b) b [] (by omega)]; simp
  · have : e - b = 0 := by omega
    rw [this]; simp [getLinesGo]

/-- each piece is the line (with its line feed, if read) minus leading blanks, plus at most 3 pad spaces -/
theorem cutOf_spec (s : BState) (end_ : Nat) (keep : Bool) (indent : Int) (hi : 0 ≤ indent) (i : Nat) (l : BLine)
    (hl : s.lines[i]? = some l) :
    ∃ removed rest pad, lineChars s end_ keep i = removed ++ rest ∧ cutOf s end_ keep indent i = pad ++ rest
      ∧ (∀ k (h : k < removed.length), isBlankCh removed[k] ∨ k < l.tShift)
      ∧ (∃ n, pad = List.replicate n ' ' ∧ n ≤ 3 ∧ (0 < n → removed.getLast? = some '\t')) := by
  have : cutOf s end_ keep indent i = cutLine (lineChars s end_ keep i) l.tShift l.bs indent.toNat := by
    simp only [cutOf, hl, cutLineI]
    have : ¬ indent < 0 := by omega
    simp [this]
  rw [this]
  exact cutLine_spec _ _ _ _

/-- what the verbatim tokens hold, relative to the line tables of `s` -/
def VerbTok (s : BState) (t : Tok) : Prop :=
  (t.type = "code_block" → ∃ a b, t.map = some (a, b) ∧
      t.content.toList = ((List.range' a (b - a)).map (cutOf s b false (4 + s.blkIndent))).flatten ++ ['\n'])
  ∧ (t.type = "fence" → ∃ a b e l, t.map = some (a, b) ∧ (b = e ∨ b = e + 1) ∧ s.lines[a]? = some l ∧
      t.content.toList = ((List.range' (a + 1) (e - (a + 1))).map (cutOf s e true l.sCount)).flatten ∧
      t.markup.toList ++ t.info.toList = l.body ∧ (∃ m n, t.markup.toList = List.replicate n m ∧ 3 ≤ n))
  ∧ (t.type = "hr" → ∃ a l, t.map = some (a, a + 1) ∧ s.lines[a]? = some l ∧ hrMarkup l.body = some t.markup.toList)

def VerbSeg : BState → List Tok → Prop := fun s seg => ∀ t ∈ seg, VerbTok s t

theorem verbTok_frame {s s' : BState} (hf : s.FrameEq s') (t : Tok) (h : VerbTok s t) : VerbTok s' t := by
  unfold VerbTok cutOf lineChars at *
  rw [hf.1.1, hf.2.2.1]; exact h

theorem verbSeg_closed : FrameClosedS VerbSeg := fun _ _ _ hf h t ht => verbTok_frame hf t (h t ht)

private theorem takeWhile_replicate (m : Char) (l : List Char) :
    l.takeWhile (· == m) = List.replicate (l.takeWhile (· == m)).length m := by
  induction l with
  | nil => rfl
  | cons c cs ih =>
    simp only [List.takeWhile]
    split
    · rename_i h
      have : c = m := by simpa using h
      subst this
      simp only [List.length_cons, List.replicate_succ]
      rw [← ih]
    · rfl

private theorem takeWhile_append_drop_len (p : Char → Bool) (l : List Char) :
    l.takeWhile p ++ l.drop (l.takeWhile p).length = l := by
  induction l with
  | nil => rfl
  | cons c cs ih =>
    simp only [List.takeWhile]
    split
    · simp [ih]
    · simp

private theorem other_types (s : BState) (t : Tok) (h1 : t.type ≠ "code_block") (h2 : t.type ≠ "fence") (h3 : t.type ≠ "hr") :
    VerbTok s t := ⟨fun h => absurd h h1, fun h => absurd h h2, fun h => absurd h h3⟩

theorem verbOK_hr (P) (codeOn : Bool) : SegOK P VerbSeg (ruleHr codeOn) := by
  refine ⟨?_, ?_⟩
  · intro s line endLine s' hc h
    obtain ⟨l, hl, _, _⟩ := hc.here
    have hg := getL_of_here hl
    simp only [ruleHr, hg, Bool.false_eq_true, if_false] at h
    split at h
    · cases h
    · split at h
      · cases h
      · rename_i mk hmk
        cases h
        refine ⟨[_], pushFull_tokens _ _ _ _ _ _ _ _ _, ?_⟩
        intro t ht; simp at ht; subst ht
        refine ⟨fun h => by simp [pushedTok, Tok.type] at h, fun h => by simp [pushedTok, Tok.type] at h, fun _ => ⟨line, l, rfl, hl, ?_⟩⟩
        simp [pushedTok, Tok.markup, hmk]
  · intro s line endLine s' hc h
    rcases hr_shape P codeOn s line endLine hc with h' | ⟨mk, h'⟩
    · rw [h'] at h; cases h; rfl
    · rw [h'] at h; cases h

theorem verbOK_code (P) (codeOn : Bool) : SegOK P VerbSeg (ruleCode codeOn) := by
  refine ⟨?_, ?_⟩
  · intro s line endLine s' hc h
    obtain ⟨l, hl, _, _⟩ := hc.here
    have hg := getL_of_here hl
    simp only [ruleCode, hg] at h
    split at h
    · cases h
    · obtain ⟨last, h1, h2, h3⟩ := codeScan_ok codeOn s endLine (by have := hc.len; have := hc.le; omega)
        (endLine - line + 1) (line + 1) (line + 1) (by omega) (by have := hc.lt; omega) (Nat.le_refl _)
      simp only [h1] at h
      rw [getLinesB_spec s line last (4 + s.blkIndent) false (by have := hc.len; have := hc.le; omega)] at h
      simp only at h
      cases h
      refine ⟨[_], pushFull_tokens _ _ _ _ _ _ _ _ _, ?_⟩
      intro t ht; simp at ht; subst ht
      refine ⟨fun _ => ⟨line, last, rfl, ?_⟩, fun h => by simp [pushedTok, Tok.type] at h, fun h => by simp [pushedTok, Tok.type] at h⟩
      simp [pushedTok, Tok.content]
  · intro s line endLine s' hc h
    rcases code_shape P codeOn s line endLine hc with h' | ⟨last, c, h1, h2, h'⟩
    · rw [h'] at h; cases h; rfl
    · rw [h'] at h; cases h

theorem verbOK_fence (P) (codeOn : Bool) : SegOK P VerbSeg (ruleFence codeOn) := by
  refine ⟨?_, ?_⟩
  · intro s line endLine s' hc h
    obtain ⟨l, hl, _, _⟩ := hc.here
    have hg := getL_of_here hl
    have hlenE : endLine < s.lines.length := by have := hc.len; have := hc.le; omega
    simp only [ruleFence, hg] at h
    split at h
    · cases h
    · split at h
      · cases h
      · split at h
        · cases h
        · split at h
          · cases h
          · split at h
            · cases h
            · split at h
              · cases h
              · rename_i marker rest hbody _ hlen3 _
                simp only [Bool.false_eq_true, if_false] at h
                obtain ⟨next, b, h1, h2, h3, h4⟩ := fenceScan_ok codeOn s endLine marker
                  (List.takeWhile (fun x => x == marker) l.body).length hlenE (endLine - line + 1) line (by omega) hc.lt
                simp only [h1] at h
                rw [getLinesB_spec s (line + 1) next l.sCount true (by omega)] at h
                simp only at h
                cases h
                refine ⟨[_], pushFull_tokens _ _ _ _ _ _ _ _ _, ?_⟩
                intro t ht; simp at ht; subst ht
                refine ⟨fun h => by simp [pushedTok, Tok.type] at h, fun _ => ⟨line, next + (if b = true then 1 else 0), next, l, rfl, ?_, hl, ?_, ?_, ?_⟩, fun h => by simp [pushedTok, Tok.type] at h⟩
                · cases b <;> simp
                · simp [pushedTok, Tok.content]
                · simp only [pushedTok, Tok.markup, Tok.info, String.toList_ofList]
                  rw [← takeWhile_replicate]
                  exact takeWhile_append_drop_len _ _
                · refine ⟨marker, (List.takeWhile (fun x => x == marker) l.body).length, by simp [pushedTok, Tok.markup], ?_⟩
                  omega
  · intro s line endLine s' hc h
    rcases fence_shape P codeOn s line endLine hc with h' | ⟨l', c, mk, info, h1, h2, h'⟩
    · rw [h'] at h; cases h; rfl
    · rw [h'] at h; cases h

theorem verbOK_heading (P) (codeOn : Bool) (ws : List Nat) : SegOK P VerbSeg (ruleHeading codeOn ws) := by
  refine ⟨?_, ?_⟩
  · intro s line endLine s' hc h
    rcases heading_shape P codeOn ws s line endLine hc with h' | ⟨tag, mk, c, h'⟩
    · rw [h'] at h; cases h
    · rw [h'] at h; cases h
      refine ⟨?seg, ?heq, ?hv⟩
      case heq => rw [pushFull_tokens, pushFull_tokens, pushFull_tokens, List.append_assoc, List.append_assoc]
      case hv =>
        intro t ht
        simp only [List.mem_append, List.mem_singleton] at ht
        rcases ht with rfl | rfl | rfl <;> exact other_types _ _ (by simp [pushedTok, Tok.type]) (by simp [pushedTok, Tok.type]) (by simp [pushedTok, Tok.type])
  · intro s line endLine s' hc h
    rcases heading_shape P codeOn ws s line endLine hc with h' | ⟨tag, mk, c, h'⟩
    · rw [h'] at h; cases h; rfl
    · rw [h'] at h; cases h

theorem verbOK_paragraph (P : BState → Nat → Prop) (terms : List BRule) (hin : ∀ t ∈ terms, SilentInert t) (ws : List Nat) :
    SegOK P VerbSeg (ruleParagraph terms ws) := by
  refine ⟨?_, ?_⟩
  · intro s line endLine s' hc h
    obtain ⟨n, c, h1, h2, h'⟩ := paragraph_shape P terms hin ws s line endLine hc
    rw [h'] at h; cases h
    refine ⟨?seg, ?heq, ?hv⟩
    case heq =>
      show (BState.pushFull _ _ _ _ _ _ _ _ _).tokens = _
      rw [pushFull_tokens, pushFull_tokens, pushFull_tokens, List.append_assoc, List.append_assoc]
    case hv =>
      intro t ht
      simp only [List.mem_append, List.mem_singleton] at ht
      rcases ht with rfl | rfl | rfl <;> exact other_types _ _ (by simp [pushedTok, Tok.type]) (by simp [pushedTok, Tok.type]) (by simp [pushedTok, Tok.type])
  · intro s line endLine s' hc h
    obtain ⟨n, c, h1, h2, h'⟩ := paragraph_shape P terms hin ws s line endLine hc
    rw [h'] at h; cases h

theorem miniChain_verbOK (c : MiniCfg) (ws : List Nat) : ∀ r ∈ miniChain c ws, SegOK TopCtx VerbSeg r := by
  intro r hr
  simp only [miniChain, List.mem_append, List.mem_singleton] at hr
  rcases hr with (((hr | hr) | hr) | hr) | hr
  · split at hr
    · simp at hr; subst hr; exact verbOK_code _ _
    · cases hr
  · split at hr
    · simp at hr; subst hr; exact verbOK_fence _ _
    · cases hr
  · split at hr
    · simp at hr; subst hr; exact verbOK_hr _ _
    · cases hr
  · split at hr
    · simp at hr; subst hr; exact verbOK_heading _ _ _
    · cases hr
  · subst hr; exact verbOK_paragraph _ _ (miniTerminators_inert c ws) ws

/-- **C08.mini_verbatim** — every code block, fence and thematic break of the modelled parse holds exactly the
`getLines` cuts / marker scan of the source lines its map points to (line tables of the normalised source, block
indent 0) -/
theorem mini_verbatim (c : MiniCfg) (ws : List Nat) (maxNesting : Int) (src : List Char) (ts : List Tok)
    (h : miniParse c ws maxNesting src = .ok ts) : ∀ t ∈ ts, VerbTok (initBState (normalize src)) t := by
  unfold miniParse at h
  simp only at h
  split at h
  · cases h; intro t ht; cases ht
  · split at h
    · rename_i s' hs'
      cases h
      obtain ⟨segs, hn, hS⟩ := loop_segs TopCtx topCtx_closed VerbSeg verbSeg_closed (miniChain c ws) (miniChain_ok c ws) (miniChain_verbOK c ws)
        maxNesting (initBState (normalize src)).lineMax _ 0 false (initBState (normalize src)) s' (initBState_len _) (Nat.le_refl _) rfl hs'
      have : (initBState (normalize src)).tokens = [] := rfl
      rw [this, List.nil_append] at hn
      rw [hn]
      intro t ht
      rw [List.mem_flatten] at ht
      obtain ⟨g, hg, htg⟩ := ht
      exact hS g hg t htg
    · cases h

end MdIt.C08
