import MdIt.Props.C16c
/-!
# C16 (continued) — first definition wins, end to end for the block parse

An invariant of the table the parse fills (`env["references"]` entries added by this parse): labels are pairwise distinct and none of
them is a label the seeded env already resolves — a later definition of a known label goes to `duplicate_refs` and never replaces or
shadows an entry.  Carried through the ten-rule chain by the generic `keeps_*` lemmas of `C16c` (only `reference` writes the tables).
-/
namespace MdIt.C16
open MdIt.C01

/-- generic version of the chain-level invariant: any predicate on the two tables that the `reference` rule keeps -/
theorem mTerminators_keepsJ {J : BState → Prop} (hJ : OnTables J) (c : MCfg) (ws : List Nat) (mn : Int) : ∀ t ∈ mTerminators c ws mn, Keeps J t := by
  have nil : ∀ r ∈ ([] : List BRule), Keeps J r := fun r hr => by cases hr
  intro t ht
  simp only [mTerminators, List.mem_append, List.mem_singleton] at ht
  rcases ht with ((((ht | ht) | ht) | ht) | ht) | ht
  · split at ht
    · simp at ht; subst ht; exact keeps_of_untouched hJ (untouched_fence _)
    · cases ht
  · subst ht; exact keeps_blockquote hJ _ nil nil mn
  · split at ht
    · simp at ht; subst ht; exact keeps_of_untouched hJ (untouched_hr _)
    · cases ht
  · subst ht; exact keeps_list hJ _ nil nil mn
  · split at ht
    · simp at ht; subst ht; exact keeps_of_untouched hJ (untouched_htmlBlock _ _)
    · cases ht
  · split at ht
    · simp at ht; subst ht; exact keeps_of_untouched hJ (untouched_heading _ _)
    · cases ht

theorem mListTerms_keepsJ {J : BState → Prop} (hJ : OnTables J) (c : MCfg) (mn : Int) : ∀ t ∈ mListTerms c mn, Keeps J t := by
  have nil : ∀ r ∈ ([] : List BRule), Keeps J r := fun r hr => by cases hr
  intro t ht
  simp only [mListTerms, lListTerms, List.mem_append, List.mem_singleton] at ht
  rcases ht with (ht | ht) | ht
  · split at ht
    · simp at ht; subst ht; exact keeps_of_untouched hJ (untouched_fence _)
    · cases ht
  · subst ht; exact keeps_blockquote hJ _ nil nil mn
  · split at ht
    · simp at ht; subst ht; exact keeps_of_untouched hJ (untouched_hr _)
    · cases ht

theorem rChain_keepsJ {J : BState → Prop} (hJ : OnTables J) (ext : IExt) (lx : LExt) (c : RCfg) (ws : List Nat) (mn : Int)
    (hRef : ∀ terms : List BRule, (∀ t ∈ terms, Keeps J t) → Keeps J (ruleReference ext lx c.inlineDefs c.code terms ws)) :
    ∀ d : Nat, ∀ r ∈ rChain ext lx c ws mn d, Keeps J r := by
  have hT := mTerminators_keepsJ hJ c.toMCfg ws mn
  have hLT := mListTerms_keepsJ hJ c.toMCfg mn
  intro d
  induction d with
  | zero => intro r hr; simp [rChain] at hr
  | succ d ih =>
    intro r hr
    simp only [rChain, List.mem_append, List.mem_singleton] at hr
    rcases hr with ((((((((hr | hr) | hr) | hr) | hr) | hr) | hr) | hr) | hr) | hr
    · split at hr
      · simp at hr; subst hr; exact keeps_of_untouched hJ (untouched_code _)
      · cases hr
    · split at hr
      · simp at hr; subst hr; exact keeps_of_untouched hJ (untouched_fence _)
      · cases hr
    · subst hr; exact keeps_blockquote hJ _ hT ih mn
    · split at hr
      · simp at hr; subst hr; exact keeps_of_untouched hJ (untouched_hr _)
      · cases hr
    · subst hr; exact keeps_list hJ _ hLT ih mn
    · split at hr
      · simp at hr; subst hr; exact hRef _ hT
      · cases hr
    · split at hr
      · simp at hr; subst hr; exact keeps_of_untouched hJ (untouched_htmlBlock _ _)
      · cases hr
    · split at hr
      · simp at hr; subst hr; exact keeps_of_untouched hJ (untouched_heading _ _)
      · cases hr
    · split at hr
      · simp at hr; subst hr; exact keeps_lheading hJ _ hT ws
      · cases hr
    · subst hr; exact keeps_paragraph hJ hT ws

/-- the labels recorded are pairwise distinct, and none is resolved by the seeded env -/
def FirstWins (lx : LExt) (s : BState) : Prop :=
  (s.refs.map (·.1)).Nodup ∧ ∀ e ∈ s.refs, ¬ ((lx.hasRefs && (lx.refs e.1).isSome) = true)

theorem firstWins_onTables (lx : LExt) : OnTables (FirstWins lx) := by
  intro s s' h hv
  unfold RD at h
  simp only [Prod.mk.injEq] at h
  unfold FirstWins
  rw [h.1]
  exact hv

theorem lookupRef_none_not_mem (refs : List (List Char × List Char × List Char)) (k : List Char) (h : (lookupRef refs k).isSome = false) :
    k ∉ refs.map (·.1) := by
  intro hm
  rw [List.mem_map] at hm
  obtain ⟨e, he, hk⟩ := hm
  unfold lookupRef at h
  cases hf : refs.find? (·.1 == k) with
  | none =>
    rw [List.find?_eq_none] at hf
    exact hf e he (by simp [hk])
  | some x => rw [hf] at h; simp at h

theorem refHit_firstWins (lx : LExt) (inlineDefs : Bool) (s s1 : BState) (line : Nat) (d : RefParsed) (h1 : FirstWins lx s1) :
    FirstWins lx (refHit lx inlineDefs s s1 line d) := by
  unfold refHit
  simp only
  split
  · exact h1
  · rename_i hknown
    have hk : ((lx.hasRefs && (lx.refs d.label).isSome) || (lookupRef s1.refs d.label).isSome) = false := by
      cases hq : ((lx.hasRefs && (lx.refs d.label).isSome) || (lookupRef s1.refs d.label).isSome) with
      | false => rfl
      | true => exact absurd hq hknown
    rw [Bool.or_eq_false_iff] at hk
    refine ⟨?_, ?_⟩
    · show ((s1.refs ++ [(d.label, d.href, d.title)]).map (·.1)).Nodup
      rw [List.map_append, List.nodup_append]
      refine ⟨h1.1, by simp, ?_⟩
      intro a ha b hb
      simp only [List.map_cons, List.map_nil, List.mem_singleton] at hb
      subst hb
      intro he; subst he
      exact lookupRef_none_not_mem s1.refs _ hk.2 ha
    · intro e he
      show ¬ _
      have he' : e ∈ s1.refs ++ [(d.label, d.href, d.title)] := he
      rcases List.mem_append.1 he' with he' | he'
      · exact h1.2 e he'
      · simp only [List.mem_singleton] at he'; subst he'
        simp only [hk.1, Bool.false_eq_true, not_false_eq_true]

theorem keeps_reference_firstWins (ext : IExt) (lx : LExt) (inlineDefs codeOn : Bool) (terms : List BRule)
    (hts : ∀ t ∈ terms, Keeps (FirstWins lx) t) (ws : List Nat) : Keeps (FirstWins lx) (ruleReference ext lx inlineDefs codeOn terms ws) := by
  have hJ := firstWins_onTables lx
  intro s line endLine silent m s' hj hr
  refine (?_ : OKW (·.2) (FirstWins lx) (ruleReference ext lx inlineDefs codeOn terms ws s line endLine silent)) (m, s') hr
  simp only [ruleReference]
  split
  · exact okw_error _ _ _
  · split
    · exact okw_ok _ _ _ hj
    · split
      · split
        · exact okw_ok _ _ _ hj
        · exact okw_error _ _ _
      · split
        · exact okw_ok _ _ _ hj
        · split
          · exact okw_ok _ _ _ hj
          · split
            · exact okw_error _ _ _
            · rename_i next s1 heq
              have h1 : FirstWins lx s1 := paraScan_keeps hJ hts _ _ _ { s with parentType := "reference" } (hJ s _ rfl hj) (next, s1) heq
              split
              · exact okw_error _ _ _
              · split
                · exact okw_ok _ _ _ h1
                · rename_i d hd
                  split
                  · exact okw_ok _ _ _ h1
                  · have := refHit_firstWins lx inlineDefs s s1 line d h1
                    refine okw_ok _ _ _ ?_
                    simpa [refHit] using this

/-- **C16.rParse_first_wins** — the table a parse of the ten-rule chain fills holds pairwise distinct labels, none of them already
resolved by the env the parse was started with: the first definition of a label wins (later ones are recorded as duplicates), and a
seeded entry is never shadowed -/
theorem rParse_first_wins (ext : IExt) (lx : LExt) (c : RCfg) (ws : List Nat) (mn : Int) (src : List Char) (s : BState)
    (h : rParse ext lx c ws mn src = .ok s) : FirstWins lx s := by
  have h0 : FirstWins lx (initBState (normalize src)) := by
    constructor
    · simp [initBState]
    · intro e he; exact absurd he (by simp [initBState])
  unfold rParse at h
  simp only at h
  split at h
  · cases h; exact h0
  · exact blockTokenize_keeps (firstWins_onTables lx)
      (rChain_keepsJ (firstWins_onTables lx) ext lx c ws mn (fun terms hts => keeps_reference_firstWins ext lx _ _ terms hts ws) _) mn _ _ _ h0 s h

end MdIt.C16
