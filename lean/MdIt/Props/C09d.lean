import MdIt.BlockTable
import MdIt.Str
/-!
# C09 (continued) — the table-cell context: what `escapedSplit` does to escaped text

A table row is cut into cells *before* the inline parser sees them; `\|` is the one escape the cutter interprets itself (it drops the
backslash and keeps the pipe in the cell).

* **`escSplit_escapeAll`** — a text written with a backslash before each ASCII punctuation character (`escapeAll t`, the property's
  transformation) is never cut, whatever it contains: the row splitter returns exactly one cell, and that cell is the escaped text with
  the backslashes in front of pipes removed (`escCellOf t`) — every other escape reaches the inline parser as written, where
  `C09.inline_literal` applies; a bare `|` is an ordinary character for every inline rule.
* **`escSplit_row`** — cells joined by `|`, their own pipes written `\|`, are split back into exactly those cells, provided no cell but
  the last ends in a backslash.  The proviso is sharp: `row_backslash_cell` is the decided counter-example behind known finding D12
  (a cell whose text ends in `\` swallows the delimiter).
-/
namespace MdIt.C09

/-- the escaped text as the cell holds it: pipes bare, every other ASCII punctuation character still behind its backslash -/
def escCellOf (t : List Char) : List Char :=
  t.flatMap (fun c => if c == '|' then ['|'] else if isAsciiPunct c then ['\\', c] else [c])

theorem escSplit_escapeAll_go (t : List Char) : ∀ (rest : List Char) (esc : Bool) (cell : List Char),
    ∃ esc', escSplitGo (escapeAll t ++ rest) esc cell = escSplitGo rest esc' (cell ++ escCellOf t) := by
  induction t with
  | nil => intro rest esc cell; exact ⟨esc, by simp [escapeAll, escCellOf]⟩
  | cons c t ih =>
    intro rest esc cell
    have hsplit : escapeAll (c :: t) = (if isAsciiPunct c then ['\\', c] else [c]) ++ escapeAll t := by
      simp [escapeAll, List.flatMap_cons]
    have hcell : escCellOf (c :: t) = (if c == '|' then ['|'] else if isAsciiPunct c then ['\\', c] else [c]) ++ escCellOf t := by
      simp [escCellOf, List.flatMap_cons]
    rw [hsplit, hcell]
    by_cases hp : c = '|'
    · subst hp
      have : isAsciiPunct '|' = true := by decide
      simp only [this, if_true, List.cons_append, List.nil_append, escSplitGo, beq_self_eq_true, Bool.not_true, Bool.false_eq_true,
        if_false, show (('\\' : Char) == '|') = false by decide, List.dropLast_concat]
      obtain ⟨e, he⟩ := ih rest false (cell ++ ['|'])
      exact ⟨e, by rw [he, List.append_assoc]; rfl⟩
    · have hne : (c == '|') = false := by simpa using hp
      by_cases hq : isAsciiPunct c = true
      · simp only [hq, if_true, hne, Bool.false_eq_true, if_false, List.cons_append, List.nil_append, escSplitGo,
          show (('\\' : Char) == '|') = false by decide]
        obtain ⟨e, he⟩ := ih rest (c == '\\') (cell ++ ['\\'] ++ [c])
        exact ⟨e, by rw [he]; simp [List.append_assoc]⟩
      · simp only [hq, Bool.false_eq_true, if_false, hne, List.cons_append, List.nil_append, escSplitGo]
        obtain ⟨e, he⟩ := ih rest (c == '\\') (cell ++ [c])
        exact ⟨e, by rw [he]; simp [List.append_assoc]⟩

/-- **C09.escSplit_escapeAll** — fully escaped text is one cell: no character of it is taken for a cell delimiter -/
theorem escSplit_escapeAll (t : List Char) : escSplitGo (escapeAll t) false [] = [escCellOf t] := by
  obtain ⟨e, he⟩ := escSplit_escapeAll_go t [] false []
  simpa [escSplitGo] using he

/-- a cell as it is written inside a row: its own pipes behind a backslash -/
def pipeEsc (c : List Char) : List Char := c.flatMap (fun ch => if ch == '|' then ['\\', '|'] else [ch])

def joinRow : List (List Char) → List Char
  | [] => []
  | [c] => pipeEsc c
  | c :: c2 :: rest => pipeEsc c ++ '|' :: joinRow (c2 :: rest)

theorem pipeEsc_go (c : List Char) : ∀ (rest cell : List Char) (esc : Bool),
    escSplitGo (pipeEsc c ++ rest) esc cell = escSplitGo rest ((cell ++ c).getLast? == some '\\' && !c.isEmpty || esc && c.isEmpty) (cell ++ c) := by
  induction c with
  | nil => intro rest cell esc; simp [pipeEsc]
  | cons ch c ih =>
    intro rest cell esc
    have hsplit : pipeEsc (ch :: c) = (if ch == '|' then ['\\', '|'] else [ch]) ++ pipeEsc c := by simp [pipeEsc, List.flatMap_cons]
    rw [hsplit]
    by_cases hp : ch = '|'
    · subst hp
      simp only [beq_self_eq_true, if_true, List.cons_append, List.nil_append, escSplitGo, Bool.not_true, Bool.false_eq_true, if_false,
        show (('\\' : Char) == '|') = false by decide, List.dropLast_concat]
      rw [ih rest (cell ++ ['|']) false]
      cases c with
      | nil => simp
      | cons d c' => simp [List.append_assoc]
    · have hne : (ch == '|') = false := by simpa using hp
      simp only [hne, Bool.false_eq_true, if_false, List.cons_append, List.nil_append, escSplitGo]
      rw [ih rest (cell ++ [ch]) (ch == '\\')]
      cases c with
      | nil => simp
      | cons d c' => simp [List.append_assoc]

/-- **C09.escSplit_row** — cells joined by `|` are split back into those cells, unless a cell other than the last ends in `\` -/
theorem escSplit_row : ∀ (cs : List (List Char)), cs ≠ [] → (∀ c ∈ cs.dropLast, c.getLast? ≠ some '\\') →
    escSplitGo (joinRow cs) false [] = cs := by
  intro cs
  induction cs with
  | nil => intro h; exact absurd rfl h
  | cons c rest ih =>
    intro _ hb
    cases rest with
    | nil =>
      have := pipeEsc_go c [] [] false
      simp only [List.append_nil, List.nil_append] at this
      simp only [joinRow, this, escSplitGo]
    | cons c2 rest' =>
      have h1 := pipeEsc_go c ('|' :: joinRow (c2 :: rest')) [] false
      simp only [List.nil_append] at h1
      have hc : c.getLast? ≠ some '\\' := hb c (by simp [List.dropLast])
      have hflag : (c.getLast? == some '\\' && !c.isEmpty || false && c.isEmpty) = false := by
        have : (c.getLast? == some '\\') = false := by simpa using hc
        simp [this]
      simp only [joinRow, h1, hflag, escSplitGo, beq_self_eq_true, Bool.not_false, if_true]
      rw [ih (by simp) (fun x hx => hb x (by simp [List.dropLast]; exact .inr hx))]

/-- cells followed by a delimiter: all of them come back, then the rest of the row is split on its own -/
theorem escSplit_row_app : ∀ (cs : List (List Char)) (rest : List Char), cs ≠ [] → (∀ c ∈ cs, c.getLast? ≠ some '\\') →
    escSplitGo (joinRow cs ++ '|' :: rest) false [] = cs ++ escSplitGo rest false [] := by
  intro cs
  induction cs with
  | nil => intro rest h; exact absurd rfl h
  | cons c tl ih =>
    intro rest _ hb
    have hc : c.getLast? ≠ some '\\' := hb c (by simp)
    have hflag : (c.getLast? == some '\\' && !c.isEmpty || false && c.isEmpty) = false := by
      have : (c.getLast? == some '\\') = false := by simpa using hc
      simp [this]
    cases tl with
    | nil =>
      have h1 := pipeEsc_go c ('|' :: rest) [] false
      simp only [List.nil_append] at h1
      simp only [joinRow, h1, hflag, escSplitGo, beq_self_eq_true, Bool.not_false, if_true, List.cons_append, List.nil_append]
    | cons c2 tl' =>
      have h1 := pipeEsc_go c ('|' :: (joinRow (c2 :: tl') ++ '|' :: rest)) [] false
      simp only [List.nil_append] at h1
      simp only [joinRow, List.append_assoc, List.cons_append, h1, hflag, escSplitGo, beq_self_eq_true, Bool.not_false, if_true]
      rw [ih rest (by simp) (fun x hx => hb x (List.mem_cons_of_mem _ hx))]
      rfl

/-- **C09.row_cells** — a row written with both enclosing pipes, `|c₁|c₂|…|cₙ|`, own pipes as `\|`, no cell ending in a backslash:
    `escapedSplit` followed by the two `pop`s yields exactly the cells — empty first / last cells included -/
theorem row_cells (cs : List (List Char)) (hne : cs ≠ []) (hb : ∀ c ∈ cs, c.getLast? ≠ some '\\') :
    popEnds (escSplitGo ('|' :: (joinRow cs ++ ['|'])) false []) = cs := by
  have h := escSplit_row_app cs [] hne hb
  simp only [escSplitGo] at h
  simp only [escSplitGo, beq_self_eq_true, Bool.not_false, if_true, h, popEnds]
  have hl : (cs ++ [([] : List Char)]).getLast? = some [] := by simp
  rw [hl]
  simp

/-- the proviso is sharp (known finding D12): the cell `\` followed by the cell `b` comes back as the single cell `|b` -/
theorem row_backslash_cell : escSplitGo (joinRow [['\\'], ['b']]) false [] = [['|', 'b']] := by decide

/-- non-vacuity: three cells with pipes, backslashes and an empty cell -/
example : escSplitGo (joinRow ["a|b".toList, [], "c\\d|".toList]) false [] = ["a|b".toList, [], "c\\d|".toList] := by decide
example : escSplitGo (escapeAll "a|b*c\\|".toList) false [] = ["a|b\\*c\\\\|".toList] := by decide

end MdIt.C09
