import MdIt.Props.C10h
/-!
# C10 (continued) — strikethrough is a conservative extension: no `~~` in the source, same tokens with the rule on or off
-/
namespace MdIt.C10
open MdIt.C01

/-! ### an invariant of the delimiter bookkeeping through every rule and engine function -/

/-- the three places delimiter records live: the current list, the lists of the enclosing scopes, the lists of the closed scopes -/
structure DInv (Q : Delim → Prop) (s : IState) : Prop where
  cur : ∀ d ∈ s.delimiters, Q d
  scopes : ∀ l ∈ s.scopes, ∀ d ∈ l, Q d
  metas : ∀ p ∈ s.metas, ∀ d ∈ p.2, Q d

def DEq (s s' : IState) : Prop := s'.delimiters = s.delimiters ∧ s'.scopes = s.scopes ∧ s'.metas = s.metas

theorem DInv.of_eq {Q : Delim → Prop} {s s' : IState} (h : DEq s s') (hj : DInv Q s) : DInv Q s' :=
  ⟨by rw [h.1]; exact hj.cur, by rw [h.2.1]; exact hj.scopes, by rw [h.2.2]; exact hj.metas⟩

/-- a result that, if it is a value, carries a state satisfying `J` -/
def OKI {α : Type} (f : α → IState) (J : IState → Prop) (x : Except PyErr α) : Prop := ∀ a, x = .ok a → J (f a)
theorem oki_error {α : Type} (f : α → IState) (J : IState → Prop) (e : PyErr) : OKI f J (.error e) := fun _ h => by cases h
theorem oki_ok {α : Type} (f : α → IState) (J : IState → Prop) (a : α) (h : J (f a)) : OKI f J (.ok a) := fun _ he => by cases he; exact h

def KeepsI (J : IState → Prop) (r : IRule) : Prop := ∀ s silent, J s → OKI (·.2) J (r s silent)

@[simp] theorem push_deq (s : IState) (ty tag : String) (n : Int) (c m i : String) : DEq s (s.push ty tag n c m i) := by
  unfold IState.push IState.pushPending DEq; simp only; split <;> exact ⟨rfl, rfl, rfl⟩
theorem pushPending_deq (s : IState) : DEq s s.pushPending := ⟨rfl, rfl, rfl⟩
theorem pushA_deq (s : IState) (ty tag : String) (n : Int) (a) (c m i : String) : DEq s (s.pushA ty tag n a c m i) := by
  unfold IState.pushA; exact push_deq s ty tag n c m i
theorem DEq.refl (s : IState) : DEq s s := ⟨rfl, rfl, rfl⟩
theorem DEq.trans {a b c : IState} (h1 : DEq a b) (h2 : DEq b c) : DEq a c := ⟨h2.1.trans h1.1, h2.2.1.trans h1.2.1, h2.2.2.trans h1.2.2⟩

/-- the rule never touches the delimiter bookkeeping -/
def UntouchedD (r : IRule) : Prop := ∀ s silent, OKI (·.2) (DEq s) (r s silent)

theorem keepsI_of_untouched {Q : Delim → Prop} {r : IRule} (h : UntouchedD r) : KeepsI (DInv Q) r :=
  fun s silent hj a ha => DInv.of_eq (h s silent a ha) hj

@[simp] theorem push_delimiters (s : IState) (ty tag : String) (n : Int) (c m i : String) : (s.push ty tag n c m i).delimiters = s.delimiters :=
  (push_deq s ty tag n c m i).1
@[simp] theorem push_metas (s : IState) (ty tag : String) (n : Int) (c m i : String) : (s.push ty tag n c m i).metas = s.metas :=
  (push_deq s ty tag n c m i).2.2
@[simp] theorem pushA_delimiters (s : IState) (ty tag : String) (n : Int) (a) (c m i : String) : (s.pushA ty tag n a c m i).delimiters = s.delimiters :=
  (pushA_deq s ty tag n a c m i).1
@[simp] theorem pushA_metas (s : IState) (ty tag : String) (n : Int) (a) (c m i : String) : (s.pushA ty tag n a c m i).metas = s.metas :=
  (pushA_deq s ty tag n a c m i).2.2

macro "okd_leaves" : tactic => `(tactic| (repeat' split) <;> first
  | exact oki_error _ _ _
  | (refine oki_ok _ _ _ ?_; unfold DEq; simp))

theorem untouchedD_text : UntouchedD ruleText := by
  intro s silent; simp only [ruleText]; okd_leaves

theorem untouchedD_newline : UntouchedD ruleNewline := by
  intro s silent; simp only [ruleNewline]; okd_leaves

theorem untouchedD_escape : UntouchedD ruleEscape := by
  intro s silent; simp only [ruleEscape]; okd_leaves


theorem untouchedD_backticks : UntouchedD ruleBackticks := by
  intro s silent; simp only [ruleBackticks]; okd_leaves

theorem untouchedD_entity (ext : IExt) : UntouchedD (ruleEntity ext) := by
  intro s silent; simp only [ruleEntity]; okd_leaves

theorem untouchedD_htmlInline (ext : IExt) : UntouchedD (ruleHtmlInline ext) := by
  intro s silent; simp only [ruleHtmlInline]; okd_leaves

theorem autolinkPush_deq (ext : IExt) (s : IState) (href url : List Char) : DEq s (autolinkPush ext s href url) := by
  unfold autolinkPush
  simp only
  unfold DEq; simp

@[simp] theorem autolinkPush_delimiters (ext : IExt) (s : IState) (h u : List Char) : (autolinkPush ext s h u).delimiters = s.delimiters :=
  (autolinkPush_deq ext s h u).1
@[simp] theorem autolinkPush_scopes (ext : IExt) (s : IState) (h u : List Char) : (autolinkPush ext s h u).scopes = s.scopes :=
  (autolinkPush_deq ext s h u).2.1
@[simp] theorem autolinkPush_metas (ext : IExt) (s : IState) (h u : List Char) : (autolinkPush ext s h u).metas = s.metas :=
  (autolinkPush_deq ext s h u).2.2

theorem untouchedD_autolink (ext : IExt) : UntouchedD (ruleAutolink ext) := by
  intro s silent; simp only [ruleAutolink]; okd_leaves


/-! the emphasis rule appends records carrying its own marker -/

theorem emphPush_keeps {Q : Delim → Prop} (marker : Char) (count : Nat) (o c : Bool)
    (hQ : ∀ tok, Q { marker := marker.toNat, length := count, token := tok, end_ := -1, open_ := o, close := c }) :
    ∀ (k : Nat) (s : IState), DInv Q s → DInv Q (emphPush marker count o c k s) := by
  intro k
  induction k with
  | zero => intro s h; exact h
  | succ n ih =>
    intro s h
    simp only [emphPush]
    apply ih
    have hd := push_deq s "text" "" 0 (String.singleton marker) "" ""
    refine ⟨?_, ?_, ?_⟩
    · intro d hd'
      simp only [List.mem_append, List.mem_singleton] at hd'
      rcases hd' with hd' | rfl
      · rw [hd.1] at hd'; exact h.cur d hd'
      · exact hQ _
    · show ∀ l ∈ (s.push "text" "" 0 (String.singleton marker) "" "").scopes, _; rw [hd.2.1]; exact h.scopes
    · show ∀ p ∈ (s.push "text" "" 0 (String.singleton marker) "" "").metas, _; rw [hd.2.2]; exact h.metas

theorem keepsI_emphasis {Q : Delim → Prop} (cls : QCls)
    (hQ : ∀ (m : Char), (m == '_' || m == '*') = true → ∀ len tok o c, Q { marker := m.toNat, length := len, token := tok, end_ := -1, open_ := o, close := c }) :
    KeepsI (DInv Q) (ruleEmphasis cls) := by
  intro s silent hj
  simp only [ruleEmphasis]
  split
  · exact oki_error _ _ _
  · split
    · exact oki_ok _ _ _ hj
    · split
      · exact oki_ok _ _ _ hj
      · rename_i marker _ _ hm
        refine oki_ok _ _ _ ?_
        have hm' : (marker == '_' || marker == '*') = true := by
          cases hq : (marker == '_' || marker == '*') with
          | true => rfl
          | false => rw [hq] at hm; simp at hm
        have := emphPush_keeps marker (scanDelims cls s s.pos (marker == '*')).2.2 (scanDelims cls s s.pos (marker == '*')).1
          (scanDelims cls s s.pos (marker == '*')).2.1 (fun tok => hQ marker hm' _ tok _ _) (scanDelims cls s s.pos (marker == '*')).2.2 s hj
        exact ⟨this.cur, this.scopes, this.metas⟩

/-! ### the engine -/

variable {J : IState → Prop}

theorem runChain_keepsI (hrs : ∀ r ∈ rs, KeepsI J r) : ∀ (s : IState), J s → OKI (·.2) J (runChain rs s) := by
  induction rs with
  | nil => intro s hj; exact oki_ok _ _ _ hj
  | cons r rest ih =>
    intro s hj
    simp only [runChain]
    split
    · exact oki_error _ _ _
    · rename_i s' heq; exact oki_ok _ _ _ (hrs r List.mem_cons_self s false hj (true, s') heq)
    · rename_i s' heq
      exact ih (fun r' hr' => hrs r' (List.mem_cons_of_mem _ hr')) s' (hrs r List.mem_cons_self s false hj (false, s') heq)

theorem tokenizeLoop_keepsI (hJ : ∀ s s', DEq s s' → J s → J s') (hrs : ∀ r ∈ rs, KeepsI J r) (mn : Int) (e : Nat) :
    ∀ (fuel : Nat) (ok : Bool) (s : IState), J s → OKI id J (tokenizeLoop rs mn e fuel ok s) := by
  intro fuel
  induction fuel with
  | zero => intro ok s hj; simp only [tokenizeLoop]; split; exact oki_error _ _ _; exact oki_ok _ _ _ hj
  | succ n ih =>
    intro ok s hj
    simp only [tokenizeLoop]
    split
    · have hstep : OKI (·.2) J (if s.level < mn then runChain rs s else .ok (ok, s)) := by
        split
        · exact runChain_keepsI hrs s hj
        · exact oki_ok _ _ _ hj
      split
      · exact oki_error _ _ _
      · rename_i ok' s' heq
        have h' : J s' := hstep (ok', s') heq
        split
        · split
          · exact oki_ok _ _ _ h'
          · split
            · exact oki_error _ _ _
            · exact ih _ _ h'
        · split
          · exact oki_error _ _ _
          · exact ih _ _ (hJ s' _ ⟨rfl, rfl, rfl⟩ h')
    · exact oki_ok _ _ _ hj

theorem runSilent_keepsI (hJ : ∀ s s', DEq s s' → J s → J s') (hrs : ∀ r ∈ rs, KeepsI J r) : ∀ (s : IState), J s → OKI (·.2) J (runSilent rs s) := by
  induction rs with
  | nil => intro s hj; exact oki_ok _ _ _ hj
  | cons r rest ih =>
    intro s hj
    simp only [runSilent]
    split
    · exact oki_error _ _ _
    · rename_i ok s' heq
      have h' : J s' := hrs r List.mem_cons_self { s with level := s.level + 1 } true (hJ s _ ⟨rfl, rfl, rfl⟩ hj) (ok, s') heq
      split
      · exact oki_ok _ _ _ (hJ s' _ ⟨rfl, rfl, rfl⟩ h')
      · exact ih (fun r' hr' => hrs r' (List.mem_cons_of_mem _ hr')) _ (hJ s' _ ⟨rfl, rfl, rfl⟩ h')

theorem skipToken_keepsI (hJ : ∀ s s', DEq s s' → J s → J s') (hrs : ∀ r ∈ rs, KeepsI J r) (mn : Int) (s : IState) (hj : J s) :
    OKI id J (skipToken rs mn s) := by
  simp only [skipToken]
  split
  · exact oki_ok _ _ _ (hJ s _ ⟨rfl, rfl, rfl⟩ hj)
  · by_cases hlv : s.level < mn
    · simp only [hlv, if_true]
      split
      · exact oki_error _ _ _
      · rename_i ok s1 heq
        have h1 : J s1 := runSilent_keepsI hJ hrs s hj (ok, s1) heq
        refine oki_ok _ _ _ ?_
        show J _
        split <;> exact hJ s1 _ ⟨rfl, rfl, rfl⟩ h1
    · simp only [hlv, if_false]
      refine oki_ok _ _ _ ?_
      exact hJ s _ ⟨rfl, rfl, rfl⟩ hj

theorem labelLoop_keepsI (hJ : ∀ s s', DEq s s' → J s → J s') (hrs : ∀ r ∈ rs, KeepsI J r) (mn : Int) (dn : Bool) :
    ∀ (fuel level : Nat) (s : IState), J s → OKI (·.2) J (labelLoop rs mn dn fuel level s) := by
  intro fuel
  induction fuel with
  | zero => intro _ s _; simp only [labelLoop]; exact oki_error _ _ _
  | succ n ih =>
    intro level s hj
    simp only [labelLoop]
    split
    · split
      · exact oki_error _ _ _
      · split
        · exact oki_ok _ _ _ hj
        · split
          · exact oki_error _ _ _
          · rename_i s' heq
            have h' : J s' := skipToken_keepsI hJ hrs mn s hj s' heq
            split
            · exact oki_error _ _ _
            · split
              · split
                · exact ih _ _ h'
                · split
                  · exact oki_ok _ _ _ h'
                  · exact ih _ _ h'
              · exact ih _ _ h'
    · exact oki_ok _ _ _ hj

theorem parseLinkLabel_keepsI (hJ : ∀ s s', DEq s s' → J s → J s') (hrs : ∀ r ∈ rs, KeepsI J r) (mn : Int) (s : IState) (start : Nat) (dn : Bool)
    (hj : J s) : OKI (·.2) J (parseLinkLabel rs mn s start dn) := by
  unfold parseLinkLabel
  split
  · exact oki_error _ _ _
  · rename_i r s' heq
    have h' : J s' := by
      refine labelLoop_keepsI hJ hrs mn dn _ _ _ ?_ (r, s') heq
      exact hJ s _ ⟨rfl, rfl, rfl⟩ hj
    exact oki_ok _ _ _ (hJ s' _ ⟨rfl, rfl, rfl⟩ h')

theorem linkRef_keepsI (hJ : ∀ s s', DEq s s' → J s → J s') (hrs : ∀ r ∈ rs, KeepsI J r) (lx : LExt) (mn : Int) (s : IState)
    (labelStart labelEnd maximum pos1 : Nat) (hj : J s) : OKI (·.1) J (linkRef lx mn rs s labelStart labelEnd maximum pos1) := by
  unfold linkRef
  split
  · exact oki_ok _ _ _ hj
  · have h2 : OKI (·.2.2) J (linkSecondLabel mn rs s labelEnd maximum pos1) := by
      unfold linkSecondLabel
      split
      · split
        · exact oki_error _ _ _
        · rename_i e2 s2 heq
          have h' : J s2 := parseLinkLabel_keepsI hJ hrs mn s pos1 false hj (e2, s2) heq
          split
          · exact fun a ha => by cases ha; exact h'
          · exact fun a ha => by cases ha; exact h'
      · exact oki_ok _ _ _ hj
    split
    · exact oki_error _ _ _
    · rename_i pos2 label s2 heq
      have h' : J s2 := h2 (pos2, label, s2) heq
      intro x hx
      simp only at hx
      generalize (lx.normRef (if label.isEmpty = true then List.drop labelStart (List.take labelEnd s2.src) else label)) = lab at hx
      cases hq : lx.refs lab with
      | none => rw [hq] at hx; cases hx; exact h'
      | some ht => obtain ⟨hh, tt⟩ := ht; rw [hq] at hx; cases hx; exact h'


/-! ### the two rules that open and close delimiter scopes -/

theorem dinv_deq {Q : Delim → Prop} : ∀ s s', DEq s s' → DInv Q s → DInv Q s' := fun _ _ h hj => DInv.of_eq h hj

theorem pushOpen_dinv {Q : Delim → Prop} (s : IState) (ty tag : String) (a : List (String × AttrVal)) (md : List (String × String)) (hj : DInv Q s) :
    DInv Q (s.pushOpen ty tag a md) := by
  have hd := pushA_deq s ty tag 1 a "" "" ""
  unfold IState.pushOpen
  simp only
  refine ⟨(by intro d hd'; cases hd'), ?_, ?_⟩
  · intro l hl
    simp only [List.mem_cons] at hl
    rcases hl with rfl | hl
    · rw [hd.1]; exact hj.cur
    · rw [hd.2.1] at hl; exact hj.scopes l hl
  · rw [hd.2.2]; exact hj.metas

theorem pushClose_dinv {Q : Delim → Prop} (s : IState) (ty tag : String) (hj : DInv Q s) : OKI id (DInv Q) (s.pushClose ty tag) := by
  unfold IState.pushClose
  simp only
  have h0 : DInv Q (if s.pending.isEmpty = true then s else s.pushPending) := by
    split
    · exact hj
    · exact DInv.of_eq (pushPending_deq s) hj
  generalize (if s.pending.isEmpty = true then s else s.pushPending) = s0 at h0
  split
  · rename_i outer rest i is hsc _
    refine oki_ok _ _ _ ?_
    refine DInv.of_eq (push_deq _ _ _ _ _ _ _) ⟨?_, ?_, ?_⟩
    · intro d hd; exact h0.scopes outer (by rw [hsc]; simp) d hd
    · intro l hl; exact h0.scopes l (by rw [hsc]; simp [hl])
    · intro p hp
      simp only [List.mem_cons] at hp
      rcases hp with rfl | hp
      · exact h0.cur
      · exact h0.metas p hp
  · exact oki_error _ _ _

theorem linkEmit_keepsI {Q : Delim → Prop} (hrs : ∀ r ∈ rs, KeepsI (DInv Q) r) (lx : LExt) (mn : Int) (s : IState) (ls le : Nat)
    (href title label : List Char) (hj : DInv Q s) : OKI id (DInv Q) (linkEmit lx mn rs s ls le href title label) := by
  unfold linkEmit
  simp only
  have h1 := pushOpen_dinv (Q := Q) ({ s with pos := ls, posMax := le }) "link_open" "a"
    ([("href", AttrVal.s (String.ofList href))] ++ if title.isEmpty = true then [] else [("title", AttrVal.s (String.ofList title))])
    (if (!label.isEmpty && lx.storeLabels) = true then [("label", String.ofList label)] else []) ⟨hj.cur, hj.scopes, hj.metas⟩
  generalize ({ s with pos := ls, posMax := le } : IState).pushOpen "link_open" "a" _ _ = s1 at h1
  unfold innerTokenize
  split
  · exact oki_error _ _ _
  · rename_i s2 heq
    have hs2 : OKI id (DInv Q) (match tokenizeLoop rs mn ({ s1 with linkLevel := s1.linkLevel + 1 } : IState).posMax
        (({ s1 with linkLevel := s1.linkLevel + 1 } : IState).posMax - ({ s1 with linkLevel := s1.linkLevel + 1 } : IState).pos + 1) false
        { s1 with linkLevel := s1.linkLevel + 1 } with
      | .error e => .error e
      | .ok s' => .ok (if s'.pending.isEmpty then s' else s'.pushPending)) := by
      split
      · exact oki_error _ _ _
      · rename_i s' heq'
        have h' : DInv Q s' := by
          refine tokenizeLoop_keepsI dinv_deq hrs mn _ _ _ _ ?_ s' heq'
          exact ⟨h1.cur, h1.scopes, h1.metas⟩
        refine oki_ok _ _ _ ?_
        show DInv Q (if _ then _ else _)
        split
        · exact h'
        · exact DInv.of_eq (pushPending_deq s') h'
    have h2 : DInv Q s2 := hs2 s2 heq
    exact pushClose_dinv _ _ _ ⟨h2.cur, h2.scopes, h2.metas⟩


theorem keepsI_link {Q : Delim → Prop} (hrs : ∀ r ∈ rs, KeepsI (DInv Q) r) (ext : IExt) (lx : LExt) (mn : Int) :
    KeepsI (DInv Q) (ruleLink ext lx mn rs) := by
  intro s silent hj
  simp only [ruleLink]
  split
  · exact oki_error _ _ _
  · split
    · exact oki_ok _ _ _ hj
    · split
      · exact oki_error _ _ _
      · rename_i le s1 heq
        have h1 : DInv Q s1 := parseLinkLabel_keepsI dinv_deq hrs mn s s.pos true hj (le, s1) heq
        split
        · exact oki_ok _ _ _ h1
        · split
          · exact oki_ok _ _ _ h1
          · rename_i pos1 href1 title1 pr _
            have hE : OKI (·.1) (DInv Q) (if (!pr) = true then (Except.ok (s1, some (pos1, href1, title1, [])) : Except PyErr (IState × Option (Nat × List Char × List Char × List Char)))
                else linkRef lx mn rs s1 (s.pos + 1) le.toNat s.posMax pos1) := by
              split
              · exact oki_ok _ _ _ h1
              · exact linkRef_keepsI dinv_deq hrs lx mn s1 _ _ _ _ h1
            split
            · exact oki_error _ _ _
            · rename_i s2 heq2
              exact oki_ok _ _ _ ⟨(hE (s2, none) heq2).cur, (hE (s2, none) heq2).scopes, (hE (s2, none) heq2).metas⟩
            · rename_i s2 pos href title label heq2
              have h2 : DInv Q s2 := hE (s2, some (pos, href, title, label)) heq2
              split
              · exact oki_ok _ _ _ ⟨h2.cur, h2.scopes, h2.metas⟩
              · split
                · exact oki_error _ _ _
                · rename_i s3 heq3
                  have h3 : DInv Q s3 := linkEmit_keepsI hrs lx mn s2 _ _ _ _ _ h2 s3 heq3
                  exact oki_ok _ _ _ ⟨h3.cur, h3.scopes, h3.metas⟩

theorem pushImage_deq (s : IState) (a : List (String × AttrVal)) (ch : Option (List Tok)) (co : String) (md : List (String × String)) :
    DEq s (s.pushImage a ch co md) := by
  unfold IState.pushImage
  simp only
  exact pushA_deq s "image" "img" 0 a co "" ""

theorem keepsI_image {Q : Delim → Prop} (hrs : ∀ r ∈ rs, KeepsI (DInv Q) r) (ext : IExt) (lx : LExt) (mn : Int) (parse) :
    KeepsI (DInv Q) (ruleImage ext lx mn rs parse) := by
  intro s silent hj
  simp only [ruleImage]
  split
  · exact oki_error _ _ _
  · split
    · exact oki_ok _ _ _ hj
    · split
      · exact oki_error _ _ _
      · exact oki_ok _ _ _ hj
      · split
        · exact oki_error _ _ _
        · rename_i le s1 heq
          have h1 : DInv Q s1 := parseLinkLabel_keepsI dinv_deq hrs mn s (s.pos + 1) false hj (le, s1) heq
          split
          · exact oki_ok _ _ _ h1
          · have hF : OKI (·.1) (DInv Q) (imageFound ext lx mn rs s1 (s.pos + 2) le.toNat s.posMax) := by
              unfold imageFound
              split
              · split <;> exact oki_ok _ _ _ h1
              · exact linkRef_keepsI dinv_deq hrs lx mn s1 _ _ _ _ h1
            split
            · exact oki_error _ _ _
            · rename_i s2 heq2
              exact oki_ok _ _ _ ⟨(hF (s2, none) heq2).cur, (hF (s2, none) heq2).scopes, (hF (s2, none) heq2).metas⟩
            · rename_i s2 pos href title label heq2
              have h2 : DInv Q s2 := hF (s2, some (pos, href, title, label)) heq2
              split
              · exact oki_ok _ _ _ ⟨h2.cur, h2.scopes, h2.metas⟩
              · split
                · exact oki_error _ _ _
                · rename_i s3 heq3
                  have h3 : DInv Q s3 := by
                    unfold imageEmit at heq3
                    simp only at heq3
                    split at heq3
                    · cases heq3
                    · simp only [Except.ok.injEq] at heq3
                      subst heq3
                      exact DInv.of_eq (pushImage_deq s2 _ _ _ _) h2
                  exact oki_ok _ _ _ ⟨h3.cur, h3.scopes, h3.metas⟩


/-! ### strikethrough: inert without `~~`, and its post-processing is the identity without tilde records -/

/-- the source holds no two tildes in a row -/
def NoPair (S : List Char) : Prop := ¬ (['~', '~'] <:+: S)

theorem NoPair.sub {S c : List Char} (h : NoPair S) (hc : c <:+: S) : NoPair c := fun hp => h (hp.trans hc)

theorem next_ne_tilde {S : List Char} (h : NoPair S) (pos : Nat) (h0 : S[pos]? = some '~') : S[pos + 1]? ≠ some '~' := by
  intro h1
  apply h
  have hl0 : pos < S.length := by
    rcases Nat.lt_or_ge pos S.length with hlt | hge
    · exact hlt
    · rw [List.getElem?_eq_none hge] at h0; cases h0
  have hl1 : pos + 1 < S.length := by
    rcases Nat.lt_or_ge (pos + 1) S.length with hlt | hge
    · exact hlt
    · rw [List.getElem?_eq_none hge] at h1; cases h1
  have e0 : S[pos] = '~' := by rw [List.getElem?_eq_getElem hl0] at h0; simpa using h0
  have e1 : S[pos + 1] = '~' := by rw [List.getElem?_eq_getElem hl1] at h1; simpa using h1
  refine ⟨S.take pos, S.drop (pos + 2), ?_⟩
  have d0 : S.drop pos = S[pos] :: S.drop (pos + 1) := (List.drop_eq_getElem_cons hl0)
  have d1 : S.drop (pos + 1) = S[pos + 1] :: S.drop (pos + 1 + 1) := (List.drop_eq_getElem_cons hl1)
  calc S.take pos ++ ['~', '~'] ++ S.drop (pos + 2)
      = S.take pos ++ (S[pos] :: S[pos + 1] :: S.drop (pos + 1 + 1)) := by rw [e0, e1]; simp
    _ = S.take pos ++ S.drop pos := by rw [d0, d1]
    _ = S := List.take_append_drop pos S

theorem markerRun_one (S : List Char) (max pos : Nat) (hlt : pos < max) (h0 : S[pos]? = some '~') (h1 : S[pos + 1]? ≠ some '~') :
    ∀ fuel, 1 ≤ fuel → markerRun S '~' max fuel pos = pos + 1 := by
  intro fuel hf
  cases fuel with
  | zero => omega
  | succ n =>
    simp only [markerRun, hlt, if_true, h0, beq_self_eq_true]
    cases n with
    | zero => rfl
    | succ k =>
      simp only [markerRun]
      split
      · cases hq : S[pos + 1]? with
        | none => rfl
        | some c =>
          simp only
          have : (c == '~') = false := by
            cases hc : (c == '~') with
            | false => rfl
            | true => exact absurd (by rw [hq]; simp at hc; rw [hc]) h1
          simp [this]
      · rfl

theorem inert_strike {S : List Char} (h : NoPair S) (cls : QCls) : InertAt S (ruleStrike cls) := by
  intro s silent hc _ hs
  have hin : s.pos < s.src.length := by have := hc.1; have := hc.2; omega
  unfold ruleStrike
  rw [List.getElem?_eq_getElem hin]
  simp only
  split
  · rfl
  · split
    · rfl
    · rename_i hch
      have h0 : s.src[s.pos]? = some '~' := by
        rw [List.getElem?_eq_getElem hin]
        have : s.src[s.pos] = '~' := by simpa using hch
        rw [this]
      have h1 : s.src[s.pos + 1]? ≠ some '~' := by rw [hs]; exact next_ne_tilde h s.pos (by rw [← hs]; exact h0)
      have hm : s.src.getD s.pos ' ' = '~' := by
        rw [List.getD_eq_getElem?_getD, h0]; rfl
      have hcount : (scanDelims cls s s.pos true).2.2 = 1 := by
        simp only [scanDelims, hm, Bool.not_true, Bool.false_eq_true, if_false]
        rw [markerRun_one s.src s.posMax s.pos hc.1 h0 h1 _ (by have := hc.1; omega)]
        omega
      simp [hcount]

/-- membership in a modified list -/
theorem mem_modify {α} (f : α → α) : ∀ (l : List α) (i : Nat) (x : α), x ∈ l.modify i f → x ∈ l ∨ ∃ y ∈ l, x = f y := by
  intro l
  induction l with
  | nil => intro i x hx; rw [List.modify_nil] at hx; cases hx
  | cons a as ih =>
    intro i x hx
    cases i with
    | zero =>
      simp only [List.modify_zero_cons, List.mem_cons] at hx
      rcases hx with rfl | hx
      · exact .inr ⟨a, by simp, rfl⟩
      · exact .inl (by simp [hx])
    | succ n =>
      simp only [List.modify_succ_cons, List.mem_cons] at hx
      rcases hx with rfl | hx
      · exact .inl (by simp)
      · rcases ih n x hx with h | ⟨y, hy, rfl⟩
        · exact .inl (by simp [h])
        · exact .inr ⟨y, by simp [hy], rfl⟩

theorem pdStep_markers (P : Nat → Prop) (st : PDState) (i : Nat) (h : ∀ d ∈ st.ds, P d.marker) : ∀ d ∈ (pdStep st i).ds, P d.marker := by
  unfold pdStep
  split
  · exact h
  · simp only
    split
    · exact h
    · split
      · intro d hd
        simp only at hd
        rcases mem_modify _ _ _ _ hd with hd1 | ⟨y, hy, rfl⟩
        · rcases mem_modify _ _ _ _ hd1 with hd2 | ⟨z, hz, rfl⟩
          · exact h d hd2
          · exact h z hz
        · rcases mem_modify _ _ _ _ hy with hd2 | ⟨z, hz, rfl⟩
          · exact h y hd2
          · exact h z hz
      · exact h

theorem processDelims_markers (P : Nat → Prop) (ds : List Delim) (h : ∀ d ∈ ds, P d.marker) : ∀ d ∈ processDelims ds, P d.marker := by
  unfold processDelims
  have key : ∀ (l : List Nat) (st : PDState), (∀ d ∈ st.ds, P d.marker) → ∀ d ∈ (l.foldl pdStep st).ds, P d.marker := by
    intro l
    induction l with
    | nil => intro st hst; exact hst
    | cons i rest ih => intro st hst; simp only [List.foldl_cons]; exact ih _ (pdStep_markers P st i hst)
  exact key _ _ h


/-- a record that is not a strikethrough delimiter -/
def NT (d : Delim) : Prop := d.marker ≠ 0x7E

theorem strikeMark_id (ds : List Delim) (h : ∀ d ∈ ds, NT d) : ∀ (fuel i : Nat) (ts : List Tok) (lone : List Nat),
    strikeMark ds fuel i ts lone = (ts, lone) := by
  intro fuel
  induction fuel with
  | zero => intro i ts lone; rfl
  | succ n ih =>
    intro i ts lone
    simp only [strikeMark]
    split
    · rfl
    · rename_i sd hsd
      have hm : sd.marker ≠ 0x7E := h sd (List.mem_of_getElem? hsd)
      have : (sd.marker != 0x7E) = true := by simpa using hm
      simp only [this, if_true]
      exact ih _ _ _

theorem strikeGo_id (ds : List Delim) (h : ∀ d ∈ ds, NT d) (ts : List Tok) :
    strikeSwap (strikeMark ds ds.length 0 ts []).2.reverse (strikeMark ds ds.length 0 ts []).1 = ts := by
  rw [strikeMark_id ds h]
  rfl

theorem mem_insertMeta (p q : Nat × List Delim) : ∀ l : List (Nat × List Delim), q ∈ insertMeta p l → q = p ∨ q ∈ l := by
  intro l
  induction l with
  | nil => intro h; simp [insertMeta] at h; exact .inl h
  | cons x rest ih =>
    intro h
    simp only [insertMeta] at h
    split at h
    · simp only [List.mem_cons] at h
      rcases h with h | h | h
      · exact .inl h
      · exact .inr (by simp [h])
      · exact .inr (by simp [h])
    · simp only [List.mem_cons] at h
      rcases h with h | h
      · exact .inr (by simp [h])
      · rcases ih h with h' | h'
        · exact .inl h'
        · exact .inr (by simp [h'])

theorem mem_metasSorted (s : IState) (q : Nat × List Delim) (h : q ∈ metasSorted s) : q ∈ s.metas := by
  unfold metasSorted at h
  have key : ∀ l : List (Nat × List Delim), q ∈ l.foldr insertMeta [] → q ∈ l := by
    intro l
    induction l with
    | nil => intro h; simp at h
    | cons x rest ih =>
      intro h
      simp only [List.foldr_cons] at h
      rcases mem_insertMeta x q _ h with h' | h'
      · simp [h']
      · simp [ih h']
  exact key _ h

theorem strikePostL_id_nt (s : IState) (h : DInv NT s) : strikePostL s = s := by
  unfold strikePostL
  simp only
  have hfold : ∀ (l : List (Nat × List Delim)) (ts : List Tok), (∀ p ∈ l, ∀ d ∈ p.2, NT d) →
      l.foldl (fun ts p => strikeSwap (strikeMark p.2 p.2.length 0 ts []).2.reverse (strikeMark p.2 p.2.length 0 ts []).1) ts = ts := by
    intro l
    induction l with
    | nil => intro ts _; rfl
    | cons p rest ih =>
      intro ts hl
      simp only [List.foldl_cons]
      rw [strikeGo_id p.2 (hl p (by simp))]
      exact ih ts (fun q hq => hl q (by simp [hq]))
  rw [strikeGo_id s.delimiters h.cur, hfold _ _ (fun p hp => h.metas p (mem_metasSorted s p hp))]

theorem balancePairsL_nt (s : IState) (h : DInv NT s) : DInv NT (balancePairsL s) := by
  unfold balancePairsL
  refine ⟨processDelims_markers (· ≠ 0x7E) _ h.cur, h.scopes, ?_⟩
  intro p hp
  simp only [List.mem_map] at hp
  obtain ⟨q, hq, rfl⟩ := hp
  exact processDelims_markers (· ≠ 0x7E) _ (h.metas q hq)

theorem balancePairsL_tokens (s : IState) : (balancePairsL s).tokens = s.tokens := rfl

/-- with no tilde record anywhere, the second chain with `strikethrough` yields the tokens of the second chain without it -/
theorem imgPost_strike (em : Bool) (s : IState) (h : DInv NT s) :
    ((imgPost true em).foldl (fun acc f => f acc) s).tokens = ((imgPost false em).foldl (fun acc f => f acc) s).tokens := by
  cases em with
  | true =>
    simp only [imgPost, linkPost, Bool.or_true, if_true, Bool.false_eq_true, if_false, List.append_nil, List.nil_append,
      List.cons_append, List.foldl_cons, List.foldl_nil]
    rw [strikePostL_id_nt _ (balancePairsL_nt s h)]
  | false =>
    simp only [imgPost, linkPost, Bool.or_false, if_true, Bool.false_eq_true, if_false, List.append_nil, List.nil_append,
      List.cons_append, List.foldl_cons, List.foldl_nil, Bool.or_self]
    rw [strikePostL_id_nt _ (balancePairsL_nt s h)]
    rfl


/-! ### the chains -/

theorem nt_emph : ∀ (m : Char), (m == '_' || m == '*') = true → ∀ len tok o c,
    NT { marker := m.toNat, length := len, token := tok, end_ := -1, open_ := o, close := c } := by
  intro m hm len tok o c
  unfold NT
  simp only
  intro he
  have h1 : m = '_' ∨ m = '*' := by simpa using hm
  rcases h1 with rfl | rfl <;> exact absurd he (by decide)

/-- without the strikethrough rule no rule of the chain ever records a tilde delimiter -/
theorem chainNoStrike_keeps (cls : QCls) (ext : IExt) (lx : LExt) (text emphasis fragJoin : Bool) (w : Sw) (mn : Int) :
    ∀ d : Nat, ∀ r ∈ chainOf cls ext lx text false emphasis fragJoin w mn d, KeepsI (DInv NT) r := by
  intro d
  induction d with
  | zero => intro r hr; simp [chainOf, imgChain] at hr
  | succ d ih =>
    intro r hr
    simp only [chainOf, imgChain, List.mem_append] at hr
    rcases hr with (((((((((hr | hr) | hr) | hr) | hr) | hr) | hr) | hr) | hr) | hr) | hr
    · split at hr
      · simp at hr; subst hr; exact keepsI_of_untouched untouchedD_text
      · cases hr
    · split at hr
      · simp at hr; subst hr; exact keepsI_of_untouched untouchedD_newline
      · cases hr
    · split at hr
      · simp at hr; subst hr; exact keepsI_of_untouched untouchedD_escape
      · cases hr
    · split at hr
      · simp at hr; subst hr; exact keepsI_of_untouched untouchedD_backticks
      · cases hr
    · simp at hr
    · split at hr
      · simp at hr; subst hr; exact keepsI_emphasis cls nt_emph
      · cases hr
    · split at hr
      · simp at hr; subst hr; exact keepsI_link ih ext lx mn
      · cases hr
    · split at hr
      · simp at hr; subst hr; exact keepsI_image ih ext lx mn _
      · cases hr
    · split at hr
      · simp at hr; subst hr; exact keepsI_of_untouched (untouchedD_autolink ext)
      · cases hr
    · split at hr
      · simp at hr; subst hr; exact keepsI_of_untouched (untouchedD_htmlInline ext)
      · cases hr
    · split at hr
      · simp at hr; subst hr; exact keepsI_of_untouched (untouchedD_entity ext)
      · cases hr

/-- the whole parse over two chains that are extensions of each other, the right one possibly with the strikethrough second-chain rule -/
theorem parse_ext2 {S : List Char} {l l' : List IRule} (hE : Ext S l l') (hok : ∀ r ∈ l, IOK4 r) (hk : ∀ r ∈ l, KeepsI (DInv NT) r)
    (sb em fj : Bool) (mn : Int) : inlineParse l (imgPost false em) fj mn S = inlineParse l' (imgPost sb em) fj mn S := by
  unfold inlineParse tokenize
  rw [← tokenizeLoop_ext hE hok mn _ _ false (IState.init S) rfl (Nat.le_refl _) (by intro p hp; simp [IState.init] at hp) rfl]
  cases hl : tokenizeLoop l mn (IState.init S).posMax ((IState.init S).posMax - (IState.init S).pos + 1) false (IState.init S) with
  | error e => rfl
  | ok s1 =>
    simp only
    cases sb with
    | false => rfl
    | true =>
      have h0 : DInv NT (IState.init S) := ⟨by intro d hd; simp [IState.init] at hd, by intro l hl; simp [IState.init] at hl, by intro p hp; simp [IState.init] at hp⟩
      have h1 : DInv NT s1 := tokenizeLoop_keepsI dinv_deq hk mn _ _ _ _ h0 s1 hl
      have h2 : DInv NT (if s1.pending.isEmpty = true then s1 else s1.pushPending) := by
        split
        · exact h1
        · exact DInv.of_eq (pushPending_deq s1) h1
      rw [imgPost_strike em _ h2]

/-- the chains without / with strikethrough (and differing in the eight first-chain switches) are extensions of each other on clean
    sources without `~~` -/
theorem chain_ext2 (cls : QCls) (ext : IExt) (lx : LExt) (text emphasis fragJoin : Bool) (a b : Sw) (sb : Bool) (mn : Int) :
    ∀ d : Nat, ∀ S : List Char, Clean a b S → (sb = true → NoPair S) →
      Ext S (chainOf cls ext lx text false emphasis fragJoin a mn d) (chainOf cls ext lx text sb emphasis fragJoin b mn d) := by
  intro d
  induction d with
  | zero => intro S _ _; exact .nil
  | succ d ih =>
    intro S hcl hnp
    obtain ⟨h1, h2, h3, h4, h5, h6, h7, h8⟩ := hcl
    have hE := ih S ⟨h1, h2, h3, h4, h5, h6, h7, h8⟩ hnp
    have hok := imgChain_ok4 cls ext lx text a.newline a.escape a.backticks false emphasis a.link a.image a.autolink a.htmlInline a.entity fragJoin mn d
    have hkeeps := chainNoStrike_keeps cls ext lx text emphasis fragJoin a mn d
    have hparse : ∀ c : List Char, c <:+: S →
        inlineParse (chainOf cls ext lx text false emphasis fragJoin a mn d) (imgPost false emphasis) fragJoin mn c
          = inlineParse (chainOf cls ext lx text sb emphasis fragJoin b mn d) (imgPost sb emphasis) fragJoin mn c := by
      intro c hc
      exact parse_ext2 (ih c (Clean.sub ⟨h1, h2, h3, h4, h5, h6, h7, h8⟩ hc) (fun hs => (hnp hs).sub hc)) hok hkeeps sb emphasis fragJoin mn
    show Ext S (imgChain _ _ _ _ _ _ _ _ _ _ _ _ _ _ _ _ (d + 1)) (imgChain _ _ _ _ _ _ _ _ _ _ _ _ _ _ _ _ (d + 1))
    simp only [imgChain]
    refine Ext.append (Ext.append (Ext.append (Ext.append (Ext.append (Ext.append (Ext.append (Ext.append (Ext.append (Ext.append ?_ ?_) ?_) ?_) ?_) ?_) ?_) ?_) ?_) ?_) ?_
    · exact ext_opt _ _ _ _ (agree_refl _ _) (fun h => absurd rfl h)
    · exact ext_opt _ _ _ _ (agree_refl _ _) (fun h => ⟨inert_newline (h1 h), inert_newline (h1 h)⟩)
    · exact ext_opt _ _ _ _ (agree_refl _ _) (fun h => ⟨inert_escape (h2 h), inert_escape (h2 h)⟩)
    · exact ext_opt _ _ _ _ (agree_refl _ _) (fun h => ⟨inert_backticks (h3 h), inert_backticks (h3 h)⟩)
    · refine ext_opt _ _ _ _ (agree_refl _ _) (fun h => ?_)
      have hsb : sb = true := by cases sb with | true => rfl | false => exact absurd rfl h
      exact ⟨inert_strike (hnp hsb) cls, inert_strike (hnp hsb) cls⟩
    · exact ext_opt _ _ _ _ (agree_refl _ _) (fun h => absurd rfl h)
    · exact ext_opt _ _ _ _ (agree_link hE hok ext lx mn) (fun h => ⟨inert_link (h4 h) _ _ _ _, inert_link (h4 h) _ _ _ _⟩)
    · exact ext_opt _ _ _ _ (agree_image hE hok ext lx mn _ _ hparse) (fun h => ⟨inert_image (h5 h) _ _ _ _ _, inert_image (h5 h) _ _ _ _ _⟩)
    · exact ext_opt _ _ _ _ (agree_refl _ _) (fun h => ⟨inert_autolink (h6 h) _, inert_autolink (h6 h) _⟩)
    · exact ext_opt _ _ _ _ (agree_refl _ _) (fun h => ⟨inert_htmlInline (h7 h) _, inert_htmlInline (h7 h) _⟩)
    · exact ext_opt _ _ _ _ (agree_refl _ _) (fun h => ⟨inert_entity (h8 h) _, inert_entity (h8 h) _⟩)

/-- **C10.strikethrough_conservative** — the example the property itself gives: for inputs that do not contain `~~` the token stream
of the inline sub-parser is identical with the strikethrough extension on or off — both its tokenizer rule and its second-chain rule,
at every nesting depth (label walks, link texts, image descriptions), for every other rule configuration (the eight first-chain
switches may differ too, on sources without their trigger characters), `maxNesting`, budget, reference table and external functions. -/
theorem strikethrough_conservative (cls : QCls) (ext : IExt) (lx : LExt) (text emphasis fragJoin : Bool) (a b : Sw) (mn : Int) (d : Nat)
    (src : List Char) (h : Clean a b src) (hnp : NoPair src) :
    inlineParse (chainOf cls ext lx text false emphasis fragJoin a mn d) (imgPost false emphasis) fragJoin mn src
      = inlineParse (chainOf cls ext lx text true emphasis fragJoin b mn d) (imgPost true emphasis) fragJoin mn src :=
  parse_ext2 (chain_ext2 cls ext lx text emphasis fragJoin a b true mn d src h (fun _ => hnp))
    (imgChain_ok4 cls ext lx text a.newline a.escape a.backticks false emphasis a.link a.image a.autolink a.htmlInline a.entity fragJoin mn d)
    (chainNoStrike_keeps cls ext lx text emphasis fragJoin a mn d) true emphasis fragJoin mn

end MdIt.C10

namespace MdIt.C10

/-! non-vacuity: single tildes are allowed — only `~~` is the extension's trigger -/
example : NoPair "~b~ [d](e~f)".toList ∧ ¬ NoPair "a~~".toList := by
  unfold NoPair; decide +kernel

end MdIt.C10
