import MdIt.Props.C10c
import MdIt.Props.C02d
/-!
# C10 (continued) — provenance for the sub-parser with block quotes and lists

`l_provenance`: every token kind in the stream of `lParse` is produced by an enabled rule (the two container rules
included), at any nesting depth; with a leaf rule switched off its kinds do not occur (`l_no_hr`).
-/
namespace MdIt.C10
open MdIt.C01 MdIt.C02

def lAllowed (c : MiniCfg) : List String :=
  qAllowed c ++ ["bullet_list_open", "bullet_list_close", "ordered_list_open", "ordered_list_close", "list_item_open", "list_item_close"]

def LTypesIn (c : MiniCfg) : BState → List Tok → Prop := fun _ seg => ∀ t ∈ seg, t.type ∈ lAllowed c

theorem typesIn_to_l (c : MiniCfg) (P) (r : BRule) (h : SegOK P (TypesIn c) r) : SegOK P (LTypesIn c) r :=
  ⟨fun s line endLine s' hc hr => by
      obtain ⟨seg, h1, h2⟩ := h.hit s line endLine s' hc hr
      exact ⟨seg, h1, fun t ht => by simp only [lAllowed, qAllowed, List.mem_append]; exact .inl (.inl (h2 t ht))⟩,
   h.miss⟩

theorem lTypes_wrap (c : MiniCfg) : QuoteWrap (LTypesIn c) := by
  refine ⟨fun _ _ _ _ h => h, ?_⟩
  intro s s3 s4 line openT closeT segs _ _ _ _ ho3 _ _ hc3 _ hS t ht
  simp only [List.mem_append, List.mem_singleton, List.mem_flatten] at ht
  rcases ht with (rfl | ⟨g, hg, htg⟩) | rfl
  · simp [lAllowed, qAllowed, ho3]
  · exact hS g hg t htg
  · simp [lAllowed, qAllowed, hc3]

theorem lTypes_listWrap (c : MiniCfg) : ListWrap (LTypesIn c) := by
  refine ⟨?_, ?_⟩
  · intro s seg seg' hh hS t ht
    unfold HidEq at hh
    have hm : t.setHidden false ∈ seg'.map (·.setHidden false) := List.mem_map.2 ⟨t, ht, rfl⟩
    rw [hh, List.mem_map] at hm
    obtain ⟨u, hu, he⟩ := hm
    have := (hidden_eq_fields he).2.2.1
    rw [← this]; exact hS u hu
  · intro s s2 openT closeT m segs _ _ _ _ _ _ hty hS t ht
    simp only [List.mem_append, List.mem_singleton, List.mem_flatten] at ht
    simp only [List.mem_cons, Prod.mk.injEq, List.not_mem_nil, or_false] at hty
    rcases ht with (rfl | ⟨g, hg, htg⟩) | rfl
    · rcases hty with ⟨h, _⟩ | ⟨h, _⟩ | ⟨h, _⟩ <;> simp [lAllowed, h]
    · exact hS g hg t htg
    · rcases hty with ⟨_, h⟩ | ⟨_, h⟩ | ⟨_, h⟩ <;> simp [lAllowed, h]

theorem lTypes_leaves (c : MiniCfg) (ws : List Nat) (mn : Int) (P : BState → Nat → Prop) :
    ∀ r ∈ lLeaves c ws mn, SegOK P (LTypesIn c) r := by
  intro r hr
  simp only [lLeaves, List.mem_append, List.mem_singleton] at hr
  rcases hr with (((hr | hr) | hr) | hr) | hr
  · split at hr
    · rename_i hc; simp at hr; subst hr; exact typesIn_to_l c _ _ (typesOK_code _ c hc)
    · cases hr
  · split at hr
    · rename_i hc; simp at hr; subst hr; exact typesIn_to_l c _ _ (typesOK_fence _ c hc)
    · cases hr
  · split at hr
    · rename_i hc; simp at hr; subst hr; exact typesIn_to_l c _ _ (typesOK_hr _ c hc)
    · cases hr
  · split at hr
    · rename_i hc; simp at hr; subst hr; exact typesIn_to_l c _ _ (typesOK_heading _ c ws hc)
    · cases hr
  · subst hr; exact typesIn_to_l c _ _ (typesOK_paragraph _ c _ (lTerminators_inert c ws mn) ws)

/-- **C10.l_provenance** -/
theorem l_provenance (c : MiniCfg) (ws : List Nat) (maxNesting : Int) (src : List Char) (ts : List Tok)
    (h : lParse c ws maxNesting src = .ok ts) : ∀ t ∈ ts, t.type ∈ lAllowed c := by
  obtain ⟨segs, hts, hS⟩ := lParse_segs (LTypesIn c) (lTypes_wrap c) (lTypes_listWrap c) c ws maxNesting
    (fun P => lTypes_leaves c ws maxNesting P) src ts h
  intro t ht
  rw [hts, List.mem_flatten] at ht
  obtain ⟨g, hg, htg⟩ := ht
  exact hS g hg t htg

/-- with `hr` switched off no `hr` token occurs, at any depth inside quotes and lists -/
theorem l_no_hr (c : MiniCfg) (ws : List Nat) (mn : Int) (src : List Char) (ts : List Tok) (hoff : c.hr = false)
    (h : lParse c ws mn src = .ok ts) : ∀ t ∈ ts, t.type ≠ "hr" := by
  intro t ht he
  have := l_provenance c ws mn src ts h t ht
  rw [he] at this
  simp [lAllowed, qAllowed, allowedTypes, hoff] at this

/-- with `fence` switched off no `fence` token occurs -/
theorem l_no_fence (c : MiniCfg) (ws : List Nat) (mn : Int) (src : List Char) (ts : List Tok) (hoff : c.fence = false)
    (h : lParse c ws mn src = .ok ts) : ∀ t ∈ ts, t.type ≠ "fence" := by
  intro t ht he
  have := l_provenance c ws mn src ts h t ht
  rw [he] at this
  simp [lAllowed, qAllowed, allowedTypes, hoff] at this

end MdIt.C10
