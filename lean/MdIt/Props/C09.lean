import MdIt.Str
import MdIt.Inline
/-!
# C09 — backslash-escaping makes any text literal in every inline context
-/
namespace MdIt.C09

/-- **T1 obligations** — every ASCII punctuation character is escapable by the inline `escape`
rule (`_ESCAPED`), by `unescapeAll` (titles, destinations, info strings) and counts as Markdown
punctuation; every terminator of the `text` rule other than LF is ASCII punctuation and backslash is
a terminator (so the `escape` rule gets to see every backslash). -/
theorem punct_tables : ∀ n : Nat, n < 128 → isAsciiPunct (Char.ofNat n) = true →
    Gen.escaped.contains n = true ∧ Gen.unescapable.contains n = true ∧ Gen.mdAsciiPunct.contains n = true := by
  decide +kernel

theorem terminators_punct : ∀ n ∈ Gen.terminatorChars, n = 10 ∨ isAsciiPunct (Char.ofNat n) = true := by decide
theorem backslash_terminates : Gen.terminatorChars.contains 92 = true ∧ Gen.terminatorChars.contains 38 = true := by decide

theorem punct_lt (c : Char) (h : isAsciiPunct c = true) : c.toNat < 128 := by
  unfold isAsciiPunct at h
  simp only [Bool.or_eq_true, Bool.and_eq_true, decide_eq_true_eq] at h
  omega

theorem punct_unescapable (c : Char) (h : isAsciiPunct c = true) : Gen.unescapable.contains c.toNat = true := by
  have := punct_tables c.toNat (punct_lt c h) (by simpa [Char.ofNat_toNat] using h)
  exact this.2.1

theorem punct_escaped (c : Char) (h : isAsciiPunct c = true) : Gen.escaped.contains c.toNat = true := by
  have := punct_tables c.toNat (punct_lt c h) (by simpa [Char.ofNat_toNat] using h)
  exact this.1

theorem not_punct_not_special (c : Char) (h : isAsciiPunct c = false) : c ≠ '\\' ∧ c ≠ '&' := by
  constructor <;> (intro e; subst e; revert h; decide)

theorem unescapeAllFuel_escapeAll (ent : List Char → List Char → List Char) (t : List Char) (fuel : Nat)
    (hf : (escapeAll t).length < fuel) : unescapeAllFuel ent fuel (escapeAll t) = t := by
  induction t generalizing fuel with
  | nil => cases fuel <;> simp [escapeAll, unescapeAllFuel]
  | cons c rest ih =>
    cases fuel with
    | zero => simp at hf
    | succ f =>
      by_cases hp : isAsciiPunct c = true
      · have he : escapeAll (c :: rest) = '\\' :: c :: escapeAll rest := by simp [escapeAll, hp]
        rw [he] at hf ⊢
        simp only [unescapeAllFuel, if_true, punct_unescapable c hp]
        rw [ih f (by simp at hf; omega)]
      · have hp' : isAsciiPunct c = false := by simpa using hp
        have he : escapeAll (c :: rest) = c :: escapeAll rest := by simp [escapeAll, hp']
        rw [he] at hf ⊢
        have := not_punct_not_special c hp'
        simp only [unescapeAllFuel, this.1, this.2, if_false]
        rw [ih f (by simp at hf; omega)]

/-- **C09.title / C09.dest** — link titles, destinations and fence info strings are unescaped with
`unescapeAll`: for every text `t` (any scalar values, blanks at the ends included) and whatever the
entity table says, un-escaping the backslash-escaped spelling gives back exactly `t`. -/
theorem unescape_escape (ent : List Char → List Char → List Char) (t : List Char) :
    unescapeAll ent (escapeAll t) = t :=
  unescapeAllFuel_escapeAll ent t _ (Nat.lt_succ_self _)

/-- the `escape` rule at a backslash followed by an ASCII punctuation character (inside the
inline range): it matches, emits one `text_special` token holding exactly that character, and
advances by two -/
theorem escape_punct (s : IState) (c : Char) (hc : isAsciiPunct c = true)
    (h0 : s.src[s.pos]? = some '\\') (h1 : s.src[s.pos + 1]? = some c) (hmax : s.pos + 1 < s.posMax) :
    ruleEscape s false = .ok (true,
      { (s.push "text_special" "" 0 (String.singleton c) (String.ofList ['\\', c]) "escape") with pos := s.pos + 2 }) := by
  have hne : c ≠ '\n' := by intro e; subst e; revert hc; decide
  have hnb : ¬ (s.pos + 1 ≥ s.posMax) := by omega
  have hesc := punct_escaped c hc
  simp only [ruleEscape, h0, h1, hnb, if_false, bne_self_eq_false, Bool.false_eq_true, hesc, if_true]
  have h2 : (c != '\n') = true := by simpa using hne
  have h3 : (c == '\n') = false := by simpa using hne
  simp [h3]

/-- the rules in front of `escape` in the chain decline at a backslash without touching the state -/
theorem text_declines_at_backslash (s : IState) (h0 : s.src[s.pos]? = some '\\') (hpos : s.pos < s.src.length) :
    ruleText s false = .ok (false, s) := by
  have hdrop : s.src.drop s.pos = '\\' :: s.src.drop (s.pos + 1) := by
    rw [List.drop_eq_getElem_cons hpos]
    congr 1
    have := List.getElem?_eq_getElem hpos
    rw [h0] at this; exact (Option.some.inj this).symm
  have hend : textEnd s = s.pos := by
    unfold textEnd
    rw [hdrop, List.findIdx?_cons]
    have : isTerminator '\\' = true := by decide
    simp [this]
  simp [ruleText, hend]

theorem newline_declines_at_backslash (s : IState) (h0 : s.src[s.pos]? = some '\\') :
    ruleNewline s false = .ok (false, s) := by
  simp [ruleNewline, h0]

/-! non-vacuity -/
example : escapeAll "a*b_c".toList = "a\\*b\\_c".toList := by decide
example : unescapeAll (fun _ w => w) "a\\*b &amp; \\q".toList = "a*b &amp; \\q".toList := by decide

end MdIt.C09
