import MdIt.Props.C05c
import MdIt.Props.C01j
/-!
# C05 (continued) — every `href` **and every image `src`** the inline sub-parser stores is normalised and validated, at every depth

With the `image` rule in the chain (eleven of the twelve inline rules) the output is no longer a flat stream: an `image` token carries
the tokens of its description as `children`, produced by a nested run of the whole parser, and those may hold links and images again.
The token predicate is therefore *deep*: `Deep N t` = `N t` and `N` of every descendant of `t`.  **`image_hrefs`**: for every source,
rule subset, `maxNesting`, budget, classification, external functions and acceptable reference table, every token of the parse *and of
every image description inside it, to any depth*, satisfies: a `link_open` carries an `href`, an `image` a `src` (its first attribute),
that is empty or URL-safe ASCII which a browser does not read as a dangerous scheme.
-/
namespace MdIt.C05
open MdIt.C01 MdIt.C10

mutual
  /-- every token below `t` (children, their children, …) -/
  def descendants : Tok → List Tok
    | .mk _ _ _ _ _ _ children _ _ _ _ _ _ => descOpt children
  def descOpt : Option (List Tok) → List Tok
    | none => []
    | some cs => descList cs
  /-- the tokens of a stream with all their descendants -/
  def descList : List Tok → List Tok
    | [] => []
    | t :: ts => t :: (descendants t ++ descList ts)
end

theorem mem_descList (x : Tok) : ∀ ts : List Tok, x ∈ descList ts ↔ ∃ t ∈ ts, x = t ∨ x ∈ descendants t := by
  intro ts
  induction ts with
  | nil => simp [descList]
  | cons t ts ih =>
    simp only [descList, List.mem_cons, List.mem_append, ih]
    constructor
    · rintro (h | h | ⟨u, hu, h⟩)
      · exact ⟨t, .inl rfl, .inl h⟩
      · exact ⟨t, .inl rfl, .inr h⟩
      · exact ⟨u, .inr hu, h⟩
    · rintro ⟨u, hu | hu, h⟩
      · subst hu
        rcases h with h | h
        · exact .inl h
        · exact .inr (.inl h)
      · exact .inr (.inr ⟨u, hu, h⟩)

/-- `N` holds of the token and of everything below it -/
def Deep (N : Tok → Prop) (t : Tok) : Prop := N t ∧ ∀ c ∈ descendants t, N c

theorem deep_list {N : Tok → Prop} (ts : List Tok) (h : ∀ t ∈ ts, Deep N t) : ∀ x ∈ descList ts, N x := by
  intro x hx
  obtain ⟨t, ht, hxt⟩ := (mem_descList x ts).1 hx
  rcases hxt with rfl | hxt
  · exact (h _ ht).1
  · exact (h t ht).2 x hxt

theorem descendants_nochildren (ty tag : String) (n : Int) (a : List (String × AttrVal)) (m : Option (Nat × Nat)) (l : Int) (co mu i : String)
    (md : List (String × String)) (b h : Bool) : descendants (.mk ty tag n a m l none co mu i md b h) = [] := by
  simp [descendants, descOpt]

theorem descendants_setLevel (t : Tok) (l : Int) : descendants (t.setLevel l) = descendants t := by
  cases t; simp [Tok.setLevel, descendants]
theorem descendants_setContent (t : Tok) (c : String) : descendants (t.setContent c) = descendants t := by
  cases t; simp [Tok.setContent, descendants]
theorem descendants_setEmph (t : Tok) (ty tag : String) (n : Int) (mk : String) : descendants (t.setEmph ty tag n mk) = descendants t := by
  cases t; simp [Tok.setEmph, descendants]
theorem descendants_setAttrs (t : Tok) (a : List (String × AttrVal)) : descendants (t.setAttrs' a) = descendants t := by
  cases t; simp [Tok.setAttrs', descendants]

/-- the token predicate: what `LTok` says of a `link_open`, and the same of an `image` and its `src` -/
def UTok (ext : IExt) (lx : LExt) (t : Tok) : Prop :=
  LTok ext lx t ∧ (t.type = "image" → ∃ src, t.attrs.head? = some ("src", .s (String.ofList src)) ∧ LinkSrc ext lx src)

theorem utok_other (ext : IExt) (lx : LExt) (t : Tok) (h1 : t.type ≠ "link_open") (h2 : t.type ≠ "image") : UTok ext lx t :=
  ⟨ltok_other ext lx t h1, fun h => absurd h h2⟩

/-- a deep predicate is closed under what the engine does to tokens when the flat one is -/
theorem deep_closed {N : Tok → Prop} {E : List String} (h : TokClosed N E) : TokClosed (Deep N) E := by
  refine ⟨fun lvl c => ⟨h.text lvl c, by simp [mkInlineTok, descendants, descOpt]⟩, ?_, ?_, ?_⟩
  · intro t l ht; exact ⟨h.setLevel t l ht.1, by rw [descendants_setLevel]; exact ht.2⟩
  · intro t c ht; exact ⟨h.setContent t c ht.1, by rw [descendants_setContent]; exact ht.2⟩
  · intro t ty tag n mk ht hty; exact ⟨h.setEmph t ty tag n mk ht.1 hty, by rw [descendants_setEmph]; exact ht.2⟩

theorem utok_closed (ext : IExt) (lx : LExt) (strike emphasis : Bool) : TokClosed (UTok ext lx) (emphTypes strike emphasis) := by
  have hl := ltok_closed ext lx strike emphasis
  refine ⟨fun lvl c => utok_other _ _ _ (by simp [mkInlineTok, Tok.type]) (by simp [mkInlineTok, Tok.type]), ?_, ?_, ?_⟩
  · intro t l h; exact ⟨hl.setLevel t l h.1, by have := h.2; cases t; simpa [Tok.setLevel, Tok.type, Tok.attrs] using this⟩
  · intro t c h; exact ⟨hl.setContent t c h.1, by have := h.2; cases t; simpa [Tok.setContent, Tok.type, Tok.attrs] using this⟩
  · intro t ty tag n mk _ hty
    apply utok_other
    · simp only [setEmph_type]
      intro he; subst he
      simp only [emphTypes, emTypes, sTypes, List.mem_append] at hty
      rcases hty with hty | hty <;> split at hty <;> simp at hty
    · simp only [setEmph_type]
      intro he; subst he
      simp only [emphTypes, emTypes, sTypes, List.mem_append] at hty
      rcases hty with hty | hty <;> split at hty <;> simp at hty

/-- flat tokens (no children) satisfy the deep predicate as soon as they satisfy the flat one -/
theorem deep_flat {N : Tok → Prop} (t : Tok) (hc : t.children = none) (h : N t) : Deep N t := by
  refine ⟨h, ?_⟩
  cases t
  simp only [Tok.children] at hc
  subst hc
  simp [descendants, descOpt]

theorem deepU_linkN (ext : IExt) (lx : LExt) : LinkN ext lx (Deep (UTok ext lx)) :=
  ⟨fun t hc h => deep_flat t hc (utok_other ext lx t (by rcases h with h | h <;> rw [h] <;> decide) (by rcases h with h | h <;> rw [h] <;> decide)),
   fun t href _ hc hty ha _ hs => deep_flat t hc ⟨fun _ => ⟨href, ha, hs⟩, fun h => by rw [hty] at h; exact absurd h (by decide)⟩⟩

/-! ### the image rule -/

theorem imageDest_src (ext : IExt) (lx : LExt) (s : IState) (p1 : Nat) : LinkSrc ext lx (imageDest ext s p1).2 := by
  unfold imageDest
  cases hd : parseLinkDestination ext s.src p1 s.posMax with
  | none => exact .inl rfl
  | some q =>
    obtain ⟨dpos, dstr⟩ := q
    show LinkSrc ext lx (if validateLink (ext.normLink dstr) = true then (dpos, ext.normLink dstr) else (p1, [])).2
    split
    · rename_i hv; exact .inr (.inl ⟨dstr, rfl, hv⟩)
    · exact .inl rfl

theorem imageDestTitle_src (ext : IExt) (lx : LExt) (s : IState) (maximum p1 : Nat) : LinkSrc ext lx (imageDestTitle ext s maximum p1).2.1 := by
  unfold imageDestTitle
  simp only
  have key := imageDest_src ext lx s p1
  generalize imageDest ext s p1 = dh at key
  repeat' split
  all_goals exact key

theorem imageInline_src (ext : IExt) (lx : LExt) (s : IState) (labelEnd maximum pos : Nat) (h t : List Char)
    (hi : imageInline ext s labelEnd maximum = some (pos, h, t)) : LinkSrc ext lx h := by
  unfold imageInline at hi
  simp only at hi
  split at hi
  · cases hi
  · split at hi
    · cases hi
    · simp only [Option.some.injEq, Prod.mk.injEq] at hi
      obtain ⟨_, rfl, _⟩ := hi
      exact imageDestTitle_src ext lx s maximum _

/-- the tokens `pushImage` appends: a flushed text token (maybe) and the image token with the attributes and children it was given -/
theorem pushImage_tokens (s : IState) (a : List (String × AttrVal)) (ch : Option (List Tok)) (co : String) (md : List (String × String)) :
    ∃ (flush : List Tok) (t : Tok), (s.pushImage a ch co md).tokens = s.tokens ++ flush ++ [t] ∧ t.type = "image" ∧ t.attrs = a
      ∧ t.children = ch ∧ t.metaD = md ∧ (∀ x ∈ flush, x.type = "text" ∧ x.children = none) := by
  unfold IState.pushImage IState.pushA
  simp only
  obtain ⟨lvl, lvl', p, h⟩ := push_adds s "image" "img" 0 co "" ""
  rw [h]
  rw [modify_last]
  refine ⟨if s.pending.isEmpty = true then [] else [mkInlineTok "text" "" 0 lvl' p "" ""],
    (match (mkInlineTok "image" "img" 0 lvl co "" "").setAttrs' a with
      | .mk ty tg n a m l _ co mu i _ b h => Tok.mk ty tg n a m l ch co mu i md b h), ?_, ?_, ?_, ?_, ?_, ?_⟩
  · have hm := modify_last (fun t => match t with
      | .mk ty tg n a m l _ co mu i _ b h => Tok.mk ty tg n a m l ch co mu i md b h) ((mkInlineTok "image" "img" 0 lvl co "" "").setAttrs' a)
      (s.tokens ++ if s.pending.isEmpty = true then [] else [mkInlineTok "text" "" 0 lvl' p "" ""])
    exact hm
  · rfl
  · rfl
  · rfl
  · rfl
  · intro x hx
    split at hx
    · cases hx
    · simp only [List.mem_singleton] at hx; subst hx; exact ⟨rfl, rfl⟩

/-- what the image rule needs of a (deep) token predicate: a childless `text` token satisfies it, and so does an `image` token whose
    first attribute is a `src` that arose legitimately and whose children — the nested parse of the description — all satisfy it -/
structure ImageN (ext : IExt) (lx : LExt) (D : Tok → Prop) : Prop where
  text : ∀ t, t.children = none → t.type = "text" → D t
  image : ∀ t src cs (label : List Char), t.type = "image" → t.attrs.head? = some ("src", .s (String.ofList src)) → LinkSrc ext lx src →
    t.metaD = (if !label.isEmpty && lx.storeLabels then [("label", String.ofList label)] else []) →
    (t.children = none ∨ t.children = some cs) → (∀ c ∈ cs, D c) → D t

theorem deepU_imageN (ext : IExt) (lx : LExt) : ImageN ext lx (Deep (UTok ext lx)) := by
  refine ⟨fun t hc hty => deep_flat t hc (utok_other ext lx t (by rw [hty]; decide) (by rw [hty]; decide)), ?_⟩
  intro t src cs _ hty ha hsrc _ hch hcs
  refine ⟨⟨ltok_other _ _ _ (by rw [hty]; decide), fun _ => ⟨src, ha, hsrc⟩⟩, ?_⟩
  intro c hc
  have hd : descendants t = descOpt t.children := by cases t; rfl
  rw [hd] at hc
  rcases hch with hch | hch
  · rw [hch] at hc; simp [descOpt] at hc
  · rw [hch] at hc; exact deep_list cs hcs c hc

theorem imageEmit_adds (ext : IExt) (lx : LExt) {D : Tok → Prop} (hI : ImageN ext lx D) (parse : List Char → Except PyErr (List Tok))
    (hparse : ∀ c ts, parse c = .ok ts → ∀ t ∈ ts, D t)
    (s : IState) (labelStart labelEnd : Nat) (href title label : List Char) (hsrc : LinkSrc ext lx href) (s3 : IState)
    (h : imageEmit lx parse s labelStart labelEnd href title label = .ok s3) :
    ∃ new, s3.tokens = s.tokens ++ new ∧ ∀ t ∈ new, D t := by
  unfold imageEmit at h
  simp only at h
  cases hp : parse ((s.src.take labelEnd).drop labelStart) with
  | error e => rw [hp] at h; cases h
  | ok ts =>
    rw [hp] at h
    simp only [Except.ok.injEq] at h
    subst h
    have hts := hparse _ ts hp
    obtain ⟨flush, t, ht, hty, hat, hch, hmd, hfl⟩ := pushImage_tokens s
      ([("src", AttrVal.s (String.ofList href)), ("alt", AttrVal.s "")] ++ if title.isEmpty = true then [] else [("title", AttrVal.s (String.ofList title))])
      (if ts.isEmpty = true then none else some ts) (String.ofList ((s.src.take labelEnd).drop labelStart))
      (if (!label.isEmpty && lx.storeLabels) = true then [("label", String.ofList label)] else [])
    refine ⟨flush ++ [t], by rw [ht, List.append_assoc], ?_⟩
    intro x hx
    rw [List.mem_append] at hx
    rcases hx with hx | hx
    · obtain ⟨hxt, hxc⟩ := hfl x hx
      exact hI.text x hxc hxt
    · simp only [List.mem_singleton] at hx
      subst hx
      refine hI.image x href ts label hty (by rw [hat]; rfl) hsrc hmd ?_ hts
      rw [hch]
      split
      · exact .inl rfl
      · exact .inr rfl

theorem iadds4_image (ext : IExt) (lx : LExt) {D : Tok → Prop} (hI : ImageN ext lx D) (mn : Int) (inner : List IRule) (hok : ∀ r ∈ inner, IOK4 r)
    (had : ∀ r ∈ inner, IAdds4 D r) (parse : List Char → Except PyErr (List Tok))
    (hparse : ∀ c ts, parse c = .ok ts → ∀ t ∈ ts, D t) :
    IAdds4 D (ruleImage ext lx mn inner parse) := by
  intro s silent m s' hc hk hr
  have hin : s.pos < s.src.length := by have := hc.1; have := hc.2; omega
  have nil : ∀ x : IState, x.tokens = s.tokens → ∃ new, x.tokens = s.tokens ++ new ∧ (∀ t ∈ new, D t) ∧ (silent = true → new = []) :=
    fun x hx => ⟨[], by simp [hx], by simp, fun _ => rfl⟩
  unfold ruleImage at hr
  rw [List.getElem?_eq_getElem hin] at hr
  simp only at hr
  split at hr
  · simp only [Except.ok.injEq, Prod.mk.injEq] at hr; obtain ⟨_, rfl⟩ := hr; exact nil _ rfl
  · cases hsec : imageSecond s with
    | error e => rw [hsec] at hr; cases hr
    | ok b =>
    rw [hsec] at hr
    cases b with
    | true => simp only [Except.ok.injEq, Prod.mk.injEq] at hr; obtain ⟨_, rfl⟩ := hr; exact nil _ rfl
    | false =>
    simp only at hr
    cases hp : parseLinkLabel inner mn s (s.pos + 1) false with
    | error e => rw [hp] at hr; cases hr
    | ok v =>
      obtain ⟨r, s1⟩ := v
      rw [hp] at hr
      simp only at hr
      have ht1 := parseLinkLabel_tok D inner hok had mn s (s.pos + 1) false r s1 hc.2 hk hp
      obtain ⟨r', s1', hp', hfr1, hpos1, hr1⟩ := parseLinkLabel4 inner hok mn s (s.pos + 1) false hc.2 hk
      rw [hp] at hp'; simp only [Except.ok.injEq, Prod.mk.injEq] at hp'; obtain ⟨rfl, rfl⟩ := hp'
      split at hr
      · simp only [Except.ok.injEq, Prod.mk.injEq] at hr; obtain ⟨_, rfl⟩ := hr; exact nil _ ht1
      · rename_i hneg
        have hr0 : 0 ≤ r := by omega
        obtain ⟨hlo, hhi⟩ := hr1 hr0
        have hend1 : s1.posMax ≤ s1.src.length := by rw [hfr1.1, hfr1.2.2.1]; exact hc.2
        cases hfound : imageFound ext lx mn inner s1 (s.pos + 2) r.toNat s.posMax with
        | error e => rw [hfound] at hr; cases hr
        | ok w =>
          obtain ⟨s2, o⟩ := w
          rw [hfound] at hr
          have hs2 : s2.tokens = s.tokens ∧ (∀ pos h t l, o = some (pos, h, t, l) → LinkSrc ext lx h) := by
            unfold imageFound at hfound
            split at hfound
            · cases hi : imageInline ext s1 r.toNat s.posMax with
              | none =>
                rw [hi] at hfound
                simp only [Except.ok.injEq, Prod.mk.injEq] at hfound
                obtain ⟨rfl, rfl⟩ := hfound
                exact ⟨ht1, fun _ _ _ _ he => by cases he⟩
              | some q =>
                obtain ⟨pos, href, title⟩ := q
                rw [hi] at hfound
                simp only [Except.ok.injEq, Prod.mk.injEq] at hfound
                obtain ⟨rfl, rfl⟩ := hfound
                refine ⟨ht1, ?_⟩
                intro pos' h t l he
                simp only [Option.some.injEq, Prod.mk.injEq] at he
                obtain ⟨_, rfl, _⟩ := he
                exact imageInline_src ext lx _ _ _ _ _ _ hi
            · have ht2 := linkRef_tok D lx mn inner hok had s1 (s.pos + 2) r.toNat s.posMax (r.toNat + 1) s2 o hend1
                hfr1.2.2.2.2.2 hfound
              refine ⟨ht2.trans ht1, ?_⟩
              intro pos h t l he
              subst he
              exact linkRef_src ext lx mn inner s1 _ _ _ _ s2 pos h t l hfound
          obtain ⟨ht2, hlsrc⟩ := hs2
          cases o with
          | none => simp only [Except.ok.injEq, Prod.mk.injEq] at hr; obtain ⟨_, rfl⟩ := hr; exact nil _ ht2
          | some q2 =>
            obtain ⟨pos, hrf, title, label⟩ := q2
            simp only at hr
            cases silent with
            | true => simp only [if_true, Except.ok.injEq, Prod.mk.injEq] at hr; obtain ⟨_, rfl⟩ := hr; exact nil _ ht2
            | false =>
              simp only [Bool.false_eq_true, if_false] at hr
              cases he : imageEmit lx parse s2 (s.pos + 2) r.toNat hrf title label with
              | error e => rw [he] at hr; cases hr
              | ok s3 =>
                rw [he] at hr
                simp only [Except.ok.injEq, Prod.mk.injEq] at hr
                obtain ⟨_, rfl⟩ := hr
                obtain ⟨new, hn1, hn2⟩ := imageEmit_adds ext lx hI parse hparse s2 (s.pos + 2) r.toNat hrf title label (hlsrc pos hrf title label rfl) s3 he
                exact ⟨new, by show s3.tokens = _; rw [hn1, ht2], hn2, by simp⟩


/-! ### the chains and the theorem -/

/-- the tokens of a parse whose rules append only tokens satisfying `N` all satisfy `N` (for `N` closed under what the second
    chain and `fragments_join` do) -/
theorem parse_toks4 {N : Tok → Prop} (strike emphasis : Bool) (hN : TokClosed N (emphTypes strike emphasis)) (rules : List IRule)
    (hok : ∀ r ∈ rules, IOK4 r) (had : ∀ r ∈ rules, IAdds4 N r) (fragJoin : Bool) (mn : Int) (src : List Char) (ts : List Tok)
    (h : inlineParse rules (linkPost strike emphasis) fragJoin mn src = .ok ts) : ∀ t ∈ ts, N t := by
  unfold inlineParse tokenize at h
  cases hl : tokenizeLoop rules mn (IState.init src).posMax ((IState.init src).posMax - (IState.init src).pos + 1) false (IState.init src) with
  | error e => rw [hl] at h; cases h
  | ok s1 =>
    rw [hl] at h
    simp only [Except.ok.injEq] at h
    have hk0 : CacheOK (IState.init src) := by intro p hp; simp [IState.init] at hp
    obtain ⟨new, hn1, hn2⟩ := loop_toks4 N _ hok had mn _ false (IState.init src) s1 (Nat.le_refl _) hk0 hl
    have h1 : AllTok N s1 := by
      intro t ht
      rw [hn1] at ht
      simp only [IState.init, List.nil_append] at ht
      exact hn2 t ht
    have h2 : AllTok N (if s1.pending.isEmpty then s1 else s1.pushPending) := by
      split
      · exact h1
      · intro t ht
        simp only [IState.pushPending, List.mem_append, List.mem_singleton] at ht
        rcases ht with ht | rfl
        · exact h1 t ht
        · exact hN.text _ _
    have h3 := linkPost_toks strike emphasis hN _ h2
    subst h
    split
    · exact fragmentsJoin_toks hN _ 0 _ (Nat.le_refl _) h3
    · exact h3

/-- what the leaf rules of a configuration need of a token predicate: the tokens each *enabled* rule pushes satisfy it -/
structure LeafN (ext : IExt) (D : Tok → Prop) (newline escape backticks autolink htmlInline entity : Bool) : Prop where
  hardbreak : (newline || escape) = true → ∀ lvl, D (mkInlineTok "hardbreak" "br" 0 lvl "" "" "")
  softbreak : newline = true → ∀ lvl, D (mkInlineTok "softbreak" "br" 0 lvl "" "" "")
  escaped : escape = true → ∀ lvl c mk, D (mkInlineTok "text_special" "" 0 lvl c mk "escape")
  code : backticks = true → ∀ lvl c mk, D (mkInlineTok "code_inline" "code" 0 lvl c mk "")
  autoOpen : autolink = true → ∀ lvl u, validateLink (ext.normLink u) = true →
    D ((mkInlineTok "link_open" "a" 1 lvl "" "autolink" "auto").setAttrs' [("href", .s (String.ofList (ext.normLink u)))])
  autoClose : autolink = true → ∀ lvl, D (mkInlineTok "link_close" "a" (-1) lvl "" "autolink" "auto")
  html : htmlInline = true → ext.html = true → ∀ lvl c, D (mkInlineTok "html_inline" "" 0 lvl c "" "")
  entity : entity = true → ∀ lvl c mk, D (mkInlineTok "text_special" "" 0 lvl c mk "entity")

/-- the generic engine: every rule of every chain appends only tokens satisfying `D` (and none in silent mode), for any predicate the
    enabled rules' own tokens satisfy and that the nested parses hand on -/
theorem imgChain_addsD (cls : QCls) (ext : IExt) (lx : LExt) {D : Tok → Prop}
    (text newline escape backticks strike emphasis link image autolink htmlInline entity fragJoin : Bool) (mn : Int)
    (hT : ∀ lvl c, D (mkInlineTok "text" "" 0 lvl c "" "")) (hL : link = true → LinkN ext lx D) (hI : image = true → ImageN ext lx D)
    (hF : LeafN ext D newline escape backticks autolink htmlInline entity)
    (hC : TokClosed D (emphTypes strike emphasis)) :
    ∀ d : Nat, ∀ r ∈ imgChain cls ext lx text newline escape backticks strike emphasis link image autolink htmlInline entity fragJoin mn d,
      IAdds4 D r := by
  intro d
  induction d with
  | zero => intro r hr; simp [imgChain] at hr
  | succ d ih =>
    have hok := imgChain_ok4 cls ext lx text newline escape backticks strike emphasis link image autolink htmlInline entity fragJoin mn d
    intro r hr
    simp only [imgChain, List.mem_append] at hr
    rcases hr with (((((((((hr | hr) | hr) | hr) | hr) | hr) | hr) | hr) | hr) | hr) | hr
    · split at hr
      · simp at hr; subst hr; exact iadds4_of _ _ adds_text silentTok_text
      · cases hr
    · split at hr
      · rename_i hn; simp at hr; subst hr
        exact iadds4_of _ _ (adds_newline hT (hF.hardbreak (by simp [hn])) (hF.softbreak hn)) silentTok_newline
      · cases hr
    · split at hr
      · rename_i he; simp at hr; subst hr
        exact iadds4_of _ _ (adds_escape hT (hF.hardbreak (by simp [he])) (hF.escaped he)) silentTok_escape
      · cases hr
    · split at hr
      · rename_i hb; simp at hr; subst hr
        exact iadds4_of _ _ (adds_backticks hT (hF.code hb)) silentTok_backticks
      · cases hr
    · split at hr
      · simp at hr; subst hr; exact iadds4_of _ _ (adds_strike hT cls) (silentTok_strike cls)
      · cases hr
    · split at hr
      · simp at hr; subst hr; exact iadds4_of _ _ (adds_emphasis hT cls) (silentTok_emphasis cls)
      · cases hr
    · split at hr
      · rename_i hlk; simp at hr; subst hr
        exact iadds4_link ext lx (hL hlk) mn _ hok ih
      · cases hr
    · split at hr
      · rename_i him; simp at hr; subst hr
        refine iadds4_image ext lx (hI him) mn _ hok ih _ ?_
        intro c ts hp
        exact parse_toks4 strike emphasis hC _ hok ih fragJoin mn c ts hp
      · cases hr
    · split at hr
      · rename_i ha; simp at hr; subst hr
        exact iadds4_of _ _ (adds_autolink hT ext (hF.autoOpen ha) (hF.autoClose ha)) (silentTok_autolink ext)
      · cases hr
    · split at hr
      · rename_i hh; simp at hr; subst hr
        exact iadds4_of _ _ (adds_htmlInline hT ext (hF.html hh)) (silentTok_htmlInline ext)
      · cases hr
    · split at hr
      · rename_i hy; simp at hr; subst hr
        exact iadds4_of _ _ (adds_entity hT ext (hF.entity hy)) (silentTok_entity ext)
      · cases hr

/-- the tokens of a parse all satisfy such a predicate -/
theorem imgParse_toksD (cls : QCls) (ext : IExt) (lx : LExt) {D : Tok → Prop}
    (text newline escape backticks strike emphasis link image autolink htmlInline entity fragJoin : Bool) (mn : Int)
    (hT : ∀ lvl c, D (mkInlineTok "text" "" 0 lvl c "" "")) (hL : link = true → LinkN ext lx D) (hI : image = true → ImageN ext lx D)
    (hF : LeafN ext D newline escape backticks autolink htmlInline entity)
    (hC : TokClosed D (emphTypes strike emphasis)) (d : Nat) (src : List Char) (ts : List Tok)
    (h : inlineParse (imgChain cls ext lx text newline escape backticks strike emphasis link image autolink htmlInline entity fragJoin mn d)
      (imgPost strike emphasis) fragJoin mn src = .ok ts) : ∀ t ∈ ts, D t :=
  parse_toks4 strike emphasis hC _
    (imgChain_ok4 cls ext lx text newline escape backticks strike emphasis link image autolink htmlInline entity fragJoin mn d)
    (imgChain_addsD cls ext lx text newline escape backticks strike emphasis link image autolink htmlInline entity fragJoin mn hT hL hI hF hC d)
    fragJoin mn src ts h

theorem deepU_leafN (ext : IExt) (lx : LExt) (newline escape backticks autolink htmlInline entity : Bool) :
    LeafN ext (Deep (UTok ext lx)) newline escape backticks autolink htmlInline entity := by
  have hL := deepU_linkN ext lx
  have o : ∀ (ty tag : String) (n lvl : Int) (c m i : String), ty ≠ "link_open" → ty ≠ "image" → Deep (UTok ext lx) (mkInlineTok ty tag n lvl c m i) :=
    fun ty tag n lvl c m i h1 h2 => deep_flat _ rfl (utok_other ext lx _ (by simpa [mkInlineTok, Tok.type] using h1) (by simpa [mkInlineTok, Tok.type] using h2))
  refine ⟨fun _ _ => o _ _ _ _ _ _ _ (by decide) (by decide), fun _ _ => o _ _ _ _ _ _ _ (by decide) (by decide),
    fun _ _ _ _ => o _ _ _ _ _ _ _ (by decide) (by decide), fun _ _ _ _ => o _ _ _ _ _ _ _ (by decide) (by decide), ?_,
    fun _ _ => o _ _ _ _ _ _ _ (by decide) (by decide), fun _ _ _ _ => o _ _ _ _ _ _ _ (by decide) (by decide),
    fun _ _ _ _ => o _ _ _ _ _ _ _ (by decide) (by decide)⟩
  intro _ lvl u hv
  exact hL.linkOpen _ (ext.normLink u) [] rfl rfl rfl rfl (.inr (.inl ⟨u, rfl, hv⟩))

/-- every `link_open` and every `image`, at every depth of the inline parse, carries a destination that arose legitimately -/
theorem image_sources (cls : QCls) (ext : IExt) (lx : LExt)
    (text newline escape backticks strike emphasis link image autolink htmlInline entity fragJoin : Bool) (mn : Int) (d : Nat) (src : List Char)
    (ts : List Tok)
    (h : inlineParse (imgChain cls ext lx text newline escape backticks strike emphasis link image autolink htmlInline entity fragJoin mn d)
      (imgPost strike emphasis) fragJoin mn src = .ok ts) : ∀ t ∈ descList ts, UTok ext lx t :=
  deep_list ts (imgParse_toksD cls ext lx text newline escape backticks strike emphasis link image autolink htmlInline entity fragJoin mn
    (deepU_linkN ext lx).text (fun _ => deepU_linkN ext lx) (fun _ => deepU_imageN ext lx) (deepU_leafN ext lx newline escape backticks autolink htmlInline entity)
    (deep_closed (utok_closed ext lx strike emphasis)) d src ts h)

/-- a destination that is empty or acceptable to a browser -/
def DestOK (dest : List Char) : Prop :=
  dest = [] ∨ ((∀ ch ∈ dest, SafeAscii ch)
    ∧ ((∀ d ∈ Gen.badProtos, browserScheme dest ≠ some d.toList) ∨ matchesGoodData (lowerAscii dest) = true))

theorem destOK_of_src (ext : IExt) (lx : LExt) (hrefs : RefsOK lx) (dest : List Char) (hsrc : LinkSrc ext lx dest) : DestOK dest := by
  rcases hsrc with h0 | ⟨u, hu, hv⟩ | ⟨l, t', hr⟩
  · exact .inl h0
  · right; rw [hu]; exact ⟨encode_range _, api ext.reformat u hv⟩
  · right; exact hrefs l dest t' hr

/-- **C05.image_hrefs** — inline links, reference links, autolinks **and images** in the modelled inline sub-parser (eleven of the
twelve inline rules): every `link_open` carries an `href`, every `image` a `src` (the first attribute in both cases), that is empty
or URL-safe ASCII with no dangerous scheme as a browser reads it — for the tokens of the stream and of every image description
nested in it, to any depth. -/
theorem image_hrefs (cls : QCls) (ext : IExt) (lx : LExt) (hrefs : RefsOK lx)
    (text newline escape backticks strike emphasis link image autolink htmlInline entity fragJoin : Bool) (mn : Int) (d : Nat) (src : List Char)
    (ts : List Tok)
    (h : inlineParse (imgChain cls ext lx text newline escape backticks strike emphasis link image autolink htmlInline entity fragJoin mn d)
      (imgPost strike emphasis) fragJoin mn src = .ok ts) (t : Tok) (ht : t ∈ descList ts) :
    (t.type = "link_open" → ∃ href : List Char, t.attrs.head? = some ("href", .s (String.ofList href)) ∧ DestOK href)
    ∧ (t.type = "image" → ∃ s : List Char, t.attrs.head? = some ("src", .s (String.ofList s)) ∧ DestOK s) := by
  obtain ⟨hl, hi⟩ := image_sources cls ext lx text newline escape backticks strike emphasis link image autolink htmlInline entity fragJoin mn d src ts h t ht
  constructor
  · intro hty
    obtain ⟨href, ha, hsrc⟩ := hl hty
    exact ⟨href, ha, destOK_of_src ext lx hrefs href hsrc⟩
  · intro hty
    obtain ⟨s, ha, hsrc⟩ := hi hty
    exact ⟨s, ha, destOK_of_src ext lx hrefs s hsrc⟩

/-- the `(type, first attribute)` pairs of a stream with its descendants -/
def destsOf (r : Except PyErr (List Tok)) : Option (List (String × Option (String × AttrVal))) :=
  match r with
  | .ok ts => some ((descList ts).filterMap (fun t => if t.type == "link_open" || t.type == "image" then some (t.type, t.attrs.head?) else none))
  | .error _ => none

/-! non-vacuity: an accepted image, a rejected one (stays text), a reference image, an image with a link and an image inside its
description -/
example : destsOf (inlineParse (imgChain C02f.asciiCls ext0 C01.lx0 true true true true false true true true false false false true 20 30) (imgPost false true) true 20
      "![a](http://x.y \"t\") ![b](javascript:z) ![c][r] ![d [e](/f) ![g](/h)](/i)".toList)
    = some [("image", some ("src", .s "http://x.y")), ("image", some ("src", .s "/ref")), ("image", some ("src", .s "/i")),
            ("link_open", some ("href", .s "/f")), ("image", some ("src", .s "/h"))] := by decide +kernel

end MdIt.C05
