import MdIt.Props.C06b
import MdIt.Props.C03c
import MdIt.Props.C01d
/-!
# C06 (continued) — the block quote law as a theorem about the modelled sub-parser

`quote_law`: for every tab-free document `D` (given by its lines), every subset of `code`, `fence`, `hr`, `heading` and every
`maxNesting ≥ 0`: prefixing every line of `D` with `"> "` (`">"` for an empty line) gives exactly one block quote whose
content is the stream of `D` one level deeper, with the same maps — `qParse (maxNesting + 1) (quote D) = open :: shift 1 (qParse
maxNesting D) ++ [close]`.
-/
namespace MdIt.C06
open MdIt.C01

/-! ### the line tables of a document given by its lines -/

def srcOf (ls : List (List Char)) : List Char := ls.flatMap (fun l => l ++ ['\n'])

/-- number of leading blanks -/
def lead : List Char → Nat
  | [] => 0
  | c :: cs => if isSpaceTab c then lead cs + 1 else 0

/-- the line-table entry of a tab-free line: indent = offset = number of leading spaces -/
def lineRec (l : List Char) : BLine := mkLine l (lead l) (lead l) true

def Clean (l : List Char) : Prop := '\n' ∉ l ∧ '\t' ∉ l ∧ '\r' ∉ l ∧ '\x00' ∉ l

theorem scanGo_found (rest : List Char) : ∀ (l cur : List Char) (indent offset : Nat), '\n' ∉ l →
    scanGo (l ++ '\n' :: rest) cur true indent offset = mkLine (cur ++ l) indent offset true :: scanGo rest [] false 0 0 := by
  intro l
  induction l with
  | nil => intro cur indent offset _; simp [scanGo]
  | cons c cs ih =>
    intro cur indent offset hnl
    have hc : c ≠ '\n' := fun e => hnl (by simp [e])
    have hcs : '\n' ∉ cs := fun e => hnl (by simp [e])
    simp only [List.cons_append, scanGo, Bool.not_true, Bool.false_and, Bool.false_eq_true, if_false]
    have h1 : (c == '\n') = false := by simpa using hc
    simp only [h1, Bool.false_eq_true, if_false]
    have h2 : (cs ++ '\n' :: rest).isEmpty = false := by cases cs <;> rfl
    simp only [h2, Bool.false_eq_true, if_false]
    rw [ih _ _ _ hcs]; simp

theorem scanGo_line (rest : List Char) : ∀ (l cur : List Char) (indent : Nat), '\n' ∉ l → '\t' ∉ l →
    scanGo (l ++ '\n' :: rest) cur false indent indent
      = mkLine (cur ++ l) (indent + lead l) (indent + lead l) true :: scanGo rest [] false 0 0 := by
  intro l
  induction l with
  | nil => intro cur indent _ _; simp [scanGo, lead, isSpaceTab]
  | cons c cs ih =>
    intro cur indent hnl hnt
    have hc : c ≠ '\n' := fun e => hnl (by simp [e])
    have hcs : '\n' ∉ cs := fun e => hnl (by simp [e])
    have hct : c ≠ '\t' := fun e => hnt (by simp [e])
    have hcst : '\t' ∉ cs := fun e => hnt (by simp [e])
    simp only [List.cons_append, scanGo, Bool.not_false, Bool.true_and]
    by_cases hsp : isSpaceTab c = true
    · have hct' : (c == '\t') = false := by simpa using hct
      simp only [hsp, if_true, hct', Bool.false_eq_true, if_false]
      rw [ih _ _ hcs hcst]
      simp only [lead, hsp, if_true]
      have : indent + 1 + lead cs = indent + (lead cs + 1) := by omega
      rw [this]; simp
    · simp only [hsp, Bool.false_eq_true, if_false]
      have h1 : (c == '\n') = false := by simpa using hc
      simp only [h1, Bool.false_eq_true, if_false]
      have h2 : (cs ++ '\n' :: rest).isEmpty = false := by cases cs <;> rfl
      simp only [h2, Bool.false_eq_true, if_false]
      rw [scanGo_found rest cs _ _ _ hcs]
      simp [lead, hsp]

theorem scan_lines (ls : List (List Char)) (h : ∀ l ∈ ls, '\n' ∉ l ∧ '\t' ∉ l) :
    scanGo (srcOf ls) [] false 0 0 = ls.map lineRec := by
  induction ls with
  | nil => simp [srcOf, scanGo]
  | cons l rest ih =>
    have hl := h l (by simp)
    have : srcOf (l :: rest) = l ++ '\n' :: srcOf rest := by simp [srcOf]
    rw [this, scanGo_line (srcOf rest) l [] 0 hl.1 hl.2, ih (fun x hx => h x (by simp [hx]))]
    simp [lineRec]

/-! ### the quoted document -/

def quoteLine (l : List Char) : List Char := if l.isEmpty then ['>'] else '>' :: ' ' :: l

theorem lead_quoteLine (l : List Char) : lead (quoteLine l) = 0 := by
  unfold quoteLine; split <;> simp [lead, isSpaceTab]

theorem quoteLine_clean (l : List Char) (h : Clean l) : '\n' ∉ quoteLine l ∧ '\t' ∉ quoteLine l := by
  unfold quoteLine
  split
  · simp
  · refine ⟨?_, ?_⟩ <;> (intro hm; simp only [List.mem_cons] at hm; rcases hm with hm | hm | hm)
    · cases hm
    · cases hm
    · exact h.1 hm
    · cases hm
    · cases hm
    · exact h.2.1 hm

theorem qLoop_spaces (bs : Nat) (adj : Int) : ∀ (l : List Char) (off : Int) (n : Nat), '\t' ∉ l →
    qLoop bs adj off l n = (off + (lead l : Int), n + lead l) := by
  intro l
  induction l with
  | nil => intro off n _; simp [qLoop, lead]
  | cons c cs ih =>
    intro off n hnt
    have hc : c ≠ '\t' := fun e => hnt (by simp [e])
    have hcs : '\t' ∉ cs := fun e => hnt (by simp [e])
    simp only [qLoop, hc, if_false]
    by_cases hsp : c = ' '
    · subst hsp
      simp only [if_true]
      rw [ih _ _ hcs]
      simp only [lead, isSpaceTab, beq_self_eq_true, Bool.true_or, if_true]
      simp only [Prod.mk.injEq]; constructor <;> omega
    · simp only [hsp, if_false]
      have : isSpaceTab c = false := by
        simp only [isSpaceTab, Bool.or_eq_false_iff, beq_eq_false_iff_ne]; exact ⟨hsp, hc⟩
      simp [lead, this]

/-- what the quote rule makes of a quoted line is the line of `D`, up to `bsCount` -/
theorem strip_quoteLine (l : List Char) (h : Clean l) :
    zb (quoteStrip (lineRec (quoteLine l))).1 = zb (lineRec l) := by
  have hb : (lineRec (quoteLine l)).body = quoteLine l := by
    simp [lineRec, mkLine, BLine.body, lead_quoteLine]
  simp only [quoteStrip, hb]
  unfold quoteLine
  split
  · rename_i he
    have : l = [] := by cases l <;> simp_all
    subst this
    simp [quoteHead, qLoop, lineRec, mkLine, zb, lead]
  · simp only [List.drop_succ_cons, List.drop_zero, quoteHead]
    rw [qLoop_spaces _ _ l _ 0 h.2.1]
    simp [lineRec, mkLine, zb, lead_quoteLine]
    omega

theorem quoteRec_props (l : List Char) :
    (lineRec (quoteLine l)).empty = false ∧ (lineRec (quoteLine l)).body.head? = some '>' ∧ (lineRec (quoteLine l)).sCount = 0 := by
  have hb : (lineRec (quoteLine l)).body = quoteLine l := by
    simp [lineRec, mkLine, BLine.body, lead_quoteLine]
  refine ⟨?_, ?_, ?_⟩
  · simp only [BLine.empty, lineRec, mkLine, lead_quoteLine]; unfold quoteLine; split <;> simp
  · rw [hb]; unfold quoteLine; split <;> rfl
  · simp [lineRec, mkLine, lead_quoteLine]

/-- the end-of-quote scan over lines that are all quoted: it strips every one of them and stops at the end of the range -/
theorem quoteScan_quoted (ts : List BRule) (n : Nat) : ∀ (fuel next : Nat) (le : Bool) (s : BState) (saved : List BLine),
    n - next < fuel → next ≤ n → n < s.lines.length →
    (∀ i, next ≤ i → i < n → ∃ l, s.lines[i]? = some l ∧ l.empty = false ∧ l.body.head? = some '>' ∧ ¬ (l.sCount < s.blkIndent)) →
    ∃ s2 saved2, quoteScan ts n fuel next le s saved = .ok (n, s2, saved2) ∧ s2.lines.length = s.lines.length
      ∧ (∀ i, (i < next ∨ n ≤ i) → s2.lines[i]? = s.lines[i]?)
      ∧ (∀ i, next ≤ i → i < n → ∃ l, s.lines[i]? = some l ∧ s2.lines[i]? = some (quoteStrip l).1)
      ∧ s2.line = s.line ∧ s2.lineMax = s.lineMax ∧ s2.blkIndent = s.blkIndent ∧ s2.level = s.level ∧ s2.tight = s.tight
      ∧ s2.tokens = s.tokens ∧ s2.listIndent = s.listIndent := by
  intro fuel
  induction fuel with
  | zero => intro next le s saved h; omega
  | succ f ih =>
    intro next le s saved hf hle hlen hq
    simp only [quoteScan]
    by_cases hlt : next < n
    · simp only [hlt, ↓reduceIte]
      obtain ⟨l, hl, hne, hhd, hout⟩ := hq next (Nat.le_refl _) hlt
      simp only [getL_of_here hl, hne, Bool.false_eq_true, ↓reduceIte, hhd, beq_self_eq_true, hout, decide_false, Bool.not_false, Bool.and_self]
      obtain ⟨s2, sv2, h1, h2, h3, h4, h5, h6, h7, h8, h9, h10, h11⟩ := ih (next + 1) (quoteStrip l).2 (s.setLine next (quoteStrip l).1) (saved ++ [l])
        (by omega) (by omega) (by simp; exact hlen)
        (by
          intro i hi1 hi2
          obtain ⟨l', a1, a2, a3, a4⟩ := hq i (by omega) hi2
          exact ⟨l', by simp only [setLine_lines]; rw [List.getElem?_set_ne (by omega)]; exact a1, a2, a3, a4⟩)
      refine ⟨s2, sv2, h1, by rw [h2]; simp, ?_, ?_, h5, h6, h7, h8, h9, h10, h11⟩
      · intro i hi
        rw [h3 i (by omega)]
        simp only [setLine_lines]
        rw [List.getElem?_set_ne (by omega)]
      · intro i hi1 hi2
        by_cases he : i = next
        · subst he
          refine ⟨l, hl, ?_⟩
          rw [h3 i (by omega)]
          simp only [setLine_lines]
          rw [List.getElem?_set_self (by omega)]
        · obtain ⟨l', a1, a2⟩ := h4 i (by omega) hi2
          refine ⟨l', ?_, a2⟩
          simp only [setLine_lines] at a1
          rw [List.getElem?_set_ne (by omega)] at a1
          exact a1
    · have : next = n := by omega
      subst this
      simp only [hlt, ↓reduceIte]
      exact ⟨s, saved, rfl, rfl, fun _ _ => rfl, fun i h1 h2 => absurd h2 (by omega), rfl, rfl, rfl, rfl, rfl, rfl, rfl⟩

/-- a loop none of whose lines is outdented runs to the end of its range -/
theorem loop_reaches_end (P : BState → Nat → Prop) (hP : FrameClosed P) (rules : List BRule) (hok : ∀ r ∈ rules, RuleOK P r)
    (maxNesting : Int) (endLine : Nat) :
    ∀ (fuel line : Nat) (hasEmpty : Bool) (s s' : BState), s.lineMax + 1 ≤ s.lines.length → endLine ≤ s.lineMax →
      P s endLine → (∀ (i : Nat) (l : BLine), s.lines[i]? = some l → s.blkIndent ≤ l.sCount) →
      blockLoop rules maxNesting endLine fuel line hasEmpty s = .ok s' → line < endLine → endLine ≤ s'.line := by
  intro fuel
  induction fuel with
  | zero =>
    intro line _ s s' _ _ _ _ h hlt
    simp only [blockLoop, hlt, ↓reduceIte] at h; cases h
  | succ n ih =>
    intro line hasEmpty s s' hlen hend hPs hall h hlt
    simp only [blockLoop, hlt, ↓reduceIte] at h
    have hsk := C01.skipEmptyLines_spec s (s.lineMax + 1) line hlen (by omega)
    generalize hl1 : skipEmptyLines s (s.lineMax + 1) line = line1 at hsk h
    split at h
    · rename_i hge; simp only [Except.ok.injEq] at h; subst h; exact hge
    · split at h
      · cases h
      · rename_i hnge l hl
        split at h
        · rename_i hout
          have := hall line1 l hl
          have hout' : l.sCount < s.blkIndent := hout
          omega
        · split at h
          · simp only [Except.ok.injEq] at h; subst h; exact Nat.le_refl _
          · split at h
            · cases h
            · rename_i hnout hlev _ mm s2 hc
              have hctx : CallCtx P { s with line := line1 } line1 endLine := by
                have hlt1 : line1 < s.lineMax := by omega
                obtain ⟨l', hl', hne'⟩ := hsk.2 hlt1
                have hll : l' = l := by
                  have : s.lines[line1]? = some l := hl
                  rw [this] at hl'; exact (Option.some.inj hl').symm
                subst hll
                exact ⟨hlen, by omega, hend, ⟨l', hl, hne', by simpa using hnout⟩, rfl, hP s _ _ ⟨⟨rfl, rfl⟩, rfl, rfl, rfl⟩ hPs⟩
              obtain ⟨m', s2', hc', hfr2, hprog, hmiss⟩ := C01.chain_ok P hP rules hok { s with line := line1 } line1 endLine hctx
              rw [hc] at hc'
              simp only [Except.ok.injEq, Prod.mk.injEq] at hc'
              obtain ⟨e1, e2⟩ := hc'; subst e1; subst e2
              split at h
              · cases h
              · have hlen2 : s2.lineMax + 1 ≤ s2.lines.length := by rw [hfr2.1.1, hfr2.2.1]; exact hlen
                have hend2 : endLine ≤ s2.lineMax := by rw [hfr2.2.1]; exact hend
                have fin : ∀ (l' : Nat) (he : Bool) (st : BState), st.lineMax + 1 ≤ st.lines.length → endLine ≤ st.lineMax →
                    s2.FrameEq st → st.line = l' →
                    blockLoop rules maxNesting endLine n l' he st = .ok s' → endLine ≤ s'.line := by
                  intro l' he st hl hE hfe hstl hrec
                  have hfs : s.FrameEq st := C01.frameEq_trans (C01.frameEq_trans ⟨⟨rfl, rfl⟩, rfl, rfl, rfl⟩ hfr2) hfe
                  have hPst : P st endLine := hP _ _ _ hfs hPs
                  by_cases hlt2 : l' < endLine
                  · exact ih l' he st s' hl hE hPst (by intro i x hx; rw [hfs.1.1] at hx; rw [hfs.2.2.1]; exact hall i x hx) hrec hlt2
                  · have hge := C03.loop_line_ge P hP rules hok maxNesting endLine n l' he st s' hl hE hPst hrec
                    have := hge.2 hlt2; rw [this, hstl]; omega
                split at h
                · cases h
                · split at h
                  · split at h
                    · cases h
                    · split at h
                      · exact fin (s2.line + 1) _ { s2 with tight := !hasEmpty, line := s2.line + 1 } hlen2 hend2 ⟨⟨rfl, rfl⟩, rfl, rfl, rfl⟩ rfl h
                      · exact fin s2.line _ { s2 with tight := !hasEmpty } hlen2 hend2 ⟨⟨rfl, rfl⟩, rfl, rfl, rfl⟩ rfl h
                  · exact fin s2.line _ { s2 with tight := !hasEmpty } hlen2 hend2 ⟨⟨rfl, rfl⟩, rfl, rfl, rfl⟩ rfl h

/-! ### small evaluation lemmas -/

theorem code_declines (codeOn : Bool) (s : BState) (line endLine : Nat) (l : BLine) (hl : s.lines[line]? = some l)
    (h : isCodeLine codeOn s l = false) : ruleCode codeOn s line endLine false = .ok (false, s) := by
  simp [ruleCode, getL_of_here hl, h]

theorem fence_declines (codeOn : Bool) (s : BState) (line endLine : Nat) (l : BLine) (hl : s.lines[line]? = some l)
    (h : l.body.head? = some '>') : ruleFence codeOn s line endLine false = .ok (false, s) := by
  simp only [ruleFence, getL_of_here hl]
  split
  · rfl
  · split
    · rfl
    · cases hb : l.body with
      | nil => rfl
      | cons m rest =>
        rw [hb] at h; simp at h; subst h
        simp

theorem runBlockChain_skip (a b : List BRule) (s : BState) (line endLine : Nat)
    (h : ∀ r ∈ a, r s line endLine false = .ok (false, s)) : runBlockChain (a ++ b) s line endLine = runBlockChain b s line endLine := by
  induction a with
  | nil => rfl
  | cons r rest ih =>
    simp only [List.cons_append, runBlockChain, h r (by simp)]
    exact ih (fun q hq => h q (by simp [hq]))

theorem runBlockChain_hit (r : BRule) (rest : List BRule) (s s' : BState) (line endLine : Nat)
    (h : r s line endLine false = .ok (true, s')) : runBlockChain (r :: rest) s line endLine = .ok (true, s') := by
  simp [runBlockChain, h]

/-- a loop whose first dispatch, on line 0, consumes the whole range -/
theorem loop_one_block (rules : List BRule) (mn : Int) (n f : Nat) (s s2 : BState) (l0 : BLine)
    (hmax : s.lineMax = n) (hn : 0 < n) (hlen : n < s.lines.length) (hl0 : s.lines[0]? = some l0) (hne : l0.empty = false)
    (hout : ¬ l0.sCount < s.blkIndent) (hlev : ¬ s.level ≥ mn)
    (hrun : runBlockChain rules { s with line := 0 } 0 n = .ok (true, s2)) (h2line : s2.line = n) (h2len : s2.lines.length = s.lines.length) :
    blockLoop rules mn n (f + 2) 0 false s = .ok { s2 with tight := true } := by
  subst h2line
  have hsk : skipEmptyLines s (s.lineMax + 1) 0 = 0 := by
    rw [hmax]; simp only [skipEmptyLines, hmax, hn, ↓reduceIte, hl0, hne, Bool.false_eq_true]
  simp only [blockLoop, hn, ↓reduceIte, hsk, hl0]
  have h1 : ¬ (0 ≥ s2.line) := by omega
  simp only [h1, ↓reduceIte, hout, hlev, hrun]
  have h4 : ((s2.line : Int) - 1 < (s2.line : Int)) := by omega
  simp only [h4, ↓reduceIte, Bool.not_false]
  obtain ⟨b, hb⟩ := isEmpty_ok ({ s2 with tight := true } : BState) (s2.line - 1) (by show s2.line - 1 < s2.lines.length; omega)
  have hc : ((s2.line - 1 : Nat) : Int) = (s2.line : Int) - 1 := by omega
  rw [hc] at hb
  simp only [hb, Nat.lt_irrefl, ↓reduceIte]

/-! ### the states the two parses start from -/

def stD (ls : List (List Char)) : BState :=
  { lines := ls.map lineRec ++ [sentinelLine], line := 0, lineMax := ls.length, blkIndent := 0, level := 0, tight := false, parentType := "root", tokens := [] }

theorem mem_srcOf (ls : List (List Char)) (c : Char) : c ∈ srcOf ls ↔ (∃ l ∈ ls, c ∈ l) ∨ (c = '\n' ∧ ls ≠ []) := by
  induction ls with
  | nil => simp [srcOf]
  | cons l rest ih =>
    have : srcOf (l :: rest) = l ++ '\n' :: srcOf rest := by simp [srcOf]
    rw [this]
    simp only [List.mem_append, List.mem_cons, ih, ne_eq, reduceCtorEq, not_false_eq_true, and_true, exists_eq_or_imp]
    constructor
    · rintro (h | h | (h | h))
      · exact .inl (.inl h)
      · exact .inr h
      · exact .inl (.inr h)
      · exact .inr h.1
    · rintro ((h | h) | h)
      · exact .inl h
      · exact .inr (.inr (.inl h))
      · exact .inr (.inl h)

theorem normNul_id (s : List Char) (h : '\x00' ∉ s) : normNul s = s := by
  unfold normNul
  induction s with
  | nil => rfl
  | cons c rest ih =>
    have hc : c ≠ '\x00' := fun e => h (by simp [e])
    simp only [List.map_cons, hc, if_false]
    rw [ih (fun m => h (List.mem_cons_of_mem _ m))]

theorem normalize_srcOf (ls : List (List Char)) (h : ∀ l ∈ ls, '\r' ∉ l ∧ '\x00' ∉ l) : normalize (srcOf ls) = srcOf ls := by
  unfold normalize
  rw [C17.normNewlines_noCR, normNul_id]
  · intro hm
    rcases (mem_srcOf ls _).1 hm with ⟨l, hl, hc⟩ | ⟨hc, _⟩
    · exact (h l hl).2 hc
    · cases hc
  · intro hm
    rcases (mem_srcOf ls _).1 hm with ⟨l, hl, hc⟩ | ⟨hc, _⟩
    · exact (h l hl).1 hc
    · cases hc

theorem init_srcOf (ls : List (List Char)) (h : ∀ l ∈ ls, '\n' ∉ l ∧ '\t' ∉ l) : initBState (srcOf ls) = stD ls := by
  simp only [initBState, scan_lines ls h, stD, List.length_map]

theorem quoteLine_cr (l : List Char) (h : Clean l) : '\r' ∉ quoteLine l ∧ '\x00' ∉ quoteLine l := by
  unfold quoteLine
  split
  · simp
  · refine ⟨?_, ?_⟩ <;> (intro hm; simp only [List.mem_cons] at hm; rcases hm with hm | hm | hm)
    · cases hm
    · cases hm
    · exact h.2.2.1 hm
    · cases hm
    · cases hm
    · exact h.2.2.2 hm

theorem stD_get (ls : List (List Char)) (i : Nat) (hi : i < ls.length) : (stD ls).lines[i]? = some (lineRec ls[i]) := by
  simp only [stD]
  rw [List.getElem?_append_left (by simpa using hi)]
  simp [hi]

theorem stD_sentinel (ls : List (List Char)) : (stD ls).lines[ls.length]? = some sentinelLine := by
  simp only [stD]
  rw [List.getElem?_append_right (by simp)]
  simp

theorem stD_len (ls : List (List Char)) : (stD ls).lines.length = ls.length + 1 := by simp [stD]

theorem restoreLines_length (saved : List BLine) : ∀ (s : BState) (start : Nat), (restoreLines s start saved).lines.length = s.lines.length := by
  induction saved with
  | nil => intro s start; rfl
  | cons l rest ih => intro s start; simp only [restoreLines]; rw [ih]; simp

/-- the tokens that frame the quoted document -/
def quoteOpen (n : Nat) : Tok := .mk "blockquote_open" "blockquote" 1 [] (some (0, n)) 0 none "" ">" "" [] true false
def quoteClose : Tok := .mk "blockquote_close" "blockquote" (-1) [] none 0 none "" ">" "" [] true false

/-- the quote rule on the quoted document: one quote over all lines, whose nested run is the run on `D` one level deeper -/
theorem quote_rule_law (codeOn : Bool) (ts' inner inner' : List BRule) (mn : Int) (ls : List (List Char)) (hcl : ∀ l ∈ ls, Clean l)
    (hne : ls ≠ []) (hin : Sims 1 inner inner') (tD : BState) (hD : blockTokenize inner mn (stD ls) 0 ls.length = .ok tD)
    (hline : tD.line = ls.length) (hfr : (stD ls).FrameEq tD) :
    ∃ sF, ruleBlockquote codeOn ts' inner' (mn + 1) (stD (ls.map quoteLine)) 0 ls.length false = .ok (true, sF)
      ∧ sF.line = ls.length ∧ sF.lines.length = (stD (ls.map quoteLine)).lines.length
      ∧ sF.tokens = quoteOpen ls.length :: tD.tokens.map (Tok.shift 1) ++ [quoteClose] := by
  have hn : 0 < ls.length := List.length_pos_iff.mpr hne
  have hqlen : (ls.map quoteLine).length = ls.length := by simp
  have hq : ∀ i (hi : i < ls.length), (stD (ls.map quoteLine)).lines[i]? = some (lineRec (quoteLine ls[i])) := by
    intro i hi
    rw [stD_get _ i (by simpa using hi)]; simp
  have h0 := hq 0 hn
  obtain ⟨p1, p2, p3⟩ := quoteRec_props ls[0]
  have hcode : isCodeLine codeOn (stD (ls.map quoteLine)) (lineRec (quoteLine ls[0])) = false := by
    simp [isCodeLine, p3, stD]
  unfold ruleBlockquote
  simp only [getL_of_here h0, hcode, p2, beq_self_eq_true, Bool.not_true, Bool.false_eq_true, ↓reduceIte]
  obtain ⟨s2, sv2, hscan, h2len, h2out, h2in, h2line, h2max, h2blk, h2lev, h2tight, h2tok, h2li⟩ :=
    quoteScan_quoted ts' ls.length (ls.length - 0 + 1) (0 + 1) (quoteStrip (lineRec (quoteLine ls[0]))).2
      { ((stD (ls.map quoteLine)).setLine 0 (quoteStrip (lineRec (quoteLine ls[0]))).1) with parentType := "blockquote" } [lineRec (quoteLine ls[0])]
      (by omega) (by omega) (by show ls.length < (List.set _ _ _).length; simp [stD])
      (by
        intro i hi1 hi2
        refine ⟨lineRec (quoteLine ls[i]), ?_, (quoteRec_props ls[i]).1, (quoteRec_props ls[i]).2.1, ?_⟩
        · show (List.set _ _ _)[i]? = _
          rw [List.getElem?_set_ne (by omega)]; exact hq i hi2
        · rw [(quoteRec_props ls[i]).2.2]; show ¬ ((0 : Int) < 0); omega)
  simp only [hscan]
  -- the lines the nested run sees
  have hs2 : ∀ i (hi : i < ls.length), s2.lines[i]? = some (quoteStrip (lineRec (quoteLine ls[i]))).1 := by
    intro i hi
    by_cases h0i : i = 0
    · subst h0i
      rw [h2out 0 (by omega)]
      show (List.set _ _ _)[0]? = _
      rw [List.getElem?_set_self (by simp [stD])]
    · obtain ⟨l, a1, a2⟩ := h2in i (by omega) hi
      have a1' : (List.set (stD (ls.map quoteLine)).lines 0 _)[i]? = some l := a1
      rw [List.getElem?_set_ne (by omega), hq i hi] at a1'
      cases a1'; exact a2
  have hs2n : s2.lines[ls.length]? = some sentinelLine := by
    rw [h2out _ (by omega)]
    show (List.set _ _ _)[ls.length]? = _
    rw [List.getElem?_set_ne (by omega)]
    have := stD_sentinel (ls.map quoteLine); rw [hqlen] at this; exact this
  have hs2len : s2.lines.length = ls.length + 1 := by
    rw [h2len]; show (List.set _ _ _).length = _; simp [stD]
  have hLR : LR (stD ls).lines s2.lines := by
    apply List.ext_getElem?
    intro i
    simp only [List.getElem?_map]
    by_cases hi : i < ls.length
    · rw [stD_get ls i hi, hs2 i hi]
      simp only [Option.map_some]
      rw [strip_quoteLine _ (hcl _ (List.getElem_mem hi))]
    · by_cases hi2 : i = ls.length
      · subst hi2; rw [stD_sentinel, hs2n]
      · rw [List.getElem?_eq_none (by rw [stD_len]; omega), List.getElem?_eq_none (by rw [hs2len]; omega)]
  have hNT : NoTab (stD ls).lines := by
    intro l hl
    simp only [stD, List.mem_append, List.mem_map, List.mem_singleton] at hl
    rcases hl with ⟨x, hx, rfl⟩ | rfl
    · exact (hcl x hx).2.1
    · simp [sentinelLine]
  have hsr3 : SR 1 [quoteOpen 0] (stD ls)
      (({ s2 with blkIndent := 0 }).pushFull "blockquote_open" "blockquote" 1 (some (0, 0)) none "" ">" "") := by
    refine ⟨hLR, hNT, ?_, ?_, rfl, ?_, ?_, ?_, ?_⟩
    · show s2.line = 0; rw [h2line]; rfl
    · show s2.lineMax = ls.length; rw [h2max]; show (ls.map quoteLine).length = _; simp
    · rw [pushFull_level_open]; show s2.level + 1 = (0 : Int) + 1; rw [h2lev]; rfl
    · show s2.tight = false; rw [h2tight]; rfl
    · show s2.listIndent = -1; rw [h2li]; rfl
    · rw [pushFull_tokens]; show s2.tokens ++ _ = _; rw [h2tok]
      show [] ++ _ = _
      simp only [List.nil_append, stD, List.map_nil, List.append_nil, pushedTok, quoteOpen]
      have : s2.level = 0 := by rw [h2lev]; rfl
      simp [this]
  obtain ⟨t', hr', hsr4⟩ := blockTokenize_sim hin mn 0 ls.length tD hsr3 hD
  simp only [hr']
  refine ⟨_, rfl, ?_, ?_, ?_⟩
  · show (restoreLines _ 0 sv2).line = _
    rw [(restoreLines_fields sv2 _ 0).2.2.2.2.1]
    show t'.line = _
    rw [hsr4.line, hline]
  · show (restoreLines _ 0 sv2).lines.length = _
    rw [restoreLines_length]
    show t'.lines.length = _
    rw [hsr4.lines.length]
    rw [hfr.1.1, stD_len, stD_len]; simp
  · show (restoreLines _ 0 sv2).tokens = _
    rw [(restoreLines_fields sv2 _ 0).2.2.2.1]
    show List.modify (t'.pushFull "blockquote_close" "blockquote" (-1) none none "" ">" "").tokens s2.tokens.length _ = _
    rw [pushFull_tokens, hsr4.tokens, h2tok]
    show List.modify _ 0 _ = _
    have hl' : t'.level = 1 := by rw [hsr4.level, hfr.2.2.2]; rfl
    simp only [List.cons_append, List.modify_zero_cons, pushedTok, hl', quoteOpen, quoteClose, Tok.setMap]
    simp
    rw [hsr4.line, hline]

/-- **C06.quote_law** — for every document `D` given by its lines (no tab, CR, NUL or line feed inside a line; at least one line),
every subset of `code`, `fence`, `hr`, `heading`, every white-space table and every `maxNesting ≥ 0`: prefixing every line of `D`
with `"> "` (`">"` for an empty line) parses, with one more level of nesting allowed, to exactly one block quote spanning all lines
whose content is the token stream of `D` one level deeper — same types, contents, maps, everything but `level`. -/
theorem quote_law (c : MiniCfg) (ws : List Nat) (mn : Int) (hmn : 0 ≤ mn) (ls : List (List Char)) (hne : ls ≠ [])
    (hcl : ∀ l ∈ ls, Clean l) (tsD : List Tok) (hD : qParse c ws mn (srcOf ls) = .ok tsD) :
    qParse c ws (mn + 1) (srcOf (ls.map quoteLine)) = .ok (quoteOpen ls.length :: tsD.map (Tok.shift 1) ++ [quoteClose]) := by
  have hn : 0 < ls.length := List.length_pos_iff.mpr hne
  obtain ⟨l0, rest, rfl⟩ := List.exists_cons_of_ne_nil hne
  have hsrcD : (srcOf (l0 :: rest)).isEmpty = false := by simp [srcOf]
  have hsrcQ : (srcOf ((l0 :: rest).map quoteLine)).isEmpty = false := by simp [srcOf]
  have hclQ : ∀ l ∈ (l0 :: rest).map quoteLine, '\n' ∉ l ∧ '\t' ∉ l := by
    intro l hl; rw [List.mem_map] at hl; obtain ⟨x, hx, rfl⟩ := hl; exact quoteLine_clean x (hcl x hx)
  have hclQ2 : ∀ l ∈ (l0 :: rest).map quoteLine, '\r' ∉ l ∧ '\x00' ∉ l := by
    intro l hl; rw [List.mem_map] at hl; obtain ⟨x, hx, rfl⟩ := hl; exact quoteLine_cr x (hcl x hx)
  -- the parse of `D`
  unfold qParse at hD
  simp only [hsrcD, Bool.false_eq_true, ↓reduceIte, normalize_srcOf _ (fun l hl => ⟨(hcl l hl).2.2.1, (hcl l hl).2.2.2⟩),
    init_srcOf _ (fun l hl => ⟨(hcl l hl).1, (hcl l hl).2.1⟩)] at hD
  have hmaxD : (stD (l0 :: rest)).lineMax = (l0 :: rest).length := rfl
  rw [hmaxD] at hD
  obtain ⟨hok, hinner⟩ := C01.qChain_ok c ws mn (mn.toNat + 1)
  have hlvD : C01.Lv mn (mn.toNat + 1) (stD (l0 :: rest)) (l0 :: rest).length := by
    unfold C01.Lv; show mn + 1 ≤ (0 : Int) + ((mn.toNat + 1 : Nat) : Int); omega
  have hlenD : (stD (l0 :: rest)).lineMax + 1 ≤ (stD (l0 :: rest)).lines.length := by rw [stD_len]; exact Nat.le_refl _
  obtain ⟨tD, hrun, hfr, hpost⟩ := hinner (stD (l0 :: rest)) 0 (l0 :: rest).length hlenD (Nat.le_refl _) hlvD
  rw [hrun] at hD
  simp only [Except.ok.injEq] at hD
  subst hD
  have hle : tD.line ≤ (l0 :: rest).length := (hpost.1 hn).2.1
  have hge : (l0 :: rest).length ≤ tD.line := by
    refine loop_reaches_end (C01.Lv mn (mn.toNat + 1)) (C01.lv_closed _ _) _ hok mn (l0 :: rest).length _ 0 false (stD (l0 :: rest)) tD hlenD
      (Nat.le_refl _) hlvD ?_ hrun hn
    intro i l hl
    show (0 : Int) ≤ l.sCount
    have hm := List.mem_of_getElem? hl
    simp only [stD, List.mem_append, List.mem_map, List.mem_singleton] at hm
    rcases hm with ⟨x, _, rfl⟩ | rfl
    · simp [lineRec, mkLine]
    · simp [sentinelLine]
  have hline : tD.line = (l0 :: rest).length := by omega
  -- the parse of the quoted document
  unfold qParse
  simp only [hsrcQ, Bool.false_eq_true, ↓reduceIte, normalize_srcOf _ hclQ2, init_srcOf _ hclQ]
  have hmaxQ : (stD ((l0 :: rest).map quoteLine)).lineMax = (l0 :: rest).length := by simp [stD]
  have hd : (mn + 1).toNat + 1 = (mn.toNat + 1) + 1 := by omega
  rw [hmaxQ, hd]
  obtain ⟨sF, hrule, hFline, hFlen, hFtok⟩ := quote_rule_law c.code (qTerminators c ws (mn + 1)) (qChain c ws mn (mn.toNat + 1))
    (qChain c ws (mn + 1) (mn.toNat + 1)) mn (l0 :: rest) hcl hne (qChain_sims 1 c ws mn (mn.toNat + 1)) tD hrun hline hfr
  have hq0 : (stD ((l0 :: rest).map quoteLine)).lines[0]? = some (lineRec (quoteLine l0)) := by
    simp [stD]
  obtain ⟨p1, p2, p3⟩ := quoteRec_props l0
  have hchain : runBlockChain (qChain c ws (mn + 1) (mn.toNat + 1 + 1)) { stD ((l0 :: rest).map quoteLine) with line := 0 } 0 (l0 :: rest).length
      = .ok (true, sF) := by
    have he : ({ stD ((l0 :: rest).map quoteLine) with line := 0 } : BState) = stD ((l0 :: rest).map quoteLine) := rfl
    rw [he]
    unfold qChain
    simp only [List.append_assoc]
    rw [runBlockChain_skip, runBlockChain_skip]
    · exact runBlockChain_hit _ _ _ _ _ _ hrule
    · intro r hr
      split at hr
      · simp only [List.mem_singleton] at hr; subst hr
        exact fence_declines _ _ _ _ _ hq0 p2
      · cases hr
    · intro r hr
      split at hr
      · simp only [List.mem_singleton] at hr; subst hr
        exact code_declines _ _ _ _ _ hq0 (by simp [isCodeLine, p3, stD])
      · cases hr
  have hloop := loop_one_block (qChain c ws (mn + 1) (mn.toNat + 1 + 1)) (mn + 1) (l0 :: rest).length ((l0 :: rest).length - 1)
    (stD ((l0 :: rest).map quoteLine)) sF (lineRec (quoteLine l0)) hmaxQ hn (by rw [stD_len]; simp) hq0 p1
    (by rw [p3]; show ¬ ((0 : Int) < 0); omega) (by show ¬ ((0 : Int) ≥ mn + 1); omega) hchain hFline hFlen
  unfold blockTokenize
  have hf : (l0 :: rest).length - 0 + 1 = (l0 :: rest).length - 1 + 2 := by omega
  rw [hf, hloop]
  simp only [Except.ok.injEq]
  exact hFtok

/-- the same with the parse of `D` supplied by `q_total` -/
theorem quote_law_total (c : MiniCfg) (ws : List Nat) (mn : Int) (hmn : 0 ≤ mn) (ls : List (List Char)) (hne : ls ≠ [])
    (hcl : ∀ l ∈ ls, Clean l) :
    ∃ tsD, qParse c ws mn (srcOf ls) = .ok tsD ∧
      qParse c ws (mn + 1) (srcOf (ls.map quoteLine)) = .ok (quoteOpen ls.length :: tsD.map (Tok.shift 1) ++ [quoteClose]) := by
  obtain ⟨tsD, h⟩ := C01.q_total c ws mn (srcOf ls)
  exact ⟨tsD, h, quote_law c ws mn hmn ls hne hcl tsD h⟩

/-! non-vacuity: a document with a heading, a paragraph, a nested quote with lazy continuation, a fence and a rule satisfies the
hypotheses, and the two sides of the law evaluate as stated -/
def demoDoc : List (List Char) := ["# h".toList, "".toList, "> q".toList, "lazy".toList, "".toList, "```".toList, "f".toList, "```".toList, "***".toList]

example : demoDoc ≠ [] ∧ (∀ l ∈ demoDoc, Clean l) := by
  refine ⟨by decide, ?_⟩
  intro l hl
  simp only [demoDoc, List.mem_cons, List.not_mem_nil, or_false] at hl
  rcases hl with rfl | rfl | rfl | rfl | rfl | rfl | rfl | rfl | rfl <;> (unfold Clean; decide)

example : C01.typesOf (qParse ⟨true, true, true, true⟩ [32, 9, 10] 4 (srcOf demoDoc))
    = some ["heading_open", "inline", "heading_close", "blockquote_open", "paragraph_open", "inline", "paragraph_close", "blockquote_close",
            "fence", "hr"] := by decide +kernel

example : C01.typesOf (qParse ⟨true, true, true, true⟩ [32, 9, 10] 5 (srcOf (demoDoc.map quoteLine)))
    = some ["blockquote_open", "heading_open", "inline", "heading_close", "blockquote_open", "paragraph_open", "inline", "paragraph_close",
            "blockquote_close", "fence", "hr", "blockquote_close"] := by decide +kernel

end MdIt.C06
