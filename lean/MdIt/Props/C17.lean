import MdIt.Str
import MdIt.Proofs.Str
/-!
# C17 — equivalent encodings parse identically: line endings, NUL, structural tabs

`normalize` is the first core rule and nothing else reads the raw source (T1 pins the rule order),
so equal `normalize` results mean equal token streams (maps included) and equal rendered output.
-/
namespace MdIt.C17

def noCR (s : List Char) : Prop := '\r' ∉ s

theorem normNewlines_noCR (s : List Char) (h : noCR s) : normNewlines s = s := by
  induction s with
  | nil => rfl
  | cons c rest ih =>
    have hc : c ≠ '\r' := fun e => h (by simp [e])
    have hr : noCR rest := fun m => h (List.mem_cons_of_mem _ m)
    rw [nn_other c rest hc, ih hr]

/-- **C17.newlines (CR LF)** -/
theorem crlf_same (s : List Char) (h : noCR s) : normalize (toCRLF s) = normalize s := by
  unfold normalize
  congr 1
  rw [normNewlines_noCR s h]
  induction s with
  | nil => rfl
  | cons c rest ih =>
    have hr : noCR rest := fun m => h (List.mem_cons_of_mem _ m)
    have hc : c ≠ '\r' := fun e => h (by simp [e])
    have ih' := ih hr
    simp only [toCRLF] at ih'
    by_cases hn : c = '\n'
    · subst hn
      simp only [toCRLF, List.flatMap_cons, if_true, List.cons_append, List.nil_append]
      rw [nn_crlf, ih']
    · simp only [toCRLF, List.flatMap_cons, hn, if_false, List.cons_append, List.nil_append]
      rw [nn_other c _ hc, ih']

/-- **C17.newlines (mixtures)** — every spelling of the line feeds of a CR-free source (LF, CR LF,
lone CR, independently per line ending) normalises to the same string as the source itself. -/
theorem mixed_same (s s' : List Char) (hm : Mixed s s') (h : noCR s) :
    normNewlines s' = s := by
  induction hm with
  | nil => rfl
  | keep c hc hm ih =>
    rename_i t t'
    have hr : noCR t := fun m => h (List.mem_cons_of_mem _ m)
    have hcr : c ≠ '\r' := fun e => h (by simp [e])
    rw [nn_other c _ hcr, ih hr]
  | lf hm ih =>
    rename_i t t'
    have hr : noCR t := fun m => h (List.mem_cons_of_mem _ m)
    rw [nn_other '\n' _ (by decide), ih hr]
  | crlf hm ih =>
    rename_i t t'
    have hr : noCR t := fun m => h (List.mem_cons_of_mem _ m)
    rw [nn_crlf, ih hr]
  | cr hm hne ih =>
    rename_i t t'
    have hr : noCR t := fun m => h (List.mem_cons_of_mem _ m)
    rw [nn_cr _ hne, ih hr]

theorem normalize_mixed (s s' : List Char) (hm : Mixed s s') (h : noCR s) :
    normalize s' = normalize s := by
  unfold normalize; rw [mixed_same s s' hm h, normNewlines_noCR s h]

/-- the lone-CR encoding of a whole document is such a mixture -/
theorem mixed_toCR (s : List Char) (h : noCR s) : Mixed s (toCR s) := by
  induction s with
  | nil => exact .nil
  | cons c rest ih =>
    have hr : noCR rest := fun m => h (List.mem_cons_of_mem _ m)
    by_cases hn : c = '\n'
    · subst hn
      simp only [toCR, List.map_cons, if_true]
      refine .cr (ih hr) ?_
      cases rest with
      | nil => simp
      | cons d r => simp only [List.map_cons, List.head?_cons]; by_cases hd : d = '\n' <;> simp [hd]
    · simp only [toCR, List.map_cons, hn, if_false]
      exact .keep c hn (ih hr)

/-- **C17.newlines (lone CR)** -/
theorem cr_same (s : List Char) (h : noCR s) : normalize (toCR s) = normalize s :=
  normalize_mixed s _ (mixed_toCR s h) h

theorem normNewlines_noCR_out (t : List Char) : '\r' ∉ normNewlines t := by
  induction t using normNewlines.induct with
  | case1 => simp
  | case2 rest ih => rw [nn_crlf]; simp [ih]
  | case3 rest hne ih =>
    rw [nn_cr rest (by cases rest with | nil => simp | cons d r => simp; intro e; exact hne r (by rw [e]))]
    simp [ih]
  | case4 c rest h1 h2 ih =>
    have hc : c ≠ '\r' := h2
    rw [nn_other c rest hc]
    simp only [List.mem_cons, not_or]
    exact ⟨fun e => hc e.symm, ih⟩

/-- no CR and no NUL ever reaches the parser (hence a token's content) -/
theorem normalize_clean (s : List Char) : '\r' ∉ normalize s ∧ '\x00' ∉ normalize s := by
  constructor
  · intro hm
    simp only [normalize, normNul, List.mem_map] at hm
    obtain ⟨c, hc, hcr⟩ := hm
    by_cases h0 : c = '\x00'
    · simp [h0] at hcr
    · simp only [h0, if_false] at hcr; subst hcr; exact normNewlines_noCR_out s hc
  · intro hm
    simp only [normalize, normNul, List.mem_map] at hm
    obtain ⟨c, _, hcr⟩ := hm
    by_cases h0 : c = '\x00'
    · simp [h0] at hcr
    · simp [h0] at hcr

/-- a NUL character behaves exactly like U+FFFD -/
theorem nul_like_fffd (s : List Char) :
    normalize (s.map (fun c => if c = '\x00' then '�' else c)) = normalize s := by
  unfold normalize normNul
  have key : ∀ t : List Char, normNewlines (t.map (fun c => if c = '\x00' then '�' else c))
      = (normNewlines t).map (fun c => if c = '\x00' then '�' else c) := by
    intro t
    induction t using normNewlines.induct with
    | case1 => rfl
    | case2 rest ih =>
      simp only [List.map_cons, show ('\r' = '\x00') = False by decide, show ('\n' = '\x00') = False by decide, if_false]
      rw [nn_crlf, nn_crlf, ih]; simp
    | case3 rest hne ih =>
      have hh : rest.head? ≠ some '\n' := by
        cases rest with
        | nil => simp
        | cons d r => simp; intro e; exact hne r (by rw [e])
      have hh' : (rest.map (fun c => if c = '\x00' then '�' else c)).head? ≠ some '\n' := by
        cases rest with
        | nil => simp
        | cons d r =>
          have hd : d ≠ '\n' := by intro e; exact hne r (by rw [e])
          simp only [List.map_cons, List.head?_cons, ne_eq, Option.some.injEq]
          by_cases h0 : d = '\x00' <;> simp [h0, hd]
      simp only [List.map_cons, show ('\r' = '\x00') = False by decide, if_false]
      rw [nn_cr _ hh, nn_cr _ hh', ih]; simp
    | case4 c rest h1 h2 ih =>
      have hc : c ≠ '\r' := h2
      have hc' : (if c = '\x00' then '�' else c) ≠ '\r' := by
        by_cases h0 : c = '\x00' <;> simp [h0, hc]
      simp only [List.map_cons]
      rw [nn_other _ _ hc, nn_other _ _ hc', ih]; simp
  rw [key, List.map_map]
  congr 1
  funext c
  by_cases h0 : c = '\x00' <;> simp [h0]

/-! ### structural tabs -/

theorem colAfter_spaces (col n : Nat) : colAfter col (List.replicate n ' ') = col + n := by
  induction n generalizing col with
  | zero => rfl
  | succ k ih =>
    simp only [List.replicate_succ, colAfter, show (' ' = '\t') = False by decide, if_false, ih]
    omega

theorem colAfter_mono (l : List Char) (c : Nat) : c ≤ colAfter c l := by
  induction l generalizing c with
  | nil => exact Nat.le_refl _
  | cons x xs ih =>
    simp only [colAfter]
    by_cases hx : x = '\t'
    · simp only [hx, if_true]; exact Nat.le_trans (by omega) (ih _)
    · simp only [hx, if_false]; exact Nat.le_trans (by omega) (ih _)

/-- **C17.indent_cols** — re-spelling a line's leading blanks column-exactly (tabs replaced by the
spaces that reach the same column) leaves the line's indent in columns unchanged. -/
theorem indent_cols (ws : List Char) (col : Nat) :
    colAfter col (List.replicate (colAfter col ws - col) ' ') = colAfter col ws := by
  rw [colAfter_spaces]
  have := colAfter_mono ws col
  omega

/-- the loop of the block-quote rule tracks the absolute column: with `abs = offset + bs + adj` -/
theorem quoteLoop_abs (bs adj : Nat) (ws : List Char) (hws : ∀ c ∈ ws, c = ' ' ∨ c = '\t')
    (offset n : Nat) :
    (quoteLoop bs adj offset ws n).1 + bs + adj = colAfter (offset + bs + adj) ws
    ∧ (quoteLoop bs adj offset ws n).2 = n + ws.length := by
  induction ws generalizing offset n with
  | nil => simp [quoteLoop, colAfter]
  | cons c rest ih =>
    have hr : ∀ c ∈ rest, c = ' ' ∨ c = '\t' := fun c hc => hws c (List.mem_cons_of_mem _ hc)
    rcases hws c (by simp) with hc | hc
    · subst hc
      have := ih hr (offset + 1) (n + 1)
      simp only [quoteLoop, colAfter, show (' ' = '\t') = False by decide, if_false, if_true, List.length_cons]
      constructor
      · rw [this.1]; congr 1; omega
      · rw [this.2]; omega
    · subst hc
      have := ih hr (offset + (4 - (offset + bs + adj) % 4)) (n + 1)
      simp only [quoteLoop, colAfter, if_true, List.length_cons]
      constructor
      · rw [this.1]; congr 1; omega
      · rw [this.2]; omega

/-- **C17.marker_tab** — after a block-quote marker followed by a non-empty run of blanks `ws`
(any mixture of spaces and tabs), the offsets the rule records depend only on the *absolute column*
that the run reaches, counted from the start of the physical line (`bs` = inherited offset of the
logical line start, `sc` = column of the marker): the new indent is that column minus
`bs + sc + 2`, the new inherited offset is `bs + sc + 2`.  Hence two spellings of the run that end on
the same column — spaces, or tabs where a tab ends on a tab stop — give identical records, at any
nesting depth. -/
theorem marker_tab (bs sc : Nat) (ws : List Char) (hne : ws ≠ [])
    (hws : ∀ c ∈ ws, c = ' ' ∨ c = '\t') :
    (quoteOffsets true bs sc ws).sCount = (colAfter (bs + sc + 1) ws : Int) - (bs + sc + 2 : Nat)
    ∧ (quoteOffsets true bs sc ws).bsCount = bs + sc + 2
    ∧ (quoteOffsets true bs sc ws).tShiftEnd = ws.length := by
  cases ws with
  | nil => exact absurd rfl hne
  | cons c rest =>
    have hr : ∀ c ∈ rest, c = ' ' ∨ c = '\t' := fun c hc => hws c (List.mem_cons_of_mem _ hc)
    rcases hws c (by simp) with hc | hc
    · subst hc
      have h := quoteLoop_abs bs 0 rest hr (sc + 2) 0
      have e : sc + 2 + bs + 0 = bs + sc + 1 + 1 := by omega
      rw [e] at h
      have h1 := h.1
      have h2 := h.2
      simp only [quoteOffsets, if_true, colAfter, show (' ' = '\t') = False by decide, if_false, List.length_cons,
        ↓reduceIte]
      refine ⟨?_, ?_, ?_⟩ <;> first | trivial | omega
    · subst hc
      by_cases h3 : (bs + (sc + 1)) % 4 = 3
      · have h := quoteLoop_abs bs 0 rest hr (sc + 2) 0
        have e : sc + 2 + bs + 0 = bs + sc + 1 + (4 - (bs + sc + 1) % 4) := by omega
        rw [e] at h
        have h1 := h.1
        have h2 := h.2
        simp only [quoteOffsets, show ('\t' = ' ') = False by decide, if_false, if_true, h3, colAfter, List.length_cons,
          ↓reduceIte]
        refine ⟨?_, ?_, ?_⟩ <;> first | trivial | omega
      · have h := quoteLoop_abs bs 1 ('\t' :: rest) (by intro c hc; exact hws c hc) (sc + 1) 0
        have e : sc + 1 + bs + 1 = bs + sc + 1 + 1 := by omega
        rw [e] at h
        -- a tab that is wider than one column: its first column is the blank after the marker
        have hcol : colAfter (bs + sc + 1 + 1) ('\t' :: rest) = colAfter (bs + sc + 1) ('\t' :: rest) := by
          simp only [colAfter, if_true]
          congr 1
          omega
        rw [hcol] at h
        have h1 := h.1
        have h2 := h.2
        simp only [List.length_cons] at h2
        simp only [quoteOffsets, show ('\t' = ' ') = False by decide, if_false, if_true, h3, List.length_cons,
          ↓reduceIte]
        refine ⟨?_, ?_, ?_⟩ <;> first | trivial | omega

/-- the loop stops at the first non-blank character: what follows the blank run is irrelevant -/
theorem quoteLoop_prefix (bs adj : Nat) (ws : List Char) (hws : ∀ c ∈ ws, c = ' ' ∨ c = '\t') (c : Char)
    (hc : c ≠ ' ' ∧ c ≠ '\t') (tail : List Char) (offset n : Nat) :
    quoteLoop bs adj offset (ws ++ c :: tail) n = quoteLoop bs adj offset ws n := by
  induction ws generalizing offset n with
  | nil => simp [quoteLoop, hc.1, hc.2]
  | cons d rest ih =>
    have hr : ∀ c ∈ rest, c = ' ' ∨ c = '\t' := fun c h => hws c (List.mem_cons_of_mem _ h)
    rcases hws d (by simp) with hd | hd
    · subst hd
      simp only [List.cons_append, quoteLoop, show (' ' = '\t') = False by decide, if_false, if_true]
      exact ih hr _ _
    · subst hd
      simp only [List.cons_append, quoteLoop, if_true]
      exact ih hr _ _

/-- on a real line (blank run `ws`, then a non-blank character and anything else) the rule records
what it records for the blank run alone -/
theorem quoteOffsets_prefix (fixed : Bool) (bs sc : Nat) (ws : List Char) (hne : ws ≠ [])
    (hws : ∀ c ∈ ws, c = ' ' ∨ c = '\t') (c : Char) (hc : c ≠ ' ' ∧ c ≠ '\t') (tail : List Char) :
    quoteOffsets fixed bs sc (ws ++ c :: tail) = quoteOffsets fixed bs sc ws := by
  cases ws with
  | nil => exact absurd rfl hne
  | cons d rest =>
    have hr : ∀ c ∈ rest, c = ' ' ∨ c = '\t' := fun c h => hws c (List.mem_cons_of_mem _ h)
    simp only [List.cons_append, quoteOffsets]
    rcases hws d (by simp) with hd | hd
    · subst hd
      simp only [if_true, quoteLoop_prefix bs 0 rest hr c hc tail]
    · subst hd
      simp only [show ('\t' = ' ') = False by decide, if_false, if_true]
      split
      · simp only [quoteLoop_prefix bs 0 rest hr c hc tail]
      · have := quoteLoop_prefix bs 1 ('\t' :: rest) (by intro x hx; exact hws x hx) c hc tail (sc + 1) 0
        simp only [List.cons_append] at this
        simp only [this]

/-- spelling-independence, stated directly -/
theorem marker_tab_spellings (bs sc : Nat) (ws ws' : List Char) (hne : ws ≠ []) (hne' : ws' ≠ [])
    (hws : ∀ c ∈ ws, c = ' ' ∨ c = '\t') (hws' : ∀ c ∈ ws', c = ' ' ∨ c = '\t')
    (hcol : colAfter (bs + sc + 1) ws = colAfter (bs + sc + 1) ws') :
    (quoteOffsets true bs sc ws).sCount = (quoteOffsets true bs sc ws').sCount
    ∧ (quoteOffsets true bs sc ws).bsCount = (quoteOffsets true bs sc ws').bsCount := by
  have a := marker_tab bs sc ws hne hws
  have b := marker_tab bs sc ws' hne' hws'
  exact ⟨by rw [a.1, b.1, hcol], by rw [a.2.1, b.2.1]⟩

/-! non-vacuity, and the defect repaired by F8 (`fixed = false`: the inherited offset is dropped,
so inside an outer quote whose content starts at column 2 the same tab is measured from the wrong
column) -/
example : quoteOffsets true 2 0 ['\t', 'x'] = quoteOffsets true 2 0 [' ', 'x'] := by decide
example : (quoteOffsets false 2 0 ['\t', 'x']).bsCount ≠ (quoteOffsets true 2 0 ['\t', 'x']).bsCount := by decide
example : Mixed ['a', '\n', '\n', 'b', '\n'] ['a', '\r', '\r', '\n', 'b', '\r'] :=
  .keep 'a' (by decide) (.cr (.crlf (.keep 'b' (by decide) (.cr .nil (by simp)))) (by simp))

end MdIt.C17
