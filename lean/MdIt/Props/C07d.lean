import MdIt.Props.C07c
import MdIt.Props.C10p
/-!
# C07 (continued) — the concatenation law as a statement about the full model

`tChain_restricts`: with `table`, `reference`, `html_block`, `lheading` off the chain of the full model is `lChain` at every depth budget;
**`t_suffix_shift`** / **`t_concat_law`** restate `l_suffix_shift` / `l_concat_law` for `tChain` / `tParse`: in the one model of `ParserBlock`
under that configuration, a block loop entered at the seam appends exactly the stream of `B` parsed alone with its maps shifted, and the
parse of `A ++ B` is what the loop had produced at the seam followed by that.
-/
namespace MdIt.C07
open MdIt.C01 MdIt.C06 MdIt.C10

theorem tChain_restricts (ext : IExt) (lx : LExt) (c : TCfg) (h0 : c.table = false) (h1 : c.reference = false) (h2 : c.htmlBlock = false)
    (h3 : c.lheading = false) (ws : List Nat) (mn : Int) (d : Nat) : tChain ext lx c ws mn d = lChain c.toMiniCfg ws mn d := by
  rw [tChain_off ext lx c h0, rChain_off ext lx c.toRCfg h1, mChain_off c.toMCfg h2 h3]

theorem t_suffix_shift (ext : IExt) (lx : LExt) (c : TCfg) (h0 : c.table = false) (h1 : c.reference = false) (h2 : c.htmlBlock = false)
    (h3 : c.lheading = false) (ws : List Nat) (mn : Int) (lsB : List (List Char)) (hne : lsB ≠ []) (hcl : ∀ l ∈ lsB, Clean l)
    (n : Nat) (s' : BState) (hs : AtSeam n lsB s') (tsB : List Tok) (hB : tokensOf (tParse ext lx c ws mn (srcOf lsB)) = .ok tsB)
    (f : Nat) (hf : lsB.length + 1 ≤ f) (he : Bool) :
    ∃ t', blockLoop (tChain ext lx c ws mn (mn.toNat + 1)) mn (lsB.length + n) f n he s' = .ok t'
      ∧ t'.tokens = s'.tokens ++ tsB.map (Tok.shift2 0 n) := by
  rw [tParse_restricts ext lx c h0 h1 h2 h3] at hB
  rw [tChain_restricts ext lx c h0 h1 h2 h3]
  exact l_suffix_shift c.toMiniCfg ws mn lsB hne hcl n s' hs tsB hB f hf he

theorem t_concat_law (ext : IExt) (lx : LExt) (c : TCfg) (h0 : c.table = false) (h1 : c.reference = false) (h2 : c.htmlBlock = false)
    (h3 : c.lheading = false) (ws : List Nat) (mn : Int) (lsA lsB : List (List Char)) (hne : lsB ≠ [])
    (hclA : ∀ l ∈ lsA, Clean l) (hclB : ∀ l ∈ lsB, Clean l) (tsB : List Tok) (hB : tokensOf (tParse ext lx c ws mn (srcOf lsB)) = .ok tsB)
    (f : Nat) (he : Bool) (sM : BState) (hf : lsB.length + 1 ≤ f) (hM : AtSeam lsA.length lsB sM)
    (hseam : blockLoop (tChain ext lx c ws mn (mn.toNat + 1)) mn (lsA ++ lsB).length ((lsA ++ lsB).length - 0 + 1) 0 false (stD (lsA ++ lsB))
      = blockLoop (tChain ext lx c ws mn (mn.toNat + 1)) mn (lsA ++ lsB).length f lsA.length he sM) :
    tokensOf (tParse ext lx c ws mn (srcOf (lsA ++ lsB))) = .ok (sM.tokens ++ tsB.map (Tok.shift2 0 lsA.length)) := by
  rw [tParse_restricts ext lx c h0 h1 h2 h3] at hB ⊢
  rw [tChain_restricts ext lx c h0 h1 h2 h3] at hseam
  exact l_concat_law c.toMiniCfg ws mn lsA lsB hne hclA hclB tsB hB f he sM hf hM hseam

end MdIt.C07
