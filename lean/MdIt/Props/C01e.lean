import MdIt.Props.C01
/-!
# C01 (continued) — the inline sub-parser `text, newline, escape, backticks` is total

The inline rules index `src[pos]` and would raise `IndexError` outside the source: their contract is relative to the call context
the loop guarantees (`ICtx`: `pos < posMax ≤ len(src)`).  `inline_total2` is the engine theorem under these contracts; the four
modelled rules satisfy them (`iok_text`, `iok_newline`, `iok_escape`, `iok_backticks` — the backtick rule with its closer cache and
its search over the whole source); `imini_total`: for every source, every subset of `newline`, `escape`, `backticks` (in chain
order, after `text`), every `maxNesting`, with or without `fragments_join`: the inline parse returns a token list.
-/
namespace MdIt.C01

/-- what the loop guarantees at every dispatch -/
def ICtx (s : IState) : Prop := s.pos < s.posMax ∧ s.posMax ≤ s.src.length

structure IRuleOK2 (r : IRule) : Prop where
  total : ∀ s silent, ICtx s → ∃ m s', r s silent = .ok (m, s')
  progress : ∀ s s', ICtx s → r s false = .ok (true, s') → s.pos < s'.pos
  miss : ∀ s s', ICtx s → r s false = .ok (false, s') → s'.pos = s.pos
  frame : ∀ s m s', ICtx s → r s false = .ok (m, s') → s'.src = s.src ∧ s'.level = s.level ∧ s'.posMax = s.posMax

theorem ichain_ok2 (rules : List IRule) (hok : ∀ r ∈ rules, IRuleOK2 r) (s : IState) (hc : ICtx s) :
    ∃ m s', runChain rules s = .ok (m, s') ∧ s'.src = s.src ∧ s'.level = s.level ∧ s'.posMax = s.posMax
      ∧ (m = true → s.pos < s'.pos) ∧ (m = false → s'.pos = s.pos) := by
  induction rules generalizing s with
  | nil => exact ⟨false, s, rfl, rfl, rfl, rfl, by simp, by simp⟩
  | cons r rest ih =>
    have hr := hok r (by simp)
    obtain ⟨m, s', hrs⟩ := hr.total s false hc
    simp only [runChain, hrs]
    cases m with
    | true =>
      have hf := hr.frame _ _ _ hc hrs
      exact ⟨true, s', rfl, hf.1, hf.2.1, hf.2.2, fun _ => hr.progress _ _ hc hrs, by simp⟩
    | false =>
      have hf := hr.frame _ _ _ hc hrs
      have hpos := hr.miss _ _ hc hrs
      have hc' : ICtx s' := by unfold ICtx at *; rw [hpos, hf.2.2, hf.1]; exact hc
      obtain ⟨m2, s2, h2, hsrc, hlvl, hmax, hp, hm⟩ := ih (fun q hq => hok q (by simp [hq])) s' hc'
      refine ⟨m2, s2, h2, hsrc.trans hf.1, hlvl.trans hf.2.1, hmax.trans hf.2.2, ?_, ?_⟩
      · intro h; have := hp h; omega
      · intro h; rw [hm h]; exact hpos

/-- **C01.inline_total2** — the inline loop returns for every chain of rules that keep their contracts in the loop's call context -/
theorem inline_total2 (rules : List IRule) (hok : ∀ r ∈ rules, IRuleOK2 r) (maxNesting : Int) :
    ∀ (fuel : Nat) (ok : Bool) (s : IState), s.posMax ≤ s.src.length → s.posMax - s.pos < fuel →
      (s.level ≥ maxNesting → ok = false) →
      ∃ s', tokenizeLoop rules maxNesting s.posMax fuel ok s = .ok s' := by
  intro fuel
  induction fuel with
  | zero => intro _ s _ hf; omega
  | succ n ih =>
    intro ok s hend hf hstale
    simp only [tokenizeLoop]
    split
    · rename_i hlt
      by_cases hlv : s.level < maxNesting
      · simp only [hlv, if_true]
        obtain ⟨m, s', hc, hsrc, hlvl, hmax, hp, hm⟩ := ichain_ok2 rules hok s ⟨hlt, hend⟩
        rw [hc]
        simp only
        cases m with
        | true =>
          simp only [if_true]
          split
          · exact ⟨s', rfl⟩
          · have hpp := hp rfl
            have : ¬ (s'.pos ≤ s.pos) := by omega
            simp only [this, if_false]
            rw [← hmax]
            exact ih true s' (by rw [hsrc, hmax]; exact hend) (by rw [hmax]; omega) (by intro h; rw [hlvl] at h; omega)
        | false =>
          simp only [Bool.false_eq_true, if_false]
          have hpos := hm rfl
          have hin : s'.pos < s'.src.length := by rw [hsrc, hpos]; omega
          have hget := List.getElem?_eq_getElem hin
          rw [hget]
          simp only
          rw [← hmax]
          exact ih false { s' with pending := s'.pending ++ [s'.src[s'.pos]], pos := s'.pos + 1 }
            (by show s'.posMax ≤ s'.src.length; rw [hsrc, hmax]; exact hend) (by show s'.posMax - (s'.pos + 1) < n; rw [hmax, hpos]; omega)
            (by intro _; rfl)
      · simp only [hlv, if_false]
        have hok' : ok = false := hstale (by omega)
        subst hok'
        simp only [Bool.false_eq_true, if_false]
        have hin : s.pos < s.src.length := by omega
        rw [List.getElem?_eq_getElem hin]
        simp only
        exact ih false { s with pending := s.pending ++ [s.src[s.pos]], pos := s.pos + 1 }
          (by simpa using hend) (by simp; omega) (by intro _; rfl)
    · exact ⟨s, rfl⟩

/-! ### the modelled rules keep the contract -/

theorem push0_frame (s : IState) (a b c d e : String) :
    (s.push a b 0 c d e).src = s.src ∧ (s.push a b 0 c d e).level = s.level ∧ (s.push a b 0 c d e).posMax = s.posMax
      ∧ (s.push a b 0 c d e).pos = s.pos := by
  unfold IState.push IState.pushPending
  simp only
  split <;> simp

theorem pushIf_frame (silent : Bool) (s : IState) (a b c d e : String) :
    (if silent = true then s else s.push a b 0 c d e).src = s.src ∧ (if silent = true then s else s.push a b 0 c d e).level = s.level
      ∧ (if silent = true then s else s.push a b 0 c d e).posMax = s.posMax := by
  cases silent
  · simp only [Bool.false_eq_true, if_false]
    exact ⟨(push0_frame _ _ _ _ _ _).1, (push0_frame _ _ _ _ _ _).2.1, (push0_frame _ _ _ _ _ _).2.2.1⟩
  · exact ⟨rfl, rfl, rfl⟩

theorem iok_text : IRuleOK2 ruleText := by
  refine ⟨?_, ?_, ?_, ?_⟩
  · intro s silent _; unfold ruleText; split <;> exact ⟨_, _, rfl⟩
  · intro s s' hc h
    unfold ruleText at h
    split at h
    · cases h
    · rename_i hne
      simp only [Except.ok.injEq, Prod.mk.injEq, true_and] at h
      subst h
      show s.pos < textEnd s
      have hne' : textEnd s ≠ s.pos := by simpa using hne
      unfold textEnd at hne' ⊢
      cases hf : (s.src.drop s.pos).findIdx? isTerminator with
      | some j => rw [hf] at hne'; simp only at hne' ⊢; omega
      | none => exact hc.1
  · intro s s' _ h
    unfold ruleText at h
    split at h
    · simp only [Except.ok.injEq, Prod.mk.injEq, true_and] at h; subst h; rfl
    · cases h
  · intro s m s' _ h
    unfold ruleText at h
    split at h
    · simp only [Except.ok.injEq, Prod.mk.injEq] at h; obtain ⟨_, rfl⟩ := h; exact ⟨rfl, rfl, rfl⟩
    · simp only [Except.ok.injEq, Prod.mk.injEq] at h; obtain ⟨_, rfl⟩ := h; exact ⟨rfl, rfl, rfl⟩

theorem skipBlanks_ge (src : List Char) (max : Nat) : ∀ (fuel pos : Nat), pos ≤ skipBlanks src pos max fuel := by
  intro fuel
  induction fuel with
  | zero => intro pos; exact Nat.le_refl _
  | succ n ih =>
    intro pos
    simp only [skipBlanks]
    split
    · split
      · split
        · have := ih (pos + 1); omega
        · exact Nat.le_refl _
      · exact Nat.le_refl _
    · exact Nat.le_refl _

theorem iok_newline : IRuleOK2 ruleNewline := by
  have key : ∀ (s : IState) (silent : Bool), ICtx s →
      ruleNewline s silent = .ok (false, s) ∨ ∃ s', ruleNewline s silent = .ok (true, s') ∧ s.pos < s'.pos ∧ s'.src = s.src
        ∧ (silent = false → s'.level = s.level) ∧ s'.posMax = s.posMax := by
    intro s silent hc
    have hin : s.pos < s.src.length := by have := hc.1; have := hc.2; omega
    unfold ruleNewline
    rw [List.getElem?_eq_getElem hin]
    simp only
    split
    · exact .inl rfl
    · right
      refine ⟨_, rfl, ?_, ?_, ?_, ?_⟩
      · show s.pos < skipBlanks s.src (s.pos + 1) s.posMax (s.posMax - s.pos)
        have := skipBlanks_ge s.src s.posMax (s.posMax - s.pos) (s.pos + 1); omega
      · cases silent
        · simp only [Bool.false_eq_true, if_false]
          split
          · exact (push0_frame _ _ _ _ _ _).1
          · split
            · exact (push0_frame _ _ _ _ _ _).1
            · exact (push0_frame _ _ _ _ _ _).1
        · rfl
      · intro hs; subst hs
        simp only [Bool.false_eq_true, if_false]
        split
        · exact (push0_frame _ _ _ _ _ _).2.1
        · split
          · exact (push0_frame _ _ _ _ _ _).2.1
          · exact (push0_frame _ _ _ _ _ _).2.1
      · cases silent
        · simp only [Bool.false_eq_true, if_false]
          split
          · exact (push0_frame _ _ _ _ _ _).2.2.1
          · split
            · exact (push0_frame _ _ _ _ _ _).2.2.1
            · exact (push0_frame _ _ _ _ _ _).2.2.1
        · rfl
  refine ⟨?_, ?_, ?_, ?_⟩
  · intro s silent hc
    rcases key s silent hc with h | ⟨s', h, _⟩ <;> exact ⟨_, _, h⟩
  · intro s s' hc h
    rcases key s false hc with h' | ⟨s'', h', hp, _⟩
    · rw [h'] at h; cases h
    · rw [h'] at h; cases h; exact hp
  · intro s s' hc h
    rcases key s false hc with h' | ⟨s'', h', _⟩
    · rw [h'] at h; cases h; rfl
    · rw [h'] at h; cases h
  · intro s m s' hc h
    rcases key s false hc with h' | ⟨s'', h', _, h2, h3, h4⟩
    · rw [h'] at h; cases h; exact ⟨rfl, rfl, rfl⟩
    · rw [h'] at h; cases h; exact ⟨h2, h3 rfl, h4⟩

theorem iok_escape : IRuleOK2 ruleEscape := by
  have key : ∀ (s : IState) (silent : Bool), ICtx s →
      ruleEscape s silent = .ok (false, s) ∨ ∃ s', ruleEscape s silent = .ok (true, s') ∧ s.pos < s'.pos ∧ s'.src = s.src
        ∧ (silent = false → s'.level = s.level) ∧ s'.posMax = s.posMax := by
    intro s silent hc
    have hin : s.pos < s.src.length := by have := hc.1; have := hc.2; omega
    unfold ruleEscape
    rw [List.getElem?_eq_getElem hin]
    simp only
    split
    · exact .inl rfl
    · split
      · exact .inl rfl
      · rename_i hlt
        have hin1 : s.pos + 1 < s.src.length := by have := hc.2; omega
        rw [List.getElem?_eq_getElem hin1]
        simp only
        split
        · right
          refine ⟨_, rfl, ?_, ?_, ?_, ?_⟩
          · show s.pos < skipBlanks s.src (s.pos + 1 + 1) s.posMax (s.posMax - (s.pos + 1))
            have := skipBlanks_ge s.src s.posMax (s.posMax - (s.pos + 1)) (s.pos + 1 + 1); omega
          · exact (pushIf_frame silent s _ _ _ _ _).1
          · intro _; exact (pushIf_frame silent s _ _ _ _ _).2.1
          · exact (pushIf_frame silent s _ _ _ _ _).2.2
        · right
          refine ⟨_, rfl, ?_, ?_, ?_, ?_⟩
          · show s.pos < s.pos + 1 + 1; omega
          · exact (pushIf_frame silent s _ _ _ _ _).1
          · intro _; exact (pushIf_frame silent s _ _ _ _ _).2.1
          · exact (pushIf_frame silent s _ _ _ _ _).2.2
  refine ⟨?_, ?_, ?_, ?_⟩
  · intro s silent hc
    rcases key s silent hc with h | ⟨s', h, _⟩ <;> exact ⟨_, _, h⟩
  · intro s s' hc h
    rcases key s false hc with h' | ⟨s'', h', hp, _⟩
    · rw [h'] at h; cases h
    · rw [h'] at h; cases h; exact hp
  · intro s s' hc h
    rcases key s false hc with h' | ⟨s'', h', _⟩
    · rw [h'] at h; cases h; rfl
    · rw [h'] at h; cases h
  · intro s m s' hc h
    rcases key s false hc with h' | ⟨s'', h', _, h2, h3, h4⟩
    · rw [h'] at h; cases h; exact ⟨rfl, rfl, rfl⟩
    · rw [h'] at h; cases h; exact ⟨h2, h3 rfl, h4⟩

theorem btRun_ge (src : List Char) (max : Nat) : ∀ (fuel pos : Nat), pos ≤ btRun src max fuel pos := by
  intro fuel
  induction fuel with
  | zero => intro pos; exact Nat.le_refl _
  | succ n ih =>
    intro pos
    simp only [btRun]
    split
    · split
      · split
        · have := ih (pos + 1); omega
        · exact Nat.le_refl _
      · exact Nat.le_refl _
    · exact Nat.le_refl _

theorem btFind_ge (src : List Char) (from_ ms : Nat) (h : btFind src from_ = some ms) : from_ ≤ ms := by
  unfold btFind at h
  split at h
  · simp only [Option.some.injEq] at h; omega
  · cases h

theorem btScan_some (src : List Char) (max ol : Nat) : ∀ (fuel from_ : Nat) (bt bt' : List (Nat × Nat)) (ms me : Nat),
    btScan src max ol fuel from_ bt = (some (ms, me), bt') → from_ < me := by
  intro fuel
  induction fuel with
  | zero => intro from_ bt bt' ms me h; simp [btScan] at h
  | succ n ih =>
    intro from_ bt bt' ms me h
    simp only [btScan] at h
    cases hf : btFind src from_ with
    | none => rw [hf] at h; simp at h
    | some m0 =>
      rw [hf] at h
      simp only at h
      have h1 := btFind_ge src from_ m0 hf
      have h2 := btRun_ge src max (max - m0) (m0 + 1)
      split at h
      · simp only [Prod.mk.injEq, Option.some.injEq] at h
        obtain ⟨⟨_, rfl⟩, _⟩ := h
        omega
      · have := ih _ _ _ _ _ h
        omega

theorem iok_backticks : IRuleOK2 ruleBackticks := by
  have key : ∀ (s : IState) (silent : Bool), ICtx s →
      ruleBackticks s silent = .ok (false, s) ∨ ∃ s', ruleBackticks s silent = .ok (true, s') ∧ s.pos < s'.pos ∧ s'.src = s.src
        ∧ (silent = false → s'.level = s.level) ∧ s'.posMax = s.posMax := by
    intro s silent hc
    have hin : s.pos < s.src.length := by have := hc.1; have := hc.2; omega
    unfold ruleBackticks
    rw [List.getElem?_eq_getElem hin]
    simp only
    split
    · exact .inl rfl
    · right
      have hrun := btRun_ge s.src s.posMax (s.posMax - s.pos) (s.pos + 1)
      split
      · refine ⟨_, rfl, ?_, rfl, fun _ => rfl, rfl⟩
        show s.pos < s.pos + (btRun s.src s.posMax (s.posMax - s.pos) (s.pos + 1) - s.pos)
        omega
      · cases hsc : btScan s.src s.posMax (btRun s.src s.posMax (s.posMax - s.pos) (s.pos + 1) - s.pos)
            (s.src.length - btRun s.src s.posMax (s.posMax - s.pos) (s.pos + 1) + 1) (btRun s.src s.posMax (s.posMax - s.pos) (s.pos + 1)) s.backticks with
        | mk res bt =>
          cases res with
          | none =>
            simp only
            refine ⟨_, rfl, ?_, rfl, fun _ => rfl, rfl⟩
            show s.pos < s.pos + (btRun s.src s.posMax (s.posMax - s.pos) (s.pos + 1) - s.pos)
            omega
          | some p =>
            obtain ⟨ms, me⟩ := p
            simp only
            have hme := btScan_some _ _ _ _ _ _ _ _ _ hsc
            refine ⟨_, rfl, ?_, ?_, ?_, ?_⟩
            · show s.pos < me; omega
            · exact (pushIf_frame silent { s with backticks := bt } _ _ _ _ _).1
            · intro _; exact (pushIf_frame silent { s with backticks := bt } _ _ _ _ _).2.1
            · exact (pushIf_frame silent { s with backticks := bt } _ _ _ _ _).2.2
  refine ⟨?_, ?_, ?_, ?_⟩
  · intro s silent hc
    rcases key s silent hc with h | ⟨s', h, _⟩ <;> exact ⟨_, _, h⟩
  · intro s s' hc h
    rcases key s false hc with h' | ⟨s'', h', hp, _⟩
    · rw [h'] at h; cases h
    · rw [h'] at h; cases h; exact hp
  · intro s s' hc h
    rcases key s false hc with h' | ⟨s'', h', _⟩
    · rw [h'] at h; cases h; rfl
    · rw [h'] at h; cases h
  · intro s m s' hc h
    rcases key s false hc with h' | ⟨s'', h', _, h2, h3, h4⟩
    · rw [h'] at h; cases h; exact ⟨rfl, rfl, rfl⟩
    · rw [h'] at h; cases h; exact ⟨h2, h3 rfl, h4⟩

/-- which of the optional inline rules are enabled (`text` always is: "supported" configurations) -/
structure IMiniCfg where
  newline : Bool
  escape : Bool
  backticks : Bool
deriving Repr, DecidableEq

/-- `ruler.getRules("")` of the inline parser restricted to the modelled rules, in registration order -/
def iminiChain (c : IMiniCfg) : List IRule :=
  [ruleText] ++ (if c.newline then [ruleNewline] else []) ++ (if c.escape then [ruleEscape] else [])
    ++ (if c.backticks then [ruleBackticks] else [])

theorem iminiChain_ok (c : IMiniCfg) : ∀ r ∈ iminiChain c, IRuleOK2 r := by
  intro r hr
  simp only [iminiChain, List.mem_append, List.mem_singleton] at hr
  rcases hr with ((hr | hr) | hr) | hr
  · subst hr; exact iok_text
  · split at hr
    · simp at hr; subst hr; exact iok_newline
    · cases hr
  · split at hr
    · simp at hr; subst hr; exact iok_escape
    · cases hr
  · split at hr
    · simp at hr; subst hr; exact iok_backticks
    · cases hr

/-- **C01.imini_total** — for every source text, every subset of the inline rules `newline`, `escape`, `backticks` (after `text`), every
`maxNesting`, with or without `fragments_join`: the modelled inline parse (tokenize loop, pending flush, `fragments_join`) returns a
token list: no `IndexError`, no endless loop — the closer search of the backtick rule and its cache included -/
theorem imini_total (c : IMiniCfg) (fragJoin : Bool) (maxNesting : Int) (src : List Char) :
    ∃ ts, inlineParse (iminiChain c) [] fragJoin maxNesting src = .ok ts := by
  unfold inlineParse tokenize
  obtain ⟨s', h⟩ := inline_total2 (iminiChain c) (iminiChain_ok c) maxNesting ((IState.init src).posMax - (IState.init src).pos + 1) false
    (IState.init src) (Nat.le_refl _) (by omega) (fun _ => rfl)
  rw [h]
  exact ⟨_, rfl⟩

/-! non-vacuity: code spans with different run lengths, an unmatched run, an escaped backtick, a hard break -/
def itypesOf (r : Except PyErr (List Tok)) : Option (List String) :=
  match r with
  | .ok ts => some (ts.map Tok.type)
  | .error _ => none

example : itypesOf (inlineParse (iminiChain ⟨true, true, true⟩) [] true 20 "a `b` ``c ` d`` \\` e ``` f  \ng".toList)
    = some ["text", "code_inline", "text", "code_inline", "text", "text_special", "text", "hardbreak", "text"] := by decide +kernel

end MdIt.C01
