import MdIt.Props.C06
import MdIt.Props.C01c
/-!
# C06 (continued) — the block quote law for the modelled sub-parser, by simulation

Two runs of the chains are related when their line tables agree up to `bsCount`, their levels differ by a constant `k`,
and the tokens of the second are a fixed prefix followed by the level-shifted tokens of the first (`SR`).  On tab-free
line tables no rule reads `bsCount` (it only enters tab expansion), the nesting guard compares `level` with `maxNesting`
(shift both), and every push takes its level from the state — so every rule, the loop and the nested runs preserve `SR`
(`Sim`).  `quote_law` instantiates the simulation with the lines a block quote presents to its nested run.
-/
namespace MdIt.C06
open MdIt.C01

/-! ### the relation -/

def zb (l : BLine) : BLine := { l with bs := 0 }

/-- line tables equal up to `bsCount` -/
def LR (ls ls' : List BLine) : Prop := ls.map zb = ls'.map zb

def NoTab (ls : List BLine) : Prop := ∀ l ∈ ls, '\t' ∉ l.text

def _root_.MdIt.Tok.shift (k : Int) : Tok → Tok
  | .mk ty tag n a m lvl ch c mku info md b h => .mk ty tag n a m (lvl + k) ch c mku info md b h

structure SR (k : Int) (pre : List Tok) (s s' : BState) : Prop where
  lines : LR s.lines s'.lines
  notab : NoTab s.lines
  line : s'.line = s.line
  lineMax : s'.lineMax = s.lineMax
  blkIndent : s'.blkIndent = s.blkIndent
  level : s'.level = s.level + k
  tight : s'.tight = s.tight
  listIndent : s'.listIndent = s.listIndent
  tokens : s'.tokens = pre ++ s.tokens.map (Tok.shift k)

theorem LR.length {ls ls' : List BLine} (h : LR ls ls') : ls'.length = ls.length := by
  have := congrArg List.length h; simpa using this.symm

theorem LR.get {ls ls' : List BLine} (h : LR ls ls') (i : Nat) (l : BLine) (hl : ls[i]? = some l) :
    ∃ l', ls'[i]? = some l' ∧ zb l' = zb l := by
  have h1 : (ls.map zb)[i]? = some (zb l) := by simp [hl]
  rw [h] at h1
  simp only [List.getElem?_map, Option.map_eq_some_iff] at h1
  obtain ⟨l', h2, h3⟩ := h1
  exact ⟨l', h2, h3⟩

/-- what `zb`-equal lines share -/
theorem zb_eq {l l' : BLine} (h : zb l' = zb l) :
    l'.sCount = l.sCount ∧ l'.text = l.text ∧ l'.tShift = l.tShift ∧ l'.hasLF = l.hasLF := by
  cases l; cases l'; simp only [zb, BLine.mk.injEq] at h; exact ⟨h.1, h.2.1, h.2.2.1, h.2.2.2.2⟩

theorem zb_body {l l' : BLine} (h : zb l' = zb l) : l'.body = l.body := by
  obtain ⟨_, h2, h3, _⟩ := zb_eq h; simp [BLine.body, h2, h3]

theorem zb_empty {l l' : BLine} (h : zb l' = zb l) : l'.empty = l.empty := by
  obtain ⟨_, h2, h3, _⟩ := zb_eq h; simp [BLine.empty, h2, h3]

theorem getL_sim {k pre s s'} (h : SR k pre s s') (i : Nat) (l : BLine) (hg : getL s i = .ok l) :
    ∃ l', getL s' i = .ok l' ∧ zb l' = zb l ∧ '\t' ∉ l.text := by
  have hl : s.lines[i]? = some l := by
    unfold getL at hg
    cases hq : s.lines[i]? with
    | none => rw [hq] at hg; cases hg
    | some x => rw [hq] at hg; cases hg; rfl
  obtain ⟨l', h1, h2⟩ := h.lines.get i l hl
  exact ⟨l', getL_of_here h1, h2, h.notab l (List.mem_of_getElem? hl)⟩

theorem getL_sim_err {k pre s s'} (h : SR k pre s s') (i : Nat) (e : PyErr) (hg : getL s i = .error e) : getL s' i = .error e := by
  unfold getL at *
  cases hq : s.lines[i]? with
  | some x => rw [hq] at hg; cases hg
  | none =>
    rw [hq] at hg
    have : s'.lines[i]? = none := by
      rw [List.getElem?_eq_none_iff] at hq ⊢; rw [h.lines.length]; exact hq
    rw [this]; exact hg

theorem isCode_sim {k pre s s'} (h : SR k pre s s') (codeOn : Bool) {l l' : BLine} (hz : zb l' = zb l) :
    isCodeLine codeOn s' l' = isCodeLine codeOn s l := by
  simp [isCodeLine, (zb_eq hz).1, h.blkIndent]

/-! ### pushes -/

theorem shift_pushed (k : Int) (s s' : BState) (hl : s'.level = s.level + k) (a b : String) (n : Int) (m c d e f) :
    pushedTok s' a b n m c d e f = (pushedTok s a b n m c d e f).shift k := by
  by_cases hn : n < 0
  · simp only [pushedTok, Tok.shift, hl, hn, if_true]; congr 1; omega
  · simp only [pushedTok, Tok.shift, hl, hn, if_false]

theorem SR.push {k pre s s'} (h : SR k pre s s') (a b : String) (n : Int) (m c d e f) :
    SR k pre (s.pushFull a b n m c d e f) (s'.pushFull a b n m c d e f) := by
  refine ⟨h.lines, h.notab, h.line, h.lineMax, h.blkIndent, ?_, h.tight, h.listIndent, ?_⟩
  · simp only [BState.pushFull, h.level]; split <;> split <;> omega
  · rw [pushFull_tokens, pushFull_tokens, h.tokens, shift_pushed k s s' h.level]
    simp

theorem SR.setLineNo {k pre s s'} (h : SR k pre s s') (n : Nat) : SR k pre { s with line := n } { s' with line := n } :=
  ⟨h.lines, h.notab, rfl, h.lineMax, h.blkIndent, h.level, h.tight, h.listIndent, h.tokens⟩

/-! ### simulation of rules -/

def Sim (k : Int) (r r' : BRule) : Prop :=
  ∀ pre s s' line endLine silent m t, SR k pre s s' → r s line endLine silent = .ok (m, t) →
    ∃ t', r' s' line endLine silent = .ok (m, t') ∧ SR k pre t t'

private theorem getL_cases {s : BState} {i : Nat} {α} {f : BLine → Except PyErr α} {r : α}
    (h : (match getL s i with | .error e => (Except.error e : Except PyErr α) | .ok l => f l) = .ok r) : ∃ l, getL s i = .ok l ∧ f l = .ok r := by
  cases hg : getL s i with
  | error e => rw [hg] at h; cases h
  | ok l => rw [hg] at h; exact ⟨l, rfl, h⟩

/-- both sides took the same branch and returned the entry states: close with the relation at hand -/
macro "sim_same" h:ident hsr:term : tactic =>
  `(tactic| (simp only [Except.ok.injEq, Prod.mk.injEq] at $h:ident; obtain ⟨h1, h2⟩ := $h:ident; subst h1; subst h2; exact ⟨_, rfl, $hsr⟩))

theorem sim_hr (k : Int) (codeOn : Bool) : Sim k (ruleHr codeOn) (ruleHr codeOn) := by
  intro pre s s' line endLine silent m t hsr h
  unfold ruleHr at h
  obtain ⟨l, hg, h⟩ := getL_cases h
  obtain ⟨l', hg', hz, _⟩ := getL_sim hsr line l hg
  simp only [ruleHr, hg', isCode_sim hsr codeOn hz, zb_body hz]
  cases hc : isCodeLine codeOn s l <;> simp only [hc, ↓reduceIte, Bool.false_eq_true] at h ⊢
  · cases hm : hrMarkup l.body <;> simp only [hm] at h ⊢
    · sim_same h hsr
    · cases silent <;> simp only [↓reduceIte, Bool.false_eq_true] at h ⊢
      · sim_same h ((hsr.setLineNo (line + 1)).push _ _ _ _ _ _ _ _)
      · sim_same h hsr
  · sim_same h hsr

/-! ### `getLines` does not read `bsCount` on tab-free lines -/

theorem cutGo_notab (tShift bs bs' indent : Nat) : ∀ (chars : List Char) (i li : Nat), '\t' ∉ chars →
    cutGo tShift bs indent chars i li = cutGo tShift bs' indent chars i li := by
  intro chars
  induction chars with
  | nil => intro i li _; rfl
  | cons c cs ih =>
    intro i li hnt
    have hc : c ≠ '\t' := fun e => hnt (by simp [e])
    have hcs : '\t' ∉ cs := fun e => hnt (by simp [e])
    simp only [cutGo, hc, if_false]
    split
    · split
      · exact ih _ _ hcs
      · split
        · exact ih _ _ hcs
        · rfl
    · rfl

theorem cutLineI_notab (chars : List Char) (tShift bs bs' : Nat) (indent : Int) (h : '\t' ∉ chars) :
    cutLineI chars tShift bs indent = cutLineI chars tShift bs' indent := by
  simp only [cutLineI, cutLine, cutGo_notab tShift bs bs' indent.toNat chars 0 0 h]

theorem getLinesGo_sim {k pre s s'} (h : SR k pre s s') (end_ : Nat) (indent : Int) (keep : Bool) :
    ∀ (n line : Nat) (acc c : List Char), getLinesGo s end_ indent keep n line acc = .ok c →
      getLinesGo s' end_ indent keep n line acc = .ok c := by
  intro n
  induction n with
  | zero => intro line acc c hc; exact hc
  | succ m ih =>
    intro line acc c hc
    unfold getLinesGo at hc
    obtain ⟨l, hg, hc⟩ := getL_cases hc
    obtain ⟨l', hg', hz, hnt⟩ := getL_sim h line l hg
    simp only [getLinesGo, hg']
    obtain ⟨_, h2, h3, h4⟩ := zb_eq hz
    rw [h2, h3, h4]
    have hnt' : '\t' ∉ l.text ++ (if ((decide (line + 1 < end_) || keep) && l.hasLF) = true then ['\n'] else []) := by
      intro hm
      rw [List.mem_append] at hm
      rcases hm with hm | hm
      · exact hnt hm
      · split at hm
        · simp at hm
        · cases hm
    rw [cutLineI_notab _ l.tShift l'.bs l.bs indent hnt']
    exact ih _ _ _ hc

theorem getLinesB_sim {k pre s s'} (h : SR k pre s s') (b e : Nat) (indent : Int) (keep : Bool) (c : List Char)
    (hc : getLinesB s b e indent keep = .ok c) : getLinesB s' b e indent keep = .ok c :=
  getLinesGo_sim h e indent keep _ _ _ _ hc

theorem sim_heading (k : Int) (codeOn : Bool) (ws : List Nat) : Sim k (ruleHeading codeOn ws) (ruleHeading codeOn ws) := by
  intro pre s s' line endLine silent m t hsr h
  unfold ruleHeading at h
  obtain ⟨l, hg, h⟩ := getL_cases h
  obtain ⟨l', hg', hz, _⟩ := getL_sim hsr line l hg
  simp only [ruleHeading, hg', isCode_sim hsr codeOn hz, zb_body hz]
  cases hc : isCodeLine codeOn s l <;> simp only [hc, ↓reduceIte, Bool.false_eq_true] at h ⊢
  · cases hb : l.body with
    | nil => simp only [hb] at h ⊢; sim_same h hsr
    | cons c rest =>
      simp only [hb] at h ⊢
      by_cases h1 : (c != '#') = true
      · simp only [h1, ↓reduceIte] at h ⊢; sim_same h hsr
      · simp only [h1, ↓reduceIte, Bool.false_eq_true] at h ⊢
        by_cases h2 : (List.takeWhile (fun x => x == '#') (c :: rest)).length > 6
        · simp only [h2, ↓reduceIte] at h ⊢; sim_same h hsr
        · simp only [h2, ↓reduceIte] at h ⊢
          cases h3 : headingSep (List.drop (List.takeWhile (fun x => x == '#') (c :: rest)).length (c :: rest)) <;>
            simp only [h3, Bool.not_false, Bool.not_true, ↓reduceIte, Bool.false_eq_true] at h ⊢
          · sim_same h hsr
          · cases silent <;> simp only [↓reduceIte, Bool.false_eq_true] at h ⊢
            · sim_same h ((((hsr.setLineNo (line + 1)).push _ _ _ _ _ _ _ _).push _ _ _ _ _ _ _ _).push _ _ _ _ _ _ _ _)
            · sim_same h hsr
  · sim_same h hsr

theorem codeScan_sim {k pre s s'} (h : SR k pre s s') (codeOn : Bool) (endLine : Nat) :
    ∀ (fuel next last r : Nat), codeScan codeOn s endLine fuel next last = .ok r → codeScan codeOn s' endLine fuel next last = .ok r := by
  intro fuel
  induction fuel with
  | zero => intro next last r hr; simp [codeScan] at hr
  | succ n ih =>
    intro next last r hr
    simp only [codeScan] at hr ⊢
    split at hr
    · rename_i hlt
      simp only [hlt, ↓reduceIte]
      obtain ⟨l, hg, hr⟩ := getL_cases hr
      obtain ⟨l', hg', hz, _⟩ := getL_sim h next l hg
      simp only [hg', zb_empty hz, isCode_sim h codeOn hz]
      split at hr
      · rename_i he; simp only [he, ↓reduceIte]; exact ih _ _ _ hr
      · rename_i he
        simp only [he, ↓reduceIte]
        split at hr
        · rename_i hc; simp only [hc, ↓reduceIte]; exact ih _ _ _ hr
        · rename_i hc; simp only [hc, ↓reduceIte]; exact hr
    · rename_i hlt; simp only [hlt, ↓reduceIte]; exact hr

theorem sim_code (k : Int) (codeOn : Bool) : Sim k (ruleCode codeOn) (ruleCode codeOn) := by
  intro pre s s' line endLine silent m t hsr h
  unfold ruleCode at h
  obtain ⟨l, hg, h⟩ := getL_cases h
  obtain ⟨l', hg', hz, _⟩ := getL_sim hsr line l hg
  simp only [ruleCode, hg', isCode_sim hsr codeOn hz]
  cases hc : isCodeLine codeOn s l <;> simp only [hc, ↓reduceIte, Bool.false_eq_true, Bool.not_false, Bool.not_true] at h ⊢
  · sim_same h hsr
  · cases hs : codeScan codeOn s endLine (endLine - line + 1) (line + 1) (line + 1) with
    | error e => rw [hs] at h; cases h
    | ok last =>
      rw [hs] at h
      simp only [codeScan_sim hsr codeOn endLine _ _ _ _ hs] at h ⊢
      cases hgl : getLinesB s line last (4 + s.blkIndent) false with
      | error e => rw [hgl] at h; cases h
      | ok c =>
        rw [hgl] at h
        have e : getLinesB s' line last (4 + s'.blkIndent) false = .ok c := by
          rw [hsr.blkIndent]; exact getLinesB_sim hsr _ _ _ _ _ hgl
        simp only [e]
        sim_same h ((hsr.setLineNo last).push _ _ _ _ _ _ _ _)

theorem fenceScan_sim {k pre s s'} (h : SR k pre s s') (codeOn : Bool) (endLine : Nat) (marker : Char) (len : Nat) :
    ∀ (fuel prev : Nat) (r : Nat × Bool), fenceScan codeOn s endLine marker len fuel prev = .ok r →
      fenceScan codeOn s' endLine marker len fuel prev = .ok r := by
  intro fuel
  induction fuel with
  | zero => intro prev r hr; simp [fenceScan] at hr
  | succ n ih =>
    intro prev r hr
    simp only [fenceScan] at hr ⊢
    split at hr
    · rename_i hge; simp only [hge, ↓reduceIte]; exact hr
    · rename_i hge
      simp only [hge, ↓reduceIte]
      obtain ⟨l, hg, hr⟩ := getL_cases hr
      obtain ⟨l', hg', hz, _⟩ := getL_sim h (prev + 1) l hg
      obtain ⟨hsc, _, _, hlf⟩ := zb_eq hz
      simp only [hg', zb_empty hz, isCode_sim h codeOn hz, zb_body hz, hsc, hlf, h.blkIndent]
      split at hr
      · rename_i h1; simp only [h1, ↓reduceIte]; exact hr
      · rename_i h1
        simp only [h1, ↓reduceIte]
        cases hb : l.body with
        | nil =>
          simp only [hb] at hr ⊢
          split at hr
          · rename_i h2; simp only [h2, ↓reduceIte]; exact ih _ _ hr
          · rename_i h2; simp only [h2, ↓reduceIte]; exact hr
        | cons c rest =>
          simp only [hb] at hr ⊢
          split at hr
          · rename_i h2; simp only [h2, ↓reduceIte]; exact ih _ _ hr
          · rename_i h2
            simp only [h2, ↓reduceIte]
            split at hr
            · rename_i h3; simp only [h3, ↓reduceIte]; exact ih _ _ hr
            · rename_i h3
              simp only [h3, ↓reduceIte]
              split at hr
              · rename_i h4; simp only [h4, ↓reduceIte]; exact ih _ _ hr
              · rename_i h4
                simp only [h4, ↓reduceIte]
                split at hr
                · rename_i h5; simp only [h5, ↓reduceIte]; exact hr
                · rename_i h5; simp only [h5, ↓reduceIte]; exact ih _ _ hr

theorem sim_fence (k : Int) (codeOn : Bool) : Sim k (ruleFence codeOn) (ruleFence codeOn) := by
  intro pre s s' line endLine silent m t hsr h
  unfold ruleFence at h
  obtain ⟨l, hg, h⟩ := getL_cases h
  obtain ⟨l', hg', hz, _⟩ := getL_sim hsr line l hg
  simp only [ruleFence, hg', isCode_sim hsr codeOn hz, zb_body hz, (zb_eq hz).1]
  cases hc : isCodeLine codeOn s l <;> simp only [hc, ↓reduceIte, Bool.false_eq_true] at h ⊢
  · by_cases h1 : l.body.length < 3
    · simp only [h1, ↓reduceIte] at h ⊢; sim_same h hsr
    · simp only [h1, ↓reduceIte] at h ⊢
      cases hb : l.body with
      | nil => simp only [hb] at h ⊢; sim_same h hsr
      | cons marker rest =>
        simp only [hb] at h ⊢
        split at h
        · rename_i h2; simp only [h2, ↓reduceIte]; sim_same h hsr
        · rename_i h2
          simp only [h2, ↓reduceIte]
          split at h
          · rename_i h3; simp only [h3, ↓reduceIte]; sim_same h hsr
          · rename_i h3
            simp only [h3, ↓reduceIte]
            split at h
            · rename_i h4; simp only [h4, ↓reduceIte]; sim_same h hsr
            · rename_i h4
              simp only [h4, ↓reduceIte]
              cases silent <;> simp only [↓reduceIte, Bool.false_eq_true] at h ⊢
              · cases hs : fenceScan codeOn s endLine marker (List.takeWhile (fun x => x == marker) (marker :: rest)).length (endLine - line + 1) line with
                | error e => rw [hs] at h; cases h
                | ok r =>
                  obtain ⟨next, hv⟩ := r
                  rw [hs] at h
                  simp only [fenceScan_sim hsr codeOn endLine _ _ _ _ _ hs] at h ⊢
                  cases hgl : getLinesB s (line + 1) next l.sCount true with
                  | error e => rw [hgl] at h; cases h
                  | ok c =>
                    rw [hgl] at h
                    simp only [getLinesB_sim hsr _ _ _ _ _ hgl]
                    sim_same h ((hsr.setLineNo _).push _ _ _ _ _ _ _ _)
              · sim_same h hsr
  · sim_same h hsr

/-! ### chains, terminators, `paragraph` -/

inductive Sims (k : Int) : List BRule → List BRule → Prop where
  | nil : Sims k [] []
  | cons {r r' rs rs'} : Sim k r r' → Sims k rs rs' → Sims k (r :: rs) (r' :: rs')

theorem Sims.append {k} {a a' b b' : List BRule} (h1 : Sims k a a') (h2 : Sims k b b') : Sims k (a ++ b) (a' ++ b') := by
  induction h1 with
  | nil => exact h2
  | cons hr _ ih => exact .cons hr ih

theorem Sims.opt {k} (c : Bool) {r r' : BRule} (h : Sim k r r') : Sims k (if c then [r] else []) (if c then [r'] else []) := by
  cases c
  · exact .nil
  · exact .cons h .nil

theorem runTerminators_sim {k} {ts ts' : List BRule} (hs : Sims k ts ts') :
    ∀ {pre s s'} (line endLine : Nat) (b : Bool) (s1 : BState), SR k pre s s' → runTerminators ts s line endLine = .ok (b, s1) →
      ∃ s1', runTerminators ts' s' line endLine = .ok (b, s1') ∧ SR k pre s1 s1' := by
  induction hs with
  | nil =>
    intro pre s s' line endLine b s1 hsr h
    simp only [runTerminators, Except.ok.injEq, Prod.mk.injEq] at h
    obtain ⟨h1, h2⟩ := h; subst h1; subst h2
    exact ⟨_, rfl, hsr⟩
  | @cons r r' rs rs' hr _ ih =>
    intro pre s s' line endLine b s1 hsr h
    simp only [runTerminators] at h ⊢
    cases hq : r s line endLine true with
    | error e => rw [hq] at h; cases h
    | ok v =>
      obtain ⟨m, t⟩ := v
      rw [hq] at h
      obtain ⟨t', hq', hsr'⟩ := hr pre s s' line endLine true m t hsr hq
      rw [hq']
      cases m with
      | true =>
        simp only [Except.ok.injEq, Prod.mk.injEq] at h
        obtain ⟨h1, h2⟩ := h; subst h1; subst h2
        exact ⟨_, rfl, hsr'⟩
      | false => exact ih line endLine b s1 hsr' h

theorem paraScan_sim {k} {ts ts' : List BRule} (hs : Sims k ts ts') (endLine : Nat) :
    ∀ (fuel next : Nat) {pre s s'} (r : Nat) (s1 : BState), SR k pre s s' → paraScan ts endLine fuel next s = .ok (r, s1) →
      ∃ s1', paraScan ts' endLine fuel next s' = .ok (r, s1') ∧ SR k pre s1 s1' := by
  intro fuel
  induction fuel with
  | zero => intro next pre s s' r s1 _ h; simp [paraScan] at h
  | succ n ih =>
    intro next pre s s' r s1 hsr h
    simp only [paraScan] at h ⊢
    split at h
    · rename_i hlt
      simp only [hlt, ↓reduceIte]
      obtain ⟨l, hg, h⟩ := getL_cases h
      obtain ⟨l', hg', hz, _⟩ := getL_sim hsr next l hg
      simp only [hg', zb_empty hz, (zb_eq hz).1, hsr.blkIndent]
      split at h
      · rename_i h1; simp only [h1, ↓reduceIte]
        simp only [Except.ok.injEq, Prod.mk.injEq] at h; obtain ⟨e1, e2⟩ := h; subst e1; subst e2; exact ⟨_, rfl, hsr⟩
      · rename_i h1
        simp only [h1, ↓reduceIte]
        split at h
        · rename_i h2; simp only [h2, ↓reduceIte]; exact ih _ _ _ hsr h
        · rename_i h2
          simp only [h2, ↓reduceIte]
          split at h
          · rename_i h3; simp only [h3, ↓reduceIte]; exact ih _ _ _ hsr h
          · rename_i h3
            simp only [h3, ↓reduceIte]
            cases hq : runTerminators ts s next endLine with
            | error e => rw [hq] at h; cases h
            | ok v =>
              obtain ⟨b, t⟩ := v
              rw [hq] at h
              obtain ⟨t', hq', hsr'⟩ := runTerminators_sim hs next endLine b t hsr hq
              rw [hq']
              cases b with
              | true =>
                simp only [Except.ok.injEq, Prod.mk.injEq] at h; obtain ⟨e1, e2⟩ := h; subst e1; subst e2; exact ⟨_, rfl, hsr'⟩
              | false => exact ih _ _ _ hsr' h
    · rename_i hlt
      simp only [hlt, ↓reduceIte]
      simp only [Except.ok.injEq, Prod.mk.injEq] at h; obtain ⟨e1, e2⟩ := h; subst e1; subst e2; exact ⟨_, rfl, hsr⟩

theorem SR.setParent {k pre s s'} (h : SR k pre s s') (p p' : String) : SR k pre { s with parentType := p } { s' with parentType := p' } :=
  ⟨h.lines, h.notab, h.line, h.lineMax, h.blkIndent, h.level, h.tight, h.listIndent, h.tokens⟩

theorem sim_paragraph (k : Int) {ts ts' : List BRule} (hs : Sims k ts ts') (ws : List Nat) :
    Sim k (ruleParagraph ts ws) (ruleParagraph ts' ws) := by
  intro pre s s' line endLine silent m t hsr h
  simp only [ruleParagraph] at h ⊢
  cases hq : paraScan ts s.lineMax (s.lineMax - line + 1) (line + 1) { s with parentType := "paragraph" } with
  | error e => rw [hq] at h; cases h
  | ok v =>
    obtain ⟨next, s1⟩ := v
    rw [hq] at h
    obtain ⟨s1', hq', hsr1⟩ := paraScan_sim hs s.lineMax _ _ next s1 (hsr.setParent "paragraph" "paragraph") hq
    have hq'' : paraScan ts' s'.lineMax (s'.lineMax - line + 1) (line + 1) { s' with parentType := "paragraph" } = .ok (next, s1') := by
      have hq3 := hq'
      rw [← hsr.lineMax] at hq3
      exact hq3
    rw [hq'']
    simp only at h ⊢
    cases hgl : getLinesB s1 line next s1.blkIndent false with
    | error e => rw [hgl] at h; cases h
    | ok c =>
      rw [hgl] at h
      have e : getLinesB s1' line next s1'.blkIndent false = .ok c := by
        rw [hsr1.blkIndent]; exact getLinesB_sim hsr1 _ _ _ _ _ hgl
      simp only [e]
      simp only [Except.ok.injEq, Prod.mk.injEq] at h; obtain ⟨e1, e2⟩ := h; subst e1; subst e2
      refine ⟨_, rfl, ?_⟩
      have h3 := (((hsr1.setLineNo next).push "paragraph_open" "p" 1 (some (line, next)) none "" "" "").push
        "inline" "" 0 (some (line, next)) (some []) (String.ofList (pyStrip ws c)) "" "").push "paragraph_close" "p" (-1) none none "" "" ""
      exact h3.setParent s.parentType s'.parentType

/-! ### the loop -/

theorem skipEmptyLines_sim {k pre s s'} (h : SR k pre s s') : ∀ (fuel from_ : Nat),
    skipEmptyLines s' fuel from_ = skipEmptyLines s fuel from_ := by
  intro fuel
  induction fuel with
  | zero => intro f; rfl
  | succ n ih =>
    intro f
    simp only [skipEmptyLines, h.lineMax]
    split
    · cases hq : s.lines[f]? with
      | none =>
        have : s'.lines[f]? = none := by
          rw [List.getElem?_eq_none_iff] at hq ⊢; rw [h.lines.length]; exact hq
        simp only [this]; exact ih _
      | some l =>
        obtain ⟨l', h1, h2⟩ := h.lines.get f l hq
        simp only [h1, zb_empty h2]
        split
        · exact ih _
        · rfl
    · rfl

theorem isEmpty_sim {k pre s s'} (h : SR k pre s s') (i : Int) : s'.isEmpty i = s.isEmpty i := by
  unfold BState.isEmpty idx
  rw [h.lines.length]
  simp only []
  generalize (if i < 0 then i + (s.lines.length : Int) else i) = j
  by_cases hj : j < 0
  · simp only [hj, if_true]
  · simp only [hj, if_false]
    cases hq : s.lines[j.toNat]? with
    | none =>
      have : s'.lines[j.toNat]? = none := by
        rw [List.getElem?_eq_none_iff] at hq ⊢; rw [h.lines.length]; exact hq
      simp only [this]
    | some l =>
      obtain ⟨l', h1, h2⟩ := h.lines.get _ l hq
      simp only [h1, zb_empty h2]

theorem runBlockChain_sim {k} {rs rs' : List BRule} (hs : Sims k rs rs') :
    ∀ {pre s s'} (line endLine : Nat) (b : Bool) (s1 : BState), SR k pre s s' → runBlockChain rs s line endLine = .ok (b, s1) →
      ∃ s1', runBlockChain rs' s' line endLine = .ok (b, s1') ∧ SR k pre s1 s1' := by
  induction hs with
  | nil =>
    intro pre s s' line endLine b s1 hsr h
    simp only [runBlockChain, Except.ok.injEq, Prod.mk.injEq] at h
    obtain ⟨h1, h2⟩ := h; subst h1; subst h2
    exact ⟨_, rfl, hsr⟩
  | @cons r r' rs rs' hr _ ih =>
    intro pre s s' line endLine b s1 hsr h
    simp only [runBlockChain] at h ⊢
    cases hq : r s line endLine false with
    | error e => rw [hq] at h; cases h
    | ok v =>
      obtain ⟨m, t⟩ := v
      rw [hq] at h
      obtain ⟨t', hq', hsr'⟩ := hr pre s s' line endLine false m t hsr hq
      rw [hq']
      cases m with
      | true =>
        simp only [Except.ok.injEq, Prod.mk.injEq] at h
        obtain ⟨h1, h2⟩ := h; subst h1; subst h2
        exact ⟨_, rfl, hsr'⟩
      | false => exact ih line endLine b s1 hsr' h

theorem SR.setTight {k pre s s'} (h : SR k pre s s') (b : Bool) : SR k pre { s with tight := b } { s' with tight := b } :=
  ⟨h.lines, h.notab, h.line, h.lineMax, h.blkIndent, h.level, rfl, h.listIndent, h.tokens⟩

theorem blockLoop_sim {k} {rules rules' : List BRule} (hs : Sims k rules rules') (mn : Int) (endLine : Nat) :
    ∀ (fuel line : Nat) (he : Bool) {pre s s'} (t : BState), SR k pre s s' → blockLoop rules mn endLine fuel line he s = .ok t →
      ∃ t', blockLoop rules' (mn + k) endLine fuel line he s' = .ok t' ∧ SR k pre t t' := by
  intro fuel
  induction fuel with
  | zero =>
    intro line he pre s s' t hsr h
    simp only [blockLoop] at h ⊢
    split at h
    · cases h
    · rename_i hn; simp only [hn, ↓reduceIte]
      simp only [Except.ok.injEq] at h; subst h; exact ⟨_, rfl, hsr⟩
  | succ n ih =>
    intro line he pre s s' t hsr h
    simp only [blockLoop] at h ⊢
    split at h
    · rename_i hlt
      have e0 : skipEmptyLines s' (s'.lineMax + 1) line = skipEmptyLines s (s.lineMax + 1) line := by
        rw [hsr.lineMax, skipEmptyLines_sim hsr]
      simp only [hlt, ↓reduceIte, e0]
      generalize skipEmptyLines s (s.lineMax + 1) line = line1 at h ⊢
      have hsr1 := hsr.setLineNo line1
      split at h
      · rename_i h1; simp only [h1, ↓reduceIte]
        simp only [Except.ok.injEq] at h; subst h; exact ⟨_, rfl, hsr1⟩
      · rename_i h1
        simp only [h1, ↓reduceIte]
        cases hq : s.lines[line1]? with
        | none => simp only [hq] at h; cases h
        | some l =>
          simp only [hq] at h
          obtain ⟨l', hq', hz⟩ := hsr.lines.get line1 l hq
          have c1 : (l'.sCount < s'.blkIndent) = (l.sCount < s.blkIndent) := by rw [(zb_eq hz).1, hsr.blkIndent]
          have c2 : (s'.level ≥ mn + k) = (s.level ≥ mn) := by rw [hsr.level]; exact propext ⟨fun h => by omega, fun h => by omega⟩
          simp only [hq', c1, c2]
          split at h
          · rename_i h2; simp only [h2, ↓reduceIte]
            simp only [Except.ok.injEq] at h; subst h; exact ⟨_, rfl, hsr1⟩
          · rename_i h2
            simp only [h2, ↓reduceIte]
            split at h
            · rename_i h3
              simp only [h3, ↓reduceIte]
              simp only [Except.ok.injEq] at h; subst h; exact ⟨_, rfl, hsr.setLineNo endLine⟩
            · rename_i h3
              simp only [h3, ↓reduceIte]
              cases hc : runBlockChain rules { s with line := line1 } line1 endLine with
              | error e => rw [hc] at h; cases h
              | ok v =>
                obtain ⟨b, s2⟩ := v
                rw [hc] at h
                obtain ⟨s2', hc', hsr2⟩ := runBlockChain_sim hs line1 endLine b s2 hsr1 hc
                rw [hc']
                simp only at h ⊢
                rcases s2' with ⟨lines', ln', lm', bi', lv', tg', pt', tk', li'⟩
                have hln : ln' = s2.line := hsr2.line
                subst hln
                have hsr3 := hsr2.setTight (!he)
                split at h
                · cases h
                · rename_i h4
                  simp only [h4, ↓reduceIte, isEmpty_sim hsr3]
                  cases he1 : (if (s2.line : Int) - 1 < ↑endLine then ({ s2 with tight := !he } : BState).isEmpty (↑s2.line - 1) else Except.ok false) with
                  | error e => rw [he1] at h; cases h
                  | ok e1 =>
                    rw [he1] at h
                    simp only at h ⊢
                    split at h
                    · rename_i h5
                      simp only [h5, ↓reduceIte]
                      cases he2 : ({ s2 with tight := !he } : BState).isEmpty ↑s2.line with
                      | error e => rw [he2] at h; cases h
                      | ok e2 =>
                        rw [he2] at h
                        simp only at h ⊢
                        split at h
                        · rename_i h6; simp only [h6, ↓reduceIte]
                          exact ih _ _ _ (hsr3.setLineNo (s2.line + 1)) h
                        · rename_i h6; simp only [h6, ↓reduceIte]
                          exact ih _ _ _ hsr3 h
                    · rename_i h5
                      simp only [h5, ↓reduceIte]
                      exact ih _ _ _ hsr3 h
    · rename_i hlt
      simp only [hlt, ↓reduceIte]
      simp only [Except.ok.injEq] at h; subst h; exact ⟨_, rfl, hsr⟩

/-! ### the quote rule -/

theorem qLoop_notab (bs bs' : Nat) (adj : Int) : ∀ (text : List Char) (off : Int) (n : Nat), '\t' ∉ text →
    qLoop bs adj off text n = qLoop bs' adj off text n := by
  intro text
  induction text with
  | nil => intro off n _; rfl
  | cons c cs ih =>
    intro off n hnt
    have hc : c ≠ '\t' := fun e => hnt (by simp [e])
    have hcs : '\t' ∉ cs := fun e => hnt (by simp [e])
    simp only [qLoop, hc, if_false]
    split
    · exact ih _ _ hcs
    · rfl

theorem mem_drop_of {α} {a : α} {l : List α} {n : Nat} (h : a ∈ l.drop n) : a ∈ l := List.mem_of_mem_drop h

theorem quoteHead_notab (bs bs' : Nat) (sc : Int) (after : List Char) (h : '\t' ∉ after) :
    quoteHead bs sc after = quoteHead bs' sc after := by
  unfold quoteHead
  split
  · rfl
  · rename_i tail; exact absurd (by simp) h
  · rfl

theorem quoteStrip_sim {l l' : BLine} (hz : zb l' = zb l) (hnt : '\t' ∉ l.text) :
    zb (quoteStrip l').1 = zb (quoteStrip l).1 ∧ (quoteStrip l').2 = (quoteStrip l).2 ∧ '\t' ∉ (quoteStrip l).1.text := by
  obtain ⟨hsc, htx, hts, hlf⟩ := zb_eq hz
  have hb : l'.body = l.body := zb_body hz
  have hnb : '\t' ∉ l.body := fun h => hnt (mem_drop_of h)
  have hna : '\t' ∉ List.drop 1 l.body := fun h => hnb (mem_drop_of h)
  simp only [quoteStrip, hb, hsc, hlf, quoteHead_notab l'.bs l.bs l.sCount _ hna]
  have hnd : '\t' ∉ List.drop (quoteHead l.bs l.sCount (List.drop 1 l.body)).1 (List.drop 1 l.body) := fun h => hna (mem_drop_of h)
  rw [qLoop_notab l'.bs l.bs _ _ _ 0 hnd]
  exact ⟨by simp [zb], rfl, hnd⟩

theorem LR.set {ls ls' : List BLine} (h : LR ls ls') (i : Nat) {a a' : BLine} (hz : zb a' = zb a) : LR (ls.set i a) (ls'.set i a') := by
  unfold LR at *
  rw [List.map_set, List.map_set, h, hz]

theorem NoTab.set {ls : List BLine} (h : NoTab ls) (i : Nat) {a : BLine} (ha : '\t' ∉ a.text) : NoTab (ls.set i a) := by
  intro l hl
  rcases List.mem_or_eq_of_mem_set hl with h1 | h1
  · exact h l h1
  · subst h1; exact ha

theorem SR.setLine {k pre s s'} (h : SR k pre s s') (i : Nat) {a a' : BLine} (hz : zb a' = zb a) (ha : '\t' ∉ a.text) :
    SR k pre (s.setLine i a) (s'.setLine i a') :=
  ⟨h.lines.set i hz, h.notab.set i ha, h.line, h.lineMax, h.blkIndent, h.level, h.tight, h.listIndent, h.tokens⟩

theorem SR.setLineMax {k pre s s'} (h : SR k pre s s') (n : Nat) : SR k pre { s with lineMax := n } { s' with lineMax := n } :=
  ⟨h.lines, h.notab, h.line, rfl, h.blkIndent, h.level, h.tight, h.listIndent, h.tokens⟩

theorem SR.setBlk {k pre s s'} (h : SR k pre s s') (n : Int) : SR k pre { s with blkIndent := n } { s' with blkIndent := n } :=
  ⟨h.lines, h.notab, h.line, h.lineMax, rfl, h.level, h.tight, h.listIndent, h.tokens⟩

/-- saved line entries: equal up to `bsCount`, tab-free -/
def LRs (sv sv' : List BLine) : Prop := sv.map zb = sv'.map zb ∧ NoTab sv

theorem LRs.snoc {sv sv' : List BLine} (h : LRs sv sv') {a a' : BLine} (hz : zb a' = zb a) (ha : '\t' ∉ a.text) :
    LRs (sv ++ [a]) (sv' ++ [a']) := by
  refine ⟨by simp [h.1, hz], ?_⟩
  intro l hl
  rw [List.mem_append] at hl
  rcases hl with hl | hl
  · exact h.2 l hl
  · simp at hl; subst hl; exact ha

theorem quoteScan_sim {k} {ts ts' : List BRule} (hs : Sims k ts ts') (endLine : Nat) :
    ∀ (fuel next : Nat) (le : Bool) {pre s s'} (sv sv' : List BLine) (nx : Nat) (s2 : BState) (sv2 : List BLine),
      SR k pre s s' → LRs sv sv' → quoteScan ts endLine fuel next le s sv = .ok (nx, s2, sv2) →
      ∃ s2' sv2', quoteScan ts' endLine fuel next le s' sv' = .ok (nx, s2', sv2') ∧ SR k pre s2 s2' ∧ LRs sv2 sv2' := by
  intro fuel
  induction fuel with
  | zero => intro next le pre s s' sv sv' nx s2 sv2 _ _ h; simp [quoteScan] at h
  | succ n ih =>
    intro next le pre s s' sv sv' nx s2 sv2 hsr hsv h
    simp only [quoteScan] at h ⊢
    have fin : ∀ {x : BState} {x' : BState} {y y' : List BLine}, SR k pre x x' → LRs y y' →
        (Except.ok (next, x, y) : Except PyErr (Nat × BState × List BLine)) = .ok (nx, s2, sv2) →
        ∃ s2' sv2', (Except.ok (next, x', y') : Except PyErr (Nat × BState × List BLine)) = .ok (nx, s2', sv2') ∧ SR k pre s2 s2' ∧ LRs sv2 sv2' := by
      intro x x' y y' hx hy he
      simp only [Except.ok.injEq, Prod.mk.injEq] at he
      obtain ⟨e1, e2, e3⟩ := he; subst e1; subst e2; subst e3
      exact ⟨_, _, rfl, hx, hy⟩
    split at h
    · rename_i hlt
      simp only [hlt, ↓reduceIte]
      obtain ⟨l, hg, h⟩ := getL_cases h
      obtain ⟨l', hg', hz, hnt⟩ := getL_sim hsr next l hg
      have c1 : (l'.sCount < s'.blkIndent) = (l.sCount < s.blkIndent) := by rw [(zb_eq hz).1, hsr.blkIndent]
      simp only [hg', zb_empty hz, zb_body hz, c1]
      split at h
      · rename_i h1; simp only [h1, ↓reduceIte]; exact fin hsr hsv h
      · rename_i h1
        simp only [h1, ↓reduceIte]
        split at h
        · rename_i h2
          simp only [h2, ↓reduceIte]
          obtain ⟨q1, q2, q3⟩ := quoteStrip_sim hz hnt
          rw [q2]
          exact ih _ _ _ _ _ _ _ (hsr.setLine next q1 q3) (hsv.snoc hz hnt) h
        · rename_i h2
          simp only [h2, ↓reduceIte]
          split at h
          · rename_i h3; simp only [h3, ↓reduceIte]; exact fin hsr hsv h
          · rename_i h3
            have hle : le = false := by simpa using h3
            subst hle
            simp only [Bool.false_eq_true, ↓reduceIte]
            cases hq : runTerminators ts s next endLine with
            | error e => rw [hq] at h; cases h
            | ok v =>
              obtain ⟨b, s1⟩ := v
              rw [hq] at h
              obtain ⟨s1', hq', hsr1⟩ := runTerminators_sim hs next endLine b s1 hsr hq
              rw [hq']
              cases b with
              | true =>
                simp only at h ⊢
                have c2 : (s1'.blkIndent != 0) = (s1.blkIndent != 0) := by rw [hsr1.blkIndent]
                simp only [c2]
                split at h
                · rename_i h4
                  simp only [h4, ↓reduceIte]
                  obtain ⟨l1, hg1, h⟩ := getL_cases h
                  obtain ⟨l1', hg1', hz1, hnt1⟩ := getL_sim hsr1 next l1 hg1
                  simp only [hg1']
                  have hz2 : zb ({ l1' with sCount := l1'.sCount - s1'.blkIndent } : BLine) = zb { l1 with sCount := l1.sCount - s1.blkIndent } := by
                    obtain ⟨a1, a2, a3, a4⟩ := zb_eq hz1
                    simp [zb, a1, a2, a3, a4, hsr1.blkIndent]
                  exact fin ((hsr1.setLineMax next).setLine next hz2 hnt1) (hsv.snoc hz1 hnt1) h
                · rename_i h4
                  simp only [h4, ↓reduceIte]
                  exact fin (hsr1.setLineMax next) hsv h
              | false =>
                simp only at h ⊢
                obtain ⟨l1, hg1, h⟩ := getL_cases h
                obtain ⟨l1', hg1', hz1, hnt1⟩ := getL_sim hsr1 next l1 hg1
                simp only [hg1']
                have hz2 : zb ({ l1' with sCount := -1 } : BLine) = zb { l1 with sCount := -1 } := by
                  obtain ⟨a1, a2, a3, a4⟩ := zb_eq hz1
                  simp [zb, a2, a3, a4]
                exact ih _ _ _ _ _ _ _ (hsr1.setLine next hz2 hnt1) (hsv.snoc hz1 hnt1) h
    · rename_i hlt; simp only [hlt, ↓reduceIte]; exact fin hsr hsv h

theorem restoreLines_sim {k pre} : ∀ (sv sv' : List BLine) (s s' : BState) (start : Nat), SR k pre s s' → LRs sv sv' →
    SR k pre (restoreLines s start sv) (restoreLines s' start sv') := by
  intro sv
  induction sv with
  | nil =>
    intro sv' s s' start hsr hsv
    have : sv' = [] := by
      have := congrArg List.length hsv.1; simp at this; exact List.eq_nil_of_length_eq_zero this.symm
    subst this; exact hsr
  | cons a rest ih =>
    intro sv' s s' start hsr hsv
    cases sv' with
    | nil => have := congrArg List.length hsv.1; simp at this
    | cons a' rest' =>
      have hm := hsv.1
      simp only [List.map_cons, List.cons.injEq] at hm
      simp only [restoreLines]
      exact ih rest' _ _ _ (hsr.setLine start hm.1.symm (hsv.2 a (by simp))) ⟨hm.2, fun l hl => hsv.2 l (by simp [hl])⟩

@[simp] theorem shift_setMap (k : Int) (t : Tok) (m) : (t.setMap m).shift k = (t.shift k).setMap m := by cases t; rfl

theorem modify_sim (k : Int) (pre ts : List Tok) (i : Nat) (m : Option (Nat × Nat)) :
    (pre ++ ts.map (Tok.shift k)).modify (pre.length + i) (fun t => t.setMap m) = pre ++ (ts.modify i (fun t => t.setMap m)).map (Tok.shift k) := by
  induction pre with
  | nil =>
    simp only [List.nil_append, List.length_nil, Nat.zero_add]
    induction ts generalizing i with
    | nil => simp
    | cons t rest ih =>
      cases i with
      | zero => simp
      | succ j => simp [ih]
  | cons p ps ih =>
    simp only [List.cons_append, List.length_cons]
    have : ps.length + 1 + i = (ps.length + i) + 1 := by omega
    rw [this, List.modify_succ_cons, ih]

/-- the quote rule's bookkeeping after the nested run: `lineMax`, `parentType`, the map patch of the opening token -/
def finish6 (s5 : BState) (lm : Nat) (pt : String) (ntok line : Nat) : BState :=
  { s5 with lineMax := lm, parentType := pt, tokens := s5.tokens.modify ntok (fun t => t.setMap (some (line, s5.line))) }

theorem SR.finish6 {k pre s5 s5'} (h : SR k pre s5 s5') (lm lm' : Nat) (pt pt' : String) (ntok line : Nat) (hlm : lm' = lm) :
    SR k pre (finish6 s5 lm pt ntok line) (finish6 s5' lm' pt' (pre.length + ntok) line) := by
  refine ⟨h.lines, h.notab, h.line, hlm, h.blkIndent, h.level, h.tight, h.listIndent, ?_⟩
  show List.modify _ _ _ = _
  rw [h.tokens, h.line, modify_sim]
  rfl

theorem blockTokenize_sim {k} {rules rules' : List BRule} (hs : Sims k rules rules') (mn : Int) {pre s s'} (a b : Nat) (t : BState)
    (hsr : SR k pre s s') (h : blockTokenize rules mn s a b = .ok t) :
    ∃ t', blockTokenize rules' (mn + k) s' a b = .ok t' ∧ SR k pre t t' :=
  blockLoop_sim hs mn b _ a false t hsr h

theorem sim_quote (k : Int) (codeOn : Bool) {ts ts' inner inner' : List BRule} (hts : Sims k ts ts') (hin : Sims k inner inner') (mn : Int) :
    Sim k (ruleBlockquote codeOn ts inner mn) (ruleBlockquote codeOn ts' inner' (mn + k)) := by
  intro pre s s' line endLine silent m t hsr h
  unfold ruleBlockquote at h
  obtain ⟨l, hg, h⟩ := getL_cases h
  obtain ⟨l', hg', hz, hnt⟩ := getL_sim hsr line l hg
  simp only [ruleBlockquote, hg', isCode_sim hsr codeOn hz, zb_body hz]
  cases hc : isCodeLine codeOn s l <;> simp only [hc, ↓reduceIte, Bool.false_eq_true] at h ⊢
  · cases hh : (!l.body.head? == some '>') <;> simp only [hh, ↓reduceIte, Bool.false_eq_true] at h ⊢
    · cases silent <;> simp only [↓reduceIte, Bool.false_eq_true] at h ⊢
      · -- the real work
        obtain ⟨q1, q2, q3⟩ := quoteStrip_sim hz hnt
        have hsr1 := ((hsr.setLine line q1 q3).setParent "blockquote" "blockquote")
        cases hq : quoteScan ts endLine (endLine - line + 1) (line + 1) (quoteStrip l).2
            { (s.setLine line (quoteStrip l).1) with parentType := "blockquote" } [l] with
        | error e => rw [hq] at h; cases h
        | ok v =>
          obtain ⟨next, s2, saved⟩ := v
          rw [hq] at h
          obtain ⟨s2', saved', hq', hsr2, hsv2⟩ := quoteScan_sim hts endLine _ _ _ [l] [l'] next s2 saved hsr1
            ⟨by simp [hz], fun x hx => by simp at hx; subst hx; exact hnt⟩ hq
          rw [q2, hq']
          simp only at h ⊢
          have hsr3 := ((hsr2.setBlk 0).push "blockquote_open" "blockquote" 1 (some (line, 0)) none "" ">" "")
          cases hr : blockTokenize inner mn (({ s2 with blkIndent := 0 }).pushFull "blockquote_open" "blockquote" 1 (some (line, 0)) none "" ">" "") line next with
          | error e => rw [hr] at h; cases h
          | ok s4 =>
            rw [hr] at h
            obtain ⟨s4', hr', hsr4⟩ := blockTokenize_sim hin mn line next s4 hsr3 hr
            rw [hr']
            simp only [Except.ok.injEq, Prod.mk.injEq] at h ⊢
            obtain ⟨e1, e2⟩ := h; subst e1; subst e2
            refine ⟨_, ⟨rfl, rfl⟩, ?_⟩
            have hsr5 := hsr4.push "blockquote_close" "blockquote" (-1) none none "" ">" ""
            have hlen : s2'.tokens.length = pre.length + s2.tokens.length := by rw [hsr2.tokens]; simp
            have hsr6 := hsr5.finish6 s.lineMax s'.lineMax s.parentType s'.parentType s2.tokens.length line hsr.lineMax
            rw [← hlen] at hsr6
            have hsr7 := restoreLines_sim saved saved' _ _ line hsr6 hsv2
            have hfin := hsr7.setBlk s2.blkIndent
            rw [hsr2.blkIndent]
            exact hfin
      · sim_same h hsr
    · sim_same h hsr
  · sim_same h hsr

/-! ### the chains simulate each other across a shift of level and `maxNesting` -/

theorem qTerminators_sims (k : Int) (c : MiniCfg) (ws : List Nat) (mn : Int) :
    Sims k (qTerminators c ws mn) (qTerminators c ws (mn + k)) := by
  unfold qTerminators
  exact (((Sims.opt c.fence (sim_fence k c.code)).append (.cons (sim_quote k c.code .nil .nil mn) .nil)).append
    (Sims.opt c.hr (sim_hr k c.code))).append (Sims.opt c.heading (sim_heading k c.code ws))

theorem qChain_sims (k : Int) (c : MiniCfg) (ws : List Nat) (mn : Int) : ∀ d : Nat,
    Sims k (qChain c ws mn d) (qChain c ws (mn + k) d) := by
  intro d
  induction d with
  | zero => exact .nil
  | succ d ih =>
    unfold qChain
    exact (((((Sims.opt c.code (sim_code k c.code)).append (Sims.opt c.fence (sim_fence k c.code))).append
      (.cons (sim_quote k c.code (qTerminators_sims k c ws mn) ih mn) .nil)).append (Sims.opt c.hr (sim_hr k c.code))).append
      (Sims.opt c.heading (sim_heading k c.code ws))).append (.cons (sim_paragraph k (qTerminators_sims k c ws mn) ws) .nil)

end MdIt.C06
