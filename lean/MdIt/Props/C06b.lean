import MdIt.Props.C06
import MdIt.Props.C01c
/-!
# C06 (continued) — the block quote law for the modelled sub-parser, by simulation

Two runs of the chains are related when their line tables agree up to `bsCount`, their levels differ by a constant `k`,
and the tokens of the second are a fixed prefix followed by the level-shifted tokens of the first (`SR`).  On tab-free
line tables no rule reads `bsCount` (it only enters tab expansion), the nesting guard compares `level` with `maxNesting`
(shift both), and every push takes its level from the state — so every rule, the loop and the nested runs preserve `SR`
(`Sim`).  `quote_law` instantiates the simulation with the lines a block quote presents to its nested run.
-/
namespace MdIt.C06
open MdIt.C01

/-! ### the relation -/

def zb (l : BLine) : BLine := { l with bs := 0 }

/-- line tables equal up to `bsCount` -/
def LR (ls ls' : List BLine) : Prop := ls.map zb = ls'.map zb

def NoTab (ls : List BLine) : Prop := ∀ l ∈ ls, '\t' ∉ l.text

def _root_.MdIt.Tok.shift (k : Int) : Tok → Tok
  | .mk ty tag n a m lvl ch c mku info md b h => .mk ty tag n a m (lvl + k) ch c mku info md b h

structure SR (k : Int) (pre : List Tok) (s s' : BState) : Prop where
  lines : LR s.lines s'.lines
  notab : NoTab s.lines
  line : s'.line = s.line
  lineMax : s'.lineMax = s.lineMax
  blkIndent : s'.blkIndent = s.blkIndent
  level : s'.level = s.level + k
  tight : s'.tight = s.tight
  parentType : s'.parentType = s.parentType
  listIndent : s'.listIndent = s.listIndent
  tokens : s'.tokens = pre ++ s.tokens.map (Tok.shift k)

theorem LR.length {ls ls' : List BLine} (h : LR ls ls') : ls'.length = ls.length := by
  have := congrArg List.length h; simpa using this.symm

theorem LR.get {ls ls' : List BLine} (h : LR ls ls') (i : Nat) (l : BLine) (hl : ls[i]? = some l) :
    ∃ l', ls'[i]? = some l' ∧ zb l' = zb l := by
  have h1 : (ls.map zb)[i]? = some (zb l) := by simp [hl]
  rw [h] at h1
  simp only [List.getElem?_map, Option.map_eq_some_iff] at h1
  obtain ⟨l', h2, h3⟩ := h1
  exact ⟨l', h2, h3⟩

/-- what `zb`-equal lines share -/
theorem zb_eq {l l' : BLine} (h : zb l' = zb l) :
    l'.sCount = l.sCount ∧ l'.text = l.text ∧ l'.tShift = l.tShift ∧ l'.hasLF = l.hasLF := by
  cases l; cases l'; simp only [zb, BLine.mk.injEq] at h; exact ⟨h.1, h.2.1, h.2.2.1, h.2.2.2.2⟩

theorem zb_body {l l' : BLine} (h : zb l' = zb l) : l'.body = l.body := by
  obtain ⟨_, h2, h3, _⟩ := zb_eq h; simp [BLine.body, h2, h3]

theorem zb_empty {l l' : BLine} (h : zb l' = zb l) : l'.empty = l.empty := by
  obtain ⟨_, h2, h3, _⟩ := zb_eq h; simp [BLine.empty, h2, h3]

theorem getL_sim {k pre s s'} (h : SR k pre s s') (i : Nat) (l : BLine) (hg : getL s i = .ok l) :
    ∃ l', getL s' i = .ok l' ∧ zb l' = zb l ∧ '\t' ∉ l.text := by
  have hl : s.lines[i]? = some l := by
    unfold getL at hg
    cases hq : s.lines[i]? with
    | none => rw [hq] at hg; cases hg
    | some x => rw [hq] at hg; cases hg; rfl
  obtain ⟨l', h1, h2⟩ := h.lines.get i l hl
  exact ⟨l', getL_of_here h1, h2, h.notab l (List.mem_of_getElem? hl)⟩

theorem getL_sim_err {k pre s s'} (h : SR k pre s s') (i : Nat) (e : PyErr) (hg : getL s i = .error e) : getL s' i = .error e := by
  unfold getL at *
  cases hq : s.lines[i]? with
  | some x => rw [hq] at hg; cases hg
  | none =>
    rw [hq] at hg
    have : s'.lines[i]? = none := by
      rw [List.getElem?_eq_none_iff] at hq ⊢; rw [h.lines.length]; exact hq
    rw [this]; exact hg

theorem isCode_sim {k pre s s'} (h : SR k pre s s') (codeOn : Bool) {l l' : BLine} (hz : zb l' = zb l) :
    isCodeLine codeOn s' l' = isCodeLine codeOn s l := by
  simp [isCodeLine, (zb_eq hz).1, h.blkIndent]

/-! ### pushes -/

theorem shift_pushed (k : Int) (s s' : BState) (hl : s'.level = s.level + k) (a b : String) (n : Int) (m c d e f) :
    pushedTok s' a b n m c d e f = (pushedTok s a b n m c d e f).shift k := by
  by_cases hn : n < 0
  · simp only [pushedTok, Tok.shift, hl, hn, if_true]; congr 1; omega
  · simp only [pushedTok, Tok.shift, hl, hn, if_false]

theorem SR.push {k pre s s'} (h : SR k pre s s') (a b : String) (n : Int) (m c d e f) :
    SR k pre (s.pushFull a b n m c d e f) (s'.pushFull a b n m c d e f) := by
  refine ⟨h.lines, h.notab, h.line, h.lineMax, h.blkIndent, ?_, h.tight, h.parentType, h.listIndent, ?_⟩
  · simp only [BState.pushFull, h.level]; split <;> split <;> omega
  · rw [pushFull_tokens, pushFull_tokens, h.tokens, shift_pushed k s s' h.level]
    simp

theorem SR.setLineNo {k pre s s'} (h : SR k pre s s') (n : Nat) : SR k pre { s with line := n } { s' with line := n } :=
  ⟨h.lines, h.notab, rfl, h.lineMax, h.blkIndent, h.level, h.tight, h.parentType, h.listIndent, h.tokens⟩

/-! ### simulation of rules -/

def Sim (k : Int) (r r' : BRule) : Prop :=
  ∀ pre s s' line endLine silent m t, SR k pre s s' → r s line endLine silent = .ok (m, t) →
    ∃ t', r' s' line endLine silent = .ok (m, t') ∧ SR k pre t t'

private theorem getL_cases {s : BState} {i : Nat} {α} {f : BLine → Except PyErr α} {r : α}
    (h : (match getL s i with | .error e => (Except.error e : Except PyErr α) | .ok l => f l) = .ok r) : ∃ l, getL s i = .ok l ∧ f l = .ok r := by
  cases hg : getL s i with
  | error e => rw [hg] at h; cases h
  | ok l => rw [hg] at h; exact ⟨l, rfl, h⟩

/-- both sides took the same branch and returned the entry states: close with the relation at hand -/
macro "sim_same" h:ident hsr:term : tactic =>
  `(tactic| (simp only [Except.ok.injEq, Prod.mk.injEq] at $h:ident; obtain ⟨h1, h2⟩ := $h:ident; subst h1; subst h2; exact ⟨_, rfl, $hsr⟩))

theorem sim_hr (k : Int) (codeOn : Bool) : Sim k (ruleHr codeOn) (ruleHr codeOn) := by
  intro pre s s' line endLine silent m t hsr h
  unfold ruleHr at h
  obtain ⟨l, hg, h⟩ := getL_cases h
  obtain ⟨l', hg', hz, _⟩ := getL_sim hsr line l hg
  simp only [ruleHr, hg', isCode_sim hsr codeOn hz, zb_body hz]
  cases hc : isCodeLine codeOn s l <;> simp only [hc, ↓reduceIte, Bool.false_eq_true] at h ⊢
  · cases hm : hrMarkup l.body <;> simp only [hm] at h ⊢
    · sim_same h hsr
    · cases silent <;> simp only [↓reduceIte, Bool.false_eq_true] at h ⊢
      · sim_same h ((hsr.setLineNo (line + 1)).push _ _ _ _ _ _ _ _)
      · sim_same h hsr
  · sim_same h hsr

/-! ### `getLines` does not read `bsCount` on tab-free lines -/

theorem cutGo_notab (tShift bs bs' indent : Nat) : ∀ (chars : List Char) (i li : Nat), '\t' ∉ chars →
    cutGo tShift bs indent chars i li = cutGo tShift bs' indent chars i li := by
  intro chars
  induction chars with
  | nil => intro i li _; rfl
  | cons c cs ih =>
    intro i li hnt
    have hc : c ≠ '\t' := fun e => hnt (by simp [e])
    have hcs : '\t' ∉ cs := fun e => hnt (by simp [e])
    simp only [cutGo, hc, if_false]
    split
    · split
      · exact ih _ _ hcs
      · split
        · exact ih _ _ hcs
        · rfl
    · rfl

theorem cutLineI_notab (chars : List Char) (tShift bs bs' : Nat) (indent : Int) (h : '\t' ∉ chars) :
    cutLineI chars tShift bs indent = cutLineI chars tShift bs' indent := by
  simp only [cutLineI, cutLine, cutGo_notab tShift bs bs' indent.toNat chars 0 0 h]

theorem getLinesGo_sim {k pre s s'} (h : SR k pre s s') (end_ : Nat) (indent : Int) (keep : Bool) :
    ∀ (n line : Nat) (acc c : List Char), getLinesGo s end_ indent keep n line acc = .ok c →
      getLinesGo s' end_ indent keep n line acc = .ok c := by
  intro n
  induction n with
  | zero => intro line acc c hc; exact hc
  | succ m ih =>
    intro line acc c hc
    unfold getLinesGo at hc
    obtain ⟨l, hg, hc⟩ := getL_cases hc
    obtain ⟨l', hg', hz, hnt⟩ := getL_sim h line l hg
    simp only [getLinesGo, hg']
    obtain ⟨_, h2, h3, h4⟩ := zb_eq hz
    rw [h2, h3, h4]
    have hnt' : '\t' ∉ l.text ++ (if ((decide (line + 1 < end_) || keep) && l.hasLF) = true then ['\n'] else []) := by
      intro hm
      rw [List.mem_append] at hm
      rcases hm with hm | hm
      · exact hnt hm
      · split at hm
        · simp at hm
        · cases hm
    rw [cutLineI_notab _ l.tShift l'.bs l.bs indent hnt']
    exact ih _ _ _ hc

theorem getLinesB_sim {k pre s s'} (h : SR k pre s s') (b e : Nat) (indent : Int) (keep : Bool) (c : List Char)
    (hc : getLinesB s b e indent keep = .ok c) : getLinesB s' b e indent keep = .ok c :=
  getLinesGo_sim h e indent keep _ _ _ _ hc

theorem sim_heading (k : Int) (codeOn : Bool) (ws : List Nat) : Sim k (ruleHeading codeOn ws) (ruleHeading codeOn ws) := by
  intro pre s s' line endLine silent m t hsr h
  unfold ruleHeading at h
  obtain ⟨l, hg, h⟩ := getL_cases h
  obtain ⟨l', hg', hz, _⟩ := getL_sim hsr line l hg
  simp only [ruleHeading, hg', isCode_sim hsr codeOn hz, zb_body hz]
  cases hc : isCodeLine codeOn s l <;> simp only [hc, ↓reduceIte, Bool.false_eq_true] at h ⊢
  · cases hb : l.body with
    | nil => simp only [hb] at h ⊢; sim_same h hsr
    | cons c rest =>
      simp only [hb] at h ⊢
      by_cases h1 : (c != '#') = true
      · simp only [h1, ↓reduceIte] at h ⊢; sim_same h hsr
      · simp only [h1, ↓reduceIte, Bool.false_eq_true] at h ⊢
        by_cases h2 : (List.takeWhile (fun x => x == '#') (c :: rest)).length > 6
        · simp only [h2, ↓reduceIte] at h ⊢; sim_same h hsr
        · simp only [h2, ↓reduceIte] at h ⊢
          cases h3 : headingSep (List.drop (List.takeWhile (fun x => x == '#') (c :: rest)).length (c :: rest)) <;>
            simp only [h3, Bool.not_false, Bool.not_true, ↓reduceIte, Bool.false_eq_true] at h ⊢
          · sim_same h hsr
          · cases silent <;> simp only [↓reduceIte, Bool.false_eq_true] at h ⊢
            · sim_same h ((((hsr.setLineNo (line + 1)).push _ _ _ _ _ _ _ _).push _ _ _ _ _ _ _ _).push _ _ _ _ _ _ _ _)
            · sim_same h hsr
  · sim_same h hsr

theorem codeScan_sim {k pre s s'} (h : SR k pre s s') (codeOn : Bool) (endLine : Nat) :
    ∀ (fuel next last r : Nat), codeScan codeOn s endLine fuel next last = .ok r → codeScan codeOn s' endLine fuel next last = .ok r := by
  intro fuel
  induction fuel with
  | zero => intro next last r hr; simp [codeScan] at hr
  | succ n ih =>
    intro next last r hr
    simp only [codeScan] at hr ⊢
    split at hr
    · rename_i hlt
      simp only [hlt, ↓reduceIte]
      obtain ⟨l, hg, hr⟩ := getL_cases hr
      obtain ⟨l', hg', hz, _⟩ := getL_sim h next l hg
      simp only [hg', zb_empty hz, isCode_sim h codeOn hz]
      split at hr
      · rename_i he; simp only [he, ↓reduceIte]; exact ih _ _ _ hr
      · rename_i he
        simp only [he, ↓reduceIte]
        split at hr
        · rename_i hc; simp only [hc, ↓reduceIte]; exact ih _ _ _ hr
        · rename_i hc; simp only [hc, ↓reduceIte]; exact hr
    · rename_i hlt; simp only [hlt, ↓reduceIte]; exact hr

theorem sim_code (k : Int) (codeOn : Bool) : Sim k (ruleCode codeOn) (ruleCode codeOn) := by
  intro pre s s' line endLine silent m t hsr h
  unfold ruleCode at h
  obtain ⟨l, hg, h⟩ := getL_cases h
  obtain ⟨l', hg', hz, _⟩ := getL_sim hsr line l hg
  simp only [ruleCode, hg', isCode_sim hsr codeOn hz]
  cases hc : isCodeLine codeOn s l <;> simp only [hc, ↓reduceIte, Bool.false_eq_true, Bool.not_false, Bool.not_true] at h ⊢
  · sim_same h hsr
  · cases hs : codeScan codeOn s endLine (endLine - line + 1) (line + 1) (line + 1) with
    | error e => rw [hs] at h; cases h
    | ok last =>
      rw [hs] at h
      simp only [codeScan_sim hsr codeOn endLine _ _ _ _ hs] at h ⊢
      cases hgl : getLinesB s line last (4 + s.blkIndent) false with
      | error e => rw [hgl] at h; cases h
      | ok c =>
        rw [hgl] at h
        have e : getLinesB s' line last (4 + s'.blkIndent) false = .ok c := by
          rw [hsr.blkIndent]; exact getLinesB_sim hsr _ _ _ _ _ hgl
        simp only [e]
        sim_same h ((hsr.setLineNo last).push _ _ _ _ _ _ _ _)

theorem fenceScan_sim {k pre s s'} (h : SR k pre s s') (codeOn : Bool) (endLine : Nat) (marker : Char) (len : Nat) :
    ∀ (fuel prev : Nat) (r : Nat × Bool), fenceScan codeOn s endLine marker len fuel prev = .ok r →
      fenceScan codeOn s' endLine marker len fuel prev = .ok r := by
  intro fuel
  induction fuel with
  | zero => intro prev r hr; simp [fenceScan] at hr
  | succ n ih =>
    intro prev r hr
    simp only [fenceScan] at hr ⊢
    split at hr
    · rename_i hge; simp only [hge, ↓reduceIte]; exact hr
    · rename_i hge
      simp only [hge, ↓reduceIte]
      obtain ⟨l, hg, hr⟩ := getL_cases hr
      obtain ⟨l', hg', hz, _⟩ := getL_sim h (prev + 1) l hg
      obtain ⟨hsc, _, _, hlf⟩ := zb_eq hz
      simp only [hg', zb_empty hz, isCode_sim h codeOn hz, zb_body hz, hsc, hlf, h.blkIndent]
      split at hr
      · rename_i h1; simp only [h1, ↓reduceIte]; exact hr
      · rename_i h1
        simp only [h1, ↓reduceIte]
        cases hb : l.body with
        | nil =>
          simp only [hb] at hr ⊢
          split at hr
          · rename_i h2; simp only [h2, ↓reduceIte]; exact ih _ _ hr
          · rename_i h2; simp only [h2, ↓reduceIte]; exact hr
        | cons c rest =>
          simp only [hb] at hr ⊢
          split at hr
          · rename_i h2; simp only [h2, ↓reduceIte]; exact ih _ _ hr
          · rename_i h2
            simp only [h2, ↓reduceIte]
            split at hr
            · rename_i h3; simp only [h3, ↓reduceIte]; exact ih _ _ hr
            · rename_i h3
              simp only [h3, ↓reduceIte]
              split at hr
              · rename_i h4; simp only [h4, ↓reduceIte]; exact ih _ _ hr
              · rename_i h4
                simp only [h4, ↓reduceIte]
                split at hr
                · rename_i h5; simp only [h5, ↓reduceIte]; exact hr
                · rename_i h5; simp only [h5, ↓reduceIte]; exact ih _ _ hr

theorem sim_fence (k : Int) (codeOn : Bool) : Sim k (ruleFence codeOn) (ruleFence codeOn) := by
  intro pre s s' line endLine silent m t hsr h
  unfold ruleFence at h
  obtain ⟨l, hg, h⟩ := getL_cases h
  obtain ⟨l', hg', hz, _⟩ := getL_sim hsr line l hg
  simp only [ruleFence, hg', isCode_sim hsr codeOn hz, zb_body hz, (zb_eq hz).1]
  cases hc : isCodeLine codeOn s l <;> simp only [hc, ↓reduceIte, Bool.false_eq_true] at h ⊢
  · by_cases h1 : l.body.length < 3
    · simp only [h1, ↓reduceIte] at h ⊢; sim_same h hsr
    · simp only [h1, ↓reduceIte] at h ⊢
      cases hb : l.body with
      | nil => simp only [hb] at h ⊢; sim_same h hsr
      | cons marker rest =>
        simp only [hb] at h ⊢
        split at h
        · rename_i h2; simp only [h2, ↓reduceIte]; sim_same h hsr
        · rename_i h2
          simp only [h2, ↓reduceIte]
          split at h
          · rename_i h3; simp only [h3, ↓reduceIte]; sim_same h hsr
          · rename_i h3
            simp only [h3, ↓reduceIte]
            split at h
            · rename_i h4; simp only [h4, ↓reduceIte]; sim_same h hsr
            · rename_i h4
              simp only [h4, ↓reduceIte]
              cases silent <;> simp only [↓reduceIte, Bool.false_eq_true] at h ⊢
              · cases hs : fenceScan codeOn s endLine marker (List.takeWhile (fun x => x == marker) (marker :: rest)).length (endLine - line + 1) line with
                | error e => rw [hs] at h; cases h
                | ok r =>
                  obtain ⟨next, hv⟩ := r
                  rw [hs] at h
                  simp only [fenceScan_sim hsr codeOn endLine _ _ _ _ _ hs] at h ⊢
                  cases hgl : getLinesB s (line + 1) next l.sCount true with
                  | error e => rw [hgl] at h; cases h
                  | ok c =>
                    rw [hgl] at h
                    simp only [getLinesB_sim hsr _ _ _ _ _ hgl]
                    sim_same h ((hsr.setLineNo _).push _ _ _ _ _ _ _ _)
              · sim_same h hsr
  · sim_same h hsr

/-! ### chains, terminators, `paragraph` -/

inductive Sims (k : Int) : List BRule → List BRule → Prop where
  | nil : Sims k [] []
  | cons {r r' rs rs'} : Sim k r r' → Sims k rs rs' → Sims k (r :: rs) (r' :: rs')

theorem Sims.append {k} {a a' b b' : List BRule} (h1 : Sims k a a') (h2 : Sims k b b') : Sims k (a ++ b) (a' ++ b') := by
  induction h1 with
  | nil => exact h2
  | cons hr _ ih => exact .cons hr ih

theorem Sims.opt {k} (c : Bool) {r r' : BRule} (h : Sim k r r') : Sims k (if c then [r] else []) (if c then [r'] else []) := by
  cases c
  · exact .nil
  · exact .cons h .nil

theorem runTerminators_sim {k} {ts ts' : List BRule} (hs : Sims k ts ts') :
    ∀ {pre s s'} (line endLine : Nat) (b : Bool) (s1 : BState), SR k pre s s' → runTerminators ts s line endLine = .ok (b, s1) →
      ∃ s1', runTerminators ts' s' line endLine = .ok (b, s1') ∧ SR k pre s1 s1' := by
  induction hs with
  | nil =>
    intro pre s s' line endLine b s1 hsr h
    simp only [runTerminators, Except.ok.injEq, Prod.mk.injEq] at h
    obtain ⟨h1, h2⟩ := h; subst h1; subst h2
    exact ⟨_, rfl, hsr⟩
  | @cons r r' rs rs' hr _ ih =>
    intro pre s s' line endLine b s1 hsr h
    simp only [runTerminators] at h ⊢
    cases hq : r s line endLine true with
    | error e => rw [hq] at h; cases h
    | ok v =>
      obtain ⟨m, t⟩ := v
      rw [hq] at h
      obtain ⟨t', hq', hsr'⟩ := hr pre s s' line endLine true m t hsr hq
      rw [hq']
      cases m with
      | true =>
        simp only [Except.ok.injEq, Prod.mk.injEq] at h
        obtain ⟨h1, h2⟩ := h; subst h1; subst h2
        exact ⟨_, rfl, hsr'⟩
      | false => exact ih line endLine b s1 hsr' h

theorem paraScan_sim {k} {ts ts' : List BRule} (hs : Sims k ts ts') (endLine : Nat) :
    ∀ (fuel next : Nat) {pre s s'} (r : Nat) (s1 : BState), SR k pre s s' → paraScan ts endLine fuel next s = .ok (r, s1) →
      ∃ s1', paraScan ts' endLine fuel next s' = .ok (r, s1') ∧ SR k pre s1 s1' := by
  intro fuel
  induction fuel with
  | zero => intro next pre s s' r s1 _ h; simp [paraScan] at h
  | succ n ih =>
    intro next pre s s' r s1 hsr h
    simp only [paraScan] at h ⊢
    split at h
    · rename_i hlt
      simp only [hlt, ↓reduceIte]
      obtain ⟨l, hg, h⟩ := getL_cases h
      obtain ⟨l', hg', hz, _⟩ := getL_sim hsr next l hg
      simp only [hg', zb_empty hz, (zb_eq hz).1, hsr.blkIndent]
      split at h
      · rename_i h1; simp only [h1, ↓reduceIte]
        simp only [Except.ok.injEq, Prod.mk.injEq] at h; obtain ⟨e1, e2⟩ := h; subst e1; subst e2; exact ⟨_, rfl, hsr⟩
      · rename_i h1
        simp only [h1, ↓reduceIte]
        split at h
        · rename_i h2; simp only [h2, ↓reduceIte]; exact ih _ _ _ hsr h
        · rename_i h2
          simp only [h2, ↓reduceIte]
          split at h
          · rename_i h3; simp only [h3, ↓reduceIte]; exact ih _ _ _ hsr h
          · rename_i h3
            simp only [h3, ↓reduceIte]
            cases hq : runTerminators ts s next endLine with
            | error e => rw [hq] at h; cases h
            | ok v =>
              obtain ⟨b, t⟩ := v
              rw [hq] at h
              obtain ⟨t', hq', hsr'⟩ := runTerminators_sim hs next endLine b t hsr hq
              rw [hq']
              cases b with
              | true =>
                simp only [Except.ok.injEq, Prod.mk.injEq] at h; obtain ⟨e1, e2⟩ := h; subst e1; subst e2; exact ⟨_, rfl, hsr'⟩
              | false => exact ih _ _ _ hsr' h
    · rename_i hlt
      simp only [hlt, ↓reduceIte]
      simp only [Except.ok.injEq, Prod.mk.injEq] at h; obtain ⟨e1, e2⟩ := h; subst e1; subst e2; exact ⟨_, rfl, hsr⟩

theorem SR.setParent {k pre s s'} (h : SR k pre s s') (p : String) : SR k pre { s with parentType := p } { s' with parentType := p } :=
  ⟨h.lines, h.notab, h.line, h.lineMax, h.blkIndent, h.level, h.tight, rfl, h.listIndent, h.tokens⟩

theorem sim_paragraph (k : Int) {ts ts' : List BRule} (hs : Sims k ts ts') (ws : List Nat) :
    Sim k (ruleParagraph ts ws) (ruleParagraph ts' ws) := by
  intro pre s s' line endLine silent m t hsr h
  simp only [ruleParagraph] at h ⊢
  cases hq : paraScan ts s.lineMax (s.lineMax - line + 1) (line + 1) { s with parentType := "paragraph" } with
  | error e => rw [hq] at h; cases h
  | ok v =>
    obtain ⟨next, s1⟩ := v
    rw [hq] at h
    obtain ⟨s1', hq', hsr1⟩ := paraScan_sim hs s.lineMax _ _ next s1 (hsr.setParent "paragraph") hq
    have hq'' : paraScan ts' s'.lineMax (s'.lineMax - line + 1) (line + 1) { s' with parentType := "paragraph" } = .ok (next, s1') := by
      have hq3 := hq'
      rw [← hsr.lineMax] at hq3
      exact hq3
    rw [hq'']
    simp only at h ⊢
    cases hgl : getLinesB s1 line next s1.blkIndent false with
    | error e => rw [hgl] at h; cases h
    | ok c =>
      rw [hgl] at h
      have e : getLinesB s1' line next s1'.blkIndent false = .ok c := by
        rw [hsr1.blkIndent]; exact getLinesB_sim hsr1 _ _ _ _ _ hgl
      simp only [e]
      simp only [Except.ok.injEq, Prod.mk.injEq] at h; obtain ⟨e1, e2⟩ := h; subst e1; subst e2
      refine ⟨_, rfl, ?_⟩
      have h3 := (((hsr1.setLineNo next).push "paragraph_open" "p" 1 (some (line, next)) none "" "" "").push
        "inline" "" 0 (some (line, next)) (some []) (String.ofList (pyStrip ws c)) "" "").push "paragraph_close" "p" (-1) none none "" "" ""
      have := h3.setParent s.parentType
      rw [hsr.parentType]
      exact this

end MdIt.C06
