import MdIt.Props.C05e
/-!
# C10 (continued) — token provenance end to end, at every depth: a rule that is off leaves no token of its kinds

The deep token engine of `C05d` (`imgChain_addsD`) instantiated with predicates on the token *type*: for every predicate `Q` on type
names that the tokens of the enabled rules satisfy, every token below every `inline` token of a whole parse — in the children and in
all image descriptions nested in them — has a type satisfying `Q` (`full_types`).  With `Q` = "is in the vocabulary of the enabled
inline rules": **`full_provenance`**.  (`C04c` instantiates the same engine with "is not raw HTML".)
-/
namespace MdIt.C10
open MdIt.C01 MdIt.C05

/-- the deep predicate of a predicate on type names -/
abbrev TyDeep (Q : String → Prop) : Tok → Prop := Deep (fun t => Q t.type)

theorem tyDeep_flat {Q : String → Prop} (t : Tok) (hc : t.children = none) (h : Q t.type) : TyDeep Q t := deep_flat t hc h

theorem ty_closed {Q : String → Prop} (E : List String) (hT : Q "text") (hE : ∀ ty ∈ E, Q ty) : TokClosed (fun t => Q t.type) E := by
  refine ⟨fun _ _ => hT, ?_, ?_, ?_⟩
  · intro t l h; cases t; exact h
  · intro t c h; cases t; exact h
  · intro t ty tag n mk _ hty; simp only [setEmph_type]; exact hE ty hty

theorem ty_joinClosed {Q : String → Prop} (hT : Q "text") : JoinClosed (fun t => Q t.type) :=
  ⟨fun t _ h => by cases t; exact h, fun t _ h => by cases t; exact h, fun _ _ _ _ _ _ _ _ _ _ _ _ _ => hT⟩

theorem ty_linkN (ext : IExt) (lx : LExt) {Q : String → Prop} (hT : Q "text") (hO : Q "link_open") (hC : Q "link_close") :
    LinkN ext lx (TyDeep Q) :=
  ⟨fun t hc h => tyDeep_flat t hc (by rcases h with h | h <;> rw [h] <;> assumption),
   fun t _ _ hc hty _ _ _ => tyDeep_flat t hc (by rw [hty]; exact hO)⟩

theorem ty_imageN (ext : IExt) (lx : LExt) {Q : String → Prop} (hT : Q "text") (hI : Q "image") : ImageN ext lx (TyDeep Q) := by
  refine ⟨fun t hc hty => tyDeep_flat t hc (by rw [hty]; exact hT), ?_⟩
  intro t src cs _ hty _ _ _ hch hcs
  refine ⟨by show Q t.type; rw [hty]; exact hI, ?_⟩
  intro c hc
  have hd : descendants t = descOpt t.children := by cases t; rfl
  rw [hd] at hc
  rcases hch with hch | hch
  · rw [hch] at hc; simp [descOpt] at hc
  · rw [hch] at hc; exact deep_list cs hcs c hc

/-- what `Q` must accept, rule by rule -/
structure TyLeaf (Q : String → Prop) (html newline escape backticks autolink htmlInline entity : Bool) : Prop where
  hardbreak : (newline || escape) = true → Q "hardbreak"
  softbreak : newline = true → Q "softbreak"
  special : (escape || entity) = true → Q "text_special"
  code : backticks = true → Q "code_inline"
  auto : autolink = true → Q "link_open" ∧ Q "link_close"
  html : htmlInline = true → html = true → Q "html_inline"

theorem ty_leafN (ext : IExt) {Q : String → Prop} (newline escape backticks autolink htmlInline entity : Bool)
    (h : TyLeaf Q ext.html newline escape backticks autolink htmlInline entity) :
    LeafN ext (TyDeep Q) newline escape backticks autolink htmlInline entity :=
  ⟨fun hh _ => tyDeep_flat _ rfl (h.hardbreak hh), fun hh _ => tyDeep_flat _ rfl (h.softbreak hh),
   fun hh _ _ _ => tyDeep_flat _ rfl (h.special (by simp [hh])), fun hh _ _ _ => tyDeep_flat _ rfl (h.code hh),
   fun hh _ _ _ => tyDeep_flat _ rfl (h.auto hh).1, fun hh _ => tyDeep_flat _ rfl (h.auto hh).2,
   fun hh hx _ _ => tyDeep_flat _ rfl (h.html hh hx), fun hh _ _ _ => tyDeep_flat _ rfl (h.special (by simp [hh]))⟩

/-- **the generic end-to-end statement**: the types below every `inline` token of a whole parse satisfy `Q` -/
theorem full_types (cls : QCls) (ext : IExt) (lx : LExt) (bc : MCfg) (ic : ICfg) (hon : ic.inlineOn = true) {Q : String → Prop}
    (hT : Q "text") (hLk : ic.link = true → Q "link_open" ∧ Q "link_close") (hIm : ic.image = true → Q "image")
    (hE : ∀ ty ∈ emphTypes ic.strike ic.emphasis, Q ty)
    (hF : TyLeaf Q ext.html ic.newline ic.escape ic.backticks ic.autolink ic.htmlInline ic.entity)
    (ws : List Nat) (mn : Int) (d : Nat) (src : List Char) (ts : List Tok) (h : fullParse cls ext lx bc ic ws mn d src = .ok ts) :
    ∀ t ∈ ts, t.type ∈ mAllowed bc ∧ (t.type = "inline" → ∀ x ∈ descOpt t.children, Q x.type) := by
  unfold fullParse at h
  cases hb : mParse bc ws mn src with
  | error e => rw [hb] at h; cases h
  | ok bts =>
    rw [hb] at h
    simp only [hon, if_true] at h
    cases hc : coreInline (inlineOf cls ext lx ic mn d) bts with
    | error e => rw [hc] at h; cases h
    | ok its =>
      rw [hc] at h
      simp only [Except.ok.injEq] at h
      have hprov := m_provenance bc ws mn src bts hb
      have hparse : ∀ c cs, inlineOf cls ext lx ic mn d c = .ok cs → ∀ x ∈ descList cs, Q x.type := by
        intro c cs hp
        unfold inlineOf at hp
        exact deep_list cs (imgParse_toksD cls ext lx ic.text ic.newline ic.escape ic.backticks ic.strike ic.emphasis ic.link ic.image ic.autolink
          ic.htmlInline ic.entity ic.fragJoin mn (fun _ _ => tyDeep_flat _ rfl hT)
          (fun hl => ty_linkN ext lx hT (hLk hl).1 (hLk hl).2) (fun hi => ty_imageN ext lx hT (hIm hi))
          (ty_leafN ext ic.newline ic.escape ic.backticks ic.autolink ic.htmlInline ic.entity hF)
          (deep_closed (ty_closed _ hT hE)) d c cs hp)
      have h1 := coreInline_deep (N := fun t => Q t.type) (mAllowed bc) _ hparse bts its hprov hc
      subst h
      split
      · exact textJoin_deep (ty_joinClosed hT) _ _ h1
      · exact h1

/-- the token types the enabled inline rules (and the second chain) can produce -/
def inlineAllowed (html : Bool) (ic : ICfg) : List String :=
  ["text"] ++ (if ic.newline || ic.escape then ["hardbreak"] else []) ++ (if ic.newline then ["softbreak"] else [])
    ++ (if ic.escape || ic.entity then ["text_special"] else []) ++ (if ic.backticks then ["code_inline"] else [])
    ++ (if ic.link || ic.autolink then ["link_open", "link_close"] else []) ++ (if ic.image then ["image"] else [])
    ++ (if ic.htmlInline && html then ["html_inline"] else []) ++ emphTypes ic.strike ic.emphasis

/-- **C10.full_provenance** — `MarkdownIt.parse` end to end on the modelled sub-language: every top-level token has a type of the
block vocabulary of the enabled block rules, and every token below an `inline` token — at every depth of nested image descriptions —
has a type of the vocabulary of the *enabled* inline rules: a rule that is switched off leaves no token of its kinds (no `image` without
the image rule, no `link_open` without `link` and `autolink`, no `html_inline` without the rule *and* the `html` option, no `em_*` /
`strong_*` / `s_*` without emphasis / strikethrough, …), for every source, `maxNesting`, reference table and external functions. -/
theorem full_provenance (cls : QCls) (ext : IExt) (lx : LExt) (bc : MCfg) (ic : ICfg) (hon : ic.inlineOn = true)
    (ws : List Nat) (mn : Int) (d : Nat) (src : List Char) (ts : List Tok) (h : fullParse cls ext lx bc ic ws mn d src = .ok ts) :
    ∀ t ∈ ts, t.type ∈ mAllowed bc ∧ (t.type = "inline" → ∀ x ∈ descOpt t.children, x.type ∈ inlineAllowed ext.html ic) := by
  refine full_types cls ext lx bc ic hon (Q := fun ty => ty ∈ inlineAllowed ext.html ic) ?_ ?_ ?_ ?_ ?_ ws mn d src ts h
  · simp [inlineAllowed]
  · intro hl; simp [inlineAllowed, hl]
  · intro hi; simp [inlineAllowed, hi]
  · intro ty hty; simp only [inlineAllowed, List.mem_append]; exact .inr hty
  · refine ⟨?_, ?_, ?_, ?_, ?_, ?_⟩
    · intro hh; simp only [inlineAllowed, hh, if_true]; simp
    · intro hh; simp [inlineAllowed, hh]
    · intro hh; simp only [inlineAllowed, hh, if_true]; simp
    · intro hh; simp [inlineAllowed, hh]
    · intro hh; simp [inlineAllowed, hh]
    · intro hh hx; simp [inlineAllowed, hh, hx]

end MdIt.C10

namespace MdIt.C10
open MdIt.C01 MdIt.C05

/-- the types of a parse: top-level tokens, the descendants of each `inline` token in brackets -/
def fullTypes (r : Except PyErr (List Tok)) : Option (List String) :=
  match r with
  | .ok ts => some (ts.flatMap (fun t => t.type :: (if t.type == "inline" then ["("] ++ (descOpt t.children).map Tok.type ++ [")"] else [])))
  | .error _ => none

/-! non-vacuity: with `image` and `emphasis` off the text yields no `image` / `em_open` token (the `*` stay text; `![i](/s)` is a `!`
followed by a link, since `link` is on) -/
example : fullTypes (fullParse C02f.asciiCls ext0 C01.lx0
      { code := true, fence := true, hr := true, heading := true, htmlBlock := false, lheading := true, html := false }
      { text := true, newline := true, escape := true, backticks := true, strike := false, emphasis := false, link := true, image := false,
        autolink := false, htmlInline := false, entity := false, fragJoin := true, inlineOn := true, textJoinOn := true }
      [32, 9, 10, 11, 12, 13] 20 40 "> *a* ![i](/s) [l](/u) `c`\n".toList)
    = some ["blockquote_open", "paragraph_open", "inline", "(", "text", "link_open", "text", "link_close", "text", "link_open", "text", "link_close",
            "text", "code_inline", ")", "paragraph_close", "blockquote_close"] := by decide +kernel

end MdIt.C10
