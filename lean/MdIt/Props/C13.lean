import MdIt.Conc
import MdIt.Proofs.Ruler
/-!
# C13 — concurrent or nested parses on a shared instance do not interfere

Model: `MdIt/Conc.lean`.  Statement: for every number of threads and every schedule (any
interleaving of atomic steps, re-entrancy included), from any coherent state including
`cache = none` (first use / freshly reconfigured), every response a thread receives equals the
specification `chainOf rules chain`; a finished thread holds exactly its solo result.
-/
namespace MdIt.C13

def GoodCache (rules : List Rule) (c : Option Cache) : Prop :=
  ∀ x, c = some x → ∀ ch, lookup x ch = chainOf rules ch

/-- per-thread invariant -/
def GoodThread (rules : List Rule) (cache : Option Cache) (t : Thread) : Prop :=
  t.got = soloResult rules (t.orig.take t.got.length) ∧
  (match t.pc with
   | .idle => t.orig = t.got.map (·.1) ++ t.todo
   | .r1 ch => t.orig = t.got.map (·.1) ++ ch :: t.todo
   | .built ch c => t.orig = t.got.map (·.1) ++ ch :: t.todo ∧ ∀ k, lookup c k = chainOf rules k
   | .r2 ch => t.orig = t.got.map (·.1) ++ ch :: t.todo ∧ cache ≠ none)

def Inv (s : Sys) : Prop :=
  GoodCache s.rules s.cache ∧ ∀ t ∈ s.threads, GoodThread s.rules s.cache t

theorem soloResult_fst (rules : List Rule) (l : List String) : (soloResult rules l).map (·.1) = l := by
  simp [soloResult, Function.comp_def]

/-- a step of one thread keeps the cache good, keeps that thread good, and never un-publishes -/
theorem stepThread_inv (rules : List Rule) (cache : Option Cache) (t : Thread)
    (hc : GoodCache rules cache) (ht : GoodThread rules cache t) :
    GoodCache rules (stepThread rules cache t).1 ∧
    GoodThread rules (stepThread rules cache t).1 (stepThread rules cache t).2 ∧
    (cache ≠ none → (stepThread rules cache t).1 ≠ none) := by
  obtain ⟨hg, hp⟩ := ht
  unfold stepThread
  cases hpc : t.pc with
  | idle =>
    rw [hpc] at hp
    cases htd : t.todo with
    | nil => simp only; exact ⟨hc, ⟨hg, by simp [hpc, hp, htd]⟩, id⟩
    | cons ch rest =>
      simp only
      exact ⟨hc, ⟨hg, by simp only; rw [hp, htd]⟩, id⟩
  | r1 ch =>
    rw [hpc] at hp
    cases hcache : cache with
    | some c => simp only; exact ⟨by simpa [hcache] using hc, ⟨hg, by simp [hp]⟩, by simp⟩
    | none =>
      simp only
      exact ⟨(by intro x hx; cases hx), ⟨hg, ⟨hp, fun k => lookup_compile rules k⟩⟩, (by simp)⟩
  | built ch c =>
    rw [hpc] at hp
    simp only
    refine ⟨?_, ⟨hg, ⟨hp.1, by simp⟩⟩, by simp⟩
    intro x hx; cases hx; exact hp.2
  | r2 ch =>
    rw [hpc] at hp
    cases hcache : cache with
    | none => exact absurd hcache hp.2
    | some c =>
      simp only
      refine ⟨by simpa [hcache] using hc, ⟨?_, ?_⟩, by simp⟩
      · -- got grows by the specification's answer
        have hlen : (t.got ++ [(ch, lookup c ch)]).length = t.got.length + 1 := by simp
        rw [hlen]
        have horig := hp.1
        have hl : t.got.length = (t.got.map (·.1)).length := by simp
        have htake : t.orig.take (t.got.length + 1) = t.got.map (·.1) ++ [ch] := by
          rw [horig, hl, List.take_length_add_append]
          simp
        have htake0 : t.orig.take t.got.length = t.got.map (·.1) := by
          rw [horig, hl, List.take_left']
          rfl
        rw [htake]
        rw [htake0] at hg
        simp only [soloResult, List.map_append, List.map_cons, List.map_nil]
        rw [hc c hcache ch]
        congr 1
      · simp only [List.map_append, List.map_cons, List.map_nil, List.append_assoc, List.cons_append,
          List.nil_append]
        exact hp.1

/-- the other threads stay good when the cache goes from good to good without being un-published -/
theorem goodThread_mono (rules : List Rule) (c c' : Option Cache) (t : Thread)
    (h : GoodThread rules c t) (hmono : c ≠ none → c' ≠ none) : GoodThread rules c' t := by
  obtain ⟨hg, hp⟩ := h
  refine ⟨hg, ?_⟩
  cases hpc : t.pc with
  | idle => rw [hpc] at hp; exact hp
  | r1 ch => rw [hpc] at hp; exact hp
  | built ch c => rw [hpc] at hp; exact hp
  | r2 ch => rw [hpc] at hp; exact ⟨hp.1, hmono hp.2⟩

theorem step_inv (s : Sys) (i : Nat) (h : Inv s) : Inv (s.step i) ∧ (s.step i).rules = s.rules := by
  unfold Sys.step
  cases hti : s.threads[i]? with
  | none => exact ⟨h, rfl⟩
  | some t =>
    have htmem : t ∈ s.threads := List.mem_of_getElem? hti
    obtain ⟨h1, h2, h3⟩ := stepThread_inv s.rules s.cache t h.1 (h.2 t htmem)
    refine ⟨⟨h1, ?_⟩, rfl⟩
    intro u hu
    simp only at hu
    rcases List.mem_or_eq_of_mem_set hu with hu | hu
    · exact goodThread_mono _ _ _ _ (h.2 u hu) h3
    · subst hu; exact h2

theorem run_inv (s : Sys) (sched : List Nat) (h : Inv s) :
    Inv (s.run sched) ∧ (s.run sched).rules = s.rules := by
  induction sched generalizing s with
  | nil => exact ⟨h, rfl⟩
  | cons i rest ih =>
    have := step_inv s i h
    have r := ih (s.step i) this.1
    exact ⟨r.1, r.2.trans this.2⟩

/-- initial states: any coherent cache (in particular `none`: first use, or freshly reconfigured),
    any number of threads each about to parse -/
theorem init_inv (rules : List Rule) (cache : Option Cache) (hc : GoodCache rules cache)
    (work : List (List String)) :
    Inv { rules := rules, cache := cache, threads := work.map Thread.start } := by
  refine ⟨hc, ?_⟩
  intro t ht
  simp only [List.mem_map] at ht
  obtain ⟨w, _, rfl⟩ := ht
  simp [GoodThread, Thread.start, soloResult]

/-- **C13.interleave** — for every number of threads, every schedule, from every coherent initial
cache (incl. `none`): at every moment, the responses each thread has received so far are exactly the
first responses of its solo run; and a thread that has finished holds exactly its solo result. -/
theorem interleave (rules : List Rule) (cache : Option Cache) (hc : GoodCache rules cache)
    (work : List (List String)) (sched : List Nat) :
    let s := (Sys.mk rules cache (work.map Thread.start)).run sched
    ∀ t ∈ s.threads,
      t.got = soloResult rules (t.orig.take t.got.length)
      ∧ (t.done = true → t.got = soloResult rules t.orig) := by
  intro s t ht
  have hinv := run_inv _ sched (init_inv rules cache hc work)
  have hrules : s.rules = rules := hinv.2
  have hgt := hinv.1.2 t ht
  rw [hrules] at hgt
  refine ⟨hgt.1, ?_⟩
  intro hdone
  obtain ⟨hg, hp⟩ := hgt
  unfold Thread.done at hdone
  cases hpc : t.pc with
  | idle =>
    rw [hpc] at hp
    simp only [Bool.and_eq_true, List.isEmpty_iff] at hdone
    rw [hdone.1, List.append_nil] at hp
    have hlen : t.got.length = t.orig.length := by rw [hp]; simp
    rw [hg, hlen, List.take_length]
  | r1 ch => simp [hpc] at hdone
  | built ch c => simp [hpc] at hdone
  | r2 ch => simp [hpc] at hdone

/-- threads keep their identity and work list: thread `i` of the final state is thread `i` of the
initial one (so "its solo result" is the solo result of the work it was given) -/
theorem threads_orig (s : Sys) (sched : List Nat) :
    (s.run sched).threads.map (·.orig) = s.threads.map (·.orig) := by
  induction sched generalizing s with
  | nil => rfl
  | cons i rest ih =>
    rw [Sys.run, ih]
    unfold Sys.step
    cases hti : s.threads[i]? with
    | none => rfl
    | some t =>
      simp only
      apply List.ext_getElem?
      intro j
      simp only [List.getElem?_map, List.getElem?_set]
      by_cases hij : i = j
      · subst hij
        have horig : (stepThread s.rules s.cache t).2.orig = t.orig := by
          unfold stepThread
          cases t.pc <;> simp only <;> (try cases t.todo <;> simp only) <;> (try cases s.cache <;> simp only)
        have hlt : i < s.threads.length := by
          rcases Nat.lt_or_ge i s.threads.length with h | h
          · exact h
          · rw [List.getElem?_eq_none h] at hti; cases hti
        have hget : s.threads[i] = t := by
          have := List.getElem?_eq_getElem hlt
          rw [hti] at this; exact (Option.some.inj this).symm
        simp [hlt, horig, hget]
      · simp [hij]

/-- the `r2` read never finds the cache unpublished: `assert self.__cache__ is not None` cannot fail
and `None.get` cannot happen, under any schedule -/
theorem r2_never_none (rules : List Rule) (cache : Option Cache) (hc : GoodCache rules cache)
    (work : List (List String)) (sched : List Nat) :
    let s := (Sys.mk rules cache (work.map Thread.start)).run sched
    ∀ t ∈ s.threads, ∀ ch, t.pc = .r2 ch → s.cache ≠ none := by
  intro s t ht ch hpc
  have hinv := run_inv _ sched (init_inv rules cache hc work)
  have := (hinv.1.2 t ht).2
  rw [hpc] at this
  exact this.2

/-! ### non-vacuity and the counter-example that motivates the single publishing store -/

def demoRules : List Rule := [⟨"a", true, 1, ["x"]⟩, ⟨"b", true, 2, []⟩]

/-- two threads, first use (`cache = none`), thread 1 pre-empts thread 0 between build and publish -/
example :
    let s := (Sys.mk demoRules none ([[""], ["x", ""]].map Thread.start)).run
      [0, 0, 1, 1, 1, 1, 0, 0, 1, 1, 1, 1]
    s.threads.map (·.got) = [[("", [1, 2])], [("x", [1]), ("", [1, 2])]] := by decide

/-- the pre-fix code under the schedule "thread 0 publishes `{}`, thread 1 runs": thread 1 reads an
empty chain although rules 1 and 2 are enabled — the defect fixed by F6. -/
example :
    let r := runOld demoRules none [⟨[""], .idle, []⟩, ⟨[""], .idle, []⟩] [0, 0, 1, 1, 1]
    (r.2.map (·.got)) = [[], [("", [])]] ∧ chainOf demoRules "" = [1, 2] := by decide

end MdIt.C13
