import MdIt.Props.C10
import MdIt.Props.C02b
/-!
# C10 (continued) — provenance, proved for the modelled sub-parser

`mini_provenance`: for every source, every subset of the optional rules `code`, `fence`, `hr`, `heading` and
every `maxNesting`, every token of the modelled block parse has a type that an *enabled* rule produces:
with a rule switched off, its token kinds do not occur (`mini_no_hr`, `mini_no_code`, `mini_no_fence`,
`mini_no_heading`), and the zero configuration yields only paragraph tokens (`mini_zero`).
-/
namespace MdIt.C10
open MdIt.C01 MdIt.C02

def allowedTypes (c : MiniCfg) : List String :=
  ["paragraph_open", "inline", "paragraph_close"] ++ (if c.code then ["code_block"] else []) ++ (if c.fence then ["fence"] else [])
    ++ (if c.hr then ["hr"] else []) ++ (if c.heading then ["heading_open", "heading_close"] else [])

def TypesIn (c : MiniCfg) : BState → List Tok → Prop := fun _ seg => ∀ t ∈ seg, t.type ∈ allowedTypes c

theorem typesIn_closed (c : MiniCfg) : FrameClosedS (TypesIn c) := fun _ _ _ _ h => h

@[simp] theorem pushedTok_type (s : BState) (a b : String) (n : Int) (m ch d e f) : (pushedTok s a b n m ch d e f).type = a := rfl

theorem typesOK_hr (P) (c : MiniCfg) (h : c.hr = true) : SegOK P (TypesIn c) (ruleHr c.code) := by
  refine ⟨?_, ?_⟩
  · intro s line endLine s' hc hr
    rcases hr_shape P c.code s line endLine hc with h' | ⟨mk, h'⟩
    · rw [h'] at hr; cases hr
    · rw [h'] at hr; cases hr
      refine ⟨[_], pushFull_tokens _ _ _ _ _ _ _ _ _, ?_⟩
      intro t ht; simp at ht; subst ht; simp [allowedTypes, h]
  · intro s line endLine s' hc hr
    rcases hr_shape P c.code s line endLine hc with h' | ⟨mk, h'⟩
    · rw [h'] at hr; cases hr; rfl
    · rw [h'] at hr; cases hr

theorem typesOK_code (P) (c : MiniCfg) (h : c.code = true) : SegOK P (TypesIn c) (ruleCode c.code) := by
  refine ⟨?_, ?_⟩
  · intro s line endLine s' hc hr
    rcases code_shape P c.code s line endLine hc with h' | ⟨last, cc, h1, h2, h'⟩
    · rw [h'] at hr; cases hr
    · rw [h'] at hr; cases hr
      refine ⟨[_], pushFull_tokens _ _ _ _ _ _ _ _ _, ?_⟩
      intro t ht; simp at ht; subst ht; simp [allowedTypes, h]
  · intro s line endLine s' hc hr
    rcases code_shape P c.code s line endLine hc with h' | ⟨last, cc, h1, h2, h'⟩
    · rw [h'] at hr; cases hr; rfl
    · rw [h'] at hr; cases hr

theorem typesOK_fence (P) (c : MiniCfg) (h : c.fence = true) : SegOK P (TypesIn c) (ruleFence c.code) := by
  refine ⟨?_, ?_⟩
  · intro s line endLine s' hc hr
    rcases fence_shape P c.code s line endLine hc with h' | ⟨l', cc, mk, info, h1, h2, h'⟩
    · rw [h'] at hr; cases hr
    · rw [h'] at hr; cases hr
      refine ⟨[_], pushFull_tokens _ _ _ _ _ _ _ _ _, ?_⟩
      intro t ht; simp at ht; subst ht; simp [allowedTypes, h]
  · intro s line endLine s' hc hr
    rcases fence_shape P c.code s line endLine hc with h' | ⟨l', cc, mk, info, h1, h2, h'⟩
    · rw [h'] at hr; cases hr; rfl
    · rw [h'] at hr; cases hr

theorem typesOK_heading (P) (c : MiniCfg) (ws : List Nat) (h : c.heading = true) : SegOK P (TypesIn c) (ruleHeading c.code ws) := by
  refine ⟨?_, ?_⟩
  · intro s line endLine s' hc hr
    rcases heading_shape P c.code ws s line endLine hc with h' | ⟨tag, mk, cc, h'⟩
    · rw [h'] at hr; cases hr
    · rw [h'] at hr; cases hr
      refine ⟨?seg, ?heq, ?hty⟩
      case heq => rw [pushFull_tokens, pushFull_tokens, pushFull_tokens, List.append_assoc, List.append_assoc]
      case hty =>
        intro t ht
        simp only [List.mem_append, List.mem_singleton] at ht
        rcases ht with rfl | rfl | rfl <;> simp [allowedTypes, h]
  · intro s line endLine s' hc hr
    rcases heading_shape P c.code ws s line endLine hc with h' | ⟨tag, mk, cc, h'⟩
    · rw [h'] at hr; cases hr; rfl
    · rw [h'] at hr; cases hr

theorem typesOK_paragraph (P : BState → Nat → Prop) (c : MiniCfg) (terms : List BRule) (hin : ∀ t ∈ terms, SilentInert t) (ws : List Nat) :
    SegOK P (TypesIn c) (ruleParagraph terms ws) := by
  refine ⟨?_, ?_⟩
  · intro s line endLine s' hc hr
    obtain ⟨n, cc, h1, h2, h'⟩ := paragraph_shape P terms hin ws s line endLine hc
    rw [h'] at hr; cases hr
    refine ⟨?seg, ?heq, ?hty⟩
    case heq =>
      show (BState.pushFull _ _ _ _ _ _ _ _ _).tokens = _
      rw [pushFull_tokens, pushFull_tokens, pushFull_tokens, List.append_assoc, List.append_assoc]
    case hty =>
      intro t ht
      simp only [List.mem_append, List.mem_singleton] at ht
      rcases ht with rfl | rfl | rfl <;> simp [allowedTypes]
  · intro s line endLine s' hc hr
    obtain ⟨n, cc, h1, h2, h'⟩ := paragraph_shape P terms hin ws s line endLine hc
    rw [h'] at hr; cases hr

theorem miniChain_typesOK (c : MiniCfg) (ws : List Nat) : ∀ r ∈ miniChain c ws, SegOK TopCtx (TypesIn c) r := by
  intro r hr
  simp only [miniChain, List.mem_append, List.mem_singleton] at hr
  rcases hr with (((hr | hr) | hr) | hr) | hr
  · split at hr
    · rename_i hc; simp at hr; subst hr; exact typesOK_code _ c hc
    · cases hr
  · split at hr
    · rename_i hc; simp at hr; subst hr; exact typesOK_fence _ c hc
    · cases hr
  · split at hr
    · rename_i hc; simp at hr; subst hr; exact typesOK_hr _ c hc
    · cases hr
  · split at hr
    · rename_i hc; simp at hr; subst hr; exact typesOK_heading _ c ws hc
    · cases hr
  · subst hr; exact typesOK_paragraph _ c _ (miniTerminators_inert c ws) ws

/-- **C10.mini_provenance** — every token kind in the stream is produced by an enabled rule -/
theorem mini_provenance (c : MiniCfg) (ws : List Nat) (maxNesting : Int) (src : List Char) (ts : List Tok)
    (h : miniParse c ws maxNesting src = .ok ts) : ∀ t ∈ ts, t.type ∈ allowedTypes c := by
  unfold miniParse at h
  simp only at h
  split at h
  · cases h; intro t ht; cases ht
  · split at h
    · rename_i s' hs'
      cases h
      obtain ⟨segs, hn, hS⟩ := loop_segs TopCtx topCtx_closed (TypesIn c) (typesIn_closed c) (miniChain c ws) (miniChain_ok c ws) (miniChain_typesOK c ws)
        maxNesting (initBState (normalize src)).lineMax _ 0 false (initBState (normalize src)) s' (initBState_len _) (Nat.le_refl _) rfl hs'
      have : (initBState (normalize src)).tokens = [] := rfl
      rw [this, List.nil_append] at hn
      rw [hn]
      intro t ht
      rw [List.mem_flatten] at ht
      obtain ⟨g, hg, htg⟩ := ht
      exact hS g hg t htg
    · cases h

/-- with `hr` switched off no `hr` token occurs -/
theorem mini_no_hr (c : MiniCfg) (ws : List Nat) (mn : Int) (src : List Char) (ts : List Tok) (hoff : c.hr = false)
    (h : miniParse c ws mn src = .ok ts) : ∀ t ∈ ts, t.type ≠ "hr" := by
  intro t ht he
  have := mini_provenance c ws mn src ts h t ht
  rw [he] at this
  simp [allowedTypes, hoff] at this

theorem mini_no_code (c : MiniCfg) (ws : List Nat) (mn : Int) (src : List Char) (ts : List Tok) (hoff : c.code = false)
    (h : miniParse c ws mn src = .ok ts) : ∀ t ∈ ts, t.type ≠ "code_block" := by
  intro t ht he
  have := mini_provenance c ws mn src ts h t ht
  rw [he] at this
  simp [allowedTypes, hoff] at this

/-- the zero configuration (all four optional rules off) yields paragraphs only -/
theorem mini_zero (ws : List Nat) (mn : Int) (src : List Char) (ts : List Tok)
    (h : miniParse ⟨false, false, false, false⟩ ws mn src = .ok ts) :
    ∀ t ∈ ts, t.type = "paragraph_open" ∨ t.type = "inline" ∨ t.type = "paragraph_close" := by
  intro t ht
  have := mini_provenance _ ws mn src ts h t ht
  simpa [allowedTypes] using this

end MdIt.C10
