import MdIt.Props.C09b
import MdIt.InlineImage
/-!
# C09 (continued) — backslash-escaping makes any text literal, for the full inline sub-parser

`inline_literal` instantiated with the eleven-rule chain `imgChain` (every subset that keeps `text` and `escape`) and its real second
chain over all delimiter scopes (`balance_pairs`, both post-processing rules): the literal loop never records a delimiter nor opens a
scope (`loop_literal` now also says so), and on a state without delimiters and closed scopes the three rules of the second chain are
the identity.  **`imgChain_literal`**: for every text `t` without line feed, every other rule switched on or off — emphasis,
strikethrough, backticks, link, image, autolink, raw HTML, entities —, every `maxNesting ≥ 1`, budget, reference table and external
functions, the inline parse of the backslash-escaped spelling of `t`, after `fragments_join` and `text_join`, is exactly one `text`
token holding `t`.
-/
namespace MdIt.C09

theorem balancePairsL_id (s : IState) (hd : s.delimiters = []) (hm : s.metas = []) : balancePairsL s = s := by
  have hp : processDelims [] = [] := by decide
  cases s
  simp only at hd hm
  subst hd; subst hm
  simp [balancePairsL, hp]

theorem emphasisPostL_id (s : IState) (hd : s.delimiters = []) (hm : s.metas = []) : emphasisPostL s = s := by
  cases s
  simp only at hd hm
  subst hd; subst hm
  simp [emphasisPostL, metasSorted, emphPostGo]

theorem strikePostL_id (s : IState) (hd : s.delimiters = []) (hm : s.metas = []) : strikePostL s = s := by
  cases s
  simp only at hd hm
  subst hd; subst hm
  simp [strikePostL, metasSorted, strikeMark, strikeSwap]

theorem imgPost_id (strike emphasis : Bool) : ∀ f ∈ imgPost strike emphasis, ∀ s : IState, s.delims = 0 → s.delimiters = [] → s.metas = [] → f s = s := by
  intro f hf s _ hd hm
  simp only [imgPost, linkPost, List.mem_append] at hf
  rcases hf with (hf | hf) | hf
  · split at hf
    · simp at hf; subst hf; exact balancePairsL_id s hd hm
    · cases hf
  · split at hf
    · simp at hf; subst hf; exact strikePostL_id s hd hm
    · cases hf
  · split at hf
    · simp at hf; subst hf; exact emphasisPostL_id s hd hm
    · cases hf

/-- the rules of `imgChain` behind `escape` -/
def imgTail (cls : QCls) (ext : IExt) (lx : LExt) (newline backticks strike emphasis link image autolink htmlInline entity : Bool) (mn : Int)
    (d : Nat) : List IRule :=
  let inner := imgChain cls ext lx true newline true backticks strike emphasis link image autolink htmlInline entity true mn d
  (if backticks then [ruleBackticks] else []) ++ (if strike then [ruleStrike cls] else [])
    ++ (if emphasis then [ruleEmphasis cls] else [])
    ++ (if link then [ruleLink ext lx mn inner] else [])
    ++ (if image then [ruleImage ext lx mn inner (inlineParse inner (imgPost strike emphasis) true mn)] else [])
    ++ (if autolink then [ruleAutolink ext] else []) ++ (if htmlInline then [ruleHtmlInline ext] else [])
    ++ (if entity then [ruleEntity ext] else [])

/-- **C09.imgChain_literal** -/
theorem imgChain_literal (cls : QCls) (ext : IExt) (lx : LExt) (newline backticks strike emphasis link image autolink htmlInline entity : Bool)
    (mn : Int) (hmn : 1 ≤ mn) (d : Nat) (t : List Char) (hlf : '\n' ∉ t) (hne : t ≠ []) :
    ∃ ts tk, inlineParse (imgChain cls ext lx true newline true backticks strike emphasis link image autolink htmlInline entity true mn (d + 1))
        (imgPost strike emphasis) true mn (escapeAll t) = .ok ts
      ∧ joinToks [] ts = [tk] ∧ tk.type = "text" ∧ tk.content.toList = t := by
  have hshape : ∃ mid post, (∀ m ∈ mid, DeclinesAtBackslash m) ∧
      imgChain cls ext lx true newline true backticks strike emphasis link image autolink htmlInline entity true mn (d + 1)
        = ruleText :: (mid ++ ruleEscape :: post) := by
    cases newline with
    | true =>
      refine ⟨[ruleNewline], imgTail cls ext lx true backticks strike emphasis link image autolink htmlInline entity mn d, ?_, ?_⟩
      · intro m hm; simp at hm; subst hm; exact newline_declines
      · simp only [imgChain, imgTail, if_true, List.singleton_append, List.cons_append, List.nil_append, List.append_assoc]
    | false =>
      refine ⟨[], imgTail cls ext lx false backticks strike emphasis link image autolink htmlInline entity mn d, ?_, ?_⟩
      · intro m hm; cases hm
      · simp only [imgChain, imgTail, if_true, Bool.false_eq_true, if_false, List.singleton_append, List.cons_append, List.nil_append, List.append_assoc]
  obtain ⟨mid, post, hmid, hch⟩ := hshape
  rw [hch]
  obtain ⟨ts, tk, h1, h2, h3, h4, _⟩ := inline_literal mid post hmid (imgPost strike emphasis) (imgPost_id strike emphasis) mn hmn t hlf hne
  exact ⟨ts, tk, h1, h2, h3, h4⟩

/-! non-vacuity: a text made of exactly the characters that would otherwise open emphasis, code, links, images, autolinks, entities -/
example : (match inlineParse (imgChain ⟨fun c => (33 ≤ c && c ≤ 47) || (58 ≤ c && c ≤ 64) || (91 ≤ c && c ≤ 96) || (123 ≤ c && c ≤ 126),
        fun c => c == 32 || c == 9 || c == 10⟩ { entity := fun _ => none, reformat := id, normText := id, html := true }
        { hasRefs := false, normRef := id, storeLabels := false, refs := fun _ => none }
        true true true true true true true true true true true true 20 5) (imgPost true true) true 20 (escapeAll "*a* `b` [c](d) ![e](f) <g:h> &amp; ~~i~~".toList) with
      | .ok ts => some ((joinToks [] ts).map (fun t => (t.type, t.content))) | .error _ => none)
    = some [("text", "*a* `b` [c](d) ![e](f) <g:h> &amp; ~~i~~")] := by decide +kernel

end MdIt.C09
