import MdIt.Props.C10n
/-!
# C04 (continued) — the one attribute the table rule writes comes from a fixed set of three values

`alignsGo_vals` (every alignment the delimiter row yields is `""`, `left`, `right` or `center`), `StyleOK` carried through the pushes of
the table rule like `AppT` in `C10n`, and **`table_style_values`**: every token a match of the table rule appends has no attribute at all,
or exactly one, `style`, whose value is `text-align:left`, `text-align:right` or `text-align:center` — nothing of the input text can reach
an attribute name or value of a table token (the renderer escapes attribute values anyway: `C04.render_pieces`).
-/
namespace MdIt.C04
open MdIt.C01 MdIt.C10

def alignVals : List String := ["center", "right", "left", ""]

def StyleOK (t : Tok) : Prop :=
  t.attrs = [] ∨ ∃ a ∈ ["center", "right", "left"], t.attrs = [("style", AttrVal.s ("text-align:" ++ a))]

theorem alignOf_vals (t : List Char) : alignOf t ∈ alignVals := by
  unfold alignOf alignVals
  repeat' split
  all_goals simp

theorem alignsGo_vals (ws : List Nat) (n : Nat) : ∀ (cols : List (List Char)) (i : Nat) (as : List String),
    alignsGo ws n i cols = some as → ∀ a ∈ as, a ∈ alignVals := by
  intro cols
  induction cols with
  | nil => intro i as h; simp only [alignsGo, Option.some.injEq] at h; subst h; intro a ha; cases ha
  | cons c rest ih =>
    intro i as h
    simp only [alignsGo] at h
    split at h
    · split at h
      · exact ih _ _ h
      · cases h
    · split at h
      · cases h
      · cases hr : alignsGo ws n (i + 1) rest with
        | none => rw [hr] at h; cases h
        | some r =>
          rw [hr] at h
          simp only [Option.map_some, Option.some.injEq] at h
          subst h
          intro a ha
          simp only [List.mem_cons] at ha
          rcases ha with rfl | ha
          · exact alignOf_vals _
          · exact ih _ _ hr a ha

theorem tableHead_aligns {codeOn : Bool} {ws : List Nat} {s : BState} {line endLine : Nat} {aligns : List String} {cols : List (List Char)}
    (h : tableHead codeOn ws s line endLine = .ok (some (aligns, cols))) : ∀ a ∈ aligns, a ∈ alignVals := by
  unfold tableHead at h
  split at h
  · cases h
  split at h
  · cases h
  split at h
  · cases h
  split at h
  · cases h
  split at h
  · cases h
  try simp only at h
  split at h
  · cases h
  · rename_i as has
    split at h
    · cases h
    try simp only at h
    split at h
    · cases h
    split at h
    · cases h
    split at h
    · cases h
    · simp only [Except.ok.injEq, Option.some.injEq, Prod.mk.injEq] at h
      obtain ⟨rfl, _⟩ := h
      exact alignsGo_vals ws _ _ _ _ has

def AppS (s s' : BState) : Prop := ∃ seg, s'.tokens = s.tokens ++ seg ∧ ∀ t ∈ seg, StyleOK t

theorem appS_refl (s : BState) : AppS s s := ⟨[], by simp, by simp⟩

theorem appS_trans {a b c : BState} (h1 : AppS a b) (h2 : AppS b c) : AppS a c := by
  obtain ⟨g1, e1, t1⟩ := h1
  obtain ⟨g2, e2, t2⟩ := h2
  refine ⟨g1 ++ g2, by rw [e2, e1, List.append_assoc], ?_⟩
  intro t ht
  rcases List.mem_append.mp ht with h | h
  · exact t1 t h
  · exact t2 t h

theorem appS_plain (s : BState) (ty tag : String) (n : Int) (m c d) : AppS s (s.pushT ty tag n [] m c d) :=
  ⟨[_], rfl, by intro t ht; simp only [List.mem_singleton] at ht; subst ht; exact .inl rfl⟩

theorem appS_styled (s : BState) (ty tag : String) (n : Int) (a : String) (ha : a ∈ alignVals) (m c d) :
    AppS s (s.pushT ty tag n (if a.isEmpty then [] else [("style", AttrVal.s ("text-align:" ++ a))]) m c d) := by
  refine ⟨[_], rfl, ?_⟩
  intro t ht
  simp only [List.mem_singleton] at ht
  subst ht
  simp only [alignVals, List.mem_cons, List.not_mem_nil, or_false] at ha
  rcases ha with rfl | rfl | rfl | rfl
  · exact .inr ⟨"center", by simp, rfl⟩
  · exact .inr ⟨"right", by simp, rfl⟩
  · exact .inr ⟨"left", by simp, rfl⟩
  · exact .inl rfl

theorem appS_cells (ws : List Nat) (o c tg : String) (line : Nat) (cols : List (List Char)) :
    ∀ (as : List String) (i : Nat) (s : BState), (∀ a ∈ as, a ∈ alignVals) → AppS s (pushCells ws o c tg line cols as i s) := by
  intro as
  induction as with
  | nil => intro i s _; exact appS_refl s
  | cons a rest ih =>
    intro i s hv
    simp only [pushCells]
    exact appS_trans (appS_trans (appS_trans (appS_styled _ _ _ _ a (hv a (by simp)) _ _ _) (appS_plain _ _ _ _ _ _ _))
      (appS_plain _ _ _ _ _ _ _)) (ih _ _ (fun x hx => hv x (by simp [hx])))

theorem appS_body (codeOn : Bool) (terms : List BRule) (hin : ∀ t ∈ terms, SilentInert t) (ws : List Nat)
    (aligns : List String) (hv : ∀ a ∈ aligns, a ∈ alignVals) (startLine endLine : Nat) :
    ∀ (fuel next : Nat) (s : BState) (r : Nat) (s' : BState), endLine < s.lines.length →
      tableBody codeOn terms ws aligns startLine endLine fuel next s = .ok (r, s') → AppS s s' := by
  intro fuel
  induction fuel with
  | zero => intro next s r s' _ h; simp [tableBody] at h
  | succ n ih =>
    intro next s r s' hlen h
    simp only [tableBody] at h
    split at h
    · rename_i hlt
      obtain ⟨l, hg, _⟩ := getL_ok s next (by omega)
      simp only [hg] at h
      split at h
      · cases h; exact appS_refl _
      · obtain ⟨b, hb⟩ := runTerminators_inert terms hin s next endLine (by omega)
        simp only [hb] at h
        cases b with
        | true => cases h; exact appS_refl _
        | false =>
          simp only [hg] at h
          split at h
          · cases h; exact appS_refl _
          · split at h
            · cases h; exact appS_refl _
            · refine appS_trans ?_ (ih _ _ _ _ ?_ h)
              · refine appS_trans (appS_trans (appS_trans ?_ (appS_plain _ _ _ _ _ _ _))
                  (appS_cells ws _ _ _ _ _ _ _ _ hv)) (appS_plain _ _ _ _ _ _ _)
                split
                · exact appS_plain _ _ _ _ _ _ _
                · exact appS_refl _
              · rw [pushT_lines, (pushCells_same _ _ _ _ _ _ _ _ _).1.1, pushT_lines]
                split <;> simpa using hlen
    · cases h; exact appS_refl _

theorem styleOK_setMap (t : Tok) (m) (h : StyleOK t) : StyleOK (t.setMap m) := by
  cases t; exact h

/-- **C04.table_style_values** -/
theorem table_style_values (codeOn : Bool) (terms : List BRule) (hin : ∀ t ∈ terms, SilentInert t) (ws : List Nat) (s : BState) (line endLine : Nat)
    (hlen : endLine < s.lines.length) (silent m : Bool) (s' : BState) (h : ruleTable codeOn terms ws s line endLine silent = .ok (m, s'))
    (hold : ∀ t ∈ s.tokens, StyleOK t) : ∀ t ∈ s'.tokens, StyleOK t := by
  unfold ruleTable at h
  split at h
  · cases h
  · cases h; exact hold
  · rename_i aligns cols hth
    have hv := tableHead_aligns hth
    split at h
    · cases h; exact hold
    · simp only at h
      split at h
      · cases h
      · rename_i next s7 hb
        cases h
        have h6 := appS_trans (appS_trans (appS_trans (appS_trans (appS_trans
            (appS_plain { s with parentType := "table" } "table_open" "table" 1 (some (line, 0)) none "")
            (appS_plain _ "thead_open" "thead" 1 (some (line, line + 1)) none ""))
            (appS_plain _ "tr_open" "tr" 1 (some (line, line + 1)) none ""))
            (appS_cells ws "th_open" "th_close" "th" line cols aligns 0 _ hv))
            (appS_plain _ "tr_close" "tr" (-1) none none ""))
            (appS_plain _ "thead_close" "thead" (-1) none none "")
        have h7 := appS_body codeOn terms hin ws aligns hv _ _ _ _ _ _ _
          (by rw [pushT_lines, pushT_lines, (pushCells_same _ _ _ _ _ _ _ _ _).1.1]; exact hlen) hb
        obtain ⟨g, e, tg⟩ := appS_trans h6 h7
        have h7all : ∀ t ∈ s7.tokens, StyleOK t := by
          intro t ht
          rw [e] at ht
          rcases List.mem_append.mp ht with h | h
          · exact hold t h
          · exact tg t h
        have h9all : ∀ b : Bool, ∀ t ∈ ((if b = true then s7.pushT "tbody_close" "tbody" (-1) [] none none "" else s7).pushT
            "table_close" "table" (-1) [] none none "").tokens, StyleOK t := by
          intro b t ht
          simp only [BState.pushT, List.mem_append, List.mem_singleton] at ht
          rcases ht with ht | rfl
          · split at ht
            · simp only [List.mem_append, List.mem_singleton] at ht
              rcases ht with ht | rfl
              · exact h7all t ht
              · exact .inl rfl
            · exact h7all t ht
          · exact .inl rfl
        intro t ht
        dsimp only at ht
        split at ht
        · rcases mem_modify _ _ _ t ht with h1 | ⟨u, hu, rfl⟩
          · rcases mem_modify _ _ _ t h1 with h2 | ⟨u, hu, rfl⟩
            · exact h9all true t h2
            · exact styleOK_setMap u _ (h9all true u hu)
          · rcases mem_modify _ _ _ u hu with h2 | ⟨w, hw, rfl⟩
            · exact styleOK_setMap u _ (h9all true u h2)
            · exact styleOK_setMap _ _ (styleOK_setMap w _ (h9all true w hw))
        · rcases mem_modify _ _ _ t ht with h1 | ⟨u, hu, rfl⟩
          · exact h9all false t h1
          · exact styleOK_setMap u _ (h9all false u hu)

end MdIt.C04
