import MdIt.Props.C07c
/-!
# C06 (continued) — the block quote law for the full modelled sub-parser

`Props/C07c.lean` proves the list rule's simulation in the relation of `Props/C07b.lean` (which subsumes the one of `C06b`: take the line
shift `n = 0`); the quote law for documents that contain lists (nested in quotes, quotes nested in lists, tight and loose, ordered
with start numbers, empty items) is `C07.l_quote_law`.  Restated here so that the C06 check builds and audits it.
-/
namespace MdIt.C06

/-- **C06.l_quote_law** — for every document `D` given by its lines (no tab, CR, NUL, LF inside a line; at least one line), every
subset of `code`, `fence`, `hr`, `heading`, every white-space table and every `maxNesting ≥ 0`: prefixing every line of `D` with
`"> "` (`">"` for an empty line) parses — chains `code, fence, blockquote, hr, list, heading, paragraph`, one more level of nesting
allowed — to exactly one block quote spanning all lines whose content is the token stream of `D` one level deeper: same types,
contents, maps, markup, `hidden` flags; everything but `level`. -/
theorem l_quote_law (c : MiniCfg) (ws : List Nat) (mn : Int) (hmn : 0 ≤ mn) (ls : List (List Char)) (hne : ls ≠ [])
    (hcl : ∀ l ∈ ls, Clean l) (tsD : List Tok) (hD : lParse c ws mn (srcOf ls) = .ok tsD) :
    lParse c ws (mn + 1) (srcOf (ls.map quoteLine)) = .ok (quoteOpen ls.length :: tsD.map (Tok.shift 1) ++ [quoteClose]) :=
  C07.l_quote_law c ws mn hmn ls hne hcl tsD hD

theorem l_quote_law_total (c : MiniCfg) (ws : List Nat) (mn : Int) (hmn : 0 ≤ mn) (ls : List (List Char)) (hne : ls ≠ [])
    (hcl : ∀ l ∈ ls, Clean l) :
    ∃ tsD, lParse c ws mn (srcOf ls) = .ok tsD ∧
      lParse c ws (mn + 1) (srcOf (ls.map quoteLine)) = .ok (quoteOpen ls.length :: tsD.map (Tok.shift 1) ++ [quoteClose]) := by
  obtain ⟨tsD, h⟩ := C01.l_total c ws mn (srcOf ls)
  exact ⟨tsD, h, l_quote_law c ws mn hmn ls hne hcl tsD h⟩

end MdIt.C06
