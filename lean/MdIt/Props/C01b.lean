import MdIt.Props.C01
import MdIt.Proofs.BlockRules
/-!
# C01 (continued) — the contracts are *proved* for the modelled block rules, and the block parse of the
modelled sub-parser is total

`code`, `fence`, `hr`, `heading` and `paragraph` (MdIt/BlockRules.lean, tied to the real rules by the
differential `miniblock` check on whole documents) satisfy K1–K4 for every call the loop makes
(`ruleOK_*`), `paragraph` always matches, and therefore — by `C01.block_tokenize_total` — for every
source, every subset of the four optional rules and every `maxNesting`, normalisation + line scan +
block loop returns normally (`mini_total`): no exception, no endless loop.
-/
namespace MdIt.C01

/-- the caller-specific part of the call context for these chains: the range ends at `lineMax` (true at
    top level; `paragraph` scans to `state.lineMax`, not to the `endLine` it is given) -/
def TopCtx : BState → Nat → Prop := fun s e => e = s.lineMax

theorem topCtx_closed : FrameClosed TopCtx := fun _ _ _ hf h => by
  unfold TopCtx at *; rw [hf.2.1]; exact h

private theorem here_getL {P} {s : BState} {line endLine : Nat} (hc : CallCtx P s line endLine) :
    ∃ l, getL s line = .ok l := by
  obtain ⟨l, h1, _, _⟩ := hc.here
  exact ⟨l, getL_of_here h1⟩

/-! every result of these rules is either `(false, s)` or `(true, pushes on { s with line := n })` -/

theorem hr_shape (P) (codeOn : Bool) : ∀ s line endLine, CallCtx P s line endLine →
    (ruleHr codeOn s line endLine false = .ok (false, s)) ∨
    (∃ mk, ruleHr codeOn s line endLine false = .ok (true, ({ s with line := line + 1 }).pushFull "hr" "hr" 0 (some (line, line + 1)) none "" mk "")) := by
  intro s line endLine hc
  obtain ⟨l, hg⟩ := here_getL hc
  simp only [ruleHr, hg, Bool.false_eq_true, if_false]
  split
  · exact .inl rfl
  · split
    · exact .inl rfl
    · exact .inr ⟨_, rfl⟩

theorem ruleOK_hr (P) (codeOn : Bool) : RuleOK P (ruleHr codeOn) := by
  have key := hr_shape P codeOn
  refine ⟨?_, ?_, ?_, ?_⟩
  · intro s line endLine hc
    rcases key s line endLine hc with h | ⟨mk, h⟩ <;> exact ⟨_, _, h⟩
  · intro s line endLine s' hc h
    rcases key s line endLine hc with h' | ⟨mk, h'⟩
    · rw [h'] at h; cases h
    · rw [h'] at h; cases h; simp; have := hc.lt; have := hc.le; omega
  · intro s line endLine s' hc h
    rcases key s line endLine hc with h' | ⟨mk, h'⟩
    · rw [h'] at h; cases h; rfl
    · rw [h'] at h; cases h
  · intro s line endLine m s' hc h
    rcases key s line endLine hc with h' | ⟨mk, h'⟩
    · rw [h'] at h; cases h; exact ⟨⟨rfl, rfl⟩, rfl, rfl, rfl⟩
    · rw [h'] at h; cases h; exact ⟨⟨rfl, rfl⟩, rfl, rfl, by rw [pushFull_level0]⟩

theorem heading_shape (P) (codeOn : Bool) (ws : List Nat) : ∀ s line endLine, CallCtx P s line endLine →
    (ruleHeading codeOn ws s line endLine false = .ok (false, s)) ∨
    (∃ tag mk c, ruleHeading codeOn ws s line endLine false = .ok (true,
      ((({ s with line := line + 1 }).pushFull "heading_open" tag 1 (some (line, line + 1)) none "" mk "").pushFull
          "inline" "" 0 (some (line, line + 1)) (some []) c "" "").pushFull "heading_close" tag (-1) none none "" mk "")) := by
  intro s line endLine hc
  obtain ⟨l, hg⟩ := here_getL hc
  simp only [ruleHeading, hg]
  repeat' split
  all_goals first | exact .inl rfl | exact .inr ⟨_, _, _, rfl⟩ | simp_all

theorem ruleOK_heading (P) (codeOn : Bool) (ws : List Nat) : RuleOK P (ruleHeading codeOn ws) := by
  have key := heading_shape P codeOn ws
  refine ⟨?_, ?_, ?_, ?_⟩
  · intro s line endLine hc
    rcases key s line endLine hc with h | ⟨a, b, c, h⟩ <;> exact ⟨_, _, h⟩
  · intro s line endLine s' hc h
    rcases key s line endLine hc with h' | ⟨a, b, c, h'⟩
    · rw [h'] at h; cases h
    · rw [h'] at h; cases h; simp; have := hc.lt; have := hc.le; omega
  · intro s line endLine s' hc h
    rcases key s line endLine hc with h' | ⟨a, b, c, h'⟩
    · rw [h'] at h; cases h; rfl
    · rw [h'] at h; cases h
  · intro s line endLine m s' hc h
    rcases key s line endLine hc with h' | ⟨a, b, c, h'⟩
    · rw [h'] at h; cases h; exact ⟨⟨rfl, rfl⟩, rfl, rfl, rfl⟩
    · rw [h'] at h; cases h
      refine ⟨⟨rfl, rfl⟩, rfl, rfl, ?_⟩
      rw [pushFull_level_close, pushFull_level0, pushFull_level_open]; simp

theorem code_shape (P) (codeOn : Bool) : ∀ s line endLine, CallCtx P s line endLine →
    (ruleCode codeOn s line endLine false = .ok (false, s)) ∨
    (∃ last c, line + 1 ≤ last ∧ last ≤ endLine ∧ ruleCode codeOn s line endLine false = .ok (true,
      ({ s with line := last }).pushFull "code_block" "code" 0 (some (line, last)) none c "" "")) := by
  intro s line endLine hc
  obtain ⟨l, hg⟩ := here_getL hc
  simp only [ruleCode, hg]
  split
  · exact .inl rfl
  · obtain ⟨last, h1, h2, h3⟩ := codeScan_ok codeOn s endLine (by have := hc.len; have := hc.le; omega)
      (endLine - line + 1) (line + 1) (line + 1) (by omega) (by have := hc.lt; omega) (Nat.le_refl _)
    simp only [h1]
    obtain ⟨c, hcx⟩ := getLinesB_ok s line last (4 + s.blkIndent) false (by have := hc.len; have := hc.le; omega)
    simp only [hcx]
    exact .inr ⟨last, _, h2, h3, rfl⟩

theorem ruleOK_code (P) (codeOn : Bool) : RuleOK P (ruleCode codeOn) := by
  have key := code_shape P codeOn
  refine ⟨?_, ?_, ?_, ?_⟩
  · intro s line endLine hc
    rcases key s line endLine hc with h | ⟨a, b, _, _, h⟩ <;> exact ⟨_, _, h⟩
  · intro s line endLine s' hc h
    rcases key s line endLine hc with h' | ⟨a, b, h1, h2, h'⟩
    · rw [h'] at h; cases h
    · rw [h'] at h; cases h; simp; have := hc.le; omega
  · intro s line endLine s' hc h
    rcases key s line endLine hc with h' | ⟨a, b, h1, h2, h'⟩
    · rw [h'] at h; cases h; rfl
    · rw [h'] at h; cases h
  · intro s line endLine m s' hc h
    rcases key s line endLine hc with h' | ⟨a, b, h1, h2, h'⟩
    · rw [h'] at h; cases h; exact ⟨⟨rfl, rfl⟩, rfl, rfl, rfl⟩
    · rw [h'] at h; cases h; exact ⟨⟨rfl, rfl⟩, rfl, rfl, by rw [pushFull_level0]⟩

theorem fence_shape (P) (codeOn : Bool) : ∀ s line endLine, CallCtx P s line endLine →
    (ruleFence codeOn s line endLine false = .ok (false, s)) ∨
    (∃ line' c mk info, line + 1 ≤ line' ∧ line' ≤ endLine ∧ ruleFence codeOn s line endLine false = .ok (true,
      ({ s with line := line' }).pushFull "fence" "code" 0 (some (line, line')) none c mk info)) := by
  intro s line endLine hc
  obtain ⟨l, hg⟩ := here_getL hc
  have hlenE : endLine < s.lines.length := by have := hc.len; have := hc.le; omega
  simp only [ruleFence, hg]
  split
  · exact .inl rfl
  · split
    · exact .inl rfl
    · split
      · exact .inl rfl
      · split
        · exact .inl rfl
        · split
          · exact .inl rfl
          · split
            · exact .inl rfl
            · rename_i marker _ _ _ _ _
              simp only [Bool.false_eq_true, if_false]
              obtain ⟨next, b, h1, h2, h3, h4⟩ := fenceScan_ok codeOn s endLine marker
                (List.takeWhile (fun x => x == marker) l.body).length hlenE (endLine - line + 1) line (by omega) hc.lt
              simp only [h1]
              obtain ⟨c, hcx⟩ := getLinesB_ok s (line + 1) next l.sCount true (by omega)
              simp only [hcx]
              refine .inr ⟨next + (if b = true then 1 else 0), _, _, _, ?_, ?_, rfl⟩
              · omega
              · cases b with
                | true => have := h4 rfl; simp; omega
                | false => simp; omega

theorem ruleOK_fence (P) (codeOn : Bool) : RuleOK P (ruleFence codeOn) := by
  have key := fence_shape P codeOn
  refine ⟨?_, ?_, ?_, ?_⟩
  · intro s line endLine hc
    rcases key s line endLine hc with h | ⟨a, b, c, d, _, _, h⟩ <;> exact ⟨_, _, h⟩
  · intro s line endLine s' hc h
    rcases key s line endLine hc with h' | ⟨a, b, c, d, h1, h2, h'⟩
    · rw [h'] at h; cases h
    · rw [h'] at h; cases h; simp; have := hc.le; omega
  · intro s line endLine s' hc h
    rcases key s line endLine hc with h' | ⟨a, b, c, d, h1, h2, h'⟩
    · rw [h'] at h; cases h; rfl
    · rw [h'] at h; cases h
  · intro s line endLine m s' hc h
    rcases key s line endLine hc with h' | ⟨a, b, c, d, h1, h2, h'⟩
    · rw [h'] at h; cases h; exact ⟨⟨rfl, rfl⟩, rfl, rfl, rfl⟩
    · rw [h'] at h; cases h; exact ⟨⟨rfl, rfl⟩, rfl, rfl, by rw [pushFull_level0]⟩

/-- what `paragraph` returns on a call from the loop (it scans to `state.lineMax`, whatever `endLine` it is given) -/
theorem paragraph_shape (P : BState → Nat → Prop) (terms : List BRule) (hin : ∀ t ∈ terms, SilentInert t) (ws : List Nat)
    (s : BState) (line endLine : Nat) (hc : CallCtx P s line endLine) :
    ∃ next c, line + 1 ≤ next ∧ next ≤ s.lineMax ∧ ruleParagraph terms ws s line endLine false = .ok (true,
      { (((({ s with parentType := "paragraph", line := next }).pushFull "paragraph_open" "p" 1 (some (line, next)) none "" "" "").pushFull
          "inline" "" 0 (some (line, next)) (some []) c "" "").pushFull "paragraph_close" "p" (-1) none none "" "" "") with
        parentType := s.parentType }) := by
  have hlenE : s.lineMax < s.lines.length := by have := hc.len; omega
  obtain ⟨next, h1, h2, h3⟩ := paraScan_ok terms hin { s with parentType := "paragraph" } s.lineMax hlenE
    (s.lineMax - line + 1) (line + 1) (by omega) (by have := hc.lt; have := hc.le; omega)
  simp only [ruleParagraph, h1]
  obtain ⟨c, hcx⟩ := getLinesB_ok { s with parentType := "paragraph" } line next s.blkIndent false (by simp; omega)
  simp only [hcx]
  exact ⟨next, _, h2, h3, rfl⟩

theorem ruleOK_paragraph (P : BState → Nat → Prop) (terms : List BRule) (hin : ∀ t ∈ terms, SilentInert t) (ws : List Nat) :
    RuleOK P (ruleParagraph terms ws) := by
  refine ⟨?_, ?_, ?_, ?_⟩
  · intro s line endLine hc
    obtain ⟨n, c, _, _, h⟩ := paragraph_shape P terms hin ws s line endLine hc
    exact ⟨_, _, h⟩
  · intro s line endLine s' hc h
    obtain ⟨n, c, h1, h2, h'⟩ := paragraph_shape P terms hin ws s line endLine hc
    rw [h'] at h; cases h; simp; omega
  · intro s line endLine s' hc h
    obtain ⟨n, c, h1, h2, h'⟩ := paragraph_shape P terms hin ws s line endLine hc
    rw [h'] at h; cases h
  · intro s line endLine m s' hc h
    obtain ⟨n, c, h1, h2, h'⟩ := paragraph_shape P terms hin ws s line endLine hc
    rw [h'] at h; cases h
    refine ⟨⟨rfl, rfl⟩, rfl, rfl, ?_⟩
    simp [BState.pushFull]

theorem paragraph_always (P : BState → Nat → Prop) (terms : List BRule) (hin : ∀ t ∈ terms, SilentInert t) (ws : List Nat) :
    AlwaysMatches P (ruleParagraph terms ws) := by
  intro s line endLine hc
  obtain ⟨n, c, _, _, h⟩ := paragraph_shape P terms hin ws s line endLine hc
  exact ⟨_, h⟩

/-- every rule of every modelled chain satisfies its contract -/
theorem miniChain_ok (c : MiniCfg) (ws : List Nat) : ∀ r ∈ miniChain c ws, RuleOK TopCtx r := by
  intro r hr
  simp only [miniChain, List.mem_append, List.mem_singleton] at hr
  rcases hr with (((hr | hr) | hr) | hr) | hr
  · split at hr
    · simp at hr; subst hr; exact ruleOK_code _ _
    · cases hr
  · split at hr
    · simp at hr; subst hr; exact ruleOK_fence _ _
    · cases hr
  · split at hr
    · simp at hr; subst hr; exact ruleOK_hr _ _
    · cases hr
  · split at hr
    · simp at hr; subst hr; exact ruleOK_heading _ _ _
    · cases hr
  · subst hr; exact ruleOK_paragraph _ _ (miniTerminators_inert c ws) ws

theorem miniChain_last (c : MiniCfg) (ws : List Nat) : ∃ r ∈ miniChain c ws, AlwaysMatches TopCtx r :=
  ⟨ruleParagraph (miniTerminators c ws) ws, by simp [miniChain], paragraph_always _ _ (miniTerminators_inert c ws) ws⟩

theorem initBState_len (src : List Char) : (initBState src).lineMax + 1 ≤ (initBState src).lines.length := by
  simp [initBState]

/-- **C01.mini_total** — for every source text, every subset of the optional rules `code`, `fence`, `hr`,
`heading`, every white-space table and every `maxNesting`, the modelled block parse (normalize, line scan,
block loop with the modelled rules) returns a token list: it never raises and never fails to make progress -/
theorem mini_total (c : MiniCfg) (ws : List Nat) (maxNesting : Int) (src : List Char) :
    ∃ ts, miniParse c ws maxNesting src = .ok ts := by
  unfold miniParse
  simp only
  split
  · exact ⟨[], rfl⟩
  · obtain ⟨s', h, _⟩ := block_tokenize_total TopCtx topCtx_closed (miniChain c ws) (miniChain_ok c ws) (miniChain_last c ws)
      maxNesting (initBState (normalize src)) 0 (initBState (normalize src)).lineMax (initBState_len _) (Nat.le_refl _) rfl
    rw [h]; exact ⟨_, rfl⟩

/-! non-vacuity: a concrete document goes through all five rules -/
def typesOf (r : Except PyErr (List Tok)) : Option (List String) :=
  match r with
  | .ok ts => some (ts.map Tok.type)
  | .error _ => none

example : typesOf (miniParse ⟨true, true, true, true⟩ [32, 9, 10] 100 "# h\n\n    code\n\n```\nf\n```\n***\npara\nmore\n".toList)
    = some ["heading_open", "inline", "heading_close", "code_block", "fence", "hr",
      "paragraph_open", "inline", "paragraph_close"] := by decide +kernel

end MdIt.C01
