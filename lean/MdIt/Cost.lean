import MdIt.Block
import MdIt.Inline
/-!
# MdIt.Cost — cost-instrumented copies of the two guards that bound the work:
the block dispatch loop (counting chain dispatches) and the memoised `ParserInline.skipToken`.
-/
namespace MdIt

/-- `blockLoop` with a dispatch counter (same control flow; `blockLoopC_erase` relates them) -/
def blockLoopC (rules : List BRule) (maxNesting : Int) (endLine : Nat) :
    Nat → Nat → Bool → BState → Nat → Except PyErr (BState × Nat)
  | 0, line, _, s, k => if line < endLine then .error (.noProgress "block") else .ok (s, k)
  | fuel + 1, line, hasEmpty, s, k =>
    if line < endLine then
      let line1 := skipEmptyLines s (s.lineMax + 1) line
      let s1 := { s with line := line1 }
      if line1 ≥ endLine then .ok (s1, k) else
      match s1.lines[line1]? with
      | none => .error .indexError
      | some l =>
        if l.sCount < s1.blkIndent then .ok (s1, k)
        else if s1.level ≥ maxNesting then .ok ({ s1 with line := endLine }, k)
        else
          match runBlockChain rules s1 line1 endLine with
          | .error e => .error e
          | .ok (_, s2) =>
            let s3 := { s2 with tight := !hasEmpty }
            let line2 := s3.line
            if line2 ≤ line1 then .error (.noProgress "block") else
            match (if (line2 : Int) - 1 < endLine then s3.isEmpty ((line2 : Int) - 1) else .ok false) with
            | .error e => .error e
            | .ok e1 =>
              let hasEmpty1 := hasEmpty || e1
              if line2 < endLine then
                match s3.isEmpty line2 with
                | .error e => .error e
                | .ok e2 =>
                  if e2 then blockLoopC rules maxNesting endLine fuel (line2 + 1) true { s3 with line := line2 + 1 } (k + 1)
                  else blockLoopC rules maxNesting endLine fuel line2 hasEmpty1 s3 (k + 1)
              else blockLoopC rules maxNesting endLine fuel line2 hasEmpty1 s3 (k + 1)
    else .ok (s, k)

/-! ### `ParserInline.skipToken` : `state.cache` memoises the end position per start position -/

structure SkipState where
  cache : List (Nat × Nat)     -- `state.cache` : pos ↦ end
  evals : Nat                  -- how often the rule chain was actually run
  hits : Nat
deriving Repr

/-- one `skipToken` call at `pos`; `eval pos` is what running the chain in validation mode yields -/
def skipTokenC (eval : Nat → Nat) (st : SkipState) (pos : Nat) : SkipState × Nat :=
  match st.cache.find? (·.1 == pos) with
  | some p => ({ st with hits := st.hits + 1 }, p.2)
  | none =>
    let e := eval pos
    ({ st with cache := st.cache ++ [(pos, e)], evals := st.evals + 1 }, e)

def skipMany (eval : Nat → Nat) (st : SkipState) : List Nat → SkipState
  | [] => st
  | p :: ps => skipMany eval (skipTokenC eval st p).1 ps

end MdIt
