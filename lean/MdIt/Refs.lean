import MdIt.Basic
/-!
# MdIt.Refs — reference definitions in `env` (`rules_block/reference.py`, end of the rule) and
`common/utils.py: normalizeReference`

`str.strip()`, the regex class `\s` and `str.lower().upper()` are interpreter behaviour: parameters
`sp : Char → Bool` and `fold : List Char → List Char`.
-/
namespace MdIt

structure RefDef where
  label : String        -- normalised label
  href : String
  title : String
  map : Nat × Nat
deriving Repr, DecidableEq

structure RefEnv where
  references : List (String × RefDef)   -- dict: label ↦ definition (insertion ordered)
  duplicates : List RefDef              -- `env["duplicate_refs"]`
deriving Repr, DecidableEq

def RefEnv.lookup (e : RefEnv) (label : String) : Option RefDef :=
  (e.references.find? (·.1 == label)).map (·.2)

/-- the bookkeeping at the end of the `reference` rule -/
def RefEnv.record (e : RefEnv) (d : RefDef) : RefEnv :=
  if e.references.any (·.1 == d.label) then { e with duplicates := e.duplicates ++ [d] }
  else { e with references := e.references ++ [(d.label, d)] }

def RefEnv.recordAll (e : RefEnv) (ds : List RefDef) : RefEnv := ds.foldl RefEnv.record e

/-! ### normalizeReference -/

def stripBy (sp : Char → Bool) (s : List Char) : List Char :=
  ((s.dropWhile sp).reverse.dropWhile sp).reverse

/-- `re.sub(r"\s+", " ", s)` -/
def collapse (sp : Char → Bool) : List Char → List Char
  | [] => []
  | c :: rest =>
    if sp c then ' ' :: collapse sp (rest.dropWhile sp) else c :: collapse sp rest
termination_by l => l.length
decreasing_by
  all_goals simp_wf
  · have := List.dropWhile_sublist (p := sp) (l := rest) |>.length_le
    omega

/-- `normalizeReference(string)` -/
def normRef (sp : Char → Bool) (fold : List Char → List Char) (s : List Char) : List Char :=
  fold (collapse sp (stripBy sp s))

end MdIt
