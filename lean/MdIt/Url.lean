import MdIt.Basic
import MdIt.Generated.Tables
/-!
# MdIt.Url — `mdurl.encode` (exact transcription, dependency as installed), `validateLink`
(`common/normalize_url.py`) and the spec side: how a browser reads the scheme of a URL.

`normalizeLink u = encode (reformat u)` where `reformat = mdurl.format ∘ mdurl.parse` (+ punycode)
is an external parameter: the theorems hold for every value of it.
-/
namespace MdIt

def isAlnumAscii (c : Char) : Bool :=
  ('a' ≤ c && c ≤ 'z') || ('A' ≤ c && c ≤ 'Z') || ('0' ≤ c && c ≤ '9')

/-- `string.hexdigits` -/
def isHexDigit (c : Char) : Bool :=
  ('0' ≤ c && c ≤ '9') || ('a' ≤ c && c ≤ 'f') || ('A' ≤ c && c ≤ 'F')

def hexU (n : Nat) : Char := if n < 10 then Char.ofNat (48 + n) else Char.ofNat (55 + n)

/-- "%XX", upper-case hex -/
def pct (b : Nat) : List Char := ['%', hexU (b / 16), hexU (b % 16)]

def utf8Bytes (c : Char) : List Nat := (String.singleton c).toUTF8.toList.map (·.toNat)

/-- one character outside an escape sequence: `cache[code]` for ASCII, `quote(ch)` otherwise -/
def encOne (c : Char) : List Char :=
  if c.toNat < 128 then
    (if isAlnumAscii c || Gen.encodeDefaultChars.contains c.toNat then [c] else pct c.toNat)
  else (utf8Bytes c).flatMap pct

/-- `mdurl.encode(string)` with the default `exclude` and `keep_escaped=True`, on scalar values -/
def encode : List Char → List Char
  | [] => []
  | c :: a :: b :: rest =>
    if c = '%' ∧ isHexDigit a = true ∧ isHexDigit b = true then '%' :: a :: b :: encode rest
    else encOne c ++ encode (a :: b :: rest)
  | c :: t => encOne c ++ encode t
termination_by l => l.length

/-- characters `encode` can emit -/
def SafeAscii (c : Char) : Prop :=
  isAlnumAscii c = true ∨ Gen.encodeDefaultChars.contains c.toNat = true ∨ c = '%'

instance (c : Char) : Decidable (SafeAscii c) := by unfold SafeAscii; infer_instance

/-- ASCII part of Python's `str.isspace` (what `str.strip()` removes from an ASCII string) -/
def isPySpaceAscii (c : Char) : Bool :=
  c.toNat == 9 || c.toNat == 10 || c.toNat == 11 || c.toNat == 12 || c.toNat == 13 || c.toNat == 32 ||
  (28 ≤ c.toNat && c.toNat ≤ 31)

def stripAscii (s : List Char) : List Char :=
  ((s.dropWhile isPySpaceAscii).reverse.dropWhile isPySpaceAscii).reverse

def lowerAscii (s : List Char) : List Char := s.map Char.toLower

/-- `^(a|b|…):` -/
def matchesBad (u : List Char) : Bool :=
  Gen.badProtos.any (fun p => (p.toList ++ [':']).isPrefixOf u)

/-- `^data:image\/(gif|png|jpeg|webp);` -/
def matchesGoodData (u : List Char) : Bool :=
  Gen.goodDataKinds.any (fun k => ("data:image/".toList ++ k.toList ++ [';']).isPrefixOf u)

/-- `validateLink(url)` (no custom validator), exact for ASCII input -/
def validateLink (url : List Char) : Bool :=
  let u := lowerAscii (stripAscii url)
  if matchesBad u then matchesGoodData u else true

/-! ### the browser's side (WHATWG URL): strip C0-control-or-space at both ends, drop tab/LF/CR,
read `[A-Za-z][A-Za-z0-9+.-]*:` and lower-case it -/

def isC0OrSpace (c : Char) : Bool := c.toNat ≤ 32
def isTabNl (c : Char) : Bool := c = '\t' || c = '\n' || c = '\r'
def isSchemeChar (c : Char) : Bool := isAlnumAscii c || c = '+' || c = '-' || c = '.'
def isAlphaAscii (c : Char) : Bool := ('a' ≤ c && c ≤ 'z') || ('A' ≤ c && c ≤ 'Z')

/-- read scheme characters up to a ':' -/
def schemeBody : List Char → Option (List Char)
  | [] => none
  | c :: rest =>
    if c = ':' then some []
    else if isSchemeChar c then (schemeBody rest).map (c :: ·)
    else none

def browserScheme (h : List Char) : Option (List Char) :=
  let s := (((h.dropWhile isC0OrSpace).reverse.dropWhile isC0OrSpace).reverse).filter (fun c => !isTabNl c)
  match s with
  | [] => none
  | c :: _ => if isAlphaAscii c then (schemeBody s).map lowerAscii else none

end MdIt
