import MdIt.BlockQuote
/-!
# MdIt.BlockList — the list rule (`rules_block/list.py`) as a `BRule`, and the chains of the sub-parser
`code, fence, blockquote, hr, list, heading, paragraph`

Same shape as the quote rule: the rule rewrites the line-table entry of an item's first line (`tShift`,
`sCount`), sets `blkIndent` / `listIndent` / `tight`, runs the whole block chain on `[startLine, endLine)`,
restores, and loops over the following items.  Nested runs use the chains of one budget less (`lChain`).
-/
namespace MdIt

/-- `skipBulletListMarker`: number of characters of the marker, counted from the first non-blank -/
def skipBullet (l : BLine) : Option Nat :=
  match l.body with
  | [] => none
  | m :: rest =>
    if !(m == '*' || m == '-' || m == '+') then none else
    match rest with
    | [] => some 1
    | ch :: _ => if isSpaceTab ch then some 1 else none

def isAsciiDigit (c : Char) : Bool := decide (0x30 ≤ c.toNat) && decide (c.toNat ≤ 0x39)

/-- the `while True` loop of `skipOrderedListMarker`; `n` = characters consumed so far -/
def ordLoop : List Char → Nat → Option Nat
  | [], _ => none                                         -- EOL → fail
  | ch :: rest, n =>
    if isAsciiDigit ch then
      if n + 1 ≥ 10 then none else ordLoop rest (n + 1)
    else if ch == ')' || ch == '.' then
      (match rest with
       | [] => some (n + 1)
       | c2 :: _ => if isSpaceTab c2 then some (n + 1) else none)
    else none

/-- `skipOrderedListMarker`: number of characters of digits + delimiter -/
def skipOrdered (l : BLine) : Option Nat :=
  if l.body.length < 2 then none else
  match l.body with
  | [] => none
  | ch :: rest => if !isAsciiDigit ch then none else ordLoop rest 1

def digitsVal (ds : List Char) : Nat := ds.foldl (fun acc c => acc * 10 + (c.toNat - 0x30)) 0

def Tok.setHidden : Tok → Bool → Tok
  | .mk ty tag n a m lvl ch c mku info md b _, h => .mk ty tag n a m lvl ch c mku info md b h

def Tok.setAttrs : Tok → List (String × AttrVal) → Tok
  | .mk ty tag n _ m lvl ch c mku info md b h, a => .mk ty tag n a m lvl ch c mku info md b h

/-- `markTightParagraphs(state, idx)` on the token list; `level` = `state.level + 2` -/
def markTightGo (level : Int) : Nat → Nat → List Tok → List Tok
  | 0, _, ts => ts
  | fuel + 1, i, ts =>
    if i + 2 < ts.length then               -- `i < len(tokens) - 2`
      match ts[i]? with
      | some t =>
        if t.level == level && t.type == "paragraph_open" then
          let ts1 := ts.modify (i + 2) (·.setHidden true)
          let ts2 := ts1.modify i (·.setHidden true)
          markTightGo level fuel (i + 3) ts2
        else markTightGo level fuel (i + 1) ts
      | none => ts
    else ts

def markTight (level : Int) (idx : Nat) (ts : List Tok) : List Tok := markTightGo (level + 2) ts.length (idx + 2) ts

/-- the blank scan after a marker: `(offset, blanks consumed)` -/
def lLoop (bs : Nat) : Int → List Char → Nat → Int × Nat
  | offset, [], n => (offset, n)
  | offset, c :: rest, n =>
    if c = '\t' then lLoop bs (offset + (4 - (offset + bs) % 4)) rest (n + 1)
    else if c = ' ' then lLoop bs (offset + 1) rest (n + 1)
    else (offset, n)

/-- the line with another `tShift` / `sCount` (what the list rule writes, and writes back) -/
def BLine.retab (l : BLine) (tShift : Nat) (sCount : Int) : BLine :=
  { l with tShift := tShift, sCount := sCount }

structure ListSt where
  s : BState
  startLine : Nat
  markerLen : Nat          -- posAfterMarker - (bMarks + tShift) on the current item's line
  tight : Bool
  prevEmptyEnd : Bool

/-- the nested run of an item, or the workaround for an empty item followed by an empty line -/
def listNested (inner : List BRule) (maxNesting : Int) (endLine : Nat) (s2 : BState) (startLine : Nat) (contentEmpty : Bool) :
    Except PyErr BState :=
  match (if contentEmpty then s2.isEmpty ((startLine : Int) + 1) else .ok false) with
  | .error e => .error e
  | .ok true => .ok { s2 with line := min (s2.line + 2) endLine }
  | .ok false => blockTokenize inner maxNesting s2 startLine endLine

/-- after the nested run: `prevEmptyEnd`, restore of the item's first line / `blkIndent` / `listIndent` / `tight`, the
    closing token, the map patch; `l` is the item's first line as it was, `s1` the state just after `list_item_open` -/
def listClose (markerChar : Char) (s1 : BState) (l : BLine) (ntokItem startLine : Nat) (s3 : BState) : Except PyErr (BState × Bool × Bool) :=
  match (if s3.line - startLine > 1 then s3.isEmpty ((s3.line : Int) - 1) else .ok false) with
  | .error e => .error e
  | .ok prevEmptyEnd =>
    match getL s3 startLine with
    | .error e => .error e
    | .ok lcur =>
      let s4 := { (s3.setLine startLine (lcur.retab l.tShift l.sCount)) with blkIndent := s3.listIndent, listIndent := s1.listIndent, tight := s1.tight }
      let s5 := s4.pushFull "list_item_close" "li" (-1) none none "" (String.singleton markerChar) ""
      let s6 := { s5 with tokens := s5.tokens.modify ntokItem (fun t => t.setMap (some (startLine, s5.line))) }
      .ok (s6, s3.tight, prevEmptyEnd)

/-- the state the nested run of an item starts from: first line rewritten, `blkIndent` at the item's content column -/
def listEnter (s1 : BState) (l : BLine) (startLine markerLen : Nat) (q : Int × Nat) (indent : Int) : BState :=
  { (s1.setLine startLine (l.retab (l.tShift + markerLen + q.2) q.1)) with listIndent := s1.blkIndent, blkIndent := indent, tight := true }

/-- `indent` of an item: column of the marker + marker + 1..4 blanks -/
def listIndentOf (l : BLine) (markerLen : Nat) (q : Int × Nat) : Int :=
  let initial : Int := l.sCount + (markerLen : Int)
  let contentEmpty := decide ((l.body.drop markerLen).length ≤ q.2)
  let iam0 : Int := if contentEmpty then 1 else q.1 - initial
  initial + (if iam0 > 4 then 1 else iam0)

/-- one list item, from `list_item_open` to `list_item_close` (map patched): the state after it, `state.tight` as the nested
    run left it, and the new `prevEmptyEnd` -/
def listItem (ordered : Bool) (markerChar : Char) (inner : List BRule) (maxNesting : Int) (endLine : Nat)
    (s : BState) (startLine markerLen : Nat) : Except PyErr (BState × Bool × Bool) :=
  match getL s startLine with
  | .error e => .error e
  | .ok l =>
    let q := lLoop l.bs (l.sCount + (markerLen : Int)) (l.body.drop markerLen) 0
    let contentEmpty := decide ((l.body.drop markerLen).length ≤ q.2)         -- contentStart >= maximum
    let digits := l.body.take (markerLen - 1)
    let s1 := s.pushFull "list_item_open" "li" 1 (some (startLine, 0)) none "" (String.singleton markerChar) (if ordered then String.ofList digits else "")
    let s2 := listEnter s1 l startLine markerLen q (listIndentOf l markerLen q)
    match listNested inner maxNesting endLine s2 startLine contentEmpty with
    | .error e => .error e
    | .ok s3 => listClose markerChar s1 l s.tokens.length startLine s3

/-- the `while nextLine < endLine` loop of `list_block` -/
def listItems (codeOn ordered : Bool) (markerChar : Char) (terms inner : List BRule) (maxNesting : Int) (endLine : Nat) :
    Nat → ListSt → Except PyErr ListSt
  | 0, _ => .error (.noProgress "list")
  | fuel + 1, st =>
    if ¬ (st.startLine < endLine) then .ok st else
    match listItem ordered markerChar inner maxNesting endLine st.s st.startLine st.markerLen with
    | .error e => .error e
    | .ok (s6, nestedTight, prevEmptyEnd) =>
      let tight' := if (!nestedTight) || st.prevEmptyEnd then false else st.tight
      let next := s6.line
      let st' : ListSt := { s := s6, startLine := next, markerLen := st.markerLen, tight := tight', prevEmptyEnd := prevEmptyEnd }
      if next ≥ endLine then .ok st' else
      match getL s6 next with
      | .error e => .error e
      | .ok ln =>
        if ln.sCount < s6.blkIndent then .ok st' else
        if isCodeLine codeOn s6 ln then .ok st' else
        match runTerminators terms s6 next endLine with
        | .error e => .error e
        | .ok (true, s7) => .ok { st' with s := s7 }
        | .ok (false, s7) =>
          match (if ordered then skipOrdered ln else skipBullet ln) with
          | none => .ok { st' with s := s7 }
          | some mlen =>
            if some markerChar != ln.body[mlen - 1]? then .ok { st' with s := s7 }
            else listItems codeOn ordered markerChar terms inner maxNesting endLine fuel { st' with s := s7, markerLen := mlen }

/-- the list proper, once the first marker is known: opening token, item loop, closing token, map patch, tight paragraphs -/
def listRun (codeOn ordered : Bool) (markerChar : Char) (mlen markerValue : Nat) (terms inner : List BRule) (maxNesting : Int)
    (s : BState) (startLine endLine : Nat) : Except PyErr (Bool × BState) :=
  let ntokList := s.tokens.length
  let s0 := s.pushFull (if ordered then "ordered_list_open" else "bullet_list_open") (if ordered then "ol" else "ul") 1
              (some (startLine, 0)) none "" (String.singleton markerChar) ""
  let s1 := if ordered && markerValue != 1
            then { s0 with tokens := s0.tokens.modify ntokList (fun t => t.setAttrs [("start", .i markerValue)]) } else s0
  let s2 := { s1 with parentType := "list" }
  match listItems codeOn ordered markerChar terms inner maxNesting endLine (endLine - startLine + 1)
          { s := s2, startLine := startLine, markerLen := mlen, tight := true, prevEmptyEnd := false } with
  | .error e => .error e
  | .ok st =>
    let s4 := st.s.pushFull (if ordered then "ordered_list_close" else "bullet_list_close") (if ordered then "ol" else "ul") (-1)
                none none "" (String.singleton markerChar) ""
    let toks := s4.tokens.modify ntokList (fun t => t.setMap (some (startLine, st.startLine)))
    let s5 := { s4 with line := st.startLine, parentType := s.parentType, tokens := toks }
    .ok (true, if st.tight then { s5 with tokens := markTight s5.level ntokList s5.tokens } else s5)

/-- did the item loop stop because the next line continues the list?  (`listItems` returns either way; the caller only
    needs the final state) -/
def ruleList (codeOn : Bool) (terms inner : List BRule) (maxNesting : Int) : BRule := fun s startLine endLine silent =>
  match getL s startLine with
  | .error e => .error e
  | .ok l =>
    if isCodeLine codeOn s l then .ok (false, s) else
    if s.listIndent ≥ 0 && decide (l.sCount - s.listIndent ≥ 4) && decide (l.sCount < s.blkIndent) then .ok (false, s) else
    let isTerminatingParagraph := silent && s.parentType == "paragraph" && decide (l.sCount ≥ s.blkIndent)
    let r : Option (Bool × Nat) :=
      match skipOrdered l with
      | some n => some (true, n)
      | none => match skipBullet l with
        | some n => some (false, n)
        | none => none
    match r with
    | none => .ok (false, s)
    | some (ordered, mlen) =>
      let markerValue := digitsVal (l.body.take (mlen - 1))
      if ordered && isTerminatingParagraph && markerValue != 1 then .ok (false, s) else
      -- a list interrupting a paragraph may not start with an empty item
      if isTerminatingParagraph && ((l.body.drop mlen).dropWhile isSpaceTab).isEmpty then .ok (false, s) else
      match l.body[mlen - 1]? with
      | none => .error .indexError
      | some markerChar =>
        if silent then .ok (true, s) else
        listRun codeOn ordered markerChar mlen markerValue terms inner maxNesting s startLine endLine

/-! ### chains -/

/-- `getRules("list")`: fence, blockquote, hr -/
def lListTerms (c : MiniCfg) (maxNesting : Int) : List BRule :=
  (if c.fence then [ruleFence c.code] else []) ++ [ruleBlockquote c.code [] [] maxNesting]
    ++ (if c.hr then [ruleHr c.code] else [])

/-- `getRules("paragraph")` = `getRules("blockquote")` here: fence, blockquote, hr, list, heading -/
def lTerminators (c : MiniCfg) (ws : List Nat) (maxNesting : Int) : List BRule :=
  (if c.fence then [ruleFence c.code] else []) ++ [ruleBlockquote c.code [] [] maxNesting]
    ++ (if c.hr then [ruleHr c.code] else []) ++ [ruleList c.code [] [] maxNesting]
    ++ (if c.heading then [ruleHeading c.code ws] else [])

/-- `getRules("")` with a depth budget: code, fence, blockquote, hr, list, heading, paragraph -/
def lChain (c : MiniCfg) (ws : List Nat) (maxNesting : Int) : Nat → List BRule
  | 0 => []
  | d + 1 =>
    (if c.code then [ruleCode c.code] else []) ++ (if c.fence then [ruleFence c.code] else [])
      ++ [ruleBlockquote c.code (lTerminators c ws maxNesting) (lChain c ws maxNesting d) maxNesting]
      ++ (if c.hr then [ruleHr c.code] else [])
      ++ [ruleList c.code (lListTerms c maxNesting) (lChain c ws maxNesting d) maxNesting]
      ++ (if c.heading then [ruleHeading c.code ws] else [])
      ++ [ruleParagraph (lTerminators c ws maxNesting) ws]

def lParse (c : MiniCfg) (ws : List Nat) (maxNesting : Int) (src : List Char) : Except PyErr (List Tok) :=
  let s := initBState (normalize src)
  if src.isEmpty then .ok [] else
  match blockTokenize (lChain c ws maxNesting (maxNesting.toNat + 1)) maxNesting s 0 s.lineMax with
  | .ok s' => .ok s'.tokens
  | .error e => .error e

end MdIt
