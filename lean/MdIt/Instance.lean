import MdIt.Ruler
import MdIt.Generated.Tables
/-!
# MdIt.Instance — the rule-management state of a `MarkdownIt` instance

`Rulers.fresh` is what `ParserCore/ParserBlock/ParserInline.__init__` build (every rule of the
generated tables pushed, all enabled); `Rulers.configure` is the component part of
`MarkdownIt.configure` (`enableOnly` per component, `ignoreInvalid=False`).
Function identities: the i-th rule of a table gets id `base + i`.
-/
namespace MdIt

def pushAll (base : Nat) (rs : List (String × List String)) : Ruler :=
  (rs.zipIdx).foldl (fun r p => r.push p.1.1 (base + p.2) p.1.2) Ruler.empty

def Rulers.fresh : Rulers :=
  { core := pushAll 100 (Gen.coreRules.map (fun n => (n, [])))
    block := pushAll 200 Gen.blockRules
    inline := pushAll 300 (Gen.inlineRules.map (fun n => (n, [])))
    inline2 := pushAll 400 (Gen.inlineRules2.map (fun n => (n, []))) }

def enableOnlyOpt (r : Ruler) : Option (List String) → Ruler × Except PyErr Unit
  | none => (r, .ok ())
  | some [] => (r, .ok ())        -- `if rules:` is false for an empty list
  | some l => let (r', o) := r.enableOnly l false
              (r', match o with | .ok _ => .ok () | .error e => .error e)

/-- component part of `MarkdownIt.configure(preset)`; order core, block, inline(rules, rules2) as the
    preset dictionaries list them. A raising `enableOnly` aborts the rest. -/
def Rulers.configure (m : Rulers) (p : Gen.Preset) : Rulers × Except PyErr Unit :=
  let (c, rc) := enableOnlyOpt m.core p.coreR
  match rc with
  | .error e => ({ m with core := c }, .error e)
  | .ok _ =>
  let (b, rb) := enableOnlyOpt m.block p.blockR
  match rb with
  | .error e => ({ m with core := c, block := b }, .error e)
  | .ok _ =>
  let (i, ri) := enableOnlyOpt m.inline p.inlineR
  match ri with
  | .error e => ({ m with core := c, block := b, inline := i }, .error e)
  | .ok _ =>
  let (i2, ri2) := enableOnlyOpt m.inline2 p.inline2R
  (⟨c, b, i, i2⟩, ri2)

def findPreset (name : String) : Option Gen.Preset := Gen.presets.find? (·.name == name)

end MdIt

namespace MdIt

/-! ## Options: one backing dict behind the three access routes (`utils.OptionsDict`) -/

inductive OptVal where
  | none
  | b (v : Bool)
  | n (v : Int)
  | s (v : String)
  | l (v : List String)
deriving Repr, DecidableEq

/-- Python dict with insertion order: assignment to an existing key keeps its position -/
def dictSet {β} (d : List (String × β)) (k : String) (v : β) : List (String × β) :=
  if d.any (·.1 == k) then d.map (fun p => if p.1 == k then (k, v) else p) else d ++ [(k, v)]

def dictGet {β} (d : List (String × β)) (k : String) : Option β :=
  (d.find? (·.1 == k)).map (·.2)

/-- the three public routes of setting an option -/
inductive Route where
  | ctor      -- `MarkdownIt(preset, options_update={k: v})`  (merged into the dict given to OptionsDict)
  | item      -- `md.options[k] = v`
  | attr      -- `md.options.k = v`      (property setter: `self._options[k] = v`)
deriving Repr, DecidableEq

structure Inst where
  rulers : Rulers
  options : List (String × OptVal)
  renderRules : List (String × Nat)      -- `renderer.rules`: token type ↦ function identity
deriving Repr

/-- every route performs the same dictionary assignment -/
def Inst.setOpt (i : Inst) (_ : Route) (k : String) (v : OptVal) : Inst :=
  { i with options := dictSet i.options k v }

def Inst.addRenderRule (i : Inst) (name : String) (fn : Nat) : Inst :=
  { i with renderRules := dictSet i.renderRules name fn }

/-! ## What a parse/render does to the instance (C14)

As far as the *instance* is concerned a parse or render is a sequence of events: requests for a
compiled chain on one of the four rulers, and invocations of user-supplied callbacks (plugin rules,
render rules, highlight).  Everything else lives in per-call state objects.  A fault plan says which
invocation of which callback raises. -/

inductive Which where | core | block | inline | inline2
deriving Repr, DecidableEq

inductive Ev where
  | getRules (w : Which) (chain : String)
  | call (slot : Nat)
deriving Repr

def Rulers.get (m : Rulers) : Which → Ruler
  | .core => m.core | .block => m.block | .inline => m.inline | .inline2 => m.inline2

def Rulers.set (m : Rulers) (w : Which) (r : Ruler) : Rulers :=
  match w with
  | .core => { m with core := r } | .block => { m with block := r }
  | .inline => { m with inline := r } | .inline2 => { m with inline2 := r }

/-- `plan slot i = some e`: the i-th invocation (from 0) of callback `slot` raises exception `e` -/
abbrev Plan := Nat → Nat → Option Nat

/-- run the events of one parse/render; `seen` counts invocations per slot -/
def runEvents (plan : Plan) : Inst → List Ev → List (Nat × Nat) → Inst × Except PyErr Unit
  | i, [], _ => (i, .ok ())
  | i, .getRules w c :: rest, seen =>
    let (r', _) := (i.rulers.get w).getRules c
    runEvents plan { i with rulers := i.rulers.set w r' } rest seen
  | i, .call slot :: rest, seen =>
    let k := (dictGetN seen slot)
    match plan slot k with
    | some e => (i, .error (.userRaised e))
    | none => runEvents plan i rest (bump seen slot)
where
  dictGetN (seen : List (Nat × Nat)) (slot : Nat) : Nat :=
    match seen.find? (·.1 == slot) with | some p => p.2 | none => 0
  bump (seen : List (Nat × Nat)) (slot : Nat) : List (Nat × Nat) :=
    if seen.any (·.1 == slot) then seen.map (fun p => if p.1 == slot then (p.1, p.2 + 1) else p)
    else seen ++ [(slot, 1)]

/-! ## `MarkdownIt.reset_rules` — snapshot, body, restore on every exit path -/

/-- a `with md.reset_rules():` body: anything that transforms the rulers and may raise -/
abbrev Body := Rulers → Rulers × Except PyErr Unit

/-- `try: yield  finally: restore`.  If the restore itself raises, that exception replaces the
    body's (Python semantics of `finally`). -/
def resetRules (m : Rulers) (body : Body) : Rulers × Except PyErr Unit :=
  let snap := m.active
  let (m1, r) := body m
  let (m2, r2) := m1.restore snap
  match r2 with
  | .error e => (m2, .error e)
  | .ok _ => (m2, r)

/-- sequencing of two bodies: the second runs only if the first did not raise -/
def Body.seq (f g : Body) : Body := fun m =>
  match f m with
  | (m1, .ok _) => g m1
  | (m1, .error e) => (m1, .error e)

/-- a body that raises a user exception -/
def Body.raise (e : Nat) : Body := fun m => (m, .error (.userRaised e))

/-- ruler operation on one of the four rulers, as a body -/
def Body.rop (w : Which) (op : ROp) : Body := fun m =>
  let (r', o) := (m.get w).step op
  (m.set w r', match o with | .err e => .error e | _ => .ok ())

/-- façade enable/disable as a body -/
def Body.setMany (b : Bool) (names : List String) (ign : Bool) : Body := fun m => m.setMany b names ign

/-- nested `with md.reset_rules():` -/
def Body.reset (inner : Body) : Body := fun m => resetRules m inner

end MdIt
