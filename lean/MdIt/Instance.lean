import MdIt.Ruler
import MdIt.Generated.Tables
/-!
# MdIt.Instance — the rule-management state of a `MarkdownIt` instance

`Rulers.fresh` is what `ParserCore/ParserBlock/ParserInline.__init__` build (every rule of the
generated tables pushed, all enabled); `Rulers.configure` is the component part of
`MarkdownIt.configure` (`enableOnly` per component, `ignoreInvalid=False`).
Function identities: the i-th rule of a table gets id `base + i`.
-/
namespace MdIt

def pushAll (base : Nat) (rs : List (String × List String)) : Ruler :=
  (rs.zipIdx).foldl (fun r p => r.push p.1.1 (base + p.2) p.1.2) Ruler.empty

def Rulers.fresh : Rulers :=
  { core := pushAll 100 (Gen.coreRules.map (fun n => (n, [])))
    block := pushAll 200 Gen.blockRules
    inline := pushAll 300 (Gen.inlineRules.map (fun n => (n, [])))
    inline2 := pushAll 400 (Gen.inlineRules2.map (fun n => (n, []))) }

def enableOnlyOpt (r : Ruler) : Option (List String) → Ruler × Except PyErr Unit
  | none => (r, .ok ())
  | some [] => (r, .ok ())        -- `if rules:` is false for an empty list
  | some l => let (r', o) := r.enableOnly l false
              (r', match o with | .ok _ => .ok () | .error e => .error e)

/-- component part of `MarkdownIt.configure(preset)`; order core, block, inline(rules, rules2) as the
    preset dictionaries list them. A raising `enableOnly` aborts the rest. -/
def Rulers.configure (m : Rulers) (p : Gen.Preset) : Rulers × Except PyErr Unit :=
  let (c, rc) := enableOnlyOpt m.core p.coreR
  match rc with
  | .error e => ({ m with core := c }, .error e)
  | .ok _ =>
  let (b, rb) := enableOnlyOpt m.block p.blockR
  match rb with
  | .error e => ({ m with core := c, block := b }, .error e)
  | .ok _ =>
  let (i, ri) := enableOnlyOpt m.inline p.inlineR
  match ri with
  | .error e => ({ m with core := c, block := b, inline := i }, .error e)
  | .ok _ =>
  let (i2, ri2) := enableOnlyOpt m.inline2 p.inline2R
  (⟨c, b, i, i2⟩, ri2)

def findPreset (name : String) : Option Gen.Preset := Gen.presets.find? (·.name == name)

end MdIt
