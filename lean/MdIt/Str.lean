import MdIt.Basic
import MdIt.Generated.Tables
/-!
# MdIt.Str — string functions of the library (model of `rules_core/normalize.py`, column arithmetic of
`rules_block/state_block.py` / `blockquote.py`)
-/
namespace MdIt

/-- `NEWLINES_RE.sub("\n", src)` with `NEWLINES_RE = r"\r\n?|\n"` (leftmost, greedy) -/
def normNewlines : List Char → List Char
  | [] => []
  | '\r' :: '\n' :: rest => '\n' :: normNewlines rest
  | '\r' :: rest => '\n' :: normNewlines rest
  | c :: rest => c :: normNewlines rest

/-- `NULL_RE.sub("�", string)` -/
def normNul (s : List Char) : List Char := s.map (fun c => if c = '\x00' then '�' else c)

/-- `rules_core.normalize.normalize` : newlines first, then NUL -/
def normalize (s : List Char) : List Char := normNul (normNewlines s)

/-! ### the three line-ending encodings -/

def toCRLF (s : List Char) : List Char := s.flatMap (fun c => if c = '\n' then ['\r', '\n'] else [c])
def toCR (s : List Char) : List Char := s.map (fun c => if c = '\n' then '\r' else c)

/-- `Mixed s s'` : `s'` spells every line feed of `s` as LF, CR LF or a lone CR, independently —
    except that a lone CR is not put directly before an LF spelling (that pair *is* a CR LF). -/
inductive Mixed : List Char → List Char → Prop where
  | nil : Mixed [] []
  | keep (c : Char) (hc : c ≠ '\n') {s s'} : Mixed s s' → Mixed (c :: s) (c :: s')
  | lf {s s'} : Mixed s s' → Mixed ('\n' :: s) ('\n' :: s')
  | crlf {s s'} : Mixed s s' → Mixed ('\n' :: s) ('\r' :: '\n' :: s')
  | cr {s s'} : Mixed s s' → s'.head? ≠ some '\n' → Mixed ('\n' :: s) ('\r' :: s')

/-! ### columns -/

/-- column after a run of blanks starting at column `col`: tab stops every 4 columns.
    (`StateBlock.__init__`'s `offset`, and the `while pos < max` loops of blockquote/list) -/
def colAfter (col : Nat) : List Char → Nat
  | [] => col
  | c :: rest => colAfter (if c = '\t' then col + (4 - col % 4) else col + 1) rest

/-- `sCount` of a line as `StateBlock.__init__` computes it: the column reached by its leading blanks -/
def lineSCount (line : List Char) : Nat :=
  colAfter 0 (line.takeWhile (fun c => c = ' ' ∨ c = '\t'))

/-! ### block quote marker: `rules_block/blockquote.py`, the code after `pos += 1` (past the `>`) -/

structure QuoteOff where
  sCount : Int      -- new `state.sCount[line]`  (= offset - initial)
  bsCount : Nat     -- new `state.bsCount[line]`
  tShiftEnd : Nat   -- number of characters consumed after the marker (first optional blank + run)
deriving Repr, DecidableEq

/-- the `while pos < max` loop: returns (offset, chars consumed) -/
def quoteLoop (bs : Nat) (adj : Nat) : Nat → List Char → Nat → Nat × Nat
  | offset, [], n => (offset, n)
  | offset, c :: rest, n =>
    if c = '\t' then quoteLoop bs adj (offset + (4 - (offset + bs + adj) % 4)) rest (n + 1)
    else if c = ' ' then quoteLoop bs adj (offset + 1) rest (n + 1)
    else (offset, n)

/-- everything the rule computes from the characters after `>` on a quoted line; `bs` and `sc` are
    the line's `bsCount` and `sCount` on entry; `fixed = false` is the pre-fix code that overwrote
    `bsCount` instead of adding to the inherited offset -/
def quoteOffsets (fixed : Bool) (bs sc : Nat) (after : List Char) : QuoteOff :=
  let base := if fixed then bs else 0
  match after with
  | [] => ⟨0, base + sc + 1, 0⟩
  | c :: rest =>
    if c = ' ' then
      let r := quoteLoop bs 0 (sc + 2) rest 0
      ⟨(r.1 : Int) - (sc + 2 : Nat), base + sc + 1 + 1, r.2 + 1⟩
    else if c = '\t' then
      if (bs + (sc + 1)) % 4 = 3 then
        let r := quoteLoop bs 0 (sc + 2) rest 0
        ⟨(r.1 : Int) - (sc + 2 : Nat), base + sc + 1 + 1, r.2 + 1⟩
      else
        let r := quoteLoop bs 1 (sc + 1) (c :: rest) 0
        ⟨(r.1 : Int) - (sc + 1 : Nat), base + sc + 1 + 1, r.2⟩
    else
      ⟨0, base + sc + 1, 0⟩

end MdIt

namespace MdIt

/-! ### `common/utils.py: unescapeAll`  (`UNESCAPE_ALL_RE = \\([punct])|&([a-z#][a-z0-9]{1,31});`, IGNORECASE) -/

def isAsciiAlnum (c : Char) : Bool :=
  ('a' ≤ c && c ≤ 'z') || ('A' ≤ c && c ≤ 'Z') || ('0' ≤ c && c ≤ '9')
def isAsciiAlpha (c : Char) : Bool := ('a' ≤ c && c ≤ 'z') || ('A' ≤ c && c ≤ 'Z')

/-- the second alternative at a position just after `&`: `[a-z#][a-z0-9]{1,31};` — returns the name
    and the number of characters consumed after the `&` (name and `;`).  The quantifier is greedy and
    `;` is not alphanumeric, so the only candidate is the maximal alphanumeric run. -/
def matchEntityName (rest : List Char) : Option (List Char × Nat) :=
  match rest with
  | [] => none
  | c :: r =>
    if isAsciiAlpha c || c == '#' then
      let run := r.takeWhile isAsciiAlnum
      if 1 ≤ run.length ∧ run.length ≤ 31 ∧ (r.drop run.length).head? = some ';' then
        some (c :: run, run.length + 2)
      else none
    else none

/-- `unescapeAll(string)`; `ent name whole` is `replaceEntityPattern(whole, name)` (entity table and
    numeric references: external parameter) -/
def unescapeAllFuel (ent : List Char → List Char → List Char) : Nat → List Char → List Char
  | 0, s => s
  | _ + 1, [] => []
  | fuel + 1, c :: rest =>
    if c = '\\' then
      match rest with
      | d :: rest' => if Gen.unescapable.contains d.toNat then d :: unescapeAllFuel ent fuel rest'
                      else c :: unescapeAllFuel ent fuel rest
      | [] => [c]
    else if c = '&' then
      match matchEntityName rest with
      | some (name, n) => ent name (c :: rest.take n) ++ unescapeAllFuel ent fuel (rest.drop n)
      | none => c :: unescapeAllFuel ent fuel rest
    else c :: unescapeAllFuel ent fuel rest

def unescapeAll (ent : List Char → List Char → List Char) (s : List Char) : List Char :=
  unescapeAllFuel ent (s.length + 1) s

/-- ASCII punctuation (`!"#$%&'()*+,-./:;<=>?@[\]^_`{|}~`) -/
def isAsciiPunct (c : Char) : Bool :=
  let n := c.toNat
  (33 ≤ n && n ≤ 47) || (58 ≤ n && n ≤ 64) || (91 ≤ n && n ≤ 96) || (123 ≤ n && n ≤ 126)

/-- the property's transformation: a backslash before each ASCII punctuation character -/
def escapeAll (t : List Char) : List Char := t.flatMap (fun c => if isAsciiPunct c then ['\\', c] else [c])

end MdIt
