import MdIt.Basic
/-!
# MdIt.Str — string functions of the library (model of `rules_core/normalize.py`, column arithmetic of
`rules_block/state_block.py` / `blockquote.py`)
-/
namespace MdIt

/-- `NEWLINES_RE.sub("\n", src)` with `NEWLINES_RE = r"\r\n?|\n"` (leftmost, greedy) -/
def normNewlines : List Char → List Char
  | [] => []
  | '\r' :: '\n' :: rest => '\n' :: normNewlines rest
  | '\r' :: rest => '\n' :: normNewlines rest
  | c :: rest => c :: normNewlines rest

/-- `NULL_RE.sub("�", string)` -/
def normNul (s : List Char) : List Char := s.map (fun c => if c = '\x00' then '�' else c)

/-- `rules_core.normalize.normalize` : newlines first, then NUL -/
def normalize (s : List Char) : List Char := normNul (normNewlines s)

/-! ### the three line-ending encodings -/

def toCRLF (s : List Char) : List Char := s.flatMap (fun c => if c = '\n' then ['\r', '\n'] else [c])
def toCR (s : List Char) : List Char := s.map (fun c => if c = '\n' then '\r' else c)

/-- `Mixed s s'` : `s'` spells every line feed of `s` as LF, CR LF or a lone CR, independently —
    except that a lone CR is not put directly before an LF spelling (that pair *is* a CR LF). -/
inductive Mixed : List Char → List Char → Prop where
  | nil : Mixed [] []
  | keep (c : Char) (hc : c ≠ '\n') {s s'} : Mixed s s' → Mixed (c :: s) (c :: s')
  | lf {s s'} : Mixed s s' → Mixed ('\n' :: s) ('\n' :: s')
  | crlf {s s'} : Mixed s s' → Mixed ('\n' :: s) ('\r' :: '\n' :: s')
  | cr {s s'} : Mixed s s' → s'.head? ≠ some '\n' → Mixed ('\n' :: s) ('\r' :: s')

/-! ### columns -/

/-- column after a run of blanks starting at column `col`: tab stops every 4 columns.
    (`StateBlock.__init__`'s `offset`, and the `while pos < max` loops of blockquote/list) -/
def colAfter (col : Nat) : List Char → Nat
  | [] => col
  | c :: rest => colAfter (if c = '\t' then col + (4 - col % 4) else col + 1) rest

/-- `sCount` of a line as `StateBlock.__init__` computes it: the column reached by its leading blanks -/
def lineSCount (line : List Char) : Nat :=
  colAfter 0 (line.takeWhile (fun c => c = ' ' ∨ c = '\t'))

/-! ### block quote marker: `rules_block/blockquote.py`, the code after `pos += 1` (past the `>`) -/

structure QuoteOff where
  sCount : Int      -- new `state.sCount[line]`  (= offset - initial)
  bsCount : Nat     -- new `state.bsCount[line]`
  tShiftEnd : Nat   -- number of characters consumed after the marker (first optional blank + run)
deriving Repr, DecidableEq

/-- the `while pos < max` loop: returns (offset, chars consumed) -/
def quoteLoop (bs : Nat) (adj : Nat) : Nat → List Char → Nat → Nat × Nat
  | offset, [], n => (offset, n)
  | offset, c :: rest, n =>
    if c = '\t' then quoteLoop bs adj (offset + (4 - (offset + bs + adj) % 4)) rest (n + 1)
    else if c = ' ' then quoteLoop bs adj (offset + 1) rest (n + 1)
    else (offset, n)

/-- everything the rule computes from the characters after `>` on a quoted line; `bs` and `sc` are
    the line's `bsCount` and `sCount` on entry; `fixed = false` is the pre-fix code that overwrote
    `bsCount` instead of adding to the inherited offset -/
def quoteOffsets (fixed : Bool) (bs sc : Nat) (after : List Char) : QuoteOff :=
  let base := if fixed then bs else 0
  match after with
  | [] => ⟨0, base + sc + 1, 0⟩
  | c :: rest =>
    if c = ' ' then
      let r := quoteLoop bs 0 (sc + 2) rest 0
      ⟨(r.1 : Int) - (sc + 2 : Nat), base + sc + 1 + 1, r.2 + 1⟩
    else if c = '\t' then
      if (bs + (sc + 1)) % 4 = 3 then
        let r := quoteLoop bs 0 (sc + 2) rest 0
        ⟨(r.1 : Int) - (sc + 2 : Nat), base + sc + 1 + 1, r.2 + 1⟩
      else
        let r := quoteLoop bs 1 (sc + 1) (c :: rest) 0
        ⟨(r.1 : Int) - (sc + 1 : Nat), base + sc + 1 + 1, r.2⟩
    else
      ⟨0, base + sc + 1, 0⟩

end MdIt
