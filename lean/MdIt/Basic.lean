/-!
# MdIt.Basic — Python-level vocabulary shared by all model files

Model files import nothing outside Lean core (so that the `driver` executable links).

* `PyErr` : the exceptions the modelled code can raise.  They are *values* of the model, never
  totalised away: a function that mirrors raising code returns `Except PyErr α`.
* `idx`   : Python's `s[i]` on a sequence (negative indices wrap, out of range raises).
-/
namespace MdIt

inductive PyErr where
  | indexError
  | unbound (var : String)
  | valueError (msg : String)
  | assertion
  | typeError
  | keyError (name : String)
  | moduleNotFound
  | userRaised (id : Nat)
  | noProgress (chain : String)
  | depthExceeded
deriving Repr, DecidableEq, Inhabited

def PyErr.tag : PyErr → String
  | .indexError => "IndexError"
  | .unbound _ => "UnboundLocalError"
  | .valueError _ => "ValueError"
  | .assertion => "AssertionError"
  | .typeError => "TypeError"
  | .keyError _ => "KeyError"
  | .moduleNotFound => "ModuleNotFoundError"
  | .userRaised n => s!"UserRaised{n}"
  | .noProgress _ => "Hang"
  | .depthExceeded => "RecursionError"

/-- Python `s[i]` for a list: negative indices count from the end, out of range raises. -/
def idx {α} (s : List α) (i : Int) : Except PyErr α :=
  let n : Int := s.length
  let j := if i < 0 then i + n else i
  if j < 0 then .error .indexError
  else match s[j.toNat]? with
    | some a => .ok a
    | none => .error .indexError

/-- Python slice `s[a:b]` with non-negative bounds (the only form used by the library on sources). -/
def slice {α} (s : List α) (a b : Nat) : List α := (s.take b).drop a

theorem slice_length {α} (s : List α) (a b : Nat) : (slice s a b).length = min b s.length - a := by
  simp [slice]

end MdIt
