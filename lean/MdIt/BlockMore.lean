import MdIt.BlockList
import MdIt.Generated.Regex
/-!
# MdIt.BlockMore — the block rules `html_block` and `lheading` (`rules_block/*.py`) as `BRule`s, and the rule chains of the
sub-parser `code, fence, blockquote, hr, list, html_block, heading, lheading, paragraph` (nine of the eleven block rules)

`HTML_SEQUENCES` is the T1-translated table of the live pattern objects (`Gen.htmlSequences`), searched with `Rx.search` on the text
of the line from its first non-blank (`src[bMarks + tShift : eMarks]` — the line feed is not part of it).
-/
namespace MdIt

/-- the first sequence whose opening pattern is found in the line -/
def findHtmlSeq (lineText : List Char) : List (Rx × Rx × Bool) → Option (Rx × Rx × Bool)
  | [] => none
  | q :: rest => if q.1.search lineText then some q else findHtmlSeq lineText rest

/-- the `while nextLine < endLine` search for the end condition: the line after the block -/
def htmlScan (endRe : Rx) (s : BState) (endLine : Nat) : Nat → Nat → Except PyErr Nat
  | 0, _ => .error (.noProgress "html_block")
  | fuel + 1, next =>
    if next < endLine then
      match getL s next with
      | .error e => .error e
      | .ok l =>
        if l.sCount < s.blkIndent then .ok next else
        if endRe.search l.body then .ok (if l.body.length != 0 then next + 1 else next)
        else htmlScan endRe s endLine fuel (next + 1)
    else .ok next

/-- `html_block(state, startLine, endLine, silent)`; `htmlOn` is `md.options.html` -/
def ruleHtmlBlock (codeOn htmlOn : Bool) : BRule := fun s startLine endLine silent =>
  match getL s startLine with
  | .error e => .error e
  | .ok l =>
    if isCodeLine codeOn s l then .ok (false, s) else
    if !htmlOn then .ok (false, s) else
    if !(l.body.head? == some '<') then .ok (false, s) else
    match findHtmlSeq l.body Gen.htmlSequences with
    | none => .ok (false, s)
    | some q =>
      if silent then .ok (q.2.2, s) else
      let nextE := if q.2.1.search l.body then .ok (startLine + 1)
                   else htmlScan q.2.1 s endLine (endLine - startLine + 1) (startLine + 1)
      match nextE with
      | .error e => .error e
      | .ok next =>
        match getLinesB s startLine next s.blkIndent true with
        | .error e => .error e
        | .ok c =>
          .ok (true, ({ s with line := next }).pushFull "html_block" "" 0 (some (startLine, next)) none (String.ofList c) "" "")

/-- is the line a setext underline?  `marker in ("-", "=")`, the run of the marker, blanks, end of line: `(marker, level)` -/
def setextLevel (body : List Char) : Option (Char × Nat) :=
  match body with
  | [] => none
  | m :: _ =>
    if m == '-' || m == '=' then
      if ((body.dropWhile (· == m)).dropWhile isSpaceTab).isEmpty then some (m, if m == '=' then 1 else 2) else none
    else none

/-- the `while nextLine < endLine and not state.isEmpty(nextLine)` loop of `lheading`: where it stopped, the underline found (if
    any), and the state as the terminator chain leaves it -/
def lheadScan (terms : List BRule) (endLine : Nat) : Nat → Nat → BState → Except PyErr (Nat × Option (Char × Nat) × BState)
  | 0, _, _ => .error (.noProgress "lheading")
  | fuel + 1, next, s =>
    if next < endLine then
      match getL s next with
      | .error e => .error e
      | .ok l =>
        if l.empty then .ok (next, none, s)
        else if l.sCount - s.blkIndent > 3 then lheadScan terms endLine fuel (next + 1) s
        else
          match (if l.sCount ≥ s.blkIndent then setextLevel l.body else none) with
          | some r => .ok (next, some r, s)
          | none =>
            if l.sCount < 0 then lheadScan terms endLine fuel (next + 1) s
            else
              match runTerminators terms s next endLine with
              | .error e => .error e
              | .ok (true, s') => .ok (next, none, s')
              | .ok (false, s') => lheadScan terms endLine fuel (next + 1) s'
    else .ok (next, none, s)

/-- `lheading(state, startLine, endLine, silent)`.  When no underline is found the code returns without restoring
    `state.parentType` (it stays `"paragraph"`); the rule never looks at `silent`. -/
def ruleLheading (codeOn : Bool) (terms : List BRule) (ws : List Nat) : BRule := fun s startLine endLine _ =>
  match getL s startLine with
  | .error e => .error e
  | .ok l0 =>
    if isCodeLine codeOn s l0 then .ok (false, s) else
    let old := s.parentType
    match lheadScan terms endLine (endLine - startLine + 1) (startLine + 1) { s with parentType := "paragraph" } with
    | .error e => .error e
    | .ok (_, none, s1) => .ok (false, s1)
    | .ok (next, some (marker, level), s1) =>
      match getLinesB s1 startLine next s1.blkIndent false with
      | .error e => .error e
      | .ok c =>
        let tag := "h" ++ toString level
        let mk := String.singleton marker
        let s2 := ({ s1 with line := next + 1 }).pushFull "heading_open" tag 1 (some (startLine, next + 1)) none "" mk ""
        let s3 := s2.pushFull "inline" "" 0 (some (startLine, next)) (some []) (String.ofList (pyStrip ws c)) "" ""
        let s4 := s3.pushFull "heading_close" tag (-1) none none "" mk ""
        .ok (true, { s4 with parentType := old })

/-! ### chains -/

/-- the leaf-rule switches of `MiniCfg`, plus `html_block`, `lheading` and the `html` option -/
structure MCfg extends MiniCfg where
  htmlBlock : Bool
  lheading : Bool
  html : Bool
deriving Repr, DecidableEq

/-- `getRules("list")`: fence, blockquote, hr (as for `lChain`: `html_block` does not name the list chain) -/
def mListTerms (c : MCfg) (maxNesting : Int) : List BRule := lListTerms c.toMiniCfg maxNesting

/-- `getRules("paragraph")` = `getRules("blockquote")`: fence, blockquote, hr, list, html_block, heading -/
def mTerminators (c : MCfg) (ws : List Nat) (maxNesting : Int) : List BRule :=
  (if c.fence then [ruleFence c.code] else []) ++ [ruleBlockquote c.code [] [] maxNesting]
    ++ (if c.hr then [ruleHr c.code] else []) ++ [ruleList c.code [] [] maxNesting]
    ++ (if c.htmlBlock then [ruleHtmlBlock c.code c.html] else [])
    ++ (if c.heading then [ruleHeading c.code ws] else [])

/-- `getRules("")` with a depth budget: code, fence, blockquote, hr, list, html_block, heading, lheading, paragraph -/
def mChain (c : MCfg) (ws : List Nat) (maxNesting : Int) : Nat → List BRule
  | 0 => []
  | d + 1 =>
    (if c.code then [ruleCode c.code] else []) ++ (if c.fence then [ruleFence c.code] else [])
      ++ [ruleBlockquote c.code (mTerminators c ws maxNesting) (mChain c ws maxNesting d) maxNesting]
      ++ (if c.hr then [ruleHr c.code] else [])
      ++ [ruleList c.code (mListTerms c maxNesting) (mChain c ws maxNesting d) maxNesting]
      ++ (if c.htmlBlock then [ruleHtmlBlock c.code c.html] else [])
      ++ (if c.heading then [ruleHeading c.code ws] else [])
      ++ (if c.lheading then [ruleLheading c.code (mTerminators c ws maxNesting) ws] else [])
      ++ [ruleParagraph (mTerminators c ws maxNesting) ws]

def mParse (c : MCfg) (ws : List Nat) (maxNesting : Int) (src : List Char) : Except PyErr (List Tok) :=
  let s := initBState (normalize src)
  if src.isEmpty then .ok [] else
  match blockTokenize (mChain c ws maxNesting (maxNesting.toNat + 1)) maxNesting s 0 s.lineMax with
  | .ok s' => .ok s'.tokens
  | .error e => .error e

end MdIt
