import MdIt.Token
/-!
# MdIt.Tree — model of `markdown_it/tree.py`: `SyntaxTreeNode` built from a token stream by bracket
matching on `nesting`, `to_tokens`, `walk`.

A leaf node keeps its token; the nodes for `token.children` are built by the same function applied
to that list (`Node.kidsOfLeaf`), exactly as `SyntaxTreeNode.__init__` does.
-/
namespace MdIt

inductive Node where
  | leaf (t : Tok)
  | nest (o c : Tok) (kids : List Node)
deriving Repr

/-- the inner `while reversed_tokens and nesting:` loop: collect tokens until the nesting sum is 0.
    Returns the collected tokens (closer last) and the remaining stream; `none` = ran out (unclosed). -/
def takeNested : List Tok → Int → List Tok → Option (List Tok × List Tok)
  | [], _, _ => none
  | t :: ts, n, acc =>
    if n + t.nesting = 0 then some ((t :: acc).reverse, ts) else takeNested ts (n + t.nesting) (t :: acc)

theorem takeNested_spec (ts : List Tok) (n : Int) (acc inner rest : List Tok)
    (h : takeNested ts n acc = some (inner, rest)) :
    inner ++ rest = acc.reverse ++ ts ∧ acc.length < inner.length := by
  induction ts generalizing n acc with
  | nil => simp [takeNested] at h
  | cons t ts ih =>
    simp only [takeNested] at h
    split at h
    · simp only [Option.some.injEq, Prod.mk.injEq] at h
      obtain ⟨rfl, rfl⟩ := h
      simp
    · have := ih _ _ h
      simp only [List.reverse_cons, List.append_assoc, List.singleton_append, List.length_cons] at this
      exact ⟨this.1, by omega⟩

/-- `SyntaxTreeNode._set_children_from_tokens` -/
def buildTree : List Tok → Except PyErr (List Node)
  | [] => .ok []
  | t :: rest =>
    if t.nesting = 0 then
      match buildTree rest with
      | .ok r => .ok (.leaf t :: r)
      | .error e => .error e
    else if t.nesting ≠ 1 then .error (.valueError "Invalid token nesting")
    else
      match h : takeNested rest 1 [] with
      | none => .error (.valueError "unclosed tokens")
      | some (innerC, rest') =>
        match buildTree innerC.dropLast with
        | .error e => .error e
        | .ok kids =>
          match buildTree rest' with
          | .error e => .error e
          | .ok r =>
            match innerC.getLast? with
            | some c => .ok (.nest t c kids :: r)
            | none => .error .assertion
termination_by l => l.length
decreasing_by
  all_goals simp_wf
  · have := takeNested_spec rest 1 [] innerC rest' h
    have hl := congrArg List.length this.1
    simp at hl this
    omega
  · have := takeNested_spec rest 1 [] innerC rest' h
    have hl := congrArg List.length this.1
    simp at hl this
    omega

mutual
  /-- `SyntaxTreeNode.to_tokens` -/
  def Node.toTokens : Node → List Tok
    | .leaf t => [t]
    | .nest o c kids => o :: (Node.toTokensList kids ++ [c])
  def Node.toTokensList : List Node → List Tok
    | [] => []
    | n :: ns => n.toTokens ++ Node.toTokensList ns
end

/-- the token a node's properties are read from (`_attribute_token`) -/
def Node.tok : Node → Tok
  | .leaf t => t
  | .nest o _ _ => o

mutual
  /-- `SyntaxTreeNode.walk` (depth first, node before its children), without descending into
      `token.children` of leaves -/
  def Node.walk : Node → List Node
    | .leaf t => [.leaf t]
    | .nest o c kids => .nest o c kids :: Node.walkList kids
  def Node.walkList : List Node → List Node
    | [] => []
    | n :: ns => n.walk ++ Node.walkList ns
end

/-- child nodes of a leaf: built from `token.children` when that list is truthy -/
def Node.kidsOfLeaf (t : Tok) : Except PyErr (List Node) :=
  match t.children with
  | some (c :: cs) => buildTree (c :: cs)
  | _ => .ok []

/-- depth bookkeeping: every nesting is -1, 0 or 1, the running depth never goes negative and ends at 0 -/
def balancedFrom : Int → List Tok → Bool
  | d, [] => d == 0
  | d, t :: ts =>
    (t.nesting == 0 || t.nesting == 1 || t.nesting == -1) && (0 ≤ d + t.nesting) && balancedFrom (d + t.nesting) ts

end MdIt
