import MdIt.Drv.Ruler
import MdIt.Drv.Conc
import MdIt.Drv.Inst
import MdIt.Drv.World
import MdIt.Drv.Token
import MdIt.Drv.Str
import MdIt.Drv.Render
import MdIt.Drv.Url
import MdIt.Drv.Core
import MdIt.Drv.Inline
import MdIt.Drv.InlineX
import MdIt.Drv.Block
import MdIt.Drv.Refs
import MdIt.Drv.Mini
import MdIt.Drv.Delims
import MdIt.Drv.Pipeline
open MdIt

def handle (line : String) : String :=
  match (line.trimAscii.toString.splitOn " ").filter (· ≠ "") with
  | "ruler" :: rest => Drv.rulerLine rest
  | "facade" :: rest => Drv.facadeLine rest
  | "conc" :: rest => Drv.concLine rest
  | "reset" :: rest => Drv.resetLine rest
  | "world" :: rest => Drv.worldLine rest
  | "dictrt" :: rest => Drv.dictrtLine rest
  | "tree" :: rest => Drv.treeLine rest
  | "refs" :: rest => Drv.refsLine rest
  | "cutline" :: rest => Drv.verbatimLine "cutline" rest
  | "codespan" :: rest => Drv.verbatimLine "codespan" rest
  | "hr" :: rest => Drv.verbatimLine "hr" rest
  | "blockloop" :: rest => Drv.blockLoopLine rest
  | "miniblock" :: rest => Drv.miniLine rest
  | "qblock" :: rest => Drv.qLine rest
  | "lblock" :: rest => Drv.lLine rest
  | "mblock" :: rest => Drv.mLine rest
  | "linescan" :: rest => Drv.lineScanLine rest
  | "fullparse" :: rest => Drv.fullParseLine rest
  | "fullparser" :: rest => Drv.fullParseRLine rest
  | "fullparset" :: rest => Drv.fullParseTLine rest
  | "fullrender" :: rest => Drv.fullRenderLine rest
  | "parseinline" :: rest => Drv.parseInlineLine rest
  | "unescape" :: rest => Drv.unescapeLine rest
  | "inline" :: rest => Drv.inlineLine rest
  | "inlinex" :: rest => Drv.inlineXLine rest
  | "rx" :: rest => Drv.rxLine rest
  | "inlinel" :: rest => Drv.inlineLLine rest
  | "inlinei" :: rest => Drv.inlineILine rest
  | "delims" :: rest => Drv.delimsLine rest
  | "textjoin" :: rest => Drv.textJoinLine rest
  | "smart" :: rest => Drv.smartLine rest
  | "encode" :: rest => Drv.urlLine "encode" rest
  | "validate" :: rest => Drv.urlLine "validate" rest
  | "scheme" :: rest => Drv.urlLine "scheme" rest
  | "render" :: rest => Drv.renderLine rest
  | "alt" :: rest => Drv.afterRenderLine rest
  | "normalize" :: rest => Drv.strLine "normalize" rest
  | "cols" :: rest => Drv.strLine "cols" rest
  | "quote" :: rest => Drv.strLine "quote" rest
  | _ => "bad-request"

partial def loop (hin hout : IO.FS.Stream) : IO Unit := do
  let line ← hin.getLine
  if line.isEmpty then return ()
  hout.putStrLn (handle line)
  hout.flush
  loop hin hout

def main : IO Unit := do loop (← IO.getStdin) (← IO.getStdout)
