"""C02 — token streams are well nested, correctly levelled and tree-constructible.

Proof: lean/MdIt/Props/C02.lean — push_levels (the push discipline of StateBlock/StateInline keeps
level = depth), fragmentsJoin_levels (levels recomputed from nestings are depths), joinToks_flat /
joined_deep (after text_join no text_special survives and no two text tokens are adjacent, at every
image depth), tree_of_balanced (a balanced stream always builds a tree).
Tie: inline engine + fragments_join + text_join vs the implementation (driver `inline`, `textjoin`);
SyntaxTreeNode vs buildTree (driver `tree`).
Oracle: the well-formedness predicate of the property on every stream returned by parse/parseInline,
recursively into children; delimiter-heavy stream and a bounded-exhaustive delimiter sweep.
"""
from __future__ import annotations

from .common import Ctx, Driver, Finding, enc
from . import gens
from .tokcodec import enc_toks, supported

RULE = (
    "documents (G-doc, delimiter runs, spec/fixture mutations, malformed) x configurations (fixed set + random "
    "presets/rule subsets/options) through parse and parseInline, plus a bounded-exhaustive sweep of delimiter "
    "strings (atoms ~~ ~ * [ ](u) a, length <= 6 quick / 7 with _ and space thorough); a case is (document, "
    "configuration); non-trivial = the stream contains at least one open/close pair or an inline token with more "
    "than one child; distinct by case."
)


def wf(tokens, inline: bool, path="top"):
    """the property's well-formedness predicate; returns None or a description"""
    depth = 0
    stack = []
    prev_text = False
    for i, t in enumerate(tokens):
        if t.nesting not in (-1, 0, 1):
            return f"{path}[{i}] nesting {t.nesting}"
        if t.nesting == -1:
            depth -= 1
            if depth < 0 or not stack:
                return f"{path}[{i}] {t.type}: depth goes negative"
            o = stack.pop()
            if not (o.type.endswith("_open") and t.type.endswith("_close") and o.type[:-5] == t.type[:-6]):
                return f"{path}[{i}] {t.type} closes {o.type}"
            if o.tag != t.tag:
                return f"{path}[{i}] {t.type} tag {t.tag!r} closes tag {o.tag!r}"
            if o.markup != t.markup:
                return f"{path}[{i}] {t.type} markup {t.markup!r} closes markup {o.markup!r}"
        if t.level != depth:
            return f"{path}[{i}] {t.type}: level {t.level} but depth {depth}"
        if t.nesting == 1:
            stack.append(t)
            depth += 1
        if inline:
            if t.block:
                return f"{path}[{i}] {t.type}: inline token flagged block"
            if t.children is not None and t.type != "image":
                return f"{path}[{i}] {t.type}: children on a non-image inline token"
            if t.type == "text_special":
                return f"{path}[{i}] text_special survived"
            if t.type == "text" and prev_text:
                return f"{path}[{i}] adjacent text tokens"
            prev_text = t.type == "text"
            if t.type == "image" and t.children is not None:
                e = wf(t.children, True, f"{path}[{i}].children")
                if e:
                    return e
        else:
            if not t.block:
                return f"{path}[{i}] {t.type}: block-level token not flagged block"
            if t.children is not None and t.type != "inline":
                return f"{path}[{i}] {t.type}: children on a non-inline block token"
            if t.type == "inline":
                e = wf(t.children or [], True, f"{path}[{i}].children")
                if e:
                    return e
    if depth != 0 or stack:
        return f"{path}: ends at depth {depth}"
    return None


def check(ctx: Ctx, md, src, cfgkey):
    from markdown_it.tree import SyntaxTreeNode

    for api in ("parse", "parseInline"):
        try:
            toks = getattr(md, api)(src)
        except Exception:
            return None  # totality is C01
        e = wf(toks, False)
        if e is None:
            try:
                SyntaxTreeNode(toks)
            except Exception as ex:
                e = f"SyntaxTreeNode raised {type(ex).__name__}"
        if e:
            kind = "malformed-stream"
            if api == "parseInline" and e == "top[0] inline: block-level token not flagged block":
                # known finding K-C02-1: report it once per run, then look past it at the rest of the stream
                kind = "inline-mode-wrapper-not-block"
                if not any(f.kind == kind for f in ctx.findings):
                    ctx.fail(kind, f"{api}: {e}", {"input": src, "cfg": cfgkey, "api": api})
                toks[0].block = True
                e = wf(toks, False)
                toks[0].block = False
                if e is None:
                    try:
                        SyntaxTreeNode(toks)
                    except Exception as ex:
                        e = f"SyntaxTreeNode raised {type(ex).__name__}"
                if e is None:
                    continue
            ctx.fail("malformed-stream", f"{api}: {e}", {"input": src, "cfg": cfgkey, "api": api})
            return toks
    return toks


def run(ctx: Ctx) -> None:
    from markdown_it import MarkdownIt

    quick = ctx.quick()
    rng = ctx.rng
    n = 2500 if quick else 60000
    mds = [(gens.make_md(c), c) for c in gens.FIXED_CFGS]
    # documents at scale (the table rule counts auto-completed cells; seeded change C02m drops `td_close` beyond upstream's limit)
    mdt = MarkdownIt("commonmark").enable("table")
    for name, src in gens.scale_docs(quick):
        ctx.count(("scale", name), nontrivial=True)
        check(ctx, mdt, src, {"preset": "commonmark", "options": {}, "enable": ["table"], "disable": []})
    for i, src in enumerate(gens.doc_stream(rng, n, 7)):
        if rng.random() < 0.3:
            cfg = gens.rand_cfg(rng)
            try:
                md = gens.make_md(cfg)
            except Exception:
                continue
        else:
            md, cfg = mds[i % len(mds)]
        act = md.get_active_rules()
        if md.options.get("linkify") and "linkify" in act["core"]:
            continue
        if "paragraph" not in act["block"] or "text" not in act["inline"] or not {"normalize", "block", "inline", "text_join"} <= set(act["core"]):
            continue
        toks = check(ctx, md, src, cfg)
        nontriv = bool(toks) and (any(t.nesting == 1 for t in toks) or any(len(t.children or []) > 1 for t in toks))
        ctx.count((src, gens.cfg_key(cfg)), nontrivial=nontriv)
        if len(ctx.samples) < 3 and nontriv:
            ctx.sample({"input": src[:80], "types": [t.type for t in toks][:10]})
    # bounded-exhaustive delimiter strings
    sweep_mds = [MarkdownIt("js-default"), MarkdownIt("commonmark")]
    atoms = ("~~", "~", "*", "[", "](u)", "a") if quick else ("~~", "~", "*", "_", "[", "](u)", "a", " ")
    ns = 0
    for src in gens.delim_sweep(6 if quick else 7, atoms):
        for md in sweep_mds[: 1 if quick else 2]:
            ns += 1
            toks = md.parseInline(src)
            e = wf(toks[0].children or [], True, "top[0].children")
            if e:
                ctx.fail("malformed-stream", f"parseInline: {e}", {"input": src, "cfg": gens.FIXED_CFGS[1], "api": "parseInline"})
                break
        if len(ctx.findings) > 20:
            break
    for src in gens.crossing_family():
        ns += 1
        toks = sweep_mds[0].parseInline(src)
        e = wf(toks[0].children or [], True, "top[0].children")
        if e:
            ctx.fail("malformed-stream", f"parseInline: {e}", {"input": src, "cfg": gens.FIXED_CFGS[1], "api": "parseInline"})
            break
    ctx.evaluations += ns
    ctx.cov["delimiter_sweep_strings"] = ns
    # tie: text_join on raw inline streams (snapshot before text_join), through the driver
    drv = Driver()
    try:
        import copy
        lines, exp = [], []
        md = MarkdownIt("js-default")
        box = {}
        md.core.ruler.before("text_join", "verif_snap", lambda st: box.__setitem__("pre", copy.deepcopy(st.tokens)))
        for src in gens.doc_stream(rng, 600 if quick else 10000, 4):
            try:
                final = md.parseInline(src)
            except Exception:
                continue
            pre = box["pre"][0].children or []
            post = final[0].children or []
            if not all(supported(t) for t in pre) or len(pre) > 300:
                continue
            lines.append("textjoin " + " ".join(enc_toks(pre)))
            exp.append(" ".join(enc_toks(post)))
        got = drv.batch(lines)
        for ln, e, g in zip(lines, exp, got):
            ctx.corr_compared += 1
            if e.strip() != g.strip():
                ctx.mismatch("text_join: implementation and model differ", {"request": ln[:1200], "impl": e[:500], "model": g[:500]})
        # tie: every real call of processDelimiters (delimiter array before / after) against the model pairs_laminar is about
        import markdown_it.rules_inline.balance_pairs as bp
        rec = []
        orig_pd = bp.processDelimiters

        def snap(delims):
            return [(d.marker, d.length or 0, d.token, d.end, d.open, d.close) for d in delims]

        cur = [""]

        def wrapped(state, delimiters):
            before = snap(delimiters)
            orig_pd(state, delimiters)
            if before and len(before) <= 400:
                rec.append((before, snap(delimiters), cur[0]))
        bp.processDelimiters = wrapped
        try:
            mdd = MarkdownIt("js-default")
            DAL = ["*", "**", "***", "_", "__", "~~", "~~~", "a", " ", "b*", "*c", "_d_", "[", "](u)", "**e", "f**", "\n", "`", "<", "x", "*_", "_*",
                   "é*", "*é", "\\*", "a*b", "(*", "*)", "~"]
            for _ in range(1500 if quick else 40000):
                cur[0] = "".join(rng.choice(DAL) for _ in range(rng.randint(1, 16)))
                try:
                    check(ctx, mdd, cur[0], gens.FIXED_CFGS[1])      # the oracle on the emphasis-heavy strings too
                except Exception:
                    pass
            for src in gens.doc_stream(rng, 400 if quick else 8000, 5):
                cur[0] = src
                try:
                    mdd.render(src)
                except Exception:
                    pass
        finally:
            bp.processDelimiters = orig_pd

        def encd(ds):
            return ",".join(f"{m}:{ln}:{t}:{e}:{int(o)}:{int(c)}" for m, ln, t, e, o, c in ds) or "~"
        got = drv.batch(["delims " + encd(b) for b, _, _ in rec])
        npairs = 0
        for (b, a, csrc), g in zip(rec, got):
            ctx.corr_compared += 1
            npairs += sum(1 for x in a if x[3] >= 0)
            if encd(a) != g.strip():
                ctx.mismatch("processDelimiters: implementation and model differ", {"delimiters": encd(b), "impl": encd(a), "model": g[:600], "source": csrc})
                break
            # the theorem's hypotheses hold of every real call, and its conclusion of every real result
            if any(x[3] >= 0 for x in b) or any(x[2] < 0 for x in b):
                ctx.mismatch("processDelimiters is called on an array with `end` set or a negative token index (outside pairs_laminar)",
                             {"delimiters": encd(b)})
                break
            prs = [(i, x[3]) for i, x in enumerate(a) if x[3] >= 0]
            if any(not (i < e < len(a)) for i, e in prs) or any(o1 < o2 < e1 < e2 for o1, e1 in prs for o2, e2 in prs):
                ctx.fail("crossing-pairs", "processDelimiters formed crossing or ill-ordered pairs", {"delimiters": encd(b), "result": encd(a)})
                break
        ctx.cov["processDelimiters_calls"] = len(rec)
        ctx.cov["processDelimiters_pairs"] = npairs
        # tie of the modelled block sub-parser (mini_wellformed is a theorem about exactly this model)
        from . import miniblock
        miniblock.tie_all(ctx, drv, quick)
        from . import rxtie
        rxtie.tie_leaf(ctx, drv, quick)      # translated regular expressions + inline leaf rules (autolink, html_inline, entity)
        from . import pipeline
        pipeline.tie_full(ctx, drv, 2000 if quick else 60000)     # MarkdownIt.parse end to end on the modelled sub-language
        pipeline.tie_full(ctx, drv, 2000 if quick else 50000, table=True)     # all eleven block rules: the table rule in the main chain and as a terminator (driver `fullparset`)
    finally:
        drv.close()
    ctx.partial += [
        "the delimiter matching is laminar — PROVED (Props/C02e.lean pairs_laminar): processDelimiters is modelled statement by "
        "statement (openersBottom, jumps, headerIdx, the rule of 3) and tied call by call to the real function; for every delimiter "
        "array with unset ends, whatever the markers, lengths and flags, the pairs it forms are ordered and never cross (+ pairs_facts: a "
        "closer closes one opener, no delimiter is in two pairs, marker/token/length untouched). The emphasis rule is modelled too "
        "(scanDelims with the T1 classification tables, tokenize, _postProcess) and tied through the inline differential runs; "
        "PROVED (Props/C02f.lean emini_wellformed): for every source, every subset of newline/escape/backticks with emphasis on, every "
        "maxNesting and every character classification, the inline stream after balance_pairs, the emphasis post-processing and "
        "fragments_join is levelled from 0, balanced, and SyntaxTreeNode builds; and (Props/C02g.lean emini_tags_nested) its opening and "
        "closing tokens pair up by tag in stack order — every em_close closes the innermost open em_open, every strong_close the innermost "
        "open strong_open — derived from pairs_laminar through the post-processing loop by a description of the stream as a laminar family of "
        "tagged bracket pairs (nest_of_desc). NOT PROVED: the same with strikethrough's lone-marker swap (modelled and tied, not in the "
        "theorem), links and images (not modelled): covered by the oracle incl. the bounded-exhaustive delimiter sweep",
        "balance and levels of the block-level stream follow from the segment contract K5 (engine theorem loop_segs); K5 is "
        "PROVED for code, fence, hr, heading, paragraph (Props/C02b.lean segOK_*), giving the unconditional mini_wellformed "
        "(levelled from 0, balanced, SyntaxTreeNode builds) for that sub-parser, whose model is tied by the `miniblock` "
        "differential runs; and for the container rule blockquote (Props/C02c.lean: quote_tokens, QuoteWrap, qChain_seg by "
        "induction on the nesting budget), giving q_wellformed for the sub-parser with block quotes nested to any depth "
        "(tie: `qblock`), and for the list rule (Props/C02d.lean: listItem_tokens, listItems_chain, listRun_tokens — a list is "
        "open ++ items ++ close up to the hidden flags of markTightParagraphs, markTight_spec — ListWrap, lChain_seg), giving "
        "l_wellformed with quotes and lists nested in each other to any depth (tie: `lblock`); for the other rules K5 is monitored on the implementation (contract monitor), not proved",
    ]


def search(ctx: Ctx):
    from markdown_it import MarkdownIt

    c = Ctx(ctx.pid, "quick", ctx.seed + 9)
    md = MarkdownIt("js-default")
    # first the documents on which the correspondence broke: the real call that differs from the model happened while parsing them
    for m in ctx.mismatches:
        src = m.get("source")
        if isinstance(src, str) and src:
            check(c, md, src, gens.FIXED_CFGS[1])
            real = [f for f in c.findings if f.kind != "inline-mode-wrapper-not-block"]
            if real:
                return real[0]
    for src in gens.delim_sweep(6):
        e = wf(md.parseInline(src)[0].children or [], True)
        if e:
            return Finding("malformed-stream", e, {"input": src, "cfg": gens.FIXED_CFGS[1], "api": "parseInline"})
    for src in gens.doc_stream(c.rng, 5000, 6):
        for cfg in gens.FIXED_CFGS:
            check(c, gens.make_md(cfg), src, cfg)
            if c.findings:
                return c.findings[0]
    return None


def replay(ctx: Ctx, obj: dict) -> bool:
    if "input" in obj and "cfg" in obj:
        md = gens.make_md(obj["cfg"])
        toks = getattr(md, obj.get("api", "parse"))(obj["input"])
        if obj.get("api") == "parseInline" and toks:
            toks[0].block = True
        return wf(toks, False) is None
    return True
