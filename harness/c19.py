"""C19 — typographic replacements are local to text and never touch structure or literals.

Proof: lean/MdIt/Props/C19.lean — replacePass_shape / replacements_shape (for every substitution
function), replacePass_autolink, smart_frame + smartInline_shape (faithful model of process_inlines:
for every quotes option and character classification only `text` tokens outside autolinks change,
and only in `content`), replaceAt_spec, T1 obligation text_join_last.
Tie: `smartInline` vs the real `process_inlines` on children of parsed inline tokens under quote
options of any length; `replacePass` vs the real replace_scoped/replace_rare with the regexes stubbed
by a marking substitution (traversal + autolink counter).
Oracle: typographer off vs on for {replacements, smartquotes, both} x quotes options x presets,
observed both on the final stream and on a snapshot taken just before text_join (where escapes and
entities are still text_special): same shape, non-text tokens identical, autolink text identical,
inline.content untouched, smartquotes-only text related by QuoteRel (a DP).
"""
from __future__ import annotations

import copy
import html as htmlmod
import importlib
import re

from .common import Ctx, Driver, Finding, enc
from . import gens
from .tokcodec import enc_toks, supported

RULE = (
    "inline-heavy strings (quotes, apostrophes, dashes, ellipses, (c), escapes, entities, code spans, autolinks, "
    "links, emphasis, breaks) and G-doc documents x {replacements, smartquotes, both} x 7 quotes options (4-char "
    "strings, lists of strings of length 0-4) x presets; a case is (document, rule set, quotes); non-trivial = the "
    "typographer changed at least one character; distinct by case."
)

AL = ["'", '"', "a", "b", " ", ".", ",", "*", "_", "`", "\n", "1", "-", "(", ")", "\\'", "\\\"", "&quot;", "&#39;", "[", "](u)",
      "<http://x'y>", "é", "!", "--", "---", "...", "(c)", "(TM)", "+-", "??", "'s", "\"q\"", "'q'", "\\\n", "`'c'`", "<b>",
      "![i'](s)", "[l'](u \"t'\")", "**", "«", " ", "0\"", "’",
      # letters of the replaceable patterns written as character references / escapes, next to protected literals
      "(&#99;)", "(&#x43;)", "(&#116;m)", "(t&#109;)", "(&#82;)", "(&#x72;)", "`(c)`", "`(tm)`", "\\(c)", "(c\\)", "&#40;c)", "+&#45;", "&#46;..", "-&#45;",
      "<!-- (c) -->", "`(r)`",
      # escapes next to the other characters of a replaceable pattern, behind plain text (pending text in the inline state)
      "5\\+-3", "a\\+-", "+\\-", "a \\.\\.\\.", "..\\.", "a-\\-", "a\\--", "x\\(c)", "x(c\\)", "x\\(tm\\)", "a\\?..", "a,\\,", "a!\\!!!", "b\\...."]
QS = ["“”‘’", "«»„“", ["<<", ">>", "<", ">"], ["", "", "", ""], ["«\xa0", "\xa0»", "‹\xa0", "\xa0›"], ["abc", "d", "", "efgh"],
      "\"\"''"]


EMPTY_RUN = ['""\\*', "''\\*", '""&amp;', '"\\""', 'a ""\\* b', '*x*""\\*', '""\\\\', '""&#35;', '"" \\*', '""`c`\\*', "'' \"\"\\_",
             '"a"\\*', "*\"\"*\\*", '[""\\*](u)', '![""\\*](u)', '""\\*""\\*', "\"'\\*'\""]


def flat(ts, out=None):
    out = [] if out is None else out
    for t in ts:
        out.append(t)
        if t.children:
            flat(t.children, out)
    return out


def quote_rel(a: str, b: str, qs) -> bool:
    reps = list(dict.fromkeys(list(qs) + ["’"]))
    memo = {}

    def go(i, j):
        k = (i, j)
        if k in memo:
            return memo[k]
        if i == len(a):
            res = j == len(b)
        else:
            res = False
            if j < len(b) and a[i] == b[j] and go(i + 1, j + 1):
                res = True
            elif a[i] in "'\"":
                for q in reps:
                    if b.startswith(q, j) and go(i + 1, j + len(q)):
                        res = True
                        break
        memo[k] = res
        return res
    import sys
    sys.setrecursionlimit(max(sys.getrecursionlimit(), 5000))
    return go(0, 0)


def snap_md(preset, opts, rules):
    """instance whose core chain records a deep copy of all tokens just before text_join"""
    from markdown_it import MarkdownIt

    md = MarkdownIt(preset, opts)
    md.disable([x for x in ("smartquotes", "replacements") if x not in rules])
    box = {}

    def snap(state):
        box["pre"] = copy.deepcopy(state.tokens)
    md.core.ruler.before("text_join", "verif_snap", snap)
    return md, box


def compare(ctx: Ctx, s, preset, qs, rules, A, B, stage, info):
    if len(A) != len(B):
        ctx.fail("shape", f"typographer changed the number of tokens ({stage})", info)
        return False
    inauto = False
    changed = False
    for x, y in zip(A, B):
        if (x.type, x.tag, x.nesting, x.level, x.markup, x.info, x.attrs, x.map, x.block, x.hidden, x.meta) != \
                (y.type, y.tag, y.nesting, y.level, y.markup, y.info, y.attrs, y.map, y.block, y.hidden, y.meta):
            ctx.fail("shape", f"typographer changed a token field other than content ({stage}, {x.type})", info)
            return False
        if x.type != "text" and x.content != y.content:
            ctx.fail("nontext", f"typographer changed the content of a {x.type} token ({stage})", info)
            return False
        if x.type == "link_open" and x.info == "auto":
            inauto = True
        if x.type == "link_close":
            inauto = False
        if x.type == "text":
            if x.content != y.content:
                changed = True
            if inauto and x.content != y.content:
                ctx.fail("autolink", f"typographer rewrote autolink text ({stage})", info)
                return False
            if rules == ["smartquotes"] and not quote_rel(x.content, y.content, list(qs)):
                ctx.fail("not-in-place", f"smartquotes changed text other than by substituting quote characters in place ({stage})",
                         {**info, "before": x.content, "after": y.content})
                return False
    return changed


def run(ctx: Ctx) -> None:
    from markdown_it import MarkdownIt
    from markdown_it.rules_core.state_core import StateCore

    quick = ctx.quick()
    rng = ctx.rng
    n = 4000 if quick else 60000
    sqm = importlib.import_module("markdown_it.rules_core.smartquotes")
    rep = importlib.import_module("markdown_it.rules_core.replacements")
    drv = Driver()
    try:
        lines, exp, meta = [], [], []
        opq = {}
        md0 = MarkdownIt("js-default")
        for it in range(n):
            if rng.random() < 0.8:
                s = "".join(rng.choice(AL) for _ in range(rng.randint(1, 12)))
            else:
                s = gens.rand_doc(rng, 4)
            qs = rng.choice(QS)
            preset = rng.choice(["js-default", "commonmark"])
            rules = rng.choice([["smartquotes"], ["replacements"], ["smartquotes", "replacements"]])
            if it < len(EMPTY_RUN) * len(QS):
                # a text run that the substitution empties (a quote pair replaced by empty strings) or shortens, directly in front of
                # an escape / entity / code span: text_join must still merge the pieces exactly as with the typographer off
                s, qs = EMPTY_RUN[it % len(EMPTY_RUN)], QS[it // len(EMPTY_RUN)]
                rules = ["smartquotes"] if it % 2 else ["smartquotes", "replacements"]
            info = {"input": s, "quotes": qs, "rules": rules, "preset": preset}
            try:
                off, boxo = snap_md(preset, {"typographer": False}, rules)
                on, boxn = snap_md(preset, {"typographer": True, "quotes": qs}, rules)
                A = off.parse(s)
                B = on.parse(s)
            except Exception:
                continue
            ch = compare(ctx, s, preset, qs, rules, flat(boxo["pre"]), flat(boxn["pre"]), "before text_join", info)
            ch2 = compare(ctx, s, preset, qs, rules, flat(A), flat(B), "final stream", info)
            ctx.count((s, tuple(rules), str(qs), preset), nontrivial=bool(ch or ch2))
            # opacity: a character written as a numeric reference is invisible to the replacements rule — rendering with every
            # such reference pointed at U+E000 instead, then putting the original characters back, gives the same output
            if ("&#" in s or "\\" in s) and "replacements" in rules:
                opaque_re = r"&#(?:[xX]([0-9a-fA-F]{1,6})|([0-9]{1,7}));|\\([!-/:-@\[-`{-~])"
                refs = list(re.finditer(opaque_re, s))
                origs = []
                for m_ in refs:
                    if m_.group(3):
                        origs.append(m_.group(3))
                        continue
                    cp = int(m_.group(1), 16) if m_.group(1) else int(m_.group(2))
                    origs.append(chr(cp) if 0x20 < cp < 0x7f else None)
                if refs and all(o is not None for o in origs) and "\ue000" not in s:
                    s2 = re.sub(opaque_re, "&#xE000;", s)
                    try:
                        mdr = opq.get(preset)
                        if mdr is None:
                            mdr = opq[preset] = MarkdownIt(preset, {"typographer": True}).disable("smartquotes")
                        o1, o2 = mdr.render(s), mdr.render(s2)
                    except Exception:
                        o1 = o2 = None
                    if o2 is not None and o2.count("\ue000") == len(origs):
                        it_ = iter(origs)
                        back = re.sub("\ue000", lambda _m: {"&": "&amp;", "<": "&lt;", ">": "&gt;", '"': "&quot;"}.get((c_ := next(it_)), c_), o2)
                        ctx.count((s, "opacity", preset), nontrivial=True)
                        if back != o1:
                            ctx.fail("entity-rewritten", "a character written as a numeric reference or backslash escape took part in a typographic replacement",
                                     {"input": s, "preset": preset, "rules": ["replacements"], "with_refs": o1[:300], "opaque_twin": back[:300]})
            if len(ctx.samples) < 3 and ch2:
                ctx.sample({"input": s[:60], "quotes": str(qs), "rules": rules})
            # tie: process_inlines on the children of the first inline token
            if it % 2 == 0:
                toks = md0.parseInline(s.replace("\n\n", "\n"))
                chn = toks[0].children
                if chn and all(supported(t) for t in chn) and len(chn) < 200:
                    before = copy.deepcopy(chn)
                    mdq = MarkdownIt("js-default", {"typographer": True, "quotes": qs})
                    try:
                        sqm.process_inlines(chn, StateCore(s, mdq, {}))
                    except Exception:
                        continue
                    lines.append("smart " + " ".join(enc(x) for x in list(qs)) + " " + " ".join(enc_toks(before)))
                    exp.append(" ".join(enc_toks(chn)))
                    meta.append(info)
        got = drv.batch(lines)
        for e, g, m in zip(exp, got, meta):
            ctx.corr_compared += 1
            if e != g:
                ctx.mismatch("process_inlines: implementation and model differ", {**m, "impl": e[:500], "model": g[:500]})
    finally:
        drv.close()
    # tie for replacePass: the real traversal with the regexes stubbed by a marking substitution
    class Stub:
        def __init__(self, mark):
            self.mark = mark

        def sub(self, repl, s):
            return "⟦" + s + "⟧" if self.mark else s

        def search(self, s):
            return True
    saved = {k: getattr(rep, k) for k in dir(rep) if k.endswith("_RE")}
    try:
        for k in saved:
            setattr(rep, k, Stub(k in ("SCOPED_ABBR_RE", "PLUS_MINUS_RE")))
        md0 = MarkdownIt("js-default")
        for it in range(200 if quick else 4000):
            s = "".join(rng.choice(AL) for _ in range(rng.randint(1, 10)))
            chn = md0.parseInline(s)[0].children or []
            want = []
            k = 0
            for t in chn:
                c = t.content
                if t.type == "text" and k == 0:
                    c = "⟦" + c + "⟧"
                if t.type == "link_open" and t.info == "auto":
                    k -= 1
                if t.type == "link_close" and t.info == "auto":
                    k += 1
                want.append(c)
            a = copy.deepcopy(chn)
            rep.replace_scoped(a)
            b = copy.deepcopy(chn)
            rep.replace_rare(b)
            ctx.corr_compared += 1
            if [t.content for t in a] != want or [t.content for t in b] != want:
                ctx.mismatch("replace_scoped/replace_rare traversal differs from replacePass",
                             {"input": s, "impl_scoped": [t.content for t in a], "impl_rare": [t.content for t in b], "model": want})
                break
    finally:
        for k, v in saved.items():
            setattr(rep, k, v)
    ctx.partial += [
        "C19.inplace (QuoteRel: smartquotes only substitutes quote characters in place) is not a theorem: the "
        "position bookkeeping invariant of the quote stack is decided by the DP oracle; smart_frame/smartInline_shape "
        "(which tokens and which field can change) are proved",
        "the regular expressions of replacements.py are parameters of the model (the shape theorems hold for every substitution)",
    ]


def search(ctx: Ctx):
    c = Ctx(ctx.pid, "quick", ctx.seed + 11)
    rng = c.rng
    for _ in range(4000):
        s = "".join(rng.choice(AL) for _ in range(rng.randint(1, 10)))
        qs = rng.choice(QS)
        rules = rng.choice([["smartquotes"], ["replacements"], ["smartquotes", "replacements"]])
        info = {"input": s, "quotes": qs, "rules": rules, "preset": "js-default"}
        try:
            off, boxo = snap_md("js-default", {"typographer": False}, rules)
            on, boxn = snap_md("js-default", {"typographer": True, "quotes": qs}, rules)
            A, B = off.parse(s), on.parse(s)
        except Exception:
            continue
        compare(c, s, "js-default", qs, rules, flat(boxo["pre"]), flat(boxn["pre"]), "before text_join", info)
        compare(c, s, "js-default", qs, rules, flat(A), flat(B), "final stream", info)
        if c.findings:
            return c.findings[0]
    return None


def replay(ctx: Ctx, obj: dict) -> bool:
    if "input" in obj and "rules" in obj:
        c = Ctx(ctx.pid, "quick", 0)
        off, boxo = snap_md(obj["preset"], {"typographer": False}, obj["rules"])
        on, boxn = snap_md(obj["preset"], {"typographer": True, "quotes": obj["quotes"]}, obj["rules"])
        A, B = off.parse(obj["input"]), on.parse(obj["input"])
        compare(c, obj["input"], obj["preset"], obj["quotes"], obj["rules"], flat(boxo["pre"]), flat(boxn["pre"]), "pre", obj)
        compare(c, obj["input"], obj["preset"], obj["quotes"], obj["rules"], flat(A), flat(B), "final", obj)
        return not c.findings
    return True
