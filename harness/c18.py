"""C18 — inline text means the same in every block context; render options are inert.

Proof: lean/MdIt/Props/C18.lean — xhtml_local (xhtmlOut changes only the slash flag of tag pieces),
breaks_local + softbreak_as_hardbreak (breaks matters only for softbreak tokens, which then render
like hardbreaks), langPrefix_local (only fences with a language), alt_independent; the parser model
has no renderer option in its type.
Tie: renderer model vs real renderer under all 16 combinations of the renderer-only options (driver
`render`, shared with C04); option keys actually read during `parse` are recorded by a logging
OptionsDict and must not include a renderer-only key.
Oracle: parseInline/renderInline vs parse/render on every single-paragraph input; the same one-line
inline text in paragraph / ATX heading / list item / block quote / table cell gives the same inline
tokens and HTML; token streams identical under all renderer-option combinations; HTML under
`xhtmlOut`/`breaks`/`langPrefix` equals the baseline HTML after the documented local change
(breaks=True == baseline render of the stream with visible softbreaks retyped hardbreak).
"""
from __future__ import annotations

import copy
import itertools
import re

from .common import Ctx, Driver, Finding, enc, dec
from . import gens
from .tokcodec import enc_toks, supported

RULE = (
    "single-paragraph inputs (decided on the block parse) for parseInline/renderInline; one-line inline texts t built "
    "from inline fragments (emphasis, code spans, links, images incl. multi-line alt, entities, escapes, raw HTML) under "
    "the property's guards, embedded in 5 block contexts; all documents x the 16 combinations of xhtmlOut/breaks/"
    "langPrefix/highlight=None under each preset; a case is (input, check); non-trivial = the input has at least one "
    "inline construct / one token affected by the toggled option; distinct by case."
)

FRAGS = ["a", "b c", "*e*", "**s**", "`c`", "`` x`y ``", "[l](/u)", "[l](/u \"t\")", "![i](s)", "![i *e*](s)", "&amp;", "&#35;", "\\*",
         "<b>", "<http://x.y>", "_u_", "~~d~~", "é", "x1", "[r]", "![a\nb](s)", "\"q\"", "--"]


PIPE_FRAGS = ["|", "a|b", "`c|d`", "\\|", "x\\\\|", "[l|m](/u)", "*e|*", "trail |", "|lead", "||", "`|`", "![i|j](s)", "\\\\"]


def cell_docs(c: str) -> dict:
    """a cell text in every position / spelling of a table row: (document, index of the cell's inline token)"""
    return {"only": ("|" + c + "|\n|-|\n", 0), "last-open": ("x|" + c + "\n-|-\n", 1), "first-open": (c + "|x\n-|-\n", 0),
            "body-last-open": ("|h|k|\n|-|-|\n|y|" + c + "\n", 3), "body-first-open": ("|h|k|\n|-|-|\n" + c + "|y\n", 2),
            "padded": ("| " + c + " |\n|-|\n", 0)}


def inline_text(rng):
    n = rng.randint(1, 5)
    t = " ".join(rng.choice(FRAGS) for _ in range(n))
    return t


def kids(toks):
    for t in toks:
        if t.type == "inline":
            return t
    return None


def proj(children):
    return [(c.type, c.tag, c.nesting, c.content, c.markup, tuple(sorted(c.attrs.items())),
             tuple(proj(c.children)) if c.children is not None else None) for c in (children or [])]


def run(ctx: Ctx) -> None:
    from markdown_it.common.utils import unescapeAll
    from markdown_it import MarkdownIt
    from markdown_it.utils import OptionsDict

    quick = ctx.quick()
    rng = ctx.rng
    presets = {"cm": MarkdownIt("commonmark"), "js": MarkdownIt("js-default"), "zero": MarkdownIt("zero").enable(["emphasis", "backticks", "link", "image", "entity", "escape", "newline"])}
    n = 1200 if quick else 30000
    # ---- (1) parseInline / renderInline vs parse / render on single-paragraph inputs
    for i, src in enumerate(gens.doc_stream(rng, n, 3)):
        for name, md in presets.items():
            try:
                toks = md.parse(src)
            except Exception:
                continue
            norm = re.sub(r"\r\n?", "\n", src).replace("\x00", "�")
            if len(toks) == 3 and toks[0].type == "paragraph_open" and toks[1].content == norm:
                ctx.count((src, name, "single-par"), nontrivial=any(c in src for c in "*_`[<&\\!"))
                pi = md.parseInline(src)
                if len(pi) != 1 or pi[0].type != "inline" or proj(pi[0].children) != proj(toks[1].children):
                    ctx.fail("parseInline!=paragraph", "parseInline differs from the children of the single paragraph", {"input": src, "preset": name})
                h = md.render(src)
                ri = md.renderInline(src)
                if h != "<p>" + ri + "</p>\n":
                    ctx.fail("renderInline!=paragraph", "renderInline differs from the paragraph's HTML without <p>", {"input": src, "preset": name, "render": h[:300], "renderInline": ri[:300]})
    # ---- (2) same inline text in five block contexts
    mdc = MarkdownIt("commonmark").enable("table")
    for _ in range(400 if quick else 10000):
        t = inline_text(rng)
        if "\n" in t:
            continue
        base = kids(mdc.parse(t + "\n"))
        if base is None or base.content != t:
            continue
        ctxs = {"heading": "# " + t + "\n", "list": "- " + t + "\n", "quote": "> " + t + "\n"}
        if not re.search(r"[|\\`]", t):
            ctxs["cell"] = "|" + t + "|\n|-|\n"
        if t.rstrip().endswith("#"):
            ctxs.pop("heading")
        if not t[0].isalnum():
            ctxs.pop("list", None)
            ctxs.pop("quote", None)
        for cname, doc in ctxs.items():
            k = kids(mdc.parse(doc))
            ctx.count((t, cname), nontrivial=True)
            if k is None or proj(k.children) != proj(base.children):
                ctx.fail("context-dependent", f"the inline text parses differently in context {cname} than in a paragraph", {"input": doc, "t": t, "context": cname})
    # ---- (2a) table cells in every row position, rows with and without the optional enclosing pipes, texts holding pipes (written `\\|`
    # in the cell, as GFM prescribes; `C09.escSplit_escapeAll` / `escSplit_row` are the theorems behind it): the cell's children are the
    # paragraph's children (seeded change C18l: enclosing pipes stripped by a regex that ignores escaping)
    ncell = 0
    for _ in range(500 if quick else 12000):
        t = " ".join(rng.choice(FRAGS + PIPE_FRAGS + PIPE_FRAGS) for _ in range(rng.randint(1, 4)))
        if "\n" in t or t.endswith("\\") or t != t.strip():
            continue
        base = kids(mdc.parse(t + "\n"))
        if base is None or base.content != t:
            continue
        for cname, (doc, idx) in cell_docs(t.replace("|", "\\|")).items():
            inl = [x for x in mdc.parse(doc) if x.type == "inline"]
            ncell += 1
            ctx.count((t, "cell-" + cname), nontrivial="|" in t)
            if len(inl) <= idx or proj(inl[idx].children) != proj(base.children):
                ctx.fail("context-dependent", f"the inline text parses differently in a table cell ({cname}) than in a paragraph", {"input": doc, "t": t, "context": "cell-" + cname, "index": idx})
    ctx.cov["cell_positions"] = {"comparisons": ncell, "row_spellings": 6}
    # ---- (2b) the nesting budget is the inline parser's own: texts whose bracket / emphasis depth is around maxNesting mean the
    #      same in every block context and under parseInline (a block level leaking into the inline level shifts the cut-off)
    for mn in (6, 8, 20):
        mdn = MarkdownIt("commonmark", {"maxNesting": mn}).enable("table")
        fam = []
        for k in range(max(1, mn - 7), mn + 3):
            fam += ["a " + "[" * k + "foo](/url)", "a " + "![" * k + "foo](/url)", "a " + "[" * k + "x" + "](/u)" * k,
                    "a " + "*b " * k + "c" + "*" * k, "a " + "[*" * k + "x" + "*](/u)" * k]
        for t in fam:
            base = kids(mdn.parse(t + "\n"))
            if base is None or base.content != t:
                continue
            pi = mdn.parseInline(t)
            ctx.count((t, mn, "parseInline"), nontrivial=True)
            if proj(pi[0].children) != proj(base.children):
                ctx.fail("parseInline!=paragraph", f"parseInline differs from the paragraph's children near the nesting limit (maxNesting={mn})",
                         {"input": t, "preset": "commonmark", "maxNesting": mn})
            for cname, doc in {"heading": "# " + t + "\n", "list": "- " + t + "\n", "quote": "> " + t + "\n", "cell": "|" + t + "|\n|-|\n"}.items():
                k2 = kids(mdn.parse(doc))
                ctx.count((t, mn, cname), nontrivial=True)
                if k2 is None or proj(k2.children) != proj(base.children):
                    ctx.fail("context-dependent", f"the inline text parses differently in context {cname} than in a paragraph near the nesting limit (maxNesting={mn})",
                             {"input": doc, "t": t, "context": cname, "maxNesting": mn})
    # ---- (3) renderer-only options
    combos = list(itertools.product([False, True], [False, True], ["language-", "x-", ""]))
    lines, exp, metas = [], [], []
    docs = list(gens.doc_stream(rng, 500 if quick else 12000, 6))
    docs += ["![first\nsecond](/img.png)\n", "a\nb ![x\ny *z*\nw](u) c\n", "```py\nx\n```\n", "~~~ a&b\n~~~\n", "- a\n  b\n\n1. ![p\nq](r)\n",
             "\"test <br>\n", "<hr>\n\na <img src=x> b  \nc\n\n***\n"]
    for pname in ("commonmark", "js-default"):
        basemd = MarkdownIt(pname, {"xhtmlOut": False, "breaks": False, "langPrefix": "language-"})
        others = {c: MarkdownIt(pname, {"xhtmlOut": c[0], "breaks": c[1], "langPrefix": c[2]}) for c in combos}
        for src in docs:
            try:
                env = {}
                toks = basemd.parse(src, env)
                h0 = basemd.renderer.render(copy.deepcopy(toks), basemd.options, env)
            except Exception:
                continue
            p0 = [t.as_dict() for t in toks]
            affected = any(t.type == "fence" or any(c.type in ("softbreak", "hardbreak", "image") for c in (t.children or [])) for t in toks) or "hr" in [t.type for t in toks]
            ctx.count((src, pname, "ropts"), nontrivial=affected)
            for c, md in others.items():
                try:
                    t2 = md.parse(src, {})
                except Exception:
                    continue
                if [t.as_dict() for t in t2] != p0:
                    ctx.fail("ropts-change-tokens", f"renderer-only options {c} changed the token stream", {"input": src, "preset": pname, "options": list(c)})
                    break
                h = md.render(src)
                # expected: the baseline stream with visible softbreaks retyped (if breaks), rendered by the baseline renderer
                # with only the tested option's documented local change applied
                st = copy.deepcopy(toks)
                raw = []        # raw HTML passes through verbatim: keep it out of reach of the expected-output rewriting

                def hide(ts):
                    for t in ts:
                        if t.type in ("html_block", "html_inline"):
                            raw.append(t.content)
                            t.content = f"@@RAW{len(raw) - 1}@@"
                        if t.children:
                            hide(t.children)
                hide(st)
                if c[1]:
                    for t in st:
                        for ch in (t.children or []):
                            if ch.type == "softbreak":
                                ch.type = "hardbreak"
                want = basemd.renderer.render(st, basemd.options, env)
                if c[0]:
                    want = re.sub(r"<(br|hr|img)((?: [a-z]+=\"[^\"]*\")*)>", r"<\1\2 />", want)
                if c[2] != "language-":
                    want = re.sub(r'(<code(?: [a-z]+="[^"]*")*? class=")language-', lambda m: m.group(1) + c[2].replace("\\", "\\\\"), want)
                want = re.sub(r"@@RAW(\d+)@@", lambda m: raw[int(m.group(1))], want)
                if h != want:
                    ctx.fail("ropts-not-local", f"renderer options (xhtmlOut, breaks, langPrefix)={c} changed the HTML outside their documented place",
                             {"input": src, "preset": pname, "options": list(c), "got": h[:400], "want": want[:400]})
                    break
    # ---- (3b) highlight: called for fenced blocks only, with (content, first info word, rest of info); a callback that returns a
    # falsy value leaves the HTML as it is without a callback; documents without a fence are never handed to it
    for pname in ("commonmark", "js-default"):
        basemd = MarkdownIt(pname)
        for src in docs[: (400 if quick else 6000)] + ["para\n\n    indented <code>\n\n- item\n\n      nested indented\n", "    a\n\n```x y z\nf\n```\n\n\tb\n"]:
            calls = []

            def hl(content, lang, attrs, _c=calls):
                _c.append((content, lang, attrs))
                return ""
            try:
                toks = basemd.parse(src)
                h0 = basemd.render(src)
                h1 = MarkdownIt(pname, {"highlight": hl}).render(src)
            except Exception:
                continue
            fences = [t for t in toks if t.type == "fence"]
            nested = []

            def walk(ts):
                for t in ts:
                    if t.type == "fence":
                        nested.append(t)
            walk(toks)
            want_calls = []
            for t in nested:
                info = unescapeAll(t.info).strip() if t.info else ""
                parts = info.split(maxsplit=1) if info else []
                want_calls.append((t.content, parts[0] if parts else "", parts[1] if len(parts) > 1 else ""))
            ctx.count((src, pname, "highlight"), nontrivial=bool(fences) or "    " in src)
            if h1 != h0:
                ctx.fail("highlight-not-local", "a highlight callback that returns nothing changed the HTML",
                         {"input": src, "preset": pname, "got": h1[:400], "want": h0[:400]})
                break
            if calls != want_calls:
                ctx.fail("highlight-not-local", "the highlight callback is not called exactly once per fenced block with (content, language, attributes)",
                         {"input": src, "preset": pname, "calls": [list(c) for c in calls][:6], "fences": [list(c) for c in want_calls][:6]})
                break
    # ---- tie: option keys read by the parser
    reads = set()

    class LogOpts(OptionsDict):
        def __getitem__(self, k):
            reads.add(k)
            return super().__getitem__(k)

        def get(self, k, d=None):
            reads.add(k)
            return super().get(k, d)
    for name in ("xhtmlOut", "breaks", "langPrefix", "highlight", "html", "typographer", "quotes", "maxNesting", "linkify"):
        prop = getattr(OptionsDict, name)
        setattr(LogOpts, name, property(lambda self, _n=name, _p=prop: (reads.add(_n), _p.fget(self))[1], prop.fset))
    for pname in ("commonmark", "js-default"):
        md = MarkdownIt(pname, {"typographer": True})
        md.options = LogOpts(dict(md.options))
        for src in docs[:200]:
            try:
                md.parse(src)
            except Exception:
                pass
    bad = reads & {"xhtmlOut", "breaks", "langPrefix", "highlight"}
    ctx.cov["option_keys_read_by_parse"] = sorted(reads)
    ctx.corr_compared += 1
    if bad:
        ctx.mismatch("the parser reads renderer-only options (the model's parser has no such input)", {"keys": sorted(bad)})
    # ---- the whole pipeline rendered under the three render options: model HTML == implementation HTML (driver `fullrender`)
    from . import pipeline
    from .common import Driver
    drv = Driver()
    try:
        pipeline.tie_full(ctx, drv, 2000 if quick else 50000, ref=True, render=True)
        pipeline.tie_full(ctx, drv, 1500 if quick else 40000, table=True)     # all eleven block rules: the table rule in the main chain and as a terminator (driver `fullparset`)
    finally:
        drv.close()
    ctx.partial += [
        "the context clause (heading/list/quote/cell give the same inline tokens) and the parseInline/renderInline clause rest "
        "on the block rules handing the inline parser exactly t: decided by the oracle (block rules not modelled); the "
        "renderer-option clauses are theorems on the renderer model, which C04 ties to the real renderer",
    ]


def search(ctx: Ctx):
    """a broken tie or proof: look for an input on the implementation — the same inline text in a paragraph and in every cell position"""
    import random

    from markdown_it import MarkdownIt

    rng = random.Random(ctx.seed + 77)
    md = MarkdownIt("commonmark").enable("table")
    for _ in range(4000):
        t = " ".join(rng.choice(FRAGS + PIPE_FRAGS + PIPE_FRAGS) for _ in range(rng.randint(1, 4)))
        if "\n" in t or t.endswith("\\") or t != t.strip():
            continue
        try:
            base = kids(md.parse(t + "\n"))
            if base is None or base.content != t:
                continue
            for cname, (doc, idx) in cell_docs(t.replace("|", "\\|")).items():
                inl = [x for x in md.parse(doc) if x.type == "inline"]
                if len(inl) <= idx or proj(inl[idx].children) != proj(base.children):
                    return Finding("context-dependent", f"the inline text parses differently in a table cell ({cname}) than in a paragraph",
                                   {"input": doc, "t": t, "context": "cell-" + cname, "index": idx})
        except Exception:
            continue
    return None


def replay(ctx: Ctx, obj: dict) -> bool:
    from markdown_it import MarkdownIt

    if obj.get("kind") == "context-dependent" and "index" in obj and "t" in obj:
        md = MarkdownIt("commonmark").enable("table")
        base = kids(md.parse(obj["t"] + "\n"))
        inl = [x for x in md.parse(obj["input"]) if x.type == "inline"]
        return base is not None and len(inl) > obj["index"] and proj(inl[obj["index"]].children) == proj(base.children)
    return True
