"""C07 — top-level blocks are parsed independently: documents compose by concatenation.

Proof: lean/MdIt/Props/C07.lean — frame (under the rule contracts the block loop returns with the
line tables, lineMax, blkIndent and level of its entry state: nothing of the indentation bookkeeping
leaks into the next block) and stages (blocks are emitted with increasing, disjoint line ranges).
Tie: contract monitor (K4 restore, K3 progress, K5 maps) on every real rule call; block-loop replay.
Oracle: the concatenation law itself on pairs (A, B) with the side conditions decided on the block
parse — blocks(A + blank + B) == blocks(A) ++ shift(blocks(B)) on block tokens and inline content,
under several configurations; B-blocks that start with constructs sensitive to what precedes them
(lists that may not interrupt a paragraph, setext underlines, lazy lines) are generated on purpose.
"""
from __future__ import annotations

from .common import Ctx, Driver, Finding
from . import gens, monitor

RULE = (
    "pairs (A, B) of newline-terminated tab-free documents from G-doc plus targeted B-blocks (quote/list/heading "
    "followed directly by list items not starting at 1, empty bullets, setext underlines, lazy lines, tables, fences), "
    "side conditions decided on the block parse (A ends closed; B starts at column 0; not list+list / code+code at the "
    "seam), 4 configurations; a case is (A, B, configuration); non-trivial = both have at least one block and B has at "
    "least two lines; distinct by case."
)

B_SPECIAL = ["> quote\n2. item\n", "> quote\n-\n", "> q\n7) x\n\ntail\n", "# h\n2. x\n", "***\n-\n", "> a\n===\n", "> a\nlazy\n- x\n",
             "- a\n\n  b\n- c\n", "1. a\n\n   b\n", "```\nx\n```\n3. y\n", "> - a\n> - b\n2. c\n", "|a|b|\n|-|-|\n|1|2|\nx\n", "<div>\n2. x\n</div>\n",
             "> q\n1. x\n", "[r]: /u\n2. x\n", "> q\n    code\n", "* a\n+ b\n- c\n",
             # reference definitions spread over lines that look like list items / other blocks (label, destination, title)
             "[foo\n2. bar]: /url\n", "[foo\n-\nbar]: /url\n", "[foo]:\n2. /url\n", "[foo]: /url\n'title\n2. more'\n", "[foo\n7) x\n]: /u\ntail\n",
             "[a\n> b]: /u\n", "[a\n# b]: /u\n", "[a\n***\nb]: /u\n"]
A_SPECIAL = ["intro\n", "intro\n\n# title\n", "# title\n", "- a\n\npara\n", "> q\n\npara\n", "para\nmore\n", "a\n===\n", "    code\n\npara\n",
             "```\nf\n```\n", "***\n", "[x]: /u\n\npara\n"]


# every block opener directly followed (no blank line) by every line whose reading depends on what it would interrupt
OPENERS = ["> q\n", "# h\n", "***\n", "|a|b|\n|-|-|\n|1|2|\n", "|a|\n|-|\n", "```\nx\n```\n", "<div>\n", "[r]: /u\n", "- a\n", "1. a\n", "para\n",
           "    code\n", "a\n===\n", "> - a\n", "- > a\n", "<!-- c -->\n"]
FOLLOWERS = ["2. x\n", "-\n", "7) x\n", "===\n", "---\n", "lazy\n", "    code\n", "1. x\n", "- x\n", "> q\n", "# h\n", "|c|d|\n", "<div>\n",
             "[r2]: /v\n", "```\n", "1.\n", "*\n", "10. x\n"]


def blk(ts, dm=0):
    out = []
    for t in ts:
        out.append((t.type, t.tag, t.nesting, t.level, None if t.map is None else (t.map[0] + dm, t.map[1] + dm), t.content, t.markup,
                    t.info, t.hidden, tuple(t.attrs.items())))
    return out


def law(md, A, B):
    ta, tb = md.parse(A), md.parse(B)
    probe = md.parse(A + "\nzzz\n")
    okA = (len(probe) >= 3 and probe[-3].type == "paragraph_open" and probe[-3].level == 0 and probe[-2].content == "zzz"
           and blk(probe[:-3]) == blk(ta))
    if not okA or not tb or B[0] in " \n":
        return None
    la = ta[-1].type if ta else ""
    fb = tb[0].type
    if (la.endswith("list_close") and fb.endswith("list_open")) or (la == "code_block" and fb == "code_block"):
        return None
    nA = len(A.split("\n")) - 1
    tc = md.parse(A + "\n" + B)
    return blk(tc) == blk(ta) + blk(tb, nA + 1)


def run(ctx: Ctx) -> None:
    quick = ctx.quick()
    rng = ctx.rng
    cfgs = [gens.FIXED_CFGS[0], gens.FIXED_CFGS[1], gens.FIXED_CFGS[4], gens.FIXED_CFGS[5]]
    mds = [(gens.make_md(c), c) for c in cfgs]
    n = 2500 if quick else 60000

    def one(A, B):
        for md, cfg in mds:
            try:
                r = law(md, A, B)
            except Exception:
                continue
            ctx.count((A, B, gens.cfg_key(cfg)), nontrivial=(r is not None and B.count("\n") >= 2))
            if r is False:
                ctx.fail("not-compositional", "blocks(A + blank + B) differ from blocks(A) ++ shifted blocks(B)",
                         {"A": A, "B": B, "input": A + "\n" + B, "cfg": cfg})
    for A in A_SPECIAL:
        for B in B_SPECIAL:
            one(A, B)
    for A in (A_SPECIAL if not quick else A_SPECIAL[:4] + A_SPECIAL[8:9]):
        for o in OPENERS:
            for f in FOLLOWERS:
                one(A, o + f)
                if not quick:
                    one(A, o + f + rng.choice(FOLLOWERS))
    for i in range(n):
        A = (rng.choice(A_SPECIAL) if i % 3 == 0 else gens.struct_doc(rng, 1) if i % 3 == 1 else gens.rand_doc(rng, 4)).replace("\t", " ").replace("\r", "").replace("\x00", "")
        B = (rng.choice(B_SPECIAL) if i % 4 == 0 else gens.struct_doc(rng, 1) if i % 4 == 2 else gens.rand_doc(rng, 4)).replace("\t", " ").replace("\r", "").replace("\x00", "")
        if not A.endswith("\n"):
            A += "\n"
        if not B.endswith("\n"):
            B += "\n"
        one(A, B)
        if len(ctx.samples) < 3 and i % 50 == 0:
            ctx.sample({"A": A[:50], "B": B[:50]})
    # tie: contracts + loop replay (shared machinery with C01)
    mon = monitor.Monitor()
    mmds = []
    for c in cfgs:
        m = gens.make_md(c)
        monitor.instrument(m, mon)
        mmds.append(m)
    for i in range(400 if quick else 8000):
        A, B = rng.choice(A_SPECIAL), (rng.choice(B_SPECIAL) if i % 2 else rng.choice(OPENERS) + rng.choice(FOLLOWERS))
        try:
            mmds[i % len(mmds)].parse(A + "\n" + B)
            mmds[i % len(mmds)].parse(gens.rand_doc(rng, 6))
        except Exception:
            pass
    for v in mon.violations[:10]:
        if v["what"].startswith(("K4", "K3", "K2", "K6")):
            ctx.mismatch("rule contract violated on the implementation: " + v["what"], {k: (w if not isinstance(w, str) else w[:400]) for k, w in v.items()})
    drv = Driver()
    try:
        loops = mon.loops[:2000]
        got = drv.batch([monitor.loop_request(r) for r in loops])
        for r, g in zip(loops, got):
            ctx.corr_compared += 1
            if not g.startswith(f"ok {r['final_line']} "):
                ctx.mismatch("block loop: implementation and engine model end differently", {"request": monitor.loop_request(r)[:500], "impl": r["final_line"], "model": g})
        # tie of the modelled block sub-parsers (leaf rules, block quotes, lists)
        from . import miniblock
        miniblock.tie_all(ctx, drv, quick)
        from . import pipeline
        pipeline.tie_full(ctx, drv, 2000 if quick else 50000, ref=True)     # MarkdownIt.parse end to end, reference rule included
    finally:
        drv.close()
    ctx.cov["rule_calls_monitored"] = mon.calls
    ctx.cov["parentType_seen_by_silent_calls"] = {f"{a}:{b}": n_ for (a, b), n_ in sorted(mon.silent_parent.items())}
    ctx.cov["rules_testing_parentType"] = list(mon.readers)
    ctx.partial += [
        "PROVED for the modelled sub-parser (Props/C07b.lean suffix_shift, concat_law for the chains with block quotes; Props/C07c.lean "
        "l_suffix_shift, l_concat_law for the full chains code, fence, blockquote, hr, list, heading, paragraph): once the top-level loop "
        "stands at the first line of B — n lines into the table, whatever those lines contain and whatever tokens, tight, parentType "
        "and hasEmptyLines the earlier blocks left — it appends exactly the stream of B parsed alone with every map shifted by n "
        "(simulation with a line shift over every rule, the terminator chains, the loop and the nested runs; tab-free B). "
        "NOT PROVED: the prefix half (appending blank + B does not change how A parses, i.e. that the loop does come to stand at "
        "B's first line: it needs a look-ahead-locality lemma per rule) and the rules outside the sub-parser: decided by the oracle "
        "(parentType: every terminator-running rule pins it — theorem pins_cover over the regenerated table — and the monitor "
        "checks on each real silent call that the value seen is the caller's pin, K6); the frame and staging theorems are proved at engine level under the monitored contracts",
    ]


def search(ctx: Ctx):
    c = Ctx(ctx.pid, "quick", ctx.seed + 31)
    mds = [(gens.make_md(cf), cf) for cf in (gens.FIXED_CFGS[0], gens.FIXED_CFGS[1])]
    for A in A_SPECIAL:
        for B in B_SPECIAL + [o + f for o in OPENERS for f in FOLLOWERS]:
            for md, cfg in mds:
                try:
                    if law(md, A, B) is False:
                        return Finding("not-compositional", "blocks(A + blank + B) != blocks(A) ++ shifted blocks(B)", {"A": A, "B": B, "input": A + "\n" + B, "cfg": cfg})
                except Exception:
                    pass
    return None


def replay(ctx: Ctx, obj: dict) -> bool:
    if "A" in obj and "B" in obj:
        return law(gens.make_md(obj["cfg"]), obj["A"], obj["B"]) is not False
    return True
