"""C13 — concurrent or nested parses on a shared instance do not interfere.

Proof: lean/MdIt/Props/C13.lean (model lean/MdIt/Conc.lean): every schedule, every thread count.
Tie:
 (i)  micro-step correspondence: `Ruler.getRules/__compile__` single-stepped with sys.monitoring
      INSTRUCTION events on a dirty ruler; the sequence of distinct observable values of
      `ruler.__cache__` must be the model's (None, then the complete dict);
 (ii) shared-write audit: during parse/render the only attribute/item store on shared objects
      (MarkdownIt, Parser*, Ruler, Rule, RendererHTML, OptionsDict, renderer.rules) is `Ruler.__cache__`;
 (iii) pre-emption exploration (failing-schedule search = oracle): thread A renders; at the k-th library
      instruction B's complete render runs from inside the callback (a pre-empting thread that runs to
      completion / a re-entrant call), results must equal the solo results; SIGALRM watchdog for hangs;
      fresh and freshly reconfigured instances; plus real threads with a tiny switch interval.
"""
from __future__ import annotations

import signal
import sys
import threading

from .common import Ctx, Driver, Finding, enc, enc_list

RULE = (
    "pre-emption points k = index of the library bytecode instruction of render(A) at which render(B) "
    "runs to completion on the same instance (all instructions inside ruler.py + an even sample of the "
    "rest; thorough: every instruction, plus nested A>B>C), on a fresh and on a freshly reconfigured "
    "instance, several document pairs/presets; a case is (pair, start, k); non-trivial = the pre-emption "
    "happened while at least one ruler cache was still unpublished or inside getRules/__compile__; "
    "distinct by (pair, start, k)."
)

mon = sys.monitoring
TOOL = mon.DEBUGGER_ID

PAIRS = [
    ("js-default", "# a *b*\n\n> q `c`\n", "- x\n- [y](z)\n\n|a|b|\n|-|-|\n|1|2|\n"),
    ("commonmark", "1. a\n   b\n\n<div>\nx\n</div>\n\n[r]: /u 't'\n\n[r] ![i](s)\n", "***\n\n    code\n\n~~~\nf\n~~~\n"),
    ("zero", "plain *text*\n", "> more\n"),
    ("commonmark", "[a](/u 't') ![i](s) <http://x.y>\n\n[r]: /v\n", "[b](</w> \"q\") [r] ![j](k)\n\n[r]: /z 'T'\n"),
    ("commonmark", "``x `a` pad `b` ```c `d`\n", "`` `z` ``` ` y\n"),
]

HOOK_DOCS = [("commonmark", "[a](/u 't') (see b) ![i](/s \"u\") <http://x.y> end\n\n[r]: /v 'w'\n\n[r] tail\n", "[b](/other \"q\") ![j](/k) [r2]\n\n[r2]: </z z> 'T'\n"),
             ("js-default", "*a* [l](/1) `c` [m](/2 't') ~~s~~ <http://p.q>\n", "![x](/3) [y](/4)\n\n|h|\n|-|\n|[z](/5)|\n"),
             # per-parse scan caches (backtick closers, skipToken positions): the inner parse has closers where the outer has none
             ("commonmark", "``x `a` [l](/u) `b` ```c [m](/v) `d`\n", "`` `z` ``` ` y\n"),
             ("commonmark", "[[[ `a` [l](/u) ]]] `b` <http://x.y> ``c`` `\n", "` [ `` [q](/w) ]\n")]


def hook_reentry(ctx: Ctx):
    """(iv) re-entrancy from user callbacks: a validateLink / normalizeLink / normalizeLinkText hook (documented extension
    points, called in the middle of the link, image, autolink and reference rules) renders another document on the same
    instance on its j-th call; both renders must equal their solo results"""
    from markdown_it import MarkdownIt

    for preset, A, B in HOOK_DOCS:
        SA, SB = MarkdownIt(preset).render(A), MarkdownIt(preset).render(B)
        for slot in ("validateLink", "normalizeLink", "normalizeLinkText"):
            # count the calls of a solo render
            md0 = MarkdownIt(preset)
            cnt = [0]
            orig0 = getattr(md0, slot)

            def c0(u, _o=orig0):
                cnt[0] += 1
                return _o(u)
            setattr(md0, slot, c0)
            md0.render(A)
            for j in range(cnt[0]):
                for depth in (1, 2):
                    md = MarkdownIt(preset)
                    orig = getattr(md, slot)
                    st = {"n": 0, "B": [], "depth": 0}

                    def hook(u, _o=orig, _st=st, _j=j, _d=depth):
                        k = _st["n"]
                        _st["n"] += 1
                        if k == _j and _st["depth"] < _d:
                            _st["depth"] += 1
                            try:
                                _st["n"] = 0 if _st["depth"] < _d else -10**6   # the nested render re-enters once more at depth 2
                                _st["B"].append(md.render(B))
                            finally:
                                _st["depth"] -= 1
                                _st["n"] = k + 1
                        return _o(u)
                    setattr(md, slot, hook)
                    try:
                        ra = md.render(A)
                    except Exception as e:  # noqa: BLE001
                        ra = "EXC " + type(e).__name__
                    ctx.count(("hook", preset, slot, j, depth), nontrivial=True)
                    if ra != SA or any(b != SB for b in st["B"]) or not st["B"]:
                        ctx.fail("interference", f"a render re-entered from a {slot} hook (call {j}, depth {depth}) disturbs the outer or the inner render",
                                 {"preset": preset, "A": A, "B": B, "slot": slot, "call": j, "depth": depth, "A_result": str(ra)[:300], "A_solo": SA[:300],
                                  "B_results": [str(b)[:200] for b in st["B"]], "B_solo": SB[:200]})
                        return


class Hang(Exception):
    pass


def _alarm(sig, frm):
    raise Hang()


def _libdir():
    import markdown_it

    return markdown_it.__file__.rsplit("/", 1)[0]


def _mk(preset, start):
    from markdown_it import MarkdownIt

    md = MarkdownIt(preset)
    if start == "reconfigured":
        md.render("warm *up* [a](b)\n\n> - x\n")
        # reconfiguration through the public API: caches dropped, configuration as before
        act = md.get_active_rules()
        md.disable("paragraph")  # noqa
        md.enable("paragraph")
        assert md.get_active_rules() == act
    return md


def explore(preset, A, B, k, start, mode, C=None, k2=None):
    """render(A); at the k-th counted instruction run render(B) to completion (and inside B, at its
    k2-th instruction, render(C)).  mode 'all' counts every library instruction, 'ruler' only those of
    ruler.py.  k=None just counts.  Returns (count, results, dirty_at_preemption)."""
    lib = _libdir()
    md = _mk(preset, start)
    n = [0]
    n2 = [0]
    res = {}
    depth = [0]
    dirty = [False]

    def counted(code):
        if mode == "ruler":
            return code.co_filename.endswith("/ruler.py")
        return True

    def cb(code, off):
        if not code.co_filename.startswith(lib):
            return mon.DISABLE
        if depth[0] == 0:
            if not counted(code):
                return
            n[0] += 1
            if k is not None and n[0] == k:
                dirty[0] = any(
                    r.__cache__ is None
                    for r in (md.core.ruler, md.block.ruler, md.inline.ruler, md.inline.ruler2)
                ) or code.co_filename.endswith("/ruler.py")
                depth[0] = 1
                try:
                    res["B"] = md.render(B)
                except Hang:
                    res["B"] = "HANG"
                except Exception as e:
                    res["B"] = "EXC " + type(e).__name__
                finally:
                    depth[0] = 0
        elif depth[0] == 1 and C is not None:
            n2[0] += 1
            if k2 is not None and n2[0] == k2:
                depth[0] = 2
                try:
                    res["C"] = md.render(C)
                except Hang:
                    res["C"] = "HANG"
                except Exception as e:
                    res["C"] = "EXC " + type(e).__name__
                finally:
                    depth[0] = 1

    mon.use_tool_id(TOOL, "verif")
    mon.register_callback(TOOL, mon.events.INSTRUCTION, cb)
    mon.set_events(TOOL, mon.events.INSTRUCTION)
    signal.setitimer(signal.ITIMER_REAL, 2.0)
    try:
        res["A"] = md.render(A)
    except Hang:
        res["A"] = "HANG"
    except Exception as e:
        res["A"] = "EXC " + type(e).__name__
    finally:
        signal.setitimer(signal.ITIMER_REAL, 0)
        mon.set_events(TOOL, 0)
        mon.register_callback(TOOL, mon.events.INSTRUCTION, None)
        mon.free_tool_id(TOOL)
        mon.restart_events()
    return n[0], res, dirty[0]


def microstep_trace(rules_spec, chain):
    """Single-step getRules(chain) on a fresh real Ruler holding `rules_spec`; return the distinct
    consecutive observable values of __cache__ (canonical strings as the driver prints them)."""
    from markdown_it.ruler import Ruler

    class F:
        def __init__(self, n):
            self.n = n

    r = Ruler()
    for name, en, fn, alt in rules_spec:
        r.push(name, F(fn), {"alt": list(alt)})
    for i, (name, en, fn, alt) in enumerate(rules_spec):
        r.__rules__[i].enabled = en
    r.__cache__ = None

    def canon():
        c = r.__cache__
        if c is None:
            return "N"
        items = sorted(c.items())
        return "D" + ";".join(enc(k) + "=" + (",".join(str(f.n) for f in v) or "~") for k, v in items)

    trace = [canon()]

    def cb(code, off):
        if not code.co_filename.endswith("/ruler.py"):
            return mon.DISABLE
        c = canon()
        if trace[-1] != c:
            trace.append(c)

    mon.use_tool_id(TOOL, "verif")
    mon.register_callback(TOOL, mon.events.INSTRUCTION, cb)
    mon.set_events(TOOL, mon.events.INSTRUCTION)
    try:
        got = r.getRules(chain)
    finally:
        mon.set_events(TOOL, 0)
        mon.register_callback(TOOL, mon.events.INSTRUCTION, None)
        mon.free_tool_id(TOOL)
        mon.restart_events()
    c = canon()
    if trace[-1] != c:
        trace.append(c)
    return trace, [f.n for f in got]


def write_audit(ctx: Ctx, docs):
    """(ii) shared-write audit."""
    from markdown_it import MarkdownIt
    from markdown_it.parser_block import ParserBlock
    from markdown_it.parser_core import ParserCore
    from markdown_it.parser_inline import ParserInline
    from markdown_it.renderer import RendererHTML
    from markdown_it.ruler import Rule, Ruler
    from markdown_it.utils import OptionsDict

    writes = []
    active = [False]
    classes = [MarkdownIt, ParserBlock, ParserCore, ParserInline, RendererHTML, Ruler, Rule, OptionsDict]
    saved = {}

    def mk(cls):
        orig = cls.__setattr__

        def hook(self, name, value):
            if active[0]:
                writes.append((cls.__name__, name))
            return orig(self, name, value)

        return orig, hook

    for cls in classes:
        orig, hook = mk(cls)
        saved[cls] = orig
        cls.__setattr__ = hook
    orig_si = OptionsDict.__setitem__

    def si(self, k, v):
        if active[0]:
            writes.append(("OptionsDict[]", k))
        return orig_si(self, k, v)

    OptionsDict.__setitem__ = si
    try:
        for preset in ("commonmark", "js-default", "zero"):
            md = MarkdownIt(preset, {"typographer": True} if preset == "js-default" else None)

            class RulesDict(dict):
                def __setitem__(s, k, v):
                    if active[0]:
                        writes.append(("renderer.rules[]", k))
                    return dict.__setitem__(s, k, v)

            md.renderer.rules = RulesDict(md.renderer.rules)
            for d in docs:
                active[0] = True
                try:
                    md.render(d)
                    md.parseInline(d)
                finally:
                    active[0] = False
    finally:
        for cls in classes:
            cls.__setattr__ = saved[cls]
        OptionsDict.__setitem__ = orig_si
    bad = sorted({w for w in writes if w != ("Ruler", "__cache__")})
    ctx.cov["shared_writes_observed"] = sorted({f"{a}.{b}" for a, b in writes})
    return bad


def threads_run(preset, A, B, rounds):
    """real threads, tiny switch interval, fresh instance each round"""
    from markdown_it import MarkdownIt

    SA, SB = MarkdownIt(preset).render(A), MarkdownIt(preset).render(B)
    old = sys.getswitchinterval()
    sys.setswitchinterval(1e-6)
    bad = None
    try:
        for i in range(rounds):
            md = MarkdownIt(preset)
            out = {}
            bar = threading.Barrier(2)

            def w(name, src):
                bar.wait()
                try:
                    out[name] = md.render(src)
                except Exception as e:
                    out[name] = "EXC " + type(e).__name__

            ts = [threading.Thread(target=w, args=("A", A), daemon=True),
                  threading.Thread(target=w, args=("B", B), daemon=True)]
            for t in ts:
                t.start()
            for t in ts:
                t.join(5)
            if any(t.is_alive() for t in ts):
                bad = {"round": i, "A": "HANG?", "B": "HANG?"}
                break
            if out.get("A") != SA or out.get("B") != SB:
                bad = {"round": i, "A_ok": out.get("A") == SA, "B_ok": out.get("B") == SB}
                break
    finally:
        sys.setswitchinterval(old)
    return bad


def run(ctx: Ctx) -> None:
    from markdown_it import MarkdownIt

    quick = ctx.quick()
    rng = ctx.rng
    signal.signal(signal.SIGALRM, _alarm)
    # ---- (i) micro-step correspondence through the driver
    drv = Driver()
    try:
        specs = []
        names = ["a", "b", "c", "d"]
        for _ in range(60 if quick else 600):
            k = rng.randint(0, 5)
            spec = [(rng.choice(names), rng.random() < 0.7, i + 1, rng.choice([[], ["x"], ["y"], ["x", "y"]]))
                    for i in range(k)]
            specs.append((spec, rng.choice(["", "x", "y", "q"])))
        lines = []
        for spec, ch in specs:
            rs = ";".join(f"{enc(n)}/{1 if e else 0}/{f}/{enc_list(a)}" for n, e, f, a in spec) or "~"
            lines.append(f"conc {rs} {enc_list([ch]) if ch else '-'} 0,0,0,0,0,0")
        model = drv.batch(lines)
        for (spec, ch), line, mo in zip(specs, lines, model):
            trace, got = microstep_trace(spec, ch)
            impl = "got:" + enc(ch) + "=" + (",".join(map(str, got)) or "~") + " trace:" + ">".join(trace)
            ctx.corr_compared += 1
            ctx.count(("micro", line), nontrivial=len(spec) > 0)
            if impl != mo:
                ctx.mismatch("getRules micro-steps: observable cache values differ from the model",
                             {"request": line, "impl": impl, "model": mo})
            if len(trace) > 2 and not any(f.kind == "half-built-cache-visible" for f in ctx.findings):
                ctx.fail("half-built-cache-visible",
                         "Ruler.__cache__ takes an intermediate value between None and the complete dict",
                         {"rules": [list(map(str, s)) for s in spec], "chain": ch, "cache_values": trace})
        ctx.sample({"microstep": lines[0], "model": model[0]})
    finally:
        drv.close()
    # ---- (ii) shared-write audit
    docs = [p[1] for p in PAIRS] + [p[2] for p in PAIRS] + ["![a *b*](c) \"q\" -- ...\n", "a\\\nb  \nc\n"]
    bad = write_audit(ctx, docs)
    if bad:
        ctx.fail("shared-write", f"parse/render wrote shared instance state other than Ruler.__cache__: {bad}",
                 {"writes": [list(b) for b in bad]})
    # ---- (iv) re-entrancy from user callbacks
    hook_reentry(ctx)
    # ---- (iii) pre-emption exploration
    points = 0
    budget_pts = 1400 if quick else 60000
    pairs = PAIRS if not quick else PAIRS
    per = budget_pts // (len(pairs) * 2 * 2)
    for pi, (preset, A, B) in enumerate(pairs):
        SA, SB = MarkdownIt(preset).render(A), MarkdownIt(preset).render(B)
        for start in ("fresh", "reconfigured"):
            for mode in ("ruler", "all"):
                N, _, _ = explore(preset, A, B, None, start, mode)
                if N == 0:
                    continue
                if mode == "ruler" or not quick:
                    step = max(1, N // per) if quick else 1
                else:
                    step = max(1, N // per)
                off = rng.randrange(step) if step > 1 else 0
                ks = list(range(1 + off, N + 1, step))
                ctx.cov[f"instructions[{preset},{start},{mode}]"] = N
                for k in ks:
                    _, r, dirty = explore(preset, A, B, k, start, mode)
                    points += 1
                    ctx.count((pi, start, mode, k), nontrivial=dirty)
                    if r.get("A") != SA or r.get("B") != SB:
                        ctx.fail("interference",
                                 "pre-empted render differs from its solo result",
                                 {"preset": preset, "A": A, "B": B, "start": start, "mode": mode, "k": k,
                                  "A_result": str(r.get("A"))[:200], "B_result": str(r.get("B"))[:200],
                                  "A_solo": SA[:200], "B_solo": SB[:200]})
                        if len(ctx.findings) > 20:
                            break
                    elif len(ctx.samples) < 5 and dirty:
                        ctx.sample({"preset": preset, "start": start, "mode": mode, "k": k, "ok": True})
    # nested pre-emption A ⊃ B ⊃ C (thorough: many, quick: a few)
    preset, A, B = PAIRS[0]
    C = "[l](u)\n"
    SA, SB, SC = (MarkdownIt(preset).render(x) for x in (A, B, C))
    nn = 40 if quick else 3000
    for _ in range(nn):
        k = rng.randint(1, 400)
        k2 = rng.randint(1, 400)
        _, r, dirty = explore(preset, A, B, k, "fresh", "all", C=C, k2=k2)
        points += 1
        ctx.count(("nested", k, k2), nontrivial=dirty)
        if r.get("A") != SA or r.get("B") != SB or ("C" in r and r["C"] != SC):
            ctx.fail("interference", "nested pre-emption: a render differs from its solo result",
                     {"preset": preset, "A": A, "B": B, "C": C, "k": k, "k2": k2,
                      "results": {x: str(v)[:120] for x, v in r.items()}})
    ctx.cov["preemption_points"] = points
    # real threads
    tb = threads_run("js-default", PAIRS[0][1] * 3, PAIRS[0][2] * 3, 30 if quick else 1500)
    ctx.cov["thread_rounds"] = 30 if quick else 1500
    if tb is not None:
        ctx.fail("interference", "two real threads rendering on one fresh instance interfere", tb)
    ctx.partial += [
        "not exhibited by the model: CPython's per-bytecode atomicity (GIL) is assumed; free-threaded builds and "
        "pre-emption inside dependencies (mdurl's lazily filled encode cache) are outside the property",
        "the reduction 'a parse is a function of the getRules responses, its source and env' is the sequential "
        "model; it is tied by the shared-write audit, not proved",
    ]
    ctx.assumptions += ["GIL: a pre-empting thread runs between two bytecode instructions of the library"]


def search(ctx: Ctx):
    from markdown_it import MarkdownIt

    signal.signal(signal.SIGALRM, _alarm)
    preset, A, B = PAIRS[0]
    SA, SB = MarkdownIt(preset).render(A), MarkdownIt(preset).render(B)
    for start in ("fresh", "reconfigured"):
        N, _, _ = explore(preset, A, B, None, start, "all")
        for k in range(1, N + 1, max(1, N // 3000)):
            _, r, _ = explore(preset, A, B, k, start, "all")
            if r.get("A") != SA or r.get("B") != SB:
                return Finding("interference", "pre-empted render differs from its solo result",
                               {"preset": preset, "A": A, "B": B, "start": start, "mode": "all", "k": k,
                                "A_result": str(r.get("A"))[:200], "B_result": str(r.get("B"))[:200]})
    return None


def replay(ctx: Ctx, obj: dict) -> bool:
    from markdown_it import MarkdownIt

    signal.signal(signal.SIGALRM, _alarm)
    if "k" in obj and "A" in obj:
        preset, A, B = obj["preset"], obj["A"], obj["B"]
        SA, SB = MarkdownIt(preset).render(A), MarkdownIt(preset).render(B)
        _, r, _ = explore(preset, A, B, obj["k"], obj.get("start", "fresh"), obj.get("mode", "all"),
                          C=obj.get("C"), k2=obj.get("k2"))
        return r.get("A") == SA and r.get("B") == SB
    return True
