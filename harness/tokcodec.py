"""Wire format of token streams (same as lean/MdIt/Drv/Token.lean)."""
from __future__ import annotations

from .common import enc


def enc_attrval(v) -> str:
    if isinstance(v, bool):
        return "s" + enc(str(v))
    if isinstance(v, int):
        return f"i{v}"
    if isinstance(v, float):
        return "f" + enc(repr(v))
    return "s" + enc(str(v))


def supported(tok) -> bool:
    """meta values other than str cannot be carried by the model's Token"""
    for k, v in tok.meta.items():
        if not isinstance(k, str) or not isinstance(v, str):
            return False
    for k, v in tok.attrs.items():
        if not isinstance(v, (str, int, float)) or isinstance(v, bool):
            return False
        if "," in k or "=" in k:
            pass
    return all(supported(c) for c in (tok.children or []))


def enc_tok(t) -> list[str]:
    attrs = ",".join(f"{enc(k)}={enc_attrval(v)}" for k, v in t.attrs.items()) or "~"
    meta = ",".join(f"{enc(k)}={enc(v)}" for k, v in t.meta.items()) or "~"
    mp = "N" if t.map is None else f"{t.map[0]}-{t.map[1]}"
    nch = "N" if t.children is None else str(len(t.children))
    head = "|".join([enc(t.type), enc(t.tag), str(t.nesting), attrs, mp, str(t.level), nch, enc(t.content),
                     enc(t.markup), enc(t.info), meta, "1" if t.block else "0", "1" if t.hidden else "0"])
    out = [head]
    for c in t.children or []:
        out += enc_tok(c)
    return out


def enc_toks(ts) -> list[str]:
    out = []
    for t in ts:
        out += enc_tok(t)
    return out
